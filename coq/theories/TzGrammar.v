(* TzGrammar.v — C18, the footer grammar at large: the POSIX TZ string parser reads back a rule from EVERY spelling the
   RFC 8536 footer grammar allows for it: designations alphabetic or quoted <...>, offsets and times with an optional
   sign, padded hours, and minutes / seconds omitted when zero, the DST offset omitted when it is one hour ahead of
   standard time, "/time" omitted when it is 02:00:00. *)
From Astro Require Import Base Text DateModel TimeModel ApiModel FormatModel TzModel TzProofs TzCodec PadProofs RfcProofs FieldProofs TzFooter.

(* ---------- spellings ---------- *)
Inductive sign_sp := SgNone | SgPlus | SgMinus.
Record hms_sp := mkHms { h_sign : sign_sp; h_parts : nat; h_width : Z }.      (* parts: 1 = h, 2 = h:mm, otherwise h:mm:ss *)
Definition sign_bytes (s : sign_sp) : bytes := match s with SgNone => [] | SgPlus => [43] | SgMinus => [45] end.
Definition hms_tail (parts : nat) (a : Z) : bytes :=
  match parts with
  | 1%nat => []
  | 2%nat => 58 :: zero_padded (a mod 3600 / 60) 2
  | _ => 58 :: zero_padded (a mod 3600 / 60) 2 ++ 58 :: zero_padded (a mod 60) 2
  end.
Definition hms_print (sp : hms_sp) (t : Z) : bytes :=
  sign_bytes (h_sign sp) ++ zero_padded (Z.abs t / 3600) (h_width sp) ++ hms_tail (h_parts sp) (Z.abs t).
Definition hms_sp_ok (sp : hms_sp) (t : Z) : Prop :=
  (match h_sign sp with SgMinus => t <= 0 | _ => 0 <= t end) /\
  (match h_parts sp with 1%nat => Z.abs t mod 3600 = 0 | 2%nat => Z.abs t mod 60 = 0 | _ => True end).

(* what may follow an offset or a time: nothing, or a byte that is no digit, no ':' and no '/' *)
Definition okc (c : Z) : bool := negb (is_ascii_digit c) && negb (c =? 58) && negb (c =? 47).
Definition term (rest : bytes) : Prop := match rest with [] => True | c :: _ => okc c = true end.
Lemma term_nd rest : term rest -> nd rest.
Proof. destruct rest as [|c r]; [exact (fun x => x)|]. cbn [term nd]. unfold okc. intros H. apply andb_true_iff in H as [H _]. apply andb_true_iff in H as [H _]. apply negb_true_iff in H. exact H. Qed.
Lemma term_58 rest : term rest -> head_is 58 rest = false.
Proof. destruct rest as [|c r]; [reflexivity|]. cbn [term head_is]. unfold okc. intros H. apply andb_true_iff in H as [H _]. apply andb_true_iff in H as [_ H]. apply negb_true_iff in H. exact H. Qed.
Lemma term_47 rest : term rest -> head_is 47 rest = false.
Proof. destruct rest as [|c r]; [reflexivity|]. cbn [term head_is]. unfold okc. intros H. apply andb_true_iff in H as [_ H]. apply negb_true_iff in H. exact H. Qed.

Lemma parse_hms_print sp t rest : hms_sp_ok sp t -> Z.abs t < 1000000000 -> term rest ->
  parse_hms (hms_print sp t ++ rest) = TzOk (match h_sign sp with SgMinus => -1 | _ => 1 end, Z.abs t / 3600, Z.abs t mod 3600 / 60, Z.abs t mod 60, rest).
Proof.
  intros (Hsg & Hpt) Ht Hr. unfold hms_print. set (a := Z.abs t) in *. assert (Ha : 0 <= a) by (subst a; lia).
  set (h := a / 3600). set (m := a mod 3600 / 60). set (s := a mod 60).
  assert (Hh : 0 <= h < 1000000) by (subst h; split; [apply Z.div_pos; lia | apply Z.div_lt_upper_bound; lia]).
  assert (Hm : 0 <= m < 60) by (subst m; pose proof (Z.mod_pos_bound a 3600 ltac:(lia)); split; [apply Z.div_pos; lia | apply Z.div_lt_upper_bound; lia]).
  assert (Hs : 0 <= s < 60) by (subst s; apply Z.mod_pos_bound; lia).
  assert (Z1 : h_parts sp = 1%nat -> m = 0 /\ s = 0) by (intros E; rewrite E in Hpt; subst m s; lia).
  assert (Z2 : h_parts sp = 2%nat -> s = 0) by (intros E; rewrite E in Hpt; subst s; lia).
  assert (Et : hms_tail (h_parts sp) a = match h_parts sp with 1%nat => [] | 2%nat => 58 :: zero_padded m 2 | _ => 58 :: zero_padded m 2 ++ 58 :: zero_padded s 2 end) by reflexivity.
  rewrite Et. clear Et Hpt.
  assert (P100 : 100 < 10 ^ 40) by (apply Z.ltb_lt; vm_compute; reflexivity).
  set (w := h_width sp).
  destruct (zero_padded_spec h w ltac:(split; [lia | apply small_lt_pow; lia])) as (Ah & Vh & Nh).
  destruct (zero_padded_spec m 2 ltac:(lia)) as (Am & _ & _). destruct (zero_padded_spec s 2 ltac:(lia)) as (As & _ & _).
  assert (PH : parse_int I32_MAX (zero_padded h w) = TzOk h).
  { unfold parse_int. rewrite (parse_unsigned_of_digits I32_MAX _ Ah Nh) by (rewrite Vh; unfold I32_MAX; lia). rewrite Vh. reflexivity. }
  clearbody h m s. unfold parse_hms.
  set (tl_ := match h_parts sp with 1%nat => [] | 2%nat => 58 :: zero_padded m 2 | _ => 58 :: zero_padded m 2 ++ 58 :: zero_padded s 2 end).
  assert (Body : forall dir : Z, (let '(hd, cur) := read_while is_ascii_digit (zero_padded h w ++ tl_ ++ rest) in
     let! hour := parse_int I32_MAX hd in
     if head_is 58 cur then
       let '(md, cur2) := read_while is_ascii_digit (tl cur) in
       let! minute := parse_int I32_MAX md in
       if head_is 58 cur2 then
         let '(sd, cur4) := read_while is_ascii_digit (tl cur2) in
         let! second := parse_int I32_MAX sd in TzOk (dir, hour, minute, second, cur4)
       else TzOk (dir, hour, minute, 0, cur2)
     else TzOk (dir, hour, 0, 0, cur)) = TzOk (dir, h, m, s, rest)).
  { intros dir. unfold read_while.
    assert (Nt : nd (tl_ ++ rest)).
    { subst tl_. destruct (h_parts sp) as [|[|[|k]]]; cbn [app]; try reflexivity. apply term_nd, Hr. }
    rewrite (tw_digits (zero_padded h w) _ Ah Nt), PH. cbn [tzbind]. subst tl_.
    destruct (h_parts sp) as [|[|[|k]]] eqn:Ep.
    - cbn [app head_is Z.eqb Pos.eqb tl]. rewrite <- app_assoc. cbn [app].
      rewrite (tw_digits (zero_padded m 2)) by (try exact Am; reflexivity).
      rewrite parse_int_zp2 by (unfold I32_MAX; lia). cbn [tzbind head_is Z.eqb Pos.eqb tl].
      rewrite (tw_digits (zero_padded s 2) rest As (term_nd _ Hr)). rewrite parse_int_zp2 by (unfold I32_MAX; lia). reflexivity.
    - destruct (Z1 eq_refl) as [-> ->]. cbn [app]. rewrite (term_58 _ Hr). reflexivity.
    - pose proof (Z2 eq_refl) as Es. subst s. cbn [app head_is Z.eqb Pos.eqb tl].
      rewrite (tw_digits (zero_padded m 2) rest Am (term_nd _ Hr)).
      rewrite parse_int_zp2 by (unfold I32_MAX; lia). cbn [tzbind]. rewrite (term_58 _ Hr). reflexivity.
    - cbn [app head_is Z.eqb Pos.eqb tl]. rewrite <- app_assoc. cbn [app].
      rewrite (tw_digits (zero_padded m 2)) by (try exact Am; reflexivity).
      rewrite parse_int_zp2 by (unfold I32_MAX; lia). cbn [tzbind head_is Z.eqb Pos.eqb tl].
      rewrite (tw_digits (zero_padded s 2) rest As (term_nd _ Hr)). rewrite parse_int_zp2 by (unfold I32_MAX; lia). reflexivity. }
  rewrite <- !app_assoc.
  destruct (h_sign sp); cbn [sign_bytes app].
  - destruct (zero_padded h w) as [|c0 ct] eqn:Ed; [congruence|]. cbn [app get_next tzbind].
    assert (Hc : 48 <= c0 <= 57).
    { cbn [all_digits forallb] in Ah. apply andb_true_iff in Ah as [Hc _]. unfold is_ascii_digit in Hc. apply andb_true_iff in Hc as [A B]. apply Z.leb_le in A, B. lia. }
    destruct (Z.eqb_spec c0 45); [lia|]. destruct (Z.eqb_spec c0 43); [lia|]. cbv beta iota.
    change (c0 :: ct ++ tl_ ++ rest) with ((c0 :: ct) ++ tl_ ++ rest). apply Body.
  - cbn [get_next tzbind Z.eqb Pos.eqb tl]. cbv beta iota. apply Body.
  - cbn [get_next tzbind Z.eqb Pos.eqb tl]. cbv beta iota. apply Body.
Qed.

Lemma parse_tz_offset_print mx sp t rest : 0 <= mx <= 167 -> hms_sp_ok sp t -> Z.abs t / 3600 <= mx -> term rest ->
  parse_tz_offset mx (hms_print sp t ++ rest) = TzOk (t, rest).
Proof.
  intros Hm Hok Ht Hr. pose proof (small_of_hours t mx Hm Ht) as Ha.
  unfold parse_tz_offset. rewrite (parse_hms_print sp t rest Hok Ha Hr). cbn [tzbind].
  destruct Hok as (Hsg & _).
  set (a := Z.abs t) in *. assert (H0 : 0 <= a) by (subst a; lia).
  assert (Hh : 0 <= a / 3600) by (apply Z.div_pos; lia).
  assert (Hmi : 0 <= a mod 3600 / 60 <= 59).
  { pose proof (Z.mod_pos_bound a 3600 ltac:(lia)). split; [apply Z.div_pos; lia|]. assert (a mod 3600 / 60 < 60) by (apply Z.div_lt_upper_bound; lia). lia. }
  assert (Hs : 0 <= a mod 60 <= 59) by (pose proof (Z.mod_pos_bound a 60 ltac:(lia)); lia).
  assert (E : a / 3600 * 3600 + a mod 3600 / 60 * 60 + a mod 60 = a) by lia.
  destruct (Z.leb_spec 0 (a / 3600)); [|lia]. destruct (Z.leb_spec (a / 3600) mx); [|lia].
  destruct (Z.leb_spec 0 (a mod 3600 / 60)); [|lia]. destruct (Z.leb_spec (a mod 3600 / 60) 59); [|lia].
  destruct (Z.leb_spec 0 (a mod 60)); [|lia]. destruct (Z.leb_spec (a mod 60) 59); [|lia].
  cbn [andb negb]. rewrite E. f_equal. f_equal. subst a. destruct (h_sign sp); lia.
Qed.

(* ---------- rules with an optional /time ---------- *)
Definition time_print (tsp : option hms_sp) (time : Z) : bytes := match tsp with None => [] | Some sp => 47 :: hms_print sp time end.
Definition time_sp_ok (tsp : option hms_sp) (time : Z) : Prop := match tsp with None => time = 7200 | Some sp => hms_sp_ok sp time end.
Definition rule_print (d : rule_day) (tsp : option hms_sp) (time : Z) : bytes := day_str d ++ time_print tsp time.

Lemma parse_rule_print d tsp time rest (ext : bool) : day_ok d -> time_sp_ok tsp time -> Z.abs time / 3600 <= (if ext then 167 else 24) -> term rest ->
  parse_rule (rule_print d tsp time ++ rest) ext = TzOk (d, time, rest).
Proof.
  intros Hd Hsp Ht Hr. unfold rule_print. rewrite <- app_assoc. set (R := time_print tsp time ++ rest).
  assert (Hmx : 0 <= (if ext then 167 else 24) <= 167) by (destruct ext; lia).
  assert (Tail : forall day : rule_day,
     (if head_is 47 R then let! '(t, cur2) := parse_tz_offset (if ext then 167 else 24) (tl R) in TzOk (day, t, cur2)
      else TzOk (day, 7200, R)) = TzOk (day, time, rest)).
  { intros day. subst R. destruct tsp as [sp|]; cbn [time_print time_sp_ok] in *.
    - cbn [app head_is Z.eqb Pos.eqb tl]. rewrite (parse_tz_offset_print _ sp time rest Hmx Hsp Ht Hr). reflexivity.
    - cbn [app]. rewrite (term_47 _ Hr). rewrite Hsp. reflexivity. }
  assert (NR : nd R).
  { subst R. destruct tsp as [sp|]; cbn [time_print app]; [reflexivity | apply term_nd, Hr]. }
  clearbody R.
  assert (U32 : forall n, 0 <= n <= 365 -> parse_int U32_MAX (dec_str n) = TzOk n).
  { intros n Hn. apply parse_int_dec; [unfold U32_MAX; lia | apply small_lt_pow; lia]. }
  assert (U8 : forall n, 0 <= n <= 12 -> parse_int 255 (dec_str n) = TzOk n).
  { intros n Hn. apply parse_int_dec; [lia | apply small_lt_pow; lia]. }
  assert (AD : forall n, 0 <= n <= 365 -> all_digits (dec_str n) = true).
  { intros n Hn. apply (dec_str_spec n). split; [lia | apply small_lt_pow; lia]. }
  unfold parse_rule. destruct d as [n | n | m w wd]; cbn [day_ok] in Hd; cbn [day_str].
  - cbn [app get_next tzbind Z.eqb Pos.eqb tl]. unfold read_while. rewrite (tw_digits (dec_str n) _ (AD n ltac:(lia)) NR).
    rewrite (U32 n) by lia. cbn [tzbind].
    destruct (Z.leb_spec 1 n); [|lia]. destruct (Z.leb_spec n 365); [|lia]. cbn [andb negb tzbind]. apply Tail.
  - destruct (dec_head n ltac:(lia)) as (c & ct & Ec & Dc).
    assert (Hc : c <> 74). { unfold is_ascii_digit in Dc. apply andb_true_iff in Dc as [A B]. apply Z.leb_le in A, B. lia. }
    pose proof (AD n ltac:(lia)) as An. pose proof (U32 n ltac:(lia)) as Un. rewrite Ec in *.
    cbn [app get_next tzbind]. destruct (Z.eqb_spec c 74); [contradiction|]. rewrite Dc.
    unfold read_while. change (c :: ct ++ R) with ((c :: ct) ++ R).
    rewrite (tw_digits (c :: ct) _ An NR). rewrite Un. cbn [tzbind].
    destruct (Z.ltb_spec 365 n); [lia|]. cbn [tzbind]. apply Tail.
  - destruct Hd as (Hm & Hw & Hwd). repeat (first [rewrite <- app_assoc | progress cbn [app]]). cbn [app get_next tzbind Z.eqb Pos.eqb tl is_ascii_digit Z.leb Z.compare Pos.compare Pos.compare_cont andb].
    unfold read_until, read_while. rewrite (tw_until46 (dec_str m)) by (apply AD; lia). rewrite (U8 m) by lia. cbn [tzbind].
    rewrite read_exact_1. cbn [tzbind]. rewrite (tw_until46 (dec_str w)) by (apply AD; lia). rewrite (U8 w) by lia. cbn [tzbind].
    rewrite read_exact_1. cbn [tzbind]. rewrite (tw_digits (dec_str wd) _ (AD wd ltac:(lia)) NR). rewrite (U8 wd) by lia. cbn [tzbind].
    destruct (Z.leb_spec 1 m); [|lia]. destruct (Z.leb_spec m 12); [|lia]. destruct (Z.leb_spec 1 w); [|lia]. destruct (Z.leb_spec w 5); [|lia].
    destruct (Z.ltb_spec 6 wd); [lia|]. cbn [andb negb orb tzbind]. apply Tail.
Qed.

(* ---------- designations: letters, or anything but '>' between '<' and '>' ---------- *)
Inductive desig := DAlpha (l : bytes) | DQuoted (l : bytes).
Definition desig_bytes (d : desig) : bytes := match d with DAlpha l => l | DQuoted l => 60 :: l ++ [62] end.
Definition desig_ok (d : desig) : Prop :=
  match d with
  | DAlpha l => l <> [] /\ forallb is_ascii_alphabetic l = true
  | DQuoted l => printable l /\ forallb (fun b => negb (b =? 62)) l = true
  end.
Lemma tw_gen (f : Z -> bool) l : forall rest, forallb f l = true -> match rest with [] => True | c :: _ => f c = false end ->
  take_while f (l ++ rest) = (l, rest).
Proof.
  induction l as [|c l IH]; intros rest Al Hr.
  - cbn [app]. destruct rest as [|r rt]; [reflexivity|]. cbn [take_while]. rewrite Hr. reflexivity.
  - cbn [forallb] in Al. apply andb_true_iff in Al as [Hc Al]. cbn [app take_while]. rewrite Hc, (IH rest Al Hr). reflexivity.
Qed.
Lemma remove_designation_print d rest : desig_ok d -> na rest -> remove_designation (desig_bytes d ++ rest) = TzOk rest.
Proof.
  intros Hd Hr. unfold remove_designation. destruct d as [l | l]; cbn [desig_ok desig_bytes] in *.
  - destruct Hd as (N & A). destruct l as [|c l]; [congruence|]. cbn [app get_next tzbind].
    assert (Hc : is_ascii_alphabetic c = true) by (cbn [forallb] in A; apply andb_true_iff in A as [X _]; exact X).
    assert (c <> 60). { unfold is_ascii_alphabetic in Hc. intros ->. discriminate Hc. }
    destruct (Z.eqb_spec c 60); [contradiction|]. unfold read_while.
    change (c :: l ++ rest) with ((c :: l) ++ rest). rewrite (tw_gen is_ascii_alphabetic (c :: l) rest A Hr). reflexivity.
  - destruct Hd as (_ & A). cbn [app get_next tzbind Z.eqb Pos.eqb]. unfold read_until. rewrite <- app_assoc. cbn [app].
    assert (A' : forallb (fun b => negb (b =? 62)) (60 :: l) = true) by (cbn [forallb]; rewrite A; reflexivity).
    change (60 :: l ++ 62 :: rest) with ((60 :: l) ++ 62 :: rest).
    rewrite (tw_gen (fun b => negb (b =? 62)) (60 :: l) (62 :: rest) A' eq_refl). rewrite read_exact_1. reflexivity.
Qed.
Lemma desig_head d rest : desig_ok d -> exists c r, desig_bytes d ++ rest = c :: r /\ (is_ascii_alphabetic c = true \/ c = 60).
Proof.
  intros Hd. destruct d as [l | l]; cbn [desig_ok desig_bytes] in *.
  - destruct Hd as (N & A). destruct l as [|c l]; [congruence|]. exists c, (l ++ rest). split; [reflexivity|]. left.
    cbn [forallb] in A. apply andb_true_iff in A as [X _]. exact X.
  - eexists _, _. split; [reflexivity | right; reflexivity].
Qed.
Lemma alpha_facts c : is_ascii_alphabetic c = true \/ c = 60 -> okc c = true /\ pr c = true /\ c <> 58 /\ c <> 44 /\ is_ascii_digit c = false.
Proof.
  intros [H | ->]; [| repeat split; discriminate].
  unfold is_ascii_alphabetic in H. unfold okc, pr, is_ascii_digit.
  assert (65 <= c <= 122).
  { apply orb_true_iff in H as [H | H]; apply andb_true_iff in H as [A B]; apply Z.leb_le in A, B; lia. }
  destruct (Z.leb_spec 48 c); [|lia]. destruct (Z.leb_spec c 57); [lia|]. destruct (Z.eqb_spec c 58); [lia|]. destruct (Z.eqb_spec c 47); [lia|].
  destruct (Z.leb_spec 33 c); [|lia]. destruct (Z.ltb_spec c 128); [|lia]. repeat split; lia.
Qed.
Lemma printable_desig d : desig_ok d -> printable (desig_bytes d).
Proof.
  intros Hd. destruct d as [l | l]; cbn [desig_ok desig_bytes] in *.
  - destruct Hd as (_ & A). unfold printable. rewrite forallb_forall in *. intros x Hx. apply (alpha_facts x). left. apply A, Hx.
  - destruct Hd as (P & _). apply printable_cons; [reflexivity|]. apply printable_app; [exact P | reflexivity].
Qed.

Lemma hms_print_head sp t rest : Z.abs t < 1000000000 -> exists c r, hms_print sp t ++ rest = c :: r /\ (c = 45 \/ c = 43 \/ is_ascii_digit c = true).
Proof.
  intros Ht. unfold hms_print. destruct (h_sign sp); cbn [sign_bytes app].
  - assert (P : 0 <= Z.abs t / 3600 < 10 ^ 40).
    { split; [apply Z.div_pos; lia | apply small_lt_pow; assert (Z.abs t / 3600 < 1000000) by (apply Z.div_lt_upper_bound; lia); lia]. }
    destruct (zero_padded_spec (Z.abs t / 3600) (h_width sp) P) as (A & _ & N).
    destruct (zero_padded (Z.abs t / 3600) (h_width sp)) as [|c ct]; [congruence|]. eexists _, _. split; [reflexivity|]. right. right.
    cbn [all_digits forallb] in A. apply andb_true_iff in A as [X _]. exact X.
  - eexists _, _. split; [reflexivity | right; left; reflexivity].
  - eexists _, _. split; [reflexivity | left; reflexivity].
Qed.
Lemma sign_digit_facts c : c = 45 \/ c = 43 \/ is_ascii_digit c = true -> is_ascii_alphabetic c = false /\ c <> 44.
Proof.
  intros [-> | [-> | D]]; [split; [reflexivity | discriminate] | split; [reflexivity | discriminate] |].
  unfold is_ascii_digit in D. apply andb_true_iff in D as [A B]. apply Z.leb_le in A, B. unfold is_ascii_alphabetic.
  destruct (Z.leb_spec 65 c); [lia|]. destruct (Z.leb_spec 97 c); [lia|]. split; [reflexivity | lia].
Qed.
Lemma printable_hms_print sp t : Z.abs t < 1000000000 -> printable (hms_print sp t).
Proof.
  intros Ht. unfold hms_print. set (a := Z.abs t) in *. assert (0 <= a) by (subst a; lia).
  assert (P100 : 100 < 10 ^ 40) by (apply Z.ltb_lt; vm_compute; reflexivity).
  assert (Pm : printable (zero_padded (a mod 3600 / 60) 2)).
  { apply printable_zp2. pose proof (Z.mod_pos_bound a 3600 ltac:(lia)). split; [apply Z.div_pos; lia | apply Z.div_lt_upper_bound; lia]. }
  assert (Ps : printable (zero_padded (a mod 60) 2)) by (apply printable_zp2; pose proof (Z.mod_pos_bound a 60 ltac:(lia)); lia).
  apply printable_app; [destruct (h_sign sp); reflexivity|].
  apply printable_app.
  { apply printable_digits, (zero_padded_spec (a / 3600) (h_width sp)). split; [apply Z.div_pos; lia|]. apply small_lt_pow.
    assert (a / 3600 < 1000000) by (apply Z.div_lt_upper_bound; lia). lia. }
  unfold hms_tail. destruct (h_parts sp) as [|[|[|k]]].
  - apply printable_cons; [reflexivity|]. apply printable_app; [exact Pm|]. apply printable_cons; [reflexivity | exact Ps].
  - reflexivity.
  - apply printable_cons; [reflexivity | exact Pm].
  - apply printable_cons; [reflexivity|]. apply printable_app; [exact Pm|]. apply printable_cons; [reflexivity | exact Ps].
Qed.
Lemma printable_day d : day_ok d -> printable (day_str d).
Proof.
  intros Hd. destruct d as [n | n | m w wd]; cbn [day_ok] in Hd; cbn [day_str].
  - apply printable_cons; [reflexivity | apply printable_dec; lia].
  - apply printable_dec; lia.
  - destruct Hd as (A & B & C). apply printable_cons; [reflexivity|].
    repeat (apply printable_app; [first [apply printable_dec; lia | reflexivity]|]). apply printable_dec; lia.
Qed.
Lemma printable_rule_print d tsp t : day_ok d -> Z.abs t < 1000000000 -> printable (rule_print d tsp t).
Proof.
  intros Hd Ht. unfold rule_print. apply printable_app; [apply printable_day, Hd|]. destruct tsp as [sp|]; cbn [time_print]; [|reflexivity].
  apply printable_cons; [reflexivity | apply printable_hms_print, Ht].
Qed.

(* ---------- the whole string ---------- *)
Record spelling := mkSp { sp_std : desig; sp_stdoff : hms_sp; sp_dst : desig; sp_dstoff : option hms_sp; sp_t1 : option hms_sp; sp_t2 : option hms_sp }.
Definition dstoff_print (o : option hms_sp) (t : Z) : bytes := match o with None => [] | Some h => hms_print h t end.
Definition tz_print (sp : spelling) (r : trule) : bytes :=
  match r with
  | RFixed u => desig_bytes (sp_std sp) ++ hms_print (sp_stdoff sp) (- u)
  | RAlt a => desig_bytes (sp_std sp) ++ hms_print (sp_stdoff sp) (- a_std a) ++ desig_bytes (sp_dst sp) ++ dstoff_print (sp_dstoff sp) (- a_dst a)
              ++ 44 :: rule_print (a_std_end a) (sp_t1 sp) (a_std_end_time a) ++ 44 :: rule_print (a_dst_end a) (sp_t2 sp) (a_dst_end_time a)
  end.
Definition spelling_ok (sp : spelling) (r : trule) : Prop :=
  desig_ok (sp_std sp) /\
  match r with
  | RFixed u => hms_sp_ok (sp_stdoff sp) (- u)
  | RAlt a => hms_sp_ok (sp_stdoff sp) (- a_std a) /\ desig_ok (sp_dst sp) /\
              (match sp_dstoff sp with None => a_dst a = a_std a + 3600 | Some h => hms_sp_ok h (- a_dst a) end) /\
              time_sp_ok (sp_t1 sp) (a_std_end_time a) /\ time_sp_ok (sp_t2 sp) (a_dst_end_time a)
  end.

Lemma term_nil : term []. Proof. exact I. Qed.
Lemma term_44 r : term (44 :: r). Proof. reflexivity. Qed.

Lemma tz_print_printable ext sp r : footer_ok ext r -> spelling_ok sp r ->
  printable (tz_print sp r) /\ exists c rest, tz_print sp r = c :: rest /\ c <> 58.
Proof.
  intros Hok (Hd & Hsp). assert (Hmx : 0 <= (if ext then 167 else 24) <= 167) by (destruct ext; lia).
  destruct r as [u | a]; cbn [footer_ok] in Hok; cbv zeta in Hok; cbn [tz_print].
  - split.
    + apply printable_app; [apply printable_desig, Hd|]. apply printable_hms_print. rewrite Z.abs_opp. apply (small_of_hours u 24); lia.
    + destruct (desig_head (sp_std sp) (hms_print (sp_stdoff sp) (- u)) Hd) as (c & rr & E & Hc). exists c, rr. split; [exact E|].
      apply (alpha_facts c Hc).
  - destruct Hok as (H1 & H2 & H3 & H4 & H5 & H6). destruct Hsp as (S1 & S2 & S3 & S4 & S5). split.
    + apply printable_app; [apply printable_desig, Hd|].
      apply printable_app; [apply printable_hms_print; rewrite Z.abs_opp; apply (small_of_hours _ 24); lia|].
      apply printable_app; [apply printable_desig, S2|].
      apply printable_app. { destruct (sp_dstoff sp); cbn [dstoff_print]; [apply printable_hms_print; rewrite Z.abs_opp; apply (small_of_hours _ 24); lia | reflexivity]. }
      apply printable_cons; [reflexivity|]. apply printable_app; [apply printable_rule_print; [assumption | apply (small_of_hours _ _ Hmx); assumption]|].
      apply printable_cons; [reflexivity|]. apply printable_rule_print; [assumption | apply (small_of_hours _ _ Hmx); assumption].
    + match goal with |- exists c rest, desig_bytes ?d ++ ?x = _ /\ _ => destruct (desig_head d x Hd) as (c & rr & E & Hc) end.
      exists c, rr. split; [exact E|]. apply (alpha_facts c Hc).
Qed.

Theorem from_tz_string_grammar (ext : bool) sp r : footer_ok ext r -> spelling_ok sp r ->
  from_tz_string ([10] ++ tz_print sp r ++ [10]) ext = TzOk (Some r).
Proof.
  intros Hok Hsp. destruct (tz_print_printable ext sp r Hok Hsp) as (P & c0 & body & Eb & Hc0).
  assert (Hmx : 0 <= (if ext then 167 else 24) <= 167) by (destruct ext; lia).
  unfold from_tz_string.
  assert (U : utf8_valid ([10] ++ tz_print sp r ++ [10]) = true).
  { unfold utf8_valid. apply utf8_ascii. rewrite !forallb_app, (printable_lt128 _ P). reflexivity. }
  rewrite U. cbn [negb].
  assert (H1 : head_is 10 ([10] ++ tz_print sp r ++ [10]) = true) by reflexivity.
  assert (H2 : head_is 10 (rev ([10] ++ tz_print sp r ++ [10])) = true) by (rewrite !rev_app_distr; reflexivity).
  rewrite H1, H2. cbn [negb orb].
  assert (N : tz_print sp r <> []) by (rewrite Eb; discriminate).
  rewrite (trim_footer _ P N), (printable_no0 _ P).
  assert (H3 : head_is 58 (tz_print sp r) = false) by (rewrite Eb; cbn [head_is]; destruct (Z.eqb_spec c0 58); [contradiction | reflexivity]).
  rewrite H3. cbn [orb].
  destruct (tz_print sp r) as [|c1 t1] eqn:Etz; [congruence|]. rewrite <- Etz. clear Eb body H3 N H1 H2 U P Etz c1 t1 c0 Hc0.
  destruct Hsp as (Hd & Hsp).
  destruct r as [u | a]; cbn [footer_ok] in Hok; cbv zeta in Hok; cbn [tz_print].
  - assert (Su : Z.abs (- u) < 1000000000) by (rewrite Z.abs_opp; apply (small_of_hours u 24); lia).
    rewrite (remove_designation_print (sp_std sp) (hms_print (sp_stdoff sp) (- u)) Hd).
    2:{ destruct (hms_print_head (sp_stdoff sp) (- u) [] Su) as (c & rr & E & Hc). rewrite app_nil_r in E. rewrite E. cbn [na]. apply (sign_digit_facts c Hc). }
    cbn [tzbind]. rewrite <- (app_nil_r (hms_print (sp_stdoff sp) (- u))).
    rewrite (parse_tz_offset_print 24 (sp_stdoff sp) (- u) []) by (try lia; try exact I; try exact Hsp; rewrite Z.abs_opp; exact Hok).
    cbn [tzbind]. rewrite Z.opp_involutive. reflexivity.
  - destruct Hok as (A1 & A2 & A3 & A4 & A5 & A6). destruct Hsp as (S1 & S2 & S3 & S4 & S5).
    destruct a as [std se set_ dst de det]. cbn [a_std a_std_end a_std_end_time a_dst a_dst_end a_dst_end_time] in *.
    assert (Ss : Z.abs (- std) < 1000000000) by (rewrite Z.abs_opp; apply (small_of_hours std 24); lia).
    assert (Sd : Z.abs (- dst) < 1000000000) by (rewrite Z.abs_opp; apply (small_of_hours dst 24); lia).
    set (R2 := rule_print de (sp_t2 sp) det). set (R1 := rule_print se (sp_t1 sp) set_).
    set (T2 := 44 :: R1 ++ 44 :: R2).
    set (T1 := desig_bytes (sp_dst sp) ++ dstoff_print (sp_dstoff sp) (- dst) ++ T2).
    rewrite (remove_designation_print (sp_std sp) _ Hd).
    2:{ destruct (hms_print_head (sp_stdoff sp) (- std) T1 Ss) as (c & rr & E & Hc). rewrite E. cbn [na]. apply (sign_digit_facts c Hc). }
    cbn [tzbind].
    destruct (desig_head (sp_dst sp) (dstoff_print (sp_dstoff sp) (- dst) ++ T2) S2) as (c & rr & E1 & Hc1). fold T1 in E1.
    assert (TT1 : term T1) by (rewrite E1; cbn [term]; apply (alpha_facts c Hc1)).
    rewrite (parse_tz_offset_print 24 (sp_stdoff sp) (- std) T1) by (try lia; try assumption; rewrite Z.abs_opp; exact A1).
    cbn [tzbind].
    assert (Enz : forall (A : Type) (k1 k2 : A), match T1 with [] => k2 | _ :: _ => k1 end = k1) by (intros; rewrite E1; reflexivity).
    rewrite Enz. clear Enz E1 Hc1 c rr TT1. subst T1.
    assert (PR1 : parse_rule (R1 ++ 44 :: R2) ext = TzOk (se, set_, 44 :: R2)).
    { subst R1. apply parse_rule_print; try assumption. apply term_44. }
    assert (PR2 : parse_rule R2 ext = TzOk (de, det, [])).
    { subst R2. rewrite <- (app_nil_r (rule_print de (sp_t2 sp) det)). apply parse_rule_print; try assumption. exact I. }
    assert (TAG : forall x, read_tag [44] (44 :: x) = TzOk x).
    { intros x. unfold read_tag. cbn [length firstn skipn]. destruct (Z.ltb_spec (Z.of_nat (S (length x))) (Z.of_nat 1)); [lia|]. reflexivity. }
    destruct (sp_dstoff sp) as [h|]; cbn [dstoff_print].
    + rewrite (remove_designation_print (sp_dst sp) _ S2).
      2:{ destruct (hms_print_head h (- dst) T2 Sd) as (c & rr & E & Hc). rewrite E. cbn [na]. apply (sign_digit_facts c Hc). }
      cbn [tzbind].
      destruct (hms_print_head h (- dst) T2 Sd) as (c & rr & Ec & Hc).
      assert (H44 : head_is 44 (hms_print h (- dst) ++ T2) = false).
      { rewrite Ec. cbn [head_is]. destruct (Z.eqb_spec c 44); [|reflexivity]. destruct (sign_digit_facts c Hc). contradiction. }
      rewrite H44.
      assert (Enz : forall (A : Type) (k1 k2 : A), match hms_print h (- dst) ++ T2 with [] => k2 | _ :: _ => k1 end = k1) by (intros; rewrite Ec; reflexivity).
      rewrite Enz.
      rewrite (parse_tz_offset_print 24 h (- dst) T2) by (try lia; try assumption; try apply term_44; rewrite Z.abs_opp; exact A2).
      cbn [tzbind]. subst T2. rewrite TAG. cbn [tzbind]. rewrite PR1. cbn [tzbind]. rewrite TAG. cbn [tzbind]. rewrite PR2. cbn [tzbind].
      rewrite !Z.opp_involutive. reflexivity.
    + cbn [app]. rewrite (remove_designation_print (sp_dst sp) T2 S2) by reflexivity. cbn [tzbind].
      subst T2. cbn [head_is Z.eqb Pos.eqb tzbind]. rewrite TAG. cbn [tzbind]. rewrite PR1. cbn [tzbind]. rewrite TAG. cbn [tzbind]. rewrite PR2. cbn [tzbind].
      rewrite Z.opp_involutive. repeat f_equal. lia.
Qed.

Theorem from_tzif_file_grammar v trans types chars sp r : v <> V1 ->
  Forall (fun tr => in_i64 (fst tr)) trans -> Forall in_i32 types ->
  u32ok (Z.of_nat (length trans)) -> u32ok (Z.of_nat (length types)) -> u32ok (Z.of_nat (length chars)) ->
  footer_ok (match v with V3 => true | _ => false end) r -> spelling_ok sp r ->
  existsb (fun tr => Z.of_nat (length types) <=? snd tr) trans = false ->
  from_tzif (enc_file v trans types chars ([10] ++ tz_print sp r ++ [10])) = TzOk (mkTz trans types (Some r)).
Proof.
  intros Hv Ht Hy U1 U2 U3 Hok Hsp Hix. rewrite (from_tzif_encoded v trans types chars _ Hv Ht Hy U1 U2 U3).
  rewrite (from_tz_string_grammar _ sp r Hok Hsp). cbn [tzbind]. rewrite Hix, andb_false_r. reflexivity.
Qed.

(* "CET-1CEST,M3.5.0,M10.5.0/3" *)
Example grammar_europe :
  let r := RAlt (mkAlt 3600 (MonthWeekDay 3 5 0) 7200 7200 (MonthWeekDay 10 5 0) 10800) in
  let sp := mkSp (DAlpha [67;69;84]) (mkHms SgMinus 1 0) (DAlpha [67;69;83;84]) None None (Some (mkHms SgNone 1 0)) in
  and (footer_ok false r) (and (spelling_ok sp r)
  (tz_print sp r = [67;69;84;45;49;67;69;83;84;44;77;51;46;53;46;48;44;77;49;48;46;53;46;48;47;51])).
Proof. cbv zeta. split; [cbn; repeat split; lia | split; [| vm_compute; reflexivity]]. cbn. repeat split; try lia; try discriminate; reflexivity. Qed.
(* "<+0330>-3:30<+0430>,J79/24,J263/24" *)
Example grammar_tehran :
  let r := RAlt (mkAlt 12600 (JulianNoLeap 79) 86400 16200 (JulianNoLeap 263) 86400) in
  let q := fun l => DQuoted l in
  let sp := mkSp (q [43;48;51;51;48]) (mkHms SgMinus 2 0) (q [43;48;52;51;48]) None (Some (mkHms SgNone 1 0)) (Some (mkHms SgNone 1 0)) in
  and (footer_ok false r) (and (spelling_ok sp r)
  (tz_print sp r = [60;43;48;51;51;48;62;45;51;58;51;48;60;43;48;52;51;48;62;44;74;55;57;47;50;52;44;74;50;54;51;47;50;52])).
Proof. cbv zeta. split; [cbn; repeat split; lia | split; [| vm_compute; reflexivity]]. cbn. repeat split; try lia; try discriminate; reflexivity. Qed.
