(* TimeModel.v — Gallina transcription of src/util/time/convert.rs, src/util/time/manipulate.rs,
   src/util/time/validate.rs and src/util/offset.rs as they stand in /repo.
   u32/u64 operands: / and % are Z.div / Z.modulo; i64/i128 operands: Z.quot / Z.rem. *)
From Astro Require Import Base.

(* ---- validate.rs ---- *)
Definition validate_time (hour minute second : Z) : res unit :=
  if 23 <? hour then Err (EOor NHour 0 23 hour)
  else if 59 <? minute then Err (EOor NMinute 0 59 minute)
  else if 59 <? second then Err (EOor NSecond 0 59 second)
  else Ok tt.

(* ---- convert.rs ---- *)
Definition nanos_to_time (nanos : Z) : Z * Z * Z :=
  let as_seconds := wrap_u32 (nanos / NANOS_PER_SEC) in      (* `as u32` *)
  (as_seconds / 3600, (as_seconds / 60) mod 60, as_seconds mod 60).

Definition nanos_to_subsecond (nanos : Z) : Z * Z * Z :=
  ((nanos mod NANOS_PER_SEC) / 1000000, (nanos mod NANOS_PER_SEC) / 1000, nanos mod NANOS_PER_SEC).

Definition time_to_day_seconds (hour minute second : Z) : res Z :=
  let? _ := validate_time hour minute second in
  Ok (hour * 3600 + minute * 60 + second).

Definition days_nanos_to_secs (days day_nanos : Z) : Z :=
  if days <? 0 then
    (days + 1) * SECS_PER_DAY + - (SECS_PER_DAY - Z.quot day_nanos NANOS_PER_SEC)
  else days * SECS_PER_DAY + day_nanos / NANOS_PER_SEC.

(* seconds : i64 *)
Definition secs_to_days_nanos (seconds : Z) : res (Z * Z) :=
  let day_seconds := Z.abs seconds mod SECS_PER_DAY in
  let days_i64 := if (seconds <? 0) && negb (day_seconds =? 0)
                  then Z.quot seconds SECS_PER_DAY - 1 else Z.quot seconds SECS_PER_DAY in
  if in_i32b days_i64 then
    let adjusted := if (seconds <? 0) && negb (day_seconds =? 0) then SECS_PER_DAY - day_seconds else day_seconds in
    Ok (days_i64, adjusted * NANOS_PER_SEC)
  else Err (EOor NSeconds (I32_MIN * SECS_PER_DAY) (I32_MAX * SECS_PER_DAY + SECS_PER_DAY - 1) seconds).

Definition days_nanos_to_nanos (days day_nanos : Z) : Z :=
  if days <? 0 then (days + 1) * NANOS_PER_DAY + - (NANOS_PER_DAY - day_nanos)
  else days * NANOS_PER_DAY + day_nanos.

(* nanoseconds : i128 *)
Definition nanos_to_days_nanos (nanoseconds : Z) : res (Z * Z) :=
  let day_nanos := Z.abs nanoseconds mod NANOS_PER_DAY in
  let days_i128 := if (nanoseconds <? 0) && negb (day_nanos =? 0)
                   then Z.quot nanoseconds NANOS_PER_DAY - 1 else Z.quot nanoseconds NANOS_PER_DAY in
  if in_i32b days_i128 then
    let adjusted := if (nanoseconds <? 0) && negb (day_nanos =? 0) then NANOS_PER_DAY - day_nanos else day_nanos in
    Ok (days_i128, adjusted)
  else Err (EOor NNanoseconds (I32_MIN * NANOS_PER_DAY) (I32_MAX * NANOS_PER_DAY + NANOS_PER_DAY - 1) nanoseconds).

Definition time_nanos_to_nanos (hour minute second nanos : Z) : res Z :=
  let? time_seconds := unwrap (time_to_day_seconds hour minute second) in
  Ok (time_seconds * NANOS_PER_SEC + nanos mod NANOS_PER_SEC).

Definition days_nanos_to_hours (days nanos : Z) : Z := days * 24 + fst (fst (nanos_to_time nanos)).
Definition nanos_to_subhour_nanos (n : Z) : Z := n mod NANOS_PER_HOUR.
Definition days_nanos_to_minutes (days nanos : Z) : Z :=
  let '(h, m, _) := nanos_to_time nanos in days * 24 * 60 + h * 60 + m.
Definition nanos_to_subminute_nanos (n : Z) : Z := n mod NANOS_PER_MINUTE.
Definition days_nanos_to_seconds (days nanos : Z) : Z :=
  let '(h, m, s) := nanos_to_time nanos in days * 24 * 60 * 60 + h * 60 * 60 + m * 60 + s.
Definition nanos_to_subsecond_nanos (n : Z) : Z := n mod NANOS_PER_SEC.
Definition days_nanos_to_millis (days nanos : Z) : Z :=
  days_nanos_to_seconds days nanos * 1000 + Z.quot (Z.rem nanos NANOS_PER_SEC) 1000000.
Definition nanos_to_submilli_nanos (n : Z) : Z := n mod 1000000.
Definition days_nanos_to_micros (days nanos : Z) : Z :=
  days_nanos_to_seconds days nanos * 1000000 + Z.quot (Z.rem nanos NANOS_PER_SEC) 1000.
Definition nanos_to_submicro_nanos (n : Z) : Z := n mod 1000.

(* since_i32 / since_i64 / since_i128 share one body *)
Definition since (self_total self_sub compare_total compare_sub : Z) : Z :=
  self_total - compare_total -
  (if (compare_total <? self_total) && (self_sub <? compare_sub) then 1
   else if (self_total <? compare_total) && (compare_sub <? self_sub) then -1 else 0).

(* ---- manipulate.rs ---- *)
Definition set_hour (nanos hour : Z) : res Z :=
  if 23 <? hour then Err (EOor NValue 0 23 hour)
  else let '(_, minute, second) := nanos_to_time nanos in time_nanos_to_nanos hour minute second nanos.
Definition set_minute (nanos minute : Z) : res Z :=
  if 59 <? minute then Err (EOor NValue 0 59 minute)
  else let '(hour, _, second) := nanos_to_time nanos in time_nanos_to_nanos hour minute second nanos.
Definition set_second (nanos second : Z) : res Z :=
  if 59 <? second then Err (EOor NValue 0 59 second)
  else let '(hour, minute, _) := nanos_to_time nanos in time_nanos_to_nanos hour minute second nanos.
Definition set_subsecond_value (nanos value divisor : Z) : Z :=
  nanos / NANOS_PER_SEC * NANOS_PER_SEC + value * divisor + nanos mod divisor.
Definition set_milli (nanos milli : Z) : res Z :=
  if 999 <? milli then Err (EOor NValue 0 999 milli) else Ok (set_subsecond_value nanos milli 1000000).
Definition set_micro (nanos micro : Z) : res Z :=
  if 999999 <? micro then Err (EOor NValue 0 999999 micro) else Ok (set_subsecond_value nanos micro 1000).
Definition set_nano (nanos nano : Z) : res Z :=
  if 999999999 <? nano then Err (EOor NValue 0 999999999 nano) else Ok (set_subsecond_value nanos nano 1).

(* the amount of nanoseconds a count of a unit stands for; the helpers add it (u128 / i128 / u64 / i64) *)
Inductive tunit := UHour | UMinute | USecond | UMilli | UMicro | UNano.
Definition unit_nanos (u : tunit) : Z :=
  match u with UHour => NANOS_PER_HOUR | UMinute => NANOS_PER_MINUTE | USecond => NANOS_PER_SEC
             | UMilli => 1000000 | UMicro => 1000 | UNano => 1 end.
Definition add_units (u : tunit) (nanos count : Z) : Z := nanos + count * unit_nanos u.
Definition sub_units (u : tunit) (nanos count : Z) : Z := nanos - count * unit_nanos u.

Definition clear_nanos_until_minute (nanos : Z) : res Z :=
  let '(hour, _, _) := nanos_to_time nanos in time_nanos_to_nanos hour 0 0 0.
Definition clear_nanos_until_second (nanos : Z) : res Z :=
  let '(hour, minute, _) := nanos_to_time nanos in time_nanos_to_nanos hour minute 0 0.
Definition clear_nanos_until_milli (nanos : Z) : res Z :=
  let '(hour, minute, second) := nanos_to_time nanos in time_nanos_to_nanos hour minute second 0.
Definition clear_nanos_until_micro (nanos : Z) : res Z :=
  let '(hour, minute, second) := nanos_to_time nanos in time_nanos_to_nanos hour minute second (nanos / 1000000 * 1000000).
Definition clear_nanos_until_nanos (nanos : Z) : res Z :=
  let '(hour, minute, second) := nanos_to_time nanos in time_nanos_to_nanos hour minute second (nanos / 1000 * 1000).

(* ---- src/util/offset.rs ---- *)
Definition add_offset_to_nanos (nanoseconds offset : Z) : Z :=
  Z.abs (Z.rem ((nanoseconds + offset * NANOS_PER_SEC) + NANOS_PER_DAY) NANOS_PER_DAY).
Definition remove_offset_from_nanos (nanoseconds offset : Z) : Z :=
  Z.abs (Z.rem ((nanoseconds - offset * NANOS_PER_SEC) + NANOS_PER_DAY) NANOS_PER_DAY).
Definition add_offset_to_dn (days nanoseconds offset : Z) : res (Z * Z) :=
  unwrap (nanos_to_days_nanos (days_nanos_to_nanos days nanoseconds + offset * NANOS_PER_SEC)).
Definition try_remove_offset_from_dn (days nanoseconds offset : Z) : res (Z * Z) :=
  nanos_to_days_nanos (days_nanos_to_nanos days nanoseconds - offset * NANOS_PER_SEC).
Definition remove_offset_from_dn (days nanoseconds offset : Z) : res (Z * Z) :=
  unwrap (try_remove_offset_from_dn days nanoseconds offset).
