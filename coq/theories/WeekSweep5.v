(* WeekSweep5.v — complete enumeration, inside the kernel, of days 91315 .. 109577 of the 400-year cycle. *)
From Astro Require Import Base CalSpec DateModel DateProofs WeekProofs.
Lemma week_sweep_5 : range_all week_ok 91315 (Z.to_nat 18263) = true.
Proof. vm_compute. reflexivity. Qed.
