(* MonthProofs.v — month and year arithmetic (C05) and months_since / years_since (C07). *)
From Astro Require Import Base CalSpec DateModel DateProofs WeekProofs.

Lemma leap_unastro a : leap (unastro a) = leap_a a.
Proof. unfold leap. rewrite astro_unastro. reflexivity. Qed.

Lemma add_months_valid x k : valid x -> valid (add_months_spec x k).
Proof.
  destruct x as [[y m] d]. intros (Hy & Hm & Hd). unfold add_months_spec, of_month_index, valid.
  split; [apply unastro_nz|]. split; [lia|]. pose proof (mlen_bounds (unastro ((month_index y m + k) / 12)) ((month_index y m + k) mod 12 + 1)). lia.
Qed.

Lemma in_range_year y m d : in_range (y, m, d) -> MIN_Y <= y <= MAX_Y.
Proof. unfold in_range, date_leb, MIN_DATE, MAX_DATE, MIN_Y, MAX_Y. lia. Qed.

(* the heart of C05: shift_months computes the specification, for every day number and every signed count *)
Theorem shift_months_spec d k :
  let t := add_months_spec (days_to_date d) k in
  (in_range t -> shift_months d k = Ok (rd t)) /\
  (~ in_range t -> exists e, shift_months d k = Err e).
Proof.
  destruct (days_to_date_rd d) as [V _]. pose proof (add_months_valid _ k V) as Vt.
  unfold shift_months. destruct (days_to_date d) as [[y m] dd]. destruct V as (Hy & Hm & Hd).
  unfold add_months_spec, of_month_index, month_index in *. fold (astro y).
  set (tot := 12 * astro y + (m - 1) + k) in *.
  replace (astro y * 12 + m - 1 + k) with tot by (subst tot; lia).
  change (if tot / 12 <=? 0 then tot / 12 - 1 else tot / 12) with (unastro (tot / 12)).
  set (ty := unastro (tot / 12)) in *. set (tm := tot mod 12 + 1) in *.
  assert (Htm : 1 <= tm <= 12) by (subst tm; lia).
  assert (Hday : (if dd <? 29 then Ok dd
                  else let? '(_, mdays) := unwrap (year_month_to_doy ty tm) in Ok (if mdays <? dd then mdays else dd))
                 = Ok (Z.min dd (mlen ty tm))).
  { pose proof (mlen_bounds ty tm). destruct (Z.ltb_spec dd 29); [f_equal; lia|].
    rewrite year_month_to_doy_ok by exact Htm. cbn [unwrap bind]. f_equal. break_ifs. }
  cbv zeta. split; intros R.
  - pose proof (in_range_year _ _ _ R) as Ry.
    replace (in_i32b ty) with true by (unfold in_i32b, MIN_Y, MAX_Y in *; unfold I32_MIN, I32_MAX; lia).
    cbn [negb]. rewrite Hday. cbn [bind]. apply date_to_days_ok; assumption.
  - destruct (in_i32b ty); cbn [negb]; [|eexists; reflexivity].
    rewrite Hday. cbn [bind].
    destruct (date_to_days_err ty tm (Z.min dd (mlen ty tm))) as (n & a & b & v & E); [lia | pose proof (mlen_bounds ty tm); lia | tauto |].
    rewrite E. eexists; reflexivity.
Qed.

Theorem add_months_model d n : add_months d n = shift_months d n.
Proof. reflexivity. Qed.
Theorem sub_months_model d n : sub_months d n = shift_months d (- n).
Proof. reflexivity. Qed.

Lemma add_years_spec_months x k : valid x -> add_years_spec x k = add_months_spec x (12 * k).
Proof.
  destruct x as [[y m] d]. intros (Hy & Hm & Hd). unfold add_years_spec, add_months_spec, of_month_index, month_index.
  replace ((12 * astro y + (m - 1) + 12 * k) / 12) with (astro y + k) by lia.
  replace ((12 * astro y + (m - 1) + 12 * k) mod 12 + 1) with m by lia. reflexivity.
Qed.

Lemma year_clamp y ty m dd : 1 <= m <= 12 -> 1 <= dd <= mlen y m ->
  (if is_leap_year y && negb (is_leap_year ty) && (m =? 2) && (dd =? 29) then 28 else dd) = Z.min dd (mlen ty m).
Proof.
  intros Hm Hd. rewrite !is_leap_year_spec. unfold mlen in *.
  destruct (Z.eqb_spec m 2).
  - subst m. change (2 =? 2) with true. destruct (leap y), (leap ty); cbn [andb negb]; break_ifs; lia.
  - rewrite andb_false_r. cbn [andb]. destruct ((m =? 4) || (m =? 6) || (m =? 9) || (m =? 11)); lia.
Qed.

Theorem add_years_model_spec d k : 0 <= k ->
  let t := add_years_spec (days_to_date d) k in
  (in_range t -> add_years d k = Ok (rd t)) /\ (~ in_range t -> exists e, add_years d k = Err e).
Proof.
  intros Hk. destruct (days_to_date_rd d) as [V _]. unfold add_years.
  destruct (days_to_date d) as [[y m] dd]. destruct V as (Hy & Hm & Hd). unfold add_years_spec. cbv zeta.
  assert (Ety : (if (y <? 0) && (0 <=? y + k) then y + k + 1 else y + k) = unastro (astro y + k))
    by (unfold astro, unastro; break_cmps).
  rewrite Ety. set (ty := unastro (astro y + k)).
  rewrite (year_clamp y ty m dd Hm Hd).
  assert (Vt : valid (ty, m, Z.min dd (mlen ty m))).
  { unfold valid. split; [apply unastro_nz|]. split; [exact Hm|]. pose proof (mlen_bounds ty m). lia. }
  split; intros R.
  - pose proof (in_range_year _ _ _ R) as Ry.
    replace (in_i32b ty) with true by (unfold in_i32b, MIN_Y, MAX_Y in *; unfold I32_MIN, I32_MAX; lia).
    cbn [negb]. apply date_to_days_ok; assumption.
  - destruct (in_i32b ty); cbn [negb]; [|eexists; reflexivity].
    destruct (date_to_days_err ty m (Z.min dd (mlen ty m))) as (n & a & b & v & E); [lia | pose proof (mlen_bounds ty m); lia | tauto |].
    rewrite E. eexists; reflexivity.
Qed.

Theorem sub_years_model_spec d k : 0 <= k ->
  let t := add_years_spec (days_to_date d) (- k) in
  (in_range t -> sub_years d k = Ok (rd t)) /\ (~ in_range t -> exists e, sub_years d k = Err e).
Proof.
  intros Hk. destruct (days_to_date_rd d) as [V _]. unfold sub_years.
  destruct (days_to_date d) as [[y m] dd]. destruct V as (Hy & Hm & Hd). unfold add_years_spec. cbv zeta.
  assert (Ety : (if (0 <? y) && (y - k <=? 0) then y - k - 1 else y - k) = unastro (astro y + - k))
    by (unfold astro, unastro; break_cmps).
  rewrite Ety. set (ty := unastro (astro y + - k)).
  rewrite (year_clamp y ty m dd Hm Hd).
  assert (Vt : valid (ty, m, Z.min dd (mlen ty m))).
  { unfold valid. split; [apply unastro_nz|]. split; [exact Hm|]. pose proof (mlen_bounds ty m). lia. }
  split; intros R.
  - pose proof (in_range_year _ _ _ R) as Ry.
    replace (in_i32b ty) with true by (unfold in_i32b, MIN_Y, MAX_Y in *; unfold I32_MIN, I32_MAX; lia).
    cbn [negb]. apply date_to_days_ok; assumption.
  - destruct (in_i32b ty); cbn [negb]; [|eexists; reflexivity].
    destruct (date_to_days_err ty m (Z.min dd (mlen ty m))) as (n & a & b & v & E); [lia | pose proof (mlen_bounds ty m); lia | tauto |].
    rewrite E. eexists; reflexivity.
Qed.

(* ---------- C07: months_since / years_since ---------- *)
Definition mkey (x : date) : Z * Z := let '(y, m, d) := x in (month_index y m, d).
Definition key_lt (k1 k2 : Z * Z) : Prop := fst k1 < fst k2 \/ (fst k1 = fst k2 /\ snd k1 < snd k2).

Lemma key_lt_rd x1 x2 : valid x1 -> valid x2 -> key_lt (mkey x1) (mkey x2) -> rd x1 < rd x2.
Proof.
  intros V1 V2 K. apply rd_lt; [exact V1 | exact V2 |].
  destruct x1 as [[y1 m1] d1], x2 as [[y2 m2] d2]. destruct V1 as (Hy1 & Hm1 & _), V2 as (Hy2 & Hm2 & _).
  unfold key_lt, mkey, month_index in K. cbn [fst snd] in K. unfold date_ltb.
  destruct (Z.lt_trichotomy y1 y2) as [L | [E | G]].
  - apply orb_true_iff. left. apply Z.ltb_lt. exact L.
  - subst y2. rewrite Z.ltb_irrefl, Z.eqb_refl. cbn [orb andb]. lia.
  - pose proof (astro_mono y2 y1 Hy2 Hy1 G). lia.
Qed.
Lemma key_eq_rd x1 x2 : valid x1 -> valid x2 -> mkey x1 = mkey x2 -> x1 = x2.
Proof.
  destruct x1 as [[y1 m1] d1], x2 as [[y2 m2] d2]. intros (Hy1 & Hm1 & _) (Hy2 & Hm2 & _) K.
  unfold mkey, month_index in K.
  assert (K1 : 12 * astro y1 + (m1 - 1) = 12 * astro y2 + (m2 - 1)) by congruence.
  assert (K2 : d1 = d2) by congruence. subst d2.
  assert (Ha : astro y1 = astro y2) by lia. assert (m1 = m2) by lia. subst m2.
  assert (y1 = y2) by (unfold astro in Ha; revert Ha; break_ifs). subst. reflexivity.
Qed.

Lemma of_month_index_key i d : 1 <= d <= 28 ->
  let '(y, m) := of_month_index i in valid (y, m, d) /\ mkey (y, m, d) = (i, d).
Proof.
  intros Hd. unfold of_month_index, mkey, month_index, valid. rewrite astro_unastro.
  pose proof (mlen_bounds (unastro (i / 12)) (i mod 12 + 1)).
  split; [split; [apply unastro_nz | lia]|]. f_equal. lia.
Qed.

Lemma add_months_spec_key x k : valid x -> snd x <= 28 ->
  valid (add_months_spec x k) /\ mkey (add_months_spec x k) = (fst (mkey x) + k, snd x).
Proof.
  destruct x as [[y m] d]. intros (Hy & Hm & Hd) H28. cbn [snd] in H28. unfold add_months_spec.
  pose proof (of_month_index_key (month_index y m + k) d ltac:(lia)) as K.
  destruct (of_month_index (month_index y m + k)) as [y' m'] eqn:E. destruct K as [V K].
  pose proof (mlen_bounds y' m'). rewrite Z.min_l by lia. split; [exact V|]. rewrite K. reflexivity.
Qed.

(* the value computed by months_between in terms of month indices and the (day, nanos) borrow *)
Definition months_core (ia da na ib db nb : Z) : Z :=
  let raw := ia - ib in
  raw + (if raw =? 0 then 0
         else if (0 <? raw) && ((da <? db) || ((da =? db) && (na <? nb))) then -1
         else if (raw <? 0) && ((db <? da) || ((da =? db) && (nb <? na))) then 1 else 0).

Lemma months_between_core d1 n1 d2 n2 :
  months_between d1 n1 d2 n2 =
  let '(ya, ma, da) := days_to_date d1 in let '(yb, mb, db) := days_to_date d2 in
  months_core (month_index ya ma) da n1 (month_index yb mb) db n2.
Proof.
  destruct (days_to_date_rd d1) as [V1 _]. destruct (days_to_date_rd d2) as [V2 _]. unfold months_between.
  destruct (days_to_date d1) as [[ya ma] da]. destruct (days_to_date d2) as [[yb mb] db].
  destruct V1 as (Hya & _), V2 as (Hyb & _). unfold months_core, month_index. cbv zeta.
  assert (E : (if (1 <=? ya) && (yb <? 1) then ya - yb - 1 else if (ya <? 1) && (1 <=? yb) then ya - yb + 1 else ya - yb)
              = astro ya - astro yb) by (unfold astro; break_cmps).
  rewrite E. replace ((astro ya - astro yb) * 12 + ma - mb) with (12 * astro ya + (ma - 1) - (12 * astro yb + (mb - 1))) by lia.
  reflexivity.
Qed.

Theorem months_antisym d1 n1 d2 n2 : months_between d1 n1 d2 n2 = - months_between d2 n2 d1 n1.
Proof.
  rewrite !months_between_core. destruct (days_to_date d1) as [[ya ma] da]. destruct (days_to_date d2) as [[yb mb] db].
  unfold months_core. cbv zeta. break_cmps.
Qed.

Definition dn_le (a b : Z * Z) : Prop := fst a < fst b \/ (fst a = fst b /\ snd a <= snd b).
Definition dn_lt (a b : Z * Z) : Prop := fst a < fst b \/ (fst a = fst b /\ snd a < snd b).

Theorem months_char d1 n1 d2 n2 :
  let B := days_to_date d2 in
  snd B <= 28 -> dn_le (d2, n2) (d1, n1) ->
  let n := months_between d1 n1 d2 n2 in
  0 <= n /\ dn_le (rd (add_months_spec B n), n2) (d1, n1) /\ dn_lt (d1, n1) (rd (add_months_spec B (n + 1)), n2).
Proof.
  cbv zeta. intros H28 Hle. rewrite months_between_core.
  destruct (days_to_date_rd d1) as [V1 E1]. destruct (days_to_date_rd d2) as [V2 E2].
  destruct (days_to_date d1) as [[ya ma] da] eqn:EA. destruct (days_to_date d2) as [[yb mb] db] eqn:EB.
  cbn [snd] in H28.
  set (A := (ya, ma, da)) in *. set (B := (yb, mb, db)) in *.
  set (ia := month_index ya ma). set (ib := month_index yb mb).
  assert (KA : mkey A = (ia, da)) by reflexivity. assert (KB : mkey B = (ib, db)) by reflexivity.
  (* order of A and B *)
  assert (HAB : ~ key_lt (mkey A) (mkey B)).
  { intros K. pose proof (key_lt_rd A B V1 V2 K). unfold dn_le in Hle. cbn [fst snd] in Hle. lia. }
  assert (HAB2 : mkey A = mkey B -> n2 <= n1).
  { intros K. pose proof (key_eq_rd A B V1 V2 K) as EAB. unfold dn_le in Hle. cbn [fst snd] in Hle.
    assert (d1 = d2) by (rewrite <- E1, <- E2, EAB; reflexivity). lia. }
  rewrite KA, KB in HAB, HAB2. unfold key_lt in HAB. cbn [fst snd] in HAB.
  assert (Hda : 1 <= da) by (destruct V1 as (_ & _ & ?); lia).
  assert (Hdb : 1 <= db) by (destruct V2 as (_ & _ & ?); lia).
  set (n := months_core ia da n1 ib db n2).
  destruct (add_months_spec_key B n V2 H28) as [Vn Kn].
  destruct (add_months_spec_key B (n + 1) V2 H28) as [Vn1 Kn1].
  rewrite KB in Kn, Kn1. cbn [fst snd] in Kn, Kn1. change (snd B) with db in Kn, Kn1.
  (* facts about n *)
  assert (Hn : 0 <= n /\ (ib + n < ia \/ (ib + n = ia /\ (db < da \/ (db = da /\ n2 <= n1)))) /\
               (ia < ib + n + 1 \/ (ia = ib + n + 1 /\ (da < db \/ (da = db /\ n1 < n2))))).
  { subst n. unfold months_core. cbv zeta.
    assert (HH : ia = ib -> da = db -> n2 <= n1) by (intros; apply HAB2; congruence).
    break_cmps. }
  destruct Hn as (Hn0 & Hlo & Hhi). split; [exact Hn0|]. unfold dn_le, dn_lt. cbn [fst snd]. rewrite <- E1.
  split.
  - destruct Hlo as [L | [L [L2 | [L2 L3]]]].
    + left. apply key_lt_rd; [exact Vn | exact V1 |]. rewrite Kn, KA. unfold key_lt. cbn [fst snd]. lia.
    + left. apply key_lt_rd; [exact Vn | exact V1 |]. rewrite Kn, KA. unfold key_lt. cbn [fst snd]. lia.
    + right. split; [|exact L3]. f_equal. apply key_eq_rd; [exact Vn | exact V1 |]. rewrite Kn, KA. f_equal; lia.
  - destruct Hhi as [L | [L [L2 | [L2 L3]]]].
    + left. apply key_lt_rd; [exact V1 | exact Vn1 |]. rewrite Kn1, KA. unfold key_lt. cbn [fst snd]. lia.
    + left. apply key_lt_rd; [exact V1 | exact Vn1 |]. rewrite Kn1, KA. unfold key_lt. cbn [fst snd]. lia.
    + right. split; [|exact L3]. f_equal. apply key_eq_rd; [exact V1 | exact Vn1 |]. rewrite Kn1, KA. f_equal; lia.
Qed.

(* b.add_months is strictly increasing in the count, so the n of months_char is unique *)
Theorem add_months_strict x k k' : valid x -> snd x <= 28 -> k < k' ->
  rd (add_months_spec x k) < rd (add_months_spec x k').
Proof.
  intros V H28 Hk. destruct (add_months_spec_key x k V H28) as [V1 K1]. destruct (add_months_spec_key x k' V H28) as [V2 K2].
  apply key_lt_rd; [exact V1 | exact V2 |]. rewrite K1, K2. unfold key_lt. cbn [fst snd]. lia.
Qed.

Theorem years_def d1 n1 d2 n2 : years_between d1 n1 d2 n2 = Z.quot (months_between d1 n1 d2 n2) 12.
Proof. reflexivity. Qed.

(* monotone in the first argument *)
Theorem months_mono d1 n1 d1' n1' d2 n2 : dn_le (d1, n1) (d1', n1') ->
  months_between d1 n1 d2 n2 <= months_between d1' n1' d2 n2.
Proof.
  intros Hle. rewrite !months_between_core.
  destruct (days_to_date_rd d1) as [V1 E1]. destruct (days_to_date_rd d1') as [V1' E1'].
  destruct (days_to_date d1) as [[ya ma] da]. destruct (days_to_date d1') as [[ya' ma'] da'].
  destruct (days_to_date d2) as [[yb mb] db].
  set (A := (ya, ma, da)) in *. set (A' := (ya', ma', da')) in *.
  assert (H1 : ~ key_lt (mkey A') (mkey A)).
  { intros K. pose proof (key_lt_rd A' A V1' V1 K). unfold dn_le in Hle. cbn [fst snd] in Hle. lia. }
  assert (H2 : mkey A = mkey A' -> n1 <= n1').
  { intros K. pose proof (key_eq_rd A A' V1 V1' K) as EAB. unfold dn_le in Hle. cbn [fst snd] in Hle.
    assert (d1 = d1') by (rewrite <- E1, <- E1', EAB; reflexivity). lia. }
  unfold key_lt, mkey, A, A' in H1, H2. cbn [fst snd] in H1.
  set (ia := month_index ya ma) in *. set (ia' := month_index ya' ma') in *. set (ib := month_index yb mb).
  assert (HH : ia = ia' -> da = da' -> n1 <= n1') by (intros; apply H2; congruence).
  unfold months_core. cbv zeta. break_cmps.
Qed.
