(* WeekSweep3.v — complete enumeration, inside the kernel, of days 54789 .. 73051 of the 400-year cycle. *)
From Astro Require Import Base CalSpec DateModel DateProofs WeekProofs.
Lemma week_sweep_3 : range_all week_ok 54789 (Z.to_nat 18263) = true.
Proof. vm_compute. reflexivity. Qed.
