(* RfcSpec.v — RFC 3339 section 5.6 `date-time` with upper-case T and Z: recogniser and denotation (C13). *)
From Astro Require Import Base Text CalSpec DateProofs.

Definition dig (c : Z) : bool := is_ascii_digit c.
Definition two (a b : Z) : Z := (a - 48) * 10 + (b - 48).

Fixpoint span_digits (s : text) : text * text :=
  match s with c :: tl => if dig c then (let '(a, b) := span_digits tl in (c :: a, b)) else ([], s) | [] => ([], []) end.

(* the parts of a grammatical timestamp *)
Record rfc_parts := mkRfc { r_year : Z; r_month : Z; r_day : Z; r_hour : Z; r_minute : Z; r_second : Z;
                            r_frac : text;          (* digits of time-secfrac, [] when absent *)
                            r_off_sign : Z; r_off_hour : Z; r_off_minute : Z }.   (* Z = +00:00 *)

(* date-fullyear "-" date-month "-" date-mday "T" time-hour ":" time-minute ":" time-second [time-secfrac] time-offset *)
Definition rfc_zone (z : text) : option (Z * Z * Z) :=       (* sign, hour, minute *)
  match z with
  | [z0] => if z0 =? 90 then Some (1, 0, 0) else None
  | [sg; a; b; col; c; d] =>
      if ((sg =? 43) || (sg =? 45)) && (col =? 58) && forallb dig [a; b; c; d]
      then Some (if sg =? 43 then 1 else -1, two a b, two c d) else None
  | _ => None
  end.
Definition rfc_split (s : text) : option rfc_parts :=
  match s with
  | y1 :: y2 :: y3 :: y4 :: c1 :: m1 :: m2 :: c2 :: d1 :: d2 :: c3 :: h1 :: h2 :: c4 :: i1 :: i2 :: c5 :: s1 :: s2 :: rest =>
      if forallb dig [y1; y2; y3; y4; m1; m2; d1; d2; h1; h2; i1; i2; s1; s2]
         && (c1 =? 45) && (c2 =? 45) && (c3 =? 84) && (c4 =? 58) && (c5 =? 58) then
        let zone (frac z : text) :=
          match rfc_zone z with
          | Some (sign, oh, om) =>
              Some (mkRfc (((y1 - 48) * 10 + (y2 - 48)) * 100 + two y3 y4) (two m1 m2) (two d1 d2) (two h1 h2) (two i1 i2) (two s1 s2) frac sign oh om)
          | None => None end in
        match rest with
        | c :: tl => if c =? 46
                     then (let frac := fst (span_digits tl) in let z := snd (span_digits tl) in
                           match frac with [] => None | _ => zone frac z end)
                     else zone [] rest
        | [] => None
        end
      else None
  | _ => None
  end.

Definition rfc_ok (s : text) : bool := match rfc_split s with Some _ => true | None => false end.
(* field ranges of RFC 3339 (leap seconds are not representable in the library: second <= 59) *)
Definition rfc_in_range (p : rfc_parts) : bool :=
  validb (r_year p, r_month p, r_day p) && (r_hour p <=? 23) && (r_minute p <=? 59) && (r_second p <=? 59)
  && (r_off_hour p <=? 23) && (r_off_minute p <=? 59).
(* nanoseconds of the fraction, truncated to 9 digits *)
Definition frac_nanos (frac : text) : Z := let f9 := firstn 9 frac in digits_val f9 * 10 ^ (9 - Z.of_nat (length f9)).
(* the instant (nanoseconds since 0001-01-01T00:00Z) and offset (seconds) a timestamp denotes *)
Definition rfc_denote (p : rfc_parts) : Z * Z :=
  let off := r_off_sign p * (r_off_hour p * 3600 + r_off_minute p * 60) in
  (rd (r_year p, r_month p, r_day p) * 86400000000000 + (r_hour p * 3600 + r_minute p * 60 + r_second p) * 1000000000
   + frac_nanos (r_frac p) - off * 1000000000, off).
