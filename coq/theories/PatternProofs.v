(* PatternProofs.v — C11: the formatter renders every symbol as the documented table (PatternSpec) says. *)
From Astro Require Import Base Text CalSpec DateModel TimeModel ApiModel InstantSpec FormatModel ParseModel PatternSpec
  ValueFields DateProofs WeekProofs WeekFinal TimeProofs ClockProofs OffsetProofs TextProofs PadProofs.

(* ---------- the spec's padding functions are the model's ---------- *)
Lemma dec_digits_rev fuel : forall n acc, PatternSpec.dec_digits fuel n acc = rev (digits_rev fuel n) ++ acc.
Proof.
  induction fuel as [|k IH]; intros n acc; cbn [PatternSpec.dec_digits digits_rev]; [reflexivity|].
  destruct (n <? 10); [reflexivity|]. rewrite IH. cbn [rev]. rewrite <- app_assoc. reflexivity.
Qed.
Lemma dec_u_to_string n : PatternSpec.dec n = u_to_string n.
Proof. unfold PatternSpec.dec, u_to_string. rewrite dec_digits_rev, app_nil_r. reflexivity. Qed.
Lemma repeat48_zeros k : repeat_c 48 k = zeros k.
Proof. induction k as [|k IH]; cbn [repeat_c zeros]; [reflexivity|]. rewrite IH. reflexivity. Qed.
Lemma pad_zero_padded n w : pad n w = zero_padded n w.
Proof. unfold pad, zero_padded. cbv zeta. rewrite dec_u_to_string, repeat48_zeros. reflexivity. Qed.
Lemma pad_signed_zero_padded_i n w : pad_signed n w = zero_padded_i n w.
Proof. unfold pad_signed, zero_padded_i. rewrite pad_zero_padded. reflexivity. Qed.

(* ---------- runs ---------- *)
Lemma repeat_c_length c k : length (repeat_c c k) = k.
Proof. induction k as [|k IH]; cbn [repeat_c length]; [reflexivity|]. rewrite IH. reflexivity. Qed.
Lemma first_char_repeat c k : (1 <= k)%nat -> first_char (repeat_c c k) = c.
Proof. destruct k; [lia|]. reflexivity. Qed.

(* split on the run length: small numerals or "large" (every explicit pattern of the code is at most 8) *)
Ltac wcases w Hw :=
  destruct w as [|?p|?p]; [exfalso; lia | | exfalso; lia];
  do 4 (try match goal with q : positive |- _ => destruct q end);
  cbn [Z.ltb Z.compare Pos.compare Pos.compare_cont Z.eqb Pos.eqb]; cbv iota beta.

Lemma nth_name_of tbl i : 0 <= i < Z.of_nat (length tbl) -> nth_name tbl i = Ok (name_of tbl i).
Proof.
  intros H. unfold nth_name, name_of. destruct (nth_error tbl (Z.to_nat i)) eqn:E.
  - destruct (Z.leb_spec 0 i); [|lia]. f_equal. symmetry. apply nth_error_nth. exact E.
  - apply nth_error_None in E. lia.
Qed.

(* ---------- date symbols ---------- *)
Definition date_fields_agree (F : vfields) (d : Z) : Prop :=
  let '(y, m, dd) := days_to_date d in
  vf_bc F = (d <? 0) /\ vf_year F = y /\ vf_month F = m /\ vf_day F = dd /\ vf_doy F = 1 + d - rd (y, 1, 1) /\
  vf_wd F = (d + 1) mod 7 /\ vf_week F = iso_week_exec d.

Lemma month_names m : 1 <= m <= 12 ->
  nth_name MONTH_ABBREVIATED (m - 1) = Ok (name_of T_MONTH_ABBR (m - 1)) /\
  nth_name MONTH_WIDE (m - 1) = Ok (name_of T_MONTH_WIDE (m - 1)) /\
  nth_name MONTH_NARROW (m - 1) = Ok (first_n 1 (name_of T_MONTH_WIDE (m - 1))).
Proof. intros H. month_split m H; repeat split; reflexivity. Qed.
Lemma wday_names x : 0 <= x <= 6 ->
  nth_name WDAY_ABBREVIATED x = Ok (name_of T_WDAY_ABBR x) /\ nth_name WDAY_WIDE x = Ok (name_of T_WDAY_WIDE x) /\
  nth_name WDAY_NARROW x = Ok (first_n 1 (name_of T_WDAY_WIDE x)) /\ nth_name WDAY_SHORT x = Ok (first_n 2 (name_of T_WDAY_WIDE x)).
Proof.
  intros H. assert (C : x = 0 \/ x = 1 \/ x = 2 \/ x = 3 \/ x = 4 \/ x = 5 \/ x = 6) by lia.
  destruct C as [-> | [-> | [-> | [-> | [-> | [-> | ->]]]]]]; repeat split; reflexivity.
Qed.

Lemma fdp_run c w d : 1 <= w ->
  format_date_part (repeat_c c (Z.to_nat w)) d =
  (let chars := repeat_c c (Z.to_nat w) in let len := w in
   if c =? 71 then
    Ok (match len with
        | 1 | 2 | 3 => if d <? 0 then str [66;67] else str [65;68]
        | 5 => if d <? 0 then str [66] else str [65]
        | _ => if d <? 0 then str [66;101;102;111;114;101;32;67;104;114;105;115;116] else str [65;110;110;111;32;68;111;109;105;110;105]
        end)
  else if c =? 121 then
    let '(year, _, _) := days_to_date d in
    match len with
    | 2 => Ok ((if year <? 0 then [45] else []) ++ zero_padded (Z.abs year mod 100) 2)
    | _ => Ok (zero_padded_i year len)
    end
  else if c =? 113 then
    let '(_, month, _) := days_to_date d in
    let quarter := (month - 1) / 3 + 1 in
    Ok (match len with
        | 1 | 2 => zero_padded quarter len
        | 3 => 81 :: u_to_string quarter
        | 4 => add_ordinal_indicator quarter ++ str [32;113;117;97;114;116;101;114]
        | _ => zero_padded quarter 1
        end)
  else if c =? 77 then format_month len d
  else if c =? 119 then Ok (zero_padded (days_to_wyear d) (get_length len 2 2))
  else if c =? 100 then (let '(_, _, dd) := days_to_date d in Ok (zero_padded dd (get_length len 2 2)))
  else if c =? 68 then (let? doy := days_to_doy d in Ok (zero_padded doy (get_length len 1 3)))
  else if c =? 101 then format_wday len d
  else Ok chars).
Proof.
  intros Hw. unfold format_date_part. cbv zeta. rewrite first_char_repeat by lia. rewrite repeat_c_length, Z2Nat.id by lia. reflexivity.
Qed.

Lemma render_G F d w : date_fields_agree F d -> 1 <= w -> format_date_part (repeat_c 71 (Z.to_nat w)) d = Ok (render_field F 71 w).
Proof.
  intros A Hw. rewrite fdp_run by exact Hw. cbv zeta. cbn [Z.eqb Pos.eqb]. unfold render_field. cbv zeta.
  unfold date_fields_agree in A. destruct (days_to_date d) as [[y m] dd]. destruct A as (-> & _).
  wcases w Hw; reflexivity.
Qed.

Ltac agree_destruct A d :=
  unfold date_fields_agree in A; let y := fresh "y" in let m := fresh "m" in let dd := fresh "dd" in
  destruct (days_to_date_rd d) as [Vv _]; pose proof (doy_spec d) as Hdoy; pose proof (week_spec d) as [Hwk _];
  destruct (days_to_date d) as [[y m] dd]; destruct A as (Abc & Ay & Am & Ad & Adoy & Awd & Awk); destruct Vv as (Vy & Vm & Vd).

Lemma render_y F d w : date_fields_agree F d -> 1 <= w -> format_date_part (repeat_c 121 (Z.to_nat w)) d = Ok (render_field F 121 w).
Proof.
  intros A Hw. rewrite fdp_run by exact Hw. cbv zeta. cbn [Z.eqb Pos.eqb]. unfold render_field. cbv zeta. agree_destruct A d. rewrite Ay.
  wcases w Hw; rewrite ?pad_signed_zero_padded_i, ?pad_zero_padded; reflexivity.
Qed.
Lemma render_q F d w : date_fields_agree F d -> 1 <= w -> format_date_part (repeat_c 113 (Z.to_nat w)) d = Ok (render_field F 113 w).
Proof.
  intros A Hw. rewrite fdp_run by exact Hw. cbv zeta. cbn [Z.eqb Pos.eqb]. unfold render_field. cbv zeta. agree_destruct A d. rewrite Am. clear Am.
  wcases w Hw; month_split m Vm; rewrite ?pad_zero_padded, ?dec_u_to_string; reflexivity.
Qed.
Lemma render_M F d w : date_fields_agree F d -> 1 <= w -> format_date_part (repeat_c 77 (Z.to_nat w)) d = Ok (render_field F 77 w).
Proof.
  intros A Hw. rewrite fdp_run by exact Hw. cbv zeta. cbn [Z.eqb Pos.eqb]. unfold render_field, format_month. cbv zeta.
  unfold date_fields_agree in A. destruct (days_to_date_rd d) as [Vv _]. destruct (days_to_date d) as [[y m] dd]. destruct A as (_ & _ & Am & _). destruct Vv as (_ & Vm & _).
  rewrite Am. destruct (month_names m Vm) as (N1 & N2 & N3).
  wcases w Hw; rewrite ?pad_zero_padded, ?N1, ?N2, ?N3; reflexivity.
Qed.
Lemma get_length_over len dflt mx : get_length len dflt mx = (if mx <? len then dflt else len).
Proof. reflexivity. Qed.
Lemma render_w F d w : date_fields_agree F d -> 1 <= w -> format_date_part (repeat_c 119 (Z.to_nat w)) d = Ok (render_field F 119 w).
Proof.
  intros A Hw. rewrite fdp_run by exact Hw. cbv zeta. cbn [Z.eqb Pos.eqb]. unfold render_field. cbv zeta. agree_destruct A d.
  rewrite Awk, Hwk, pad_zero_padded. reflexivity.
Qed.
Lemma render_d F d w : date_fields_agree F d -> 1 <= w -> format_date_part (repeat_c 100 (Z.to_nat w)) d = Ok (render_field F 100 w).
Proof.
  intros A Hw. rewrite fdp_run by exact Hw. cbv zeta. cbn [Z.eqb Pos.eqb]. unfold render_field. cbv zeta. agree_destruct A d.
  rewrite Ad, pad_zero_padded. reflexivity.
Qed.
Lemma render_D F d w : date_fields_agree F d -> 1 <= w -> format_date_part (repeat_c 68 (Z.to_nat w)) d = Ok (render_field F 68 w).
Proof.
  intros A Hw. rewrite fdp_run by exact Hw. cbv zeta. cbn [Z.eqb Pos.eqb]. unfold render_field. cbv zeta. agree_destruct A d.
  rewrite Hdoy, Adoy, pad_zero_padded. reflexivity.
Qed.
Lemma render_e F d w : date_fields_agree F d -> 1 <= w -> format_date_part (repeat_c 101 (Z.to_nat w)) d = Ok (render_field F 101 w).
Proof.
  intros A Hw. rewrite fdp_run by exact Hw. cbv zeta. cbn [Z.eqb Pos.eqb]. unfold render_field, format_wday. cbv zeta. agree_destruct A d.
  assert (W0 : days_to_wday d false = vf_wd F) by (rewrite Awd; unfold days_to_wday; lia).
  assert (W1 : days_to_wday d true + 1 = (vf_wd F + 6) mod 7 + 1) by (rewrite Awd; unfold days_to_wday; lia).
  assert (Wr : 0 <= vf_wd F <= 6) by (rewrite Awd; lia). destruct (wday_names (vf_wd F) Wr) as (N1 & N2 & N3 & N4).
  rewrite W0, W1. wcases w Hw; rewrite ?pad_zero_padded, ?N1, ?N2, ?N3, ?N4; reflexivity.
Qed.

Theorem date_field_render F d c w : date_fields_agree F d -> 1 <= w -> is_date_sym c = true ->
  format_date_part (repeat_c c (Z.to_nat w)) d = Ok (render_field F c w).
Proof.
  intros A Hw Hc. unfold is_date_sym in Hc. cbn [existsb] in Hc. rewrite !orb_true_iff, !Z.eqb_eq in Hc.
  destruct Hc as [-> | [-> | [-> | [-> | [-> | [-> | [-> | [-> | Hc]]]]]]]]; [.. | discriminate Hc].
  - apply render_G; assumption.
  - apply render_y; assumption.
  - apply render_q; assumption.
  - apply render_M; assumption.
  - apply render_w; assumption.
  - apply render_d; assumption.
  - apply render_D; assumption.
  - apply render_e; assumption.
Qed.

(* ---------- time symbols ---------- *)
Definition time_fields_agree (F : vfields) (n off : Z) : Prop :=
  0 <= n < NANOS_PER_DAY /\ vf_hour F = n / NANOS_PER_HOUR /\ vf_minute F = n / NANOS_PER_MINUTE mod 60 /\
  vf_second F = n / NANOS_PER_SEC mod 60 /\ vf_subsec F = n mod NANOS_PER_SEC /\ vf_offset F = off.

Lemma ftp_run c w n off : 1 <= w ->
  format_time_part (repeat_c c (Z.to_nat w)) n off =
  (let chars := repeat_c c (Z.to_nat w) in let len := w in
   let '(hour24, minute, second) := nanos_to_time n in
   if c =? 97 then format_period n (get_length len 3 5) false
   else if c =? 98 then format_period n (get_length len 3 5) true
   else if c =? 104 then Ok (zero_padded (if hour24 mod 12 =? 0 then 12 else hour24 mod 12) (get_length len 2 2))
   else if c =? 72 then Ok (zero_padded hour24 (get_length len 2 2))
   else if c =? 75 then Ok (zero_padded (hour24 mod 12) (get_length len 2 2))
   else if c =? 107 then Ok (zero_padded (if hour24 =? 0 then 24 else hour24) (get_length len 2 2))
   else if c =? 109 then Ok (zero_padded minute (get_length len 2 2))
   else if c =? 115 then Ok (zero_padded second (get_length len 2 2))
   else if c =? 110 then
     let length0 := get_length len 3 5 in
     let length1 := if length0 =? 4 then 6 else if length0 =? 5 then 9 else length0 in
     let subsec := wrap_u32 (n mod NANOS_PER_SEC) in
     Ok (zero_padded (subsec / 10 ^ (9 - length1)) length1)
   else if c =? 88 then Ok (format_zone len off true)
   else if c =? 120 then Ok (format_zone len off false)
   else Ok chars).
Proof.
  intros Hw. unfold format_time_part. cbv zeta. rewrite first_char_repeat by lia. rewrite repeat_c_length, Z2Nat.id by lia. reflexivity.
Qed.

Lemma format_period_plain n st : 0 <= n < NANOS_PER_DAY -> 1 <= st <= 5 ->
  format_period n st false = Ok (period_text st (12 <=? n / NANOS_PER_HOUR)).
Proof.
  intros Hn Hst. unfold format_period. cbv zeta.
  assert (T : wrap_u32 (n / NANOS_PER_SEC) mod SECS_PER_DAY = n / NANOS_PER_SEC) by (unfold wrap_u32; revert Hn; unfold_consts; intros; lia).
  rewrite T. assert (P : (n / NANOS_PER_SEC <? 43200) = negb (12 <=? n / NANOS_PER_HOUR)).
  { revert Hn. unfold_consts. intros Hn. destruct (Z.ltb_spec (n / 1000000000) 43200); destruct (Z.leb_spec 12 (n / 3600000000000)); try reflexivity; lia. }
  assert (C : st = 1 \/ st = 2 \/ st = 3 \/ st = 4 \/ st = 5) by lia.
  destruct C as [-> | [-> | [-> | [-> | ->]]]]; cbn [Z.sub Z.add Z.opp Z.pos_sub Z.to_nat Pos.to_nat Pos.iter_op Nat.add Pos.pred_double PERIOD_FORMATS nth_error Z.leb Z.compare andb];
  rewrite P; destruct (12 <=? n / NANOS_PER_HOUR); reflexivity.
Qed.

Lemma format_period_b n st : 0 <= n < NANOS_PER_DAY -> 1 <= st <= 5 ->
  format_period n st true =
  Ok (let h := n / NANOS_PER_HOUR in let m := n / NANOS_PER_MINUTE mod 60 in let s := n / NANOS_PER_SEC mod 60 in
      if (h =? 0) && (m =? 0) && (s =? 0) then (if st =? 5 then S_[109;105] else S_[109;105;100;110;105;103;104;116])
      else if (h =? 12) && (m =? 0) && (s =? 0) then (if st =? 5 then S_[110] else S_[110;111;111;110])
      else period_text st (12 <=? h)).
Proof.
  intros Hn Hst. unfold format_period. cbv zeta.
  assert (T : wrap_u32 (n / NANOS_PER_SEC) mod SECS_PER_DAY = n / NANOS_PER_SEC) by (unfold wrap_u32; revert Hn; unfold_consts; intros; lia).
  rewrite T.
  assert (P : (n / NANOS_PER_SEC <? 43200) = negb (12 <=? n / NANOS_PER_HOUR)).
  { revert Hn. unfold_consts. intros Hn. destruct (Z.ltb_spec (n / 1000000000) 43200); destruct (Z.leb_spec 12 (n / 3600000000000)); try reflexivity; lia. }
  assert (P0 : (n / NANOS_PER_SEC =? 0) = (n / NANOS_PER_HOUR =? 0) && (n / NANOS_PER_MINUTE mod 60 =? 0) && (n / NANOS_PER_SEC mod 60 =? 0)).
  { revert Hn. unfold_consts. intros Hn. apply eq_true_iff_eq. rewrite !andb_true_iff, !Z.eqb_eq. lia. }
  assert (P12 : (n / NANOS_PER_SEC =? 43200) = (n / NANOS_PER_HOUR =? 12) && (n / NANOS_PER_MINUTE mod 60 =? 0) && (n / NANOS_PER_SEC mod 60 =? 0)).
  { revert Hn. unfold_consts. intros Hn. apply eq_true_iff_eq. rewrite !andb_true_iff, !Z.eqb_eq. lia. }
  rewrite P, P0, P12.
  assert (C : st = 1 \/ st = 2 \/ st = 3 \/ st = 4 \/ st = 5) by lia.
  destruct C as [-> | [-> | [-> | [-> | ->]]]]; cbn [Z.sub Z.add Z.opp Z.pos_sub Z.to_nat Pos.to_nat Pos.iter_op Nat.add Pos.pred_double PERIOD_FORMATS nth_error Z.leb Z.compare Z.eqb Pos.eqb andb];
  destruct ((n / NANOS_PER_HOUR =? 0) && (n / NANOS_PER_MINUTE mod 60 =? 0) && (n / NANOS_PER_SEC mod 60 =? 0)); try reflexivity;
  destruct ((n / NANOS_PER_HOUR =? 12) && (n / NANOS_PER_MINUTE mod 60 =? 0) && (n / NANOS_PER_SEC mod 60 =? 0)); try reflexivity;
  destruct (12 <=? n / NANOS_PER_HOUR); reflexivity.
Qed.

Lemma format_zone_text len off z : 1 <= len -> format_zone len off z = zone_text (if 5 <? len then 3 else len) off z.
Proof.
  intros Hw. unfold format_zone, zone_text. destruct (z && (off =? 0)); [reflexivity|]. cbv zeta.
  rewrite !pad_zero_padded.
  assert (E1 : Z.abs off mod 3600 / 60 = Z.abs off / 60 mod 60) by lia.
  assert (E2 : Z.abs off mod 3600 mod 60 = Z.abs off mod 60) by lia. rewrite E1, E2.
  wcases len Hw; try reflexivity; try (destruct (_ =? 0); reflexivity).
Qed.

Lemma over35 w : 1 <= w -> 1 <= (if 5 <? w then 3 else w) <= 5.
Proof. intros. destruct (Z.ltb_spec 5 w); lia. Qed.

Theorem time_field_render F n off c w : time_fields_agree F n off -> 1 <= w -> is_time_sym c = true ->
  format_time_part (repeat_c c (Z.to_nat w)) n off = Ok (render_field F c w).
Proof.
  intros (Hn & Ah & Am & As & Ass & Ao) Hw Hc. rewrite ftp_run by exact Hw. cbv zeta. rewrite (nanos_to_time_spec n Hn).
  unfold is_time_sym in Hc. cbn [existsb] in Hc. rewrite !orb_true_iff, !Z.eqb_eq in Hc.
  assert (Ew : wrap_u32 (n mod NANOS_PER_SEC) = n mod NANOS_PER_SEC) by (unfold wrap_u32, NANOS_PER_SEC; lia).
  destruct Hc as [-> | [-> | [-> | [-> | [-> | [-> | [-> | [-> | [-> | [-> | [-> | Hc]]]]]]]]]]]; [.. | discriminate Hc];
  cbn [Z.eqb Pos.eqb]; unfold render_field; cbv zeta; rewrite ?Ah, ?Am, ?As, ?Ass, ?Ao, ?pad_zero_padded, ?get_length_over.
  - rewrite format_period_plain; [reflexivity | exact Hn | apply over35; exact Hw].
  - rewrite format_period_b; [reflexivity | exact Hn | apply over35; exact Hw].
  - reflexivity.
  - reflexivity.
  - reflexivity.
  - reflexivity.
  - reflexivity.
  - reflexivity.
  - rewrite Ew. wcases w Hw; rewrite ?pad_zero_padded; try (change (10 ^ (9 - 9)) with 1; rewrite Z.div_1_r); reflexivity.
  - rewrite format_zone_text by exact Hw. reflexivity.
  - rewrite format_zone_text by exact Hw. reflexivity.
Qed.

(* ================= the tokenizer: parse_format_string (unparse items) = the items' parts ================= *)
(* the part the tokenizer produces for an item: escaped apostrophes are NUL inside the tokenizer *)
Definition nul_apos (c : Z) : Z := if c =? 39 then 0 else c.
Definition part_of (it : pitem) : text :=
  match it with
  | PField c w | PLit c w => repeat_c c (Z.to_nat w)
  | PQuoted txt => 39 :: map nul_apos txt ++ [39]
  | PApos k => repeat_c 0 (Z.to_nat k)
  end.
Definition item_first (it : pitem) : Z := match it with PField c _ | PLit c _ => c | PQuoted _ => 39 | PApos _ => 0 end.
Definition is_run (it : pitem) : bool := match it with PField _ _ | PLit _ _ => true | _ => false end.
Definition is_sym (c : Z) : bool := is_date_sym c || is_time_sym c.
(* one item; a quoted text starts with a character other than an apostrophe (leading apostrophes are written as a PApos
   item in front: same pattern text) *)
Definition item_ok (it : pitem) : bool :=
  match it with
  | PField c w => (1 <=? w) && is_sym c
  | PLit c k => (1 <=? k) && negb (is_sym c) && negb (c =? 39) && negb (c =? 0)
  | PQuoted txt => match txt with c :: _ => negb (c =? 39) | [] => false end && negb (existsb (Z.eqb 0) txt)
  | PApos k => 1 <=? k
  end.
Definition apos_then_quoted (p it : pitem) : bool := match p, it with PApos _, PQuoted _ => true | _, _ => false end.
Definition adj_ok (prev : option pitem) (it : pitem) : bool :=
  match prev with None => true | Some p => negb (item_first p =? item_first it) && (is_run p || is_run it || apos_then_quoted p it) end.
Fixpoint swf (prev : option pitem) (items : list pitem) : bool :=
  match items with [] => true | it :: tl => item_ok it && adj_ok prev it && swf (Some it) tl end.

Lemma sym_not_special c : is_sym c = true -> c <> 39 /\ c <> 0.
Proof.
  unfold is_sym, is_date_sym, is_time_sym. cbn [existsb]. rewrite !orb_true_iff, !Z.eqb_eq. intros H. lia.
Qed.
Lemma item_first_run it : item_ok it = true -> is_run it = true -> item_first it <> 39 /\ item_first it <> 0.
Proof.
  destruct it as [c w | c k | txt | k]; cbn [is_run item_first item_ok]; try discriminate; intros H _.
  - apply andb_true_iff in H as [_ H]. apply sym_not_special, H.
  - rewrite !andb_true_iff, !negb_true_iff, !Z.eqb_neq in H. tauto.
Qed.

(* ---------- replace("''", NUL) ---------- *)
Lemma rda_other c s : c <> 39 -> replace_double_apos (c :: s) = c :: replace_double_apos s.
Proof.
  intros H. destruct s as [|b tl]; [reflexivity|]. cbn [replace_double_apos]. unfold APOS. destruct (Z.eqb_spec c 39); [contradiction|]. reflexivity.
Qed.
Lemma rda_pair s : replace_double_apos (39 :: 39 :: s) = 0 :: replace_double_apos s.
Proof. reflexivity. Qed.
Lemma rda_single c s : c <> 39 -> replace_double_apos (39 :: c :: s) = 39 :: replace_double_apos (c :: s).
Proof. intros H. cbn [replace_double_apos]. unfold APOS. cbn [Z.eqb Pos.eqb andb]. destruct (Z.eqb_spec c 39); [contradiction|]. reflexivity. Qed.
Lemma rda_run c k s : c <> 39 -> replace_double_apos (repeat_c c k ++ s) = repeat_c c k ++ replace_double_apos s.
Proof. intros H. induction k as [|k IH]; cbn [repeat_c app]; [reflexivity|]. rewrite rda_other by exact H. rewrite IH. reflexivity. Qed.
Lemma rda_apos k s : replace_double_apos (repeat_c 39 (2 * k) ++ s) = repeat_c 0 k ++ replace_double_apos s.
Proof.
  induction k as [|k IH]; [reflexivity|]. replace (2 * S k)%nat with (S (S (2 * k))) by lia. cbn [repeat_c app]. rewrite rda_pair, IH. reflexivity.
Qed.
Definition esc (txt : text) : text := flat_map (fun c => if c =? 39 then [39; 39] else [c]) txt.
Definition next_ok (s : text) : Prop := match s with [] => True | c :: _ => c <> 39 end.
Lemma rda_esc txt : forall s, next_ok s -> replace_double_apos (esc txt ++ 39 :: s) = map nul_apos txt ++ 39 :: replace_double_apos s.
Proof.
  induction txt as [|c txt IH]; intros s Hs; cbn [esc flat_map map app].
  - destruct s as [|b tl]; [reflexivity|]. cbn [next_ok] in Hs. rewrite rda_single by exact Hs. reflexivity.
  - fold (esc txt). unfold nul_apos at 1. destruct (Z.eqb_spec c 39) as [->|Hc].
    + cbn [app]. rewrite rda_pair, IH by exact Hs. reflexivity.
    + cbn [app]. rewrite rda_other by exact Hc. rewrite IH by exact Hs. reflexivity.
Qed.

Lemma unparse_cons it tl : unparse (it :: tl) = unparse_item it ++ unparse tl. Proof. reflexivity. Qed.
Lemma next_ok_unparse it tl prev : swf prev (it :: tl) = true -> is_run it = true -> next_ok (unparse (it :: tl)).
Proof.
  intros H Hr. cbn [swf] in H. rewrite !andb_true_iff in H. destruct H as ((Hi & _) & _).
  destruct (item_first_run it Hi Hr) as [A _]. destruct it as [c w | c k | txt | k]; try discriminate; cbn [item_first] in A.
  - cbn [item_ok] in Hi. apply andb_true_iff in Hi as [Hw _]. apply Z.leb_le in Hw. rewrite unparse_cons. cbn [unparse_item].
    destruct (Z.to_nat w) eqn:E; [lia|]. cbn [repeat_c app next_ok]. exact A.
  - cbn [item_ok] in Hi. rewrite !andb_true_iff in Hi. destruct Hi as (((Hw & _) & _) & _). apply Z.leb_le in Hw. rewrite unparse_cons. cbn [unparse_item].
    destruct (Z.to_nat k) eqn:E; [lia|]. cbn [repeat_c app next_ok]. exact A.
Qed.

Theorem rda_unparse : forall items prev, swf prev items = true ->
  replace_double_apos (unparse items) = flat_map part_of items.
Proof.
  induction items as [|it tl IH]; intros prev H; [reflexivity|]. pose proof H as H0. cbn [swf] in H. rewrite !andb_true_iff in H. destruct H as ((Hi & Ha) & Ht).
  rewrite unparse_cons. cbn [flat_map]. rewrite <- (IH (Some it) Ht).
  destruct it as [c w | c k | txt | k]; cbn [unparse_item part_of].
  - apply rda_run. cbn [item_ok] in Hi. apply andb_true_iff in Hi as [_ Hs]. apply sym_not_special in Hs. tauto.
  - apply rda_run. cbn [item_ok] in Hi. rewrite !andb_true_iff, !negb_true_iff, !Z.eqb_neq in Hi. tauto.
  - (* quoted: the next item is a run *)
    cbn [item_ok] in Hi. apply andb_true_iff in Hi as [Hh _]. destruct txt as [|c0 txt0] eqn:Et; [discriminate|]. rewrite <- Et.
    apply negb_true_iff, Z.eqb_neq in Hh.
    assert (Hn : next_ok (unparse tl)).
    { destruct tl as [|nx tl']; [exact I|]. pose proof Ht as Ht'. cbn [swf adj_ok] in Ht'. rewrite !andb_true_iff in Ht'. destruct Ht' as ((_ & (_ & Hr)) & _).
      cbn [is_run orb apos_then_quoted] in Hr. rewrite orb_false_r in Hr. apply (next_ok_unparse nx tl' (Some (PQuoted txt))); [rewrite Et; exact Ht | exact Hr]. }
    change (39 :: flat_map (fun c : Z => if c =? 39 then [39; 39] else [c]) txt ++ [39]) with (39 :: esc txt ++ [39]).
    cbn [app]. rewrite <- app_assoc. cbn [app]. rewrite Et at 1. cbn [esc flat_map]. destruct (Z.eqb_spec c0 39); [contradiction|]. cbn [app].
    rewrite rda_single by assumption. rewrite rda_other by assumption. fold (esc txt0). rewrite (rda_esc txt0 _ Hn).
    rewrite Et. cbn [map app]. rewrite <- app_assoc. cbn [app].
    replace (nul_apos c0) with c0 by (unfold nul_apos; destruct (Z.eqb_spec c0 39); [contradiction | reflexivity]). reflexivity.
  - cbn [item_ok] in Hi. apply Z.leb_le in Hi. replace (Z.to_nat (2 * k)) with (2 * Z.to_nat k)%nat by lia. apply rda_apos.
Qed.

(* ---------- the run-length tokenizer ---------- *)
Lemma repeat_c_snoc c k : repeat_c c k ++ [c] = c :: repeat_c c k.
Proof. induction k as [|k IH]; cbn [repeat_c app]; [reflexivity|]. rewrite IH. reflexivity. Qed.
Lemma rev_repeat c k : rev (repeat_c c k) = repeat_c c k.
Proof. induction k as [|k IH]; cbn [repeat_c rev]; [reflexivity|]. rewrite IH. apply repeat_c_snoc. Qed.

Definition head_ne (parts : list text) (c : Z) : Prop :=
  match parts with [] => True | p :: _ => match rev p with f :: _ => f <> c | [] => True end end.

Lemma tok_run_more c : c <> 39 -> forall k j s ps,
  tokenize (repeat_c c k ++ s) false (repeat_c c (S j) :: ps) = tokenize s false (repeat_c c (S j + k) :: ps).
Proof.
  intros Hc. induction k as [|k IH]; intros j s ps.
  - cbn [repeat_c app]. rewrite Nat.add_0_r. reflexivity.
  - change (repeat_c c (S k) ++ s) with (c :: (repeat_c c k ++ s)). cbn [tokenize]. unfold APOS. destruct (Z.eqb_spec c 39); [contradiction|].
    rewrite rev_repeat. cbn [orb]. change (repeat_c c (S j)) with (c :: repeat_c c j) at 1. cbv iota beta. rewrite Z.eqb_refl.
    change (c :: repeat_c c (S j)) with (repeat_c c (S (S j))).
    rewrite IH. replace (S (S j) + k)%nat with (S j + S k)%nat by lia. reflexivity.
Qed.
Lemma tok_run_start c k s parts : c <> 39 -> (1 <= k)%nat -> head_ne parts c ->
  tokenize (repeat_c c k ++ s) false parts = tokenize s false (repeat_c c k :: parts).
Proof.
  intros Hc Hk Hh. destruct k as [|k]; [lia|]. change (repeat_c c (S k) ++ s) with (c :: (repeat_c c k ++ s)). cbn [tokenize]. unfold APOS. destruct (Z.eqb_spec c 39); [contradiction|].
  destruct parts as [|p ps].
  - change [[c]] with [repeat_c c 1]. rewrite (tok_run_more c Hc k 0 s []). reflexivity.
  - cbn [head_ne] in Hh. cbn [orb]. destruct (rev p) as [|f r] eqn:Er.
    + change ([c] :: p :: ps) with (repeat_c c 1 :: p :: ps). rewrite (tok_run_more c Hc k 0 s (p :: ps)). reflexivity.
    + destruct (Z.eqb_spec f c); [contradiction|]. change ([c] :: p :: ps) with (repeat_c c 1 :: p :: ps). rewrite (tok_run_more c Hc k 0 s (p :: ps)). reflexivity.
Qed.
Lemma tok_esc_body body : forall s p ps, Forall (fun c => c <> 39) body ->
  tokenize (body ++ s) true (p :: ps) = tokenize s true ((rev body ++ p) :: ps).
Proof.
  induction body as [|c body IH]; intros s p ps Hb; [reflexivity|]. inversion Hb as [|? ? Hc Hb']; subst.
  cbn [app tokenize]. unfold APOS. destruct (Z.eqb_spec c 39); [contradiction|]. cbn [orb]. rewrite IH by exact Hb'.
  cbn [rev]. rewrite <- app_assoc. reflexivity.
Qed.
Lemma tok_quoted body s parts : Forall (fun c => c <> 39) body ->
  tokenize (39 :: body ++ 39 :: s) false parts = tokenize s false ((39 :: rev body ++ [39]) :: parts).
Proof.
  intros Hb. cbn [tokenize]. unfold APOS. cbn [Z.eqb Pos.eqb negb]. rewrite tok_esc_body by exact Hb.
  cbn [tokenize]. unfold APOS. cbn [Z.eqb Pos.eqb negb]. reflexivity.
Qed.

Definition start_parts (prev : option pitem) (ps : list text) : list text :=
  match prev with None => [] | Some p => rev (part_of p) :: ps end.
Lemma part_of_head it : item_ok it = true -> exists t, part_of it = item_first it :: t.
Proof.
  destruct it as [c w | c k | txt | k]; cbn [item_ok part_of item_first]; intros H.
  - apply andb_true_iff in H as [Hw _]. apply Z.leb_le in Hw. destruct (Z.to_nat w) eqn:E; [lia|]. eexists; reflexivity.
  - rewrite !andb_true_iff in H. destruct H as (((Hw & _) & _) & _). apply Z.leb_le in Hw. destruct (Z.to_nat k) eqn:E; [lia|]. eexists; reflexivity.
  - eexists; reflexivity.
  - apply Z.leb_le in H. destruct (Z.to_nat k) eqn:E; [lia|]. eexists; reflexivity.
Qed.
Lemma head_ne_start prev ps it : (forall p, prev = Some p -> item_ok p = true) -> adj_ok prev it = true ->
  head_ne (start_parts prev ps) (item_first it).
Proof.
  intros Hp Ha. destruct prev as [p|]; [|exact I]. cbn [start_parts head_ne]. rewrite rev_involutive.
  destruct (part_of_head p (Hp p eq_refl)) as [t ->]. cbn [adj_ok] in Ha. apply andb_true_iff in Ha as [Ha _].
  apply negb_true_iff, Z.eqb_neq in Ha. exact Ha.
Qed.

Lemma tok_items : forall items prev ps, swf prev items = true -> (forall p, prev = Some p -> item_ok p = true) ->
  tokenize (flat_map part_of items) false (start_parts prev ps) = rev (map (fun it => rev (part_of it)) items) ++ start_parts prev ps.
Proof.
  induction items as [|it tl IH]; intros prev ps H Hp; [reflexivity|].
  cbn [swf] in H. rewrite !andb_true_iff in H. destruct H as ((Hi & Ha) & Ht).
  cbn [flat_map map rev]. rewrite <- app_assoc. cbn [app].
  assert (Step : tokenize (part_of it ++ flat_map part_of tl) false (start_parts prev ps)
                 = tokenize (flat_map part_of tl) false (start_parts (Some it) (start_parts prev ps))).
  { pose proof (head_ne_start prev ps it Hp Ha) as Hh. cbn [start_parts].
    destruct it as [c w | c k | txt | k]; cbn [part_of item_first] in *.
    - cbn [item_ok] in Hi. apply andb_true_iff in Hi as [Hw Hs]. apply Z.leb_le in Hw. apply sym_not_special in Hs.
      rewrite rev_repeat. apply tok_run_start; [tauto | lia | exact Hh].
    - cbn [item_ok] in Hi. rewrite !andb_true_iff, !negb_true_iff, !Z.eqb_neq in Hi. destruct Hi as (((Hw & _) & H39) & _). apply Z.leb_le in Hw.
      rewrite rev_repeat. apply tok_run_start; [exact H39 | lia | exact Hh].
    - cbn [app]. rewrite <- app_assoc. cbn [app]. rewrite tok_quoted.
      + cbn [rev]. rewrite rev_app_distr. cbn [rev app]. reflexivity.
      + apply Forall_forall. intros x Hx. apply in_map_iff in Hx as (c & <- & _). unfold nul_apos. destruct (Z.eqb_spec c 39); [discriminate | assumption].
    - cbn [item_ok] in Hi. apply Z.leb_le in Hi. rewrite rev_repeat. apply tok_run_start; [discriminate | lia | exact Hh]. }
  rewrite Step. rewrite (IH (Some it) (start_parts prev ps) Ht); [reflexivity|]. intros p E. injection E as <-. exact Hi.
Qed.

Theorem tokenizer_items items : swf None items = true -> parse_format_string (unparse items) = map part_of items.
Proof.
  intros H. unfold parse_format_string. rewrite (rda_unparse items None H).
  pose proof (tok_items items None [] H ltac:(discriminate)) as T. cbn [start_parts] in T. rewrite T, app_nil_r.
  rewrite map_rev, rev_involutive, map_map. apply map_ext. intros it. apply rev_involutive.
Qed.

(* ================= every item is rendered as the table says ================= *)
Lemma date_symbol_eq c : is_date_symbol c = is_date_sym c.
Proof. unfold is_date_symbol, is_date_sym. cbn [existsb]. rewrite orb_false_r, !orb_assoc. reflexivity. Qed.
Lemma time_symbol_eq c : is_time_symbol c = is_time_sym c.
Proof. unfold is_time_symbol, is_time_sym. cbn [existsb]. rewrite orb_false_r, !orb_assoc. reflexivity. Qed.

Lemma fdp_other c w d : 1 <= w -> is_date_sym c = false -> format_date_part (repeat_c c (Z.to_nat w)) d = Ok (repeat_c c (Z.to_nat w)).
Proof.
  intros Hw H. rewrite fdp_run by exact Hw. cbv zeta. unfold is_date_sym in H. cbn [existsb] in H. rewrite !orb_false_iff in H.
  destruct H as (H1 & H2 & H3 & H4 & H5 & H6 & H7 & H8 & _). rewrite H1, H2, H3, H4, H5, H6, H7, H8. reflexivity.
Qed.
Lemma ftp_other c w n off : 1 <= w -> is_time_sym c = false -> format_time_part (repeat_c c (Z.to_nat w)) n off = Ok (repeat_c c (Z.to_nat w)).
Proof.
  intros Hw H. rewrite ftp_run by exact Hw. cbv zeta. unfold is_time_sym in H. cbn [existsb] in H. rewrite !orb_false_iff in H.
  destruct H as (H1 & H2 & H3 & H4 & H5 & H6 & H7 & H8 & H9 & H10 & H11 & _). rewrite H1, H2, H3, H4, H5, H6, H7, H8, H9, H10, H11.
  destruct (nanos_to_time n) as [[h m] s]. reflexivity.
Qed.

(* the function each format() method applies to a part *)
Definition kind_fun (kind d n off : Z) : text -> res text :=
  match kind with 0 => fun p => format_date_part p d | 1 => fun p => format_time_part p n off | _ => fun p => format_part p d n off end.

Lemma run_render kind F d n off c w : date_fields_agree F d -> time_fields_agree F n off -> 1 <= w ->
  kind_fun kind d n off (repeat_c c (Z.to_nat w)) = Ok (if understands kind c then render_field F c w else repeat_c c (Z.to_nat w)).
Proof.
  intros Ad At Hw. unfold kind_fun, understands. destruct kind as [|[p|p|]|p].
  - destruct (is_date_sym c) eqn:E; [apply date_field_render; assumption | apply fdp_other; assumption].
  - unfold format_part. cbv zeta. rewrite first_char_repeat by lia. rewrite date_symbol_eq, time_symbol_eq.
    destruct (is_date_sym c) eqn:E; cbn [orb]; [apply date_field_render; assumption|].
    destruct (is_time_sym c) eqn:E2; [apply time_field_render; assumption | reflexivity].
  - unfold format_part. cbv zeta. rewrite first_char_repeat by lia. rewrite date_symbol_eq, time_symbol_eq.
    destruct (is_date_sym c) eqn:E; cbn [orb]; [apply date_field_render; assumption|].
    destruct (is_time_sym c) eqn:E2; [apply time_field_render; assumption | reflexivity].
  - destruct (is_time_sym c) eqn:E; [apply time_field_render; assumption | apply ftp_other; assumption].
  - unfold format_part. cbv zeta. rewrite first_char_repeat by lia. rewrite date_symbol_eq, time_symbol_eq.
    destruct (is_date_sym c) eqn:E; cbn [orb]; [apply date_field_render; assumption|].
    destruct (is_time_sym c) eqn:E2; [apply time_field_render; assumption | reflexivity].
Qed.

Lemma repeat_c_map f c k : map f (repeat_c c k) = repeat_c (f c) k.
Proof. induction k as [|k IH]; cbn [repeat_c map]; [reflexivity|]. rewrite IH. reflexivity. Qed.

Theorem part_render kind F d n off it : date_fields_agree F d -> time_fields_agree F n off -> item_ok it = true ->
  render_part (kind_fun kind d n off) (part_of it) = Ok (render_item kind F it).
Proof.
  intros Ad At Hi. destruct (part_of_head it Hi) as [t Eh]. unfold render_part. rewrite Eh. cbn [first_char]. rewrite <- Eh.
  destruct it as [c w | c k | txt | k]; cbn [item_first part_of render_item item_ok] in *.
  - apply andb_true_iff in Hi as [Hw Hs]. apply Z.leb_le in Hw. apply sym_not_special in Hs. unfold NUL, APOS.
    destruct (Z.eqb_spec c 0); [lia|]. destruct (Z.eqb_spec c 39); [lia|]. apply run_render; assumption.
  - rewrite !andb_true_iff, !negb_true_iff in Hi. destruct Hi as (((Hw & Hs) & H39) & H0). apply Z.leb_le in Hw. unfold NUL, APOS. rewrite H0, H39.
    rewrite (run_render kind F d n off c k Ad At Hw). unfold is_sym in Hs. apply orb_false_iff in Hs as [Hs1 Hs2].
    unfold understands. destruct kind as [|[p|p|]|p]; rewrite ?Hs1, ?Hs2; reflexivity.
  - unfold NUL, APOS. cbn [Z.eqb Pos.eqb]. f_equal. unfold unquote_part. cbv zeta.
    assert (Hc : (1 <? char_count (39 :: map nul_apos txt ++ [39])) = true).
    { unfold char_count. cbn [length]. rewrite app_length. cbn [length]. apply Z.ltb_lt. lia. }
    rewrite Hc. change (39 :: map nul_apos txt ++ [39]) with ((39 :: map nul_apos txt) ++ [39]) at 1. rewrite rev_app_distr. cbn [rev app].
    unfold APOS. cbn [Z.eqb Pos.eqb andb tl]. rewrite removelast_last, map_map.
    apply andb_true_iff in Hi as [_ H0]. apply negb_true_iff in H0.
    rewrite <- (map_id txt) at 2. apply map_ext_in. intros c Hin. unfold nul_apos, NUL.
    destruct (Z.eqb_spec c 39) as [->|]; [reflexivity|]. destruct (Z.eqb_spec c 0) as [->|]; [|reflexivity].
    exfalso. assert (X : existsb (Z.eqb 0) txt = true) by (apply existsb_exists; exists 0; split; [exact Hin | reflexivity]). congruence.
  - apply Z.leb_le in Hi. unfold NUL. cbn [Z.eqb]. f_equal. rewrite repeat_c_map. reflexivity.
Qed.

Lemma concat_res_oks (l : list text) : concat_res (map (@Ok text) l) = Ok (concat l).
Proof. induction l as [|a l IH]; cbn [map concat_res concat]; [reflexivity|]. rewrite IH. reflexivity. Qed.
Lemma swf_items_ok items : forall prev, swf prev items = true -> Forall (fun it => item_ok it = true) items.
Proof.
  induction items as [|it tl IH]; intros prev H; [constructor|]. cbn [swf] in H. rewrite !andb_true_iff in H. destruct H as ((Hi & _) & Ht).
  constructor; [exact Hi | apply (IH (Some it) Ht)].
Qed.

(* the whole pattern: tokenizer and renderer composed *)
Theorem format_items kind F d n off items : date_fields_agree F d -> time_fields_agree F n off -> swf None items = true ->
  concat_res (map (render_part (kind_fun kind d n off)) (parse_format_string (unparse items))) = Ok (render kind F items).
Proof.
  intros Ad At H. rewrite (tokenizer_items items H), map_map.
  assert (E : map (fun it => render_part (kind_fun kind d n off) (part_of it)) items = map (@Ok text) (map (render_item kind F) items)).
  { rewrite map_map. apply map_ext_in. intros it Hin. apply part_render; try assumption.
    pose proof (swf_items_ok items None H) as Fa. rewrite Forall_forall in Fa. apply Fa, Hin. }
  rewrite E, concat_res_oks. unfold render. rewrite flat_map_concat_map. reflexivity.
Qed.

(* ---------- the three format() methods ---------- *)
Lemma fields_date_agree d clock off : date_fields_agree (fields_of_day d clock off) d.
Proof. unfold date_fields_agree, fields_of_day. destruct (days_to_date d) as [[y m] dd]. cbn. repeat split; reflexivity. Qed.
Lemma fields_time_agree d n off : 0 <= n < NANOS_PER_DAY -> time_fields_agree (fields_of_day d n off) n off.
Proof. intros H. unfold time_fields_agree, fields_of_day. destruct (days_to_date d) as [[y m] dd]. cbn [vf_hour vf_minute vf_second vf_subsec vf_offset]. repeat split; try reflexivity; lia. Qed.

Theorem date_format_items d items : swf None items = true ->
  date_format d (unparse items) = Ok (render 0 (fields_of_day d 0 0) items).
Proof.
  intros H. unfold date_format. apply (format_items 0 (fields_of_day d 0 0) d 0 0 items); [apply fields_date_agree | | exact H].
  apply fields_time_agree. unfold NANOS_PER_DAY. lia.
Qed.
Theorem time_format_items t items : Inv_tm t -> swf None items = true ->
  time_format t (unparse items) = Ok (render 1 (fields_of_day 0 ((tm_nanos t + tm_off t * NANOS_PER_SEC) mod NANOS_PER_DAY) (tm_off t)) items).
Proof.
  intros [Hn Ho] H. unfold time_format. cbv zeta. rewrite (add_offset_to_nanos_spec (tm_nanos t) (tm_off t) Hn Ho). unfold D.
  apply (format_items 1 _ 0 _ (tm_off t) items); [apply fields_date_agree | | exact H].
  apply fields_time_agree. apply Z.mod_pos_bound. unfold NANOS_PER_DAY. lia.
Qed.
Theorem dt_format_items v items : Valid_dt v -> swf None items = true ->
  dt_format v (unparse items) =
  Ok (render 2 (fields_of_day (local_instant v / NANOS_PER_DAY) (local_instant v mod NANOS_PER_DAY) (dt_off v)) items).
Proof.
  intros [I L] H. unfold dt_format. cbv zeta. unfold add_offset_to_dn. rewrite (days_nanos_to_nanos_spec (dt_days v) (dt_nanos v)).
  destruct (split_ok _ L) as [E _]. unfold local_instant, instant in E. rewrite E. cbn [unwrap bind]. unfold D.
  apply (format_items 2 _ _ _ (dt_off v) items); [apply fields_date_agree | | exact H].
  apply fields_time_agree. apply Z.mod_pos_bound. unfold NANOS_PER_DAY. lia.
Qed.

(* ================= every item list of the oracle's grammar has a normal form in swf ================= *)
(* leading apostrophes of a quoted text are written as an escaped-apostrophes item in front: same pattern text, same rendering *)
Fixpoint lead_apos (txt : text) : nat := match txt with c :: tl => if c =? 39 then S (lead_apos tl) else O | [] => O end.
Definition norm_item (it : pitem) : list pitem :=
  match it with
  | PQuoted txt => match lead_apos txt with O => [it] | S j => [PApos (Z.of_nat (S j)); PQuoted (skipn (S j) txt)] end
  | _ => [it]
  end.
Definition norm (items : list pitem) : list pitem := flat_map norm_item items.

Lemma lead_apos_split txt : txt = repeat_c 39 (lead_apos txt) ++ skipn (lead_apos txt) txt.
Proof. induction txt as [|c tl IH]; [reflexivity|]. cbn [lead_apos]. destruct (Z.eqb_spec c 39) as [->|]; [|reflexivity]. cbn [repeat_c skipn app]. f_equal. exact IH. Qed.
Lemma lead_apos_rest txt : existsb (fun c => negb (c =? 39)) txt = true ->
  match skipn (lead_apos txt) txt with c :: _ => negb (c =? 39) | [] => false end = true.
Proof.
  induction txt as [|c tl IH]; [discriminate|]. cbn [existsb lead_apos]. destruct (Z.eqb_spec c 39) as [->|Hc]; cbn [negb orb skipn].
  - exact IH.
  - intros _. destruct (Z.eqb_spec c 39); [contradiction | reflexivity].
Qed.
Lemma esc_app a b : esc (a ++ b) = esc a ++ esc b. Proof. unfold esc. apply flat_map_app. Qed.
Lemma esc_apos k : esc (repeat_c 39 k) = repeat_c 39 (2 * k).
Proof. induction k as [|k IH]; [reflexivity|]. replace (2 * S k)%nat with (S (S (2 * k))) by lia. cbn [repeat_c]. unfold esc in *. cbn [flat_map Z.eqb Pos.eqb app]. rewrite IH. reflexivity. Qed.
Lemma repeat_c_cons_comm c k l : c :: repeat_c c k ++ l = repeat_c c k ++ c :: l.
Proof. induction k as [|k IH]; [reflexivity|]. cbn [repeat_c app]. rewrite IH. reflexivity. Qed.
Lemma repeat_c_app c a b : repeat_c c (a + b) = repeat_c c a ++ repeat_c c b.
Proof. induction a as [|a IH]; [reflexivity|]. cbn [Nat.add repeat_c app]. rewrite IH. reflexivity. Qed.

Lemma norm_item_unparse it : flat_map unparse_item (norm_item it) = unparse_item it.
Proof.
  destruct it as [c w | c k | txt | k]; cbn [norm_item flat_map app]; rewrite ?app_nil_r; try reflexivity.
  destruct (lead_apos txt) as [|j] eqn:El; [cbn [flat_map]; rewrite app_nil_r; reflexivity|].
  cbn [flat_map unparse_item]. rewrite app_nil_r. rewrite (lead_apos_split txt) at 2. rewrite El.
  change (flat_map (fun c : Z => if c =? 39 then [39; 39] else [c])) with esc. rewrite esc_app, esc_apos.
  replace (Z.to_nat (2 * Z.of_nat (S j))) with (2 * S j)%nat by lia. rewrite <- app_assoc.
  symmetry. apply (repeat_c_cons_comm 39 (2 * S j) (esc (skipn (S j) txt) ++ [39])).
Qed.
Lemma norm_unparse items : unparse (norm items) = unparse items.
Proof.
  unfold unparse, norm. induction items as [|it tl IH]; [reflexivity|]. cbn [flat_map]. rewrite flat_map_app, IH, norm_item_unparse. reflexivity.
Qed.
Lemma norm_item_render kind F it : flat_map (render_item kind F) (norm_item it) = render_item kind F it.
Proof.
  destruct it as [c w | c k | txt | k]; cbn [norm_item flat_map app]; rewrite ?app_nil_r; try reflexivity.
  destruct (lead_apos txt) as [|j] eqn:El; [cbn [flat_map]; rewrite app_nil_r; reflexivity|].
  cbn [flat_map render_item]. rewrite app_nil_r. rewrite (lead_apos_split txt) at 2. rewrite El. rewrite Nat2Z.id. reflexivity.
Qed.
Lemma norm_render kind F items : render kind F (norm items) = render kind F items.
Proof.
  unfold render, norm. induction items as [|it tl IH]; [reflexivity|]. cbn [flat_map]. rewrite flat_map_app, IH, norm_item_render. reflexivity.
Qed.

Definition wf_item (it : pitem) : bool :=
  match it with
  | PField c w => (1 <=? w) && (is_date_sym c || is_time_sym c)
  | PLit c k => (1 <=? k) && negb (is_date_sym c || is_time_sym c) && negb (c =? 39) && negb (c =? 0)
  | PQuoted txt => existsb (fun c => negb (c =? 39)) txt && negb (existsb (Z.eqb 0) txt)
  | PApos k => 1 <=? k
  end.
Definition wf_adj (it nx : pitem) : bool :=
  match item_char it, item_char nx with Some a, Some b => negb (a =? b) | None, None => false | _, _ => true end.
Lemma wf_items_cons it tl : wf_items (it :: tl) = wf_item it && (match tl with nx :: _ => wf_adj it nx | [] => true end) && wf_items tl.
Proof. destruct it; reflexivity. Qed.

Definition first_norm (it : pitem) : pitem := match norm_item it with x :: _ => x | [] => it end.
Definition last_norm (it : pitem) : pitem := match rev (norm_item it) with x :: _ => x | [] => it end.

Lemma existsb0_skipn n : forall txt, existsb (Z.eqb 0) txt = false -> existsb (Z.eqb 0) (skipn n txt) = false.
Proof. induction n as [|n IH]; intros [|c tl] H; cbn [skipn]; try assumption. cbn [existsb] in H. apply orb_false_iff in H as [_ H]. apply IH, H. Qed.

(* the normal form of one item is well formed, starts / ends with the expected kind of item *)
Lemma norm_item_swf prev it : wf_item it = true -> adj_ok prev (first_norm it) = true -> swf prev (norm_item it) = true.
Proof.
  intros Hw Ha. unfold first_norm in Ha. destruct it as [c w | c k | txt | k]; cbn [norm_item] in *.
  - cbn [swf item_ok]. unfold is_sym. cbn [wf_item] in Hw. rewrite Hw, Ha. reflexivity.
  - cbn [swf item_ok]. unfold is_sym. cbn [wf_item] in Hw. rewrite Hw, Ha. reflexivity.
  - cbn [wf_item] in Hw. apply andb_true_iff in Hw as [He H0]. pose proof (lead_apos_rest txt He) as Hr. apply negb_true_iff in H0.
    destruct (lead_apos txt) as [|j] eqn:El.
    + cbn [skipn] in Hr. cbn [swf item_ok]. rewrite Hr, H0, Ha. reflexivity.
    + cbn [swf item_ok adj_ok item_first is_run apos_then_quoted]. rewrite Hr, (existsb0_skipn (S j) txt H0), Ha.
      assert (E : (1 <=? Z.of_nat (S j)) = true) by (apply Z.leb_le; lia). rewrite E. reflexivity.
  - cbn [swf item_ok]. cbn [wf_item] in Hw. rewrite Hw, Ha. reflexivity.
Qed.

Lemma swf_app : forall a prev b, swf prev (a ++ b) = swf prev a && swf (match rev a with x :: _ => Some x | [] => prev end) b.
Proof.
  induction a as [|x a IH]; intros prev b; [reflexivity|]. cbn [app swf]. rewrite IH. rewrite <- !andb_assoc. f_equal. f_equal.
  cbn [rev]. destruct (rev a) as [|y r]; reflexivity.
Qed.
Lemma norm_item_nonempty it : norm_item it <> [].
Proof. destruct it as [c w | c k | txt | k]; cbn [norm_item]; try discriminate. destruct (lead_apos txt); discriminate. Qed.

Lemma wf_item_first it : wf_item it = true -> is_run it = true -> item_first it <> 39 /\ item_first it <> 0.
Proof.
  destruct it as [c w | c k | txt | k]; cbn [is_run item_first wf_item]; try discriminate; intros H _.
  - apply andb_true_iff in H as [_ H]. apply sym_not_special. exact H.
  - rewrite !andb_true_iff, !negb_true_iff, !Z.eqb_neq in H. tauto.
Qed.
Lemma first_last_norm it : (is_run it = true -> first_norm it = it /\ last_norm it = it) /\
  (is_run it = false -> (item_first (first_norm it) = 0 \/ item_first (first_norm it) = 39) /\ is_run (first_norm it) = false /\
                        (item_first (last_norm it) = 0 \/ item_first (last_norm it) = 39) /\ is_run (last_norm it) = false /\
                        apos_then_quoted (last_norm it) (first_norm it) = false).
Proof.
  unfold first_norm, last_norm. destruct it as [c w | c k | txt | k]; cbn [norm_item is_run rev app]; split; try discriminate; intros _; try (split; reflexivity).
  - destruct (lead_apos txt); cbn [rev app item_first is_run apos_then_quoted]; repeat split; auto.
  - cbn [item_first is_run apos_then_quoted]. repeat split; auto.
Qed.

Theorem norm_swf : forall items prev, wf_items items = true ->
  (match items with it :: _ => adj_ok prev (first_norm it) = true | [] => True end) -> swf prev (norm items) = true.
Proof.
  induction items as [|it tl IH]; intros prev Hw Ha; [reflexivity|].
  rewrite wf_items_cons in Hw. rewrite !andb_true_iff in Hw. destruct Hw as ((Hi & Hadj) & Htl).
  unfold norm. cbn [flat_map]. fold (norm tl). rewrite swf_app, (norm_item_swf prev it Hi Ha). cbn [andb].
  destruct (rev (norm_item it)) as [|x r] eqn:Er.
  { exfalso. apply (norm_item_nonempty it). apply (f_equal (@rev pitem)) in Er. rewrite rev_involutive in Er. exact Er. }
  apply IH; [exact Htl|]. destruct tl as [|nx tl']; [exact I|].
  assert (Ex : x = last_norm it) by (unfold last_norm; rewrite Er; reflexivity). subst x.
  rewrite wf_items_cons in Htl. rewrite !andb_true_iff in Htl. destruct Htl as ((Hin & _) & _).
  destruct (first_last_norm it) as [Fr Fn]. destruct (first_last_norm nx) as [Nr Nn].
  unfold wf_adj in Hadj. cbn [adj_ok].
  destruct (is_run it) eqn:Rit; destruct (is_run nx) eqn:Rnx.
  - destruct (Fr eq_refl) as [_ ->]. destruct (Nr eq_refl) as [-> _]. rewrite Rit. cbn [orb]. rewrite andb_true_r.
    destruct it as [a ? | a ? | ? | ?], nx as [b ? | b ? | ? | ?]; try discriminate; cbn [item_char item_first] in *; exact Hadj.
  - destruct (Fr eq_refl) as [_ ->]. rewrite Rit. cbn [orb]. rewrite andb_true_r.
    destruct (Nn eq_refl) as (Hf & _). destruct (wf_item_first it Hi Rit) as [A B]. apply negb_true_iff, Z.eqb_neq. destruct Hf as [-> | ->]; assumption.
  - destruct (Nr eq_refl) as [-> _]. rewrite Rnx. rewrite orb_true_r. cbn [orb]. rewrite andb_true_r.
    destruct (Fn eq_refl) as (_ & _ & Hl & _). destruct (wf_item_first nx Hin Rnx) as [A B]. apply negb_true_iff, Z.eqb_neq. destruct Hl as [-> | ->]; congruence.
  - exfalso. destruct it as [? ? | ? ? | ? | ?], nx as [? ? | ? ? | ? | ?]; try discriminate; cbn [item_char] in Hadj; discriminate.
Qed.

(* hence the format theorems hold for every item list of the oracle's grammar *)
Corollary wf_swf_norm items : wf_items items = true -> swf None (norm items) = true /\ unparse (norm items) = unparse items /\
  forall kind F, render kind F (norm items) = render kind F items.
Proof.
  intros H. split; [apply norm_swf; [exact H | destruct items; [exact I | reflexivity]]|]. split; [apply norm_unparse | intros; apply norm_render].
Qed.

Theorem date_format_wf d items : wf_items items = true -> date_format d (unparse items) = Ok (render 0 (fields_of_day d 0 0) items).
Proof. intros H. destruct (wf_swf_norm items H) as (S & U & R). rewrite <- U, <- R. apply date_format_items. exact S. Qed.
Theorem time_format_wf t items : Inv_tm t -> wf_items items = true ->
  time_format t (unparse items) = Ok (render 1 (fields_of_day 0 ((tm_nanos t + tm_off t * NANOS_PER_SEC) mod NANOS_PER_DAY) (tm_off t)) items).
Proof. intros I H. destruct (wf_swf_norm items H) as (S & U & R). rewrite <- U, <- R. apply time_format_items; assumption. Qed.
Theorem dt_format_wf v items : Valid_dt v -> wf_items items = true ->
  dt_format v (unparse items) = Ok (render 2 (fields_of_day (local_instant v / NANOS_PER_DAY) (local_instant v mod NANOS_PER_DAY) (dt_off v)) items).
Proof. intros I H. destruct (wf_swf_norm items H) as (S & U & R). rewrite <- U, <- R. apply dt_format_items; assumption. Qed.
