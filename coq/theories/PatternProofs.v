(* PatternProofs.v — C11: the formatter renders every symbol as the documented table (PatternSpec) says. *)
From Astro Require Import Base Text CalSpec DateModel TimeModel ApiModel InstantSpec FormatModel ParseModel PatternSpec
  DateProofs WeekProofs WeekFinal TimeProofs ClockProofs PadProofs.

(* ---------- the spec's padding functions are the model's ---------- *)
Lemma dec_digits_rev fuel : forall n acc, PatternSpec.dec_digits fuel n acc = rev (digits_rev fuel n) ++ acc.
Proof.
  induction fuel as [|k IH]; intros n acc; cbn [PatternSpec.dec_digits digits_rev]; [reflexivity|].
  destruct (n <? 10); [reflexivity|]. rewrite IH. cbn [rev]. rewrite <- app_assoc. reflexivity.
Qed.
Lemma dec_u_to_string n : PatternSpec.dec n = u_to_string n.
Proof. unfold PatternSpec.dec, u_to_string. rewrite dec_digits_rev, app_nil_r. reflexivity. Qed.
Lemma repeat48_zeros k : repeat_c 48 k = zeros k.
Proof. induction k as [|k IH]; cbn [repeat_c zeros]; [reflexivity|]. rewrite IH. reflexivity. Qed.
Lemma pad_zero_padded n w : pad n w = zero_padded n w.
Proof. unfold pad, zero_padded. cbv zeta. rewrite dec_u_to_string, repeat48_zeros. reflexivity. Qed.
Lemma pad_signed_zero_padded_i n w : pad_signed n w = zero_padded_i n w.
Proof. unfold pad_signed, zero_padded_i. rewrite pad_zero_padded. reflexivity. Qed.

(* ---------- runs ---------- *)
Lemma repeat_c_length c k : length (repeat_c c k) = k.
Proof. induction k as [|k IH]; cbn [repeat_c length]; [reflexivity|]. rewrite IH. reflexivity. Qed.
Lemma first_char_repeat c k : (1 <= k)%nat -> first_char (repeat_c c k) = c.
Proof. destruct k; [lia|]. reflexivity. Qed.

(* split on the run length: small numerals or "large" (every explicit pattern of the code is at most 8) *)
Ltac wcases w Hw :=
  destruct w as [|?p|?p]; [exfalso; lia | | exfalso; lia];
  do 4 (try match goal with q : positive |- _ => destruct q end);
  cbn [Z.ltb Z.compare Pos.compare Pos.compare_cont Z.eqb Pos.eqb]; cbv iota beta.

Lemma nth_name_of tbl i : 0 <= i < Z.of_nat (length tbl) -> nth_name tbl i = Ok (name_of tbl i).
Proof.
  intros H. unfold nth_name, name_of. destruct (nth_error tbl (Z.to_nat i)) eqn:E.
  - destruct (Z.leb_spec 0 i); [|lia]. f_equal. symmetry. apply nth_error_nth. exact E.
  - apply nth_error_None in E. lia.
Qed.

(* ---------- date symbols ---------- *)
Definition date_fields_agree (F : vfields) (d : Z) : Prop :=
  let '(y, m, dd) := days_to_date d in
  vf_bc F = (d <? 0) /\ vf_year F = y /\ vf_month F = m /\ vf_day F = dd /\ vf_doy F = 1 + d - rd (y, 1, 1) /\
  vf_wd F = (d + 1) mod 7 /\ vf_week F = iso_week_exec d.

Lemma month_names m : 1 <= m <= 12 ->
  nth_name MONTH_ABBREVIATED (m - 1) = Ok (name_of T_MONTH_ABBR (m - 1)) /\
  nth_name MONTH_WIDE (m - 1) = Ok (name_of T_MONTH_WIDE (m - 1)) /\
  nth_name MONTH_NARROW (m - 1) = Ok (first_n 1 (name_of T_MONTH_WIDE (m - 1))).
Proof. intros H. month_split m H; repeat split; reflexivity. Qed.
Lemma wday_names x : 0 <= x <= 6 ->
  nth_name WDAY_ABBREVIATED x = Ok (name_of T_WDAY_ABBR x) /\ nth_name WDAY_WIDE x = Ok (name_of T_WDAY_WIDE x) /\
  nth_name WDAY_NARROW x = Ok (first_n 1 (name_of T_WDAY_WIDE x)) /\ nth_name WDAY_SHORT x = Ok (first_n 2 (name_of T_WDAY_WIDE x)).
Proof.
  intros H. assert (C : x = 0 \/ x = 1 \/ x = 2 \/ x = 3 \/ x = 4 \/ x = 5 \/ x = 6) by lia.
  destruct C as [-> | [-> | [-> | [-> | [-> | [-> | ->]]]]]]; repeat split; reflexivity.
Qed.

Lemma fdp_run c w d : 1 <= w ->
  format_date_part (repeat_c c (Z.to_nat w)) d =
  (let chars := repeat_c c (Z.to_nat w) in let len := w in
   if c =? 71 then
    Ok (match len with
        | 1 | 2 | 3 => if d <? 0 then str [66;67] else str [65;68]
        | 5 => if d <? 0 then str [66] else str [65]
        | _ => if d <? 0 then str [66;101;102;111;114;101;32;67;104;114;105;115;116] else str [65;110;110;111;32;68;111;109;105;110;105]
        end)
  else if c =? 121 then
    let '(year, _, _) := days_to_date d in
    match len with
    | 2 => Ok ((if year <? 0 then [45] else []) ++ zero_padded (Z.abs year mod 100) 2)
    | _ => Ok (zero_padded_i year len)
    end
  else if c =? 113 then
    let '(_, month, _) := days_to_date d in
    let quarter := (month - 1) / 3 + 1 in
    Ok (match len with
        | 1 | 2 => zero_padded quarter len
        | 3 => 81 :: u_to_string quarter
        | 4 => add_ordinal_indicator quarter ++ str [32;113;117;97;114;116;101;114]
        | _ => zero_padded quarter 1
        end)
  else if c =? 77 then format_month len d
  else if c =? 119 then Ok (zero_padded (days_to_wyear d) (get_length len 2 2))
  else if c =? 100 then (let '(_, _, dd) := days_to_date d in Ok (zero_padded dd (get_length len 2 2)))
  else if c =? 68 then (let? doy := days_to_doy d in Ok (zero_padded doy (get_length len 1 3)))
  else if c =? 101 then format_wday len d
  else Ok chars).
Proof.
  intros Hw. unfold format_date_part. cbv zeta. rewrite first_char_repeat by lia. rewrite repeat_c_length, Z2Nat.id by lia. reflexivity.
Qed.

Lemma render_G F d w : date_fields_agree F d -> 1 <= w -> format_date_part (repeat_c 71 (Z.to_nat w)) d = Ok (render_field F 71 w).
Proof.
  intros A Hw. rewrite fdp_run by exact Hw. cbv zeta. cbn [Z.eqb Pos.eqb]. unfold render_field. cbv zeta.
  unfold date_fields_agree in A. destruct (days_to_date d) as [[y m] dd]. destruct A as (-> & _).
  wcases w Hw; reflexivity.
Qed.

Ltac agree_destruct A d :=
  unfold date_fields_agree in A; let y := fresh "y" in let m := fresh "m" in let dd := fresh "dd" in
  destruct (days_to_date_rd d) as [Vv _]; pose proof (doy_spec d) as Hdoy; pose proof (week_spec d) as [Hwk _];
  destruct (days_to_date d) as [[y m] dd]; destruct A as (Abc & Ay & Am & Ad & Adoy & Awd & Awk); destruct Vv as (Vy & Vm & Vd).

Lemma render_y F d w : date_fields_agree F d -> 1 <= w -> format_date_part (repeat_c 121 (Z.to_nat w)) d = Ok (render_field F 121 w).
Proof.
  intros A Hw. rewrite fdp_run by exact Hw. cbv zeta. cbn [Z.eqb Pos.eqb]. unfold render_field. cbv zeta. agree_destruct A d. rewrite Ay.
  wcases w Hw; rewrite ?pad_signed_zero_padded_i, ?pad_zero_padded; reflexivity.
Qed.
Lemma render_q F d w : date_fields_agree F d -> 1 <= w -> format_date_part (repeat_c 113 (Z.to_nat w)) d = Ok (render_field F 113 w).
Proof.
  intros A Hw. rewrite fdp_run by exact Hw. cbv zeta. cbn [Z.eqb Pos.eqb]. unfold render_field. cbv zeta. agree_destruct A d. rewrite Am. clear Am.
  wcases w Hw; month_split m Vm; rewrite ?pad_zero_padded, ?dec_u_to_string; reflexivity.
Qed.
Lemma render_M F d w : date_fields_agree F d -> 1 <= w -> format_date_part (repeat_c 77 (Z.to_nat w)) d = Ok (render_field F 77 w).
Proof.
  intros A Hw. rewrite fdp_run by exact Hw. cbv zeta. cbn [Z.eqb Pos.eqb]. unfold render_field, format_month. cbv zeta.
  unfold date_fields_agree in A. destruct (days_to_date_rd d) as [Vv _]. destruct (days_to_date d) as [[y m] dd]. destruct A as (_ & _ & Am & _). destruct Vv as (_ & Vm & _).
  rewrite Am. destruct (month_names m Vm) as (N1 & N2 & N3).
  wcases w Hw; rewrite ?pad_zero_padded, ?N1, ?N2, ?N3; reflexivity.
Qed.
Lemma get_length_over len dflt mx : get_length len dflt mx = (if mx <? len then dflt else len).
Proof. reflexivity. Qed.
Lemma render_w F d w : date_fields_agree F d -> 1 <= w -> format_date_part (repeat_c 119 (Z.to_nat w)) d = Ok (render_field F 119 w).
Proof.
  intros A Hw. rewrite fdp_run by exact Hw. cbv zeta. cbn [Z.eqb Pos.eqb]. unfold render_field. cbv zeta. agree_destruct A d.
  rewrite Awk, Hwk, pad_zero_padded. reflexivity.
Qed.
Lemma render_d F d w : date_fields_agree F d -> 1 <= w -> format_date_part (repeat_c 100 (Z.to_nat w)) d = Ok (render_field F 100 w).
Proof.
  intros A Hw. rewrite fdp_run by exact Hw. cbv zeta. cbn [Z.eqb Pos.eqb]. unfold render_field. cbv zeta. agree_destruct A d.
  rewrite Ad, pad_zero_padded. reflexivity.
Qed.
Lemma render_D F d w : date_fields_agree F d -> 1 <= w -> format_date_part (repeat_c 68 (Z.to_nat w)) d = Ok (render_field F 68 w).
Proof.
  intros A Hw. rewrite fdp_run by exact Hw. cbv zeta. cbn [Z.eqb Pos.eqb]. unfold render_field. cbv zeta. agree_destruct A d.
  rewrite Hdoy, Adoy, pad_zero_padded. reflexivity.
Qed.
Lemma render_e F d w : date_fields_agree F d -> 1 <= w -> format_date_part (repeat_c 101 (Z.to_nat w)) d = Ok (render_field F 101 w).
Proof.
  intros A Hw. rewrite fdp_run by exact Hw. cbv zeta. cbn [Z.eqb Pos.eqb]. unfold render_field, format_wday. cbv zeta. agree_destruct A d.
  assert (W0 : days_to_wday d false = vf_wd F) by (rewrite Awd; unfold days_to_wday; lia).
  assert (W1 : days_to_wday d true + 1 = (vf_wd F + 6) mod 7 + 1) by (rewrite Awd; unfold days_to_wday; lia).
  assert (Wr : 0 <= vf_wd F <= 6) by (rewrite Awd; lia). destruct (wday_names (vf_wd F) Wr) as (N1 & N2 & N3 & N4).
  rewrite W0, W1. wcases w Hw; rewrite ?pad_zero_padded, ?N1, ?N2, ?N3, ?N4; reflexivity.
Qed.

Theorem date_field_render F d c w : date_fields_agree F d -> 1 <= w -> is_date_sym c = true ->
  format_date_part (repeat_c c (Z.to_nat w)) d = Ok (render_field F c w).
Proof.
  intros A Hw Hc. unfold is_date_sym in Hc. cbn [existsb] in Hc. rewrite !orb_true_iff, !Z.eqb_eq in Hc.
  destruct Hc as [-> | [-> | [-> | [-> | [-> | [-> | [-> | [-> | Hc]]]]]]]]; [.. | discriminate Hc].
  - apply render_G; assumption.
  - apply render_y; assumption.
  - apply render_q; assumption.
  - apply render_M; assumption.
  - apply render_w; assumption.
  - apply render_d; assumption.
  - apply render_D; assumption.
  - apply render_e; assumption.
Qed.

(* ---------- time symbols ---------- *)
Definition time_fields_agree (F : vfields) (n off : Z) : Prop :=
  0 <= n < NANOS_PER_DAY /\ vf_hour F = n / NANOS_PER_HOUR /\ vf_minute F = n / NANOS_PER_MINUTE mod 60 /\
  vf_second F = n / NANOS_PER_SEC mod 60 /\ vf_subsec F = n mod NANOS_PER_SEC /\ vf_offset F = off.

Lemma ftp_run c w n off : 1 <= w ->
  format_time_part (repeat_c c (Z.to_nat w)) n off =
  (let chars := repeat_c c (Z.to_nat w) in let len := w in
   let '(hour24, minute, second) := nanos_to_time n in
   if c =? 97 then format_period n (get_length len 3 5) false
   else if c =? 98 then format_period n (get_length len 3 5) true
   else if c =? 104 then Ok (zero_padded (if hour24 mod 12 =? 0 then 12 else hour24 mod 12) (get_length len 2 2))
   else if c =? 72 then Ok (zero_padded hour24 (get_length len 2 2))
   else if c =? 75 then Ok (zero_padded (hour24 mod 12) (get_length len 2 2))
   else if c =? 107 then Ok (zero_padded (if hour24 =? 0 then 24 else hour24) (get_length len 2 2))
   else if c =? 109 then Ok (zero_padded minute (get_length len 2 2))
   else if c =? 115 then Ok (zero_padded second (get_length len 2 2))
   else if c =? 110 then
     let length0 := get_length len 3 5 in
     let length1 := if length0 =? 4 then 6 else if length0 =? 5 then 9 else length0 in
     let subsec := wrap_u32 (n mod NANOS_PER_SEC) in
     Ok (zero_padded (subsec / 10 ^ (9 - length1)) length1)
   else if c =? 88 then Ok (format_zone len off true)
   else if c =? 120 then Ok (format_zone len off false)
   else Ok chars).
Proof.
  intros Hw. unfold format_time_part. cbv zeta. rewrite first_char_repeat by lia. rewrite repeat_c_length, Z2Nat.id by lia. reflexivity.
Qed.

Lemma format_period_plain n st : 0 <= n < NANOS_PER_DAY -> 1 <= st <= 5 ->
  format_period n st false = Ok (period_text st (12 <=? n / NANOS_PER_HOUR)).
Proof.
  intros Hn Hst. unfold format_period. cbv zeta.
  assert (T : wrap_u32 (n / NANOS_PER_SEC) mod SECS_PER_DAY = n / NANOS_PER_SEC) by (unfold wrap_u32; revert Hn; unfold_consts; intros; lia).
  rewrite T. assert (P : (n / NANOS_PER_SEC <? 43200) = negb (12 <=? n / NANOS_PER_HOUR)).
  { revert Hn. unfold_consts. intros Hn. destruct (Z.ltb_spec (n / 1000000000) 43200); destruct (Z.leb_spec 12 (n / 3600000000000)); try reflexivity; lia. }
  assert (C : st = 1 \/ st = 2 \/ st = 3 \/ st = 4 \/ st = 5) by lia.
  destruct C as [-> | [-> | [-> | [-> | ->]]]]; cbn [Z.sub Z.add Z.opp Z.pos_sub Z.to_nat Pos.to_nat Pos.iter_op Nat.add Pos.pred_double PERIOD_FORMATS nth_error Z.leb Z.compare andb];
  rewrite P; destruct (12 <=? n / NANOS_PER_HOUR); reflexivity.
Qed.

Lemma format_period_b n st : 0 <= n < NANOS_PER_DAY -> 1 <= st <= 5 ->
  format_period n st true =
  Ok (let h := n / NANOS_PER_HOUR in let m := n / NANOS_PER_MINUTE mod 60 in let s := n / NANOS_PER_SEC mod 60 in
      if (h =? 0) && (m =? 0) && (s =? 0) then (if st =? 5 then S_[109;105] else S_[109;105;100;110;105;103;104;116])
      else if (h =? 12) && (m =? 0) && (s =? 0) then (if st =? 5 then S_[110] else S_[110;111;111;110])
      else period_text st (12 <=? h)).
Proof.
  intros Hn Hst. unfold format_period. cbv zeta.
  assert (T : wrap_u32 (n / NANOS_PER_SEC) mod SECS_PER_DAY = n / NANOS_PER_SEC) by (unfold wrap_u32; revert Hn; unfold_consts; intros; lia).
  rewrite T.
  assert (P : (n / NANOS_PER_SEC <? 43200) = negb (12 <=? n / NANOS_PER_HOUR)).
  { revert Hn. unfold_consts. intros Hn. destruct (Z.ltb_spec (n / 1000000000) 43200); destruct (Z.leb_spec 12 (n / 3600000000000)); try reflexivity; lia. }
  assert (P0 : (n / NANOS_PER_SEC =? 0) = (n / NANOS_PER_HOUR =? 0) && (n / NANOS_PER_MINUTE mod 60 =? 0) && (n / NANOS_PER_SEC mod 60 =? 0)).
  { revert Hn. unfold_consts. intros Hn. apply eq_true_iff_eq. rewrite !andb_true_iff, !Z.eqb_eq. lia. }
  assert (P12 : (n / NANOS_PER_SEC =? 43200) = (n / NANOS_PER_HOUR =? 12) && (n / NANOS_PER_MINUTE mod 60 =? 0) && (n / NANOS_PER_SEC mod 60 =? 0)).
  { revert Hn. unfold_consts. intros Hn. apply eq_true_iff_eq. rewrite !andb_true_iff, !Z.eqb_eq. lia. }
  rewrite P, P0, P12.
  assert (C : st = 1 \/ st = 2 \/ st = 3 \/ st = 4 \/ st = 5) by lia.
  destruct C as [-> | [-> | [-> | [-> | ->]]]]; cbn [Z.sub Z.add Z.opp Z.pos_sub Z.to_nat Pos.to_nat Pos.iter_op Nat.add Pos.pred_double PERIOD_FORMATS nth_error Z.leb Z.compare Z.eqb Pos.eqb andb];
  destruct ((n / NANOS_PER_HOUR =? 0) && (n / NANOS_PER_MINUTE mod 60 =? 0) && (n / NANOS_PER_SEC mod 60 =? 0)); try reflexivity;
  destruct ((n / NANOS_PER_HOUR =? 12) && (n / NANOS_PER_MINUTE mod 60 =? 0) && (n / NANOS_PER_SEC mod 60 =? 0)); try reflexivity;
  destruct (12 <=? n / NANOS_PER_HOUR); reflexivity.
Qed.

Lemma format_zone_text len off z : 1 <= len -> format_zone len off z = zone_text (if 5 <? len then 3 else len) off z.
Proof.
  intros Hw. unfold format_zone, zone_text. destruct (z && (off =? 0)); [reflexivity|]. cbv zeta.
  rewrite !pad_zero_padded.
  assert (E1 : Z.abs off mod 3600 / 60 = Z.abs off / 60 mod 60) by lia.
  assert (E2 : Z.abs off mod 3600 mod 60 = Z.abs off mod 60) by lia. rewrite E1, E2.
  wcases len Hw; try reflexivity; try (destruct (_ =? 0); reflexivity).
Qed.

Lemma over35 w : 1 <= w -> 1 <= (if 5 <? w then 3 else w) <= 5.
Proof. intros. destruct (Z.ltb_spec 5 w); lia. Qed.

Theorem time_field_render F n off c w : time_fields_agree F n off -> 1 <= w -> is_time_sym c = true ->
  format_time_part (repeat_c c (Z.to_nat w)) n off = Ok (render_field F c w).
Proof.
  intros (Hn & Ah & Am & As & Ass & Ao) Hw Hc. rewrite ftp_run by exact Hw. cbv zeta. rewrite (nanos_to_time_spec n Hn).
  unfold is_time_sym in Hc. cbn [existsb] in Hc. rewrite !orb_true_iff, !Z.eqb_eq in Hc.
  assert (Ew : wrap_u32 (n mod NANOS_PER_SEC) = n mod NANOS_PER_SEC) by (unfold wrap_u32, NANOS_PER_SEC; lia).
  destruct Hc as [-> | [-> | [-> | [-> | [-> | [-> | [-> | [-> | [-> | [-> | [-> | Hc]]]]]]]]]]]; [.. | discriminate Hc];
  cbn [Z.eqb Pos.eqb]; unfold render_field; cbv zeta; rewrite ?Ah, ?Am, ?As, ?Ass, ?Ao, ?pad_zero_padded, ?get_length_over.
  - rewrite format_period_plain; [reflexivity | exact Hn | apply over35; exact Hw].
  - rewrite format_period_b; [reflexivity | exact Hn | apply over35; exact Hw].
  - reflexivity.
  - reflexivity.
  - reflexivity.
  - reflexivity.
  - reflexivity.
  - reflexivity.
  - rewrite Ew. wcases w Hw; rewrite ?pad_zero_padded; try (change (10 ^ (9 - 9)) with 1; rewrite Z.div_1_r); reflexivity.
  - rewrite format_zone_text by exact Hw. reflexivity.
  - rewrite format_zone_text by exact Hw. reflexivity.
Qed.
