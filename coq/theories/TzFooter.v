(* TzFooter.v — C18, the footer: the POSIX TZ string parser reads back the rule that a printer of the
   RFC 8536 footer syntax wrote ("STD" offset ["DST" offset "," date "/" time "," date "/" time]). *)
From Astro Require Import Base Text DateModel TimeModel ApiModel FormatModel TzModel TzProofs TzCodec PadProofs RfcProofs FieldProofs.

(* ---------- printing ---------- *)
Definition dec_str (n : Z) : bytes := u_to_string n.
Definition hms_str (t : Z) : bytes :=
  let a := Z.abs t in
  (if t <? 0 then [45] else []) ++ dec_str (a / 3600) ++ [58] ++ zero_padded (a mod 3600 / 60) 2 ++ [58] ++ zero_padded (a mod 60) 2.
Definition day_str (d : rule_day) : bytes :=
  match d with
  | JulianNoLeap n => 74 :: dec_str n
  | JulianLeap n => dec_str n
  | MonthWeekDay m w wd => 77 :: dec_str m ++ [46] ++ dec_str w ++ [46] ++ dec_str wd
  end.
Definition rule_str (d : rule_day) (time : Z) : bytes := day_str d ++ [47] ++ hms_str time.
Definition STD : bytes := [83; 84; 68].
Definition DST : bytes := [68; 83; 84].
Definition tz_str (r : trule) : bytes :=
  match r with
  | RFixed u => STD ++ hms_str (- u)
  | RAlt a => STD ++ hms_str (- a_std a) ++ DST ++ hms_str (- a_dst a) ++ [44] ++ rule_str (a_std_end a) (a_std_end_time a)
              ++ [44] ++ rule_str (a_dst_end a) (a_dst_end_time a)
  end.
Definition footer_of (r : trule) : bytes := [10] ++ tz_str r ++ [10].

(* ---------- scanning runs ---------- *)
Definition nd (rest : bytes) : Prop := match rest with [] => True | c :: _ => is_ascii_digit c = false end.
Lemma tw_digits ds : forall rest, all_digits ds = true -> nd rest -> take_while is_ascii_digit (ds ++ rest) = (ds, rest).
Proof.
  induction ds as [|c ds IH]; intros rest Ad Hr.
  - cbn [app]. destruct rest as [|r rt]; [reflexivity|]. cbn [take_while]. cbn [nd] in Hr. rewrite Hr. reflexivity.
  - cbn [all_digits forallb] in Ad. apply andb_true_iff in Ad as [Hc Ad]. cbn [app take_while]. rewrite Hc, (IH rest Ad Hr). reflexivity.
Qed.
Lemma tw_until46 ds rest : all_digits ds = true -> take_while (fun b => negb (b =? 46)) (ds ++ 46 :: rest) = (ds, 46 :: rest).
Proof.
  induction ds as [|c ds IH]; intros Ad.
  - reflexivity.
  - cbn [all_digits forallb] in Ad. apply andb_true_iff in Ad as [Hc Ad]. cbn [app take_while].
    unfold is_ascii_digit in Hc. apply andb_true_iff in Hc as [H1 H2]. apply Z.leb_le in H1, H2. destruct (Z.eqb_spec c 46); [lia|]. cbn [negb].
    rewrite (IH Ad). reflexivity.
Qed.
Lemma dec_str_spec n : 0 <= n < 10 ^ 40 -> all_digits (dec_str n) = true /\ digits_val (dec_str n) = n /\ dec_str n <> [].
Proof. apply u_to_string_spec. Qed.
Lemma parse_int_dec mx n : 0 <= n <= mx -> n < 10 ^ 40 -> parse_int mx (dec_str n) = TzOk n.
Proof.
  intros H1 H2. destruct (dec_str_spec n ltac:(lia)) as (A & V & N). unfold parse_int.
  rewrite (parse_unsigned_of_digits mx (dec_str n) A N ltac:(lia)), V. reflexivity.
Qed.
Lemma parse_int_zp2 mx x : 0 <= x < 100 -> x <= mx -> parse_int mx (zero_padded x 2) = TzOk x.
Proof.
  intros H1 H2. assert (P : 100 < 10 ^ 40) by (apply Z.ltb_lt; vm_compute; reflexivity).
  destruct (zero_padded_spec x 2 ltac:(lia)) as (A & V & N). unfold parse_int.
  rewrite (parse_unsigned_of_digits mx _ A N ltac:(lia)), V. reflexivity.
Qed.
Lemma small_lt_pow n : n < 1000000000000 -> n < 10 ^ 40.
Proof. intros H. assert (P : 1000000000000 < 10 ^ 40) by (apply Z.ltb_lt; vm_compute; reflexivity). lia. Qed.

(* ---------- offsets: [-]h:mm:ss ---------- *)
Lemma parse_hms_str t rest : Z.abs t < 1000000000 -> nd rest ->
  parse_hms (hms_str t ++ rest) = TzOk (if t <? 0 then -1 else 1, Z.abs t / 3600, Z.abs t mod 3600 / 60, Z.abs t mod 60, rest).
Proof.
  intros Ht Hr. unfold hms_str. cbv zeta. set (a := Z.abs t) in *. assert (Ha : 0 <= a) by (subst a; lia).
  set (h := a / 3600). set (m := a mod 3600 / 60). set (s := a mod 60).
  assert (Hh : 0 <= h < 1000000) by (subst h; split; [apply Z.div_pos; lia | apply Z.div_lt_upper_bound; lia]).
  assert (Hm : 0 <= m < 60) by (subst m; pose proof (Z.mod_pos_bound a 3600 ltac:(lia)); split; [apply Z.div_pos; lia | apply Z.div_lt_upper_bound; lia]).
  assert (Hs : 0 <= s < 60) by (subst s; apply Z.mod_pos_bound; lia).
  destruct (dec_str_spec h ltac:(split; [lia | apply small_lt_pow; lia])) as (Ah & Vh & Nh).
  assert (P100 : 100 < 10 ^ 40) by (apply Z.ltb_lt; vm_compute; reflexivity).
  destruct (zero_padded_spec m 2 ltac:(lia)) as (Am & _ & _). destruct (zero_padded_spec s 2 ltac:(lia)) as (As & _ & _).
  clearbody h m s. unfold parse_hms.
  assert (Body : forall dir : Z, (let '(hd, cur) := read_while is_ascii_digit (dec_str h ++ 58 :: zero_padded m 2 ++ 58 :: zero_padded s 2 ++ rest) in
     let! hour := parse_int I32_MAX hd in
     if head_is 58 cur then
       let '(md, cur2) := read_while is_ascii_digit (tl cur) in
       let! minute := parse_int I32_MAX md in
       if head_is 58 cur2 then
         let '(sd, cur4) := read_while is_ascii_digit (tl cur2) in
         let! second := parse_int I32_MAX sd in TzOk (dir, hour, minute, second, cur4)
       else TzOk (dir, hour, minute, 0, cur2)
     else TzOk (dir, hour, 0, 0, cur)) = TzOk (dir, h, m, s, rest)).
  { intros dir. unfold read_while. rewrite (tw_digits (dec_str h)) by (try exact Ah; reflexivity).
    rewrite parse_int_dec by (unfold I32_MAX; try lia; apply small_lt_pow; lia). cbn [tzbind head_is Z.eqb Pos.eqb tl].
    rewrite (tw_digits (zero_padded m 2)) by (try exact Am; reflexivity).
    rewrite parse_int_zp2 by (unfold I32_MAX; lia). cbn [tzbind head_is Z.eqb Pos.eqb tl].
    rewrite (tw_digits (zero_padded s 2) rest As Hr). rewrite parse_int_zp2 by (unfold I32_MAX; lia). reflexivity. }
  rewrite <- !app_assoc. cbn [app].
  destruct (Z.ltb_spec t 0).
  - cbn [app get_next tzbind Z.eqb Pos.eqb tl]. cbv beta iota. apply Body.
  - cbn [app]. destruct (dec_str h) as [|c0 ct] eqn:Ed; [congruence|]. cbn [app get_next tzbind].
    assert (Hc : 48 <= c0 <= 57).
    { cbn [all_digits forallb] in Ah. apply andb_true_iff in Ah as [Hc _]. unfold is_ascii_digit in Hc. apply andb_true_iff in Hc as [A B]. apply Z.leb_le in A, B. lia. }
    destruct (Z.eqb_spec c0 45); [lia|]. destruct (Z.eqb_spec c0 43); [lia|]. cbv beta iota.
    change (c0 :: ct ++ 58 :: zero_padded m 2 ++ 58 :: zero_padded s 2 ++ rest) with ((c0 :: ct) ++ 58 :: zero_padded m 2 ++ 58 :: zero_padded s 2 ++ rest).
    apply Body.
Qed.

Lemma parse_tz_offset_str mx t rest : 0 <= mx <= 167 -> Z.abs t / 3600 <= mx -> nd rest ->
  parse_tz_offset mx (hms_str t ++ rest) = TzOk (t, rest).
Proof.
  intros Hm Ht Hr. assert (Ha : Z.abs t < 1000000000).
  { pose proof (Z.div_mod (Z.abs t) 3600 ltac:(lia)). pose proof (Z.mod_pos_bound (Z.abs t) 3600 ltac:(lia)). lia. }
  unfold parse_tz_offset. rewrite (parse_hms_str t rest Ha Hr). cbn [tzbind].
  set (a := Z.abs t) in *. assert (H0 : 0 <= a) by (subst a; lia).
  assert (Hh : 0 <= a / 3600) by (apply Z.div_pos; lia).
  assert (Hmi : 0 <= a mod 3600 / 60 <= 59).
  { pose proof (Z.mod_pos_bound a 3600 ltac:(lia)). split; [apply Z.div_pos; lia|]. assert (a mod 3600 / 60 < 60) by (apply Z.div_lt_upper_bound; lia). lia. }
  assert (Hs : 0 <= a mod 60 <= 59) by (pose proof (Z.mod_pos_bound a 60 ltac:(lia)); lia).
  assert (E : a / 3600 * 3600 + a mod 3600 / 60 * 60 + a mod 60 = a).
  { lia. }
  destruct (Z.leb_spec 0 (a / 3600)); [|lia]. destruct (Z.leb_spec (a / 3600) mx); [|lia].
  destruct (Z.leb_spec 0 (a mod 3600 / 60)); [|lia]. destruct (Z.leb_spec (a mod 3600 / 60) 59); [|lia].
  destruct (Z.leb_spec 0 (a mod 60)); [|lia]. destruct (Z.leb_spec (a mod 60) 59); [|lia].
  cbn [andb negb]. rewrite E. f_equal. f_equal. subst a. destruct (Z.ltb_spec t 0); lia.
Qed.

(* ---------- rules: Jn | n | Mm.w.d, then /time ---------- *)
Definition day_ok (d : rule_day) : Prop :=
  match d with
  | JulianNoLeap n => 1 <= n <= 365
  | JulianLeap n => 0 <= n <= 365
  | MonthWeekDay m w wd => 1 <= m <= 12 /\ 1 <= w <= 5 /\ 0 <= wd <= 6
  end.
Lemma nd_cons c rest : is_ascii_digit c = false -> nd (c :: rest).
Proof. intros H. exact H. Qed.
Lemma dec_head n : 0 <= n < 1000000000000 -> exists c ct, dec_str n = c :: ct /\ is_ascii_digit c = true.
Proof.
  intros H. destruct (dec_str_spec n ltac:(split; [lia | apply small_lt_pow; lia])) as (A & _ & N).
  destruct (dec_str n) as [|c ct]; [congruence|]. exists c, ct. split; [reflexivity|].
  cbn [all_digits forallb] in A. apply andb_true_iff in A as [A _]. exact A.
Qed.
Lemma read_exact_1 c rest : read_exact 1 (c :: rest) = TzOk ([c], rest).
Proof. unfold read_exact. cbn [length]. destruct (Z.ltb_spec (Z.of_nat (S (length rest))) 1); [lia|]. reflexivity. Qed.

Lemma parse_rule_str d time rest (ext : bool) : day_ok d -> Z.abs time / 3600 <= (if ext then 167 else 24) -> nd rest ->
  parse_rule (rule_str d time ++ rest) ext = TzOk (d, time, rest).
Proof.
  intros Hd Ht Hr. unfold rule_str. rewrite <- !app_assoc. cbn [app].
  assert (Hmx : 0 <= (if ext then 167 else 24) <= 167) by (destruct ext; lia).
  assert (Tail : forall day : rule_day,
     (if head_is 47 (47 :: hms_str time ++ rest)
      then let! '(t, cur2) := parse_tz_offset (if ext then 167 else 24) (tl (47 :: hms_str time ++ rest)) in TzOk (day, t, cur2)
      else TzOk (day, 7200, 47 :: hms_str time ++ rest)) = TzOk (day, time, rest)).
  { intros day. cbn [head_is Z.eqb Pos.eqb tl]. rewrite (parse_tz_offset_str _ time rest Hmx Ht Hr). reflexivity. }
  assert (N47 : nd (47 :: hms_str time ++ rest)) by reflexivity.
  assert (U32 : forall n, 0 <= n <= 365 -> parse_int U32_MAX (dec_str n) = TzOk n).
  { intros n Hn. apply parse_int_dec; [unfold U32_MAX; lia | apply small_lt_pow; lia]. }
  assert (U8 : forall n, 0 <= n <= 12 -> parse_int 255 (dec_str n) = TzOk n).
  { intros n Hn. apply parse_int_dec; [lia | apply small_lt_pow; lia]. }
  assert (AD : forall n, 0 <= n <= 365 -> all_digits (dec_str n) = true).
  { intros n Hn. apply (dec_str_spec n). split; [lia | apply small_lt_pow; lia]. }
  unfold parse_rule. destruct d as [n | n | m w wd]; cbn [day_ok] in Hd; cbn [day_str].
  - cbn [app get_next tzbind Z.eqb Pos.eqb tl]. unfold read_while. rewrite (tw_digits (dec_str n) _ (AD n ltac:(lia)) N47).
    rewrite (U32 n) by lia. cbn [tzbind].
    destruct (Z.leb_spec 1 n); [|lia]. destruct (Z.leb_spec n 365); [|lia]. cbn [andb negb tzbind]. apply Tail.
  - destruct (dec_head n ltac:(lia)) as (c & ct & Ec & Dc).
    assert (Hc : c <> 74). { unfold is_ascii_digit in Dc. apply andb_true_iff in Dc as [A B]. apply Z.leb_le in A, B. lia. }
    pose proof (AD n ltac:(lia)) as An. pose proof (U32 n ltac:(lia)) as Un. rewrite Ec in *.
    cbn [app get_next tzbind]. destruct (Z.eqb_spec c 74); [contradiction|]. rewrite Dc.
    unfold read_while. change (c :: ct ++ 47 :: hms_str time ++ rest) with ((c :: ct) ++ 47 :: hms_str time ++ rest).
    rewrite (tw_digits (c :: ct) _ An N47). rewrite Un. cbn [tzbind].
    destruct (Z.ltb_spec 365 n); [lia|]. cbn [tzbind]. apply Tail.
  - destruct Hd as (Hm & Hw & Hwd). repeat (first [rewrite <- app_assoc | progress cbn [app]]). cbn [app get_next tzbind Z.eqb Pos.eqb tl is_ascii_digit Z.leb Z.compare Pos.compare Pos.compare_cont andb].
    unfold read_until, read_while. rewrite (tw_until46 (dec_str m)) by (apply AD; lia). rewrite (U8 m) by lia. cbn [tzbind].
    rewrite read_exact_1. cbn [tzbind]. rewrite (tw_until46 (dec_str w)) by (apply AD; lia). rewrite (U8 w) by lia. cbn [tzbind].
    rewrite read_exact_1. cbn [tzbind]. rewrite (tw_digits (dec_str wd) _ (AD wd ltac:(lia)) N47). rewrite (U8 wd) by lia. cbn [tzbind].
    destruct (Z.leb_spec 1 m); [|lia]. destruct (Z.leb_spec m 12); [|lia]. destruct (Z.leb_spec 1 w); [|lia]. destruct (Z.leb_spec w 5); [|lia].
    destruct (Z.ltb_spec 6 wd); [lia|]. cbn [andb negb orb tzbind]. apply Tail.
Qed.

(* ---------- designations ---------- *)
Definition na (rest : bytes) : Prop := match rest with [] => True | c :: _ => is_ascii_alphabetic c = false end.
Lemma remove_designation_abbr rest : na rest -> remove_designation (STD ++ rest) = TzOk rest /\ remove_designation (DST ++ rest) = TzOk rest.
Proof.
  intros Hr. assert (T : take_while is_ascii_alphabetic rest = ([], rest)).
  { destruct rest as [|c r]; [reflexivity|]. cbn [take_while]. cbn [na] in Hr. rewrite Hr. reflexivity. }
  unfold remove_designation, read_while, STD, DST. cbn [app get_next tzbind Z.eqb Pos.eqb].
  split; cbn [take_while is_ascii_alphabetic Z.leb Z.compare Pos.compare Pos.compare_cont andb orb]; rewrite T; reflexivity.
Qed.
Lemma hms_head t rest : Z.abs t < 1000000000 -> exists c r, hms_str t ++ rest = c :: r /\ (c = 45 \/ is_ascii_digit c = true).
Proof.
  intros Ht. unfold hms_str. cbv zeta. destruct (Z.ltb_spec t 0).
  - eexists _, _. split; [reflexivity | left; reflexivity].
  - destruct (dec_head (Z.abs t / 3600)) as (c & ct & E & D).
    { split; [apply Z.div_pos; lia | apply Z.div_lt_upper_bound; lia]. }
    rewrite E. eexists _, _. split; [reflexivity | right; exact D].
Qed.
Lemma hms_na t rest : Z.abs t < 1000000000 -> na (hms_str t ++ rest).
Proof.
  intros Ht. destruct (hms_head t rest Ht) as (c & r & E & [-> | D]); rewrite E; cbn [na]; [reflexivity|].
  unfold is_ascii_digit in D. apply andb_true_iff in D as [A B]. apply Z.leb_le in A, B. unfold is_ascii_alphabetic.
  destruct (Z.leb_spec 65 c); [lia|]. destruct (Z.leb_spec 97 c); [lia|]. reflexivity.
Qed.

(* ---------- the character set of a printed footer ---------- *)
Definition pr (b : Z) : bool := (33 <=? b) && (b <? 128).
Definition printable (bs : bytes) : Prop := forallb pr bs = true.
Lemma printable_app a b : printable a -> printable b -> printable (a ++ b).
Proof. unfold printable. intros A B. rewrite forallb_app, A, B. reflexivity. Qed.
Lemma printable_cons c b : pr c = true -> printable b -> printable (c :: b).
Proof. unfold printable. intros A B. cbn [forallb]. rewrite A, B. reflexivity. Qed.
Lemma printable_digits ds : all_digits ds = true -> printable ds.
Proof.
  unfold printable, all_digits. intros A. rewrite forallb_forall in *. intros x Hx. specialize (A x Hx).
  unfold is_ascii_digit in A. apply andb_true_iff in A as [P Q]. apply Z.leb_le in P, Q. unfold pr.
  destruct (Z.leb_spec 33 x); [|lia]. destruct (Z.ltb_spec x 128); [|lia]. reflexivity.
Qed.
Lemma printable_dec n : 0 <= n < 1000000000000 -> printable (dec_str n).
Proof. intros H. apply printable_digits, (dec_str_spec n). split; [lia | apply small_lt_pow; lia]. Qed.
Lemma printable_zp2 x : 0 <= x < 100 -> printable (zero_padded x 2).
Proof.
  intros H. assert (P100 : 100 < 10 ^ 40) by (apply Z.ltb_lt; vm_compute; reflexivity).
  apply printable_digits, (zero_padded_spec x 2). lia.
Qed.
Lemma printable_hms t : Z.abs t < 1000000000 -> printable (hms_str t).
Proof.
  intros Ht. unfold hms_str. cbv zeta. set (a := Z.abs t) in *. assert (0 <= a) by (subst a; lia).
  apply printable_app; [destruct (t <? 0); reflexivity|].
  apply printable_app; [apply printable_dec; split; [apply Z.div_pos; lia | apply Z.div_lt_upper_bound; lia]|].
  apply printable_app; [reflexivity|]. apply printable_app.
  { apply printable_zp2. pose proof (Z.mod_pos_bound a 3600 ltac:(lia)). split; [apply Z.div_pos; lia | apply Z.div_lt_upper_bound; lia]. }
  apply printable_app; [reflexivity|]. apply printable_zp2. pose proof (Z.mod_pos_bound a 60 ltac:(lia)). lia.
Qed.
Lemma printable_rule d t : day_ok d -> Z.abs t < 1000000000 -> printable (rule_str d t).
Proof.
  intros Hd Ht. unfold rule_str. apply printable_app; [| apply printable_app; [reflexivity | apply printable_hms; exact Ht]].
  destruct d as [n | n | m w wd]; cbn [day_ok] in Hd; cbn [day_str].
  - apply printable_cons; [reflexivity | apply printable_dec; lia].
  - apply printable_dec; lia.
  - destruct Hd as (A & B & C). apply printable_cons; [reflexivity|].
    repeat (apply printable_app; [first [apply printable_dec; lia | reflexivity]|]). apply printable_dec; lia.
Qed.

Lemma utf8_ascii bs : forall fuel, forallb (fun b => b <? 128) bs = true -> utf8_valid_aux bs fuel = true.
Proof.
  induction bs as [|b bs IH]; intros fuel H; destruct fuel as [|k]; try reflexivity.
  cbn [forallb] in H. apply andb_true_iff in H as [Hb H]. cbn [utf8_valid_aux]. rewrite Hb. apply IH, H.
Qed.
Lemma printable_lt128 bs : printable bs -> forallb (fun b => b <? 128) bs = true.
Proof.
  unfold printable. intros H. rewrite forallb_forall in *. intros x Hx. specialize (H x Hx). unfold pr in H.
  apply andb_true_iff in H as [_ H]. exact H.
Qed.
Lemma printable_no0 bs : printable bs -> contains 0 bs = false.
Proof.
  unfold printable, contains. induction bs as [|b bs IH]; intros H; [reflexivity|]. cbn [forallb] in H. apply andb_true_iff in H as [Hb H].
  cbn [existsb]. rewrite (IH H). unfold pr in Hb. apply andb_true_iff in Hb as [Hb _]. apply Z.leb_le in Hb.
  destruct (Z.eqb_spec 0 b); [lia|]. reflexivity.
Qed.
Lemma pr_not_ws b : pr b = true -> is_ascii_ws b = false.
Proof.
  unfold pr, is_ascii_ws. intros H. apply andb_true_iff in H as [H _]. apply Z.leb_le in H.
  destruct (Z.eqb_spec b 32); [lia|]. destruct (Z.eqb_spec b 9); [lia|]. destruct (Z.eqb_spec b 10); [lia|].
  destruct (Z.eqb_spec b 12); [lia|]. destruct (Z.eqb_spec b 13); [lia|]. reflexivity.
Qed.
Lemma drop_ws_printable bs : printable bs -> drop_while is_ascii_ws bs = bs.
Proof.
  unfold printable. destruct bs as [|b bs]; [reflexivity|]. cbn [forallb]. intros H. apply andb_true_iff in H as [Hb _].
  cbn [drop_while]. rewrite (pr_not_ws b Hb). reflexivity.
Qed.
Lemma printable_rev bs : printable bs -> printable (rev bs).
Proof. unfold printable. intros H. rewrite forallb_forall in *. intros x Hx. apply H, in_rev, Hx. Qed.
Lemma trim_footer tz : printable tz -> tz <> [] -> trim_ascii_ws ([10] ++ tz ++ [10]) = tz.
Proof.
  intros P N. unfold trim_ascii_ws. cbn [app drop_while is_ascii_ws Z.eqb Pos.eqb orb].
  assert (D1 : drop_while is_ascii_ws (tz ++ [10]) = tz ++ [10]).
  { destruct tz as [|b t]; [congruence|]. unfold printable in P. cbn [forallb] in P. apply andb_true_iff in P as [Hb _].
    cbn [app drop_while]. rewrite (pr_not_ws b Hb). reflexivity. }
  rewrite D1, rev_app_distr. cbn [rev app drop_while is_ascii_ws Z.eqb Pos.eqb orb].
  rewrite (drop_ws_printable (rev tz) (printable_rev tz P)). apply rev_involutive.
Qed.

(* ---------- the footer ---------- *)
Definition footer_ok (ext : bool) (r : trule) : Prop :=
  let mx := if ext then 167 else 24 in
  match r with
  | RFixed u => Z.abs u / 3600 <= 24
  | RAlt a => Z.abs (a_std a) / 3600 <= 24 /\ Z.abs (a_dst a) / 3600 <= 24 /\ day_ok (a_std_end a) /\ day_ok (a_dst_end a)
              /\ Z.abs (a_std_end_time a) / 3600 <= mx /\ Z.abs (a_dst_end_time a) / 3600 <= mx
  end.
Lemma small_of_hours t mx : 0 <= mx <= 167 -> Z.abs t / 3600 <= mx -> Z.abs t < 1000000000.
Proof. intros Hm Ht. pose proof (Z.div_mod (Z.abs t) 3600 ltac:(lia)). pose proof (Z.mod_pos_bound (Z.abs t) 3600 ltac:(lia)). lia. Qed.

Lemma tz_str_printable ext r : footer_ok ext r -> printable (tz_str r) /\ exists rest, tz_str r = 83 :: rest.
Proof.
  intros Hok. assert (Hmx : 0 <= (if ext then 167 else 24) <= 167) by (destruct ext; lia).
  destruct r as [u | a]; cbn [footer_ok] in Hok; cbv zeta in Hok; cbn [tz_str].
  - split; [| eexists; reflexivity]. apply printable_app; [reflexivity|]. apply printable_hms. rewrite Z.abs_opp. apply (small_of_hours u 24); lia.
  - destruct Hok as (H1 & H2 & H3 & H4 & H5 & H6). split; [| eexists; reflexivity].
    apply printable_app; [reflexivity|]. apply printable_app; [apply printable_hms; rewrite Z.abs_opp; apply (small_of_hours _ 24); lia|].
    apply printable_app; [reflexivity|]. apply printable_app; [apply printable_hms; rewrite Z.abs_opp; apply (small_of_hours _ 24); lia|].
    apply printable_app; [reflexivity|]. apply printable_app; [apply printable_rule; [assumption | apply (small_of_hours _ _ Hmx); assumption]|].
    apply printable_app; [reflexivity|]. apply printable_rule; [assumption | apply (small_of_hours _ _ Hmx); assumption].
Qed.

Lemma match_DST {A} x (k1 k2 : A) : match DST ++ x with [] => k1 | _ :: _ => k2 end = k2.
Proof. reflexivity. Qed.

Theorem from_tz_string_footer (ext : bool) r : footer_ok ext r -> from_tz_string (footer_of r) ext = TzOk (Some r).
Proof.
  intros Hok. destruct (tz_str_printable ext r Hok) as (P & body & Eb).
  assert (Hmx : 0 <= (if ext then 167 else 24) <= 167) by (destruct ext; lia).
  unfold from_tz_string, footer_of.
  assert (U : utf8_valid ([10] ++ tz_str r ++ [10]) = true).
  { unfold utf8_valid. apply utf8_ascii. rewrite !forallb_app, (printable_lt128 _ P). reflexivity. }
  rewrite U. cbn [negb]. 
  assert (H1 : head_is 10 ([10] ++ tz_str r ++ [10]) = true) by reflexivity.
  assert (H2 : head_is 10 (rev ([10] ++ tz_str r ++ [10])) = true).
  { rewrite !rev_app_distr. reflexivity. }
  rewrite H1, H2. cbn [negb orb].
  assert (N : tz_str r <> []) by (rewrite Eb; discriminate).
  rewrite (trim_footer _ P N), (printable_no0 _ P).
  assert (H3 : head_is 58 (tz_str r) = false) by (rewrite Eb; reflexivity). rewrite H3. cbn [orb].
  destruct (tz_str r) as [|c0 t0] eqn:Etz; [congruence|]. rewrite <- Etz. clear Eb body H3 N H1 H2 U P Etz c0 t0.
  destruct r as [u | a]; cbn [footer_ok] in Hok; cbv zeta in Hok; cbn [tz_str].
  - assert (Su : Z.abs (- u) < 1000000000) by (rewrite Z.abs_opp; apply (small_of_hours u 24); lia).
    destruct (remove_designation_abbr (hms_str (- u))) as [R _]. { rewrite <- (app_nil_r (hms_str (- u))). apply hms_na, Su. }
    rewrite R. cbn [tzbind]. rewrite <- (app_nil_r (hms_str (- u))).
    rewrite (parse_tz_offset_str 24 (- u) []) by (try lia; try exact I; rewrite Z.abs_opp; exact Hok).
    cbn [tzbind]. rewrite Z.opp_involutive. reflexivity.
  - destruct Hok as (A1 & A2 & A3 & A4 & A5 & A6). destruct a as [std se set_ dst de det]. cbn [a_std a_std_end a_std_end_time a_dst a_dst_end a_dst_end_time] in *.
    assert (Ss : Z.abs (- std) < 1000000000) by (rewrite Z.abs_opp; apply (small_of_hours std 24); lia).
    assert (Sd : Z.abs (- dst) < 1000000000) by (rewrite Z.abs_opp; apply (small_of_hours dst 24); lia).
    idtac.
    destruct (remove_designation_abbr (hms_str (- std) ++ DST ++ hms_str (- dst) ++ [44] ++ rule_str se set_ ++ [44] ++ rule_str de det)) as [R _]; [apply hms_na, Ss|].
    rewrite R. cbn [tzbind].
    rewrite (parse_tz_offset_str 24 (- std)) by (try lia; try reflexivity; rewrite Z.abs_opp; exact A1). cbn [tzbind].
    rewrite match_DST.
    destruct (remove_designation_abbr (hms_str (- dst) ++ [44] ++ rule_str se set_ ++ [44] ++ rule_str de det)) as [_ R2]; [apply hms_na, Sd|].
    rewrite R2. cbn [tzbind].
    destruct (hms_head (- dst) ([44] ++ rule_str se set_ ++ [44] ++ rule_str de det) Sd) as (c & rr & Ec & Hc).
    assert (H44 : head_is 44 (hms_str (- dst) ++ [44] ++ rule_str se set_ ++ [44] ++ rule_str de det) = false).
    { rewrite Ec. cbn [head_is]. destruct Hc as [-> | D]; [reflexivity|]. unfold is_ascii_digit in D. apply andb_true_iff in D as [X Y]. apply Z.leb_le in X, Y.
      destruct (Z.eqb_spec c 44); [lia | reflexivity]. }
    rewrite H44. 
    assert (Enz : forall (A : Type) (k1 k2 : A), match hms_str (- dst) ++ [44] ++ rule_str se set_ ++ [44] ++ rule_str de det with [] => k2 | _ :: _ => k1 end = k1).
    { intros. rewrite Ec. reflexivity. }
    rewrite Enz.
    rewrite (parse_tz_offset_str 24 (- dst)) by (try lia; try reflexivity; rewrite Z.abs_opp; exact A2). cbn [tzbind].
    unfold read_tag. cbn [app length firstn skipn text_eqb].
    match goal with |- context [Z.of_nat (S ?n) <? Z.of_nat 1] => destruct (Z.ltb_spec (Z.of_nat (S n)) (Z.of_nat 1)); [lia|] end.
    cbn [text_eqb Z.eqb Pos.eqb andb tzbind].
    rewrite (parse_rule_str se set_ (44 :: rule_str de det) ext A3 A5 ltac:(reflexivity)). cbn [tzbind].
    cbn [app length firstn skipn].
    match goal with |- context [Z.of_nat (S ?n) <? Z.of_nat 1] => destruct (Z.ltb_spec (Z.of_nat (S n)) (Z.of_nat 1)); [lia|] end.
    cbn [text_eqb Z.eqb Pos.eqb andb tzbind].
    rewrite <- (app_nil_r (rule_str de det)). rewrite (parse_rule_str de det [] ext A4 A6 I). cbn [tzbind].
    rewrite !Z.opp_involutive. reflexivity.
Qed.

(* ---------- a whole file: layout + footer ---------- *)
Theorem from_tzif_file v trans types chars r : v <> V1 ->
  Forall (fun tr => in_i64 (fst tr)) trans -> Forall in_i32 types ->
  u32ok (Z.of_nat (length trans)) -> u32ok (Z.of_nat (length types)) -> u32ok (Z.of_nat (length chars)) ->
  footer_ok (match v with V3 => true | _ => false end) r ->
  existsb (fun tr => Z.of_nat (length types) <=? snd tr) trans = false ->
  from_tzif (enc_file v trans types chars (footer_of r)) = TzOk (mkTz trans types (Some r)).
Proof.
  intros Hv Ht Hy U1 U2 U3 Hok Hix. rewrite (from_tzif_encoded v trans types chars (footer_of r) Hv Ht Hy U1 U2 U3).
  rewrite (from_tz_string_footer _ r Hok). cbn [tzbind]. rewrite Hix, andb_false_r. reflexivity.
Qed.

Example footer_europe :
  let r := RAlt (mkAlt 3600 (MonthWeekDay 3 5 0) 7200 7200 (MonthWeekDay 10 5 0) 10800) in
  and (footer_ok false r)
  (footer_of r = [10; 83;84;68; 45;49;58;48;48;58;48;48; 68;83;84; 45;50;58;48;48;58;48;48; 44; 77;51;46;53;46;48; 47; 50;58;48;48;58;48;48;
                 44; 77;49;48;46;53;46;48; 47; 51;58;48;48;58;48;48; 10]).      (* "\nSTD-1:00:00DST-2:00:00,M3.5.0/2:00:00,M10.5.0/3:00:00\n" *)
Proof. cbv zeta. split; [cbn; repeat split; lia | vm_compute; reflexivity]. Qed.
