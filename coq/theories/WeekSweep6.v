(* WeekSweep6.v — complete enumeration, inside the kernel, of days 109578 .. 127840 of the 400-year cycle. *)
From Astro Require Import Base CalSpec DateModel DateProofs WeekProofs.
Lemma week_sweep_6 : range_all week_ok 109578 (Z.to_nat 18263) = true.
Proof. vm_compute. reflexivity. Qed.
