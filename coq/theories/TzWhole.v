(* TzWhole.v — C18: layout (TzLayout.v) and footer grammar (TzGrammar.v) composed: the reader applied to any file laid out
   as RFC 8536 prescribes returns exactly what was laid out. *)
From Astro Require Import Base Text DateModel TimeModel ApiModel TzModel TzCodec TzFooter TzGrammar TzLayout.

Lemma empty_footer (ext : bool) : from_tz_string [10; 10] ext = TzOk None.
Proof. destruct ext; vm_compute; reflexivity. Qed.

Theorem from_tzif_whole v c1 c sp r : v <> V1 -> content_ok V1 c1 -> content_ok v c ->
  Forall (fun tr => in_i64 (fst tr)) (c_trans c) -> Forall in_i32 (c_types c) ->
  footer_ok (match v with V3 => true | _ => false end) r -> spelling_ok sp r ->
  existsb (fun tr => Z.of_nat (length (c_types c)) <=? snd tr) (c_trans c) = false ->
  from_tzif (enc_file_gen v c1 c ([10] ++ tz_print sp r ++ [10])) = TzOk (mkTz (c_trans c) (c_types c) (Some r)).
Proof.
  intros Hv Hc1 Hc Ht Hy Hok Hsp Hix. rewrite (from_tzif_gen v c1 c _ Hv Hc1 Hc Ht Hy).
  rewrite (from_tz_string_grammar _ sp r Hok Hsp). cbn [tzbind]. rewrite Hix, andb_false_r. reflexivity.
Qed.
Theorem from_tzif_whole_norule v c1 c : v <> V1 -> content_ok V1 c1 -> content_ok v c ->
  Forall (fun tr => in_i64 (fst tr)) (c_trans c) -> Forall in_i32 (c_types c) -> c_types c <> [] ->
  existsb (fun tr => Z.of_nat (length (c_types c)) <=? snd tr) (c_trans c) = false ->
  from_tzif (enc_file_gen v c1 c [10; 10]) = TzOk (mkTz (c_trans c) (c_types c) None).
Proof.
  intros Hv Hc1 Hc Ht Hy Hne Hix. rewrite (from_tzif_gen v c1 c _ Hv Hc1 Hc Ht Hy), empty_footer. cbn [tzbind]. rewrite Hix.
  destruct (c_types c); [congruence | reflexivity].
Qed.

(* non-vacuity: a version-1 file with two transitions, two types, one leap-second record and indicator bytes *)
Example layout_v1_example :
  let c := mkContent [(-1000000000, 1); (1000000000, 0)] [3600; 7200] [67; 69; 84; 0] (mkSec 1 [0;0;0;0;0;0;0;1] [1; 0] [0; 1]) in
  and (content_ok V1 c) (from_tzif (enc_file_v1 c [1; 2; 3]) = TzOk (mkTz [(-1000000000, 1); (1000000000, 0)] [3600; 7200] None)).
Proof. cbv zeta. split; [unfold content_ok, u32ok; cbn; lia | vm_compute; reflexivity]. Qed.
Example layout_v3_example :
  let c1 := mkContent [(5, 0)] [0] [85; 84; 67; 0] (mkSec 0 [] [] []) in
  let c := mkContent [(-100000000000, 1); (100000000000, 0)] [3600; 7200] [67; 69; 84; 0] (mkSec 1 [0;0;0;0;0;0;0;0;0;0;0;1] [1; 0] [0; 1]) in
  let r := RAlt (mkAlt 3600 (MonthWeekDay 3 5 0) 7200 7200 (MonthWeekDay 10 5 0) 10800) in
  let sp := mkSp (DAlpha [67;69;84]) (mkHms SgMinus 1 0) (DAlpha [67;69;83;84]) None None (Some (mkHms SgNone 1 0)) in
  and (content_ok V1 c1 /\ content_ok V3 c)
      (from_tzif (enc_file_gen V3 c1 c ([10] ++ tz_print sp r ++ [10])) = TzOk (mkTz (c_trans c) (c_types c) (Some r))).
Proof. cbv zeta. split; [unfold content_ok, u32ok; cbn; lia | vm_compute; reflexivity]. Qed.
