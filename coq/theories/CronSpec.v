(* CronSpec.v — what a cron expression denotes, as documented: five white-space separated fields;
   a field is a comma list of items  *  |  */step  |  a  |  a-b ; values are decimal numbers in the
   field's range or (month, day of week) three-letter English names in any letter case; day of week 7 is Sunday. *)
From Astro Require Import Base Text CronModel.

Inductive fkind := KMinute | KHour | KDom | KMonth | KDow.
Definition kmin (k : fkind) : Z := match k with KDom | KMonth => 1 | _ => 0 end.
Definition kmax (k : fkind) : Z := match k with KMinute => 59 | KHour => 23 | KDom => 31 | KMonth => 12 | KDow => 6 end.
(* largest number that may be written: 7 is allowed for the day of week *)
Definition kupper (k : fkind) : Z := match k with KDow => 7 | _ => kmax k end.
Definition knorm (k : fkind) (v : Z) : Z := match k with KDow => if v =? 7 then 0 else v | _ => v end.

Inductive item := IStar | IStep (n : Z) | IVal (a : Z) | IRange (a b : Z).

Definition is_number (t : text) : bool := match t with [] => false | _ => all_digits t end.
Definition name_value (k : fkind) (t : text) : option Z :=
  match k with
  | KMonth => match index_of MONTH_NAMES (lowercase t) 0 with Some i => Some (i + 1) | None => None end
  | KDow => index_of DOW_NAMES (lowercase t) 0
  | _ => None
  end.
Definition value_tok (k : fkind) (t : text) : option Z :=
  if is_number t then (if digits_val t <=? 255 then Some (digits_val t) else None) else name_value k t.

Definition parse_item_spec (k : fkind) (p : text) : option item :=
  if text_eqb p [42] then Some IStar
  else match strip_prefix [42; 47] p with
  | Some st => if is_number st && (1 <=? digits_val st) && (digits_val st <=? 255) then Some (IStep (digits_val st)) else None
  | None =>
      match split_on 45 p with
      | [a] => match value_tok k a with
               | Some v => if (kmin k <=? v) && (v <=? kupper k) then Some (IVal v) else None
               | None => None end
      | [a; b] => match value_tok k a, value_tok k b with
                  | Some va, Some vb => if (va <=? vb) && (kmin k <=? va) && (vb <=? kupper k) then Some (IRange va vb) else None
                  | _, _ => None end
      | _ => None
      end
  end.

Fixpoint parse_items_spec (k : fkind) (ps : list text) : option (list item) :=
  match ps with
  | [] => Some []
  | p :: tl => match parse_item_spec k p, parse_items_spec k tl with
               | Some i, Some is => Some (i :: is) | _, _ => None end
  end.
Definition parse_field_spec (k : fkind) (f : text) : option (list item) := parse_items_spec k (split_on 44 f).

Definition cron_spec (s : text) : option (list item * list item * list item * list item * list item) :=
  match split_whitespace s with
  | [f0; f1; f2; f3; f4] =>
      match parse_field_spec KMinute f0, parse_field_spec KHour f1, parse_field_spec KDom f2,
            parse_field_spec KMonth f3, parse_field_spec KDow f4 with
      | Some a, Some b, Some c, Some d, Some e => Some (a, b, c, d, e)
      | _, _, _, _, _ => None
      end
  | _ => None
  end.

(* which values of the field's range an item denotes *)
Definition item_matches (k : fkind) (it : item) (v : Z) : bool :=
  match it with
  | IStar => true
  | IStep n => (v - kmin k) mod n =? 0
  | IVal a => v =? knorm k a
  | IRange a b => ((a <=? v) && (v <=? b)) || (match k with KDow => (v =? 0) && (a <=? 7) && (7 <=? b) | _ => false end)
  end.
Definition field_matches (k : fkind) (its : list item) (v : Z) : bool := existsb (fun it => item_matches k it v) its.
