(* TzModel.v — Gallina transcription of src/local/{cursor,header,data_block,timezone,transition_rule}.rs:
   the TZif parser, the POSIX-TZ footer parser and the offset lookup.  Bytes are integers 0..255. *)
From Astro Require Import Base Text DateModel TimeModel ApiModel.

Definition bytes := list Z.

(* TimeZoneError carries no information the properties use: every parse failure is `TzErr` *)
Inductive tzres (A : Type) := TzOk (a : A) | TzErr | TzPanic.
Arguments TzOk {A} a. Arguments TzErr {A}. Arguments TzPanic {A}.
Definition tzbind {A B} (r : tzres A) (f : A -> tzres B) : tzres B :=
  match r with TzOk a => f a | TzErr => TzErr | TzPanic => TzPanic end.
Notation "'let!' x ':=' r 'in' k" := (tzbind r (fun x => k))
  (at level 200, x name, r at level 100, k at level 200, right associativity).
Notation "'let!' ' p ':=' r 'in' k" := (tzbind r (fun x => match x with p => k end))
  (at level 200, p strict pattern, r at level 100, k at level 200, right associativity).

(* ---- cursor.rs ---- *)
Definition read_exact (n : Z) (cur : bytes) : tzres (bytes * bytes) :=
  if Z.of_nat (length cur) <? n then TzErr else TzOk (firstn (Z.to_nat n) cur, skipn (Z.to_nat n) cur).
Fixpoint take_while (f : Z -> bool) (cur : bytes) : bytes * bytes :=
  match cur with
  | [] => ([], [])
  | b :: tl => if f b then (let '(a, r) := take_while f tl in (b :: a, r)) else ([], cur)
  end.
Definition read_until (c : Z) (cur : bytes) : bytes * bytes := take_while (fun b => negb (b =? c)) cur.
Definition read_while (f : Z -> bool) (cur : bytes) : bytes * bytes := take_while f cur.
Definition read_tag (tag : bytes) (cur : bytes) : tzres bytes :=
  if Z.of_nat (length cur) <? Z.of_nat (length tag) then TzErr
  else if text_eqb (firstn (length tag) cur) tag then TzOk (skipn (length tag) cur) else TzErr.
Definition get_next (cur : bytes) : tzres Z := match cur with [] => TzErr | b :: _ => TzOk b end.

(* big-endian integers *)
Fixpoint be_unsigned (bs : bytes) (acc : Z) : Z := match bs with [] => acc | b :: tl => be_unsigned tl (acc * 256 + b) end.
Definition be_u32 (bs : bytes) : Z := be_unsigned bs 0.
Definition be_i32 (bs : bytes) : Z := let u := be_unsigned bs 0 in if u <? 2147483648 then u else u - 4294967296.
Definition be_i64 (bs : bytes) : Z := let u := be_unsigned bs 0 in if u <? 9223372036854775808 then u else u - 18446744073709551616.

(* ---- header.rs ---- *)
Inductive version := V1 | V2 | V3.
Record header := mkHeader { h_ver : version; h_isut : Z; h_isstd : Z; h_leap : Z; h_trans : Z; h_types : Z; h_chars : Z }.
Definition parse_header (cur : bytes) : tzres (header * bytes) :=
  let! '(magic, cur) := read_exact 4 cur in
  if negb (text_eqb magic [84; 90; 105; 102]) then TzErr else
  let! '(vb, cur) := read_exact 1 cur in
  let! ver := (match vb with [b] => if b =? 0 then TzOk V1 else if b =? 50 then TzOk V2 else if b =? 51 then TzOk V3 else TzErr | _ => TzErr end) in
  let! '(_, cur) := read_exact 15 cur in
  let! '(a, cur) := read_exact 4 cur in
  let! '(b, cur) := read_exact 4 cur in
  let! '(c, cur) := read_exact 4 cur in
  let! '(d, cur) := read_exact 4 cur in
  let! '(e, cur) := read_exact 4 cur in
  let! '(f, cur) := read_exact 4 cur in
  TzOk (mkHeader ver (be_u32 a) (be_u32 b) (be_u32 c) (be_u32 d) (be_u32 e) (be_u32 f), cur).

(* ---- data_block.rs ---- *)
Record data_block := mkBlock { b_time_size : Z; b_times : bytes; b_ttypes : bytes; b_ltypes : bytes }.
Definition parse_data_block (cur : bytes) (h : header) (ver : version) : tzres (data_block * bytes) :=
  let time_size := match ver with V1 => 4 | _ => 8 end in
  let! '(times, cur) := read_exact (h_trans h * time_size) cur in
  let! '(ttypes, cur) := read_exact (h_trans h) cur in
  let! '(ltypes, cur) := read_exact (h_types h * 6) cur in
  let! '(_, cur) := read_exact (h_chars h) cur in
  let! '(_, cur) := read_exact (h_leap h * (time_size + 4)) cur in
  let! '(_, cur) := read_exact (h_isstd h) cur in
  let! '(_, cur) := read_exact (h_isut h) cur in
  TzOk (mkBlock time_size times ttypes ltypes, cur).

(* ---- transition_rule.rs ---- *)
Inductive rule_day := JulianNoLeap (n : Z) | JulianLeap (n : Z) | MonthWeekDay (m w d : Z).
Record alt_rule := mkAlt { a_std : Z; a_std_end : rule_day; a_std_end_time : Z; a_dst : Z; a_dst_end : rule_day; a_dst_end_time : Z }.
Inductive trule := RFixed (utoff : Z) | RAlt (a : alt_rule).

Definition is_ascii_alphabetic (b : Z) : bool := ((65 <=? b) && (b <=? 90)) || ((97 <=? b) && (b <=? 122)).
Definition is_ascii_ws (b : Z) : bool := (b =? 32) || (b =? 9) || (b =? 10) || (b =? 12) || (b =? 13).

Definition remove_designation (cur : bytes) : tzres bytes :=
  let! nx := get_next cur in
  if nx =? 60 then (let '(_, cur) := read_until 62 cur in let! '(_, cur) := read_exact 1 cur in TzOk cur)
  else TzOk (snd (read_while is_ascii_alphabetic cur)).

(* <int>::from_str on a byte slice; mx = the type's maximum, the slices used never start with '-' *)
Definition parse_int (mx : Z) (bs : bytes) : tzres Z := match parse_unsigned mx bs with Some v => TzOk v | None => TzErr end.

Definition head_is (c : Z) (cur : bytes) : bool := match cur with b :: _ => b =? c | [] => false end.
Definition parse_hms (cur : bytes) : tzres (Z * Z * Z * Z * bytes) :=
  let! nx := get_next cur in
  let '(direction, cur) := if nx =? 45 then (-1, tl cur) else if nx =? 43 then (1, tl cur) else (1, cur) in
  let '(hd, cur) := read_while is_ascii_digit cur in
  let! hour := parse_int I32_MAX hd in
  if head_is 58 cur then
      let '(md, cur2) := read_while is_ascii_digit (tl cur) in
      let! minute := parse_int I32_MAX md in
      if head_is 58 cur2 then
          let '(sd, cur4) := read_while is_ascii_digit (tl cur2) in
          let! second := parse_int I32_MAX sd in
          TzOk (direction, hour, minute, second, cur4)
      else TzOk (direction, hour, minute, 0, cur2)
  else TzOk (direction, hour, 0, 0, cur).

Definition parse_tz_offset (max_hour : Z) (cur : bytes) : tzres (Z * bytes) :=
  let! '(direction, hour, minute, second, cur) := parse_hms cur in
  if negb ((0 <=? hour) && (hour <=? max_hour)) then TzErr
  else if negb ((0 <=? minute) && (minute <=? 59)) then TzErr
  else if negb ((0 <=? second) && (second <=? 59)) then TzErr
  else TzOk (direction * (hour * 3600 + minute * 60 + second), cur).

Definition parse_rule (cur : bytes) (ext : bool) : tzres (rule_day * Z * bytes) :=
  let! nx := get_next cur in
  let! '(day, cur) :=
    (if nx =? 74 then
       let '(ds, cur) := read_while is_ascii_digit (tl cur) in
       let! n := parse_int U32_MAX ds in
       if negb ((1 <=? n) && (n <=? 365)) then TzErr else TzOk (JulianNoLeap n, cur)
     else if is_ascii_digit nx then
       let '(ds, cur) := read_while is_ascii_digit cur in
       let! n := parse_int U32_MAX ds in
       if 365 <? n then TzErr else TzOk (JulianLeap n, cur)
     else if nx =? 77 then
       let '(ms, cur) := read_until 46 (tl cur) in
       let! m := parse_int 255 ms in
       let! '(_, cur) := read_exact 1 cur in
       let '(ws, cur) := read_until 46 cur in
       let! w := parse_int 255 ws in
       let! '(_, cur) := read_exact 1 cur in
       let '(ds, cur) := read_while is_ascii_digit cur in
       let! d := parse_int 255 ds in
       if negb ((1 <=? m) && (m <=? 12)) || negb ((1 <=? w) && (w <=? 5)) || (6 <? d) then TzErr
       else TzOk (MonthWeekDay m w d, cur)
     else TzErr) in
  if head_is 47 cur then let! '(t, cur2) := parse_tz_offset (if ext then 167 else 24) (tl cur) in TzOk (day, t, cur2)
  else TzOk (day, 7200, cur).

(* std::str::from_utf8: well-formed UTF-8 *)
Fixpoint utf8_valid_aux (bs : bytes) (fuel : nat) : bool :=
  match fuel with O => true | S k =>
  match bs with
  | [] => true
  | b0 :: tl =>
      let cont b := (128 <=? b) && (b <=? 191) in
      if b0 <? 128 then utf8_valid_aux tl k
      else if (194 <=? b0) && (b0 <=? 223) then
        match tl with b1 :: tl' => cont b1 && utf8_valid_aux tl' k | _ => false end
      else if (224 <=? b0) && (b0 <=? 239) then
        match tl with
        | b1 :: b2 :: tl' =>
            (if b0 =? 224 then (160 <=? b1) && (b1 <=? 191) else if b0 =? 237 then (128 <=? b1) && (b1 <=? 159) else cont b1)
            && cont b2 && utf8_valid_aux tl' k
        | _ => false end
      else if (240 <=? b0) && (b0 <=? 244) then
        match tl with
        | b1 :: b2 :: b3 :: tl' =>
            (if b0 =? 240 then (144 <=? b1) && (b1 <=? 191) else if b0 =? 244 then (128 <=? b1) && (b1 <=? 143) else cont b1)
            && cont b2 && cont b3 && utf8_valid_aux tl' k
        | _ => false end
      else false
  end end.
Definition utf8_valid (bs : bytes) : bool := utf8_valid_aux bs (S (length bs)).

Fixpoint drop_while (f : Z -> bool) (bs : bytes) : bytes := match bs with b :: tl => if f b then drop_while f tl else bs | [] => [] end.
Definition trim_ascii_ws (bs : bytes) : bytes := rev (drop_while is_ascii_ws (rev (drop_while is_ascii_ws bs))).

Definition from_tz_string (footer : bytes) (ext : bool) : tzres (option trule) :=
  if negb (utf8_valid footer) then TzErr else
  if negb (head_is 10 footer) || negb (head_is 10 (rev footer)) then TzErr else
  let tz := trim_ascii_ws footer in
  if head_is 58 tz || contains 0 tz then TzErr else
  if (match tz with [] => true | _ => false end) then TzOk None else
  let! cur := remove_designation tz in
  let! '(std_offset, cur) := parse_tz_offset 24 cur in
  match cur with
  | [] => TzOk (Some (RFixed (- std_offset)))
  | _ =>
      let! cur := remove_designation cur in
      let! '(dst_offset, cur) :=
        (if head_is 44 cur then TzOk (std_offset - 3600, cur)
         else match cur with _ :: _ => parse_tz_offset 24 cur | [] => TzErr end) in
      let! cur := read_tag [44] cur in
      let! '(std_end, std_end_time, cur) := parse_rule cur ext in
      let! cur := read_tag [44] cur in
      let! '(dst_end, dst_end_time, cur) := parse_rule cur ext in
      TzOk (Some (RAlt (mkAlt (- std_offset) std_end std_end_time (- dst_offset) dst_end dst_end_time)))
  end.

(* ---- timezone.rs ---- *)
Record timezone := mkTz { tz_trans : list (Z * Z); tz_types : list Z; tz_rule : option trule }.

Fixpoint chunks (n : nat) (bs : bytes) (fuel : nat) : list bytes :=       (* chunks_exact *)
  match fuel with O => [] | S k => if Nat.ltb (length bs) n then [] else firstn n bs :: chunks n (skipn n bs) k end.
Fixpoint zip {A B} (a : list A) (b : list B) : list (A * B) :=
  match a, b with x :: a', y :: b' => (x, y) :: zip a' b' | _, _ => [] end.

Definition from_tzif (bs : bytes) : tzres timezone :=
  let! '(h1, cur) := parse_header bs in
  let! '(h, blk, footer) :=
    (match h_ver h1 with
     | V1 => let! '(blk, _) := parse_data_block cur h1 V1 in TzOk (h1, blk, None)
     | _ => let! '(_, cur) := parse_data_block cur h1 V1 in
            let! '(h2, cur) := parse_header cur in
            let! '(blk, cur) := parse_data_block cur h2 (h_ver h2) in
            TzOk (h2, blk, Some cur)
     end) in
  let ts := Z.to_nat (b_time_size blk) in
  let times := map (fun c => match h_ver h with V1 => be_i32 c | _ => be_i64 c end) (chunks ts (b_times blk) (length (b_times blk))) in
  let transitions := zip times (b_ttypes blk) in
  let types := map (fun c => be_i32 (firstn 4 c)) (chunks 6 (b_ltypes blk) (length (b_ltypes blk))) in
  let! rule := (match footer with Some f => from_tz_string f (match h_ver h with V3 => true | _ => false end) | None => TzOk None end) in
  if existsb (fun tr => Z.of_nat (length types) <=? snd tr) transitions
     || ((match types with [] => true | _ => false end) && (match rule with None => true | _ => false end))
  then TzErr
  else TzOk (mkTz transitions types rule).

(* ---- rule dates (transition_rule.rs, convert.rs) ---- *)
Definition weekdays_in_month (year month weekday : Z) : tzres (list Z) :=
  match year_month_to_doy year month, date_to_days year month 1 with
  | Ok (_, days), Ok start_days =>
      let idxs := filter (fun i => days_to_wday (start_days + i) false =? weekday) [0; 1; 2; 3; 4; 5; 6] in
      let weekday_index := match idxs with i :: _ => i | [] => 0 end in
      TzOk (filter (fun day => day <=? days) (map (fun i => weekday_index + 1 + i * 7) [0; 1; 2; 3; 4; 5]))
  | _, _ => TzPanic
  end.

Definition rule_year (timestamp : Z) : tzres Z :=
  match dt_from_timestamp false timestamp with
  | Ok v => match dt_year v with
            | Ok y => TzOk (Z.max (MIN_Y + 1) (Z.min (MAX_Y - 1) y))
            | _ => TzPanic end
  | _ => TzPanic
  end.
Definition unwrap_days (r : res Z) : tzres Z := match r with Ok d => TzOk d | _ => TzPanic end.

Definition rule_to_local_timestamp (rd : rule_day) (time timestamp : Z) : tzres Z :=
  let! year := rule_year timestamp in
  let! date_days :=
    (match rd with
     | JulianNoLeap doy => unwrap_days (year_doy_to_days year doy true)
     | JulianLeap doy => let! j := unwrap_days (year_doy_to_days year 1 false) in TzOk (j + doy)
     | MonthWeekDay m w d =>
         let! wds := weekdays_in_month year m d in
         let! dom := (if w =? 5 then match rev wds with x :: _ => TzOk x | [] => TzPanic end
                      else match nth_error wds (Z.to_nat (w - 1)) with Some x => TzOk x | None => TzPanic end) in
         match year_month_to_doy year m with
         | Ok (start, _) => unwrap_days (year_doy_to_days year (start + dom) false)
         | _ => TzPanic end
     end) in
  match dt_from_seconds (date_days * SECS_PER_DAY + time) with
  | Ok v => TzOk (dt_timestamp v)
  | _ => TzPanic
  end.

Fixpoint scan_rev (trans_rev : list (Z * Z)) (timestamp : Z) : Z :=
  match trans_rev with
  | [] => 0
  | (t, i) :: tl => if t <=? timestamp then i else scan_rev tl timestamp
  end.

Definition to_local_time_type (tz : timezone) (timestamp : Z) : tzres Z :=
  let after_last := match rev (tz_trans tz) with
                    | (t, _) :: _ => (t <? timestamp) && (match tz_rule tz with Some _ => true | None => false end)
                    | [] => true end in
  if after_last then
    match tz_rule tz with
    | Some (RFixed u) => TzOk u
    | Some (RAlt a) =>
        let! std_end_ts := rule_to_local_timestamp (a_std_end a) (a_std_end_time a) timestamp in
        let! dst_end_ts := rule_to_local_timestamp (a_dst_end a) (a_dst_end_time a) timestamp in
        let std_end_unix := std_end_ts - a_std a in
        let dst_end_unix := dst_end_ts - a_dst a in
        if (std_end_unix <? dst_end_unix) && (std_end_unix <=? timestamp) && (timestamp <? dst_end_unix) then TzOk (a_dst a)
        else if std_end_unix <? dst_end_unix then TzOk (a_std a)
        else if (dst_end_unix <? std_end_unix) && (dst_end_unix <=? timestamp) && (timestamp <? std_end_unix) then TzOk (a_std a)
        else TzOk (a_dst a)
    | None => match tz_types tz with u :: _ => TzOk u | [] => TzPanic end
    end
  else
    match nth_error (tz_types tz) (Z.to_nat (scan_rev (rev (tz_trans tz)) timestamp)) with
    | Some u => TzOk u
    | None => TzPanic
    end.

(* ---- offset.rs: Offset::Local.resolve() — the file system and the clock are parameters ----
   file = None: /etc/localtime unreadable; now_ts: DateTime::now().timestamp() *)
Definition resolve_local (file : option bytes) (now_ts : Z) : tzres Z :=
  match file with
  | None => TzOk 0
  | Some bs => match from_tzif bs with
               | TzOk tz => to_local_time_type tz now_ts
               | TzErr => TzOk 0
               | TzPanic => TzPanic end
  end.
