(* C04 — adding or subtracting an amount of time moves the instant by exactly that amount,
   or panics when the result is not representable; never a wrapped or truncated instant. *)
From Astro Require Import Base DateModel TimeModel ApiModel InstantSpec TimeProofs.

(* moves_exactly v r t :=  (t representable -> r = Ok v' with instant v' = t, same offset, Inv) /\ (otherwise r = Panic) *)
Theorem C04_add : forall u v n, Inv_dt v -> moves_exactly v (dt_add u v n) (instant v + n * unit_nanos u).
Proof. exact c04_add. Qed.
Theorem C04_sub : forall u v n, Inv_dt v -> moves_exactly v (dt_sub u v n) (instant v - n * unit_nanos u).
Proof. exact c04_sub. Qed.
Theorem C04_add_days : forall v n, Inv_dt v -> moves_exactly v (dt_add_days v n) (instant v + n * NANOS_PER_DAY).
Proof. exact c04_add_days. Qed.
Theorem C04_sub_days : forall v n, Inv_dt v -> moves_exactly v (dt_sub_days v n) (instant v - n * NANOS_PER_DAY).
Proof. exact c04_sub_days. Qed.
(* DateTime +/- Duration and +/- Time: amount = the Duration's / Time's nanoseconds *)
Theorem C04_add_amount : forall v a, Inv_dt v -> moves_exactly v (dt_add_nanos_total v a) (instant v + a).
Proof. exact c04_add_amount. Qed.
Theorem C04_sub_amount : forall v a, Inv_dt v -> moves_exactly v (dt_sub_nanos_total v a) (instant v - a).
Proof. exact c04_sub_amount. Qed.
(* Date: moves by n days / by the whole days contained in the Duration; date_moves r t := (in_i32 t -> r = Ok t) /\ (~ -> Panic) *)
Theorem C04_date_add_days : forall d n, date_moves (date_add_days d n) (d + n).
Proof. exact c04_date_add_days. Qed.
Theorem C04_date_sub_days : forall d n, date_moves (date_sub_days d n) (d - n).
Proof. exact c04_date_sub_days. Qed.
Theorem C04_date_add_dur : forall d secs, date_moves (date_add_dur d secs) (d + secs / SECS_PER_DAY).
Proof. exact c04_date_add_dur. Qed.
Theorem C04_date_sub_dur : forall d secs, date_moves (date_sub_dur d secs) (d - secs / SECS_PER_DAY).
Proof. exact c04_date_sub_dur. Qed.

Example C04_nonvacuous :
  Inv_dt (mkDT 0 0 0) /\ inst_in_range (instant (mkDT 0 0 0) - 1 * unit_nanos USecond) /\
  ~ inst_in_range (instant (mkDT 2147483647 0 0) + 24 * unit_nanos UHour).
Proof. unfold Inv_dt, inst_in_range, instant, off_ok, in_i32, MIN_I, MAX_I, unit_nanos, NANOS_PER_DAY, NANOS_PER_SEC, NANOS_PER_HOUR, SECS_PER_DAY, I32_MIN, I32_MAX. cbn [dt_days dt_nanos dt_off]. lia. Qed.

Print Assumptions C04_add.
Print Assumptions C04_sub.
Print Assumptions C04_add_days.
Print Assumptions C04_sub_days.
Print Assumptions C04_add_amount.
Print Assumptions C04_sub_amount.
Print Assumptions C04_date_add_days.
Print Assumptions C04_date_sub_days.
Print Assumptions C04_date_add_dur.
Print Assumptions C04_date_sub_dur.
