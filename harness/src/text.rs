//! C11–C14, C20: format, parse, RFC 3339, Display / FromStr / serde.
use crate::arith::{mk_date, mk_dt, mk_time, time_parts};
use crate::c01::{date_days, dt_parts};
use crate::common::*;
use crate::gens::*;
use astrolabe::{CronSchedule, Date, DateTime, DateUtilities, Precision, Time};

const UNC: Obs = Obs::Err(9, vec![]);
fn prec(p: i128) -> Precision {
    match p { 0 => Precision::Seconds, 2 => Precision::Centis, 3 => Precision::Millis, 6 => Precision::Micros, _ => Precision::Nanos }
}
fn obs_date(r: Result<Date, astrolabe::errors::AstrolabeError>) -> Obs { match r { Ok(v) => Obs::Ok(vec![date_days(&v)], vec![]), Err(e) => err_obs(&e) } }
fn obs_time(r: Result<Time, astrolabe::errors::AstrolabeError>) -> Obs { match r { Ok(v) => { let (n, o) = time_parts(&v); Obs::Ok(vec![n, o], vec![]) } Err(e) => err_obs(&e) } }
fn obs_dt(r: Result<DateTime, astrolabe::errors::AstrolabeError>) -> Obs { match r { Ok(v) => { let (d, n, o) = dt_parts(&v); Obs::Ok(vec![d, n, o], vec![]) } Err(e) => err_obs(&e) } }

pub fn run(inp: &Input) -> Option<Obs> {
    let i = inp.ints.clone();
    let s = inp.strs.clone();
    let op = inp.op.clone();
    if !["fmt", "parse", "roundtrip", "rfc_fmt", "rfc_parse", "display", "fromstr", "serde_ser", "serde_de", "serde_rt", "std_parse"].contains(&op.as_str()) { return None; }
    Some(guarded(move || match op.as_str() {
        // ints = [kind, value fields.. , (oracle data)], strs[0] = pattern
        "fmt" => match i[0] {
            0 => match mk_date(i[1]) { Some(v) => Obs::Ok(vec![], vec![v.format(&s[0])]), None => UNC },
            1 => match mk_time(i[1], i[2]) { Some(v) => Obs::Ok(vec![], vec![v.format(&s[0])]), None => UNC },
            _ => match mk_dt(i[1], i[2], i[3]) { Some(v) => Obs::Ok(vec![], vec![v.format(&s[0])]), None => UNC },
        },
        // ints = [kind, now_year], strs = [input, pattern]
        "parse" => match i[0] {
            0 => obs_date(Date::parse(&s[0], &s[1])),
            1 => obs_time(Time::parse(&s[0], &s[1])),
            _ => obs_dt(DateTime::parse(&s[0], &s[1])),
        },
        // format, parse with the same pattern, format again. ints = [kind, now_year, value..], strs = [pattern]
        "roundtrip" => match i[0] {
            0 => { let v = match mk_date(i[2]) { Some(v) => v, None => return UNC }; let a = v.format(&s[0]);
                   match Date::parse(&a, &s[0]) { Ok(w) => Obs::Ok(vec![date_days(&w)], vec![a, w.format(&s[0])]), Err(e) => { let _ = a; err_obs(&e) } } }
            1 => { let v = match mk_time(i[2], i[3]) { Some(v) => v, None => return UNC }; let a = v.format(&s[0]);
                   match Time::parse(&a, &s[0]) { Ok(w) => { let (n, o) = time_parts(&w); Obs::Ok(vec![n, o], vec![a, w.format(&s[0])]) } Err(e) => err_obs(&e) } }
            _ => { let v = match mk_dt(i[2], i[3], i[4]) { Some(v) => v, None => return UNC }; let a = v.format(&s[0]);
                   match DateTime::parse(&a, &s[0]) { Ok(w) => { let (d, n, o) = dt_parts(&w); Obs::Ok(vec![d, n, o], vec![a, w.format(&s[0])]) } Err(e) => err_obs(&e) } }
        },
        "rfc_fmt" => match mk_dt(i[0], i[1], i[2]) { Some(v) => Obs::Ok(vec![], vec![v.format_rfc3339(prec(i[3]))]), None => UNC },
        "rfc_parse" => obs_dt(DateTime::parse_rfc3339(&s[0])),
        // str::parse::<T>() itself, for the integer types the library parses into (the model restates it as parse_unsigned / parse_signed)
        "std_parse" => {
            let r: Option<i128> = match i[0] { 0 => s[0].parse::<u8>().ok().map(|v| v as i128), 1 => s[0].parse::<u32>().ok().map(|v| v as i128),
                                                2 => s[0].parse::<u64>().ok().map(|v| v as i128), _ => s[0].parse::<i32>().ok().map(|v| v as i128) };
            match r { Some(v) => Obs::Ok(vec![v], vec![]), None => Obs::Err(2, vec![]) }
        }
        "display" => match i[0] {
            0 => match mk_date(i[1]) { Some(v) => Obs::Ok(vec![], vec![v.to_string()]), None => UNC },
            1 => match mk_time(i[1], i[2]) { Some(v) => Obs::Ok(vec![], vec![v.to_string()]), None => UNC },
            _ => match mk_dt(i[1], i[2], i[3]) { Some(v) => Obs::Ok(vec![], vec![v.to_string()]), None => UNC },
        },
        "fromstr" => match i[0] {
            0 => obs_date(s[0].parse::<Date>()),
            1 => obs_time(s[0].parse::<Time>()),
            3 => match s[0].parse::<CronSchedule>() { Ok(_) => Obs::Ok(vec![], vec![]), Err(e) => err_obs(&e) },
            _ => obs_dt(s[0].parse::<DateTime>()),
        },
        // serde through a JSON string: serialized text (without the surrounding quotes)
        "serde_ser" => {
            let j = match i[0] {
                0 => serde_json::to_string(&mk_date(i[1]).unwrap()),
                1 => serde_json::to_string(&mk_time(i[1], i[2]).unwrap()),
                _ => serde_json::to_string(&mk_dt(i[1], i[2], i[3]).unwrap()),
            };
            match j { Ok(t) => Obs::Ok(vec![], vec![t.trim_matches('"').to_string()]), Err(_) => Obs::Err(4, vec![]) }
        }
        // deserialize the JSON string literal of strs[0]; any error is kind 4
        "serde_de" => {
            let lit = serde_json::to_string(&s[0]).unwrap();
            match i[0] {
                0 => match serde_json::from_str::<Date>(&lit) { Ok(v) => Obs::Ok(vec![date_days(&v)], vec![]), Err(_) => Obs::Err(4, vec![]) },
                1 => match serde_json::from_str::<Time>(&lit) { Ok(v) => { let (n, o) = time_parts(&v); Obs::Ok(vec![n, o], vec![]) } Err(_) => Obs::Err(4, vec![]) },
                _ => match serde_json::from_str::<DateTime>(&lit) { Ok(v) => { let (d, n, o) = dt_parts(&v); Obs::Ok(vec![d, n, o], vec![]) } Err(_) => Obs::Err(4, vec![]) },
            }
        }
        // serialize then deserialize
        "serde_rt" => match i[0] {
            0 => { let v = mk_date(i[1]).unwrap(); let j = serde_json::to_string(&v).unwrap();
                   match serde_json::from_str::<Date>(&j) { Ok(w) => Obs::Ok(vec![date_days(&w)], vec![j.trim_matches('"').to_string()]), Err(_) => Obs::Err(4, vec![]) } }
            1 => { let v = mk_time(i[1], i[2]).unwrap(); let j = serde_json::to_string(&v).unwrap();
                   match serde_json::from_str::<Time>(&j) { Ok(w) => { let (n, o) = time_parts(&w); Obs::Ok(vec![n, o], vec![j.trim_matches('"').to_string()]) } Err(_) => Obs::Err(4, vec![]) } }
            _ => { let v = mk_dt(i[1], i[2], i[3]).unwrap(); let j = serde_json::to_string(&v).unwrap();
                   match serde_json::from_str::<DateTime>(&j) { Ok(w) => { let (d, n, o) = dt_parts(&w); Obs::Ok(vec![d, n, o], vec![j.trim_matches('"').to_string()]) } Err(_) => Obs::Err(4, vec![]) } }
        },
        _ => unreachable!(),
    }))
}

// ---------------------------------------------------------------- pattern generation
pub const DATE_SYMS: &str = "GyqMwdDe";
pub const TIME_SYMS: &str = "abhHKkmsnXx";
#[derive(Clone, Debug)]
pub enum Item { Field(char, usize), Lit(char, usize), Quoted(String), Apos(usize) }

pub fn unparse(items: &[Item]) -> String {
    let mut s = String::new();
    for it in items {
        match it {
            Item::Field(c, w) | Item::Lit(c, w) => for _ in 0..*w { s.push(*c); },
            Item::Quoted(t) => { s.push('\''); s.push_str(&t.replace('\'', "''")); s.push('\''); }
            Item::Apos(k) => for _ in 0..*k { s.push_str("''"); },
        }
    }
    s
}
fn item_key(it: &Item) -> (u8, char) {
    match it { Item::Field(c, _) => (0, *c), Item::Lit(c, _) => (0, *c), Item::Quoted(_) => (1, '\''), Item::Apos(_) => (2, '\'') }
}
/// well-formed item lists: neighbours never merge in the tokenizer (different run characters, no two quoted/apostrophe items adjacent)
pub fn gen_items(g: &mut Gen, syms: &str, max_items: usize, max_w: usize) -> Vec<Item> {
    let lits: Vec<char> = " -/:.,TzQ()[]#\u{e9}\u{20ac}".chars().collect();
    let symv: Vec<char> = syms.chars().collect();
    let n = 1 + (g.rng.next() as usize) % max_items;
    let mut out: Vec<Item> = vec![];
    while out.len() < n {
        let it = match g.rng.next() % 10 {
            0..=5 => Item::Field(*g.rng.pick(&symv), 1 + (g.rng.next() as usize) % max_w),
            6 | 7 => Item::Lit(*g.rng.pick(&lits), 1 + (g.rng.next() as usize) % 3),
            8 => { let len = 1 + (g.rng.next() % 5) as usize; let alpha: Vec<char> = "abyMd 'T:\u{e9}x".chars().collect();
                   Item::Quoted((0..len).map(|_| *g.rng.pick(&alpha)).collect()) }
            _ => Item::Apos(1 + (g.rng.next() % 2) as usize),
        };
        // a literal whose code point shares its low byte with the symbol just before it (U+01xx, U+FFxx fullwidth, U+1F4xx)
        let it = match (out.last(), &it) {
            (Some(Item::Field(pc, _)), Item::Lit(_, k)) if g.rng.chance(1, 4) => {
                let base = *g.rng.pick(&[0x100u32, 0xFF00, 0x1F400]);
                Item::Lit(char::from_u32(base + *pc as u32).unwrap(), *k)
            }
            _ => it,
        };
        if let Some(prev) = out.last() {
            let (pk, pc) = item_key(prev); let (k, c) = item_key(&it);
            if (pk == 0 && k == 0 && pc == c) || (pk != 0 && k != 0) { continue; }
            // a quoted or apostrophe item directly after/before an apostrophe-like neighbour would merge; also "''" next to "'..'"
        }
        if let Item::Quoted(t) = &it { if t.chars().all(|c| c == '\'') { continue; } }
        out.push(it);
    }
    out
}
fn items_ints(items: &[Item], strs: &mut Vec<String>) -> Vec<i128> {
    let mut v = vec![items.len() as i128];
    for it in items {
        match it {
            Item::Field(c, w) => { v.extend([0, *c as i128, *w as i128]); }
            Item::Lit(c, w) => { v.extend([1, *c as i128, *w as i128]); }
            Item::Quoted(t) => { strs.push(t.clone()); v.extend([2, strs.len() as i128 - 1, 0]); }
            Item::Apos(k) => { v.extend([3, *k as i128, 0]); }
        }
    }
    v
}
fn value_pool(g: &mut Gen, kind: i128) -> Vec<i128> {
    match kind {
        0 => vec![pretty_day(g)],
        1 => { let (n, o) = (nanos_pool(g), off_pool(g)); vec![n, o] }
        _ => { loop { let (d, n, o) = (pretty_day(g), nanos_pool(g), off_pool(g)); let l = d * NPD + n + o * NPS;
                      if l >= crate::civil::DAY_MIN as i128 * NPD && l < (crate::civil::DAY_MAX as i128 + 1) * NPD { return vec![d, n, o]; } } }
    }
}
/// days whose fields exercise the table: years +-1, +-99, +-100, +-9999, +-10000, weeks 52/53/1, every weekday and month
fn pretty_day(g: &mut Gen) -> i128 {
    use crate::civil::*;
    match g.rng.next() % 6 {
        0 => { let y = *g.rng.pick(&[-10_000i64, -9_999, -2022, -100, -99, -5, -1, 1, 5, 99, 100, 999, 1000, 2022, 9_999, 10_000, 123_456]);
               let m = g.rng.range(1, 12) as i64; days_from_ymd(y, m, g.rng.range(1, mlen(y, m) as i128) as i64) as i128 }
        1 => { let y = g.rng.range(2015, 2030) as i64; let (m, d) = *g.rng.pick(&[(12i64, 28i64), (12, 29), (12, 30), (12, 31), (1, 1), (1, 2), (1, 3), (1, 4)]); days_from_ymd(y, m, d) as i128 }
        2 => day_pool(g),
        _ => g.rng.range(700_000, 760_000),
    }
}

/// every symbol x width 1..=10 x values chosen for the value-dependent rows of the table
fn grid_c11(g: &mut Gen) {
    use crate::civil::*;
    let days: Vec<i128> = [(-10_000i64, 3, 7), (-9_999, 12, 31), (-150, 6, 15), (-100, 1, 1), (-99, 2, 28), (-50, 7, 4), (-10, 10, 10), (-9, 9, 9), (-1, 12, 31),
                           (1, 1, 1), (9, 5, 5), (10, 11, 30), (99, 4, 1), (100, 8, 31), (2020, 12, 31), (2021, 1, 3), (2024, 2, 29), (9_999, 12, 31), (10_000, 1, 1), (123_456, 6, 6)]
        .iter().map(|&(y, m, d)| days_from_ymd(y, m, d) as i128).collect();
    for c in DATE_SYMS.chars() { for w in 1..=10usize { for &d in &days {
        let items = vec![Item::Field(c, w)];
        let mut strs = vec![unparse(&items)]; let mut ints = vec![0i128, d]; let iv = items_ints(&items, &mut strs); ints.extend(iv);
        g.push(true, Input::with_strs("fmt", ints, strs));
    } } }
    let clocks: [i128; 9] = [0, 1, 43_199 * NPS + 999_999_999, 43_200 * NPS, 43_200 * NPS + 1, 3_600 * NPS, 13 * 3_600 * NPS + 5 * 60 * NPS + 9 * NPS + 123_456_789, 86_399 * NPS + 999_999_999, 12 * 3_600 * NPS + 60 * NPS];
    let offs: [i128; 7] = [0, 3_600, -3_600, 1_800, -1, 86_399, -45_296];
    for c in TIME_SYMS.chars() { for w in 1..=10usize { for (i, &n) in clocks.iter().enumerate() {
        let o = if c == 'X' || c == 'x' { offs[(i + w) % offs.len()] } else { offs[i % 3] };
        let items = vec![Item::Field(c, w)];
        let mut strs = vec![unparse(&items)]; let mut ints = vec![1i128, n, o]; let iv = items_ints(&items, &mut strs); ints.extend(iv);
        g.push(true, Input::with_strs("fmt", ints, strs));
    } } }
    // a run followed by a literal that aliases the run's letter in its low byte, and the same after a quoted part
    for (kind, syms) in [(0i128, DATE_SYMS), (1, TIME_SYMS)] { for c in syms.chars() { for base in [0x100u32, 0xFF00, 0x1F400] {
        let alias = char::from_u32(base + c as u32).unwrap();
        for items in [vec![Item::Field(c, 1), Item::Lit(alias, 1)], vec![Item::Field(c, 2), Item::Lit(alias, 2), Item::Field(c, 1)],
                      vec![Item::Lit(alias, 1), Item::Field(c, 2)], vec![Item::Field(c, 1), Item::Quoted("q".to_string()), Item::Field(c, 1)]] {
            let mut strs = vec![unparse(&items)];
            let mut ints = if kind == 0 { vec![0i128, days[14]] } else { vec![1i128, clocks[6], 3_600] };
            let iv = items_ints(&items, &mut strs); ints.extend(iv);
            g.push(true, Input::with_strs("fmt", ints, strs));
        }
    } } }
    for c in ['X', 'x'] { for w in 1..=6usize { for &o in &offs {
        let items = vec![Item::Field(c, w)];
        let mut strs = vec![unparse(&items)]; let mut ints = vec![2i128, 738_000, 43_200 * NPS, o]; let iv = items_ints(&items, &mut strs); ints.extend(iv);
        g.push(true, Input::with_strs("fmt", ints, strs));
    } } }
}

pub fn gen_c11(g: &mut Gen, tier: &str) {
    grid_c11(g);
    let n = if tier == "thorough" { 60_000 } else { 3_000 };
    for k in 0..n {
        let kind = (k % 3) as i128;
        let syms = match kind { 0 => DATE_SYMS.to_string(), 1 => TIME_SYMS.to_string(), _ => format!("{}{}", DATE_SYMS, TIME_SYMS) };
        let items = if k % 4 == 0 { vec![Item::Field(syms.chars().nth((g.rng.next() as usize) % syms.len()).unwrap(), 1 + (g.rng.next() as usize) % 10)] }
                    else { gen_items(g, &syms, 6, 10) };
        let pat = unparse(&items);
        let mut strs = vec![pat];
        let mut ints = vec![kind];
        ints.extend(value_pool(g, kind));
        let iv = items_ints(&items, &mut strs);
        ints.extend(iv);
        g.push(true, Input::with_strs("fmt", ints, strs));
    }
}

// ---------------------------------------------------------------- C12: unambiguous patterns
/// one value-carrying field per kind; numeric one-letter fields and y..yyyy are followed by a non-digit literal
fn gen_unamb(g: &mut Gen, kind: i128, year_abs_lt: i128) -> Vec<Item> {
    let mut fields: Vec<Item> = vec![];
    let date = kind != 1; let time = kind != 0;
    if date {
        // month, day of month and day of year in every combination (day of year takes precedence over month/day)
        let (has_mo, has_dom, has_doy) = match g.rng.next() % 16 {
            0..=5 => (true, true, false), 6 | 7 => (false, false, true), 8 | 9 => (true, false, true), 10 | 11 => (false, true, true),
            12 => (true, false, false), 13 => (false, true, false), 14 => (true, true, true), _ => (false, false, false) };
        if has_mo || has_dom || has_doy || g.rng.chance(1, 2) {
            // yyyyy and longer only when the year fits the width (|year| < 10^w)
            let mut w = *g.rng.pick(&[1usize, 3, 4, 4, 4, 6, 7, 9]);
            if w >= 5 && year_abs_lt >= 10i128.pow(w as u32) { w = 4; }
            fields.push(Item::Field('y', w));
        }
        if has_mo { fields.push(Item::Field('M', *g.rng.pick(&[1usize, 2, 2, 3, 4, 4]))); }
        if has_dom { fields.push(Item::Field('d', *g.rng.pick(&[1usize, 2, 2]))); }
        if has_doy { fields.push(Item::Field('D', *g.rng.pick(&[1usize, 2, 3, 3]))); }
        let full = fields.iter().any(|f| matches!(f, Item::Field('y', _))) && ((has_mo && has_dom) || has_doy);
        // fields that are not read back (era, weekday, quarter, week) only alongside a full date, which determines them
        if full {
            if g.rng.chance(1, 3) { fields.push(Item::Field('G', *g.rng.pick(&[1usize, 4, 5]))); }
            if g.rng.chance(1, 3) { fields.push(Item::Field('e', *g.rng.pick(&[1usize, 2, 3, 4, 6, 7, 8]))); }
            if g.rng.chance(1, 4) { fields.push(Item::Field('q', *g.rng.pick(&[1usize, 2, 3, 4]))); }
            if g.rng.chance(1, 4) { fields.push(Item::Field('w', *g.rng.pick(&[1usize, 2]))); }
        }
    }
    if time {
        // hour: 24-hour field, 12-hour field with marker, and the partial forms: marker alone, 12-hour field alone, nothing
        let mut has_hour = true;
        match g.rng.next() % 8 {
            0 | 1 => { fields.push(Item::Field('H', *g.rng.pick(&[1usize, 2, 2])));
                       // a 24-hour field next to a marker: the marker is redundant but legal (the hour field wins)
                       if g.rng.chance(1, 5) { fields.push(Item::Field('a', *g.rng.pick(&[1usize, 3, 4]))); } }
            2 => { fields.push(Item::Field('k', *g.rng.pick(&[1usize, 2])));
                   if g.rng.chance(1, 3) { fields.push(Item::Field('a', *g.rng.pick(&[1usize, 3, 4]))); } }
            3 => { fields.push(Item::Field('h', *g.rng.pick(&[1usize, 2]))); fields.push(Item::Field('a', *g.rng.pick(&[1usize, 3, 4]))); }
            4 => { fields.push(Item::Field('K', *g.rng.pick(&[1usize, 2]))); fields.push(Item::Field('a', *g.rng.pick(&[2usize, 3, 4]))); }
            5 => { has_hour = false; fields.push(Item::Field('a', *g.rng.pick(&[1usize, 3, 4, 5]))); }
            6 => { has_hour = false; fields.push(Item::Field(*g.rng.pick(&['h', 'K']), *g.rng.pick(&[1usize, 2]))); }
            _ => { has_hour = false; }
        }
        let (has_m, has_s) = (g.rng.chance(4, 5), g.rng.chance(3, 4));
        if has_m { fields.push(Item::Field('m', *g.rng.pick(&[1usize, 2, 2]))); }
        if has_s { fields.push(Item::Field('s', *g.rng.pick(&[1usize, 2, 2]))); }
        // noon / midnight depend on hour, minutes and seconds: only with all of them present
        if has_hour && has_m && has_s { for f in fields.iter_mut() { if let Item::Field('a', w) = f { if g.rng.chance(1, 2) { *f = Item::Field('b', *w); } } } }
        if g.rng.chance(1, 2) { fields.push(Item::Field('n', *g.rng.pick(&[1usize, 2, 3, 4, 5]))); }
        if g.rng.chance(2, 3) { fields.push(Item::Field(*g.rng.pick(&['X', 'x']), *g.rng.pick(&[1usize, 2, 3, 4, 5]))); }
    }
    // shuffle and interleave non-digit separators
    for i in (1..fields.len()).rev() { let j = (g.rng.next() as usize) % (i + 1); fields.swap(i, j); }
    let seps: Vec<char> = " /:.,T|_\u{e9}\u{20ac}\u{1f600}".chars().collect();   // incl. 2-, 3- and 4-byte literals
    let mut out = vec![];
    let mut last_sep = ' ';
    for (i, f) in fields.iter().enumerate() {
        // a field of fixed digit count may be followed by the next field with nothing in between (yyyyyMMdd, HHmmss, ddDDD ...):
        // the year of five or more letters, two-letter numeric fields, DDD and every fraction field
        let glued = i > 0 && g.rng.chance(1, 3) && match (&fields[i - 1], f) {
            (Item::Field(pc, pw), Item::Field(c, _)) => pc != c && match *pc {
                'y' => *pw >= 5, 'M' | 'd' | 'w' | 'H' | 'K' | 'h' | 'k' | 'm' | 's' => *pw == 2, 'D' => *pw == 3, 'n' => true, _ => false },
            _ => false };
        // a zone followed by a colon that no digit follows (quoted ": " or ":" + letter) is still unambiguous: +hh:mm[:ss] reads
        // seconds only when a digit follows the second colon
        let prev_zone = i > 0 && matches!(fields[i - 1], Item::Field('X', _) | Item::Field('x', _));
        if prev_zone && !glued && g.rng.chance(1, 3) {
            out.push(Item::Quoted(g.rng.pick(&[": ", ":", ":T", ": at "]).to_string()));
            if g.rng.chance(1, 2) { out.push(Item::Lit(' ', 1)); } else { out.push(Item::Lit('|', 1)); }
            last_sep = '|';
        } else
        if i > 0 && !glued {
            if g.rng.chance(1, 6) { out.push(Item::Quoted(g.rng.pick(&[" at ", " at ", "\u{5e74}", " \u{e0}s ", " \u{2013} ", "T\u{1f600}"]).to_string())); last_sep = '\''; }
            else { let mut c = *g.rng.pick(&seps); if c == last_sep { c = if c == '|' { '_' } else { '|' }; }
                   if c == ':' && matches!(fields[i - 1], Item::Field('X', _) | Item::Field('x', _)) { c = if last_sep == ',' { '|' } else { ',' }; }
                   // sometimes a literal sharing its low byte with the letter of the field before it
                   if let Item::Field(pc, _) = fields[i - 1] { if g.rng.chance(1, 8) { c = char::from_u32(*g.rng.pick(&[0x100u32, 0xFF00, 0x1F400]) + pc as u32).unwrap(); } }
                   out.push(Item::Lit(c, 1)); last_sep = c; }
        }
        out.push(f.clone());
    }
    // a literal at the very start or the very end of the pattern, white space included (parse must not trim its input)
    if !out.is_empty() {
        let edge: Vec<char> = " \t\n\u{a0}|.".chars().collect();
        if g.rng.chance(1, 6) { out.insert(0, Item::Lit(*g.rng.pick(&edge), 1)); }
        if g.rng.chance(1, 6) { let c = *g.rng.pick(&edge);
            let after_zone = matches!(out.last(), Some(Item::Field('X', _)) | Some(Item::Field('x', _)));
            if !(after_zone && c == ':') { out.push(Item::Lit(c, 1)); } }
        // a zone at the very end followed by a colon (no digit follows)
        if matches!(out.last(), Some(Item::Field('X', _)) | Some(Item::Field('x', _))) && g.rng.chance(1, 4) { out.push(Item::Quoted(":".to_string())); }
    }
    out
}
/// every symbol x width in a fixed full context (date fields after yyyy-MM-dd, time fields after HH:mm:ss), on chosen values
fn grid_c12(g: &mut Gen, now_year: i128) {
    use crate::civil::*;
    let days: Vec<i128> = [(-9_999i64, 12, 31), (-150, 6, 15), (-99, 2, 28), (-1, 12, 31), (1, 1, 1), (9, 9, 9), (99, 10, 1), (100, 11, 30),
                           (2020, 12, 31), (2021, 1, 3), (2024, 2, 29), (2024, 12, 1), (9_999, 12, 31)]
        .iter().map(|&(y, m, d)| days_from_ymd(y, m, d) as i128).collect();
    let lit = |c: char| Item::Lit(c, 1);
    let mut push = |g: &mut Gen, kind: i128, val: Vec<i128>, items: Vec<Item>| {
        let mut strs = vec![unparse(&items)]; let mut ints = vec![kind, now_year]; ints.extend(val);
        let iv = items_ints(&items, &mut strs); ints.extend(iv);
        g.push(true, Input::with_strs("roundtrip", ints, strs));
    };
    for &d in &days {
        for (c, ws) in [('G', vec![1usize, 3, 4, 5, 7]), ('q', vec![1, 2, 3, 4, 5, 6]), ('w', vec![1, 2, 3]), ('e', vec![1, 2, 3, 4, 6, 7, 8, 9]),
                        ('M', vec![1, 2, 3, 4, 7]), ('d', vec![1, 2, 3]), ('D', vec![1, 2, 3, 4])] {
            for w in ws {
                // the field under test after a full date; a one-letter numeric field is followed by a separator
                let items = match c {
                    'M' => vec![Item::Field('y', 4), lit('-'), Item::Field('M', w), lit('-'), Item::Field('d', 2)],
                    'd' => vec![Item::Field('y', 4), lit('-'), Item::Field('M', 2), lit('-'), Item::Field('d', w), lit('|')],
                    'D' => vec![Item::Field('y', 4), lit('-'), Item::Field('D', w), lit('|')],
                    _ => vec![Item::Field('y', 4), lit('-'), Item::Field('M', 2), lit('-'), Item::Field('d', 2), lit(' '), Item::Field(c, w), lit('|')],
                };
                push(g, 0, vec![d], items.clone());
                push(g, 2, vec![d, 45_296 * NPS + 123_456_789, 0], items);
            }
        }
        for w in [1usize, 3, 4] { push(g, 0, vec![d], vec![Item::Field('y', w), lit('-'), Item::Field('M', 2), lit('-'), Item::Field('d', 2)]); }
    }
    let clocks: [i128; 8] = [0, 999_999_999, 43_199 * NPS + 500_000_000, 43_200 * NPS, 43_200 * NPS + 1, 3_661 * NPS + 7, 13 * 3_600 * NPS + 5 * 60 * NPS + 9 * NPS + 123_456_789, 86_399 * NPS + 999_999_999];
    let offs: [i128; 6] = [0, 3_600, -3_600, 1_800, -45_240, 86_340];
    // partial time patterns: a marker without an hour field, a 12-hour field without a marker, minutes/seconds alone
    for &n in clocks.iter() {
        for w in [1usize, 3, 4, 5] { push(g, 1, vec![n, 0], vec![Item::Field('a', w), lit(' '), Item::Field('m', 2), lit(':'), Item::Field('s', 2)]); }
        push(g, 1, vec![n, 0], vec![Item::Field('a', 1)]);
        push(g, 1, vec![n, 3_600], vec![Item::Field('h', 2)]);
        push(g, 1, vec![n, -3_600], vec![Item::Field('K', 1), lit('|')]);
        push(g, 1, vec![n, 0], vec![Item::Field('m', 2), lit(':'), Item::Field('s', 2), lit('.'), Item::Field('n', 3)]);
        push(g, 2, vec![738_000, n, 0], vec![Item::Field('y', 4), lit('-'), Item::Field('M', 2), lit('-'), Item::Field('d', 2), lit(' '), Item::Field('a', 3)]);
    }
    for (i, &n) in clocks.iter().enumerate() {
        for (c, ws) in [('a', vec![1usize, 3, 4, 5, 6]), ('b', vec![1, 3, 4, 5, 6]), ('h', vec![1, 2, 3]), ('K', vec![1, 2, 3]), ('k', vec![1, 2, 3]), ('H', vec![1, 2, 3]),
                        ('m', vec![1, 2, 3]), ('s', vec![1, 2, 3]), ('n', vec![1, 2, 3, 4, 5, 6]), ('X', vec![1, 2, 3, 4, 5, 6]), ('x', vec![1, 2, 3, 4, 5, 6])] {
            for w in ws {
                let o = offs[(i + w) % offs.len()];
                let items = match c {
                    'H' | 'k' => vec![Item::Field(c, w), lit(':'), Item::Field('m', 2), lit(':'), Item::Field('s', 2)],
                    'm' => vec![Item::Field('H', 2), lit(':'), Item::Field('m', w), lit(':'), Item::Field('s', 2)],
                    's' => vec![Item::Field('H', 2), lit(':'), Item::Field('m', 2), lit(':'), Item::Field('s', w), lit('|')],
                    'h' | 'K' => vec![Item::Field(c, w), lit(':'), Item::Field('m', 2), lit(':'), Item::Field('s', 2), lit(' '), Item::Field('a', 1)],
                    _ => vec![Item::Field('H', 2), lit(':'), Item::Field('m', 2), lit(':'), Item::Field('s', 2), lit(' '), Item::Field(c, w), lit('|')],
                };
                push(g, 1, vec![n, o], items.clone());
                let mut full = vec![Item::Field('y', 4), lit('-'), Item::Field('M', 2), lit('-'), Item::Field('d', 2), lit('T')];
                full.extend(items);
                if c != 'X' && c != 'x' { full.push(Item::Field('x', 5)); }
                push(g, 2, vec![738_000, n, o], full);
            }
        }
    }
}

pub fn gen_c12(g: &mut Gen, tier: &str) {
    let n = if tier == "thorough" { 60_000 } else { 3_000 };
    let now_year = Date::now().year() as i128;
    grid_c12(g, now_year);
    for k in 0..n {
        let kind = (k % 3) as i128;
        let mut val = value_pool(g, kind);
        if kind == 1 || kind == 2 {
            // zone symbols carry whole seconds at most; keep the offset as generated (seconds) — the oracle knows the width
            let oi = val.len() - 1; if g.rng.chance(2, 3) { val[oi] = val[oi] / 60 * 60; }
        }
        let year_abs = match kind { 0 => mk_date(val[0]).map(|v| (v.year() as i128).abs()).unwrap_or(0),
                                    2 => { let ld = (val[0] * NPD + val[1] + val[2] * NPS).div_euclid(NPD); mk_date(ld).map(|v| (v.year() as i128).abs()).unwrap_or(0) }
                                    _ => 0 };
        let items = gen_unamb(g, kind, year_abs);
        let pat = unparse(&items);
        let mut strs = vec![pat];
        let mut ints = vec![kind, now_year];
        ints.extend(val);
        let iv = items_ints(&items, &mut strs);
        ints.extend(iv);
        g.push(true, Input::with_strs("roundtrip", ints, strs));
    }
}

// ---------------------------------------------------------------- C13
pub fn gen_c13(g: &mut Gen, tier: &str) {
    let n = if tier == "thorough" { 60_000 } else { 3_000 };
    use crate::civil::*;
    for _ in 0..n {
        // write side: years 1..=9999, whole-minute offsets
        let y = match g.rng.next() % 4 { 0 => *g.rng.pick(&[1i64, 2, 99, 100, 999, 1000, 1970, 2000, 2024, 9998, 9999]), _ => g.rng.range(1, 9999) as i64 };
        let m = g.rng.range(1, 12) as i64;
        let d = days_from_ymd(y, m, g.rng.range(1, mlen(y, m) as i128) as i64) as i128;
        let nn = nanos_pool(g);
        let o = match g.rng.next() % 4 { 0 => 0, 1 => *g.rng.pick(&[60i128, -60, 3600, -3600, 19_800, -34_200, 86_340, -86_340]), _ => g.rng.range(-1439, 1439) * 60 };
        // keep the local reading inside years 1..=9999 as well
        let l = d * NPD + nn + o * NPS;
        if l < 0 || l >= days_from_ymd(10_000, 1, 1) as i128 * NPD { continue; }
        { let __i = Input::new("rfc_fmt", vec![d, nn, o, *g.rng.pick(&[0i128, 2, 3, 6, 9])]); g.push(true, __i); }
    }
    let fixed = ["2022-05-02T15:30:20Z", "2022-05-02T15:30:20.1Z", "2022-05-02T15:30:20.123456789123Z", "2022-05-02T15:30:20.12345678901234567890123456789Z",
        "2022-05-02T15:30:20+23:59", "2022-05-02T15:30:20-23:59", "2022-05-02T15:30:20+24:00", "2022-05-02T15:30:20+00:60", "2022-02-30T00:00:00Z", "2022-13-01T00:00:00Z",
        "2022-00-10T00:00:00Z", "2022-01-00T00:00:00Z", "2022-01-32T00:00:00Z", "2022-01-01T24:00:00Z", "2022-01-01T00:60:00Z", "2022-01-01T00:00:60Z", "0000-01-01T00:00:00Z",
        "0001-01-01T00:00:00+23:59", "9999-12-31T23:59:59.999999999-23:59", "2024-02-29T12:00:00Z", "2023-02-29T12:00:00Z", "2022-05-02T15:30:20", "2022-05-02T15:30:20.Z",
        "2022-05-02T15:30:20.5", "2022-05-02t15:30:20z", "2022-05-02 15:30:20Z", "2022-05-02T15:30:20\u{e9}", "\u{e9}022-05-02T15:30:20Z", "2022-05-02T15:30:2\u{e9}Z", "2022-05-02T15:30:20.1\u{e9}Z",
        "2022-05-02T15:30:20+0\u{e9}00", "2022-05-02T15:30:20.+1Z", "", "2022"];
    for f in fixed { g.push(true, Input::with_strs("rfc_parse", vec![], vec![f.to_string()])); }
    for k in 0..n {
        // read side: strings from the ABNF, with optional single-field mutations
        let y = g.rng.range(1, 9999); let mo = g.rng.range(1, 12);
        let dd = g.rng.range(1, mlen(y as i64, mo as i64) as i128);
        let (mut h, mut mi, mut s) = (g.rng.range(0, 23), g.rng.range(0, 59), g.rng.range(0, 59));
        let (mut yy, mut mm, mut d2) = (y, mo, dd);
        let (mut oh, mut om) = (g.rng.range(0, 23), g.rng.range(0, 59));
        let neg_zone = g.rng.chance(1, 2); let is_z = g.rng.chance(1, 3);
        // one time in four the reading is placed so that the UTC time of day is on or next to a day boundary (carry / borrow of a day)
        if g.rng.chance(1, 4) {
            let utc_tod = *g.rng.pick(&[0i128, 0, 1, 86_399, 86_398, 43_200]);
            let off = if is_z { 0 } else { (oh * 3600 + om * 60) * if neg_zone { -1 } else { 1 } };
            let local = (utc_tod + off).rem_euclid(86_400);
            h = local / 3600; mi = local / 60 % 60; s = local % 60;
        }
        if k % 3 == 0 { match g.rng.next() % 9 { 0 => mm = *g.rng.pick(&[0i128, 13, 99]), 1 => d2 = *g.rng.pick(&[0i128, 30, 31, 32, 99]), 2 => h = *g.rng.pick(&[24i128, 99]), 3 => mi = *g.rng.pick(&[60i128, 99]),
                                                 4 => s = *g.rng.pick(&[60i128, 61, 99]), 5 => oh = *g.rng.pick(&[24i128, 99]), 6 => om = *g.rng.pick(&[60i128, 99]), 7 => yy = 0, _ => { mm = 2; d2 = 29; } } }
        let frac = match g.rng.next() % 4 { 0 => String::new(), _ => { let len = 1 + (g.rng.next() % 40) as usize; format!(".{}", (0..len).map(|_| char::from(b'0' + (g.rng.next() % 10) as u8)).collect::<String>()) } };
        let zone = if is_z { "Z".to_string() } else { format!("{}{:02}:{:02}", if neg_zone { '-' } else { '+' }, oh, om) };
        let st = format!("{:04}-{:02}-{:02}T{:02}:{:02}:{:02}{}{}", yy, mm, d2, h, mi, s, frac, zone);
        g.push(true, Input::with_strs("rfc_parse", vec![], vec![st]));
    }
}

// ---------------------------------------------------------------- C14: hostile (input, pattern) pairs
fn small_strings(alphabet: &[char], max_len: usize) -> Vec<String> {
    let mut all = vec![String::new()];
    let mut cur = vec![String::new()];
    for _ in 0..max_len {
        let mut next = vec![];
        for s in &cur { for c in alphabet { let mut t = s.clone(); t.push(*c); next.push(t); } }
        all.extend(next.iter().cloned());
        cur = next;
    }
    all
}
pub fn gen_c14(g: &mut Gen, tier: &str) {
    let now_year = Date::now().year() as i128;
    // incl. characters that are numeric for Unicode but no ASCII digits (Arabic-Indic 1, full-width 2, superscript 2)
    let alphabet: Vec<char> = "019+-:.ZTapm' \u{e9}\u{20ac}\u{1f600}\u{661}\u{ff12}\u{b2}".chars().collect();
    let inputs = small_strings(&alphabet, if tier == "thorough" { 3 } else { 2 });
    let all_syms: Vec<char> = format!("{}{}", DATE_SYMS, TIME_SYMS).chars().collect();
    let budget = if tier == "thorough" { 400_000 } else { 12_000 };
    // single symbol x width 1..=5 x small inputs (sampled to the budget, deterministic by the seed)
    let total = all_syms.len() * 5 * inputs.len() * 3;
    let stride = (total / budget).max(1);
    let mut idx = (g.rng.next() as usize) % stride;
    while idx < total {
        let kind = idx % 3; let rest = idx / 3;
        let inp = &inputs[rest % inputs.len()]; let rest = rest / inputs.len();
        // widths 1..=5, and one time in four an over-long run of 6..=10 letters
        let w = if g.rng.chance(1, 4) { 6 + rest % 5 } else { 1 + rest % 5 }; let sym = all_syms[(rest / 5) % all_syms.len()];
        let pat: String = std::iter::repeat(sym).take(w).collect();
        g.push(true, Input::with_strs("parse", vec![kind as i128, now_year], vec![inp.clone(), pat]));
        idx += stride;
    }
    // composite and mutated patterns, truncated / over-long inputs, unbalanced quotes
    let n = if tier == "thorough" { 60_000 } else { 3_000 };
    for k in 0..n {
        let kind = (k % 3) as i128;
        let items = gen_items(g, &format!("{}{}", DATE_SYMS, TIME_SYMS), 5, 5);
        let mut pat = unparse(&items);
        if g.rng.chance(1, 3) { let cs: Vec<char> = pat.chars().collect(); let p = (g.rng.next() as usize) % (cs.len() + 1);
            let mut v = cs.clone(); match g.rng.next() % 3 { 0 => { if p < v.len() { v.remove(p); } } 1 => v.insert(p.min(v.len()), *g.rng.pick(&['\'', 'y', 'D', '\u{e9}', '\u{0}'])), _ => { if p < v.len() { v[p] = '\''; } } } pat = v.into_iter().collect(); }
        // an input produced by formatting some value with the (unmutated) pattern, then damaged
        let val = value_pool(g, 2);
        let good = match mk_dt(val[0], val[1], val[2]) { Some(v) => std::panic::catch_unwind(|| v.format(&unparse(&items))).unwrap_or_default(), None => String::new() };
        let mut inp: Vec<char> = good.chars().collect();
        match g.rng.next() % 5 { 0 => { let c = (g.rng.next() as usize) % (inp.len() + 1); inp.truncate(c); }
                                 1 => { let p = (g.rng.next() as usize) % (inp.len() + 1); inp.insert(p, *g.rng.pick(&alphabet)); }
                                 2 => { if !inp.is_empty() { let p = (g.rng.next() as usize) % inp.len(); inp[p] = *g.rng.pick(&alphabet); } }
                                 3 => { inp.extend("99999999999".chars()); }
                                 _ => {} }
        g.push(true, Input::with_strs("parse", vec![kind, now_year], vec![inp.into_iter().collect(), pat.clone()]));
        // format with the hostile pattern
        let mut ints = vec![kind]; ints.extend(value_pool(g, kind)); ints.push(0);
        g.push(true, Input::with_strs("fmt", ints, vec![pat]));
    }
    // several fields (repeats allowed) each at the edge of its range: sums and carries in the assembly of the value
    let edge: [(&str, &[&str]); 16] = [("yyyy", &["9999", "0001"]), ("MM", &["12", "01"]), ("dd", &["31", "28", "01"]), ("DDD", &["366", "365", "001"]),
        ("HH", &["23", "00"]), ("hh", &["12", "11"]), ("KK", &["11", "00"]), ("kk", &["24", "23"]), ("a", &["PM", "AM"]), ("mm", &["59", "00"]), ("ss", &["59", "00"]),
        ("n", &["9", "0"]), ("nn", &["99", "00"]), ("nnn", &["999", "000"]), ("nnnn", &["999999", "000000"]), ("nnnnn", &["999999999", "000000000"])];
    for k in 0..n / 2 {
        let kind = 1 + (k % 2) as i128;
        let cnt = 2 + (g.rng.next() % 5) as usize;
        let mut pat = String::new(); let mut inp = String::new();
        if kind == 2 && g.rng.chance(1, 3) {
            // the first and the last representable day, and their neighbours
            pat.push_str("y-MM-dd "); inp.push_str(*g.rng.pick(&["5879611-07-12 ", "5879611-07-11 ", "5879611-07-13 ", "-5879611-06-23 ", "-5879611-06-24 ", "-5879611-06-22 "]));
        } else if kind == 2 || g.rng.chance(1, 4) { pat.push_str("yyyy-MM-dd "); inp.push_str(*g.rng.pick(&["2024-12-31 ", "9999-12-31 ", "0001-01-01 ", "2023-02-28 "])); }
        if g.rng.chance(3, 4) { pat.push_str("HH:mm:ss"); inp.push_str(if g.rng.chance(5, 6) { "23:59:59" } else { "00:00:00" }); }
        for _ in 0..cnt {
            let (f, vals) = *g.rng.pick(&edge);
            let v = if g.rng.chance(4, 5) { vals[0] } else { *g.rng.pick(vals) };
            pat.push(' '); pat.push_str(f); inp.push(' '); inp.push_str(v);
        }
        // a zone pushing the instant outward or inward
        if g.rng.chance(1, 2) { let (f, v) = *g.rng.pick(&[("xxx", "-01:00"), ("xxx", "+01:00"), ("xxxxx", "-23:59:59"), ("xxxxx", "+23:59:59"), ("xx", "-1200"), ("X", "Z"), ("xxx", "+00:00")]);
            pat.push(' '); pat.push_str(f); inp.push(' '); inp.push_str(v); }
        g.push(true, Input::with_strs("parse", vec![kind, now_year], vec![inp, pat]));
    }
    for f in crate::cron::SPELLINGS { g.push(true, Input::with_strs("fromstr", vec![3], vec![f.to_string()])); }
    // str::parse of the integer types: every string up to length 3 over + - 0 1 9 5 space e-acute, and digit strings around each type's limits
    {
        let small = small_strings(&"+-0195 \u{e9}".chars().collect::<Vec<_>>(), 3);
        let limits = ["255", "256", "0255", "+255", "-0", "-1", "00", "4294967295", "4294967296", "04294967295", "18446744073709551615", "18446744073709551616",
                      "2147483647", "2147483648", "-2147483648", "-2147483649", "+2147483647", "99999999999999999999999999", "-99999999999999999999999999",
                      "+", "-", "", "+-1", "--1", "1_0", "1e3", "0x10", " 1", "1 ", "\u{661}"];
        for t in 0..4i128 {
            for st in &small { g.push(true, Input::with_strs("std_parse", vec![t], vec![st.clone()])); }
            for st in limits { g.push(true, Input::with_strs("std_parse", vec![t], vec![st.to_string()])); }
        }
    }
    for p in ["'", "''", "'''", "yyyy'", "'abc", "y'", "\u{0}", "\u{0}\u{0}", "'\u{0}", "''''", "'a''", "y''y", "\u{e9}'\u{e9}", ""] {
        for kind in 0..3i128 {
            let mut ints = vec![kind]; ints.extend(value_pool(g, kind)); ints.push(0);
            g.push(true, Input::with_strs("fmt", ints, vec![p.to_string()]));
            for inp in ["", "2", "2022", "\u{e9}", "''"] { g.push(true, Input::with_strs("parse", vec![kind, now_year], vec![inp.to_string(), p.to_string()])); }
        }
    }
    // RFC 3339 / FromStr / cron with small and damaged strings
    for s in small_strings(&"0-:TZ.+\u{e9}".chars().collect::<Vec<_>>(), 2) {
        g.push(true, Input::with_strs("rfc_parse", vec![], vec![format!("2022-05-02T15:30:2{}", s)]));
        g.push(true, Input::with_strs("rfc_parse", vec![], vec![format!("{}2022-05-02T15:30:20Z", s)]));
        for kind in 0..4i128 { g.push(true, Input::with_strs("fromstr", vec![kind], vec![s.clone()])); }
    }
    for _ in 0..n / 3 {
        let base = "2022-05-02T15:30:20.123+05:30";
        let mut cs: Vec<char> = base.chars().collect();
        for _ in 0..(1 + g.rng.next() % 2) { let p = (g.rng.next() as usize) % cs.len(); match g.rng.next() % 3 { 0 => { cs.remove(p); } 1 => cs.insert(p, *g.rng.pick(&alphabet)), _ => cs[p] = *g.rng.pick(&alphabet) } if cs.is_empty() { break; } }
        let st: String = cs.into_iter().collect();
        g.push(true, Input::with_strs("rfc_parse", vec![], vec![st.clone()]));
        { let __i = Input::with_strs("fromstr", vec![(g.rng.next() % 4) as i128], vec![st]); g.push(true, __i); }
        let e = crate::cron::gen_expr(g);
        g.push(true, Input::with_strs("fromstr", vec![3], vec![e.clone()]));
        let mut ec: Vec<char> = e.chars().collect();
        if !ec.is_empty() { let p = (g.rng.next() as usize) % ec.len(); ec[p] = *g.rng.pick(&alphabet); }
        g.push(true, Input::with_strs("fromstr", vec![3], vec![ec.into_iter().collect()]));
    }
}

// ---------------------------------------------------------------- C08: Times obtained from text
/// Time::parse / Time::from_str on texts whose fields sit at the edges of their ranges (several sub-second fields,
/// 12/24-hour fields with markers, zones), so that sums and carries in the assembly of the value reach the end of the day.
pub fn gen_time_text(g: &mut Gen, n: usize) {
    let now_year = Date::now().year() as i128;
    let edge: [(&str, &[&str]); 13] = [("HH", &["23", "00", "24"]), ("hh", &["12", "11"]), ("KK", &["11", "00"]), ("kk", &["24", "23"]), ("a", &["PM", "AM"]),
        ("mm", &["59", "00", "60"]), ("ss", &["59", "00", "60"]),
        ("n", &["9", "0"]), ("nn", &["99", "00"]), ("nnn", &["999", "000"]), ("nnnn", &["999999", "000000"]), ("nnnnn", &["999999999", "000000000"]), ("nnn", &["500"])];
    for _ in 0..n {
        let cnt = 1 + (g.rng.next() % 5) as usize;
        let mut pat = String::new(); let mut inp = String::new();
        if g.rng.chance(3, 4) { pat.push_str("HH:mm:ss"); inp.push_str(*g.rng.pick(&["23:59:59", "23:59:59", "23:59:58", "23:59:56", "00:00:00", "12:00:00"])); }
        for _ in 0..cnt {
            let (f, vals) = *g.rng.pick(&edge);
            let v = if g.rng.chance(3, 4) { vals[0] } else { *g.rng.pick(vals) };
            pat.push(' '); pat.push_str(f); inp.push(' '); inp.push_str(v);
        }
        if g.rng.chance(1, 2) { let (f, v) = *g.rng.pick(&[("xxx", "-01:00"), ("xxx", "+01:00"), ("xxxxx", "-23:59:59"), ("xxxxx", "+23:59:59"), ("xx", "-1200"), ("X", "Z"), ("xxx", "+00:00"), ("xxxxx", "+00:00:01"), ("xxxxx", "-00:00:01")]);
            pat.push(' '); pat.push_str(f); inp.push(' '); inp.push_str(v); }
        g.push(true, Input::with_strs("parse", vec![1, now_year], vec![inp, pat]));
    }
    for s in ["00:00:00", "23:59:59", "24:00:00", "23:59:60", "23:60:00", "12:30:45", "1:2:3", "", "23:59:59.9", " 23:59:59", "99:99:99", "-1:00:00"] {
        g.push(true, Input::with_strs("fromstr", vec![1], vec![s.to_string()]));
    }
}

// ---------------------------------------------------------------- C20
pub fn gen_c20(g: &mut Gen, tier: &str) {
    let n = if tier == "thorough" { 40_000 } else { 2_500 };
    use crate::civil::*;
    for k in 0..n {
        let kind = (k % 3) as i128;
        let val = match kind {
            0 => vec![if k % 2 == 0 { pretty_day(g) } else { day_pool(g) }],
            1 => vec![nanos_pool(g), off_pool(g)],
            _ => { let y = g.rng.range(1, 9999) as i64; let m = g.rng.range(1, 12) as i64; let d = days_from_ymd(y, m, g.rng.range(1, mlen(y, m) as i128) as i64) as i128;
                   let o = g.rng.range(-1439, 1439) * 60; let nn = nanos_pool(g); let l = d * NPD + nn + o * NPS;
                   if l < 0 || l >= days_from_ymd(10_000, 1, 1) as i128 * NPD { vec![d, nn, 0] } else { vec![d, nn, o] } }
        };
        let mut ints = vec![kind]; ints.extend(val.iter());
        g.push(true, Input::new("display", ints.clone()));
        g.push(true, Input::new("serde_rt", ints.clone()));
    }
    if tier == "thorough" { for s in 0..86_400i128 { g.push(true, Input::new("serde_rt", vec![1, s * NPS, 0])); } }
    // the error side: well-formed texts of the three types with one or two characters deleted, inserted or replaced
    // (ASCII punctuation, digits, and 2-, 3-, 4-byte characters) - an error, never a panic
    {
        let alphabet: Vec<char> = "019+-:.ZTtz \u{e9}\u{20ac}\u{1f600}\u{663}".chars().collect();
        let bases: [(i128, &str); 6] = [(2, "2022-05-02T15:30:20.123+05:30"), (2, "2022-05-02T15:30:20Z"), (2, "0001-01-01T00:00:00.000000001-00:00"),
                                        (0, "2022-05-02"), (0, "-0044-03-15"), (1, "15:30:20")];
        for k in 0..(n / 2) {
            let (kind, base) = bases[k % bases.len()];
            let mut cs: Vec<char> = base.chars().collect();
            for _ in 0..(1 + g.rng.next() % 2) { if cs.is_empty() { break; } let p = (g.rng.next() as usize) % cs.len();
                match g.rng.next() % 3 { 0 => { cs.remove(p); } 1 => cs.insert(p, *g.rng.pick(&alphabet)), _ => cs[p] = *g.rng.pick(&alphabet) } }
            let st: String = cs.into_iter().collect();
            g.push(true, Input::with_strs("fromstr", vec![kind], vec![st.clone()]));
            g.push(true, Input::with_strs("serde_de", vec![kind], vec![st]));
        }
    }
    for s in ["2022-05-02", "-2022-05-02", "12345-01-01", "2022-5-2", "2022-02-30", "0000-01-01", "12:30:45", "24:00:00", "1:2:3", "2022-05-02T15:30:20Z", "2022-05-02T15:30:20+01:00",
              "", "x", "\u{e9}", "2022-05-02T15:30:2\u{e9}Z", "99999999999-01-01", "5879611-07-12", "5879611-07-13", "-5879611-06-23", "-5879611-06-22"] {
        for kind in 0..3i128 { g.push(true, Input::with_strs("fromstr", vec![kind], vec![s.to_string()])); g.push(true, Input::with_strs("serde_de", vec![kind], vec![s.to_string()])); }
    }
}
