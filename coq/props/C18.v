(* C18 — the timezone reader returns the UTC offset the TZif data defines per instant.
   Specification: TzSpec.spec_lookup (latest transition at or before t; after the last one the footer rule, with
   rule dates Jn / n / Mm.w.d defined from the calendar).
   PROVED here, for all inputs: the table scan is "type of the latest transition <= t" on sorted tables; the rule
   dates Jn (29 February never counted: J60 = 1 March in every year) and n computed by the code are those of the
   specification.
   NOT PROVED here (checked by the differential run against TzSpec on synthesized files and against CPython's
   zoneinfo on real files): the Mm.w.d date computed through weekdays_in_month, the composition of the four-way
   comparison with TzSpec.rule_offset, and the byte-level decoding.  Named *_partial for that reason. *)
From Astro Require Import Base Text CalSpec DateModel TimeModel ApiModel InstantSpec DateProofs TzModel TzSpec TzProofs.

Theorem C18_scan_partial : forall l t, sorted_trans l -> scan_rev (rev l) t = latest_type l t 0.
Proof. exact scan_is_latest. Qed.
Theorem C18_rule_date_J_partial : forall Y n, MIN_Y < Y < MAX_Y -> Y <> 0 -> 1 <= n <= 365 ->
  year_doy_to_days Y n true = Ok (rule_date Y (SJ n)).
Proof. exact rule_date_J. Qed.
Theorem C18_rule_date_N_partial : forall Y n, MIN_Y < Y < MAX_Y -> Y <> 0 -> 0 <= n <= 365 ->
  (let! j := unwrap_days (year_doy_to_days Y 1 false) in TzOk (j + n)) = TzOk (rule_date Y (SN n)).
Proof. exact rule_date_N. Qed.

Example C18_examples :
  rule_date 2024 (SJ 60) = rd (2024, 3, 1) /\ rule_date 2023 (SJ 60) = rd (2023, 3, 1) /\
  rule_date 2024 (SM 3 5 0) = rd (2024, 3, 31) /\ rule_date 2024 (SM 10 5 0) = rd (2024, 10, 27) /\
  rule_date 2024 (SM 11 1 0) = rd (2024, 11, 3).
Proof. repeat split; reflexivity. Qed.

Print Assumptions C18_scan_partial.
Print Assumptions C18_rule_date_J_partial.
Print Assumptions C18_rule_date_N_partial.
