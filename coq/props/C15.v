(* C15 — fallible constructors accept exactly the valid inputs and reject the rest with an OutOfRange
   error whose stated range contains all accepted values and excludes the rejected one; never a panic. *)
From Astro Require Import Base CalSpec DateModel TimeModel ApiModel InstantSpec DateProofs TimeProofs ClockProofs OffsetProofs ErrProofs.

(* from_ymd (Date and DateTime): Ok exactly on valid in-range dates (value: C01), Err OutOfRange otherwise *)
Theorem C15_from_ymd : forall y m d, 0 <= m -> 0 <= d -> (is_ok (date_to_days y m d) = true <-> date_ok y m d).
Proof. exact date_to_days_ok_iff. Qed.
Theorem C15_from_ymd_err : forall y m d, 0 <= m -> 0 <= d -> ~ date_ok y m d -> exists n a b v, date_to_days y m d = Err (EOor n a b v).
Proof. exact date_to_days_err. Qed.
(* the error names the offending parameter, its range excludes the value and contains every accepted value *)
Theorem C15_from_ymd_msg : forall y m d n a b v, 0 <= m -> 0 <= d ->
  date_to_days y m d = Err (EOor n a b v) -> n <> NYearZero ->
  ~ (a <= v <= b) /\
  ((n = NYear /\ v = y /\ forall y2, date_ok y2 m d -> a <= y2 <= b) \/
   (n = NMonth /\ v = m /\ forall m2, date_ok y m2 d -> a <= m2 <= b) \/
   (n = NDay /\ v = d /\ forall d2, date_ok y m d2 -> a <= d2 <= b)).
Proof. exact date_err_brackets. Qed.
Theorem C15_time_msg : forall h m s n a b v, 0 <= h -> 0 <= m -> 0 <= s ->
  time_to_day_seconds h m s = Err (EOor n a b v) ->
  ~ (a <= v <= b) /\ a = 0 /\
  ((n = NHour /\ v = h /\ b = 23) \/ (n = NMinute /\ v = m /\ b = 59) \/ (n = NSecond /\ v = s /\ b = 59)).
Proof. exact time_err_brackets. Qed.
Theorem C15_from_ymdhms : forall y mo d h mi s, 0 <= mo -> 0 <= d -> 0 <= h -> 0 <= mi -> 0 <= s ->
  (date_ok y mo d /\ h <= 23 /\ mi <= 59 /\ s <= 59 ->
     dt_from_ymdhms y mo d h mi s = Ok (mkDT (rd (y, mo, d)) ((h * 3600 + mi * 60 + s) * NANOS_PER_SEC) 0)) /\
  (~ (date_ok y mo d /\ h <= 23 /\ mi <= 59 /\ s <= 59) -> exists n a b v, dt_from_ymdhms y mo d h mi s = Err (EOor n a b v)).
Proof. exact from_ymdhms_exact. Qed.
(* Time constructors (also C08), Offset constructors (also C10), set_* (also C09) *)
Theorem C15_time_from_hms : forall h m s, 0 <= h -> 0 <= m -> 0 <= s ->
  (h <= 23 /\ m <= 59 /\ s <= 59 -> time_from_hms h m s = Ok (mkTM ((h * 3600 + m * 60 + s) * NANOS_PER_SEC) 0)) /\
  (~ (h <= 23 /\ m <= 59 /\ s <= 59) -> exists n a b v, time_from_hms h m s = Err (EOor n a b v)).
Proof. exact c08_from_hms. Qed.
Theorem C15_time_from_seconds : forall s, 0 <= s ->
  (s < SECS_PER_DAY -> time_from_seconds s = Ok (mkTM (s * NANOS_PER_SEC) 0)) /\
  (SECS_PER_DAY <= s -> time_from_seconds s = Err (EOor NSeconds 0 (SECS_PER_DAY - 1) s)).
Proof. exact c08_from_seconds. Qed.
Theorem C15_time_from_nanos : forall n, 0 <= n ->
  (n < D -> time_from_nanos n = Ok (mkTM n 0)) /\ (D <= n -> time_from_nanos n = Err (EOor NNanoseconds 0 (D - 1) n)).
Proof. exact c08_from_nanos. Qed.
Theorem C15_offset_from_seconds : forall s,
  (- SECS_PER_DAY < s < SECS_PER_DAY -> offset_from_seconds s = Ok s) /\
  (~ (- SECS_PER_DAY < s < SECS_PER_DAY) -> offset_from_seconds s = Err (EOor NSeconds (- SECS_PER_DAY + 1) (SECS_PER_DAY - 1) s)).
Proof. exact c10_offset_from_seconds. Qed.
Theorem C15_offset_from_hms : forall h m s, 0 <= m -> 0 <= s ->
  (-23 <= h <= 23 /\ m <= 59 /\ s <= 59 ->
     exists o, offset_from_hms h m s = Ok o /\ off_ok o /\ offset_resolve_hms o = (h, m, s) /\
               o = (if h <? 0 then -1 else 1) * (Z.abs h * 3600 + m * 60 + s)) /\
  (~ (-23 <= h <= 23 /\ m <= 59 /\ s <= 59) -> exists n a b v, offset_from_hms h m s = Err (EOor n a b v) /\ ~ (a <= v <= b) /\
     (v = h \/ v = m \/ v = s) /\ (v = h -> a = -23 /\ b = 23)).
Proof. exact c10_offset_from_hms. Qed.
(* set_* on a DateTime never panic: a local edit whose UTC result is not representable is an error *)
Theorem C15_dt_set_date_total : forall f v x, Inv_dt v -> inst_in_range (local_instant v) ->
  f (lday v) x <> Panic -> dt_set_date_with f v x <> Panic.
Proof. exact c15_dt_set_date_total. Qed.
Theorem C15_dt_set_time_total : forall f v x, Inv_dt v -> inst_in_range (local_instant v) ->
  f (lclock v) x <> Panic -> dt_set_time_with f v x <> Panic.
Proof. exact c15_dt_set_time_total. Qed.
Theorem C15_date_to_days_total : forall y m d, date_to_days y m d <> Panic.
Proof. exact date_to_days_no_panic. Qed.
Theorem C15_clock_setters_total : forall n x, 0 <= n < D -> 0 <= x ->
  set_hour n x <> Panic /\ set_minute n x <> Panic /\ set_second n x <> Panic /\
  set_milli n x <> Panic /\ set_micro n x <> Panic /\ set_nano n x <> Panic.
Proof. exact clock_setters_no_panic. Qed.

Print Assumptions C15_from_ymd.
Print Assumptions C15_from_ymd_err.
Print Assumptions C15_from_ymd_msg.
Print Assumptions C15_time_msg.
Print Assumptions C15_from_ymdhms.
Print Assumptions C15_time_from_hms.
Print Assumptions C15_time_from_seconds.
Print Assumptions C15_time_from_nanos.
Print Assumptions C15_offset_from_seconds.
Print Assumptions C15_offset_from_hms.
Print Assumptions C15_dt_set_date_total.
Print Assumptions C15_dt_set_time_total.
Print Assumptions C15_date_to_days_total.
Print Assumptions C15_clock_setters_total.
