# One-off generator: derives coq/theories/PartialTripG.v (the two sections of PartialTrip.v over an arbitrary assignment `ex` of
# expected fields to items) by textual substitution.  Its output is committed and compiled like any other file; this script is kept
# for provenance only and is not run by any check.
import re
src=open('/verif/coq/theories/PartialTrip.v').read()
# Section AssembleP
a=src.index("Section AssembleP.")
b=src.index("End AssembleP.")+len("End AssembleP.")
sec1=src[a:b]
sec1=sec1.replace("Section AssembleP.","Section AssemblePG.").replace("End AssembleP.","End AssemblePG.")
sec1=sec1.replace("  Variables (d n off : Z) (items : list pitem).","  Variables (d n off : Z) (items : list pitem) (ex : pitem -> option (punit * Z)).")
sec1=sec1.replace("  Hypothesis Ho : off_ok off.\n","")
sec1=sec1.replace("  Hypothesis Hok : Forall (fun it => item_ok it = true) items.","  Hypothesis Hcanon : forall it, In it items -> ex it = None \\/ exists u, ex it = Some (u, canon d n off u).")
sec1=sec1.replace("map (item_expected d n off) items","map ex items")
sec1=sec1.replace("Local Notation hs := (has d n off items).","Local Notation hs := (has_g items ex).")
sec1=sec1.replace("(slot_R d n off items Hok)","(slot_Rg d n off items ex Hcanon)")
for nm in ["partial_triple_valid","partial_triple","partial_day","assemble_date_p","partial_hour_bound","partial_hour","sub_part_bound","partial_clock_bound","partial_clock","assemble_time_p"]:
    sec1=re.sub(r'\b'+nm+r'\b', nm+'_g', sec1)
# Reformat
a=src.index("Section Reformat.")
b=src.index("End Reformat.")+len("End Reformat.")
sec2=src[a:b]
sec2=sec2.replace("Section Reformat.","Section ReformatG.").replace("End Reformat.","End ReformatG.")
sec2=sec2.replace("  Variables (d n off : Z) (items : list pitem) (sel : option punit).","  Variables (kind d n off : Z) (items : list pitem) (ex : pitem -> option (punit * Z)) (sel : option punit).")
sec2=sec2.replace("  Hypothesis Hok : Forall (fun it => item_ok it = true) items.","  Hypothesis Hok : Forall (fun it => item_ok it = true) items.\n  Hypothesis Hcanon : forall it, In it items -> ex it = None \\/ exists u, ex it = Some (u, canon d n off u).\n  Hypothesis Hex : forall c w, understands kind c = true -> ex (PField c w) = item_expected d n off (PField c w).")
sec2=sec2.replace("Local Notation hs := (has d n off items).","Local Notation hs := (has_g items ex).")
sec2=sec2.replace("partial_day d n off items","partial_day_g d items ex").replace("partial_clock d n off items sel","partial_clock_g n items ex sel").replace("partial_off d n off items","partial_off_g off items ex")
sec2=sec2.replace("partial_triple d n off items","partial_triple_g d items ex").replace("partial_hour d n off items","partial_hour_g n items ex")
sec2=sec2.replace("Definition full_date","Definition full_date_g").replace("Definition sym_in","Definition sym_in_g")
sec2=re.sub(r'\bfull_date\b','full_date_g',sec2); sec2=re.sub(r'\bsym_in\b','sym_in_g',sec2)
sec2=sec2.replace("full_date_g_g","full_date_g").replace("sym_in_g_g","sym_in_g")
sec2=sec2.replace("apply partial_triple_valid.","apply partial_triple_valid_g.")
for nm in ["full_same","part_triple","date_agree","clock_parts","time_agree","render_partial_same"]:
    sec2=re.sub(r'\b'+nm+r'\b', nm+'_g', sec2)
sec2=sec2.replace("Lemma date_agree_g c w : In (PField c w) items -> is_date_sym c = true -> agree c w F F'.\n  Proof.\n    intros Hin Hc.","Lemma date_agree_g c w : In (PField c w) items -> understands kind c = true -> is_date_sym c = true -> agree c w F F'.\n  Proof.\n    intros Hin Hu Hc.")
sec2=sec2.replace("Lemma time_agree_g c w : In (PField c w) items -> is_time_sym c = true -> agree c w F F'.\n  Proof.\n    intros Hin Hc.","Lemma time_agree_g c w : In (PField c w) items -> understands kind c = true -> is_time_sym c = true -> agree c w F F'.\n  Proof.\n    intros Hin Hu Hc.")
sec2=re.sub(r'apply \(has_of_field d n off items (\d+) w\); \[exact Hin \| expected_of\]', r'apply (has_of_field_g kind d n off items ex \1 w _ Hex); [exact Hin | exact Hu | expected_of]', sec2)
sec2=sec2.replace("pose proof (partial_hour_bound d n off items Hn) as BH.","pose proof (partial_hour_bound_g n items ex Hn) as BH.")
sec2=sec2.replace("pose proof (sub_part_bound d n off items sel Hsel Hsub) as BX.","pose proof (sub_part_bound_g n items ex sel Hsel Hsub) as BX.")
for nm in ["partial_day","partial_triple","partial_clock","partial_hour","partial_off"]:
    sec2=re.sub(r'\b'+nm+r'\b(?!_)', nm+'_g', sec2)
sec2=sec2.replace("pose proof (n_item_has d n off items w Hin) as Hh'.","pose proof (n_item_has_g kind d n off items ex w Hex Hin Hu) as Hh'.")
sec2=sec2.replace("""    apply render_agree; [exact Hok|]. intros c w Hin U. cbn [understands] in U. apply orb_true_iff in U as [U | U]; [apply date_agree_g | apply time_agree_g]; assumption.""","""    apply render_agree; [exact Hok|]. intros c w Hin U. destruct (understands_cases kind c U) as [X | X]; [apply date_agree_g | apply time_agree_g]; assumption.""")
hdr='''(* PartialTripG.v — C12, partial patterns for the Date and the Time type: PartialTrip.v again, over any assignment `ex` of
   expected fields to items (the three types differ in which symbols they understand), then the two theorems. *)
From Astro Require Import Base Text CalSpec DateModel TimeModel ApiModel InstantSpec FormatModel ParseModel PatternSpec ValueFields
  DateProofs WeekProofs WeekFinal TimeProofs ClockProofs OffsetProofs ErrProofs TextProofs PadProofs PatternProofs FieldProofs RoundTrip PartialTrip.

'''
mid='''
Definition partial_off_g (off : Z) (items : list pitem) (ex : pitem -> option (punit * Z)) : Z := if has_g items ex POffset then off else 0.

Lemma understands_cases kind c : understands kind c = true -> is_date_sym c = true \\/ is_time_sym c = true.
Proof. unfold understands. destruct kind as [|[p|p|]|p]; cbv beta iota; intros H; [left; exact H | apply orb_true_iff in H; tauto | apply orb_true_iff in H; tauto | right; exact H | apply orb_true_iff in H; tauto]. Qed.
Lemma has_of_field_g kind d n off items ex c w u : (forall c w, understands kind c = true -> ex (PField c w) = item_expected d n off (PField c w)) ->
  In (PField c w) items -> understands kind c = true -> (exists val, item_expected d n off (PField c w) = Some (u, val)) -> has_g items ex u = true.
Proof.
  intros Hex Hin Hu [val E]. unfold has_g. apply existsb_exists. exists (ex (PField c w)). split; [apply in_map; exact Hin|].
  rewrite (Hex c w Hu), E. cbn [sets_unit]. apply punit_eqb_eq. reflexivity.
Qed.
Lemma n_item_has_g kind d n off items ex w : (forall c w, understands kind c = true -> ex (PField c w) = item_expected d n off (PField c w)) ->
  In (PField 110 w) items -> understands kind 110 = true -> has_g items ex (n_unit w) = true.
Proof. intros Hex Hin Hu. apply (has_of_field_g kind d n off items ex 110 w _ Hex Hin Hu). expected_of. Qed.

'''
sec2=sec2.replace("Hypothesis Hderived : forall c, sym_in_g c -> c = 71","Hypothesis Hderived : forall c, sym_in_g c -> understands kind c = true -> c = 71")
sec2=sec2.replace("Hypothesis Hb : sym_in_g 98 -> (hs","Hypothesis Hb : sym_in_g 98 -> understands kind 98 = true -> (hs")
sec2=sec2.replace("[exists w; exact Hin | tauto]","[exists w; exact Hin | exact Hu | tauto]")
sec2=sec2.replace("destruct (Hb (ex_intro _ w Hin))","destruct (Hb (ex_intro _ w Hin) Hu)")
open('/verif/coq/theories/PartialTripG.v','w').write(hdr+sec1+"\n"+mid+sec2+"\n")
s=open('/verif/coq/theories/PartialTripG.v').read()
s=s.replace("Lemma render_partial_same_g : render 2 F' items = render 2 F items.","Lemma render_partial_same_g : render kind F' items = render kind F items.")
open('/verif/coq/theories/PartialTripG.v','w').write(s)
