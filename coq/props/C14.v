(* C14 — placeholder (extended below). *)
From Astro Require Import Base Text FormatModel.
Theorem C14_placeholder : parse_format_string [] = []. Proof. exact eq_refl. Qed.
Print Assumptions C14_placeholder.
