#!/usr/bin/env python3
"""Input lines for C18 from real zone files: timestamps aimed at transitions and at the footer rule's switch-overs,
with the offsets CPython's zoneinfo computes for them (an independent RFC 8536 / POSIX TZ evaluator).
Prints harness input encodings: tz_expect;n,ts...,exp...;x<hex of the latin-1-as-UTF-8 bytes>"""
import sys, os, struct, random, glob, io, datetime, zoneinfo

def transitions(b):
    # returns transition times of the 64-bit block (or the v1 block for version-1 files)
    def hdr(o):
        v = b[o + 4]
        isut, isstd, leap, tc, ty, ch = struct.unpack(">6I", b[o + 20:o + 44])
        return v, isut, isstd, leap, tc, ty, ch
    v, isut, isstd, leap, tc, ty, ch = hdr(0)
    o = 44
    if v == 0:
        return list(struct.unpack(">%di" % tc, b[o:o + 4 * tc]))
    o += tc * 4 + tc + ty * 6 + ch + leap * 8 + isstd + isut
    v, isut, isstd, leap, tc, ty, ch = hdr(o)
    o += 44
    return list(struct.unpack(">%dq" % tc, b[o:o + 8 * tc]))

def offset(z, t):
    return int(datetime.datetime.fromtimestamp(t, tz=z).utcoffset().total_seconds())

def switchovers(z, year, lo):
    """second-exact instants in `year` at which zoneinfo's offset changes"""
    out = []
    start = int(datetime.datetime(year, 1, 1, tzinfo=datetime.timezone.utc).timestamp())
    prev = offset(z, start)
    for d in range(1, 367):
        t = start + d * 86400
        cur = offset(z, t)
        if cur != prev:
            a, b_ = t - 86400, t
            while b_ - a > 1:
                m = (a + b_) // 2
                if offset(z, m) == prev: a = m
                else: b_ = m
            out.append(b_)
            prev = cur
    return [x for x in out if x >= lo]

def main():
    tier, seed = sys.argv[1], int(sys.argv[2])
    rnd = random.Random(seed)
    roots = [os.path.join(os.path.dirname(os.path.dirname(os.path.abspath(__file__))), "corpus", "tz")]
    files = []
    for r in roots:
        files += [p for p in glob.glob(r + "/**", recursive=True) if os.path.isfile(p)]
    sysfiles = sorted(p for p in glob.glob("/usr/share/zoneinfo/**", recursive=True)
                      if os.path.isfile(p) and "/right/" not in p and not p.endswith((".tab", ".zi", ".list", "leapseconds", "tzdata.zi")))
    if tier == "thorough":
        files += sysfiles
    else:
        rnd.shuffle(sysfiles)
        files += sysfiles[:45]
    seen = set()
    for p in sorted(set(files)):
        b = open(p, "rb").read()
        if b[:4] != b"TZif" or b in seen:
            continue
        seen.add(b)
        try:
            z = zoneinfo.ZoneInfo.from_file(io.BytesIO(b), key=p)
            tr = transitions(b)
        except Exception as e:
            continue
        ts = set()
        first = tr[0] if tr else -2**40
        for t in tr[-14:] + tr[:2]:
            ts.update([t - 1, t, t + 1])
        last = tr[-1] if tr else -2208988800
        lasty = datetime.datetime.fromtimestamp(max(last, -2208988800), tz=datetime.timezone.utc).year
        years = sorted(set([max(lasty, 1900) + 1, 2024, 2025, 2037, 2038] + [rnd.randint(max(lasty + 1, 1900), 2499) for _ in range(3)]))
        for y in years:
            if y <= lasty or y > 2499: continue
            for s in switchovers(z, y, first):
                ts.update([s - 1, s, s + 1])
        for _ in range(8):
            ts.add(rnd.randint(max(first, -2208988800), 16725225599))
        lo = max(first, -62135596800 + 86400)
        ts = sorted(t for t in ts if t >= lo and t < 16725225600)[:70]
        if not ts: continue
        exp = [offset(z, t) for t in ts]
        # bytes -> one char per byte -> UTF-8 -> hex (the harness's string encoding)
        enc = "".join(chr(x) for x in b).encode("utf-8").hex()
        print("tz_expect;%s;x%s" % (",".join(str(x) for x in [len(ts)] + ts + exp), enc))

if __name__ == "__main__":
    main()
