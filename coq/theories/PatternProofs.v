(* PatternProofs.v — C11: the formatter renders every symbol as the documented table (PatternSpec) says. *)
From Astro Require Import Base Text CalSpec DateModel TimeModel ApiModel InstantSpec FormatModel ParseModel PatternSpec
  DateProofs WeekProofs WeekFinal TimeProofs ClockProofs PadProofs.

(* ---------- the spec's padding functions are the model's ---------- *)
Lemma dec_digits_rev fuel : forall n acc, PatternSpec.dec_digits fuel n acc = rev (digits_rev fuel n) ++ acc.
Proof.
  induction fuel as [|k IH]; intros n acc; cbn [PatternSpec.dec_digits digits_rev]; [reflexivity|].
  destruct (n <? 10); [reflexivity|]. rewrite IH. cbn [rev]. rewrite <- app_assoc. reflexivity.
Qed.
Lemma dec_u_to_string n : PatternSpec.dec n = u_to_string n.
Proof. unfold PatternSpec.dec, u_to_string. rewrite dec_digits_rev, app_nil_r. reflexivity. Qed.
Lemma repeat48_zeros k : repeat_c 48 k = zeros k.
Proof. induction k as [|k IH]; cbn [repeat_c zeros]; [reflexivity|]. rewrite IH. reflexivity. Qed.
Lemma pad_zero_padded n w : pad n w = zero_padded n w.
Proof. unfold pad, zero_padded. cbv zeta. rewrite dec_u_to_string, repeat48_zeros. reflexivity. Qed.
Lemma pad_signed_zero_padded_i n w : pad_signed n w = zero_padded_i n w.
Proof. unfold pad_signed, zero_padded_i. rewrite pad_zero_padded. reflexivity. Qed.

(* ---------- runs ---------- *)
Lemma repeat_c_length c k : length (repeat_c c k) = k.
Proof. induction k as [|k IH]; cbn [repeat_c length]; [reflexivity|]. rewrite IH. reflexivity. Qed.
Lemma first_char_repeat c k : (1 <= k)%nat -> first_char (repeat_c c k) = c.
Proof. destruct k; [lia|]. reflexivity. Qed.

(* split on the run length: small numerals or "large" (every explicit pattern of the code is at most 8) *)
Ltac wcases w Hw :=
  destruct w as [|?p|?p]; [exfalso; lia | | exfalso; lia];
  do 4 (try match goal with q : positive |- _ => destruct q end);
  cbn [Z.ltb Z.compare Pos.compare Pos.compare_cont Z.eqb Pos.eqb]; cbv iota beta.

Lemma nth_name_of tbl i : 0 <= i < Z.of_nat (length tbl) -> nth_name tbl i = Ok (name_of tbl i).
Proof.
  intros H. unfold nth_name, name_of. destruct (nth_error tbl (Z.to_nat i)) eqn:E.
  - destruct (Z.leb_spec 0 i); [|lia]. f_equal. symmetry. apply nth_error_nth. exact E.
  - apply nth_error_None in E. lia.
Qed.

(* ---------- date symbols ---------- *)
Definition date_fields_agree (F : vfields) (d : Z) : Prop :=
  let '(y, m, dd) := days_to_date d in
  vf_bc F = (d <? 0) /\ vf_year F = y /\ vf_month F = m /\ vf_day F = dd /\ vf_doy F = 1 + d - rd (y, 1, 1) /\
  vf_wd F = (d + 1) mod 7 /\ vf_week F = iso_week_exec d.

Lemma month_names m : 1 <= m <= 12 ->
  nth_name MONTH_ABBREVIATED (m - 1) = Ok (name_of T_MONTH_ABBR (m - 1)) /\
  nth_name MONTH_WIDE (m - 1) = Ok (name_of T_MONTH_WIDE (m - 1)) /\
  nth_name MONTH_NARROW (m - 1) = Ok (first_n 1 (name_of T_MONTH_WIDE (m - 1))).
Proof. intros H. month_split m H; repeat split; reflexivity. Qed.
Lemma wday_names x : 0 <= x <= 6 ->
  nth_name WDAY_ABBREVIATED x = Ok (name_of T_WDAY_ABBR x) /\ nth_name WDAY_WIDE x = Ok (name_of T_WDAY_WIDE x) /\
  nth_name WDAY_NARROW x = Ok (first_n 1 (name_of T_WDAY_WIDE x)) /\ nth_name WDAY_SHORT x = Ok (first_n 2 (name_of T_WDAY_WIDE x)).
Proof.
  intros H. assert (C : x = 0 \/ x = 1 \/ x = 2 \/ x = 3 \/ x = 4 \/ x = 5 \/ x = 6) by lia.
  destruct C as [-> | [-> | [-> | [-> | [-> | [-> | ->]]]]]]; repeat split; reflexivity.
Qed.

Lemma fdp_run c w d : 1 <= w ->
  format_date_part (repeat_c c (Z.to_nat w)) d =
  (let chars := repeat_c c (Z.to_nat w) in let len := w in
   if c =? 71 then
    Ok (match len with
        | 1 | 2 | 3 => if d <? 0 then str [66;67] else str [65;68]
        | 5 => if d <? 0 then str [66] else str [65]
        | _ => if d <? 0 then str [66;101;102;111;114;101;32;67;104;114;105;115;116] else str [65;110;110;111;32;68;111;109;105;110;105]
        end)
  else if c =? 121 then
    let '(year, _, _) := days_to_date d in
    match len with
    | 2 => Ok ((if year <? 0 then [45] else []) ++ zero_padded (Z.abs year mod 100) 2)
    | _ => Ok (zero_padded_i year len)
    end
  else if c =? 113 then
    let '(_, month, _) := days_to_date d in
    let quarter := (month - 1) / 3 + 1 in
    Ok (match len with
        | 1 | 2 => zero_padded quarter len
        | 3 => 81 :: u_to_string quarter
        | 4 => add_ordinal_indicator quarter ++ str [32;113;117;97;114;116;101;114]
        | _ => zero_padded quarter 1
        end)
  else if c =? 77 then format_month len d
  else if c =? 119 then Ok (zero_padded (days_to_wyear d) (get_length len 2 2))
  else if c =? 100 then (let '(_, _, dd) := days_to_date d in Ok (zero_padded dd (get_length len 2 2)))
  else if c =? 68 then (let? doy := days_to_doy d in Ok (zero_padded doy (get_length len 1 3)))
  else if c =? 101 then format_wday len d
  else Ok chars).
Proof.
  intros Hw. unfold format_date_part. cbv zeta. rewrite first_char_repeat by lia. rewrite repeat_c_length, Z2Nat.id by lia. reflexivity.
Qed.

Lemma render_G F d w : date_fields_agree F d -> 1 <= w -> format_date_part (repeat_c 71 (Z.to_nat w)) d = Ok (render_field F 71 w).
Proof.
  intros A Hw. rewrite fdp_run by exact Hw. cbv zeta. cbn [Z.eqb Pos.eqb]. unfold render_field. cbv zeta.
  unfold date_fields_agree in A. destruct (days_to_date d) as [[y m] dd]. destruct A as (-> & _).
  wcases w Hw; reflexivity.
Qed.
