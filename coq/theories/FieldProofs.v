(* FieldProofs.v — reading back what the formatter wrote, field by field (C12, C20): the consume-from-the-front
   primitives on a text that starts with a known field. *)
From Astro Require Import Base Text CalSpec DateModel TimeModel ApiModel InstantSpec FormatModel ParseModel PatternSpec
  DateProofs WeekProofs TimeProofs ClockProofs OffsetProofs ErrProofs TextProofs PadProofs.

(* ---------- the value of what zero_padded / u_to_string write ---------- *)
Lemma zeros_digits k : all_digits (zeros k) = true.
Proof. induction k as [|k IH]; cbn [zeros all_digits forallb]; [reflexivity|]. fold (all_digits (zeros k)). rewrite IH. reflexivity. Qed.
Lemma dva_zeros k : forall acc, digits_val_aux (zeros k) acc = acc * 10 ^ Z.of_nat k.
Proof.
  induction k as [|k IH]; intros acc; cbn [zeros digits_val_aux]; [cbn; lia|]. rewrite IH, Nat2Z.inj_succ, Z.pow_succ_r by lia. lia.
Qed.
Lemma digits_val_zeros k s : digits_val (zeros k ++ s) = digits_val s.
Proof. unfold digits_val. rewrite digits_val_aux_app, dva_zeros. reflexivity. Qed.

Lemma u_to_string_spec n : 0 <= n < 10 ^ 40 ->
  all_digits (u_to_string n) = true /\ digits_val (u_to_string n) = n /\ u_to_string n <> [].
Proof.
  intros H. pose proof (digits_rev_dec 40 40 n ltac:(lia) ltac:(lia) H) as E. fold (u_to_string n) in E.
  pose proof (dec_digits 40 n) as Ad. rewrite <- E, all_digits_app in Ad. apply andb_true_iff in Ad as [_ Ad].
  split; [exact Ad|]. split.
  - rewrite <- (digits_val_zeros (40 - length (digits_rev 40 n)) (u_to_string n)), E. apply dec_val. exact H.
  - unfold u_to_string. cbn [digits_rev]. destruct (n <? 10); [discriminate|]. cbn [rev]. intros X. apply app_eq_nil in X as [_ X]. discriminate.
Qed.
Lemma zero_padded_spec n w : 0 <= n < 10 ^ 40 ->
  all_digits (zero_padded n w) = true /\ digits_val (zero_padded n w) = n /\ zero_padded n w <> [].
Proof.
  intros H. destruct (u_to_string_spec n H) as (A & B & C). unfold zero_padded. cbv zeta.
  rewrite all_digits_app, zeros_digits, A, digits_val_zeros, B. repeat split. intros X. apply app_eq_nil in X as [_ X]. contradiction.
Qed.

(* ---------- consume-from-the-front primitives on a ++ rest ---------- *)
Lemma char_count_app a b : char_count (a ++ b) = char_count a + char_count b.
Proof. unfold char_count. rewrite app_length. lia. Qed.
Lemma pick_text_app a rest : pick_text (char_count a) (a ++ rest) = Ok (a, rest).
Proof.
  unfold pick_text. rewrite char_count_app. destruct (Z.ltb_spec (char_count a + char_count rest) (char_count a)); [unfold char_count in *; lia|].
  unfold char_count. rewrite Nat2Z.id, firstn_app, skipn_app, Nat.sub_diag, firstn_all, skipn_all. cbn [firstn skipn]. rewrite app_nil_r. reflexivity.
Qed.
Lemma remove_part_app a rest : remove_part (char_count a) (a ++ rest) = Ok rest.
Proof.
  unfold remove_part. rewrite char_count_app. destruct (Z.ltb_spec (char_count a + char_count rest) (char_count a)); [unfold char_count in *; lia|].
  unfold char_count. rewrite Nat2Z.id, skipn_app, Nat.sub_diag, skipn_all. reflexivity.
Qed.
Lemma pick_u32_app a rest : all_digits a = true -> a <> [] -> digits_val a <= U32_MAX ->
  pick_u32 (char_count a) (a ++ rest) = Ok (digits_val a, rest).
Proof.
  intros Ad Hne Hb. unfold pick_u32. rewrite pick_text_app. cbn [bind].
  assert (E : parse_unsigned U32_MAX a = Some (digits_val a)).
  { unfold parse_unsigned. destruct a as [|c tl]; [congruence|]. pose proof Ad as Ad'. cbn [all_digits forallb] in Ad'. apply andb_true_iff in Ad' as [Hc _].
    unfold is_ascii_digit in Hc. apply andb_true_iff in Hc as [Hc1 Hc2]. apply Z.leb_le in Hc1, Hc2. destruct (Z.eqb_spec c 43); [lia|].
    unfold all_digits in *. rewrite Ad. cbv zeta. destruct (Z.leb_spec (digits_val (c :: tl)) U32_MAX); [reflexivity | lia]. }
  rewrite E. reflexivity.
Qed.
Lemma nth_is_digit_app a rest i : (i < length a)%nat -> nth_is_digit (a ++ rest) i = nth_is_digit a i.
Proof. intros H. unfold nth_is_digit, nth_char. rewrite nth_error_app1 by exact H. reflexivity. Qed.
Lemma nth_is_digit_skip a rest i : nth_is_digit (a ++ rest) (length a + i) = nth_is_digit rest i.
Proof. unfold nth_is_digit, nth_char. rewrite nth_error_app2 by lia. replace (length a + i - length a)%nat with i by lia. reflexivity. Qed.

(* two-digit fields *)
Lemma pick2 x rest : 0 <= x < 100 -> pick_u32 2 (zero_padded x 2 ++ rest) = Ok (x, rest).
Proof.
  intros H. rewrite (zero_padded_2 x H). change 2 with (char_count [48 + x / 10; 48 + x mod 10]).
  rewrite pick_u32_app.
  - f_equal. f_equal. unfold digits_val. cbn [digits_val_aux]. lia.
  - cbn [all_digits forallb]. unfold is_ascii_digit.
    destruct (Z.leb_spec 48 (48 + x / 10)); [|lia]. destruct (Z.leb_spec (48 + x / 10) 57); [|lia].
    destruct (Z.leb_spec 48 (48 + x mod 10)); [|lia]. destruct (Z.leb_spec (48 + x mod 10) 57); [reflexivity|lia].
  - discriminate.
  - unfold digits_val, U32_MAX. cbn [digits_val_aux]. lia.
Qed.

(* ---------- the year field "yyyy" (also y, yyy): sign, then a run of digits ---------- *)
Lemma take_digits_cons c l : take_digits (c :: l) = if is_ascii_digit c then (let '(a, b) := take_digits l in (c :: a, b)) else ([], c :: l).
Proof. reflexivity. Qed.
Lemma take_digits_app ds : forall rest, all_digits ds = true -> nth_is_digit rest 0 = false -> take_digits (ds ++ rest) = (ds, rest).
Proof.
  induction ds as [|c ds IH]; intros rest Ad Hr.
  - cbn [app]. destruct rest as [|r rt]; [reflexivity|]. rewrite take_digits_cons. unfold nth_is_digit, nth_char in Hr. cbn [nth_error] in Hr. rewrite Hr. reflexivity.
  - cbn [app]. rewrite take_digits_cons. cbn [all_digits forallb] in Ad. apply andb_true_iff in Ad as [Hc Ad]. rewrite Hc, (IH rest Ad Hr). reflexivity.
Qed.
Lemma pdp_y4 now s : parse_date_part now [121;121;121;121] s =
  (let start := if starts_with [45] s then 1%nat else 0%nat in
   let ndig := length (fst (take_digits (skipn start s))) in
   let? '(v, rest) := pick_i32 (Z.of_nat (start + ndig)) s in some_part PYear v rest).
Proof. reflexivity. Qed.

Lemma year4_parse now y rest : I32_MIN <= y <= I32_MAX -> nth_is_digit rest 0 = false ->
  parse_date_part now [121;121;121;121] (zero_padded_i y 4 ++ rest) = Ok (Some (PYear, y), rest).
Proof.
  intros Hy Hr. rewrite pdp_y4. unfold zero_padded_i.
  assert (P40 : 2147483648 < 10 ^ 40) by (apply Z.ltb_lt; vm_compute; reflexivity).
  assert (Hb : 0 <= Z.abs y < 10 ^ 40) by (unfold I32_MIN, I32_MAX in Hy; generalize dependent (10 ^ 40); intros; lia).
  destruct (zero_padded_spec (Z.abs y) 4 Hb) as (Ad & Ev & Hne). set (zp := zero_padded (Z.abs y) 4) in *.
  destruct zp as [|c tl] eqn:Ez; [congruence|]. rewrite <- Ez in *.
  assert (Hc : 48 <= c <= 57).
  { rewrite Ez in Ad. cbn [all_digits forallb] in Ad. apply andb_true_iff in Ad as [Hc _]. unfold is_ascii_digit in Hc. apply andb_true_iff in Hc as [A B]. apply Z.leb_le in A, B. lia. }
  destruct (Z.ltb_spec y 0) as [Hneg|Hpos].
  - cbn [app]. assert (S1 : starts_with [45] (45 :: zp ++ rest) = true) by reflexivity. rewrite S1. cbv zeta. cbn [skipn].
    rewrite (take_digits_app zp rest Ad Hr). cbn [fst]. unfold pick_i32.
    replace (Z.of_nat (1 + length zp)) with (char_count (45 :: zp)) by (unfold char_count; cbn [length]; lia).
    change (45 :: zp ++ rest) with ((45 :: zp) ++ rest). rewrite pick_text_app. cbn [bind].
    unfold parse_signed. cbn [Z.eqb Pos.eqb]. rewrite Ez at 1. rewrite Ad. cbv zeta. rewrite Ev.
    destruct (Z.leb_spec I32_MIN (- Z.abs y)); [|lia]. cbn [bind]. unfold some_part. repeat f_equal. lia.
  - cbn [app]. assert (S0 : starts_with [45] (zp ++ rest) = false).
    { rewrite Ez. unfold starts_with. cbn [length app firstn text_eqb]. destruct (Z.eqb_spec 45 c); [lia | reflexivity]. }
    rewrite S0. cbv zeta. cbn [skipn]. rewrite (take_digits_app zp rest Ad Hr). cbn [fst Nat.add]. unfold pick_i32.
    change (Z.of_nat (length zp)) with (char_count zp). rewrite pick_text_app. cbn [bind].
    unfold parse_signed, parse_unsigned. rewrite Ez. destruct (Z.eqb_spec c 45); [lia|]. destruct (Z.eqb_spec c 43); [lia|]. rewrite <- Ez.
    unfold all_digits in *. rewrite Ad. cbv zeta. fold (digits_val zp). rewrite Ev.
    destruct (Z.leb_spec (Z.abs y) I32_MAX); [|lia]. cbn [bind]. unfold some_part. repeat f_equal. lia.
Qed.

(* ---------- stepping the parse loop ---------- *)
Lemma parse_loop_field pp part tl s d x u v s' : is_literal_part part = false -> pp part s = Ok (Some (u, v), s') ->
  parse_loop pp (part :: tl) s d x = if is_date_unit u then parse_loop pp tl s' (set_date d u v) x else parse_loop pp tl s' d (set_time x u v).
Proof. intros Hl E. cbn [parse_loop]. rewrite Hl, E. reflexivity. Qed.
Lemma parse_loop_skip pp part tl s d x s' : is_literal_part part = false -> pp part s = Ok (None, s') ->
  parse_loop pp (part :: tl) s d x = parse_loop pp tl s' d x.
Proof. intros Hl E. cbn [parse_loop]. rewrite Hl, E. reflexivity. Qed.

(* a single ASCII character that is no symbol: one character of the input is skipped (whatever it is) *)
Lemma remove1 c rest : remove_part 1 (c :: rest) = Ok rest.
Proof. change 1 with (char_count [c]). change (c :: rest) with ([c] ++ rest). apply remove_part_app. Qed.
Lemma pdp_other now c0 c rest : is_date_symbol c0 = false -> (c0 <? 128) = true -> parse_date_part now [c0] (c :: rest) = Ok (None, rest).
Proof.
  intros H _. unfold is_date_symbol in H. rewrite !orb_false_iff in H. destruct H as (((((((H1 & H2) & H3) & H4) & H5) & H6) & H7) & H8).
  unfold parse_date_part. cbn [first_char length]. rewrite H1, H2, H3, H4, H5, H6, H7, H8.
  change (char_count [c0]) with 1. rewrite remove1. reflexivity.
Qed.
Lemma ptp_other c0 c rest : is_time_symbol c0 = false -> (c0 <? 128) = true -> parse_time_part [c0] (c :: rest) = Ok (None, rest).
Proof.
  intros H _. unfold is_time_symbol in H. rewrite !orb_false_iff in H.
  destruct H as ((((((((((H1 & H2) & H3) & H4) & H5) & H6) & H7) & H8) & H9) & H10) & H11).
  unfold parse_time_part. cbn [first_char length]. rewrite H1, H2, H3, H4, H5, H6, H7, H8, H9, H10, H11.
  change (char_count [c0]) with 1. rewrite remove1. reflexivity.
Qed.

(* ---------- Date: yyyy-MM-dd written and read back (Display uses '/', serde and FromStr '-') ---------- *)
Lemma wrap_i32_id z : in_i32 z -> wrap_i32 z = z.
Proof. unfold in_i32, wrap_i32, I32_MIN, I32_MAX. intros. lia. Qed.
Lemma wrap_u32_id z : 0 <= z <= U32_MAX -> wrap_u32 z = z.
Proof. unfold wrap_u32, U32_MAX. intros. lia. Qed.

Definition date_text (sep : Z) (d : Z) : text :=
  let '(y, mo, dd) := days_to_date d in zero_padded_i y 4 ++ [sep] ++ zero_padded mo 2 ++ [sep] ++ zero_padded dd 2 ++ [].
Lemma date_format_sep sep d : is_date_symbol sep = false -> sep <> NUL -> sep <> APOS ->
  parse_format_string ([121;121;121;121] ++ [sep] ++ [77;77] ++ [sep] ++ [100;100]) = [[121;121;121;121]; [sep]; [77;77]; [sep]; [100;100]] ->
  date_format d ([121;121;121;121] ++ [sep] ++ [77;77] ++ [sep] ++ [100;100]) = Ok (date_text sep d).
Proof.
  intros Hs Hn Ha Hp. unfold date_format, date_text. rewrite Hp. cbn [map]. unfold render_part. cbn [first_char].
  apply Z.eqb_neq in Hn, Ha. rewrite Hn, Ha. cbn [Z.eqb Pos.eqb].
  unfold format_date_part, format_month. cbn [first_char length]. unfold is_date_symbol in Hs. rewrite !orb_false_iff in Hs.
  destruct Hs as (((((((H1 & H2) & H3) & H4) & H5) & H6) & H7) & H8). rewrite H1, H2, H3, H4, H5, H6, H7, H8.
  destruct (days_to_date d) as [[y mo] dd]. reflexivity.
Qed.

Theorem date_text_parse now sep sep' d : in_i32 d -> is_ascii_digit sep = false ->
  is_date_symbol sep' = false -> (sep' <? 128) = true -> sep' <> NUL -> sep' <> APOS ->
  parse_format_string ([121;121;121;121] ++ [sep'] ++ [77;77] ++ [sep'] ++ [100;100]) = [[121;121;121;121]; [sep']; [77;77]; [sep']; [100;100]] ->
  date_parse now (date_text sep d) ([121;121;121;121] ++ [sep'] ++ [77;77] ++ [sep'] ++ [100;100]) = Ok d.
Proof.
  intros Hd Hsep Hs Ha Hn Hq Hp. unfold date_parse, date_text. rewrite Hp.
  pose proof (c01_roundtrip d Hd) as RT. destruct (c01_valid d Hd) as [V R].
  destruct (days_to_date d) as [[y mo] dd]. destruct V as (Hy0 & Hmo & Hdd). apply in_range_facts in R. destruct R as (Ry & _).
  assert (Hdd31 : dd <= 31) by (unfold mlen in Hdd; repeat match type of Hdd with context [if ?b then _ else _] => destruct b end; lia).
  assert (Hyi : I32_MIN <= y <= I32_MAX) by (unfold MIN_Y, MAX_Y, I32_MIN, I32_MAX in *; lia).
  assert (Lit : is_literal_part [sep'] = false).
  { unfold is_literal_part. cbn [first_char]. apply Z.eqb_neq in Hn, Hq. rewrite Hn, Hq. reflexivity. }
  (* yyyy *)
  rewrite (parse_loop_field _ _ _ _ _ _ PYear y ([sep] ++ zero_padded mo 2 ++ [sep] ++ zero_padded dd 2 ++ [])); [|reflexivity|].
  2:{ apply year4_parse; [exact Hyi|]. unfold nth_is_digit, nth_char. cbn [app nth_error]. exact Hsep. }
  cbn [is_date_unit app].
  (* separator *)
  rewrite (parse_loop_skip _ _ _ _ _ _ (zero_padded mo 2 ++ sep :: zero_padded dd 2 ++ [])); [|exact Lit | apply pdp_other; assumption].
  (* MM *)
  rewrite (parse_loop_field _ _ _ _ _ _ PMonth mo (sep :: zero_padded dd 2 ++ [])); [|reflexivity|].
  2:{ change (parse_date_part now [77; 77] ?s) with (parse_month 2 s). unfold parse_month. rewrite pick2 by lia. reflexivity. }
  cbn [is_date_unit].
  rewrite (parse_loop_skip _ _ _ _ _ _ (zero_padded dd 2 ++ [])); [|exact Lit | apply pdp_other; assumption].
  (* dd *)
  rewrite (parse_loop_field _ _ _ _ _ _ PDayOfMonth dd []); [|reflexivity|].
  2:{ change (parse_date_part now [100; 100] ?s) with (let? '(v, rest) := pick_u32 2 s in some_part PDayOfMonth v rest). rewrite pick2 by lia. reflexivity. }
  cbn [is_date_unit parse_loop bind]. unfold date_days_of, set_date, PD0. cbn [pd_doy pd_year pd_month pd_dom oz].
  rewrite (wrap_i32_id y) by exact Hyi. rewrite !wrap_u32_id by (unfold U32_MAX; lia). exact RT.
Qed.

(* ---------- Time: HH:mm:ss written and read back ---------- *)
Definition clock_text (n : Z) : text :=
  let '(h, mi, s) := nanos_to_time n in zero_padded h 2 ++ [58] ++ zero_padded mi 2 ++ [58] ++ zero_padded s 2 ++ [].
Lemma pfs_time : parse_format_string P_TIME = [[72;72]; [58]; [109;109]; [58]; [115;115]].
Proof. vm_compute. reflexivity. Qed.
Lemma time_format_hms t : time_format t P_TIME = Ok (clock_text (add_offset_to_nanos (tm_nanos t) (tm_off t))).
Proof.
  unfold time_format, clock_text. cbv zeta. rewrite pfs_time. cbn [map]. unfold render_part, format_time_part. cbn [first_char length].
  destruct (nanos_to_time _) as [[h mi] s]. reflexivity.
Qed.
Lemma wrap_u64_id z : 0 <= z <= U64_MAX -> wrap_u64 z = z.
Proof. unfold wrap_u64, U64_MAX. intros. lia. Qed.

Theorem clock_text_parse n : 0 <= n < NANOS_PER_DAY ->
  time_parse (clock_text n) P_TIME = Ok (mkTM (n / NANOS_PER_SEC * NANOS_PER_SEC) 0).
Proof.
  intros Hn. unfold time_parse, clock_text. rewrite pfs_time, (nanos_to_time_spec n Hn).
  set (h := n / NANOS_PER_HOUR). set (mi := (n / NANOS_PER_MINUTE) mod 60). set (s := (n / NANOS_PER_SEC) mod 60).
  assert (Hh : 0 <= h <= 23) by (subst h; revert Hn; unfold_consts; intros; lia).
  assert (Hmi : 0 <= mi <= 59) by (subst mi; lia). assert (Hs : 0 <= s <= 59) by (subst s; lia).
  assert (Hsum : (h * 3600 + mi * 60 + s) * NANOS_PER_SEC = n / NANOS_PER_SEC * NANOS_PER_SEC) by (subst h mi s; revert Hn; unfold_consts; intros; lia).
  clearbody h mi s.
  assert (Lit : is_literal_part [58] = false) by reflexivity.
  rewrite (parse_loop_field _ _ _ _ _ _ PHour h ([58] ++ zero_padded mi 2 ++ [58] ++ zero_padded s 2 ++ [])); [|reflexivity|].
  2:{ change (parse_time_part [72; 72] ?x) with (let? '(v, rest) := pick_u32 2 x in some_part PHour v rest). rewrite pick2 by lia. reflexivity. }
  cbn [is_date_unit app].
  rewrite (parse_loop_skip _ _ _ _ _ _ (zero_padded mi 2 ++ 58 :: zero_padded s 2 ++ [])); [|exact Lit | apply ptp_other; reflexivity].
  rewrite (parse_loop_field _ _ _ _ _ _ PMinute mi (58 :: zero_padded s 2 ++ [])); [|reflexivity|].
  2:{ change (parse_time_part [109; 109] ?x) with (let? '(v, rest) := pick_u32 2 x in some_part PMinute v rest). rewrite pick2 by lia. reflexivity. }
  cbn [is_date_unit].
  rewrite (parse_loop_skip _ _ _ _ _ _ (zero_padded s 2 ++ [])); [|exact Lit | apply ptp_other; reflexivity].
  rewrite (parse_loop_field _ _ _ _ _ _ PSecond s []); [|reflexivity|].
  2:{ change (parse_time_part [115; 115] ?x) with (let? '(v, rest) := pick_u32 2 x in some_part PSecond v rest). rewrite pick2 by lia. reflexivity. }
  cbn [is_date_unit parse_loop bind]. unfold set_time, PT0, time_nanos.
  cbn [pt_hour pt_phour pt_period pt_minute pt_second pt_decis pt_centis pt_millis pt_micros pt_nanos pt_offset oz].
  rewrite !wrap_u64_id by (unfold U64_MAX; lia).
  replace (h * 3600 * NANOS_PER_SEC + mi * 60 * NANOS_PER_SEC + s * NANOS_PER_SEC + 0 * 100000000 + 0 * 10000000 + 0 * 1000000 + 0 * 1000 + 0)
    with (n / NANOS_PER_SEC * NANOS_PER_SEC) by lia.
  unfold time_from_nanos. destruct (Z.leb_spec NANOS_PER_DAY (n / NANOS_PER_SEC * NANOS_PER_SEC)); [revert Hn H; unfold_consts; intros; lia|]. reflexivity.
Qed.

(* ---------- Display and Serialize texts ---------- *)
Lemma pfs_date_iso : parse_format_string ([121;121;121;121] ++ [45] ++ [77;77] ++ [45] ++ [100;100]) = [[121;121;121;121]; [45]; [77;77]; [45]; [100;100]].
Proof. vm_compute. reflexivity. Qed.
Lemma pfs_date_display : parse_format_string ([121;121;121;121] ++ [47] ++ [77;77] ++ [47] ++ [100;100]) = [[121;121;121;121]; [47]; [77;77]; [47]; [100;100]].
Proof. vm_compute. reflexivity. Qed.
Theorem date_display_text d : date_display d = Ok (date_text 47 d).
Proof. apply (date_format_sep 47 d); try reflexivity; discriminate. Qed.
Theorem date_serialize_text d : date_serialize d = Ok (date_text 45 d).
Proof. apply (date_format_sep 45 d); try reflexivity; discriminate. Qed.
Theorem date_serde_roundtrip now d : in_i32 d -> exists s, date_serialize d = Ok s /\ date_from_str now s = Ok d.
Proof.
  intros Hd. exists (date_text 45 d). split; [apply date_serialize_text|].
  apply (date_text_parse now 45 45 d Hd); try reflexivity; discriminate.
Qed.
Theorem time_display_text t : time_display t = Ok (clock_text (add_offset_to_nanos (tm_nanos t) (tm_off t))).
Proof. apply time_format_hms. Qed.
Theorem time_serde_roundtrip t : exists s, time_serialize t = Ok s /\
  time_from_str s = Ok (mkTM (add_offset_to_nanos (tm_nanos t) (tm_off t) / NANOS_PER_SEC * NANOS_PER_SEC) 0).
Proof.
  eexists. split; [apply time_format_hms|]. apply clock_text_parse. apply add_offset_in_day.
Qed.

Lemma pfs_dt_display : parse_format_string P_DT_DISPLAY = [[121;121;121;121]; [47]; [77;77]; [47]; [100;100]; [32]; [72;72]; [58]; [109;109]; [58]; [115;115]].
Proof. vm_compute. reflexivity. Qed.
Theorem dt_display_text v : Valid_dt v ->
  dt_display v = Ok ((date_text 47 (local_instant v / D) ++ [32] ++ clock_text (local_instant v mod D)) ++ []).
Proof.
  intros [I L]. unfold dt_display, dt_format. cbv zeta. unfold add_offset_to_dn. rewrite (days_nanos_to_nanos_spec (dt_days v) (dt_nanos v)).
  destruct (split_ok _ L) as [E _]. unfold local_instant, instant in E. rewrite E. cbn [unwrap bind]. rewrite pfs_dt_display. cbn [map].
  unfold date_text, clock_text, render_part, format_part, format_date_part, format_time_part, format_month. cbn [first_char length].
  destruct (days_to_date _) as [[y mo] d]. destruct (nanos_to_time _) as [[h mi] s]. cbn [concat_res bind]. rewrite <- !app_assoc. reflexivity.
Qed.

(* ================= C12: reading back each field the formatter wrote ================= *)
(* ---------- numbers written without padding: one digit below 10, two below 100, three below 1000 ---------- *)
Lemma u_to_string_1 n : 0 <= n < 10 -> u_to_string n = [48 + n].
Proof. intros H. unfold u_to_string. cbn [digits_rev]. destruct (Z.ltb_spec n 10); [reflexivity | lia]. Qed.
Lemma u_to_string_2 n : 10 <= n < 100 -> u_to_string n = [48 + n / 10; 48 + n mod 10].
Proof.
  intros H. unfold u_to_string. cbn [digits_rev]. destruct (Z.ltb_spec n 10); [lia|]. destruct (Z.ltb_spec (n / 10) 10); [reflexivity | lia].
Qed.
Lemma u_to_string_3 n : 100 <= n < 1000 -> u_to_string n = [48 + n / 10 / 10; 48 + (n / 10) mod 10; 48 + n mod 10].
Proof.
  intros H. unfold u_to_string. cbn [digits_rev]. destruct (Z.ltb_spec n 10); [lia|]. destruct (Z.ltb_spec (n / 10) 10); [lia|].
  destruct (Z.ltb_spec (n / 10 / 10) 10); [reflexivity | lia].
Qed.
Lemma zero_padded_1 n : 0 <= n < 1000 -> zero_padded n 1 = u_to_string n.
Proof.
  intros H. unfold zero_padded. cbv zeta. assert (C : n < 10 \/ 10 <= n < 100 \/ 100 <= n) by lia.
  destruct C as [C | [C | C]]; [rewrite u_to_string_1 | rewrite u_to_string_2 | rewrite u_to_string_3]; try lia; reflexivity.
Qed.
Lemma dig_ok x : 0 <= x <= 9 -> is_ascii_digit (48 + x) = true.
Proof. intros H. unfold is_ascii_digit. destruct (Z.leb_spec 48 (48 + x)); [|lia]. destruct (Z.leb_spec (48 + x) 57); [reflexivity | lia]. Qed.

(* "look ahead one character": a one-letter numeric field followed by something that is not a digit *)
Lemma pick_1or2_var x rest : 0 <= x < 100 -> nth_is_digit rest 0 = false ->
  (if nth_is_digit (zero_padded x 1 ++ rest) 1 then pick_u32 2 (zero_padded x 1 ++ rest) else pick_u32 1 (zero_padded x 1 ++ rest)) = Ok (x, rest).
Proof.
  intros Hx Hr. rewrite zero_padded_1 by lia. destruct (Z.ltb_spec x 10).
  - rewrite u_to_string_1 by lia. change (nth_is_digit ([48 + x] ++ rest) 1) with (nth_is_digit rest 0). rewrite Hr.
    change 1 with (char_count [48 + x]). rewrite pick_u32_app; [f_equal; f_equal; unfold digits_val; cbn [digits_val_aux]; lia | | discriminate |].
    + cbn [all_digits forallb]. rewrite dig_ok by lia. reflexivity.
    + unfold digits_val, U32_MAX. cbn [digits_val_aux]. lia.
  - rewrite u_to_string_2 by lia. assert (D1 : nth_is_digit ([48 + x / 10; 48 + x mod 10] ++ rest) 1 = true).
    { unfold nth_is_digit, nth_char. cbn [app nth_error]. apply dig_ok. lia. }
    rewrite D1. change 2 with (char_count [48 + x / 10; 48 + x mod 10]).
    rewrite pick_u32_app; [f_equal; f_equal; unfold digits_val; cbn [digits_val_aux]; lia | | discriminate |].
    + cbn [all_digits forallb]. rewrite !dig_ok by lia. reflexivity.
    + unfold digits_val, U32_MAX. cbn [digits_val_aux]. lia.
Qed.
Lemma pick_1or2_spec len x rest : (len = 1 \/ len = 2) -> 0 <= x < 100 -> (len = 1 -> nth_is_digit rest 0 = false) ->
  pick_1or2 len (zero_padded x len ++ rest) = Ok (x, rest).
Proof.
  intros [-> | ->] Hx Hr; unfold pick_1or2; cbn [Z.eqb Pos.eqb].
  - apply pick_1or2_var; [exact Hx | apply Hr; reflexivity].
  - apply pick2. exact Hx.
Qed.

(* ---------- time fields: parse_time_part reads back what format_time_part wrote ---------- *)
Definition run (c : Z) (w : Z) : text := repeat_c c (Z.to_nat w).
Lemma run_first c w : 1 <= w -> first_char (run c w) = c.
Proof. intros H. unfold run. destruct (Z.to_nat w) eqn:E; [lia | reflexivity]. Qed.
Lemma run_len c w : 0 <= w -> Z.of_nat (length (run c w)) = w.
Proof. intros H. unfold run. induction (Z.to_nat w) as [|k IH] eqn:E in w, H |- *; cbn [repeat_c length]; [lia|].
  specialize (IH (w - 1) ltac:(lia) ltac:(lia)). lia. Qed.

Lemma ptp_unfold c w s : 1 <= w ->
  parse_time_part (run c w) s =
  (let len := w in
  if c =? 97 then
    match len with
    | 4 => let? '(p, rest) := pick_text 4 s in
           if text_eqb p (t [97;46;109;46]) then some_part PPeriod 0 rest else if text_eqb p (t [112;46;109;46]) then some_part PPeriod 1 rest else fmt_err
    | 5 => let? '(p, rest) := pick_text 1 s in
           if text_eqb p (t [97]) then some_part PPeriod 0 rest else if text_eqb p (t [112]) then some_part PPeriod 1 rest else fmt_err
    | _ => let? '(p, rest) := pick_text 2 s in
           if text_eqb p (t [97;109]) || text_eqb p (t [65;77]) then some_part PPeriod 0 rest
           else if text_eqb p (t [112;109]) || text_eqb p (t [80;77]) then some_part PPeriod 1 rest else fmt_err
    end
  else if c =? 98 then
    let tbl := match len with
               | 4 => [(t [97;46;109;46], 0); (t [109;105;100;110;105;103;104;116], 0); (t [112;46;109;46], 1); (t [110;111;111;110], 1)]
               | 5 => [(t [97], 0); (t [109;105], 0); (t [112], 1); (t [110], 1)]
               | _ => [(t [97;109], 0); (t [65;77], 0); (t [109;105;100;110;105;103;104;116], 0); (t [112;109], 1); (t [80;77], 1); (t [110;111;111;110], 1)]
               end in
    match period_value tbl s with
    | Some (v, e) => let? rest := must (remove_part (byte_len e) s) in some_part PPeriod v rest
    | None => fmt_err end
  else if c =? 104 then
    (if (len =? 1) && negb (nth_is_digit s 1) then (let? '(v, rest) := pick_u32 1 s in some_part PPeriodHour v rest)
     else (let? '(v, rest) := pick_u32 2 s in some_part PPeriodHour (if v =? 12 then 0 else v) rest))
  else if c =? 72 then (let? '(v, rest) := pick_1or2 len s in some_part PHour v rest)
  else if c =? 75 then (let? '(v, rest) := pick_1or2 len s in some_part PPeriodHour v rest)
  else if c =? 107 then
    (if (len =? 1) && negb (nth_is_digit s 1) then (let? '(v, rest) := pick_u32 1 s in some_part PHour v rest)
     else (let? '(v, rest) := pick_u32 2 s in some_part PHour (if v =? 24 then 0 else v) rest))
  else if c =? 109 then (let? '(v, rest) := pick_1or2 len s in some_part PMinute v rest)
  else if c =? 115 then (let? '(v, rest) := pick_1or2 len s in some_part PSecond v rest)
  else if c =? 110 then
    match len with
    | 1 => let? '(v, rest) := pick_u32 1 s in some_part PDecis v rest
    | 2 => let? '(v, rest) := pick_u32 2 s in some_part PCentis v rest
    | 4 => let? '(v, rest) := pick_u32 6 s in some_part PMicros v rest
    | 5 => let? '(v, rest) := pick_u32 9 s in some_part PNanos v rest
    | _ => let? '(v, rest) := pick_u32 3 s in some_part PMillis v rest
    end
  else if c =? 88 then parse_zone len s true
  else if c =? 120 then parse_zone len s false
  else (let? rest := remove_part (char_count (run c w)) s in no_part rest)).
Proof. intros H. unfold parse_time_part. cbv zeta. rewrite run_first by exact H. rewrite run_len by lia. reflexivity. Qed.

(* H, K, m, s : widths 1 (next character not a digit) and 2 *)
Lemma simple_field_back c w u x rest : (c = 72 /\ u = PHour) \/ (c = 75 /\ u = PPeriodHour) \/ (c = 109 /\ u = PMinute) \/ (c = 115 /\ u = PSecond) ->
  (w = 1 \/ w = 2) -> 0 <= x < 100 -> (w = 1 -> nth_is_digit rest 0 = false) ->
  parse_time_part (run c w) (zero_padded x w ++ rest) = Ok (Some (u, x), rest).
Proof.
  intros Hc Hw Hx Hr. rewrite ptp_unfold by lia. cbv zeta.
  destruct Hc as [[-> ->] | [[-> ->] | [[-> ->] | [-> ->]]]]; cbn [Z.eqb Pos.eqb]; rewrite (pick_1or2_spec w x rest Hw Hx Hr); reflexivity.
Qed.

Lemma zp1_small x rest : 0 <= x < 10 -> nth_is_digit rest 0 = false ->
  nth_is_digit (zero_padded x 1 ++ rest) 1 = false /\ pick_u32 1 (zero_padded x 1 ++ rest) = Ok (x, rest).
Proof.
  intros Hx Hr. rewrite zero_padded_1, u_to_string_1 by lia. split; [exact Hr|].
  change 1 with (char_count [48 + x]). rewrite pick_u32_app; [f_equal; f_equal; unfold digits_val; cbn [digits_val_aux]; lia | | discriminate |].
  - cbn [all_digits forallb]. rewrite dig_ok by lia. reflexivity.
  - unfold digits_val, U32_MAX. cbn [digits_val_aux]. lia.
Qed.
Lemma zp1_big x rest : 10 <= x < 100 ->
  nth_is_digit (zero_padded x 1 ++ rest) 1 = true /\ pick_u32 2 (zero_padded x 1 ++ rest) = Ok (x, rest).
Proof.
  intros Hx. rewrite zero_padded_1, u_to_string_2 by lia. split.
  - unfold nth_is_digit, nth_char. cbn [app nth_error]. apply dig_ok. lia.
  - change 2 with (char_count [48 + x / 10; 48 + x mod 10]).
    rewrite pick_u32_app; [f_equal; f_equal; unfold digits_val; cbn [digits_val_aux]; lia | | discriminate |].
    + cbn [all_digits forallb]. rewrite !dig_ok by lia. reflexivity.
    + unfold digits_val, U32_MAX. cbn [digits_val_aux]. lia.
Qed.

(* h: 12-hour clock 1..12 written, 0..11 read; k: 1..24 written, 0..23 read *)
Lemma h_back w h12 rest : (w = 1 \/ w = 2) -> 0 <= h12 < 12 -> (w = 1 -> nth_is_digit rest 0 = false) ->
  parse_time_part (run 104 w) (zero_padded (if h12 =? 0 then 12 else h12) w ++ rest) = Ok (Some (PPeriodHour, h12), rest).
Proof.
  intros Hw Hh Hr. rewrite ptp_unfold by lia. cbv zeta. cbn [Z.eqb Pos.eqb]. set (hh := if h12 =? 0 then 12 else h12).
  assert (Hhh : 1 <= hh <= 12 /\ (if hh =? 12 then 0 else hh) = h12).
  { subst hh. destruct (Z.eqb_spec h12 0); [subst; split; [lia | reflexivity]|]. destruct (Z.eqb_spec h12 12); lia. }
  destruct Hhh as [Hb Hm]. destruct Hw as [-> | ->]; cbn [Z.eqb Pos.eqb andb].
  - destruct (Z.ltb_spec hh 10).
    + destruct (zp1_small hh rest ltac:(lia) (Hr eq_refl)) as [A B]. rewrite A. cbn [negb]. rewrite B. cbn [bind]. unfold some_part. repeat f_equal.
      destruct (Z.eqb_spec hh 12); lia.
    + destruct (zp1_big hh rest ltac:(lia)) as [A B]. rewrite A. cbn [negb]. rewrite B. cbn [bind]. unfold some_part. rewrite Hm. reflexivity.
  - rewrite pick2 by lia. cbn [bind]. unfold some_part. rewrite Hm. reflexivity.
Qed.
Lemma k_back w h rest : (w = 1 \/ w = 2) -> 0 <= h < 24 -> (w = 1 -> nth_is_digit rest 0 = false) ->
  parse_time_part (run 107 w) (zero_padded (if h =? 0 then 24 else h) w ++ rest) = Ok (Some (PHour, h), rest).
Proof.
  intros Hw Hh Hr. rewrite ptp_unfold by lia. cbv zeta. cbn [Z.eqb Pos.eqb]. set (hh := if h =? 0 then 24 else h).
  assert (Hhh : 1 <= hh <= 24 /\ (if hh =? 24 then 0 else hh) = h).
  { subst hh. destruct (Z.eqb_spec h 0); [subst; split; [lia | reflexivity]|]. destruct (Z.eqb_spec h 24); lia. }
  destruct Hhh as [Hb Hm]. destruct Hw as [-> | ->]; cbn [Z.eqb Pos.eqb andb].
  - destruct (Z.ltb_spec hh 10).
    + destruct (zp1_small hh rest ltac:(lia) (Hr eq_refl)) as [A B]. rewrite A. cbn [negb]. rewrite B. cbn [bind]. unfold some_part. repeat f_equal.
      destruct (Z.eqb_spec hh 24); lia.
    + destruct (zp1_big hh rest ltac:(lia)) as [A B]. rewrite A. cbn [negb]. rewrite B. cbn [bind]. unfold some_part. rewrite Hm. reflexivity.
  - rewrite pick2 by lia. cbn [bind]. unfold some_part. rewrite Hm. reflexivity.
Qed.

(* n: fixed numbers of fraction digits *)
Lemma pickk k x rest : (1 <= k <= 9)%nat -> 0 <= x < 10 ^ Z.of_nat k -> pick_u32 (Z.of_nat k) (zero_padded x (Z.of_nat k) ++ rest) = Ok (x, rest).
Proof.
  intros Hk Hx. rewrite (zero_padded_dec x k) by lia. replace (Z.of_nat k) with (char_count (dec k x)) at 1 by (unfold char_count; rewrite dec_length; reflexivity).
  rewrite pick_u32_app.
  - rewrite dec_val by exact Hx. reflexivity.
  - apply dec_digits.
  - intros E. apply (f_equal (@length Z)) in E. rewrite dec_length in E. cbn in E. lia.
  - rewrite dec_val by exact Hx. assert (10 ^ Z.of_nat k <= 10 ^ 9) by (apply Z.pow_le_mono_r; lia). change (10 ^ 9) with 1000000000 in *. unfold U32_MAX. lia.
Qed.
Lemma n_back w ss rest : 1 <= w -> 0 <= ss < 1000000000 ->
  let k := if 5 <? w then 3 else if w =? 4 then 6 else if w =? 5 then 9 else w in
  let u := match w with 1 => PDecis | 2 => PCentis | 4 => PMicros | 5 => PNanos | _ => PMillis end in
  parse_time_part (run 110 w) (zero_padded (ss / 10 ^ (9 - k)) k ++ rest) = Ok (Some (u, ss / 10 ^ (9 - k)), rest).
Proof.
  intros Hw Hs. cbv zeta. rewrite ptp_unfold by lia. cbv zeta. cbn [Z.eqb Pos.eqb].
  assert (C : w = 1 \/ w = 2 \/ w = 3 \/ w = 4 \/ w = 5 \/ 5 < w) by lia.
  destruct C as [-> | [-> | [-> | [-> | [-> | C]]]]].
  - cbn [Z.ltb Z.eqb Z.compare Pos.compare Pos.compare_cont Pos.eqb]. change (10 ^ (9 - 1)) with 100000000. rewrite (pickk 1) by (cbn; lia). reflexivity.
  - cbn [Z.ltb Z.eqb Z.compare Pos.compare Pos.compare_cont Pos.eqb]. change (10 ^ (9 - 2)) with 10000000. rewrite (pickk 2) by (cbn; lia). reflexivity.
  - cbn [Z.ltb Z.eqb Z.compare Pos.compare Pos.compare_cont Pos.eqb]. change (10 ^ (9 - 3)) with 1000000. rewrite (pickk 3) by (cbn; lia). reflexivity.
  - cbn [Z.ltb Z.eqb Z.compare Pos.compare Pos.compare_cont Pos.eqb]. change (10 ^ (9 - 6)) with 1000. rewrite (pickk 6) by (cbn; lia). reflexivity.
  - cbn [Z.ltb Z.eqb Z.compare Pos.compare Pos.compare_cont Pos.eqb]. change (10 ^ (9 - 9)) with 1. rewrite (pickk 9) by (cbn; lia). reflexivity.
  - destruct (Z.ltb_spec 5 w); [|lia]. change (10 ^ (9 - 3)) with 1000000.
    assert (M : match w with 1 => PDecis | 2 => PCentis | 4 => PMicros | 5 => PNanos | _ => PMillis end = PMillis /\
                match w with
                | 1 => let? '(v, rest0) := pick_u32 1 (zero_padded (ss / 1000000) 3 ++ rest) in some_part PDecis v rest0
                | 2 => let? '(v, rest0) := pick_u32 2 (zero_padded (ss / 1000000) 3 ++ rest) in some_part PCentis v rest0
                | 4 => let? '(v, rest0) := pick_u32 6 (zero_padded (ss / 1000000) 3 ++ rest) in some_part PMicros v rest0
                | 5 => let? '(v, rest0) := pick_u32 9 (zero_padded (ss / 1000000) 3 ++ rest) in some_part PNanos v rest0
                | _ => let? '(v, rest0) := pick_u32 3 (zero_padded (ss / 1000000) 3 ++ rest) in some_part PMillis v rest0
                end = (let? '(v, rest0) := pick_u32 3 (zero_padded (ss / 1000000) 3 ++ rest) in some_part PMillis v rest0)).
    { destruct w as [|p|p]; try lia. do 3 (try destruct p as [p|p|]); try lia; split; reflexivity. }
    destruct M as [-> ->]. rewrite (pickk 3) by (cbn; lia). reflexivity.
Qed.

(* a / b: the day-period texts *)
Lemma pick_text_lit a rest : pick_text (Z.of_nat (length a)) (a ++ rest) = Ok (a, rest).
Proof. apply pick_text_app. Qed.
Lemma a_back w pm rest : 1 <= w ->
  parse_time_part (run 97 w) (period_text (if 5 <? w then 3 else w) pm ++ rest) = Ok (Some (PPeriod, if pm then 1 else 0), rest).
Proof.
  intros Hw. rewrite ptp_unfold by lia. cbv zeta. cbn [Z.eqb Pos.eqb].
  assert (C : w = 1 \/ w = 2 \/ w = 3 \/ w = 4 \/ w = 5 \/ 5 < w) by lia.
  destruct C as [-> | [-> | [-> | [-> | [-> | C]]]]]; try (destruct pm; cbn [Z.ltb Z.compare Pos.compare Pos.compare_cont period_text S_];
    match goal with |- context [pick_text ?k (?a ++ ?r)] => change k with (Z.of_nat (length a)); rewrite (pick_text_lit a r) end; reflexivity).
  destruct (Z.ltb_spec 5 w); [|lia].
  assert (M : forall A B Cc Dd : res (option (punit * Z) * text), match w with 4 => A | 5 => B | _ => Cc end = Cc).
  { intros. destruct w as [|p|p]; try lia. do 3 (try destruct p as [p|p|]); try lia; reflexivity. }
  rewrite M by exact fmt_err. destruct pm; cbn [period_text S_];
    match goal with |- context [pick_text ?k (?a ++ ?r)] => change k with (Z.of_nat (length a)); rewrite (pick_text_lit a r) end; reflexivity.
Qed.

Definition b_text (st : Z) (kind : Z) : text :=     (* kind: 0 am, 1 pm, 2 midnight, 3 noon *)
  match kind with
  | 0 => period_text st false | 1 => period_text st true
  | 2 => if st =? 5 then S_[109;105] else S_[109;105;100;110;105;103;104;116]
  | _ => if st =? 5 then S_[110] else S_[110;111;111;110]
  end.
Lemma remove_lit a rest : must (remove_part (Z.of_nat (length a)) (a ++ rest)) = Ok rest.
Proof. change (Z.of_nat (length a)) with (char_count a). rewrite remove_part_app. reflexivity. Qed.
Lemma b_back w kind rest : 1 <= w -> 0 <= kind <= 3 ->
  parse_time_part (run 98 w) (b_text (if 5 <? w then 3 else w) kind ++ rest) = Ok (Some (PPeriod, if (kind =? 0) || (kind =? 2) then 0 else 1), rest).
Proof.
  intros Hw Hk. rewrite ptp_unfold by lia. cbv zeta. cbn [Z.eqb Pos.eqb].
  assert (K : kind = 0 \/ kind = 1 \/ kind = 2 \/ kind = 3) by lia.
  assert (C : w = 1 \/ w = 2 \/ w = 3 \/ w = 4 \/ w = 5 \/ 5 < w) by lia.
  destruct C as [-> | [-> | [-> | [-> | [-> | C]]]]].
  1-5: destruct K as [-> | [-> | [-> | ->]]]; cbn [Z.ltb Z.compare Pos.compare Pos.compare_cont b_text period_text S_ Z.eqb Pos.eqb orb];
       unfold period_value, starts_with, t, S_; cbn [length firstn app text_eqb Z.eqb Pos.eqb andb];
       match goal with |- context [must (remove_part (byte_len ?e) ?s)] => match goal with |- _ = Ok (_, ?r) => change s with (e ++ r); change (byte_len e) with (Z.of_nat (length e)); rewrite (remove_lit e r) end end; reflexivity.
  destruct (Z.ltb_spec 5 w); [|lia].
  assert (M : forall A B Cc : list (text * Z), match w with 4 => A | 5 => B | _ => Cc end = Cc).
  { intros. destruct w as [|p|p]; try lia. do 3 (try destruct p as [p|p|]); try lia; reflexivity. }
  rewrite M.
  destruct K as [-> | [-> | [-> | ->]]]; cbn [b_text period_text S_ Z.eqb Pos.eqb orb];
       unfold period_value, starts_with, t, S_; cbn [length firstn app text_eqb Z.eqb Pos.eqb andb];
       match goal with |- context [must (remove_part (byte_len ?e) ?s)] => match goal with |- _ = Ok (_, ?r) => change s with (e ++ r); change (byte_len e) with (Z.of_nat (length e)); rewrite (remove_lit e r) end end; reflexivity.
Qed.

(* X / x: the zone offset *)
Definition zone_fits (w off : Z) (rest : text) : Prop :=
  let a := Z.abs off in let minute := a mod 3600 / 60 in let second := a mod 3600 mod 60 in
  match w with
  | 1 => second = 0 /\ (minute = 0 -> nth_is_digit rest 0 = false)
  | 4 => second = 0 -> nth_is_digit rest 0 = false
  | 5 => second = 0 -> (nth_is_digit rest 1 && match nth_char rest 0 with Some c => c =? 58 | None => false end) = false
  | _ => second = 0
  end.

Lemma pick1 c rest : pick_text 1 (c :: rest) = Ok ([c], rest).
Proof. change 1 with (char_count [c]). change (c :: rest) with ([c] ++ rest). apply pick_text_app. Qed.
Lemma must_remove1 c rest : must (remove_part 1 (c :: rest)) = Ok rest.
Proof. rewrite remove1. reflexivity. Qed.

Theorem zone_back w off z rest : 1 <= w -> off_ok off -> zone_fits w off rest ->
  parse_zone w (format_zone w off z ++ rest) z = Ok (Some (POffset, off), rest).
Proof.
  intros Hw Ho Hf. unfold off_ok, SECS_PER_DAY in Ho. unfold format_zone, parse_zone.
  destruct (z && (off =? 0)) eqn:Ez.
  { apply andb_true_iff in Ez as [-> Ez]. apply Z.eqb_eq in Ez. subst off. cbn [app]. rewrite pick1. cbn [bind andb text_eqb Z.eqb Pos.eqb]. reflexivity. }
  cbv zeta. set (a := Z.abs off) in *. set (hour := a / 3600). set (minute := a mod 3600 / 60). set (second := a mod 3600 mod 60).
  assert (Ha : 0 <= a < 86400) by (subst a; lia).
  assert (Hh : 0 <= hour < 24) by (subst hour; split; [apply Z.div_pos; lia | apply Z.div_lt_upper_bound; lia]).
  assert (Hmi : 0 <= minute < 60) by (subst minute; pose proof (Z.mod_pos_bound a 3600 ltac:(lia)); split; [apply Z.div_pos; lia | apply Z.div_lt_upper_bound; lia]).
  assert (Hs : 0 <= second < 60) by (subst second; apply Z.mod_pos_bound; lia).
  assert (Hsum : hour * 3600 + minute * 60 + second = a) by (subst hour minute second; lia).
  unfold zone_fits in Hf. fold a in Hf. cbv zeta in Hf. fold minute second in Hf.
  set (sg := if off <? 0 then 45 else 43).
  assert (Epre : (if off <? 0 then [45] else [43]) = [sg]) by (subst sg; destruct (off <? 0); reflexivity). rewrite Epre.
  set (mult := if off <? 0 then -1 else 1).
  assert (Emult : (if text_eqb [sg] [43] then Ok 1 else if text_eqb [sg] [45] then Ok (-1) else @fmt_err Z) = Ok mult)
    by (subst sg mult; destruct (off <? 0); reflexivity).
  assert (Ezz : (z && text_eqb [sg] [90]) = false) by (subst sg; destruct (off <? 0); destruct z; reflexivity).
  assert (Hoff : mult * a = off) by (subst mult a; destruct (Z.ltb_spec off 0); lia).
  assert (W : forall x, 0 <= x < 90000 -> wrap_u32 x = x) by (intros; unfold wrap_u32; lia).
  clearbody hour minute second sg mult. clear Epre.
  assert (C : w = 1 \/ w = 2 \/ w = 3 \/ w = 4 \/ w = 5 \/ 5 < w) by lia.
  destruct C as [-> | [-> | [-> | [-> | [-> | C]]]]].
  - (* +hh[mm] *) destruct Hf as [Hs0 Hm0]. cbn [app]. rewrite pick1. cbn [bind]. rewrite Ezz, Emult. cbn [bind]. rewrite <- app_assoc, pick2 by lia. cbn [bind].
    destruct (Z.eqb_spec minute 0) as [Em|Em]; cbn [negb app].
    + rewrite (Hm0 Em). unfold some_part. rewrite W by lia. repeat f_equal. lia.
    + assert (N0 : nth_is_digit (zero_padded minute 2 ++ rest) 0 = true).
      { rewrite (zero_padded_2 minute) by lia. unfold nth_is_digit, nth_char. cbn [app nth_error]. apply dig_ok. lia. }
      rewrite N0. rewrite pick2 by lia. cbn [bind]. unfold some_part. rewrite W by lia. repeat f_equal. lia.
  - cbn [app]. rewrite pick1. cbn [bind]. rewrite Ezz, Emult. cbn [bind]. rewrite <- app_assoc, pick2 by lia. cbn [bind].
    rewrite pick2 by lia. cbn [bind]. unfold some_part. rewrite W by lia. repeat f_equal. lia.
  - cbn [app]. rewrite pick1. cbn [bind]. rewrite Ezz, Emult. cbn [bind]. rewrite <- !app_assoc, pick2 by lia. cbn [bind app].
    rewrite remove1. cbn [bind]. rewrite pick2 by lia. cbn [bind]. unfold some_part. rewrite W by lia. repeat f_equal. lia.
  - (* +hhmm[ss] *) cbn [app]. rewrite pick1. cbn [bind]. rewrite Ezz, Emult. cbn [bind]. rewrite <- !app_assoc, pick2 by lia. cbn [bind].
    destruct (Z.eqb_spec second 0) as [Es|Es]; cbn [negb app].
    + assert (N2 : nth_is_digit (zero_padded minute 2 ++ rest) 2 = false).
      { rewrite (zero_padded_2 minute) by lia. change (nth_is_digit ([48 + minute / 10; 48 + minute mod 10] ++ rest) 2) with (nth_is_digit rest 0). exact (Hf Es). }
      rewrite N2. rewrite pick2 by lia. cbn [bind]. unfold some_part. rewrite W by lia. repeat f_equal. lia.
    + assert (N2 : nth_is_digit (zero_padded minute 2 ++ zero_padded second 2 ++ rest) 2 = true).
      { rewrite (zero_padded_2 minute), (zero_padded_2 second) by lia. unfold nth_is_digit, nth_char. cbn [app nth_error]. apply dig_ok. lia. }
      rewrite N2. rewrite pick2 by lia. cbn [bind]. rewrite pick2 by lia. cbn [bind]. unfold some_part. rewrite W by lia. repeat f_equal. lia.
  - (* +hh:mm[:ss] *) cbn [app]. rewrite pick1. cbn [bind]. rewrite Ezz, Emult. cbn [bind]. rewrite <- !app_assoc, pick2 by lia. cbn [bind app].
    destruct (Z.eqb_spec second 0) as [Es|Es]; cbn [negb app]; rewrite ?app_nil_r, <- ?app_assoc; cbn [app].
    + assert (N : (nth_is_digit (58 :: zero_padded minute 2 ++ rest) 4 && match nth_char (58 :: zero_padded minute 2 ++ rest) 3 with Some c => c =? 58 | None => false end) = false).
      { rewrite (zero_padded_2 minute) by lia. exact (Hf Es). }
      rewrite N. rewrite remove1. cbn [bind]. rewrite pick2 by lia. cbn [bind]. unfold some_part. rewrite W by lia. repeat f_equal. lia.
    + assert (N : (nth_is_digit (58 :: zero_padded minute 2 ++ 58 :: zero_padded second 2 ++ rest) 4 &&
                   match nth_char (58 :: zero_padded minute 2 ++ 58 :: zero_padded second 2 ++ rest) 3 with Some c => c =? 58 | None => false end) = true).
      { rewrite (zero_padded_2 minute), (zero_padded_2 second) by lia. unfold nth_is_digit, nth_char. cbn [app nth_error]. rewrite dig_ok by lia. reflexivity. }
      rewrite N. unfold zone5_with_seconds. rewrite must_remove1. cbn [bind]. rewrite pick2 by lia. cbn [bind]. rewrite must_remove1. cbn [bind].
      rewrite pick2 by lia. cbn [bind]. unfold some_part. rewrite W by lia. repeat f_equal. lia.
  - assert (M1 : forall A B Cc Dd E : text, match w with 1 => A | 2 => B | 4 => Cc | 5 => Dd | _ => E end = E).
    { intros. destruct w as [|p|p]; try lia. do 3 (try destruct p as [p|p|]); try lia; reflexivity. }
    assert (M2 : forall A B Cc Dd E : res (option (punit * Z) * text), match w with 1 => A | 2 => B | 4 => Cc | 5 => Dd | _ => E end = E).
    { intros. destruct w as [|p|p]; try lia. do 3 (try destruct p as [p|p|]); try lia; reflexivity. }
    assert (Hs0 : second = 0) by (destruct w as [|p|p]; try lia; do 3 (try destruct p as [p|p|]); try lia; exact Hf).
    rewrite M1. cbn [app]. rewrite pick1. cbn [bind]. rewrite Ezz, Emult. cbn [bind]. rewrite <- !app_assoc, pick2 by lia. cbn [bind app].
    rewrite M2. rewrite remove1. cbn [bind]. rewrite pick2 by lia. cbn [bind]. unfold some_part. rewrite W by lia. repeat f_equal. lia.
Qed.

(* ---------- date fields ---------- *)
Lemma pdp_unfold now c w s : 1 <= w ->
  parse_date_part now (run c w) s =
  (let len := w in
  if c =? 71 then
    match len with
    | 1 | 2 | 3 => let? rest := remove_part 2 s in no_part rest
    | 5 => let? rest := remove_part 1 s in no_part rest
    | _ => if starts_with BEFORE_CHRIST s then (let? rest := must (remove_part 13 s) in no_part rest)
           else if starts_with ANNO_DOMINI s then (let? rest := must (remove_part 11 s) in no_part rest)
           else fmt_err
    end
  else if c =? 121 then
    match len with
    | 2 => if starts_with [45] s then (let? '(v, rest) := pick_i32 3 s in some_part PYear v rest)
           else (let? '(v, rest) := pick_i32 2 s in some_part PYear (wrap_i32 (Z.quot now 1000 * 1000 + v)) rest)
    | 1 | 3 | 4 =>
        let start := if starts_with [45] s then 1%nat else 0%nat in
        let ndig := length (fst (take_digits (skipn start s))) in
        let? '(v, rest) := pick_i32 (Z.of_nat (start + ndig)) s in some_part PYear v rest
    | _ => let? '(v, rest) := pick_i32 (if starts_with [45] s then len + 1 else len) s in some_part PYear v rest
    end
  else if c =? 113 then
    match len with
    | 1 | 2 => let? rest := remove_part len s in no_part rest
    | 3 => let? rest := remove_part 2 s in no_part rest
    | 4 => match find_prefix QUARTERS s 0 with
           | Some (_, e) => let? rest := must (remove_part (byte_len e) s) in no_part rest
           | None => fmt_err end
    | _ => let? rest := remove_part 1 s in no_part rest
    end
  else if c =? 77 then parse_month len s
  else if c =? 119 then
    (if len =? 1 then (if nth_is_digit s 1 then (let? rest := must (remove_part 2 s) in no_part rest)
                       else (let? rest := remove_part 1 s in no_part rest))
     else (let? rest := remove_part (get_length len 2 2) s in no_part rest))
  else if c =? 100 then (let? '(v, rest) := pick_1or2 len s in some_part PDayOfMonth v rest)
  else if c =? 68 then
    match len with
    | 2 => let? '(v, rest) := (if nth_is_digit s 2 then pick_u32 3 s else pick_u32 2 s) in some_part PDayOfYear v rest
    | 3 => let? '(v, rest) := pick_u32 3 s in some_part PDayOfYear v rest
    | _ => let? '(v, rest) := (if nth_is_digit s 1 then (if nth_is_digit s 2 then pick_u32 3 s else pick_u32 2 s) else pick_u32 1 s) in
           some_part PDayOfYear v rest
    end
  else if c =? 101 then parse_wday len s
  else (let? rest := remove_part (char_count (run c w)) s in no_part rest)).
Proof. intros H. unfold parse_date_part. cbv zeta. rewrite run_first by exact H. rewrite run_len by lia. reflexivity. Qed.

(* y, yyy, yyyy: sign and a run of digits, ended by a character that is not a digit *)
Lemma year_run_back now w y rest : (w = 1 \/ w = 3 \/ w = 4) -> I32_MIN <= y <= I32_MAX -> nth_is_digit rest 0 = false ->
  parse_date_part now (run 121 w) (zero_padded_i y w ++ rest) = Ok (Some (PYear, y), rest).
Proof.
  intros Hw Hy Hr. rewrite pdp_unfold by lia. cbv zeta. cbn [Z.eqb Pos.eqb].
  assert (E : forall s, match w with
    | 2 => if starts_with [45] s then (let? '(v, rest) := pick_i32 3 s in some_part PYear v rest)
           else (let? '(v, rest) := pick_i32 2 s in some_part PYear (wrap_i32 (Z.quot now 1000 * 1000 + v)) rest)
    | 1 | 3 | 4 =>
        let start := if starts_with [45] s then 1%nat else 0%nat in
        let ndig := length (fst (take_digits (skipn start s))) in
        let? '(v, rest) := pick_i32 (Z.of_nat (start + ndig)) s in some_part PYear v rest
    | _ => let? '(v, rest) := pick_i32 (if starts_with [45] s then w + 1 else w) s in some_part PYear v rest
    end = parse_date_part now [121;121;121;121] s).
  { intros s. rewrite pdp_y4. destruct Hw as [-> | [-> | ->]]; reflexivity. }
  rewrite E. clear E.
  (* same argument as year4_parse, for any padding width *)
  rewrite pdp_y4. unfold zero_padded_i.
  assert (P40 : 2147483648 < 10 ^ 40) by (apply Z.ltb_lt; vm_compute; reflexivity).
  assert (Hb : 0 <= Z.abs y < 10 ^ 40) by (unfold I32_MIN, I32_MAX in Hy; generalize dependent (10 ^ 40); intros; lia).
  destruct (zero_padded_spec (Z.abs y) w Hb) as (Ad & Ev & Hne). set (zp := zero_padded (Z.abs y) w) in *.
  destruct zp as [|c tl] eqn:Ez; [congruence|]. rewrite <- Ez in *.
  assert (Hc : 48 <= c <= 57).
  { rewrite Ez in Ad. cbn [all_digits forallb] in Ad. apply andb_true_iff in Ad as [Hc _]. unfold is_ascii_digit in Hc. apply andb_true_iff in Hc as [A B]. apply Z.leb_le in A, B. lia. }
  destruct (Z.ltb_spec y 0) as [Hneg|Hpos].
  - cbn [app]. assert (S1 : starts_with [45] (45 :: zp ++ rest) = true) by reflexivity. rewrite S1. cbv zeta. cbn [skipn].
    rewrite (take_digits_app zp rest Ad Hr). cbn [fst]. unfold pick_i32.
    replace (Z.of_nat (1 + length zp)) with (char_count (45 :: zp)) by (unfold char_count; cbn [length]; lia).
    change (45 :: zp ++ rest) with ((45 :: zp) ++ rest). rewrite pick_text_app. cbn [bind].
    unfold parse_signed. cbn [Z.eqb Pos.eqb]. rewrite Ez at 1. rewrite Ad. cbv zeta. rewrite Ev.
    destruct (Z.leb_spec I32_MIN (- Z.abs y)); [|lia]. cbn [bind]. unfold some_part. repeat f_equal. lia.
  - cbn [app]. assert (S0 : starts_with [45] (zp ++ rest) = false).
    { rewrite Ez. unfold starts_with. cbn [length app firstn text_eqb]. destruct (Z.eqb_spec 45 c); [lia | reflexivity]. }
    rewrite S0. cbv zeta. cbn [skipn]. rewrite (take_digits_app zp rest Ad Hr). cbn [fst Nat.add]. unfold pick_i32.
    change (Z.of_nat (length zp)) with (char_count zp). rewrite pick_text_app. cbn [bind].
    unfold parse_signed, parse_unsigned. rewrite Ez. destruct (Z.eqb_spec c 45); [lia|]. destruct (Z.eqb_spec c 43); [lia|]. rewrite <- Ez.
    unfold all_digits in *. rewrite Ad. cbv zeta. fold (digits_val zp). rewrite Ev.
    destruct (Z.leb_spec (Z.abs y) I32_MAX); [|lia]. cbn [bind]. unfold some_part. repeat f_equal. lia.
Qed.

(* yyyyy and longer: fixed width *)
Lemma year_fixed_back now w y rest : 5 <= w <= 40 -> Z.abs y < 10 ^ w -> I32_MIN <= y <= I32_MAX ->
  parse_date_part now (run 121 w) (zero_padded_i y w ++ rest) = Ok (Some (PYear, y), rest).
Proof.
  intros Hw Hb Hy. rewrite pdp_unfold by lia. cbv zeta. cbn [Z.eqb Pos.eqb].
  assert (M : forall A B Cc : res (option (punit * Z) * text), match w with 2 => A | 1 | 3 | 4 => B | _ => Cc end = Cc).
  { intros. destruct w as [|p|p]; try lia. do 3 (try destruct p as [p|p|]); try lia; reflexivity. }
  rewrite M. clear M. unfold zero_padded_i. set (k := Z.to_nat w). assert (Ek : w = Z.of_nat k) by (subst k; lia).
  assert (Ez0 : zero_padded (Z.abs y) w = dec k (Z.abs y)) by (clearbody k; subst w; apply zero_padded_dec; lia).
  rewrite Ez0. clear Ez0.
  pose proof (dec_digits k (Z.abs y)) as Ad. pose proof (dec_val k (Z.abs y) ltac:(rewrite <- Ek; lia)) as Ev. pose proof (dec_length k (Z.abs y)) as El.
  set (zp := dec k (Z.abs y)) in *. destruct zp as [|c tl] eqn:Ez; [cbn in El; lia|]. rewrite <- Ez in *.
  assert (Hc : 48 <= c <= 57).
  { rewrite Ez in Ad. cbn [all_digits forallb] in Ad. apply andb_true_iff in Ad as [Hc _]. unfold is_ascii_digit in Hc. apply andb_true_iff in Hc as [A B]. apply Z.leb_le in A, B. lia. }
  destruct (Z.ltb_spec y 0) as [Hneg|Hpos].
  - cbn [app]. assert (S1 : starts_with [45] (45 :: zp ++ rest) = true) by reflexivity. rewrite S1. unfold pick_i32.
    replace (w + 1) with (char_count (45 :: zp)) by (unfold char_count; cbn [length]; lia).
    change (45 :: zp ++ rest) with ((45 :: zp) ++ rest). rewrite pick_text_app. cbn [bind].
    unfold parse_signed. cbn [Z.eqb Pos.eqb]. rewrite Ez at 1. rewrite Ad. cbv zeta. rewrite Ev.
    destruct (Z.leb_spec I32_MIN (- Z.abs y)); [|lia]. cbn [bind]. unfold some_part. repeat f_equal. lia.
  - cbn [app]. assert (S0 : starts_with [45] (zp ++ rest) = false).
    { rewrite Ez. unfold starts_with. cbn [length app firstn text_eqb]. destruct (Z.eqb_spec 45 c); [lia | reflexivity]. }
    rewrite S0. unfold pick_i32. replace w with (char_count zp) at 1 by (unfold char_count; lia). rewrite pick_text_app. cbn [bind].
    unfold parse_signed, parse_unsigned. rewrite Ez. destruct (Z.eqb_spec c 45); [lia|]. destruct (Z.eqb_spec c 43); [lia|]. rewrite <- Ez.
    unfold all_digits in *. rewrite Ad. cbv zeta. fold (digits_val zp). rewrite Ev.
    destruct (Z.leb_spec (Z.abs y) I32_MAX); [|lia]. cbn [bind]. unfold some_part. repeat f_equal. lia.
Qed.

(* M, MM numeric; MMM, MMMM names *)
Lemma month_num_back now w m rest : (w = 1 \/ w = 2) -> 1 <= m <= 12 -> (w = 1 -> nth_is_digit rest 0 = false) ->
  parse_date_part now (run 77 w) (zero_padded m w ++ rest) = Ok (Some (PMonth, m), rest).
Proof.
  intros Hw Hm Hr. rewrite pdp_unfold by lia. cbv zeta. cbn [Z.eqb Pos.eqb]. unfold parse_month. destruct Hw as [-> | ->].
  - cbv zeta. destruct (Z.ltb_spec m 10).
    + destruct (zp1_small m rest ltac:(lia) (Hr eq_refl)) as [A B]. rewrite A, B. reflexivity.
    + destruct (zp1_big m rest ltac:(lia)) as [A B]. rewrite A, B. reflexivity.
  - rewrite pick2 by lia. reflexivity.
Qed.
Lemma month_name_back now w m rest : (w = 3 \/ w = 4 \/ 5 < w) -> 1 <= m <= 12 ->
  forall name,
  nth_name (if w =? 3 then MONTH_ABBREVIATED else MONTH_WIDE) (m - 1) = Ok name ->
  parse_date_part now (run 77 w) (name ++ rest) = Ok (Some (PMonth, m), rest).
Proof.
  intros Hw Hm name Hn. rewrite pdp_unfold by lia. cbv zeta. cbn [Z.eqb Pos.eqb]. unfold parse_month.
  destruct Hw as [-> | Hw].
  - cbn [Z.eqb Pos.eqb] in Hn. month_split m Hm; injection Hn as <-; unfold find_prefix, starts_with, MONTH_ABBREVIATED, str; cbn [map length firstn app text_eqb Z.eqb Pos.eqb andb Z.add];
    match goal with |- context [must (remove_part (byte_len ?e) ?s)] => match goal with |- _ = Ok (_, ?r) => change s with (e ++ r); change (byte_len e) with (Z.of_nat (length e)); rewrite (remove_lit e r) end end; reflexivity.
  - assert (M : forall A B Cc Dd E : res (option (punit * Z) * text), match w with 1 => A | 2 => B | 3 => Cc | 5 => Dd | _ => E end = E).
    { intros. destruct w as [|p|p]; try lia. do 3 (try destruct p as [p|p|]); try lia; reflexivity. }
    rewrite M. assert (E3 : (w =? 3) = false) by (apply Z.eqb_neq; lia). rewrite E3 in Hn.
    month_split m Hm; injection Hn as <-; unfold find_prefix, starts_with, MONTH_WIDE, str; cbn [map length firstn app text_eqb Z.eqb Pos.eqb andb Z.add];
    match goal with |- context [must (remove_part (byte_len ?e) ?s)] => match goal with |- _ = Ok (_, ?r) => change s with (e ++ r); change (byte_len e) with (Z.of_nat (length e)); rewrite (remove_lit e r) end end; reflexivity.
Qed.

(* d, dd *)
Lemma day_back now w d rest : (w = 1 \/ w = 2) -> 0 <= d < 100 -> (w = 1 -> nth_is_digit rest 0 = false) ->
  parse_date_part now (run 100 w) (zero_padded d w ++ rest) = Ok (Some (PDayOfMonth, d), rest).
Proof.
  intros Hw Hd Hr. rewrite pdp_unfold by lia. cbv zeta. cbn [Z.eqb Pos.eqb]. rewrite (pick_1or2_spec w d rest Hw Hd Hr). reflexivity.
Qed.

(* D, DD, DDD: day of year 1..366 *)
Lemma pick3 x rest : 0 <= x < 1000 -> pick_u32 3 (zero_padded x 3 ++ rest) = Ok (x, rest).
Proof. intros H. apply (pickk 3 x rest); [lia | change (10 ^ Z.of_nat 3) with 1000; lia]. Qed.
Lemma zp_3digits x w : 100 <= x < 1000 -> 1 <= w <= 3 -> zero_padded x w = zero_padded x 3.
Proof.
  intros Hx Hw. unfold zero_padded. cbv zeta. rewrite u_to_string_3 by lia. cbn [length].
  assert (C : w = 1 \/ w = 2 \/ w = 3) by lia. destruct C as [-> | [-> | ->]]; reflexivity.
Qed.
Lemma zp_2digits x w : 10 <= x < 100 -> 1 <= w <= 2 -> zero_padded x w = zero_padded x 2.
Proof.
  intros Hx Hw. unfold zero_padded. cbv zeta. rewrite u_to_string_2 by lia. cbn [length].
  assert (C : w = 1 \/ w = 2) by lia. destruct C as [-> | ->]; reflexivity.
Qed.
Lemma nth_digit_zp2 x rest i : 0 <= x < 100 -> (i < 2)%nat -> nth_is_digit (zero_padded x 2 ++ rest) i = true.
Proof.
  intros Hx Hi. rewrite zero_padded_2 by lia. unfold nth_is_digit, nth_char. destruct i as [|[|i]]; [| |lia]; cbn [app nth_error]; apply dig_ok; lia.
Qed.
Lemma nth_digit_zp3 x rest i : 0 <= x < 1000 -> (i < 3)%nat -> nth_is_digit (zero_padded x 3 ++ rest) i = true.
Proof.
  intros Hx Hi. change 3 with (Z.of_nat 3). rewrite (zero_padded_dec x 3) by (change (10 ^ Z.of_nat 3) with 1000; lia). cbn [dec app].
  unfold nth_is_digit, nth_char. destruct i as [|[|[|i]]]; [| | |lia]; cbn [app nth_error]; apply dig_ok; lia.
Qed.
Lemma doy_back now w doy rest : 1 <= w -> 1 <= doy <= 366 -> (w <> 3 -> nth_is_digit rest 0 = false) ->
  parse_date_part now (run 68 w) (zero_padded doy (get_length w 1 3) ++ rest) = Ok (Some (PDayOfYear, doy), rest).
Proof.
  intros Hw Hd Hr. rewrite pdp_unfold by lia. cbv zeta. cbn [Z.eqb Pos.eqb]. unfold get_length.
  assert (C : w = 2 \/ w = 3 \/ (w <> 2 /\ w <> 3)) by lia. destruct C as [-> | [-> | [N2 N3]]].
  - (* DD: two or three digits *) cbn [Z.ltb Z.compare Pos.compare Pos.compare_cont]. specialize (Hr ltac:(lia)). destruct (Z.ltb_spec doy 100).
    + assert (A : nth_is_digit (zero_padded doy 2 ++ rest) 2 = false).
      { rewrite zero_padded_2 by lia. exact Hr. }
      rewrite A, pick2 by lia. reflexivity.
    + rewrite (zp_3digits doy 2) by lia. rewrite nth_digit_zp3 by lia. rewrite pick3 by lia. reflexivity.
  - cbn [Z.ltb Z.compare Pos.compare Pos.compare_cont]. rewrite pick3 by lia. reflexivity.
  - (* D (and over-long runs): one, two or three digits *)
    specialize (Hr N3).
    assert (M : forall A B Cc : res (option (punit * Z) * text), match w with 2 => A | 3 => B | _ => Cc end = Cc).
    { intros. destruct w as [|p|p]; try lia. do 2 (try destruct p as [p|p|]); try lia; reflexivity. }
    rewrite M.
    assert (Z1 : zero_padded doy (if 3 <? w then 1 else w) = zero_padded doy 1).
    { destruct (Z.ltb_spec 3 w); [reflexivity|]. assert (w = 1) by lia. subst. reflexivity. }
    rewrite Z1. assert (C : doy < 10 \/ 10 <= doy < 100 \/ 100 <= doy) by lia. destruct C as [C | [C | C]].
    + destruct (zp1_small doy rest ltac:(lia) Hr) as [A B]. rewrite A, B. reflexivity.
    + destruct (zp1_big doy rest C) as [A B]. rewrite A.
      assert (A2 : nth_is_digit (zero_padded doy 1 ++ rest) 2 = false).
      { rewrite (zp_2digits doy 1), zero_padded_2 by lia. exact Hr. }
      rewrite A2, B. reflexivity.
    + rewrite (zp_3digits doy 1) by lia. rewrite !nth_digit_zp3 by lia. rewrite pick3 by lia. reflexivity.
Qed.

(* ---------- fields that are skipped: era, quarter, week, weekday ---------- *)
Lemma remove_k a rest : remove_part (Z.of_nat (length a)) (a ++ rest) = Ok rest.
Proof. change (Z.of_nat (length a)) with (char_count a). apply remove_part_app. Qed.

Definition g_text (w : Z) (bc : bool) : text :=
  match (if 5 <? w then 4 else w) with
  | 1 | 2 | 3 => if bc then [66;67] else [65;68]
  | 5 => if bc then [66] else [65]
  | _ => if bc then BEFORE_CHRIST else ANNO_DOMINI
  end.
Lemma era_back now w bc rest : 1 <= w -> parse_date_part now (run 71 w) (g_text w bc ++ rest) = Ok (None, rest).
Proof.
  intros Hw. rewrite pdp_unfold by lia. cbv zeta. cbn [Z.eqb Pos.eqb]. unfold g_text.
  assert (C : w = 1 \/ w = 2 \/ w = 3 \/ w = 4 \/ w = 5 \/ 5 < w) by lia.
  destruct C as [-> | [-> | [-> | [-> | [-> | C]]]]].
  1-3: destruct bc; cbn [Z.ltb Z.compare Pos.compare Pos.compare_cont];
       match goal with |- context [remove_part ?k (?a ++ ?r)] => change k with (Z.of_nat (length a)); rewrite (remove_k a r) end; reflexivity.
  - destruct bc; cbn [Z.ltb Z.compare Pos.compare Pos.compare_cont]; unfold starts_with, BEFORE_CHRIST, ANNO_DOMINI;
    cbn [length firstn app text_eqb Z.eqb Pos.eqb andb];
    match goal with |- context [must (remove_part ?k ?s)] => match goal with |- _ = Ok (_, ?r) =>
      first [ change s with (BEFORE_CHRIST ++ r); change k with (Z.of_nat (length BEFORE_CHRIST)); rewrite (remove_lit BEFORE_CHRIST r)
            | change s with (ANNO_DOMINI ++ r); change k with (Z.of_nat (length ANNO_DOMINI)); rewrite (remove_lit ANNO_DOMINI r) ] end end; reflexivity.
  - destruct bc; cbn [Z.ltb Z.compare Pos.compare Pos.compare_cont];
       match goal with |- context [remove_part ?k (?a ++ ?r)] => change k with (Z.of_nat (length a)); rewrite (remove_k a r) end; reflexivity.
  - destruct (Z.ltb_spec 5 w); [|lia].
    assert (M : forall A B Cc : res (option (punit * Z) * text), match w with 1 | 2 | 3 => A | 5 => B | _ => Cc end = Cc).
    { intros. destruct w as [|p|p]; try lia. do 3 (try destruct p as [p|p|]); try lia; reflexivity. }
    rewrite M. destruct bc; unfold starts_with, BEFORE_CHRIST, ANNO_DOMINI; cbn [length firstn app text_eqb Z.eqb Pos.eqb andb];
    match goal with |- context [must (remove_part ?k ?s)] => match goal with |- _ = Ok (_, ?r) =>
      first [ change s with (BEFORE_CHRIST ++ r); change k with (Z.of_nat (length BEFORE_CHRIST)); rewrite (remove_lit BEFORE_CHRIST r)
            | change s with (ANNO_DOMINI ++ r); change k with (Z.of_nat (length ANNO_DOMINI)); rewrite (remove_lit ANNO_DOMINI r) ] end end; reflexivity.
Qed.

Definition q_text (w q : Z) : text :=
  match w with
  | 1 | 2 => zero_padded q w
  | 3 => 81 :: u_to_string q
  | 4 => add_ordinal_indicator q ++ str [32;113;117;97;114;116;101;114]
  | _ => zero_padded q 1
  end.
Ltac rm_lit := match goal with
  | |- context [must (remove_part (byte_len ?e) ?s)] => match goal with |- _ = Ok (_, ?r) => change s with (e ++ r); change (byte_len e) with (Z.of_nat (length e)); rewrite (remove_lit e r) end
  | |- context [remove_part ?k (?a ++ ?r)] => change k with (Z.of_nat (length a)); rewrite (remove_k a r)
  end.
Lemma quarter_back now w q rest : 1 <= w -> 1 <= q <= 4 -> parse_date_part now (run 113 w) (q_text w q ++ rest) = Ok (None, rest).
Proof.
  intros Hw Hq. rewrite pdp_unfold by lia. cbv zeta. cbn [Z.eqb Pos.eqb]. unfold q_text.
  assert (Q : q = 1 \/ q = 2 \/ q = 3 \/ q = 4) by lia.
  assert (C : w = 1 \/ w = 2 \/ w = 3 \/ w = 4 \/ 4 < w) by lia.
  destruct C as [-> | [-> | [-> | [-> | C]]]].
  1-3: destruct Q as [-> | [-> | [-> | ->]]]; vm_compute zero_padded; vm_compute u_to_string; rm_lit; reflexivity.
  - destruct Q as [-> | [-> | [-> | ->]]]; vm_compute add_ordinal_indicator; unfold find_prefix, starts_with, QUARTERS, str;
    cbn [length firstn app text_eqb Z.eqb Pos.eqb andb Z.add]; rm_lit; reflexivity.
  - assert (M : forall A B Cc Dd E : res (option (punit * Z) * text), match w with 1 | 2 => A | 3 => B | 4 => Cc | _ => E end = E).
    { intros. destruct w as [|p|p]; try lia. do 3 (try destruct p as [p|p|]); try lia; reflexivity. }
    assert (M' : forall A B Cc E : text, match w with 1 | 2 => A | 3 => B | 4 => Cc | _ => E end = E).
    { intros. destruct w as [|p|p]; try lia. do 3 (try destruct p as [p|p|]); try lia; reflexivity. }
    rewrite M, M'; [|exact fmt_err]. destruct Q as [-> | [-> | [-> | ->]]]; vm_compute zero_padded; rm_lit; reflexivity.
Qed.

Lemma week_back now w wk rest : 1 <= w -> 1 <= wk <= 53 -> (w = 1 -> nth_is_digit rest 0 = false) ->
  parse_date_part now (run 119 w) (zero_padded wk (get_length w 2 2) ++ rest) = Ok (None, rest).
Proof.
  intros Hw Hk Hr. rewrite pdp_unfold by lia. cbv zeta. cbn [Z.eqb Pos.eqb]. unfold get_length.
  destruct (Z.eqb_spec w 1) as [->|N1].
  - cbn [Z.ltb Z.compare Pos.compare Pos.compare_cont]. destruct (Z.ltb_spec wk 10).
    + destruct (zp1_small wk rest ltac:(lia) (Hr eq_refl)) as [A _]. rewrite A. rewrite zero_padded_1, u_to_string_1 by lia.
      change ([48 + wk] ++ rest) with (48 + wk :: rest). rewrite remove1. reflexivity.
    + destruct (zp1_big wk rest ltac:(lia)) as [A _]. rewrite A. rewrite zero_padded_1, u_to_string_2 by lia.
      change 2 with (Z.of_nat (length [48 + wk / 10; 48 + wk mod 10])). rewrite remove_lit. reflexivity.
  - assert (E : zero_padded wk (if 2 <? w then 2 else w) = zero_padded wk 2 /\ (if 2 <? w then 2 else w) = 2).
    { destruct (Z.ltb_spec 2 w); [split; reflexivity|]. assert (w = 2) by lia. subst. split; reflexivity. }
    destruct E as [E1 E2]. rewrite E1, E2. rewrite zero_padded_2 by lia.
    change 2 with (Z.of_nat (length [48 + wk / 10; 48 + wk mod 10])). rewrite remove_k. reflexivity.
Qed.

Definition e_text (w wd : Z) : res text := format_wday w (wd - 1).   (* day number wd-1 has weekday wd mod 7: day 0 is a Monday *)
Lemma wday_back now w d rest : 1 <= w -> forall txt, format_wday w d = Ok txt ->
  parse_date_part now (run 101 w) (txt ++ rest) = Ok (None, rest).
Proof.
  intros Hw txt Hf. rewrite pdp_unfold by lia. cbv zeta. cbn [Z.eqb Pos.eqb]. unfold parse_wday. unfold format_wday in Hf.
  pose proof (wd_step d) as [_ W]. set (x := days_to_wday d false) in *.
  assert (W2 : days_to_wday d true = (x + 6) mod 7) by (subst x; unfold days_to_wday; lia). rewrite W2 in Hf.
  assert (X : x = 0 \/ x = 1 \/ x = 2 \/ x = 3 \/ x = 4 \/ x = 5 \/ x = 6) by lia. clearbody x.
  assert (C : w = 1 \/ w = 2 \/ w = 3 \/ w = 4 \/ w = 5 \/ w = 6 \/ w = 7 \/ w = 8 \/ 8 < w) by lia.
  destruct C as [-> | [-> | [-> | [-> | [-> | [-> | [-> | [-> | C]]]]]]]].
  4: { destruct X as [-> | [-> | [-> | [-> | [-> | [-> | ->]]]]]]; vm_compute in Hf; injection Hf as <-;
       unfold find_prefix, starts_with, WDAY_WIDE, str; cbn [map length firstn app text_eqb Z.eqb Pos.eqb andb Z.add]; rm_lit; reflexivity. }
  1-7: destruct X as [-> | [-> | [-> | [-> | [-> | [-> | ->]]]]]]; vm_compute in Hf; injection Hf as <-; rm_lit; reflexivity.
  assert (M : forall A B Cc Dd E F G H I : res text, match w with 1 | 2 => A | 3 => B | 4 => Cc | 5 => Dd | 6 => E | 7 => F | 8 => G | _ => I end = I).
  { intros. destruct w as [|p|p]; try lia. do 4 (try destruct p as [p|p|]); try lia; reflexivity. }
  assert (M' : forall A B Cc E : res (option (punit * Z) * text), match w with 2 | 3 => A | 4 => B | 6 | 8 => Cc | _ => E end = E).
  { intros. destruct w as [|p|p]; try lia. do 4 (try destruct p as [p|p|]); try lia; reflexivity. }
  rewrite M in Hf by exact (Ok []). rewrite M'.
  destruct X as [-> | [-> | [-> | [-> | [-> | [-> | ->]]]]]]; vm_compute in Hf; injection Hf as <-; rm_lit; reflexivity.
Qed.
