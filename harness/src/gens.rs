//! Input generators for the arithmetic properties (C02–C10, C15).
use crate::civil::*;
use crate::common::*;

pub const NPD: i128 = 86_400_000_000_000;
pub const NPS: i128 = 1_000_000_000;
pub const U32M: i128 = u32::MAX as i128;
pub const UNIT: [i128; 7] = [3_600_000_000_000, 60_000_000_000, NPS, 1_000_000, 1_000, 1, NPD];

pub fn day_pool(g: &mut Gen) -> i128 {
    let fixed: [i64; 22] = [
        DAY_MIN, DAY_MIN + 1, DAY_MIN + 2, DAY_MAX, DAY_MAX - 1, DAY_MAX - 2, -2, -1, 0, 1, 2, 719_162, 719_161, 738_000,
        -366, 365, 59, 60, -307, -306, 730_179, 730_178,
    ];
    match g.rng.next() % 10 {
        0..=3 => *g.rng.pick(&fixed) as i128,
        4..=5 => g.rng.range(-1500, 1500),
        6..=7 => g.rng.range(700_000, 760_000),
        _ => g.rng.range(DAY_MIN as i128, DAY_MAX as i128),
    }
}
pub fn nanos_pool(g: &mut Gen) -> i128 {
    let fixed: [i128; 16] = [
        0, 1, 999, 1_000, 999_999, 1_000_000, 999_999_999, NPS, NPS + 1, 59 * NPS, 60 * NPS, 3_599 * NPS + 999_999_999,
        3_600 * NPS, 43_200 * NPS, NPD - 1, NPD - NPS,
    ];
    let n = match g.rng.next() % 10 {
        0..=4 => *g.rng.pick(&fixed),
        5..=6 => g.rng.range(0, 86_399) * NPS,
        _ => g.rng.range(0, NPD - 1),
    };
    g.last_nanos = n;
    n
}
pub fn off_pool(g: &mut Gen) -> i128 {
    let fixed: [i128; 17] = [0, 1, -1, 59, -59, 60, -60, 3_599, -3_599, 3_600, -3_600, 5_400, -5_400, 86_399, -86_399, 19_800, -34_200];
    // one time in five the offset is aligned with the time of day drawn before it, so that the LOCAL reading sits on a
    // boundary (00:00:00, 23:59:59, 12:00:00, one second past midnight) - day carry / borrow, noon / midnight
    if g.rng.chance(1, 5) {
        let tod = g.last_nanos / NPS;
        let target = *g.rng.pick(&[0i128, 0, 86_399, 43_200, 1]);
        let mut o = target - tod;
        if g.rng.chance(1, 2) { o = if o > 0 { o - 86_400 } else { o + 86_400 }; }
        if o.abs() <= 86_399 { return o; }
    }
    match g.rng.next() % 10 {
        0..=2 => 0,
        3..=7 => *g.rng.pick(&fixed),
        _ => g.rng.range(-86_399, 86_399),
    }
}
pub fn count_pool(g: &mut Gen) -> i128 {
    let fixed: [i128; 20] = [
        0, 1, 23, 24, 59, 60, 999, 1_000, 86_400, 5_124_095, 5_124_096, 6_000_000, 153_722_867, 153_722_868, 307_445_734,
        (1 << 31) - 1, 1 << 31, (1 << 31) + 1, U32M - 1, U32M,
    ];
    match g.rng.next() % 10 {
        0..=4 => *g.rng.pick(&fixed),
        5..=6 => g.rng.range(0, 100_000),
        _ => g.rng.range(0, U32M),
    }
}
/// a DateTime that can be constructed: local instant must stay representable
pub fn dt_pool(g: &mut Gen) -> (i128, i128, i128) {
    loop {
        let (d, n, o) = (day_pool(g), nanos_pool(g), off_pool(g));
        let local = d * NPD + n + o * NPS;
        if local >= DAY_MIN as i128 * NPD && local < (DAY_MAX as i128 + 1) * NPD {
            return (d, n, o);
        }
    }
}

pub fn gen_c03(g: &mut Gen, tier: &str) {
    let n = if tier == "thorough" { 100_000 } else { 2_500 };
    let lo: i128 = (DAY_MIN as i128 - 719_162) * 86_400;
    let hi: i128 = (DAY_MAX as i128 - 719_162) * 86_400 + 86_399;
    let fixed: Vec<i128> = vec![
        lo, lo - 1, lo + 1, lo + 86_399, lo + 86_400, hi, hi + 1, hi - 1, hi - 86_399, hi - 86_400, 0, 1, -1, 86_399, 86_400, 86_401,
        -86_399, -86_400, -86_401, i64::MIN as i128, i64::MIN as i128 + 1, i64::MAX as i128, i64::MAX as i128 - 1,
        i64::MAX as i128 - 62_135_596_800, i64::MAX as i128 - 62_135_596_799, -62_135_596_800, -62_135_596_801, -62_135_596_799,
        185_480_451_590_400, -185_604_722_784_001,
    ];
    for t in &fixed {
        g.push(true, Input::new("dt_from_ts", vec![*t]));
        g.push(true, Input::new("date_from_ts", vec![*t]));
    }
    // whole hours and whole minutes on both sides of the epoch and of 0001-01-01 (remainders taken modulo the wrong unit)
    for base in [0i128, -62_135_596_800, -2_208_988_800] { for k in [-49i128, -48, -47, -25, -24, -23, -13, -12, -2, -1, 1, 2, 12, 23, 24, 25] { for unit in [3_600i128, 60, 43_200] {
        let t = base + k * unit;
        g.push(true, Input::new("dt_from_ts", vec![t]));
        g.push(true, Input::new("date_from_ts", vec![t]));
    } } }
    for k in 0..n {
        let t = match k % 5 {
            0 => g.rng.range(lo, hi),
            1 => g.rng.range(-100_000_000_000, 100_000_000_000),
            2 => if g.rng.chance(1, 2) { g.rng.range(-200_000, 200_000) } else { g.rng.range(-3_000_000, 3_000_000) * *g.rng.pick(&[60i128, 3_600, 86_400]) },
            3 => if g.rng.chance(1, 2) { g.rng.range(hi - 200_000, hi + 200_000) } else { g.rng.range(lo - 200_000, lo + 200_000) },
            _ => g.rng.range(i64::MIN as i128, i64::MAX as i128),
        };
        let op = if g.rng.chance(1, 2) { "dt_from_ts" } else { "date_from_ts" };
        g.push(true, Input::new(op, vec![t]));
    }
    for k in 0..n {
        let (a, mut b) = (dt_pool(g), dt_pool(g));
        if k % 4 == 0 { b = (a.0, a.1, off_pool(g)); if (b.0 * NPD + b.1 + b.2 * NPS) < DAY_MIN as i128 * NPD || (b.0 * NPD + b.1 + b.2 * NPS) >= (DAY_MAX as i128 + 1) * NPD { b.2 = 0; } }
        if k % 4 == 1 { b = (a.0 + 1, a.1, b.2); if b.0 > DAY_MAX as i128 - 2 { b.0 = a.0 - 1; } }
        if k % 16 == 2 { // far apart: more than i32::MAX days between the two day numbers
            let lo_d = DAY_MIN as i128 + g.rng.range(0, 1_000_000); let hi_d = DAY_MAX as i128 - g.rng.range(0, 1_000_000);
            let (x, y) = if g.rng.chance(1, 2) { (lo_d, hi_d) } else { (hi_d, lo_d) };
            g.push(true, Input::new("dt_cmp", vec![x, a.1, 0, y, b.1, 0]));
            for u in [6i128, 0, 2] { g.push(true, Input::new("dt_since", vec![u, x, a.1, 0, y, b.1, 0])); }
        }
        g.push(true, Input::new("dt_cmp", vec![a.0, a.1, a.2, b.0, b.1, b.2]));
        // the same instant reached through + Time / + Duration (sums landing exactly on midnight included) against the value built directly
        if k % 3 == 0 && a.0 > DAY_MIN as i128 + 2 {
            let n1 = if k % 2 == 0 { 0 } else { a.1 };
            let t = *g.rng.pick(&[1i128, NPS, 43_200 * NPS, NPD - 1, NPD - NPS, 3_600 * NPS, 2 * NPD, NPD]);
            let other = if k % 4 == 0 { (a.0, n1, off_pool(g)) } else { (b.0, b.1, b.2) };
            g.push(true, Input::with_strs("dt_cmp", vec![a.0, n1, a.2, other.0, other.1, if k % 4 == 0 { 0 } else { other.2 }], vec![format!("sum:{}", t)]));
        }
        // the sign of every *_since difference agrees with the order
        g.push(true, Input::new("dt_since", vec![(k % 7) as i128, a.0, a.1, a.2, b.0, b.1, b.2]));
        if k % 3 == 0 { let (tn, to) = (nanos_pool(g), off_pool(g)); let (un, uo) = (nanos_pool(g), off_pool(g));
            g.push(true, Input::new("time_since", vec![(k % 6) as i128, tn, to, un, uo])); }
        if k % 5 == 0 {
            g.push(a.0 != b.0, Input::new("date_cmp", vec![a.0, b.0]));
            g.push(a.1 != b.1, Input::new("time_cmp", vec![a.1, a.2, b.1, b.2]));
        }
    }
}

pub fn gen_c04(g: &mut Gen, tier: &str) {
    let n = if tier == "thorough" { 150_000 } else { 5_000 };
    // the two ends of the range, with offsets pointing outward and inward: the result is representable although a local
    // intermediate value is not (and the other way round)
    for o in [0i128, 1, -1, 3_600, -3_600, 86_399, -86_399] {
        for (d, nn) in [(DAY_MAX as i128, NPD - 1), (DAY_MAX as i128, 84_600 * NPS), (DAY_MAX as i128 - 1, 84_600 * NPS), (DAY_MAX as i128 - 1, 0),
                        (DAY_MIN as i128, 0), (DAY_MIN as i128, 1_800 * NPS), (DAY_MIN as i128 + 1, 1_800 * NPS), (DAY_MIN as i128 + 1, NPD - 1)] {
            let l = d * NPD + nn + o * NPS;
            if l < DAY_MIN as i128 * NPD || l >= (DAY_MAX as i128 + 1) * NPD { continue; }
            for u in 0..7i128 { for c in [0i128, 1, 2] { for op in ["dt_add", "dt_sub"] { g.push(true, Input::new(op, vec![u, d, nn, o, c])); } } }
        }
    }
    for k in 0..n {
        let v = dt_pool(g);
        let u = (g.rng.next() % 7) as i128;
        let mut c = count_pool(g);
        let op = if k % 2 == 0 { "dt_add" } else { "dt_sub" };
        // one time in six the count is aligned with the time of day, so that the result is exactly 00:00:00 (or one unit
        // before / after it) of another day: whole-day borrows and carries
        if k % 6 == 5 {
            let unit_ns: i128 = match u { 0 => 3_600 * NPS, 1 => 60 * NPS, 2 => NPS, 3 => 1_000_000, 4 => 1_000, 5 => 1, _ => NPD };
            let tod = v.1; // UTC time of day in ns
            let to_boundary = if k % 2 == 0 { (NPD - tod) / unit_ns } else { tod / unit_ns };
            let whole_days = g.rng.range(0, 3) * (NPD / unit_ns);
            let cand = to_boundary + whole_days + *g.rng.pick(&[0i128, 0, 1, -1]);
            if cand >= 0 && cand <= U32M { c = cand; }
        }
        g.push(c != 0, Input::new(op, vec![u, v.0, v.1, v.2, c]));
    }
    for k in 0..n / 2 {
        let v = dt_pool(g);
        let secs = match k % 6 {
            0 => g.rng.range(0, 200_000),
            1 => g.rng.range(0, 400_000_000_000_000),
            2 => *g.rng.pick(&[0i128, 1, 86_399, 86_400, 86_401, 185_542_587_187_199, 371_085_174_374_399, 371_085_174_374_400, u64::MAX as i128, u64::MAX as i128 - 1, i64::MAX as i128, i64::MAX as i128 + 1]),
            3 => g.rng.range(0, u64::MAX as i128),
            _ => g.rng.range(0, 4_000_000_000),
        };
        let ns = *g.rng.pick(&[0i128, 1, 999_999_999, 500_000_000]);
        let op = *g.rng.pick(&["dt_add_dur", "dt_sub_dur"]);
        g.push(true, Input::new(op, vec![v.0, v.1, v.2, secs, ns]));
        let dop = *g.rng.pick(&["date_add_dur", "date_sub_dur"]);
        g.push(true, Input::new(dop, vec![v.0, secs, ns]));
        let top = *g.rng.pick(&["dt_add_time", "dt_sub_time"]);
        let (tn, to) = (nanos_pool(g), off_pool(g));
        g.push(true, Input::new(top, vec![v.0, v.1, v.2, tn, to]));
        let c = count_pool(g);
        let aop = *g.rng.pick(&["date_add_days", "date_sub_days"]);
        g.push(c != 0, Input::new(aop, vec![v.0, c]));
    }
}

pub fn gen_c06(g: &mut Gen, tier: &str) {
    let n = if tier == "thorough" { 150_000 } else { 5_000 };
    for k in 0..n {
        let a = dt_pool(g);
        let u = (g.rng.next() % 7) as i128;
        let unit = UNIT[u as usize];
        // b: equal totals, adjacent totals with remainders ordered both ways, straddling day 0, far away
        let b = match k % 6 {
            0 => dt_pool(g),
            1 | 2 | 3 => {
                let ia = a.0 * NPD + a.1;
                let delta = match k % 6 { 1 => g.rng.range(-unit + 1, unit - 1), 2 => g.rng.range(-2 * unit, 2 * unit), _ => unit * g.rng.range(-3, 3) + g.rng.range(-1, 1) };
                let ib = (ia + delta).clamp(DAY_MIN as i128 * NPD, DAY_MAX as i128 * NPD + NPD - 1);
                (ib.div_euclid(NPD), ib.rem_euclid(NPD), 0)
            }
            4 => (-(a.0.abs() % 1000) - 1, nanos_pool(g), off_pool(g)),
            _ => (a.0, nanos_pool(g), 0),
        };
        g.push(a != b, Input::new("dt_since", vec![u, a.0, a.1, a.2, b.0, b.1, b.2]));
        if k % 4 == 0 {
            g.push(a != b, Input::new("dt_dur_between", vec![a.0, a.1, a.2, b.0, b.1, b.2]));
            g.push(a.0 != b.0, Input::new("date_days_since", vec![a.0, b.0]));
            g.push(a.0 != b.0, Input::new("date_dur_between", vec![a.0, b.0]));
        }
        if k % 3 == 0 {
            let tu = (g.rng.next() % 6) as i128;
            let tb = if k % 2 == 0 { (a.1 + g.rng.range(-UNIT[tu as usize], UNIT[tu as usize])).rem_euclid(NPD) } else { nanos_pool(g) };
            g.push(a.1 != tb, Input::new("time_since", vec![tu, a.1, a.2, tb, b.2]));
            g.push(a.1 != tb, Input::new("time_dur_between", vec![a.1, a.2, tb, b.2]));
        }
    }
}

pub fn gen_c08(g: &mut Gen, tier: &str) {
    let n = if tier == "thorough" { 120_000 } else { 4_000 };
    let b: Vec<i128> = vec![0, 1, 22, 23, 24, 25, 58, 59, 60, 61, 86_399, 86_400, 86_401, (1 << 31) - 1, 1 << 31, U32M - 1, U32M];
    for h in &b { for m in &[0i128, 59, 60, U32M] { for s in &[0i128, 59, 60, U32M] {
        g.push(true, Input::new("time_ctor", vec![0, *h, *m, *s]));
    } } }
    for s in &b { g.push(true, Input::new("time_ctor", vec![1, *s])); }
    for x in &[0i128, 1, NPD - 1, NPD, NPD + 1, u64::MAX as i128, u64::MAX as i128 - 1, 1 << 63, (1 << 63) - 1, 2 * NPD, NPS] {
        g.push(true, Input::new("time_ctor", vec![2, *x]));
    }
    // arguments that alias an in-day value under a narrowing conversion (k * 2^32, 2^16, 2^8 of the unit, plus a remainder)
    for k in 1..=4i128 { for unit in [1i128, NPS, 60 * NPS, 3_600 * NPS] { for r in [0i128, 1, 86_399 * NPS + 999_999_999, 43_200 * NPS] {
        let x = k * (1i128 << 32) * unit + r; if x <= u64::MAX as i128 { g.push(true, Input::new("time_ctor", vec![2, x])); }
    } } }
    for k in 1..=3i128 { for sh in [8u32, 16, 31] { for r in [0i128, 1, 59, 3_599, 86_399] {
        let x = k * (1i128 << sh) * 86_400 + r; if x <= U32M { g.push(true, Input::new("time_ctor", vec![1, x])); }
        let y = (k << sh) + r % 60; if y <= U32M { g.push(true, Input::new("time_ctor", vec![0, y, r % 60, r % 60])); g.push(true, Input::new("time_ctor", vec![0, r % 24, y, r % 60])); g.push(true, Input::new("time_ctor", vec![0, r % 24, r % 60, y])); }
    } } }
    if tier == "thorough" {
        for s in 0..86_400i128 { g.push(true, Input::new("time_ctor", vec![1, s])); }
    }
    for k in 0..n {
        let (tn, to) = (nanos_pool(g), off_pool(g));
        let u = (g.rng.next() % 6) as i128;
        let c = count_pool(g);
        g.push(c != 0, Input::new(if k % 2 == 0 { "time_add" } else { "time_sub" }, vec![u, tn, to, c]));
        if k % 2 == 0 {
            let (bn, bo) = (nanos_pool(g), off_pool(g));
            g.push(true, Input::new(if k % 4 == 0 { "time_add_time" } else { "time_sub_time" }, vec![tn, to, bn, bo]));
            let secs = match k % 10 { 0 => g.rng.range(0, u64::MAX as i128), 2 => g.rng.range(0, 200_000), 4 => u64::MAX as i128, 6 => g.rng.range(86_000, 87_000), _ => g.rng.range(0, 1 << 40) };
            let ns = *g.rng.pick(&[0i128, 1, 999_999_999, 123_456_789]);
            g.push(true, Input::new(if k % 4 == 0 { "time_add_dur" } else { "time_sub_dur" }, vec![tn, to, secs, ns]));
            g.push(true, Input::new("time_get", vec![tn, to]));
            let v = dt_pool(g);
            g.push(v.0 < 0, Input::new("time_of_dt", vec![v.0, v.1, v.2]));
        }
    }
    // setters, clears and offset changes of a Time (their own oracles are those of C09 / C10; here: the result stays inside the day)
    for k in 0..n / 4 {
        let (tn, to) = (if k % 3 == 0 { *g.rng.pick(&[0i128, 1, NPD - 1, NPD - NPS, NPS - 1, 3_600 * NPS]) } else { nanos_pool(g) }, off_pool(g));
        let tf = 4 + (g.rng.next() % 6) as i128;
        let tx = set_value(g, tf);
        g.push(true, Input::new("time_set", vec![tf, tn, to, tx]));
        let cw = 3 + (g.rng.next() % 6) as i128;
        g.push(true, Input::new("time_clear", vec![cw, tn, to]));
        let o2 = if k % 4 == 0 { *g.rng.pick(&[0i128, 86_399, -86_399, 1, -1]) } else { off_pool(g) };
        g.push(true, Input::new(if k % 2 == 0 { "time_set_offset" } else { "time_as_offset" }, vec![tn, to, o2]));
    }
    // Times obtained from text (Time::parse, Time::from_str): also "obtainable through the public API"
    crate::text::gen_time_text(g, n / 4);
}

pub fn gen_c02(g: &mut Gen, tier: &str) {
    let n = if tier == "thorough" { 150_000 } else { 3_000 };
    let mut days: Vec<i64> = vec![];
    for b in [DAY_MIN, DAY_MAX, 0, 719_162, 730_179] {
        for k in -8..=8 { days.push(b + k); }
    }
    let mut years: Vec<i64> = (-30..=30).collect();
    years.extend(1990..=2035);
    years.extend([-401, -400, -399, -101, -100, -99, 1600, 1700, 1900, 2100, 2400, YEAR_MIN + 1, YEAR_MAX - 1]);
    for y in years {
        if y == 0 { continue; }
        for dd in 25..=31 { days.push(days_from_ymd(y, 12, dd)); }
        for dd in 1..=7 { days.push(days_from_ymd(y, 1, dd)); }
        for (m, dd) in [(2, 28), (3, 1), (3, 31), (4, 1), (6, 30), (7, 1), (9, 30), (10, 1)] { days.push(days_from_ymd(y, m, dd)); }
    }
    days.retain(|d| *d >= DAY_MIN && *d <= DAY_MAX);
    days.sort(); days.dedup();
    for d in &days { g.push(true, Input::new("date_info", vec![*d as i128])); }
    for _ in 0..n {
        let d = day_pool(g);
        g.push(true, Input::new("date_info", vec![d]));
        let v = dt_pool(g);
        g.push(v.2 != 0, Input::new("dt_info", vec![v.0, v.1, v.2]));
        // set_day_of_year on a DateTime with an offset (local year, local day; near midnight the two calendars differ)
        if v.2 != 0 { let x = *g.rng.pick(&[1i128, 2, 59, 60, 61, 100, 364, 365, 366, 0, 367]); g.push(true, Input::new("dt_set", vec![3, v.0, v.1, v.2, x])); }
    }
    let doys: [i128; 12] = [0, 1, 2, 59, 60, 61, 173, 174, 193, 194, 365, 366];
    for _ in 0..n / 2 {
        let d = day_pool(g);
        let x = match g.rng.next() % 4 { 0 => 367, 1 => U32M, 2 => g.rng.range(0, 370), _ => *g.rng.pick(&doys) };
        g.push(true, Input::new("date_set", vec![3, d, x]));
    }
    for d in [DAY_MIN, DAY_MIN + 100, DAY_MAX, DAY_MAX - 100] {
        for x in doys { g.push(true, Input::new("date_set", vec![3, d as i128, x])); }
    }
}

fn special_date_day(g: &mut Gen) -> i128 {
    // month ends, 29 Feb (AD/BC), era boundary, range ends
    let y = match g.rng.next() % 6 {
        0 => g.rng.range(-8, 8), 1 => g.rng.range(2016, 2026), 2 => *g.rng.pick(&[-401i128, -400, -101, -100, -5, -4, -1, 1, 4, 100, 400, 1900, 2000, 2100]),
        3 => *g.rng.pick(&[YEAR_MIN as i128 + 1, YEAR_MIN as i128 + 2, YEAR_MAX as i128 - 1, YEAR_MAX as i128 - 2]),
        _ => g.rng.range(-3000, 3000),
    };
    let y = if y == 0 { 1 } else { y } as i64;
    let m = g.rng.range(1, 12) as i64;
    let d = match g.rng.next() % 4 { 0 => mlen(y, m), 1 => 1, 2 => (mlen(y, m) - 1).max(28).min(mlen(y, m)), _ => g.rng.range(1, mlen(y, m) as i128) as i64 };
    days_from_ymd(y, m, d) as i128
}

pub fn gen_c05(g: &mut Gen, tier: &str) {
    let n = if tier == "thorough" { 150_000 } else { 5_000 };
    let counts: [i128; 22] = [0, 1, 2, 5, 11, 12, 13, 23, 24, 25, 48, 1200, 4800, 141_110_663, 141_110_664, 141_110_665, 11_759_222, 11_759_223, (1 << 31) - 1, 1 << 31, U32M - 5, U32M];
    for k in 0..n {
        let d = if k % 3 == 0 { day_pool(g) } else { special_date_day(g) };
        let kind = (g.rng.next() % 4) as i128;
        let c = match g.rng.next() % 5 { 0 | 1 => *g.rng.pick(&counts), 2 => g.rng.range(0, 60), 3 => g.rng.range(0, 150_000_000), _ => g.rng.range(0, U32M) };
        if k % 4 == 0 {
            let (nn, o) = (nanos_pool(g), if g.rng.chance(1, 2) { 0 } else { off_pool(g) });
            let local = d * NPD + nn + o * NPS;
            if local >= DAY_MIN as i128 * NPD && local < (DAY_MAX as i128 + 1) * NPD {
                g.push(c != 0, Input::new("dt_addm", vec![kind, d, nn, o, c]));
                continue;
            }
        }
        g.push(c != 0, Input::new("date_addm", vec![kind, d, c]));
    }
    // 29 February moved by multiples of four years / 48 months into and across century years (common: 1900, 2100, -101; leap: 2000, -401)
    for y in [1896i64, 1904, 1996, 2000, 2004, 2096, 2104, 4, -1, -5, -97, -101, -105, -397, -401] {
        if !is_leap(y) { continue; }
        let d = days_from_ymd(y, 2, 29) as i128;
        for c in [4i128, 8, 96, 100, 104, 200, 300, 400] { for kind in 0..4i128 {
            let cc = if kind < 2 { c * 12 } else { c };
            g.push(true, Input::new("date_addm", vec![kind, d, cc]));
            g.push(true, Input::new("dt_addm", vec![kind, d, 43_200 * NPS, 3_600, cc]));
        } }
    }
    if tier == "thorough" {
        for y in [-3i64, -2, -1, 1, 2, 3, 2019, 2020, 2021, 2024] {
            for doy in 0..(if is_leap(y) { 366 } else { 365 }) {
                let d = days_from_ymd(y, 1, 1) + doy;
                for c in 0..=60i128 { for kind in 0..4i128 { g.push(c != 0, Input::new("date_addm", vec![kind, d as i128, c])); } }
            }
        }
    }
}

pub fn gen_c07(g: &mut Gen, tier: &str) {
    let n = if tier == "thorough" { 200_000 } else { 6_000 };
    for k in 0..n {
        let a = special_date_day(g);
        let b = match k % 5 {
            0 => special_date_day(g),
            1 => a + g.rng.range(-70, 70),
            2 => a + g.rng.range(-800, 800),
            3 => day_pool(g),
            _ => a + *g.rng.pick(&[-366i128, -365, -31, -30, -29, -28, -1, 0, 1, 28, 29, 30, 31, 365, 366]),
        };
        let b = b.clamp(DAY_MIN as i128, DAY_MAX as i128);
        if k % 3 == 0 {
            let (na, nb) = (nanos_pool(g), nanos_pool(g));
            let nb = if k % 2 == 0 { na } else { nb };
            // offsets must not matter: months are counted between the instants' UTC calendar readings
            let (oa, ob) = match k % 4 { 0 => (0, 0), 1 => { let o = off_pool(g); (o, o) } _ => (off_pool(g), off_pool(g)) };
            let ok = |d: i128, n: i128, o: i128| { let l = d * NPD + n + o * NPS; l >= DAY_MIN as i128 * NPD && l < (DAY_MAX as i128 + 1) * NPD };
            let (oa, ob) = (if ok(a, na, oa) { oa } else { 0 }, if ok(b, nb, ob) { ob } else { 0 });
            g.push(true, Input::new("dt_ms", vec![a, na, oa, b, nb, ob]));
        } else {
            g.push(a != b, Input::new("date_ms", vec![a, b]));
        }
    }
    if tier == "thorough" {
        // all ordered pairs inside two windows (leap years, era boundary), sub-sampled deterministically by the seed
        let w1: Vec<i64> = (days_from_ymd(-2, 1, 1)..=days_from_ymd(2, 12, 31)).collect();
        let w2: Vec<i64> = (days_from_ymd(2023, 11, 1)..=days_from_ymd(2024, 4, 30)).collect();
        for w in [w1, w2] {
            for (i, a) in w.iter().enumerate() {
                for (j, b) in w.iter().enumerate() {
                    if (i * 31 + j * 17 + (g.rng.0 % 7) as usize) % 7 == 0 { g.push(a != b, Input::new("date_ms", vec![*a as i128, *b as i128])); }
                }
            }
        }
    }
}

fn set_value(g: &mut Gen, f: i128) -> i128 {
    let maxv: i128 = match f { 0 => 5_879_611, 1 => 12, 2 => 31, 3 => 366, 4 => 23, 5 | 6 => 59, 7 => 999, 8 => 999_999, _ => 999_999_999 };
    match g.rng.next() % 8 {
        0 => 0, 1 => 1, 2 => maxv, 3 => maxv + 1, 4 => maxv - 1, 5 => if f == 0 { *g.rng.pick(&[i32::MAX as i128, i32::MIN as i128, -5_879_611, -5_879_612]) } else { U32M },
        6 => if f == 0 { g.rng.range(-5_879_612, 5_879_612) } else { g.rng.range(0, maxv) },
        _ => if f == 0 { g.rng.range(-3000, 3000) } else if f == 2 { g.rng.range(27, 32) } else { g.rng.range(0, maxv + 2) },
    }
}
/// values whose local date differs from the UTC date, month/year ends, leap days, range ends
fn edgy_dt(g: &mut Gen) -> (i128, i128, i128) {
    loop {
        let d = if g.rng.chance(1, 2) { special_date_day(g) } else { day_pool(g) };
        let (n, o) = match g.rng.next() % 5 {
            0 => (23 * 3600 * NPS + 1800 * NPS + g.rng.range(0, 999_999_999), 3600),
            1 => (900 * NPS + g.rng.range(0, 999_999_999), -1800),
            2 => (nanos_pool(g), off_pool(g)),
            3 => (NPD - 1, *g.rng.pick(&[1i128, 86_399, -86_399, 0])),
            _ => (nanos_pool(g), 0),
        };
        let local = d * NPD + n + o * NPS;
        if local >= DAY_MIN as i128 * NPD && local < (DAY_MAX as i128 + 1) * NPD { return (d, n, o); }
    }
}

pub fn gen_c09(g: &mut Gen, tier: &str) {
    let n = if tier == "thorough" { 120_000 } else { 5_000 };
    for k in 0..n {
        let v = edgy_dt(g);
        let f = (g.rng.next() % 10) as i128;
        let x = if f == 0 && g.rng.chance(1, 3) { let y = g.rng.range(-30, 30); if y == 0 { 1 } else { y } } else { set_value(g, f) };
        g.push(true, Input::new("dt_set", vec![f, v.0, v.1, v.2, x]));
        if k % 2 == 0 { { let __i = Input::new("dt_clear", vec![(g.rng.next() % 9) as i128, v.0, v.1, v.2]); g.push(true, __i); } }
        if k % 3 == 0 {
            let tf = 4 + (g.rng.next() % 6) as i128;
            let tx = set_value(g, tf);
            g.push(true, Input::new("time_set", vec![tf, v.1, v.2, tx]));
            { let __i = Input::new("time_clear", vec![3 + (g.rng.next() % 6) as i128, v.1, v.2]); g.push(true, __i); }
        }
        if k % 3 == 1 {
            let df = (g.rng.next() % 3) as i128;
            let dx = set_value(g, df);
            g.push(true, Input::new("date_set", vec![df, v.0, dx]));
            { let __i = Input::new("date_clear", vec![(g.rng.next() % 3) as i128, v.0]); g.push(true, __i); }
        }
    }
    // range ends: local edits that fall off the representable range
    for (d, nn, o) in [(DAY_MAX as i128, 23 * 3600 * NPS, -3600i128), (DAY_MIN as i128, 0, 3600), (DAY_MAX as i128, NPD - 1, 0), (DAY_MIN as i128, 0, 0), (DAY_MAX as i128, 0, -86_399), (DAY_MIN as i128 + 1, 0, 86_399)] {
        for f in 0..10i128 { for x in [0i128, 1, 12, 23, 28, 59, 999] { g.push(true, Input::new("dt_set", vec![f, d, nn, o, x])); } }
        for w in 0..9i128 { g.push(true, Input::new("dt_clear", vec![w, d, nn, o])); }
    }
}

pub fn gen_c10(g: &mut Gen, tier: &str) {
    let n = if tier == "thorough" { 120_000 } else { 5_000 };
    for s in [-86_401i128, -86_400, -86_399, -86_398, -3_601, -3_600, -3_599, -60, -59, -1, 0, 1, 59, 60, 3_599, 3_600, 86_398, 86_399, 86_400, 86_401, i32::MIN as i128, i32::MAX as i128] {
        g.push(true, Input::new("offset_from_seconds", vec![s]));
    }
    for h in [-25i128, -24, -23, -12, -1, 0, 1, 12, 23, 24, 25, i32::MIN as i128, i32::MAX as i128] {
        for m in [0i128, 1, 30, 59, 60, U32M] { for s in [0i128, 1, 59, 60, U32M] { g.push(true, Input::new("offset_from_hms", vec![h, m, s])); } }
    }
    if tier == "thorough" {
        for s in -86_399..=86_399i128 { g.push(true, Input::new("offset_from_seconds", vec![s])); }
    }
    for k in 0..n {
        let v = edgy_dt(g);
        let o2 = off_pool(g);
        g.push(o2 != v.2, Input::new(if k % 2 == 0 { "dt_set_offset" } else { "dt_as_offset" }, vec![v.0, v.1, v.2, o2]));
        g.push(v.2 != 0, Input::new("dt_get", vec![v.0, v.1, v.2]));
        if k % 2 == 0 { let (tn, to) = (nanos_pool(g), off_pool(g)); g.push(to != 0, Input::new("time_get", vec![tn, to])); }
        if k % 3 == 0 {
            g.push(true, Input::new(if k % 2 == 0 { "time_set_offset" } else { "time_as_offset" }, vec![v.1, v.2, o2]));
            { let __i = Input::new("offset_from_seconds", vec![g.rng.range(-90_000, 90_000)]); g.push(true, __i); }
            { let __i = Input::new("offset_from_hms", vec![g.rng.range(-25, 25), g.rng.range(0, 61), g.rng.range(0, 61)]); g.push(true, __i); }
        }
    }
}

pub fn gen_c15(g: &mut Gen, tier: &str) {
    let n = if tier == "thorough" { 120_000 } else { 4_000 };
    crate::c01::generate_triples(g, n);
    // every constructor at both ends of its argument type and around its documented range
    for s in [-86_401i128, -86_400, -86_399, -1, 0, 1, 86_399, 86_400, 86_401, i32::MIN as i128, i32::MIN as i128 + 1, i32::MAX as i128, i32::MAX as i128 - 1] {
        g.push(true, Input::new("offset_from_seconds", vec![s]));
    }
    for h in [-24i128, -23, -1, 0, 1, 23, 24, i32::MIN as i128, i32::MAX as i128] { for m in [0i128, 59, 60, U32M] { for s in [0i128, 59, 60, U32M] {
        g.push(true, Input::new("offset_from_hms", vec![h, m, s]));
    } } }
    for s in [0i128, 1, 86_399, 86_400, 86_401, (1 << 31), U32M] { g.push(true, Input::new("time_ctor", vec![1, s])); }
    for x in [0i128, 1, NPD - 1, NPD, NPD + 1, (1i128 << 63), u64::MAX as i128] { g.push(true, Input::new("time_ctor", vec![2, x])); }
    // arguments that alias an in-range value when an inner conversion narrows them: k * 2^32 (and 2^16, 2^8) of the unit the
    // code converts to (nanoseconds, seconds, minutes, hours), plus a small in-range remainder
    for k in 1..=4i128 { for unit in [1i128, NPS, 60 * NPS, 3_600 * NPS] { for r in [0i128, 1, 86_399 * NPS + 999_999_999, 43_200 * NPS] {
        let x = k * (1i128 << 32) * unit + r; if x <= u64::MAX as i128 { g.push(true, Input::new("time_ctor", vec![2, x])); }
    } } }
    for k in 1..=3i128 { for sh in [8u32, 16, 31] { for r in [0i128, 1, 59, 3_599, 86_399] {
        let x = k * (1i128 << sh) * 86_400 + r; if x <= U32M { g.push(true, Input::new("time_ctor", vec![1, x])); }
        let y = (k << sh) + r % 60; if y <= U32M { g.push(true, Input::new("time_ctor", vec![0, y % (1 << 32), r % 60, r % 60])); g.push(true, Input::new("time_ctor", vec![0, r % 24, y, r % 60])); g.push(true, Input::new("time_ctor", vec![0, r % 24, r % 60, y])); }
    } } }
    let bh: [i128; 9] = [0, 1, 22, 23, 24, 59, 60, (1 << 31), U32M];
    for h in bh { for m in [0i128, 59, 60, U32M] { for s in [0i128, 59, 60, U32M] {
        g.push(true, Input::new("dt_from_hms", vec![h, m, s]));
        g.push(true, Input::new("time_ctor", vec![0, h, m, s]));
        g.push(true, Input::new("dt_from_ymdhms", vec![2024, 2, 29, h, m, s]));
    } } }
    for _ in 0..n {
        let y = if g.rng.chance(1, 4) { g.rng.range(-5_879_612, 5_879_612) } else { g.rng.range(-3000, 3000) };
        let (mo, d) = (g.rng.range(0, 13), g.rng.range(0, 32));
        let (h, mi, s) = (g.rng.range(0, 25), g.rng.range(0, 61), g.rng.range(0, 61));
        g.push(true, Input::new("dt_from_ymdhms", vec![y, mo, d, h, mi, s]));
        { let __i = Input::new("time_ctor", vec![1, g.rng.range(86_000, 87_000)]); g.push(true, __i); }
        { let __i = Input::new("time_ctor", vec![2, g.rng.range(NPD - 1000, NPD + 1000)]); g.push(true, __i); }
        { let __i = Input::new("offset_from_seconds", vec![g.rng.range(-87_000, 87_000)]); g.push(true, __i); }
        { let __i = Input::new("offset_from_hms", vec![g.rng.range(-25, 25), g.rng.range(0, 61), g.rng.range(0, 61)]); g.push(true, __i); }
        let v = edgy_dt(g);
        let f = (g.rng.next() % 10) as i128;
        { let __i = Input::new("dt_set", vec![f, v.0, v.1, v.2, set_value(g, f)]); g.push(true, __i); }
        let tf = 4 + (g.rng.next() % 6) as i128;
        { let __i = Input::new("time_set", vec![tf, v.1, v.2, set_value(g, tf)]); g.push(true, __i); }
        let df = (g.rng.next() % 4) as i128;
        { let __i = Input::new("date_set", vec![df, v.0, set_value(g, df)]); g.push(true, __i); }
    }
    for (d, nn, o) in [(DAY_MAX as i128, 23 * 3600 * NPS, -3600i128), (DAY_MIN as i128, 0, 3600)] {
        for f in 0..10i128 { for x in [0i128, 1, 12, 23, 28, 59, 999] { g.push(true, Input::new("dt_set", vec![f, d, nn, o, x])); } }
    }
    // the first and the last representable seconds with an offset pointing outward (also offsets that are no whole number of
    // minutes): an in-range field value may push the instant out of the range - an OutOfRange error, never a panic
    for o in [1i128, 20, 59, 61, 1_800, 3_599, 3_661, 86_399] {
        for (d, nn, off) in [(DAY_MAX as i128, NPD - (o / 2 + 1).min(86_399) * NPS, -o), (DAY_MAX as i128, NPD - 1, -o),
                             (DAY_MIN as i128, (o / 2).min(86_399) * NPS, o), (DAY_MIN as i128, 0, o)] {
            for f in 4..10i128 { for x in [0i128, 1, 19, 20, 29, 30, 39, 40, 58, 59, 60, 999, 999_999, 999_999_999] {
                g.push(true, Input::new("dt_set", vec![f, d, nn, off, x]));
            } }
        }
    }
}
