(* ValueFields.v — what a value shows (the documented getters), as the record PatternSpec.render reads (C11, C20).
   Calendar fields come from days_to_date (characterised by C01), day of year from rd (C02), ISO week from the
   executable ISO-8601 definition (C02), clock fields by division of the local time of day. *)
From Astro Require Import Base Text CalSpec DateModel TimeModel ApiModel InstantSpec PatternSpec DateProofs WeekProofs.

Definition NPDz := NANOS_PER_DAY.
Definition fields_of_day (d : Z) (clock off : Z) : vfields :=
  let '(y, m, dd) := days_to_date d in
  mkVF (d <? 0) y m dd (1 + d - rd (y, 1, 1)) ((d + 1) mod 7) (iso_week_exec d)
       (clock / NANOS_PER_HOUR) (clock / NANOS_PER_MINUTE mod 60) (clock / NANOS_PER_SEC mod 60) (clock mod NANOS_PER_SEC) off.
Definition fields_of (kind : Z) (val : list Z) : option vfields :=
  match kind, val with
  | 0, [d] => Some (fields_of_day d 0 0)
  | 1, [n; o] => Some (fields_of_day 0 ((n + o * NANOS_PER_SEC) mod NPDz) o)
  | 2, [d; n; o] => let l := d * NPDz + n + o * NANOS_PER_SEC in Some (fields_of_day (l / NPDz) (l mod NPDz) o)
  | _, _ => None
  end.
