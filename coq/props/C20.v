(* C20 — default text forms (Display, FromStr, serde) name the value they came from.
   Model: Display = format with "yyyy/MM/dd", "HH:mm:ss", "yyyy/MM/dd HH:mm:ss" (ParseModel.date_display ...);
   Serialize = format with "yyyy-MM-dd", "HH:mm:ss", format_rfc3339(Seconds); Deserialize = FromStr =
   parse with "yyyy-MM-dd" / "HH:mm:ss" / parse_rfc3339, an Err mapped to a serde error.
   date_text sep d = sign-and-4-digit year, sep, 2-digit month, sep, 2-digit day of the date of day number d;
   clock_text n    = 2-digit hour ":" 2-digit minute ":" 2-digit second of the time of day n
   (zero_padded n k is the k-digit decimal expansion: PadProofs.zero_padded_dec).
   NOT in the model: the serde framework itself (that it hands the serializer's string to the deserializer unchanged);
   the harness runs the real serde_json round trip. *)
From Astro Require Import Base Text CalSpec DateModel TimeModel ApiModel InstantSpec FormatModel ParseModel
  ClockProofs TextProofs PadProofs RfcSpec RfcProofs FieldProofs.

(* Display: the documented fixed patterns applied to the value read in its offset *)
Theorem C20_display_date : forall d, date_display d = Ok (date_text 47 d).
Proof. exact date_display_text. Qed.
Theorem C20_display_time : forall t, time_display t = Ok (clock_text (add_offset_to_nanos (tm_nanos t) (tm_off t))).
Proof. exact time_display_text. Qed.
Theorem C20_display_datetime : forall v, Inv_dt v /\ inst_in_range (local_instant v) ->
  dt_display v = Ok ((date_text 47 (local_instant v / D) ++ [32] ++ clock_text (local_instant v mod D)) ++ []).
Proof. exact dt_display_text. Qed.

(* serde: deserializing what was serialized *)
(* every Date in range (all eras, years beyond 9999 and negative years included) comes back as itself *)
Theorem C20_serde_date : forall now d, in_i32 d -> exists s, date_serialize d = Ok s /\ date_from_str now s = Ok d.
Proof. exact date_serde_roundtrip. Qed.
(* every Time comes back showing the same HH:mm:ss: its local time of day truncated to the second, offset dropped *)
Theorem C20_serde_time : forall t, exists s, time_serialize t = Ok s /\
  time_from_str s = Ok (mkTM (add_offset_to_nanos (tm_nanos t) (tm_off t) / NANOS_PER_SEC * NANOS_PER_SEC) 0).
Proof. exact time_serde_roundtrip. Qed.
(* every DateTime in local years 0001-9999 with a whole-minute offset comes back with the same offset and the same
   instant to the second *)
Theorem C20_serde_datetime : forall v, Inv_dt v /\ inst_in_range (local_instant v) -> dt_off v mod 60 = 0 ->
  (let '(y, _, _) := days_to_date (local_instant v / D) in 1 <= y <= 9999) ->
  exists s v', dt_serialize v = Ok s /\ dt_from_str s = Ok v' /\ dt_off v' = dt_off v /\
    instant v' = local_instant v / NANOS_PER_SEC * NANOS_PER_SEC - dt_off v * NANOS_PER_SEC /\
    (Inv_dt v' /\ inst_in_range (local_instant v')).
Proof. intros v Hv Hm Hy. exact (rfc_roundtrip v 0 Hv (or_introl eq_refl) Hm Hy). Qed.
(* malformed strings: FromStr (hence Deserialize) returns an error or a valid value, never a panic *)
Theorem C20_from_str_total : forall now s,
  (date_from_str now s <> Panic /\ forall d, date_from_str now s = Ok d -> in_i32 d) /\
  (time_from_str s <> Panic /\ forall t, time_from_str s = Ok t -> Inv_tm t) /\
  (dt_from_str s <> Panic /\ forall v, dt_from_str s = Ok v -> Inv_dt v /\ inst_in_range (local_instant v)).
Proof.
  intros now s.
  exact (conj (conj (date_parse_np now s P_DATE_ISO) (date_parse_valid now s P_DATE_ISO))
        (conj (conj (time_parse_np s P_TIME) (time_parse_valid s P_TIME)) (rfc_parse_total s))).
Qed.

(* non-vacuity: -0005-03-15 (day -1753), a year beyond 9999, and a time with an offset *)
Example C20_examples :
  date_text 45 (-1753) = [45;48;48;48;53;45;48;51;45;49;53] /\ date_from_str 2024 [45;48;48;48;53;45;48;51;45;49;53] = Ok (-1753) /\
  date_text 47 4000000 = [49;48;57;53;50;47;48;56;47;49;56] /\ in_i32 4000000 /\
  clock_text 3723000000000 = [48;49;58;48;50;58;48;51].
Proof. repeat split; try (vm_compute; reflexivity); unfold I32_MIN, I32_MAX; lia. Qed.

Print Assumptions C20_display_date.
Print Assumptions C20_display_time.
Print Assumptions C20_display_datetime.
Print Assumptions C20_serde_date.
Print Assumptions C20_serde_time.
Print Assumptions C20_serde_datetime.
Print Assumptions C20_from_str_total.
