(* C06, "hence is antisymmetric ... duration_between ... is symmetric": the laws for every unit and every type,
   as corollaries of the exact-difference theorems. *)
From Coq Require Import ZArith Lia.
From Astro Require Import Base DateModel TimeModel ApiModel InstantSpec TimeProofs SinceTime.
Local Open Scope Z_scope.

Lemma quot_antisym x y k : 0 < k -> Z.quot (x - y) k = - Z.quot (y - x) k.
Proof.
  intro Hk. replace (y - x) with (- (x - y)) by lia. rewrite Z.quot_opp_l by lia. lia.
Qed.

Definition dt_antisym_all (a b : DT) : Prop :=
  dt_days_since a b = - dt_days_since b a /\ dt_hours_since a b = - dt_hours_since b a /\
  dt_minutes_since a b = - dt_minutes_since b a /\ dt_seconds_since a b = - dt_seconds_since b a /\
  dt_millis_since a b = - dt_millis_since b a /\ dt_micros_since a b = - dt_micros_since b a /\
  dt_nanos_since a b = - dt_nanos_since b a.

Lemma dt_since_antisym a b : Inv_dt a -> Inv_dt b -> dt_antisym_all a b.
Proof.
  intros Ia Ib. unfold dt_antisym_all.
  rewrite c06_days, (c06_days b a), c06_hours, (c06_hours b a), c06_minutes, (c06_minutes b a),
    c06_seconds, (c06_seconds b a), c06_millis, (c06_millis b a), c06_micros, (c06_micros b a),
    c06_nanos, (c06_nanos b a) by assumption.
  repeat split; try (apply quot_antisym; unfold_consts; lia). ring.
Qed.

Definition tm_antisym_all (a b : TM) : Prop :=
  time_hours_since a b = - time_hours_since b a /\ time_minutes_since a b = - time_minutes_since b a /\
  time_seconds_since a b = - time_seconds_since b a /\ time_millis_since a b = - time_millis_since b a /\
  time_micros_since a b = - time_micros_since b a /\ time_nanos_since a b = - time_nanos_since b a.

Lemma time_since_antisym a b : Inv_tm a -> Inv_tm b -> tm_antisym_all a b.
Proof.
  intros Ia Ib. unfold tm_antisym_all.
  rewrite time_hours_since_is, (time_hours_since_is b a), time_minutes_since_is, (time_minutes_since_is b a),
    time_seconds_since_is, (time_seconds_since_is b a), time_millis_since_is, (time_millis_since_is b a),
    time_micros_since_is, (time_micros_since_is b a), time_nanos_since_is, (time_nanos_since_is b a) by assumption.
  repeat split; try (apply quot_antisym; unfold_consts; lia). ring.
Qed.

Lemma date_since_antisym a b : date_days_since a b = - date_days_since b a.
Proof. rewrite (date_days_since_is a b), (date_days_since_is b a). lia. Qed.

Lemma duration_between_sym_all :
  (forall a b, Inv_dt a -> Inv_dt b -> dt_duration_between a b = dt_duration_between b a) /\
  (forall a b, time_duration_between a b = time_duration_between b a) /\
  (forall a b, date_duration_between a b = date_duration_between b a).
Proof.
  repeat split; intros.
  - rewrite (c06_duration_between a b), (c06_duration_between b a) by assumption. lia.
  - rewrite (time_duration_between_is a b), (time_duration_between_is b a). lia.
  - rewrite (date_duration_between_is a b), (date_duration_between_is b a). f_equal. lia.
Qed.
