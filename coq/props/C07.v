(* C07 — months_since / years_since count whole calendar months and years. *)
From Astro Require Import Base CalSpec DateModel DateProofs MonthProofs MonthYears.

(* values are (day number, nanoseconds of the day); dn_le / dn_lt order them lexicographically.
   For a >= b with b's day of month <= 28, n = a.months_since(b) satisfies b + n months <= a < b + (n+1) months *)
Theorem C07_char : forall d1 n1 d2 n2,
  let B := days_to_date d2 in
  snd B <= 28 -> dn_le (d2, n2) (d1, n1) ->
  let n := months_between d1 n1 d2 n2 in
  0 <= n /\ dn_le (rd (add_months_spec B n), n2) (d1, n1) /\ dn_lt (d1, n1) (rd (add_months_spec B (n + 1)), n2).
Proof. exact months_char. Qed.
(* ... and that n is unique because adding months is strictly increasing in the count *)
Theorem C07_unique : forall x k k', valid x -> snd x <= 28 -> k < k' -> rd (add_months_spec x k) < rd (add_months_spec x k').
Proof. exact add_months_strict. Qed.
Theorem C07_years : forall d1 n1 d2 n2, years_between d1 n1 d2 n2 = Z.quot (months_between d1 n1 d2 n2) 12.
Proof. exact years_def. Qed.
Theorem C07_antisym : forall d1 n1 d2 n2, months_between d1 n1 d2 n2 = - months_between d2 n2 d1 n1.
Proof. exact months_antisym. Qed.
Theorem C07_mono : forall d1 n1 d1' n1' d2 n2, dn_le (d1, n1) (d1', n1') ->
  months_between d1 n1 d2 n2 <= months_between d1' n1' d2 n2.
Proof. exact months_mono. Qed.

(* the same two laws for years_since, and what "whole years" means: 12 y <= months < 12 (y + 1) *)
Theorem C07_years_antisym : forall d1 n1 d2 n2, years_between d1 n1 d2 n2 = - years_between d2 n2 d1 n1.
Proof. exact years_antisym. Qed.
Theorem C07_years_mono : forall d1 n1 d1' n1' d2 n2, dn_le (d1, n1) (d1', n1') ->
  years_between d1 n1 d2 n2 <= years_between d1' n1' d2 n2.
Proof. exact years_mono. Qed.
Theorem C07_years_bracket : forall d1 n1 d2 n2, 0 <= months_between d1 n1 d2 n2 ->
  let y := years_between d1 n1 d2 n2 in
  0 <= y /\ 12 * y <= months_between d1 n1 d2 n2 < 12 * (y + 1).
Proof. exact years_bracket. Qed.

Example C07_nonvacuous : months_between 738214 0 738185 0 = 1 /\ months_between 738213 0 738185 0 = 0 /\
  months_between 0 0 (-1) 1 = 0 /\ years_between 737849 0 737484 0 = 1.
Proof. repeat split; reflexivity. Qed.

Print Assumptions C07_char.
Print Assumptions C07_unique.
Print Assumptions C07_years.
Print Assumptions C07_antisym.
Print Assumptions C07_mono.
Print Assumptions C07_years_antisym.
Print Assumptions C07_years_mono.
Print Assumptions C07_years_bracket.
