//! C01: day number <-> date.
use crate::civil::*;
use crate::common::*;
use astrolabe::{Date, DateTime, DateUtilities};

pub const ERR_SENTINEL: i128 = 1_000_000_000_000;

pub fn date_days(d: &Date) -> i128 {
    debug_field(&format!("{:?}", d), "days").expect("Date debug")
}
pub fn dt_parts(d: &DateTime) -> (i128, i128, i128) {
    let s = format!("{:?}", d);
    (
        debug_field(&s, "days").expect("dt days"),
        debug_field(&s, "nanoseconds").expect("dt nanos"),
        debug_field(&s, "offset").unwrap_or(ERR_SENTINEL),
    )
}
pub fn ts_of_day(d: i128) -> i64 {
    ((d - 719_162) * 86_400) as i64
}

pub fn generate(g: &mut Gen, tier: &str) {
    let n_rand = if tier == "thorough" { 200_000 } else { 4_000 };
    let bdays = boundary_days();
    let take_boundary: Vec<i64> = if tier == "thorough" {
        bdays.clone()
    } else {
        // every boundary day near the range ends and the era boundary, a deterministic third of the rest
        bdays
            .iter()
            .enumerate()
            .filter(|(i, d)| d.abs() < 1500 || **d < DAY_MIN + 3000 || **d > DAY_MAX - 3000 || i % 3 == (g.rng.0 % 3) as usize)
            .map(|(_, d)| *d)
            .collect()
    };
    for d in take_boundary {
        let op = if d % 2 == 0 { "date_of_days" } else { "dt_of_days" };
        g.push(true, Input::new(op, vec![d as i128]));
    }
    for _ in 0..n_rand {
        let d = g.rng.range(DAY_MIN as i128, DAY_MAX as i128);
        let op = if g.rng.chance(1, 2) { "date_of_days" } else { "dt_of_days" };
        g.push(true, Input::new(op, vec![d]));
    }
    generate_triples(g, n_rand);
}

pub fn generate_triples(g: &mut Gen, n_rand: usize) {
    // triples: boundary product
    let years: Vec<i128> = vec![
        -5_879_612, -5_879_611, -5_879_610, -401, -400, -101, -100, -5, -4, -2, -1, 0, 1, 2, 4, 100, 400, 1900, 1970,
        2000, 2023, 2024, 5_879_610, 5_879_611, 5_879_612, i32::MIN as i128, i32::MAX as i128,
    ];
    let months: Vec<i128> = vec![0, 1, 2, 3, 6, 7, 8, 12, 13, u32::MAX as i128];
    let days: Vec<i128> = vec![0, 1, 12, 13, 22, 23, 28, 29, 30, 31, 32, u32::MAX as i128];
    for y in &years {
        for m in &months {
            for d in &days {
                let op = if (y + m + d) % 2 == 0 { "date_from_ymd" } else { "dt_from_ymd" };
                g.push(true, Input::new(op, vec![*y, *m, *d]));
            }
        }
    }
    for _ in 0..n_rand {
        let y = if g.rng.chance(1, 4) {
            g.rng.range(-5_879_612, 5_879_612)
        } else {
            g.rng.range(-3000, 3000)
        };
        let m = g.rng.range(0, 13);
        let d = if g.rng.chance(1, 2) { g.rng.range(27, 32) } else { g.rng.range(0, 32) };
        let op = if g.rng.chance(1, 2) { "date_from_ymd" } else { "dt_from_ymd" };
        g.push(d >= 28 || y.abs() > 5_879_000 || y == 0, Input::new(op, vec![y, m, d]));
    }
}

pub fn run(inp: &Input) -> Option<Obs> {
    let i = inp.ints.clone();
    Some(match inp.op.as_str() {
        "date_of_days" => guarded(move || {
            let d = i[0];
            let date = Date::from_timestamp(ts_of_day(d));
            let (y, m, dd) = date.as_ymd();
            let (hn, y2, m2, d2) = if d < DAY_MAX as i128 {
                let n = Date::from_timestamp(ts_of_day(d + 1)).as_ymd();
                (1, n.0 as i128, n.1 as i128, n.2 as i128)
            } else {
                (0, 0, 0, 0)
            };
            let rt = match Date::from_ymd(y, m, dd) {
                Ok(x) => date_days(&x),
                Err(_) => ERR_SENTINEL,
            };
            Obs::Ok(vec![date_days(&date), y as i128, m as i128, dd as i128, hn, y2, m2, d2, rt], vec![])
        }),
        "dt_of_days" => guarded(move || {
            let d = i[0];
            let date = DateTime::from_timestamp(ts_of_day(d));
            let (y, m, dd) = date.as_ymd();
            let (hn, y2, m2, d2) = if d < DAY_MAX as i128 {
                let n = DateTime::from_timestamp(ts_of_day(d + 1)).as_ymd();
                (1, n.0 as i128, n.1 as i128, n.2 as i128)
            } else {
                (0, 0, 0, 0)
            };
            let rt = match DateTime::from_ymd(y, m, dd) {
                Ok(x) => dt_parts(&x).0,
                Err(_) => ERR_SENTINEL,
            };
            Obs::Ok(vec![dt_parts(&date).0, y as i128, m as i128, dd as i128, hn, y2, m2, d2, rt], vec![])
        }),
        "date_from_ymd" => guarded(move || match Date::from_ymd(i[0] as i32, i[1] as u32, i[2] as u32) {
            Ok(x) => {
                let (y, m, d) = x.as_ymd();
                Obs::Ok(vec![date_days(&x), y as i128, m as i128, d as i128], vec![])
            }
            Err(e) => err_obs(&e),
        }),
        "dt_from_ymd" => guarded(move || match DateTime::from_ymd(i[0] as i32, i[1] as u32, i[2] as u32) {
            Ok(x) => {
                let (y, m, d) = x.as_ymd();
                Obs::Ok(vec![dt_parts(&x).0, y as i128, m as i128, d as i128], vec![])
            }
            Err(e) => err_obs(&e),
        }),
        _ => return None,
    })
}
