(* WeekSweep7.v — complete enumeration, inside the kernel, of days 127841 .. 146103 of the 400-year cycle. *)
From Astro Require Import Base CalSpec DateModel DateProofs WeekProofs.
Lemma week_sweep_7 : range_all week_ok 127841 (Z.to_nat 18263) = true.
Proof. vm_compute. reflexivity. Qed.
