(* C12 — parsing with the pattern that produced a string recovers the value.
   Patterns are item lists (PatternSpec, see C11); the text is format(v, unparse items) = render items (C11).
   Hypotheses of the round-trip theorems, i.e. the unambiguous-field grammar:
     swf None items      the item grammar of C11;
     fits_chain ...      every field is one the parser can delimit in the text that follows it:
                         y, yyy, yyyy, one-letter numeric fields (M d w H K h k m s) and D/DD are followed by a character
                         that is not a digit (or by the end); yy is excluded; yyyyy+ needs |year| < 10^width; MMMMM
                         (narrow month) is excluded; a zone field must be wide enough for the offset and, where the code
                         looks ahead, must not be followed by text that reads as more of it (FieldProofs.zone_fits);
     has ... u           the pattern contains a field that yields unit u.
   PROVED (RoundTrip.v), for DateTime values and patterns that carry a full date (year and month+day, or year and day of
   year), a full time of day (24-hour field, or 12-hour field with a/b; minute; second; at most one fraction field) and a
   zone: parse(format(v, p), p) is Ok, has the same offset and the same instant truncated to the precision the pattern
   writes, is a valid DateTime, and formatting it with p reproduces the same text.  Literals of any characters (multi-byte
   included), quoted text and '' are covered by the item lemma.
   The per-symbol agreement of formatter and parser (all 19 symbols, every width) is C12_date_symbols / C12_time_symbols.
   The same for the Date type (patterns with a full date; time symbols are literal text there) and for the Time type
   (full time of day and a zone): C12_date_partial, C12_time_partial.
   Partial patterns (PartialTrip.v, PartialTripG.v, PartialTypes.v) - C12_datetime_any, C12_date_any, C12_time_any: the
   pattern may carry ANY part of a date, ANY part of a time of day, and a zone or none.  The hypotheses say which patterns
   determine their own text:
     - month, day of month and day of year are read relative to a year, so the pattern carries the year when it carries
       one of them (without it 29 February and day 366 cannot be read back into the default year 0001);
     - era, quarter, week and weekday are written but never read back, so they stand next to a full date;
     - noon / midnight (b) depend on hour, minute and second, so they stand next to all three;
     - at most one kind of fraction field (as before);
     - the value with the defaults filled in is representable (it can fall outside the range only in the first and last
       representable year, e.g. yyyy alone on a date in the year -5879610, whose 1 January does not exist).
   Conclusion: parse(format(v, p), p) is Ok; its offset is the value's if p has a zone field and UTC otherwise; its local
   date is the day of year's date if p has D, else year/month/day with 1 for what p lacks (partial_day); its local time of
   day is hour (24-hour field, else 12-hour field + marker, each 0 when absent), minute, second and the one fraction
   field, 0 for what p lacks (partial_clock); it is a valid value; and formatting it with p reproduces the same text.
   The old names *_partial are kept for the full-pattern theorems, which add: same instant, same offset. *)
From Astro Require Import Base Text CalSpec DateModel TimeModel ApiModel InstantSpec FormatModel ParseModel PatternSpec ValueFields
  TextProofs PatternProofs FieldProofs RoundTrip PartialTrip PartialTripG PartialTypes.

Theorem C12_datetime_partial : forall now v items sel, Inv_dt v /\ inst_in_range (local_instant v) -> swf None items = true ->
  let L := local_instant v in let d := L / NANOS_PER_DAY in let n := L mod NANOS_PER_DAY in let off := dt_off v in
  fits_chain d off (fields_of_day d n off) items [] ->
  has d n off items PYear = true ->
  (has d n off items PDayOfYear = true \/ (has d n off items PMonth = true /\ has d n off items PDayOfMonth = true)) ->
  (has d n off items PHour = true \/ (has d n off items PPeriodHour = true /\ has d n off items PPeriod = true)) ->
  has d n off items PMinute = true -> has d n off items PSecond = true ->
  match sel with Some s => is_sub s = true | None => True end ->
  (forall u, is_sub u = true -> has d n off items u = match sel with Some s => punit_eqb s u | None => false end) ->
  has d n off items POffset = true ->
  exists txt v', dt_format v (unparse items) = Ok txt /\ dt_parse now txt (unparse items) = Ok v' /\
    dt_off v' = off /\ instant v' = L / prec_unit sel * prec_unit sel - off * NANOS_PER_SEC /\
    (Inv_dt v' /\ inst_in_range (local_instant v')) /\
    dt_format v' (unparse items) = Ok txt.
Proof. exact dt_roundtrip_reformat. Qed.

(* Date: every pattern with a full date reads back the same Date (whatever else it contains: era, quarter, week, weekday,
   literals; the time symbols are literal text for Date) *)
Theorem C12_date_partial : forall now d items, in_i32 d -> swf None items = true ->
  fits_chain_k 0 d 0 (fields_of_day d 0 0) items [] ->
  let ex := item_expected_k 0 d 0 0 in
  has_g items ex PYear = true -> (has_g items ex PDayOfYear = true \/ (has_g items ex PMonth = true /\ has_g items ex PDayOfMonth = true)) ->
  exists txt, date_format d (unparse items) = Ok txt /\ date_parse now txt (unparse items) = Ok d.
Proof. exact date_roundtrip. Qed.
(* Time: full time of day and a zone *)
Theorem C12_time_partial : forall t items sel, Inv_tm t -> swf None items = true ->
  let off := tm_off t in let ln := (tm_nanos t + off * NANOS_PER_SEC) mod NANOS_PER_DAY in
  fits_chain_k 1 0 off (fields_of_day 0 ln off) items [] ->
  let ex := item_expected_k 1 0 ln off in
  (has_g items ex PHour = true \/ (has_g items ex PPeriodHour = true /\ has_g items ex PPeriod = true)) ->
  has_g items ex PMinute = true -> has_g items ex PSecond = true ->
  match sel with Some s => is_sub s = true | None => True end ->
  (forall u, is_sub u = true -> has_g items ex u = match sel with Some s => punit_eqb s u | None => false end) ->
  has_g items ex POffset = true ->
  exists txt t', time_format t (unparse items) = Ok txt /\ time_parse txt (unparse items) = Ok t' /\
    tm_off t' = off /\ (tm_nanos t' + off * NANOS_PER_SEC) mod NANOS_PER_DAY = ln / prec_unit sel * prec_unit sel /\ Inv_tm t' /\
    time_format t' (unparse items) = Ok txt.
Proof. exact time_roundtrip. Qed.

(* ---------- any part of a date, of a time of day, with or without a zone ---------- *)
Theorem C12_datetime_any : forall now v items sel, Valid_dt v -> swf None items = true ->
  let L := local_instant v in let d := L / NANOS_PER_DAY in let n := L mod NANOS_PER_DAY in let off := dt_off v in
  let hs := has d n off items in
  fits_chain d off (fields_of_day d n off) items [] ->
  (hs PMonth = true \/ hs PDayOfMonth = true \/ hs PDayOfYear = true -> hs PYear = true) ->
  (forall c, sym_in items c -> c = 71 \/ c = 113 \/ c = 119 \/ c = 101 -> full_date d n off items) ->
  (sym_in items 98 -> (hs PHour = true \/ hs PPeriodHour = true) /\ hs PMinute = true /\ hs PSecond = true) ->
  match sel with Some s => is_sub s = true | None => True end ->
  (forall u, is_sub u = true -> hs u = match sel with Some s => punit_eqb s u | None => false end) ->
  let d' := partial_day d n off items in let n' := partial_clock d n off items sel in let off' := partial_off d n off items in
  in_i32 d' -> inst_in_range (d' * NANOS_PER_DAY + n' - off' * NANOS_PER_SEC) ->
  exists txt v', dt_format v (unparse items) = Ok txt /\ dt_parse now txt (unparse items) = Ok v' /\
    dt_off v' = off' /\ local_instant v' = d' * NANOS_PER_DAY + n' /\ Valid_dt v' /\
    dt_format v' (unparse items) = Ok txt.
Proof. exact dt_roundtrip_partial. Qed.
Theorem C12_date_any : forall now d items, in_i32 d -> swf None items = true ->
  fits_chain_k 0 d 0 (fields_of_day d 0 0) items [] ->
  let ex := item_expected_k 0 d 0 0 in let hs := has_g items ex in
  (hs PMonth = true \/ hs PDayOfMonth = true \/ hs PDayOfYear = true -> hs PYear = true) ->
  (forall c, sym_in_g items c -> is_date_sym c = true -> c = 71 \/ c = 113 \/ c = 119 \/ c = 101 -> full_date_g items ex) ->
  let d' := partial_day_g d items ex in in_i32 d' ->
  exists txt, date_format d (unparse items) = Ok txt /\ date_parse now txt (unparse items) = Ok d' /\ date_format d' (unparse items) = Ok txt.
Proof. exact date_roundtrip_partial. Qed.
Theorem C12_time_any : forall t items sel, Inv_tm t -> swf None items = true ->
  let off := tm_off t in let ln := (tm_nanos t + off * NANOS_PER_SEC) mod NANOS_PER_DAY in
  fits_chain_k 1 0 off (fields_of_day 0 ln off) items [] ->
  let ex := item_expected_k 1 0 ln off in let hs := has_g items ex in
  (sym_in_g items 98 -> (hs PHour = true \/ hs PPeriodHour = true) /\ hs PMinute = true /\ hs PSecond = true) ->
  match sel with Some s => is_sub s = true | None => True end ->
  (forall u, is_sub u = true -> hs u = match sel with Some s => punit_eqb s u | None => false end) ->
  let n' := partial_clock_g ln items ex sel in let off' := partial_off_g off items ex in
  exists txt t', time_format t (unparse items) = Ok txt /\ time_parse txt (unparse items) = Ok t' /\
    tm_off t' = off' /\ (tm_nanos t' + off' * NANOS_PER_SEC) mod NANOS_PER_DAY = n' /\ Inv_tm t' /\
    time_format t' (unparse items) = Ok txt.
Proof. exact time_roundtrip_partial. Qed.
(* non-vacuity: yyyy-MM HH:mm on 2022-05-02T14:00:20.123456789 at -00:30 is written "2022-05 14:00" and read back as
   2022-05-01T14:00:00 UTC *)
Example C12_any_nonvacuous :
  let L := local_instant px_v in let d := L / NANOS_PER_DAY in let n := L mod NANOS_PER_DAY in let off := dt_off px_v in
  let hs := has d n off px_items in
  Valid_dt px_v /\ swf None px_items = true /\ fits_chain d off (fields_of_day d n off) px_items [] /\
  (hs PMonth = true \/ hs PDayOfMonth = true \/ hs PDayOfYear = true -> hs PYear = true) /\
  (forall c, sym_in px_items c -> c = 71 \/ c = 113 \/ c = 119 \/ c = 101 -> full_date d n off px_items) /\
  (sym_in px_items 98 -> (hs PHour = true \/ hs PPeriodHour = true) /\ hs PMinute = true /\ hs PSecond = true) /\
  (forall u, is_sub u = true -> hs u = false) /\
  partial_day d n off px_items = 738275 /\ partial_clock d n off px_items None = 50400000000000 /\ partial_off d n off px_items = 0 /\
  render 2 (fields_of_day d n off) px_items = [50;48;50;50;45;48;53;32;49;52;58;48;48].
Proof. exact partial_example. Qed.

(* formatter and parser agree on every symbol, whatever the pattern around it *)
Theorem C12_date_symbols : forall now d c w rest, in_i32 d -> is_date_sym c = true -> date_field_ok d c w -> field_delim 0 c w rest ->
  exists txt, format_date_part (run c w) d = Ok txt /\ parse_date_part now (run c w) (txt ++ rest) = Ok (expected_date d c, rest).
Proof. exact date_sym_back. Qed.
Theorem C12_time_symbols : forall n off c w rest, 0 <= n < NANOS_PER_DAY -> off_ok off -> is_time_sym c = true -> 1 <= w -> field_delim off c w rest ->
  exists txt, format_time_part (run c w) n off = Ok txt /\ parse_time_part (run c w) (txt ++ rest) = Ok (expected_time n off c w, rest).
Proof. exact time_sym_back. Qed.
(* one item written and read back: fields, literal runs, quoted text, escaped apostrophes *)
Theorem C12_item : forall now F d n off it rest, in_i32 d -> 0 <= n < NANOS_PER_DAY -> off_ok off ->
  date_fields_agree F d -> time_fields_agree F n off -> item_ok it = true -> item_fits d off it rest ->
  render_part (kind_fun 2 d n off) (part_of it) = Ok (render_item 2 F it) /\
  parse_step now (part_of it) (render_item 2 F it ++ rest) = Ok (item_expected d n off it, rest).
Proof. exact item_back. Qed.

(* non-vacuity: yyyy-MM-dd'T'HH:mm:ss.nnnnn xxxxx and 2022-05-02T14:00:20.123456789 at -00:30 meet every hypothesis *)
Definition ex_items : list pitem :=
  [PField 121 4; PLit 45 1; PField 77 2; PLit 45 1; PField 100 2; PQuoted [84]; PField 72 2; PLit 58 1; PField 109 2; PLit 58 1;
   PField 115 2; PLit 46 1; PField 110 5; PLit 32 1; PField 120 5].
Definition ex_v : DT := mkDT 738276 52220123456789 (-1800).
Example C12_nonvacuous :
  let L := local_instant ex_v in let d := L / NANOS_PER_DAY in let n := L mod NANOS_PER_DAY in let off := dt_off ex_v in
  (Inv_dt ex_v /\ inst_in_range (local_instant ex_v)) /\ swf None ex_items = true /\
  fits_chain d off (fields_of_day d n off) ex_items [] /\
  has d n off ex_items PYear = true /\ has d n off ex_items PMonth = true /\ has d n off ex_items PDayOfMonth = true /\
  has d n off ex_items PHour = true /\ has d n off ex_items PMinute = true /\ has d n off ex_items PSecond = true /\
  (forall u, is_sub u = true -> has d n off ex_items u = punit_eqb PNanos u) /\ has d n off ex_items POffset = true /\
  (render 2 (fields_of_day d n off) ex_items =
    [50;48;50;50;45;48;53;45;48;50;84;49;52;58;48;48;58;50;48;46;49;50;51;52;53;54;55;56;57;32;45;48;48;58;51;48]).
Proof.
  cbv zeta. split.
  { unfold ex_v, Inv_dt, inst_in_range, local_instant, instant, MIN_I, MAX_I, in_i32, off_ok. cbn [dt_days dt_nanos dt_off].
    unfold NANOS_PER_DAY, NANOS_PER_SEC, SECS_PER_DAY, I32_MIN, I32_MAX. lia. }
  split; [vm_compute; reflexivity|]. split.
  { vm_compute. repeat split; intros; try discriminate; try reflexivity; try lia. }
  repeat (split; [vm_compute; reflexivity|]). split; [|split; vm_compute; reflexivity].
  intros u Hu. destruct u; try discriminate Hu; vm_compute; reflexivity.
Qed.

Print Assumptions C12_datetime_partial.
Print Assumptions C12_date_partial.
Print Assumptions C12_time_partial.
Print Assumptions C12_datetime_any.
Print Assumptions C12_date_any.
Print Assumptions C12_time_any.
Print Assumptions C12_date_symbols.
Print Assumptions C12_time_symbols.
Print Assumptions C12_item.
