(* C14 — text-consuming APIs return a Result for every input and never panic; an Ok is a valid in-range value.
   ParseModel / FormatModel transcribe the parsers and formatters with every partial operation explicit: `must`
   marks an unwrap() of a remove_part/pick_part, nth_name an .nth(i).unwrap(), unwrap the DateTime offset shifts;
   Panic is an outcome of the model, and the theorems say no input reaches it.  Text is a list of Unicode scalar
   values (any content, any length); patterns are arbitrary text too (unbalanced quotes included).
   Proved here for the model; that the model reproduces the implementation's outcome class (Ok / Err / panic) is
   what the correspondence run checks on every case it generates.
   Not expressed as a theorem: CronSchedule::parse — its model (CronModel.parse_expression) has type option, i.e. it
   has no failure outcome besides rejection because the code contains no indexing, slicing, unwrap or unchecked
   arithmetic (every number goes through u8::from_str); panics of that function are watched by the harness only. *)
From Astro Require Import Base Text DateModel TimeModel ApiModel InstantSpec FormatModel ParseModel TextProofs.

(* parse: every (input, pattern) pair gives Ok or Err *)
Theorem C14_parse_total : forall now s fmt,
  date_parse now s fmt <> Panic /\ time_parse s fmt <> Panic /\ dt_parse now s fmt <> Panic.
Proof. intros now s fmt. exact (conj (date_parse_np now s fmt) (conj (time_parse_np s fmt) (dt_parse_np now s fmt))). Qed.
(* ... and an Ok is a value inside the range: day number in i32, time of day below 24 h, offset inside +-24 h,
   instant and local reading both representable *)
Theorem C14_parse_valid : forall now s fmt,
  (forall d, date_parse now s fmt = Ok d -> in_i32 d) /\
  (forall t, time_parse s fmt = Ok t -> Inv_tm t) /\
  (forall v, dt_parse now s fmt = Ok v -> Inv_dt v /\ inst_in_range (local_instant v)).
Proof. intros now s fmt. exact (conj (date_parse_valid now s fmt) (conj (time_parse_valid s fmt) (dt_parse_valid now s fmt))). Qed.
(* parse_rfc3339 *)
Theorem C14_rfc3339_total : forall s,
  dt_parse_rfc3339 s <> Panic /\ (forall v, dt_parse_rfc3339 s = Ok v -> Inv_dt v /\ inst_in_range (local_instant v)).
Proof. exact rfc_parse_total. Qed.
(* from_str of the three types *)
Theorem C14_from_str_total : forall now s,
  (date_from_str now s <> Panic /\ forall d, date_from_str now s = Ok d -> in_i32 d) /\
  (time_from_str s <> Panic /\ forall t, time_from_str s = Ok t -> Inv_tm t) /\
  (dt_from_str s <> Panic /\ forall v, dt_from_str s = Ok v -> Inv_dt v /\ inst_in_range (local_instant v)).
Proof.
  intros now s.
  exact (conj (conj (date_parse_np now s P_DATE_ISO) (date_parse_valid now s P_DATE_ISO))
        (conj (conj (time_parse_np s P_TIME) (time_parse_valid s P_TIME)) (rfc_parse_total s))).
Qed.
(* format returns a String: for every pattern the model's result is Ok (neither Panic nor an error), for every day
   number, every Time and every DateTime whose instant and local reading are representable *)
Theorem C14_format_total : forall fmt,
  (forall days, exists out, date_format days fmt = Ok out) /\
  (forall t, exists out, time_format t fmt = Ok out) /\
  (forall v, Inv_dt v -> inst_in_range (local_instant v) -> exists out, dt_format v fmt = Ok out).
Proof.
  intros fmt. exact (conj (fun d => date_format_total d fmt) (conj (fun t => time_format_total t fmt)
                    (fun v I L => dt_format_total v fmt (conj I L)))).
Qed.

(* the hypotheses are met by ordinary values; the panics the property text quotes are errors in the model too *)
Example C14_nonvacuous :
  Inv_dt (mkDT 738000 43200000000000 3600) /\ inst_in_range (local_instant (mkDT 738000 43200000000000 3600)) /\
  date_parse 2024 [50;48;50;50] [121;121;121;121;39;84;39] = Err EFmt /\            (* Date::parse("2022", "yyyy'T'") *)
  date_parse 2024 [97;233] [100;100] = Err EFmt /\                                   (* "a\u{e9}" with "dd" *)
  (exists out, date_format 738000 [39] = Ok out).                                    (* a lone quote as a pattern *)
Proof.
  unfold Inv_dt, inst_in_range, local_instant, instant, MIN_I, MAX_I, in_i32, off_ok. cbn [dt_days dt_nanos dt_off].
  repeat split; try (unfold NANOS_PER_DAY, NANOS_PER_SEC, SECS_PER_DAY, I32_MIN, I32_MAX; lia); try (vm_compute; reflexivity).
  eexists. vm_compute. reflexivity.
Qed.

Print Assumptions C14_parse_total.
Print Assumptions C14_parse_valid.
Print Assumptions C14_rfc3339_total.
Print Assumptions C14_from_str_total.
Print Assumptions C14_format_total.
