(* RoundTrip.v — C12: parsing with the pattern that produced a text recovers the value.
   Agreement of formatter and parser field by field (FieldProofs), composed over the items of a pattern. *)
From Astro Require Import Base Text CalSpec DateModel TimeModel ApiModel InstantSpec FormatModel ParseModel PatternSpec ValueFields
  DateProofs WeekProofs WeekFinal TimeProofs ClockProofs OffsetProofs ErrProofs TextProofs PadProofs PatternProofs FieldProofs.

(* what the parser is expected to report for a field of the value (day number d, local time of day n, offset off) *)
Definition n_digits (w : Z) : Z := if 5 <? w then 3 else if w =? 4 then 6 else if w =? 5 then 9 else w.
Definition n_unit (w : Z) : punit := match w with 1 => PDecis | 2 => PCentis | 4 => PMicros | 5 => PNanos | _ => PMillis end.
Definition expected_date (d : Z) (c : Z) : option (punit * Z) :=
  let '(y, m, dd) := days_to_date d in
  if c =? 121 then Some (PYear, y) else if c =? 77 then Some (PMonth, m) else if c =? 100 then Some (PDayOfMonth, dd)
  else if c =? 68 then Some (PDayOfYear, 1 + d - rd (y, 1, 1)) else None.
Definition expected_time (n off : Z) (c w : Z) : option (punit * Z) :=
  let h := n / NANOS_PER_HOUR in
  if (c =? 72) || (c =? 107) then Some (PHour, h)
  else if (c =? 104) || (c =? 75) then Some (PPeriodHour, h mod 12)
  else if c =? 109 then Some (PMinute, n / NANOS_PER_MINUTE mod 60)
  else if c =? 115 then Some (PSecond, n / NANOS_PER_SEC mod 60)
  else if (c =? 97) || (c =? 98) then Some (PPeriod, if h <? 12 then 0 else 1)
  else if c =? 110 then Some (n_unit w, n mod NANOS_PER_SEC / 10 ^ (9 - n_digits w))
  else if (c =? 88) || (c =? 120) then Some (POffset, off)
  else None.

(* which fields the theorem covers, and what has to follow them in the text *)
Definition date_field_ok (d c w : Z) : Prop :=
  let '(y, _, _) := days_to_date d in
  1 <= w /\ (c = 121 -> w <> 2 /\ (5 <= w -> w <= 40 /\ Z.abs y < 10 ^ w)) /\ (c = 77 -> w <> 5).
Definition needs_nondigit (c w : Z) : bool :=
  ((c =? 121) && (w <? 5)) || ((c =? 68) && negb (w =? 3)) ||
  (((c =? 77) || (c =? 100) || (c =? 119) || (c =? 72) || (c =? 75) || (c =? 104) || (c =? 107) || (c =? 109) || (c =? 115)) && (w =? 1)).
Definition field_delim (off c w : Z) (rest : text) : Prop :=
  (needs_nondigit c w = true -> nth_is_digit rest 0 = false) /\ ((c = 88 \/ c = 120) -> zone_fits w off rest).

Lemma week_range d : 1 <= days_to_wyear d <= 53.
Proof.
  destruct (week_spec d) as [_ (y & _ & Hr & ->)]. unfold ylen in Hr. destruct (leap y); lia.
Qed.
Lemma year_i32 d : in_i32 d -> let '(y, _, _) := days_to_date d in I32_MIN <= y <= I32_MAX.
Proof.
  intros Hd. destruct (c01_valid d Hd) as [_ R]. destruct (days_to_date d) as [[y m] dd]. apply in_range_facts in R.
  unfold MIN_Y, MAX_Y, I32_MIN, I32_MAX in *. lia.
Qed.

Lemma date_sym_back now d c w rest : in_i32 d -> is_date_sym c = true -> date_field_ok d c w -> field_delim 0 c w rest ->
  exists txt, format_date_part (run c w) d = Ok txt /\ parse_date_part now (run c w) (txt ++ rest) = Ok (expected_date d c, rest).
Proof.
  intros Hdi Hc Hok [Hnd _]. unfold date_field_ok in Hok. unfold expected_date. pose proof (year_i32 d Hdi) as Ry.
  destruct (days_to_date_rd d) as [V Erd]. pose proof (doy_spec d) as Hdoy.
  destruct (days_to_date d) as [[y m] dd] eqn:Edd. destruct V as (Vy & Vm & Vd). destruct Hok as (Hw & Hy & HM).
  unfold run. rewrite fdp_run by exact Hw. cbv zeta. fold (run c w). rewrite Edd.
  unfold is_date_sym in Hc. cbn [existsb] in Hc. rewrite !orb_true_iff, !Z.eqb_eq in Hc.
  destruct Hc as [-> | [-> | [-> | [-> | [-> | [-> | [-> | [-> | Hc]]]]]]]]; [.. | discriminate Hc]; cbn [Z.eqb Pos.eqb].
  - (* G *) eexists. split; [reflexivity|]. apply (era_back now w (d <? 0) rest Hw) || idtac.
    change (match w with 1 | 2 | 3 => if d <? 0 then str [66; 67] else str [65; 68] | 5 => if d <? 0 then str [66] else str [65]
            | _ => if d <? 0 then str [66; 101; 102; 111; 114; 101; 32; 67; 104; 114; 105; 115; 116] else str [65; 110; 110; 111; 32; 68; 111; 109; 105; 110; 105] end)
      with (match w with 1 | 2 | 3 => if d <? 0 then [66;67] else [65;68] | 5 => if d <? 0 then [66] else [65] | _ => if d <? 0 then BEFORE_CHRIST else ANNO_DOMINI end).
    assert (G : match w with 1 | 2 | 3 => if d <? 0 then [66;67] else [65;68] | 5 => if d <? 0 then [66] else [65] | _ => if d <? 0 then BEFORE_CHRIST else ANNO_DOMINI end = g_text w (d <? 0)).
    { unfold g_text. destruct (Z.ltb_spec 5 w); [|reflexivity]. destruct w as [|p|p]; try lia. do 3 (try destruct p as [p|p|]); try lia; reflexivity. }
    rewrite G. apply era_back. exact Hw.
  - (* y *) destruct (Hy eq_refl) as [H2 H5]. destruct Ry as [Ry1 Ry2].
    assert (E : match w with 2 => Ok ((if y <? 0 then [45] else []) ++ zero_padded (Z.abs y mod 100) 2) | _ => Ok (zero_padded_i y w) end = Ok (zero_padded_i y w)).
    { destruct w as [|p|p]; try lia. do 2 (try destruct p as [p|p|]); try lia; reflexivity. }
    rewrite E. eexists. split; [reflexivity|]. destruct (Z.ltb_spec w 5).
    + apply year_run_back; [lia | split; assumption |]. apply Hnd. unfold needs_nondigit. cbn [Z.eqb Pos.eqb andb]. destruct (Z.ltb_spec w 5); [reflexivity | lia].
    + destruct (H5 ltac:(lia)). apply year_fixed_back; [lia | assumption | split; assumption].
  - (* q *) eexists. split; [reflexivity|]. apply (quarter_back now w ((m - 1) / 3 + 1) rest Hw). lia.
  - (* M *) specialize (HM eq_refl). unfold format_month. rewrite Edd.
    assert (C : w = 1 \/ w = 2 \/ w = 3 \/ w = 4 \/ 5 < w) by lia. destruct C as [-> | [-> | [-> | [-> | C]]]].
    + eexists. split; [reflexivity|]. apply month_num_back; [lia | exact Vm |]. intros _. apply Hnd. reflexivity.
    + eexists. split; [reflexivity|]. apply month_num_back; [lia | exact Vm | discriminate].
    + destruct (nth_name_ok MONTH_ABBREVIATED (m - 1) ltac:(cbn; lia)) as [nm En]. rewrite En. eexists. split; [reflexivity|].
      apply (month_name_back now 3 m rest); [lia | exact Vm | exact En].
    + destruct (nth_name_ok MONTH_WIDE (m - 1) ltac:(cbn; lia)) as [nm En]. rewrite En. eexists. split; [reflexivity|].
      apply (month_name_back now 4 m rest); [lia | exact Vm | exact En].
    + assert (M : forall A B Cc Dd : res text, match w with 1 | 2 => A | 3 => B | 5 => Cc | _ => Dd end = Dd).
      { intros. destruct w as [|p|p]; try lia. do 3 (try destruct p as [p|p|]); try lia; reflexivity. }
      rewrite M. destruct (nth_name_ok MONTH_WIDE (m - 1) ltac:(cbn; lia)) as [nm En]. rewrite En. eexists. split; [reflexivity|].
      apply (month_name_back now w m rest); [lia | exact Vm |]. assert (E3 : (w =? 3) = false) by (apply Z.eqb_neq; lia). rewrite E3. exact En.
  - (* w *) eexists. split; [reflexivity|]. pose proof (week_range d) as Wk. apply week_back; [exact Hw | exact Wk |].
    intros ->. apply Hnd. reflexivity.
  - (* d *) assert (Hd31 : dd <= 31) by (unfold mlen in Vd; repeat match type of Vd with context [if ?b then _ else _] => destruct b end; lia).
    destruct (Z.eqb_spec w 1) as [->|N1].
    + eexists. split; [reflexivity|]. change (get_length 1 2 2) with 1. apply day_back; [lia | lia |]. intros _. apply Hnd. reflexivity.
    + assert (G : get_length w 2 2 = 2 \/ w = 2) by (unfold get_length; destruct (Z.ltb_spec 2 w); lia).
      eexists. split; [reflexivity|]. rewrite pdp_unfold by lia. cbv zeta. cbn [Z.eqb Pos.eqb]. unfold pick_1or2. destruct (Z.eqb_spec w 1); [lia|].
      assert (G2 : get_length w 2 2 = 2) by (unfold get_length; destruct (Z.ltb_spec 2 w); lia). rewrite G2, pick2 by lia. reflexivity.
  - (* D *) rewrite Hdoy. cbn [bind]. eexists. split; [reflexivity|].
    assert (Hr : 1 <= 1 + d - rd (y, 1, 1) <= 366).
    { pose proof (cum_bounds y m dd Vm Vd) as Cb. rewrite rd_jan1. unfold rd in Erd. unfold ylen in Cb. destruct (leap y); lia. }
    apply doy_back; [exact Hw | exact Hr |]. intros N3. apply Hnd. unfold needs_nondigit. cbn [Z.eqb Pos.eqb andb orb].
    destruct (Z.eqb_spec w 3); [contradiction | reflexivity].
  - (* e *) destruct (format_wday_ok w d) as [txt Et]. rewrite Et. eexists. split; [reflexivity|]. apply (wday_back now w d rest Hw txt Et).
Qed.

(* two-digit clock fields for every run length: one letter = no padding, two or more = two digits *)
Lemma gl22 w : 1 <= w -> get_length w 2 2 = (if w =? 1 then 1 else 2).
Proof. intros H. unfold get_length. destruct (Z.ltb_spec 2 w); destruct (Z.eqb_spec w 1); lia. Qed.
Lemma pick_1or2_any w x rest : 1 <= w -> 0 <= x < 100 -> (w = 1 -> nth_is_digit rest 0 = false) ->
  pick_1or2 w (zero_padded x (get_length w 2 2) ++ rest) = Ok (x, rest).
Proof.
  intros Hw Hx Hr. rewrite gl22 by exact Hw. destruct (Z.eqb_spec w 1) as [->|N].
  - apply pick_1or2_spec; [lia | exact Hx | exact Hr].
  - unfold pick_1or2. destruct (Z.eqb_spec w 1); [contradiction|]. apply pick2. exact Hx.
Qed.
Lemma h_any w h12 rest : 1 <= w -> 0 <= h12 < 12 -> (w = 1 -> nth_is_digit rest 0 = false) ->
  parse_time_part (run 104 w) (zero_padded (if h12 =? 0 then 12 else h12) (get_length w 2 2) ++ rest) = Ok (Some (PPeriodHour, h12), rest).
Proof.
  intros Hw Hh Hr. rewrite gl22 by exact Hw. destruct (Z.eqb_spec w 1) as [->|N]; [apply h_back; [lia | exact Hh | exact Hr]|].
  rewrite ptp_unfold by lia. cbv zeta. cbn [Z.eqb Pos.eqb]. destruct (Z.eqb_spec w 1); [contradiction|]. cbn [andb].
  set (hh := if h12 =? 0 then 12 else h12).
  assert (Hhh : 1 <= hh <= 12 /\ (if hh =? 12 then 0 else hh) = h12).
  { subst hh. destruct (Z.eqb_spec h12 0); [subst; split; [lia | reflexivity]|]. destruct (Z.eqb_spec h12 12); lia. }
  destruct Hhh as [Hb Hm]. rewrite pick2 by lia. cbn [bind]. unfold some_part. rewrite Hm. reflexivity.
Qed.
Lemma k_any w h rest : 1 <= w -> 0 <= h < 24 -> (w = 1 -> nth_is_digit rest 0 = false) ->
  parse_time_part (run 107 w) (zero_padded (if h =? 0 then 24 else h) (get_length w 2 2) ++ rest) = Ok (Some (PHour, h), rest).
Proof.
  intros Hw Hh Hr. rewrite gl22 by exact Hw. destruct (Z.eqb_spec w 1) as [->|N]; [apply k_back; [lia | exact Hh | exact Hr]|].
  rewrite ptp_unfold by lia. cbv zeta. cbn [Z.eqb Pos.eqb]. destruct (Z.eqb_spec w 1); [contradiction|]. cbn [andb].
  set (hh := if h =? 0 then 24 else h).
  assert (Hhh : 1 <= hh <= 24 /\ (if hh =? 24 then 0 else hh) = h).
  { subst hh. destruct (Z.eqb_spec h 0); [subst; split; [lia | reflexivity]|]. destruct (Z.eqb_spec h 24); lia. }
  destruct Hhh as [Hb Hm]. rewrite pick2 by lia. cbn [bind]. unfold some_part. rewrite Hm. reflexivity.
Qed.
Lemma simple_any c w u x rest : (c = 72 /\ u = PHour) \/ (c = 75 /\ u = PPeriodHour) \/ (c = 109 /\ u = PMinute) \/ (c = 115 /\ u = PSecond) ->
  1 <= w -> 0 <= x < 100 -> (w = 1 -> nth_is_digit rest 0 = false) ->
  parse_time_part (run c w) (zero_padded x (get_length w 2 2) ++ rest) = Ok (Some (u, x), rest).
Proof.
  intros Hc Hw Hx Hr. rewrite ptp_unfold by lia. cbv zeta.
  destruct Hc as [[-> ->] | [[-> ->] | [[-> ->] | [-> ->]]]]; cbn [Z.eqb Pos.eqb]; rewrite (pick_1or2_any w x rest Hw Hx Hr); reflexivity.
Qed.

Lemma time_sym_back n off c w rest : 0 <= n < NANOS_PER_DAY -> off_ok off -> is_time_sym c = true -> 1 <= w -> field_delim off c w rest ->
  exists txt, format_time_part (run c w) n off = Ok txt /\ parse_time_part (run c w) (txt ++ rest) = Ok (expected_time n off c w, rest).
Proof.
  intros Hn Ho Hc Hw [Hnd Hz]. unfold run. rewrite ftp_run by exact Hw. cbv zeta. fold (run c w). rewrite (nanos_to_time_spec n Hn).
  set (h := n / NANOS_PER_HOUR). set (mi := (n / NANOS_PER_MINUTE) mod 60). set (s := (n / NANOS_PER_SEC) mod 60).
  assert (Hh : 0 <= h < 24) by (subst h; revert Hn; unfold_consts; intros; lia).
  assert (Hmi : 0 <= mi < 60) by (subst mi; lia). assert (Hs : 0 <= s < 60) by (subst s; lia).
  unfold expected_time. fold h. unfold is_time_sym in Hc. cbn [existsb] in Hc. rewrite !orb_true_iff, !Z.eqb_eq in Hc.
  assert (N1 : forall c0, c = c0 -> (c0 = 72 \/ c0 = 75 \/ c0 = 104 \/ c0 = 107 \/ c0 = 109 \/ c0 = 115) -> w = 1 -> nth_is_digit rest 0 = false).
  { intros c0 -> Hc0 ->. apply Hnd. unfold needs_nondigit. destruct Hc0 as [-> | [-> | [-> | [-> | [-> | ->]]]]]; reflexivity. }
  destruct Hc as [-> | [-> | [-> | [-> | [-> | [-> | [-> | [-> | [-> | [-> | [-> | Hc]]]]]]]]]]]; [.. | discriminate Hc]; cbn [Z.eqb Pos.eqb orb].
  - (* a *) rewrite format_period_plain; [|exact Hn | apply over35; exact Hw]. eexists. split; [reflexivity|]. fold h. rewrite get_length_over.
    rewrite a_back by exact Hw. repeat f_equal. destruct (Z.leb_spec 12 h); destruct (Z.ltb_spec h 12); try reflexivity; lia.
  - (* b *) rewrite format_period_b; [|exact Hn | apply over35; exact Hw]. eexists. split; [reflexivity|]. cbv zeta. fold h mi s. rewrite get_length_over.
    set (st := if 5 <? w then 3 else w).
    destruct ((h =? 0) && (mi =? 0) && (s =? 0)) eqn:E0.
    + rewrite !andb_true_iff, !Z.eqb_eq in E0. change (if st =? 5 then S_ [109; 105] else S_ [109; 105; 100; 110; 105; 103; 104; 116]) with (b_text st 2).
      subst st. rewrite b_back by lia. cbn [Z.eqb Pos.eqb orb]. destruct (Z.ltb_spec h 12); [reflexivity | lia].
    + destruct ((h =? 12) && (mi =? 0) && (s =? 0)) eqn:E12.
      * rewrite !andb_true_iff, !Z.eqb_eq in E12. change (if st =? 5 then S_ [110] else S_ [110; 111; 111; 110]) with (b_text st 3).
        subst st. rewrite b_back by lia. cbn [Z.eqb Pos.eqb orb]. destruct (Z.ltb_spec h 12); [lia | reflexivity].
      * destruct (Z.leb_spec 12 h).
        -- change (period_text st true) with (b_text st 1). subst st. rewrite b_back by lia. cbn [Z.eqb Pos.eqb orb]. destruct (Z.ltb_spec h 12); [lia | reflexivity].
        -- change (period_text st false) with (b_text st 0). subst st. rewrite b_back by lia. cbn [Z.eqb Pos.eqb orb]. destruct (Z.ltb_spec h 12); [reflexivity | lia].
  - (* h *) eexists. split; [reflexivity|]. apply h_any; [exact Hw | pose proof (Z.mod_pos_bound h 12 ltac:(lia)); lia | apply (N1 104); [reflexivity | lia]].
  - (* H *) eexists. split; [reflexivity|]. apply (simple_any 72 w PHour h rest); [left; split; reflexivity | exact Hw | lia | apply (N1 72); [reflexivity | lia]].
  - (* K *) eexists. split; [reflexivity|]. apply (simple_any 75 w PPeriodHour (h mod 12) rest); [right; left; split; reflexivity | exact Hw | pose proof (Z.mod_pos_bound h 12 ltac:(lia)); lia | apply (N1 75); [reflexivity | lia]].
  - (* k *) eexists. split; [reflexivity|]. apply k_any; [exact Hw | lia | apply (N1 107); [reflexivity | lia]].
  - (* m *) eexists. split; [reflexivity|]. apply (simple_any 109 w PMinute mi rest); [right; right; left; split; reflexivity | exact Hw | lia | apply (N1 109); [reflexivity | lia]].
  - (* s *) eexists. split; [reflexivity|]. apply (simple_any 115 w PSecond s rest); [right; right; right; split; reflexivity | exact Hw | lia | apply (N1 115); [reflexivity | lia]].
  - (* n *) eexists. split; [reflexivity|]. assert (Ew : wrap_u32 (n mod NANOS_PER_SEC) = n mod NANOS_PER_SEC) by (unfold wrap_u32, NANOS_PER_SEC; lia). rewrite Ew.
    pose proof (n_back w (n mod NANOS_PER_SEC) rest Hw ltac:(unfold NANOS_PER_SEC; lia)) as B. cbv zeta in B.
    unfold get_length. unfold n_digits, n_unit.
    assert (Ek : (if (if 5 <? w then 3 else w) =? 4 then 6 else if (if 5 <? w then 3 else w) =? 5 then 9 else (if 5 <? w then 3 else w))
                 = (if 5 <? w then 3 else if w =? 4 then 6 else if w =? 5 then 9 else w)).
    { destruct (Z.ltb_spec 5 w); [reflexivity|]. reflexivity. }
    rewrite Ek. exact B.
  - (* X *) eexists. split; [reflexivity|]. rewrite ptp_unfold by lia. cbv zeta. cbn [Z.eqb Pos.eqb]. apply zone_back; [exact Hw | exact Ho | apply Hz; left; reflexivity].
  - (* x *) eexists. split; [reflexivity|]. rewrite ptp_unfold by lia. cbv zeta. cbn [Z.eqb Pos.eqb]. apply zone_back; [exact Hw | exact Ho | apply Hz; right; reflexivity].
Qed.

(* ================= one item of a DateTime pattern ================= *)
Definition parse_step (now : Z) (part s : text) : res (option (punit * Z) * text) :=
  if is_literal_part part then (let? s' := remove_literal_part part s in Ok (None, s')) else parse_part now part s.
Definition apply_exp (st : pdate * ptime) (r : option (punit * Z)) : pdate * ptime :=
  match r with
  | Some (u, v) => if is_date_unit u then (set_date (fst st) u v, snd st) else (fst st, set_time (snd st) u v)
  | None => st
  end.
Lemma parse_loop_step now part tl s pd pt :
  parse_loop (parse_part now) (part :: tl) s pd pt =
  (let? '(r, s') := parse_step now part s in let st := apply_exp (pd, pt) r in parse_loop (parse_part now) tl s' (fst st) (snd st)).
Proof.
  cbn [parse_loop]. unfold parse_step. destruct (is_literal_part part).
  - destruct (remove_literal_part part s); reflexivity.
  - destruct (parse_part now part s) as [[[[u v]|] s']| |]; cbn [bind apply_exp]; [destruct (is_date_unit u)| | |]; reflexivity.
Qed.

Definition item_expected (d n off : Z) (it : pitem) : option (punit * Z) :=
  match it with
  | PField c w => if is_date_sym c then expected_date d c else if is_time_sym c then expected_time n off c w else None
  | _ => None
  end.
Definition item_fits (d off : Z) (it : pitem) (rest : text) : Prop :=
  match it with
  | PField c w => (is_date_sym c = true -> date_field_ok d c w) /\ field_delim off c w rest
  | _ => True
  end.

Lemma sym_not_literal c w : is_sym c = true -> 1 <= w -> is_literal_part (run c w) = false.
Proof.
  intros Hs Hw. unfold is_literal_part. rewrite run_first by exact Hw. apply sym_not_special in Hs. unfold NUL, APOS.
  destruct (Z.eqb_spec c 0); [lia|]. destruct (Z.eqb_spec c 39); [lia|]. reflexivity.
Qed.
Lemma char_count_run c w : 0 <= w -> char_count (run c w) = w.
Proof. intros H. unfold char_count. apply run_len. exact H. Qed.
Lemma remove_run (c : Z) w rest (a : text) : char_count a = w -> remove_part w (a ++ rest) = Ok rest.
Proof. intros <-. apply remove_part_app. Qed.
Lemma repeat_c_count c k : char_count (repeat_c c k) = Z.of_nat k.
Proof. unfold char_count. rewrite repeat_c_length. reflexivity. Qed.

Lemma item_back now F d n off it rest : in_i32 d -> 0 <= n < NANOS_PER_DAY -> off_ok off ->
  date_fields_agree F d -> time_fields_agree F n off -> item_ok it = true -> item_fits d off it rest ->
  render_part (kind_fun 2 d n off) (part_of it) = Ok (render_item 2 F it) /\
  parse_step now (part_of it) (render_item 2 F it ++ rest) = Ok (item_expected d n off it, rest).
Proof.
  intros Hd Hn Ho Ad At Hi Hf. pose proof (part_render 2 F d n off it Ad At Hi) as R. split; [exact R|].
  destruct it as [c w | c k | txt | k]; cbn [part_of render_item item_expected item_ok item_fits] in *.
  - (* a field *) apply andb_true_iff in Hi as [Hw Hs]. apply Z.leb_le in Hw. destruct Hf as [Hdf Hdl].
    unfold parse_step. fold (run c w) in *. rewrite (sym_not_literal c w Hs Hw). unfold parse_part. cbv zeta. rewrite run_first by exact Hw.
    rewrite date_symbol_eq, time_symbol_eq. unfold render_part in R. rewrite run_first in R by exact Hw.
    apply sym_not_special in Hs as Hs'. unfold NUL, APOS in R. destruct (Z.eqb_spec c 0); [lia|]. destruct (Z.eqb_spec c 39); [lia|].
    unfold kind_fun, format_part in R. cbv zeta in R. rewrite run_first in R by exact Hw. rewrite date_symbol_eq, time_symbol_eq in R.
    unfold understands in *. destruct (is_date_sym c) eqn:Ed.
    + cbn [orb] in *. destruct (date_sym_back now d c w rest Hd Ed (Hdf eq_refl)) as (txt & E1 & E2).
      { destruct Hdl as [A B]. split; [exact A|]. intros Hc. exfalso. unfold is_date_sym in Ed. cbn [existsb] in Ed. destruct Hc as [-> | ->]; discriminate Ed. }
      rewrite E1 in R. injection R as <-. exact E2.
    + unfold is_sym in Hs. rewrite Ed in Hs. cbn [orb] in Hs. rewrite Hs in *. cbn [orb] in *.
      destruct (time_sym_back n off c w rest Hn Ho Hs Hw Hdl) as (txt & E1 & E2). rewrite E1 in R. injection R as <-. exact E2.
  - (* a literal run: k characters are skipped *)
    rewrite !andb_true_iff, !negb_true_iff in Hi. destruct Hi as (((Hw & Hs) & H39) & H0). apply Z.leb_le in Hw.
    unfold parse_step. fold (run c k). unfold is_literal_part. rewrite run_first by exact Hw. unfold NUL, APOS. rewrite H0, H39. cbn [orb].
    unfold parse_part. cbv zeta. rewrite run_first by exact Hw. rewrite date_symbol_eq, time_symbol_eq. unfold is_sym in Hs. apply orb_false_iff in Hs as [Hs1 Hs2].
    rewrite Hs1, Hs2. fold (run c k). rewrite remove_part_app. reflexivity.
  - (* quoted text *)
    unfold parse_step, is_literal_part. cbn [first_char]. unfold NUL, APOS. cbn [Z.eqb Pos.eqb orb]. unfold remove_literal_part. cbv zeta. cbn [first_char].
    unfold NUL, APOS. cbn [Z.eqb Pos.eqb].
    assert (Hc : char_count (39 :: map nul_apos txt ++ [39]) = char_count txt + 2).
    { unfold char_count. cbn [length]. rewrite app_length, map_length. cbn [length]. lia. }
    rewrite Hc. assert (H1 : (1 <? char_count txt + 2) = true) by (apply Z.ltb_lt; unfold char_count; lia). rewrite H1.
    change (39 :: map nul_apos txt ++ [39]) with ((39 :: map nul_apos txt) ++ [39]). rewrite rev_app_distr. cbn [rev app Z.eqb Pos.eqb andb].
    replace (char_count txt + 2 - 1 - 1) with (char_count txt) by lia. rewrite remove_part_app. reflexivity.
  - (* escaped apostrophes *)
    apply Z.leb_le in Hi. unfold parse_step, is_literal_part. destruct (Z.to_nat k) eqn:Ek; [lia|]. cbn [repeat_c first_char]. unfold NUL. cbn [Z.eqb orb].
    unfold remove_literal_part. cbv zeta. cbn [first_char]. unfold NUL. cbn [Z.eqb].
    change (0 :: repeat_c 0 n0) with (repeat_c 0 (S n0)). change (39 :: repeat_c 39 n0) with (repeat_c 39 (S n0)).
    rewrite (remove_run 0 (char_count (repeat_c 0 (S n0))) rest (repeat_c 39 (S n0))); [reflexivity|]. rewrite !repeat_c_count. reflexivity.
Qed.
