(* C01 — day number <-> proleptic Gregorian date is a validated bijection.
   This file holds only the pinned statements; proofs are in Astro.DateProofs. *)
From Astro Require Import Base CalSpec DateModel DateProofs.

(* every day number reads back as a valid calendar date, inside the range for i32 days *)
Theorem C01_valid : forall d, in_i32 d -> valid (days_to_date d) /\ in_range (days_to_date d).
Proof. exact c01_valid. Qed.
(* consecutive days read back as consecutive calendar dates (any d, no bound) *)
Theorem C01_succ : forall d, days_to_date (d + 1) = next_date (days_to_date d).
Proof. exact c01_succ. Qed.
Theorem C01_anchor : days_to_date 0 = (1, 1, 1) /\ days_to_date 719162 = (1970, 1, 1).
Proof. split; [exact c01_anchor | exact c01_epoch]. Qed.
Theorem C01_ends : days_to_date I32_MIN = MIN_DATE /\ days_to_date I32_MAX = MAX_DATE.
Proof. exact c01_ends. Qed.
(* constructing a date from the triple read back gives the same day *)
Theorem C01_roundtrip : forall d, in_i32 d ->
  let '(y, m, dd) := days_to_date d in date_to_days y m dd = Ok d.
Proof. exact c01_roundtrip. Qed.
(* a valid in-range triple is accepted, denotes an i32 day, and reads back as itself *)
Theorem C01_accept : forall y m d, valid (y, m, d) -> in_range (y, m, d) ->
  exists n, in_i32 n /\ date_to_days y m d = Ok n /\ days_to_date n = (y, m, d).
Proof. exact c01_accept. Qed.
(* any other triple (u32 month and day, any year) is refused with OutOfRange: no Ok, no Panic *)
Theorem C01_reject : forall y m d, 0 <= m -> 0 <= d ->
  ~ (valid (y, m, d) /\ in_range (y, m, d)) ->
  exists n a b v, date_to_days y m d = Err (EOor n a b v).
Proof. exact date_to_days_err. Qed.

(* non-vacuity: the hypotheses are met by concrete non-trivial values *)
Example C01_nonvacuous :
  in_i32 (-1753) /\ days_to_date (-1753) = (-5, 3, 15) /\ valid (-5, 2, 29) /\ in_range (-5, 2, 29) /\
  ~ (valid (1900, 2, 29) /\ in_range (1900, 2, 29)) /\ ~ (valid (0, 1, 1) /\ in_range (0, 1, 1)).
Proof. unfold in_i32, I32_MIN, I32_MAX, valid, in_range. cbn. repeat split; try lia; intros [? ?]; lia. Qed.

Print Assumptions C01_valid.
Print Assumptions C01_succ.
Print Assumptions C01_anchor.
Print Assumptions C01_ends.
Print Assumptions C01_roundtrip.
Print Assumptions C01_accept.
Print Assumptions C01_reject.
