(* TzFooter.v — C18, the footer: the POSIX TZ string parser reads back the rule that a printer of the
   RFC 8536 footer syntax wrote ("STD" offset ["DST" offset "," date "/" time "," date "/" time]). *)
From Astro Require Import Base Text DateModel TimeModel ApiModel FormatModel TzModel TzProofs PadProofs RfcProofs FieldProofs.

(* ---------- printing ---------- *)
Definition dec_str (n : Z) : bytes := u_to_string n.
Definition hms_str (t : Z) : bytes :=
  let a := Z.abs t in
  (if t <? 0 then [45] else []) ++ dec_str (a / 3600) ++ [58] ++ zero_padded (a mod 3600 / 60) 2 ++ [58] ++ zero_padded (a mod 60) 2.
Definition day_str (d : rule_day) : bytes :=
  match d with
  | JulianNoLeap n => 74 :: dec_str n
  | JulianLeap n => dec_str n
  | MonthWeekDay m w wd => 77 :: dec_str m ++ [46] ++ dec_str w ++ [46] ++ dec_str wd
  end.
Definition rule_str (d : rule_day) (time : Z) : bytes := day_str d ++ [47] ++ hms_str time.
Definition STD : bytes := [83; 84; 68].
Definition DST : bytes := [68; 83; 84].
Definition tz_str (r : trule) : bytes :=
  match r with
  | RFixed u => STD ++ hms_str (- u)
  | RAlt a => STD ++ hms_str (- a_std a) ++ DST ++ hms_str (- a_dst a) ++ [44] ++ rule_str (a_std_end a) (a_std_end_time a)
              ++ [44] ++ rule_str (a_dst_end a) (a_dst_end_time a)
  end.
Definition footer_of (r : trule) : bytes := [10] ++ tz_str r ++ [10].

(* ---------- scanning runs ---------- *)
Definition nd (rest : bytes) : Prop := match rest with [] => True | c :: _ => is_ascii_digit c = false end.
Lemma tw_digits ds : forall rest, all_digits ds = true -> nd rest -> take_while is_ascii_digit (ds ++ rest) = (ds, rest).
Proof.
  induction ds as [|c ds IH]; intros rest Ad Hr.
  - cbn [app]. destruct rest as [|r rt]; [reflexivity|]. cbn [take_while]. cbn [nd] in Hr. rewrite Hr. reflexivity.
  - cbn [all_digits forallb] in Ad. apply andb_true_iff in Ad as [Hc Ad]. cbn [app take_while]. rewrite Hc, (IH rest Ad Hr). reflexivity.
Qed.
Lemma tw_until46 ds rest : all_digits ds = true -> take_while (fun b => negb (b =? 46)) (ds ++ 46 :: rest) = (ds, 46 :: rest).
Proof.
  induction ds as [|c ds IH]; intros Ad.
  - reflexivity.
  - cbn [all_digits forallb] in Ad. apply andb_true_iff in Ad as [Hc Ad]. cbn [app take_while].
    unfold is_ascii_digit in Hc. apply andb_true_iff in Hc as [H1 H2]. apply Z.leb_le in H1, H2. destruct (Z.eqb_spec c 46); [lia|]. cbn [negb].
    rewrite (IH Ad). reflexivity.
Qed.
Lemma dec_str_spec n : 0 <= n < 10 ^ 40 -> all_digits (dec_str n) = true /\ digits_val (dec_str n) = n /\ dec_str n <> [].
Proof. apply u_to_string_spec. Qed.
Lemma parse_int_dec mx n : 0 <= n <= mx -> n < 10 ^ 40 -> parse_int mx (dec_str n) = TzOk n.
Proof.
  intros H1 H2. destruct (dec_str_spec n ltac:(lia)) as (A & V & N). unfold parse_int.
  rewrite (parse_unsigned_of_digits mx (dec_str n) A N ltac:(lia)), V. reflexivity.
Qed.
Lemma parse_int_zp2 mx x : 0 <= x < 100 -> x <= mx -> parse_int mx (zero_padded x 2) = TzOk x.
Proof.
  intros H1 H2. assert (P : 100 < 10 ^ 40) by (apply Z.ltb_lt; vm_compute; reflexivity).
  destruct (zero_padded_spec x 2 ltac:(lia)) as (A & V & N). unfold parse_int.
  rewrite (parse_unsigned_of_digits mx _ A N ltac:(lia)), V. reflexivity.
Qed.
Lemma small_lt_pow n : n < 1000000000000 -> n < 10 ^ 40.
Proof. intros H. assert (P : 1000000000000 < 10 ^ 40) by (apply Z.ltb_lt; vm_compute; reflexivity). lia. Qed.

(* ---------- offsets: [-]h:mm:ss ---------- *)
Lemma parse_hms_str t rest : Z.abs t < 1000000000 -> nd rest ->
  parse_hms (hms_str t ++ rest) = TzOk (if t <? 0 then -1 else 1, Z.abs t / 3600, Z.abs t mod 3600 / 60, Z.abs t mod 60, rest).
Proof.
  intros Ht Hr. unfold hms_str. cbv zeta. set (a := Z.abs t) in *. assert (Ha : 0 <= a) by (subst a; lia).
  set (h := a / 3600). set (m := a mod 3600 / 60). set (s := a mod 60).
  assert (Hh : 0 <= h < 1000000) by (subst h; split; [apply Z.div_pos; lia | apply Z.div_lt_upper_bound; lia]).
  assert (Hm : 0 <= m < 60) by (subst m; pose proof (Z.mod_pos_bound a 3600 ltac:(lia)); split; [apply Z.div_pos; lia | apply Z.div_lt_upper_bound; lia]).
  assert (Hs : 0 <= s < 60) by (subst s; apply Z.mod_pos_bound; lia).
  destruct (dec_str_spec h ltac:(split; [lia | apply small_lt_pow; lia])) as (Ah & Vh & Nh).
  assert (P100 : 100 < 10 ^ 40) by (apply Z.ltb_lt; vm_compute; reflexivity).
  destruct (zero_padded_spec m 2 ltac:(lia)) as (Am & _ & _). destruct (zero_padded_spec s 2 ltac:(lia)) as (As & _ & _).
  clearbody h m s. unfold parse_hms.
  assert (Body : forall dir : Z, (let '(hd, cur) := read_while is_ascii_digit (dec_str h ++ 58 :: zero_padded m 2 ++ 58 :: zero_padded s 2 ++ rest) in
     let! hour := parse_int I32_MAX hd in
     if head_is 58 cur then
       let '(md, cur2) := read_while is_ascii_digit (tl cur) in
       let! minute := parse_int I32_MAX md in
       if head_is 58 cur2 then
         let '(sd, cur4) := read_while is_ascii_digit (tl cur2) in
         let! second := parse_int I32_MAX sd in TzOk (dir, hour, minute, second, cur4)
       else TzOk (dir, hour, minute, 0, cur2)
     else TzOk (dir, hour, 0, 0, cur)) = TzOk (dir, h, m, s, rest)).
  { intros dir. unfold read_while. rewrite (tw_digits (dec_str h)) by (try exact Ah; reflexivity).
    rewrite parse_int_dec by (unfold I32_MAX; try lia; apply small_lt_pow; lia). cbn [tzbind head_is Z.eqb Pos.eqb tl].
    rewrite (tw_digits (zero_padded m 2)) by (try exact Am; reflexivity).
    rewrite parse_int_zp2 by (unfold I32_MAX; lia). cbn [tzbind head_is Z.eqb Pos.eqb tl].
    rewrite (tw_digits (zero_padded s 2) rest As Hr). rewrite parse_int_zp2 by (unfold I32_MAX; lia). reflexivity. }
  rewrite <- !app_assoc. cbn [app].
  destruct (Z.ltb_spec t 0).
  - cbn [app get_next tzbind Z.eqb Pos.eqb tl]. cbv beta iota. apply Body.
  - cbn [app]. destruct (dec_str h) as [|c0 ct] eqn:Ed; [congruence|]. cbn [app get_next tzbind].
    assert (Hc : 48 <= c0 <= 57).
    { cbn [all_digits forallb] in Ah. apply andb_true_iff in Ah as [Hc _]. unfold is_ascii_digit in Hc. apply andb_true_iff in Hc as [A B]. apply Z.leb_le in A, B. lia. }
    destruct (Z.eqb_spec c0 45); [lia|]. destruct (Z.eqb_spec c0 43); [lia|]. cbv beta iota.
    change (c0 :: ct ++ 58 :: zero_padded m 2 ++ 58 :: zero_padded s 2 ++ rest) with ((c0 :: ct) ++ 58 :: zero_padded m 2 ++ 58 :: zero_padded s 2 ++ rest).
    apply Body.
Qed.
