(* TzSpec.v — what RFC 8536 and the POSIX TZ rule say the UTC offset is (C18).
   A file is described by its AST: transitions (strictly increasing times, type index), local time types
   (UTC offsets, seconds east), and an optional footer rule. *)
From Astro Require Import Base CalSpec DateProofs.

Inductive sday := SJ (n : Z) | SN (n : Z) | SM (m w d : Z).
Record salt := mkSalt { sa_std : Z; sa_dst : Z; sa_start : sday; sa_start_time : Z; sa_end : sday; sa_end_time : Z }.
Inductive srule := SFixed (u : Z) | SAlt (a : salt).
Record tzfile := mkTzf { f_trans : list (Z * Z); f_types : list Z; f_rule : option srule }.

(* weekday 0 = Sunday of a day number (day 0 = 0001-01-01 is a Monday) *)
Definition wd_sun0 (d : Z) : Z := (d + 1) mod 7.

(* day number of the rule date in year y (y a year number, no year 0) *)
Definition rule_date (y : Z) (d : sday) : Z :=
  match d with
  | SJ n => rd (y, 1, 1) + (n - 1) + (if leap y && (60 <=? n) then 1 else 0)     (* 1..365, 29 February never counted *)
  | SN n => rd (y, 1, 1) + n                                                      (* 0..365, 29 February counted *)
  | SM m w wd =>                                                                   (* w-th (5 = last) weekday wd of month m *)
      let first := rd (y, m, 1) in
      let dom := 1 + (wd - wd_sun0 first) mod 7 + 7 * (w - 1) in
      first + (if mlen y m <? dom then dom - 7 else dom) - 1
  end.

Definition UNIX_EPOCH_DAY : Z := 719162.
(* Unix time of the two yearly switch-overs: the start is given in standard wall time, the end in daylight wall time *)
Definition switch_start (a : salt) (y : Z) : Z := (rule_date y (sa_start a) - UNIX_EPOCH_DAY) * 86400 + sa_start_time a - sa_std a.
Definition switch_end (a : salt) (y : Z) : Z := (rule_date y (sa_end a) - UNIX_EPOCH_DAY) * 86400 + sa_end_time a - sa_dst a.

(* UTC year of a Unix timestamp, by the calendar *)
Definition utc_year (year_of_day : Z -> Z) (t : Z) : Z := year_of_day (t / 86400 + UNIX_EPOCH_DAY).

Definition rule_offset (year_of_day : Z -> Z) (r : srule) (t : Z) : Z :=
  match r with
  | SFixed u => u
  | SAlt a =>
      let y := utc_year year_of_day t in
      let s := switch_start a y in let e := switch_end a y in
      if s <? e then (if (s <=? t) && (t <? e) then sa_dst a else sa_std a)         (* northern: daylight inside [s, e) *)
      else (if (e <=? t) && (t <? s) then sa_std a else sa_dst a)                   (* southern: standard inside [e, s) *)
  end.

(* type index of the latest transition at or before t; 0 before the first *)
Fixpoint latest_type (trans : list (Z * Z)) (t : Z) (acc : Z) : Z :=
  match trans with [] => acc | (t0, i) :: tl => if t0 <=? t then latest_type tl t i else acc end.
Definition last_time (trans : list (Z * Z)) : option Z := match rev trans with (t0, _) :: _ => Some t0 | [] => None end.

Definition spec_lookup (year_of_day : Z -> Z) (f : tzfile) (t : Z) : option Z :=
  let by_table := nth_error (f_types f) (Z.to_nat (latest_type (f_trans f) t 0)) in
  match last_time (f_trans f), f_rule f with
  | Some lt, Some r => if lt <? t then Some (rule_offset year_of_day r t) else by_table
  | None, Some r => Some (rule_offset year_of_day r t)
  | _, None => by_table
  end.
