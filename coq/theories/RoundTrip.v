(* RoundTrip.v — C12: parsing with the pattern that produced a text recovers the value.
   Agreement of formatter and parser field by field (FieldProofs), composed over the items of a pattern. *)
From Astro Require Import Base Text CalSpec DateModel TimeModel ApiModel InstantSpec FormatModel ParseModel PatternSpec ValueFields
  DateProofs WeekProofs WeekFinal TimeProofs ClockProofs OffsetProofs ErrProofs TextProofs PadProofs PatternProofs FieldProofs.

(* what the parser is expected to report for a field of the value (day number d, local time of day n, offset off) *)
Definition n_digits (w : Z) : Z := if 5 <? w then 3 else if w =? 4 then 6 else if w =? 5 then 9 else w.
Definition n_unit (w : Z) : punit := match w with 1 => PDecis | 2 => PCentis | 4 => PMicros | 5 => PNanos | _ => PMillis end.
Definition expected_date (d : Z) (c : Z) : option (punit * Z) :=
  let '(y, m, dd) := days_to_date d in
  if c =? 121 then Some (PYear, y) else if c =? 77 then Some (PMonth, m) else if c =? 100 then Some (PDayOfMonth, dd)
  else if c =? 68 then Some (PDayOfYear, 1 + d - rd (y, 1, 1)) else None.
Definition expected_time (n off : Z) (c w : Z) : option (punit * Z) :=
  let h := n / NANOS_PER_HOUR in
  if (c =? 72) || (c =? 107) then Some (PHour, h)
  else if (c =? 104) || (c =? 75) then Some (PPeriodHour, h mod 12)
  else if c =? 109 then Some (PMinute, n / NANOS_PER_MINUTE mod 60)
  else if c =? 115 then Some (PSecond, n / NANOS_PER_SEC mod 60)
  else if (c =? 97) || (c =? 98) then Some (PPeriod, if h <? 12 then 0 else 1)
  else if c =? 110 then Some (n_unit w, n mod NANOS_PER_SEC / 10 ^ (9 - n_digits w))
  else if (c =? 88) || (c =? 120) then Some (POffset, off)
  else None.

(* which fields the theorem covers, and what has to follow them in the text *)
Definition date_field_ok (d c w : Z) : Prop :=
  let '(y, _, _) := days_to_date d in
  1 <= w /\ (c = 121 -> w <> 2 /\ (5 <= w -> w <= 40 /\ Z.abs y < 10 ^ w)) /\ (c = 77 -> w <> 5).
Definition needs_nondigit (c w : Z) : bool :=
  ((c =? 121) && (w <? 5)) || ((c =? 68) && negb (w =? 3)) ||
  (((c =? 77) || (c =? 100) || (c =? 119) || (c =? 72) || (c =? 75) || (c =? 104) || (c =? 107) || (c =? 109) || (c =? 115)) && (w =? 1)).
Definition field_delim (off c w : Z) (rest : text) : Prop :=
  (needs_nondigit c w = true -> nth_is_digit rest 0 = false) /\ ((c = 88 \/ c = 120) -> zone_fits w off rest).

Lemma week_range d : 1 <= days_to_wyear d <= 53.
Proof.
  destruct (week_spec d) as [_ (y & _ & Hr & ->)]. unfold ylen in Hr. destruct (leap y); lia.
Qed.
Lemma year_i32 d : in_i32 d -> let '(y, _, _) := days_to_date d in I32_MIN <= y <= I32_MAX.
Proof.
  intros Hd. destruct (c01_valid d Hd) as [_ R]. destruct (days_to_date d) as [[y m] dd]. apply in_range_facts in R.
  unfold MIN_Y, MAX_Y, I32_MIN, I32_MAX in *. lia.
Qed.

Lemma date_sym_back now d c w rest : in_i32 d -> is_date_sym c = true -> date_field_ok d c w -> field_delim 0 c w rest ->
  exists txt, format_date_part (run c w) d = Ok txt /\ parse_date_part now (run c w) (txt ++ rest) = Ok (expected_date d c, rest).
Proof.
  intros Hdi Hc Hok [Hnd _]. unfold date_field_ok in Hok. unfold expected_date. pose proof (year_i32 d Hdi) as Ry.
  destruct (days_to_date_rd d) as [V Erd]. pose proof (doy_spec d) as Hdoy.
  destruct (days_to_date d) as [[y m] dd] eqn:Edd. destruct V as (Vy & Vm & Vd). destruct Hok as (Hw & Hy & HM).
  unfold run. rewrite fdp_run by exact Hw. cbv zeta. fold (run c w). rewrite Edd.
  unfold is_date_sym in Hc. cbn [existsb] in Hc. rewrite !orb_true_iff, !Z.eqb_eq in Hc.
  destruct Hc as [-> | [-> | [-> | [-> | [-> | [-> | [-> | [-> | Hc]]]]]]]]; [.. | discriminate Hc]; cbn [Z.eqb Pos.eqb].
  - (* G *) eexists. split; [reflexivity|]. apply (era_back now w (d <? 0) rest Hw) || idtac.
    change (match w with 1 | 2 | 3 => if d <? 0 then str [66; 67] else str [65; 68] | 5 => if d <? 0 then str [66] else str [65]
            | _ => if d <? 0 then str [66; 101; 102; 111; 114; 101; 32; 67; 104; 114; 105; 115; 116] else str [65; 110; 110; 111; 32; 68; 111; 109; 105; 110; 105] end)
      with (match w with 1 | 2 | 3 => if d <? 0 then [66;67] else [65;68] | 5 => if d <? 0 then [66] else [65] | _ => if d <? 0 then BEFORE_CHRIST else ANNO_DOMINI end).
    assert (G : match w with 1 | 2 | 3 => if d <? 0 then [66;67] else [65;68] | 5 => if d <? 0 then [66] else [65] | _ => if d <? 0 then BEFORE_CHRIST else ANNO_DOMINI end = g_text w (d <? 0)).
    { unfold g_text. destruct (Z.ltb_spec 5 w); [|reflexivity]. destruct w as [|p|p]; try lia. do 3 (try destruct p as [p|p|]); try lia; reflexivity. }
    rewrite G. apply era_back. exact Hw.
  - (* y *) destruct (Hy eq_refl) as [H2 H5]. destruct Ry as [Ry1 Ry2].
    assert (E : match w with 2 => Ok ((if y <? 0 then [45] else []) ++ zero_padded (Z.abs y mod 100) 2) | _ => Ok (zero_padded_i y w) end = Ok (zero_padded_i y w)).
    { destruct w as [|p|p]; try lia. do 2 (try destruct p as [p|p|]); try lia; reflexivity. }
    rewrite E. eexists. split; [reflexivity|]. destruct (Z.ltb_spec w 5).
    + apply year_run_back; [lia | split; assumption |]. apply Hnd. unfold needs_nondigit. cbn [Z.eqb Pos.eqb andb]. destruct (Z.ltb_spec w 5); [reflexivity | lia].
    + destruct (H5 ltac:(lia)). apply year_fixed_back; [lia | assumption | split; assumption].
  - (* q *) eexists. split; [reflexivity|]. apply (quarter_back now w ((m - 1) / 3 + 1) rest Hw). lia.
  - (* M *) specialize (HM eq_refl). unfold format_month. rewrite Edd.
    assert (C : w = 1 \/ w = 2 \/ w = 3 \/ w = 4 \/ 5 < w) by lia. destruct C as [-> | [-> | [-> | [-> | C]]]].
    + eexists. split; [reflexivity|]. apply month_num_back; [lia | exact Vm |]. intros _. apply Hnd. reflexivity.
    + eexists. split; [reflexivity|]. apply month_num_back; [lia | exact Vm | discriminate].
    + destruct (nth_name_ok MONTH_ABBREVIATED (m - 1) ltac:(cbn; lia)) as [nm En]. rewrite En. eexists. split; [reflexivity|].
      apply (month_name_back now 3 m rest); [lia | exact Vm | exact En].
    + destruct (nth_name_ok MONTH_WIDE (m - 1) ltac:(cbn; lia)) as [nm En]. rewrite En. eexists. split; [reflexivity|].
      apply (month_name_back now 4 m rest); [lia | exact Vm | exact En].
    + assert (M : forall A B Cc Dd : res text, match w with 1 | 2 => A | 3 => B | 5 => Cc | _ => Dd end = Dd).
      { intros. destruct w as [|p|p]; try lia. do 3 (try destruct p as [p|p|]); try lia; reflexivity. }
      rewrite M. destruct (nth_name_ok MONTH_WIDE (m - 1) ltac:(cbn; lia)) as [nm En]. rewrite En. eexists. split; [reflexivity|].
      apply (month_name_back now w m rest); [lia | exact Vm |]. assert (E3 : (w =? 3) = false) by (apply Z.eqb_neq; lia). rewrite E3. exact En.
  - (* w *) eexists. split; [reflexivity|]. pose proof (week_range d) as Wk. apply week_back; [exact Hw | exact Wk |].
    intros ->. apply Hnd. reflexivity.
  - (* d *) assert (Hd31 : dd <= 31) by (unfold mlen in Vd; repeat match type of Vd with context [if ?b then _ else _] => destruct b end; lia).
    destruct (Z.eqb_spec w 1) as [->|N1].
    + eexists. split; [reflexivity|]. change (get_length 1 2 2) with 1. apply day_back; [lia | lia |]. intros _. apply Hnd. reflexivity.
    + assert (G : get_length w 2 2 = 2 \/ w = 2) by (unfold get_length; destruct (Z.ltb_spec 2 w); lia).
      eexists. split; [reflexivity|]. rewrite pdp_unfold by lia. cbv zeta. cbn [Z.eqb Pos.eqb]. unfold pick_1or2. destruct (Z.eqb_spec w 1); [lia|].
      assert (G2 : get_length w 2 2 = 2) by (unfold get_length; destruct (Z.ltb_spec 2 w); lia). rewrite G2, pick2 by lia. reflexivity.
  - (* D *) rewrite Hdoy. cbn [bind]. eexists. split; [reflexivity|].
    assert (Hr : 1 <= 1 + d - rd (y, 1, 1) <= 366).
    { pose proof (cum_bounds y m dd Vm Vd) as Cb. rewrite rd_jan1. unfold rd in Erd. unfold ylen in Cb. destruct (leap y); lia. }
    apply doy_back; [exact Hw | exact Hr |]. intros N3. apply Hnd. unfold needs_nondigit. cbn [Z.eqb Pos.eqb andb orb].
    destruct (Z.eqb_spec w 3); [contradiction | reflexivity].
  - (* e *) destruct (format_wday_ok w d) as [txt Et]. rewrite Et. eexists. split; [reflexivity|]. apply (wday_back now w d rest Hw txt Et).
Qed.

(* two-digit clock fields for every run length: one letter = no padding, two or more = two digits *)
Lemma gl22 w : 1 <= w -> get_length w 2 2 = (if w =? 1 then 1 else 2).
Proof. intros H. unfold get_length. destruct (Z.ltb_spec 2 w); destruct (Z.eqb_spec w 1); lia. Qed.
Lemma pick_1or2_any w x rest : 1 <= w -> 0 <= x < 100 -> (w = 1 -> nth_is_digit rest 0 = false) ->
  pick_1or2 w (zero_padded x (get_length w 2 2) ++ rest) = Ok (x, rest).
Proof.
  intros Hw Hx Hr. rewrite gl22 by exact Hw. destruct (Z.eqb_spec w 1) as [->|N].
  - apply pick_1or2_spec; [lia | exact Hx | exact Hr].
  - unfold pick_1or2. destruct (Z.eqb_spec w 1); [contradiction|]. apply pick2. exact Hx.
Qed.
Lemma h_any w h12 rest : 1 <= w -> 0 <= h12 < 12 -> (w = 1 -> nth_is_digit rest 0 = false) ->
  parse_time_part (run 104 w) (zero_padded (if h12 =? 0 then 12 else h12) (get_length w 2 2) ++ rest) = Ok (Some (PPeriodHour, h12), rest).
Proof.
  intros Hw Hh Hr. rewrite gl22 by exact Hw. destruct (Z.eqb_spec w 1) as [->|N]; [apply h_back; [lia | exact Hh | exact Hr]|].
  rewrite ptp_unfold by lia. cbv zeta. cbn [Z.eqb Pos.eqb]. destruct (Z.eqb_spec w 1); [contradiction|]. cbn [andb].
  set (hh := if h12 =? 0 then 12 else h12).
  assert (Hhh : 1 <= hh <= 12 /\ (if hh =? 12 then 0 else hh) = h12).
  { subst hh. destruct (Z.eqb_spec h12 0); [subst; split; [lia | reflexivity]|]. destruct (Z.eqb_spec h12 12); lia. }
  destruct Hhh as [Hb Hm]. rewrite pick2 by lia. cbn [bind]. unfold some_part. rewrite Hm. reflexivity.
Qed.
Lemma k_any w h rest : 1 <= w -> 0 <= h < 24 -> (w = 1 -> nth_is_digit rest 0 = false) ->
  parse_time_part (run 107 w) (zero_padded (if h =? 0 then 24 else h) (get_length w 2 2) ++ rest) = Ok (Some (PHour, h), rest).
Proof.
  intros Hw Hh Hr. rewrite gl22 by exact Hw. destruct (Z.eqb_spec w 1) as [->|N]; [apply k_back; [lia | exact Hh | exact Hr]|].
  rewrite ptp_unfold by lia. cbv zeta. cbn [Z.eqb Pos.eqb]. destruct (Z.eqb_spec w 1); [contradiction|]. cbn [andb].
  set (hh := if h =? 0 then 24 else h).
  assert (Hhh : 1 <= hh <= 24 /\ (if hh =? 24 then 0 else hh) = h).
  { subst hh. destruct (Z.eqb_spec h 0); [subst; split; [lia | reflexivity]|]. destruct (Z.eqb_spec h 24); lia. }
  destruct Hhh as [Hb Hm]. rewrite pick2 by lia. cbn [bind]. unfold some_part. rewrite Hm. reflexivity.
Qed.
Lemma simple_any c w u x rest : (c = 72 /\ u = PHour) \/ (c = 75 /\ u = PPeriodHour) \/ (c = 109 /\ u = PMinute) \/ (c = 115 /\ u = PSecond) ->
  1 <= w -> 0 <= x < 100 -> (w = 1 -> nth_is_digit rest 0 = false) ->
  parse_time_part (run c w) (zero_padded x (get_length w 2 2) ++ rest) = Ok (Some (u, x), rest).
Proof.
  intros Hc Hw Hx Hr. rewrite ptp_unfold by lia. cbv zeta.
  destruct Hc as [[-> ->] | [[-> ->] | [[-> ->] | [-> ->]]]]; cbn [Z.eqb Pos.eqb]; rewrite (pick_1or2_any w x rest Hw Hx Hr); reflexivity.
Qed.

Lemma time_sym_back n off c w rest : 0 <= n < NANOS_PER_DAY -> off_ok off -> is_time_sym c = true -> 1 <= w -> field_delim off c w rest ->
  exists txt, format_time_part (run c w) n off = Ok txt /\ parse_time_part (run c w) (txt ++ rest) = Ok (expected_time n off c w, rest).
Proof.
  intros Hn Ho Hc Hw [Hnd Hz]. unfold run. rewrite ftp_run by exact Hw. cbv zeta. fold (run c w). rewrite (nanos_to_time_spec n Hn).
  set (h := n / NANOS_PER_HOUR). set (mi := (n / NANOS_PER_MINUTE) mod 60). set (s := (n / NANOS_PER_SEC) mod 60).
  assert (Hh : 0 <= h < 24) by (subst h; revert Hn; unfold_consts; intros; lia).
  assert (Hmi : 0 <= mi < 60) by (subst mi; lia). assert (Hs : 0 <= s < 60) by (subst s; lia).
  unfold expected_time. fold h. unfold is_time_sym in Hc. cbn [existsb] in Hc. rewrite !orb_true_iff, !Z.eqb_eq in Hc.
  assert (N1 : forall c0, c = c0 -> (c0 = 72 \/ c0 = 75 \/ c0 = 104 \/ c0 = 107 \/ c0 = 109 \/ c0 = 115) -> w = 1 -> nth_is_digit rest 0 = false).
  { intros c0 -> Hc0 ->. apply Hnd. unfold needs_nondigit. destruct Hc0 as [-> | [-> | [-> | [-> | [-> | ->]]]]]; reflexivity. }
  destruct Hc as [-> | [-> | [-> | [-> | [-> | [-> | [-> | [-> | [-> | [-> | [-> | Hc]]]]]]]]]]]; [.. | discriminate Hc]; cbn [Z.eqb Pos.eqb orb].
  - (* a *) rewrite format_period_plain; [|exact Hn | apply over35; exact Hw]. eexists. split; [reflexivity|]. fold h. rewrite get_length_over.
    rewrite a_back by exact Hw. repeat f_equal. destruct (Z.leb_spec 12 h); destruct (Z.ltb_spec h 12); try reflexivity; lia.
  - (* b *) rewrite format_period_b; [|exact Hn | apply over35; exact Hw]. eexists. split; [reflexivity|]. cbv zeta. fold h mi s. rewrite get_length_over.
    set (st := if 5 <? w then 3 else w).
    destruct ((h =? 0) && (mi =? 0) && (s =? 0)) eqn:E0.
    + rewrite !andb_true_iff, !Z.eqb_eq in E0. change (if st =? 5 then S_ [109; 105] else S_ [109; 105; 100; 110; 105; 103; 104; 116]) with (b_text st 2).
      subst st. rewrite b_back by lia. cbn [Z.eqb Pos.eqb orb]. destruct (Z.ltb_spec h 12); [reflexivity | lia].
    + destruct ((h =? 12) && (mi =? 0) && (s =? 0)) eqn:E12.
      * rewrite !andb_true_iff, !Z.eqb_eq in E12. change (if st =? 5 then S_ [110] else S_ [110; 111; 111; 110]) with (b_text st 3).
        subst st. rewrite b_back by lia. cbn [Z.eqb Pos.eqb orb]. destruct (Z.ltb_spec h 12); [lia | reflexivity].
      * destruct (Z.leb_spec 12 h).
        -- change (period_text st true) with (b_text st 1). subst st. rewrite b_back by lia. cbn [Z.eqb Pos.eqb orb]. destruct (Z.ltb_spec h 12); [lia | reflexivity].
        -- change (period_text st false) with (b_text st 0). subst st. rewrite b_back by lia. cbn [Z.eqb Pos.eqb orb]. destruct (Z.ltb_spec h 12); [reflexivity | lia].
  - (* h *) eexists. split; [reflexivity|]. apply h_any; [exact Hw | pose proof (Z.mod_pos_bound h 12 ltac:(lia)); lia | apply (N1 104); [reflexivity | lia]].
  - (* H *) eexists. split; [reflexivity|]. apply (simple_any 72 w PHour h rest); [left; split; reflexivity | exact Hw | lia | apply (N1 72); [reflexivity | lia]].
  - (* K *) eexists. split; [reflexivity|]. apply (simple_any 75 w PPeriodHour (h mod 12) rest); [right; left; split; reflexivity | exact Hw | pose proof (Z.mod_pos_bound h 12 ltac:(lia)); lia | apply (N1 75); [reflexivity | lia]].
  - (* k *) eexists. split; [reflexivity|]. apply k_any; [exact Hw | lia | apply (N1 107); [reflexivity | lia]].
  - (* m *) eexists. split; [reflexivity|]. apply (simple_any 109 w PMinute mi rest); [right; right; left; split; reflexivity | exact Hw | lia | apply (N1 109); [reflexivity | lia]].
  - (* s *) eexists. split; [reflexivity|]. apply (simple_any 115 w PSecond s rest); [right; right; right; split; reflexivity | exact Hw | lia | apply (N1 115); [reflexivity | lia]].
  - (* n *) eexists. split; [reflexivity|]. assert (Ew : wrap_u32 (n mod NANOS_PER_SEC) = n mod NANOS_PER_SEC) by (unfold wrap_u32, NANOS_PER_SEC; lia). rewrite Ew.
    pose proof (n_back w (n mod NANOS_PER_SEC) rest Hw ltac:(unfold NANOS_PER_SEC; lia)) as B. cbv zeta in B.
    unfold get_length. unfold n_digits, n_unit.
    assert (Ek : (if (if 5 <? w then 3 else w) =? 4 then 6 else if (if 5 <? w then 3 else w) =? 5 then 9 else (if 5 <? w then 3 else w))
                 = (if 5 <? w then 3 else if w =? 4 then 6 else if w =? 5 then 9 else w)).
    { destruct (Z.ltb_spec 5 w); [reflexivity|]. reflexivity. }
    rewrite Ek. exact B.
  - (* X *) eexists. split; [reflexivity|]. rewrite ptp_unfold by lia. cbv zeta. cbn [Z.eqb Pos.eqb]. apply zone_back; [exact Hw | exact Ho | apply Hz; left; reflexivity].
  - (* x *) eexists. split; [reflexivity|]. rewrite ptp_unfold by lia. cbv zeta. cbn [Z.eqb Pos.eqb]. apply zone_back; [exact Hw | exact Ho | apply Hz; right; reflexivity].
Qed.

(* ================= one item of a DateTime pattern ================= *)
Definition parse_step (now : Z) (part s : text) : res (option (punit * Z) * text) :=
  if is_literal_part part then (let? s' := remove_literal_part part s in Ok (None, s')) else parse_part now part s.
Definition apply_exp (st : pdate * ptime) (r : option (punit * Z)) : pdate * ptime :=
  match r with
  | Some (u, v) => if is_date_unit u then (set_date (fst st) u v, snd st) else (fst st, set_time (snd st) u v)
  | None => st
  end.
Lemma parse_loop_step now part tl s pd pt :
  parse_loop (parse_part now) (part :: tl) s pd pt =
  (let? '(r, s') := parse_step now part s in let st := apply_exp (pd, pt) r in parse_loop (parse_part now) tl s' (fst st) (snd st)).
Proof.
  cbn [parse_loop]. unfold parse_step. destruct (is_literal_part part).
  - destruct (remove_literal_part part s); reflexivity.
  - destruct (parse_part now part s) as [[[[u v]|] s']| |]; cbn [bind apply_exp]; [destruct (is_date_unit u)| | |]; reflexivity.
Qed.

Definition item_expected (d n off : Z) (it : pitem) : option (punit * Z) :=
  match it with
  | PField c w => if is_date_sym c then expected_date d c else if is_time_sym c then expected_time n off c w else None
  | _ => None
  end.
Definition item_fits (d off : Z) (it : pitem) (rest : text) : Prop :=
  match it with
  | PField c w => (is_date_sym c = true -> date_field_ok d c w) /\ field_delim off c w rest
  | _ => True
  end.

Lemma sym_not_literal c w : is_sym c = true -> 1 <= w -> is_literal_part (run c w) = false.
Proof.
  intros Hs Hw. unfold is_literal_part. rewrite run_first by exact Hw. apply sym_not_special in Hs. unfold NUL, APOS.
  destruct (Z.eqb_spec c 0); [lia|]. destruct (Z.eqb_spec c 39); [lia|]. reflexivity.
Qed.
Lemma char_count_run c w : 0 <= w -> char_count (run c w) = w.
Proof. intros H. unfold char_count. apply run_len. exact H. Qed.
Lemma remove_run (c : Z) w rest (a : text) : char_count a = w -> remove_part w (a ++ rest) = Ok rest.
Proof. intros <-. apply remove_part_app. Qed.
Lemma repeat_c_count c k : char_count (repeat_c c k) = Z.of_nat k.
Proof. unfold char_count. rewrite repeat_c_length. reflexivity. Qed.

Lemma item_back now F d n off it rest : in_i32 d -> 0 <= n < NANOS_PER_DAY -> off_ok off ->
  date_fields_agree F d -> time_fields_agree F n off -> item_ok it = true -> item_fits d off it rest ->
  render_part (kind_fun 2 d n off) (part_of it) = Ok (render_item 2 F it) /\
  parse_step now (part_of it) (render_item 2 F it ++ rest) = Ok (item_expected d n off it, rest).
Proof.
  intros Hd Hn Ho Ad At Hi Hf. pose proof (part_render 2 F d n off it Ad At Hi) as R. split; [exact R|].
  destruct it as [c w | c k | txt | k]; cbn [part_of render_item item_expected item_ok item_fits] in *.
  - (* a field *) apply andb_true_iff in Hi as [Hw Hs]. apply Z.leb_le in Hw. destruct Hf as [Hdf Hdl].
    unfold parse_step. fold (run c w) in *. rewrite (sym_not_literal c w Hs Hw). unfold parse_part. cbv zeta. rewrite run_first by exact Hw.
    rewrite date_symbol_eq, time_symbol_eq. unfold render_part in R. rewrite run_first in R by exact Hw.
    apply sym_not_special in Hs as Hs'. unfold NUL, APOS in R. destruct (Z.eqb_spec c 0); [lia|]. destruct (Z.eqb_spec c 39); [lia|].
    unfold kind_fun, format_part in R. cbv zeta in R. rewrite run_first in R by exact Hw. rewrite date_symbol_eq, time_symbol_eq in R.
    unfold understands in *. destruct (is_date_sym c) eqn:Ed.
    + cbn [orb] in *. destruct (date_sym_back now d c w rest Hd Ed (Hdf eq_refl)) as (txt & E1 & E2).
      { destruct Hdl as [A B]. split; [exact A|]. intros Hc. exfalso. unfold is_date_sym in Ed. cbn [existsb] in Ed. destruct Hc as [-> | ->]; discriminate Ed. }
      rewrite E1 in R. injection R as <-. exact E2.
    + unfold is_sym in Hs. rewrite Ed in Hs. cbn [orb] in Hs. rewrite Hs in *. cbn [orb] in *.
      destruct (time_sym_back n off c w rest Hn Ho Hs Hw Hdl) as (txt & E1 & E2). rewrite E1 in R. injection R as <-. exact E2.
  - (* a literal run: k characters are skipped *)
    rewrite !andb_true_iff, !negb_true_iff in Hi. destruct Hi as (((Hw & Hs) & H39) & H0). apply Z.leb_le in Hw.
    unfold parse_step. fold (run c k). unfold is_literal_part. rewrite run_first by exact Hw. unfold NUL, APOS. rewrite H0, H39. cbn [orb].
    unfold parse_part. cbv zeta. rewrite run_first by exact Hw. rewrite date_symbol_eq, time_symbol_eq. unfold is_sym in Hs. apply orb_false_iff in Hs as [Hs1 Hs2].
    rewrite Hs1, Hs2. fold (run c k). rewrite remove_part_app. reflexivity.
  - (* quoted text *)
    unfold parse_step, is_literal_part. cbn [first_char]. unfold NUL, APOS. cbn [Z.eqb Pos.eqb orb]. unfold remove_literal_part. cbv zeta. cbn [first_char].
    unfold NUL, APOS. cbn [Z.eqb Pos.eqb].
    assert (Hc : char_count (39 :: map nul_apos txt ++ [39]) = char_count txt + 2).
    { unfold char_count. cbn [length]. rewrite app_length, map_length. cbn [length]. lia. }
    rewrite Hc. assert (H1 : (1 <? char_count txt + 2) = true) by (apply Z.ltb_lt; unfold char_count; lia). rewrite H1.
    change (39 :: map nul_apos txt ++ [39]) with ((39 :: map nul_apos txt) ++ [39]). rewrite rev_app_distr. cbn [rev app Z.eqb Pos.eqb andb].
    replace (char_count txt + 2 - 1 - 1) with (char_count txt) by lia. rewrite remove_part_app. reflexivity.
  - (* escaped apostrophes *)
    apply Z.leb_le in Hi. unfold parse_step, is_literal_part. destruct (Z.to_nat k) eqn:Ek; [lia|]. cbn [repeat_c first_char]. unfold NUL. cbn [Z.eqb orb].
    unfold remove_literal_part. cbv zeta. cbn [first_char]. unfold NUL. cbn [Z.eqb].
    change (0 :: repeat_c 0 n0) with (repeat_c 0 (S n0)). change (39 :: repeat_c 39 n0) with (repeat_c 39 (S n0)).
    rewrite (remove_run 0 (char_count (repeat_c 0 (S n0))) rest (repeat_c 39 (S n0))); [reflexivity|]. rewrite !repeat_c_count. reflexivity.
Qed.

(* ================= the whole pattern ================= *)
Fixpoint fits_chain (d off : Z) (F : vfields) (items : list pitem) (tail : text) : Prop :=
  match items with [] => True | it :: tl => item_fits d off it (render 2 F tl ++ tail) /\ fits_chain d off F tl tail end.

Lemma render_cons kind F it tl : render kind F (it :: tl) = render_item kind F it ++ render kind F tl.
Proof. reflexivity. Qed.

Lemma loop_back now F d n off : in_i32 d -> 0 <= n < NANOS_PER_DAY -> off_ok off -> date_fields_agree F d -> time_fields_agree F n off ->
  forall items st tail, Forall (fun it => item_ok it = true) items -> fits_chain d off F items tail ->
  parse_loop (parse_part now) (map part_of items) (render 2 F items ++ tail) (fst st) (snd st)
  = Ok (fold_left apply_exp (map (item_expected d n off) items) st).
Proof.
  intros Hd Hn Ho Ad At. induction items as [|it tl IH]; intros st tail Hok Hfit.
  - cbn [map parse_loop fold_left]. destruct st; reflexivity.
  - inversion Hok as [|? ? Hi Hok']; subst. destruct Hfit as [Hf Hfit'].
    cbn [map fold_left]. rewrite parse_loop_step, render_cons, <- app_assoc.
    destruct (item_back now F d n off it (render 2 F tl ++ tail) Hd Hn Ho Ad At Hi Hf) as [_ B]. rewrite B. cbn [bind]. cbv zeta.
    destruct st as [pd pt]. cbn [fst snd]. apply IH; assumption.
Qed.

(* ---------- the slots of the collected record ---------- *)
Definition get_slot (st : pdate * ptime) (u : punit) : option Z :=
  match u with
  | PYear => pd_year (fst st) | PMonth => pd_month (fst st) | PDayOfMonth => pd_dom (fst st) | PDayOfYear => pd_doy (fst st)
  | PHour => pt_hour (snd st) | PPeriod => pt_period (snd st) | PPeriodHour => pt_phour (snd st) | PMinute => pt_minute (snd st)
  | PSecond => pt_second (snd st) | PDecis => pt_decis (snd st) | PCentis => pt_centis (snd st) | PMillis => pt_millis (snd st)
  | PMicros => pt_micros (snd st) | PNanos => pt_nanos (snd st) | POffset => pt_offset (snd st)
  end.
Definition norm_slot (u : punit) (v : Z) : Z :=
  match u with
  | PYear | POffset => wrap_i32 v
  | PMonth | PDayOfMonth | PDayOfYear => wrap_u32 v
  | PPeriod => if v =? 0 then 0 else 12
  | _ => wrap_u64 v
  end.
Definition punit_eqb (a b : punit) : bool :=
  match a, b with
  | PYear, PYear | PMonth, PMonth | PDayOfMonth, PDayOfMonth | PDayOfYear, PDayOfYear | PHour, PHour | PPeriod, PPeriod
  | PPeriodHour, PPeriodHour | PMinute, PMinute | PSecond, PSecond | PDecis, PDecis | PCentis, PCentis | PMillis, PMillis
  | PMicros, PMicros | PNanos, PNanos | POffset, POffset => true
  | _, _ => false
  end.
Lemma punit_eqb_eq a b : punit_eqb a b = true <-> a = b.
Proof. destruct a, b; cbn; split; intros H; try reflexivity; try discriminate; try congruence. Qed.
Lemma get_set_same st u v : get_slot (apply_exp st (Some (u, v))) u = Some (norm_slot u v).
Proof. destruct st as [pd pt]. destruct u; reflexivity. Qed.
Lemma get_set_other st u v u' : u <> u' -> get_slot (apply_exp st (Some (u, v))) u' = get_slot st u'.
Proof. intros H. destruct st as [pd pt]. destruct u, u'; try congruence; reflexivity. Qed.

Definition sets_unit (u : punit) (r : option (punit * Z)) : bool := match r with Some (u', _) => punit_eqb u' u | None => false end.
Lemma fold_slot (canon : punit -> Z) u : forall l st,
  (forall r, In r l -> r = None \/ exists u', r = Some (u', canon u')) ->
  get_slot (fold_left apply_exp l st) u = if existsb (sets_unit u) l then Some (norm_slot u (canon u)) else get_slot st u.
Proof.
  induction l as [|r l IH]; intros st Hl; [reflexivity|]. cbn [fold_left existsb].
  rewrite IH by (intros r' Hr'; apply Hl; right; exact Hr').
  destruct (Hl r ltac:(left; reflexivity)) as [-> | [u' ->]].
  - cbn [sets_unit orb apply_exp]. reflexivity.
  - cbn [sets_unit]. destruct (punit_eqb u' u) eqn:E.
    + apply punit_eqb_eq in E. subst u'. cbn [orb]. destruct (existsb (sets_unit u) l); [reflexivity | apply get_set_same].
    + cbn [orb]. destruct (existsb (sets_unit u) l); [reflexivity|]. apply get_set_other. intros X. subst. rewrite (proj2 (punit_eqb_eq u u) eq_refl) in E. discriminate.
Qed.

(* the value each slot receives *)
Definition canon (d n off : Z) (u : punit) : Z :=
  let '(y, m, dd) := days_to_date d in let h := n / NANOS_PER_HOUR in let ss := n mod NANOS_PER_SEC in
  match u with
  | PYear => y | PMonth => m | PDayOfMonth => dd | PDayOfYear => 1 + d - rd (y, 1, 1)
  | PHour => h | PPeriodHour => h mod 12 | PPeriod => if h <? 12 then 0 else 1
  | PMinute => n / NANOS_PER_MINUTE mod 60 | PSecond => n / NANOS_PER_SEC mod 60
  | PDecis => ss / 100000000 | PCentis => ss / 10000000 | PMillis => ss / 1000000 | PMicros => ss / 1000 | PNanos => ss
  | POffset => off
  end.
Lemma expected_canon d n off it : item_ok it = true -> item_expected d n off it = None \/ exists u, item_expected d n off it = Some (u, canon d n off u).
Proof.
  intros Hi. destruct it as [c w | c k | txt | k]; cbn [item_expected]; try (left; reflexivity). unfold canon.
  cbn [item_ok] in Hi. apply andb_true_iff in Hi as [Hw1 _]. apply Z.leb_le in Hw1.
  destruct (is_date_sym c).
  - unfold expected_date. destruct (days_to_date d) as [[y m] dd].
    destruct (c =? 121); [right; exists PYear; reflexivity|]. destruct (c =? 77); [right; exists PMonth; reflexivity|].
    destruct (c =? 100); [right; exists PDayOfMonth; reflexivity|]. destruct (c =? 68); [right; exists PDayOfYear; reflexivity | left; reflexivity].
  - destruct (is_time_sym c); [|left; reflexivity]. unfold expected_time. destruct (days_to_date d) as [[y m] dd]. cbv zeta.
    destruct ((c =? 72) || (c =? 107)); [right; exists PHour; reflexivity|].
    destruct ((c =? 104) || (c =? 75)); [right; exists PPeriodHour; reflexivity|].
    destruct (c =? 109); [right; exists PMinute; reflexivity|]. destruct (c =? 115); [right; exists PSecond; reflexivity|].
    destruct ((c =? 97) || (c =? 98)); [right; exists PPeriod; reflexivity|].
    destruct (c =? 110).
    + right. unfold n_unit, n_digits. destruct (Z.ltb_spec 5 w).
      * exists PMillis. assert (E : match w with 1 => PDecis | 2 => PCentis | 4 => PMicros | 5 => PNanos | _ => PMillis end = PMillis).
        { destruct w as [|p|p]; try lia. do 3 (try destruct p as [p|p|]); try lia; reflexivity. }
        rewrite E. reflexivity.
      * assert (C : w = 1 \/ w = 2 \/ w = 3 \/ w = 4 \/ w = 5) by lia.
        destruct C as [-> | [-> | [-> | [-> | ->]]]].
        -- exists PDecis. reflexivity. -- exists PCentis. reflexivity. -- exists PMillis. reflexivity. -- exists PMicros. reflexivity.
        -- exists PNanos. cbn [Z.eqb Pos.eqb n_unit]. change (10 ^ (9 - 9)) with 1. rewrite Z.div_1_r. reflexivity.
    + destruct ((c =? 88) || (c =? 120)); [right; exists POffset; reflexivity | left; reflexivity].
Qed.

(* ================= assembling the value from the collected fields ================= *)
Section Assemble.
  Variables (now d n off : Z) (items : list pitem).
  Hypothesis Hd : in_i32 d.
  Hypothesis Hn : 0 <= n < NANOS_PER_DAY.
  Hypothesis Ho : off_ok off.
  Hypothesis Hok : Forall (fun it => item_ok it = true) items.
  Let exps := map (item_expected d n off) items.
  Let R := fold_left apply_exp exps (PD0, PT0).
  Definition has (u : punit) : bool := existsb (sets_unit u) (map (item_expected d n off) items).

  Lemma slot_R u : get_slot R u = if has u then Some (norm_slot u (canon d n off u)) else None.
  Proof.
    unfold R, has. rewrite (fold_slot (canon d n off) u exps (PD0, PT0)).
    - fold exps. destruct (existsb (sets_unit u) exps); [reflexivity|]. destruct u; reflexivity.
    - intros r Hr. unfold exps in Hr. apply in_map_iff in Hr as (it & <- & Hin). apply expected_canon. rewrite Forall_forall in Hok. apply Hok, Hin.
  Qed.

  Lemma assemble_date : has PYear = true -> (has PDayOfYear = true \/ (has PMonth = true /\ has PDayOfMonth = true)) ->
    date_days_of (fst R) = Ok d.
  Proof.
    intros Hy Hmd. unfold date_days_of.
    change (pd_doy (fst R)) with (get_slot R PDayOfYear). change (pd_year (fst R)) with (get_slot R PYear).
    change (pd_month (fst R)) with (get_slot R PMonth). change (pd_dom (fst R)) with (get_slot R PDayOfMonth).
    rewrite !slot_R, Hy. cbn [oz norm_slot]. unfold canon.
    pose proof (year_i32 d Hd) as Yi. pose proof (c01_roundtrip d Hd) as RT. destruct (days_to_date_rd d) as [V Erd].
    destruct (days_to_date d) as [[y m] dd]. destruct V as (Vy & Vm & Vd).
    assert (Hd31 : dd <= 31) by (unfold mlen in Vd; repeat match type of Vd with context [if ?b then _ else _] => destruct b end; lia).
    rewrite (wrap_i32_id y) by exact Yi.
    destruct (has PDayOfYear) eqn:Hdoy.
    - pose proof (cum_bounds y m dd Vm Vd) as Cb. unfold rd in Erd. rewrite rd_jan1.
      assert (Hr : 1 <= 1 + d - ystart (astro y) <= ylen y) by lia.
      rewrite wrap_u32_id by (unfold U32_MAX, ylen in *; destruct (leap y); lia).
      destruct (year_doy_to_days_spec y (1 + d - ystart (astro y)) ltac:(lia)) as [A _]. rewrite A.
      + f_equal. rewrite rd_jan1. lia.
      + split; [exact Vy|]. split; [exact Hr|]. rewrite rd_jan1. replace (ystart (astro y) + (1 + d - ystart (astro y)) - 1) with d by lia. exact Hd.
    - destruct Hmd as [X | [Hm Hdm]]; [discriminate|]. rewrite Hm, Hdm. cbn [oz].
      rewrite !wrap_u32_id by (unfold U32_MAX; lia). exact RT.
  Qed.

  Definition sub_scale (u : punit) : Z := match u with PDecis => 100000000 | PCentis => 10000000 | PMillis => 1000000 | PMicros => 1000 | _ => 1 end.
  Definition is_sub (u : punit) : bool := match u with PDecis | PCentis | PMillis | PMicros | PNanos => true | _ => false end.
  Variable sel : option punit.
  Hypothesis Hsel : match sel with Some s => is_sub s = true | None => True end.
  Hypothesis Hsub : forall u, is_sub u = true -> has u = match sel with Some s => punit_eqb s u | None => false end.
  Definition prec_unit : Z := match sel with Some s => sub_scale s | None => 1000000000 end.

  Lemma assemble_time : (has PHour = true \/ (has PPeriodHour = true /\ has PPeriod = true)) -> has PMinute = true -> has PSecond = true ->
    time_nanos (snd R) = n / prec_unit * prec_unit.
  Proof.
    intros Hh Hmi Hs. unfold time_nanos.
    change (pt_hour (snd R)) with (get_slot R PHour). change (pt_phour (snd R)) with (get_slot R PPeriodHour).
    change (pt_period (snd R)) with (get_slot R PPeriod). change (pt_minute (snd R)) with (get_slot R PMinute).
    change (pt_second (snd R)) with (get_slot R PSecond). change (pt_decis (snd R)) with (get_slot R PDecis).
    change (pt_centis (snd R)) with (get_slot R PCentis). change (pt_millis (snd R)) with (get_slot R PMillis).
    change (pt_micros (snd R)) with (get_slot R PMicros). change (pt_nanos (snd R)) with (get_slot R PNanos).
    rewrite !slot_R, Hmi, Hs. rewrite (Hsub PDecis eq_refl), (Hsub PCentis eq_refl), (Hsub PMillis eq_refl), (Hsub PMicros eq_refl), (Hsub PNanos eq_refl).
    cbn [oz norm_slot]. unfold canon. destruct (days_to_date d) as [[y m] dd].
    set (h := n / NANOS_PER_HOUR). set (mi := n / NANOS_PER_MINUTE mod 60). set (s := n / NANOS_PER_SEC mod 60). set (ss := n mod NANOS_PER_SEC).
    assert (Bh : 0 <= h < 24) by (subst h; revert Hn; unfold_consts; intros; lia).
    assert (Bmi : 0 <= mi < 60) by (subst mi; lia). assert (Bs : 0 <= s < 60) by (subst s; lia).
    assert (Bss : 0 <= ss < 1000000000) by (subst ss; unfold NANOS_PER_SEC; lia).
    assert (Hsum : (h * 3600 + mi * 60 + s) * 1000000000 + ss = n) by (subst h mi s ss; revert Hn; unfold_consts; intros; lia).
    assert (W : forall x, 0 <= x < 1000000000 -> wrap_u64 x = x) by (intros; unfold wrap_u64; lia).
    assert (Hour : (match (if has PHour then Some (wrap_u64 h) else None) with
                    | Some h0 => h0 * 3600 * NANOS_PER_SEC
                    | None => (oz (if has PPeriodHour then Some (wrap_u64 (h mod 12)) else None) 0 +
                               oz (if has PPeriod then Some (if (if h <? 12 then 0 else 1) =? 0 then 0 else 12) else None) 0) * 3600 * NANOS_PER_SEC end)
                   = h * 3600 * NANOS_PER_SEC).
    { destruct (has PHour); [rewrite W by lia; reflexivity|]. destruct Hh as [X | [H1 H2]]; [discriminate|]. rewrite H1, H2. cbn [oz].
      pose proof (Z.mod_pos_bound h 12 ltac:(lia)). rewrite W by lia. destruct (Z.ltb_spec h 12); cbn [Z.eqb]; f_equal; f_equal; lia. }
    rewrite Hour. rewrite !W by lia. clearbody h mi s ss. unfold prec_unit, NANOS_PER_SEC.
    destruct sel as [s0|].
    - destruct s0; try discriminate Hsel; cbn [punit_eqb oz sub_scale]; rewrite ?W by (try lia; split; [apply Z.div_pos; lia | apply Z.div_lt_upper_bound; lia]); lia.
    - cbn [oz]. lia.
  Qed.
End Assemble.

Definition unit_ok (U : Z) : Prop := U = 1000000000 \/ U = 100000000 \/ U = 10000000 \/ U = 1000000 \/ U = 1000 \/ U = 1.
Lemma trunc_le U n : unit_ok U -> 0 <= n -> 0 <= n / U * U <= n.
Proof. intros [-> | [-> | [-> | [-> | [-> | ->]]]]] H; lia. Qed.
Lemma trunc_day U d n : unit_ok U -> 0 <= n < 86400000000000 -> d * 86400000000000 + n / U * U = (d * 86400000000000 + n) / U * U.
Proof. intros [-> | [-> | [-> | [-> | [-> | ->]]]]] H; lia. Qed.
Lemma trunc_range U L o : unit_ok U ->
  -2147483648 * 86400000000000 <= L - o * 1000000000 <= 2147483647 * 86400000000000 + 86400000000000 - 1 ->
  -2147483648 * 86400000000000 <= L / U * U - o * 1000000000 <= 2147483647 * 86400000000000 + 86400000000000 - 1.
Proof. intros [-> | [-> | [-> | [-> | [-> | ->]]]]] H; lia. Qed.
Lemma trunc_day' U d n : unit_ok U -> 0 <= n < NANOS_PER_DAY -> d * NANOS_PER_DAY + n / U * U = (d * NANOS_PER_DAY + n) / U * U.
Proof. unfold NANOS_PER_DAY. apply trunc_day. Qed.
Lemma trunc_range' U L o : unit_ok U -> inst_in_range (L - o * NANOS_PER_SEC) -> inst_in_range (L / U * U - o * NANOS_PER_SEC).
Proof. unfold inst_in_range, MIN_I, MAX_I, I32_MIN, I32_MAX, NANOS_PER_DAY, NANOS_PER_SEC. apply trunc_range. Qed.
Lemma prec_unit_ok sel : match sel with Some s => is_sub s = true | None => True end -> unit_ok (prec_unit sel).
Proof. unfold prec_unit, unit_ok. destruct sel as [s0|]; [|lia]. destruct s0; intros H; try discriminate H; cbn [sub_scale]; lia. Qed.

(* ================= C12 for DateTime with a full date, time of day and zone ================= *)
Theorem dt_roundtrip now v items sel : Valid_dt v -> swf None items = true ->
  let L := local_instant v in let d := L / NANOS_PER_DAY in let n := L mod NANOS_PER_DAY in let off := dt_off v in
  fits_chain d off (fields_of_day d n off) items [] ->
  has d n off items PYear = true -> (has d n off items PDayOfYear = true \/ (has d n off items PMonth = true /\ has d n off items PDayOfMonth = true)) ->
  (has d n off items PHour = true \/ (has d n off items PPeriodHour = true /\ has d n off items PPeriod = true)) ->
  has d n off items PMinute = true -> has d n off items PSecond = true ->
  match sel with Some s => is_sub s = true | None => True end ->
  (forall u, is_sub u = true -> has d n off items u = match sel with Some s => punit_eqb s u | None => false end) ->
  has d n off items POffset = true ->
  exists txt v', dt_format v (unparse items) = Ok txt /\ dt_parse now txt (unparse items) = Ok v' /\
    dt_off v' = off /\ instant v' = L / prec_unit sel * prec_unit sel - off * NANOS_PER_SEC /\ Valid_dt v'.
Proof.
  intros Hv Hswf. cbv zeta. set (L := local_instant v). set (d := L / NANOS_PER_DAY). set (n := L mod NANOS_PER_DAY). set (off := dt_off v).
  intros Hfit Hy Hmd Hh Hmi Hs Hsel Hsub Hz.
  pose proof Hv as [I Lr]. fold L in Lr. destruct (split_ok L Lr) as (_ & Hdi & Hn & HLs). unfold D in *. fold d n in Hdi, Hn, HLs.
  assert (Ho : off_ok off) by (destruct I as (_ & _ & O); exact O).
  pose proof (swf_items_ok items None Hswf) as Hok.
  exists (render 2 (fields_of_day d n off) items). rewrite (dt_format_items v items Hv Hswf). fold L d n off.
  set (F := fields_of_day d n off) in *.
  assert (Ad : date_fields_agree F d) by apply fields_date_agree. assert (At : time_fields_agree F n off) by (apply fields_time_agree; exact Hn).
  unfold dt_parse. rewrite (tokenizer_items items Hswf).
  rewrite <- (app_nil_r (render 2 F items)).
  pose proof (loop_back now F d n off Hdi Hn Ho Ad At items (PD0, PT0) [] Hok Hfit) as LB. cbn [fst snd] in LB. rewrite LB. clear LB. cbn [bind].
  pose proof (assemble_date d n off items Hdi Hok Hy Hmd) as AD.
  pose proof (assemble_time d n off items Hn Hok sel Hsel Hsub Hh Hmi Hs) as AT.
  pose proof (slot_R d n off items Hok POffset) as SO. rewrite Hz in SO. cbn [norm_slot] in SO.
  assert (Ec : canon d n off POffset = off) by (unfold canon; destruct (days_to_date d) as [[? ?] ?]; reflexivity). rewrite Ec in SO.
  assert (Ew : wrap_i32 off = off) by (unfold off_ok, SECS_PER_DAY in Ho; unfold wrap_i32; lia). rewrite Ew in SO.
  set (R := fold_left apply_exp (map (item_expected d n off) items) (PD0, PT0)) in *. destruct R as [pd pt]. cbn [fst snd get_slot] in AD, AT, SO.
  rewrite AD. cbn [bind]. rewrite AT.
  pose proof (prec_unit_ok sel Hsel) as HU. set (U := prec_unit sel) in *.
  set (tn := n / U * U).
  assert (Htn : 0 <= tn <= n) by (apply trunc_le; [exact HU | lia]).
  unfold time_from_nanos. destruct (Z.leb_spec NANOS_PER_DAY tn); [lia|]. cbn [bind tm_nanos]. rewrite SO.
  destruct (c10_offset_from_seconds off) as [Oa _]. rewrite (Oa Ho). cbn [bind].
  unfold try_remove_offset_from_dn. rewrite days_nanos_to_nanos_spec.
  assert (HLU : d * NANOS_PER_DAY + tn = L / U * U).
  { subst tn. rewrite <- HLs. apply trunc_day'; [exact HU | exact Hn]. }
  assert (Hinst : instant v = L - off * NANOS_PER_SEC) by (subst L off; unfold local_instant; lia).
  pose proof (inv_in_range v I) as Ir. rewrite Hinst in Ir.
  assert (Rng : inst_in_range (d * NANOS_PER_DAY + tn - off * NANOS_PER_SEC)).
  { rewrite HLU. apply trunc_range'; [exact HU | exact Ir]. }
  destruct (split_ok _ Rng) as (E & Hq & Hr & Hsum). rewrite E. cbn [bind].
  eexists. split; [reflexivity|]. split; [reflexivity|]. cbn [dt_off]. split; [reflexivity|].
  unfold D in *. split.
  - unfold instant. cbn [dt_days dt_nanos]. rewrite Hsum, HLU. reflexivity.
  - split.
    + unfold Inv_dt. cbn [dt_days dt_nanos dt_off]. tauto.
    + unfold local_instant, instant. cbn [dt_days dt_nanos dt_off]. rewrite Hsum.
      replace (d * NANOS_PER_DAY + tn - off * NANOS_PER_SEC + off * NANOS_PER_SEC) with (d * NANOS_PER_DAY + tn) by lia.
      apply day_in_range; [exact Hdi | lia].
Qed.

(* ================= formatting the parsed value again gives the same text ================= *)
Definition same_but_subsec (F F' : vfields) : Prop :=
  vf_bc F' = vf_bc F /\ vf_year F' = vf_year F /\ vf_month F' = vf_month F /\ vf_day F' = vf_day F /\ vf_doy F' = vf_doy F /\
  vf_wd F' = vf_wd F /\ vf_week F' = vf_week F /\ vf_hour F' = vf_hour F /\ vf_minute F' = vf_minute F /\ vf_second F' = vf_second F /\
  vf_offset F' = vf_offset F.
Lemma render_field_trunc F F' c w : same_but_subsec F F' -> 1 <= w ->
  (c = 110 -> vf_subsec F' / 10 ^ (9 - n_digits w) = vf_subsec F / 10 ^ (9 - n_digits w)) ->
  render_field F' c w = render_field F c w.
Proof.
  intros (E1 & E2 & E3 & E4 & E5 & E6 & E7 & E8 & E9 & E10 & E11) Hw Hn. unfold render_field. cbv zeta.
  rewrite E1, E2, E3, E4, E5, E6, E7, E8, E9, E10, E11.
  destruct (Z.eq_dec c 110) as [->|Hc].
  - specialize (Hn eq_refl). unfold n_digits in Hn.
    assert (C : w = 1 \/ w = 2 \/ w = 3 \/ w = 4 \/ w = 5 \/ 5 < w) by lia.
    destruct C as [-> | [-> | [-> | [-> | [-> | C]]]]]; cbn [Z.ltb Z.compare Pos.compare Pos.compare_cont Z.eqb Pos.eqb] in *.
    + change (10 ^ (9 - 1)) with 100000000 in Hn. rewrite Hn. reflexivity.
    + change (10 ^ (9 - 2)) with 10000000 in Hn. rewrite Hn. reflexivity.
    + change (10 ^ (9 - 3)) with 1000000 in Hn. rewrite Hn. reflexivity.
    + change (10 ^ (9 - 6)) with 1000 in Hn. rewrite Hn. reflexivity.
    + change (10 ^ (9 - 9)) with 1 in Hn. rewrite !Z.div_1_r in Hn. rewrite Hn. reflexivity.
    + destruct (Z.ltb_spec 5 w); [|lia]. change (10 ^ (9 - 3)) with 1000000 in Hn. cbn [Z.eqb]. rewrite Hn. reflexivity.
  - destruct c as [|p|p]; try reflexivity. do 7 (try destruct p as [p|p|]); try reflexivity. contradiction.
Qed.

Lemma render_same kind F F' items : same_but_subsec F F' -> Forall (fun it => item_ok it = true) items ->
  (forall w, In (PField 110 w) items -> vf_subsec F' / 10 ^ (9 - n_digits w) = vf_subsec F / 10 ^ (9 - n_digits w)) ->
  render kind F' items = render kind F items.
Proof.
  intros Hs Hok Hn. unfold render. rewrite !flat_map_concat_map. f_equal. apply map_ext_in. intros it Hin.
  rewrite Forall_forall in Hok. specialize (Hok it Hin). destruct it as [c w | c k | txt | k]; cbn [render_item]; try reflexivity.
  cbn [item_ok] in Hok. apply andb_true_iff in Hok as [Hw _]. apply Z.leb_le in Hw.
  destruct (understands kind c); [|reflexivity]. apply render_field_trunc; [exact Hs | exact Hw |]. intros ->. apply Hn. exact Hin.
Qed.

Lemma n_item_has d n off items w : In (PField 110 w) items -> has d n off items (n_unit w) = true.
Proof.
  intros Hin. unfold has. apply existsb_exists. exists (item_expected d n off (PField 110 w)). split; [apply in_map; exact Hin|].
  cbn [item_expected]. change (is_date_sym 110) with false. change (is_time_sym 110) with true. cbv iota. unfold expected_time. cbv zeta.
  cbn [Z.eqb Pos.eqb orb sets_unit]. apply punit_eqb_eq. reflexivity.
Qed.
Lemma n_unit_scale w : 1 <= w -> sub_scale (n_unit w) = 10 ^ (9 - n_digits w) /\ is_sub (n_unit w) = true.
Proof.
  intros Hw. unfold n_unit, n_digits. assert (C : w = 1 \/ w = 2 \/ w = 3 \/ w = 4 \/ w = 5 \/ 5 < w) by lia.
  destruct C as [-> | [-> | [-> | [-> | [-> | C]]]]]; try (split; reflexivity).
  destruct (Z.ltb_spec 5 w); [|lia]. assert (E : match w with 1 => PDecis | 2 => PCentis | 4 => PMicros | 5 => PNanos | _ => PMillis end = PMillis).
  { destruct w as [|p|p]; try lia. do 3 (try destruct p as [p|p|]); try lia; reflexivity. }
  rewrite E. split; reflexivity.
Qed.

(* the complete statement for DateTime *)
Theorem dt_roundtrip_reformat now v items sel : Valid_dt v -> swf None items = true ->
  let L := local_instant v in let d := L / NANOS_PER_DAY in let n := L mod NANOS_PER_DAY in let off := dt_off v in
  fits_chain d off (fields_of_day d n off) items [] ->
  has d n off items PYear = true -> (has d n off items PDayOfYear = true \/ (has d n off items PMonth = true /\ has d n off items PDayOfMonth = true)) ->
  (has d n off items PHour = true \/ (has d n off items PPeriodHour = true /\ has d n off items PPeriod = true)) ->
  has d n off items PMinute = true -> has d n off items PSecond = true ->
  match sel with Some s => is_sub s = true | None => True end ->
  (forall u, is_sub u = true -> has d n off items u = match sel with Some s => punit_eqb s u | None => false end) ->
  has d n off items POffset = true ->
  exists txt v', dt_format v (unparse items) = Ok txt /\ dt_parse now txt (unparse items) = Ok v' /\
    dt_off v' = off /\ instant v' = L / prec_unit sel * prec_unit sel - off * NANOS_PER_SEC /\ Valid_dt v' /\
    dt_format v' (unparse items) = Ok txt.
Proof.
  intros Hv Hswf. cbv zeta. intros Hfit Hy Hmd Hh Hmi Hs Hsel Hsub Hz.
  destruct (dt_roundtrip now v items sel Hv Hswf Hfit Hy Hmd Hh Hmi Hs Hsel Hsub Hz) as (txt & v' & Ef & Ep & Eo & Ei & Vv').
  exists txt, v'. repeat (split; [assumption|]).
  rewrite (dt_format_items v items Hv Hswf) in Ef. injection Ef as <-. rewrite (dt_format_items v' items Vv' Hswf). f_equal.
  set (L := local_instant v) in *. set (off := dt_off v) in *. set (U := prec_unit sel) in *.
  pose proof (prec_unit_ok sel Hsel) as HU. fold U in HU.
  assert (EL : local_instant v' = L / U * U) by (unfold local_instant; rewrite Ei, Eo; lia).
  rewrite EL, Eo. pose proof (swf_items_ok items None Hswf) as Hok.
  apply render_same; [| exact Hok |].
  - unfold same_but_subsec, fields_of_day.
    assert (Ed : L / U * U / NANOS_PER_DAY = L / NANOS_PER_DAY) by (unfold NANOS_PER_DAY; destruct HU as [-> | [-> | [-> | [-> | [-> | ->]]]]]; lia).
    rewrite Ed. destruct (days_to_date (L / NANOS_PER_DAY)) as [[y m] dd].
    cbn [vf_bc vf_year vf_month vf_day vf_doy vf_wd vf_week vf_hour vf_minute vf_second vf_offset].
    repeat split; unfold NANOS_PER_DAY, NANOS_PER_HOUR, NANOS_PER_MINUTE, NANOS_PER_SEC; destruct HU as [-> | [-> | [-> | [-> | [-> | ->]]]]]; lia.
  - intros w Hin. pose proof (n_item_has (L / NANOS_PER_DAY) (L mod NANOS_PER_DAY) off items w Hin) as Hh'.
    rewrite Forall_forall in Hok. pose proof (Hok _ Hin) as Hi. cbn [item_ok] in Hi. apply andb_true_iff in Hi as [Hw _]. apply Z.leb_le in Hw.
    destruct (n_unit_scale w Hw) as [Esc Hsb]. rewrite (Hsub _ Hsb) in Hh'. destruct sel as [s0|]; [|discriminate]. apply punit_eqb_eq in Hh'. subst s0.
    unfold U, prec_unit in *. rewrite <- Esc. set (X := sub_scale (n_unit w)) in *.
    unfold fields_of_day. destruct (days_to_date _) as [[y1 m1] d1]. destruct (days_to_date _) as [[y2 m2] d2]. cbn [vf_subsec].
    unfold NANOS_PER_DAY, NANOS_PER_SEC. destruct HU as [E | [E | [E | [E | [E | E]]]]]; rewrite E; lia.
Qed.

(* ================= the Date and Time types: their own parse loops ================= *)
(* Date::parse understands the date symbols only; every other run is literal text (also the time symbols) *)
Definition pp_of (kind now : Z) : text -> text -> res (option (punit * Z) * text) :=
  match kind with 0 => parse_date_part now | 1 => parse_time_part | _ => parse_part now end.
Definition parse_step_k (kind now : Z) (part s : text) : res (option (punit * Z) * text) :=
  if is_literal_part part then (let? s' := remove_literal_part part s in Ok (None, s')) else pp_of kind now part s.
Definition item_expected_k (kind d n off : Z) (it : pitem) : option (punit * Z) :=
  match it with
  | PField c w => if understands kind c then (if is_date_sym c then expected_date d c else expected_time n off c w) else None
  | _ => None
  end.
Definition item_fits_k (kind d off : Z) (it : pitem) (rest : text) : Prop :=
  match it with
  | PField c w => understands kind c = true -> (is_date_sym c = true -> date_field_ok d c w) /\ field_delim off c w rest
  | _ => True
  end.

Lemma parse_loop_step_k kind now part tl s pd pt :
  parse_loop (pp_of kind now) (part :: tl) s pd pt =
  (let? '(r, s') := parse_step_k kind now part s in let st := apply_exp (pd, pt) r in parse_loop (pp_of kind now) tl s' (fst st) (snd st)).
Proof.
  cbn [parse_loop]. unfold parse_step_k. destruct (is_literal_part part).
  - destruct (remove_literal_part part s); reflexivity.
  - destruct (pp_of kind now part s) as [[[[u v]|] s']| |]; cbn [bind apply_exp]; [destruct (is_date_unit u)| | |]; reflexivity.
Qed.

(* a run of a character the type does not understand: copied by format, skipped (same number of characters) by parse *)
Lemma pdp_skip now c w rest : 1 <= w -> is_date_sym c = false -> parse_date_part now (run c w) (run c w ++ rest) = Ok (None, rest).
Proof.
  intros Hw H. rewrite pdp_unfold by exact Hw. cbv zeta. unfold is_date_sym in H. cbn [existsb] in H. rewrite !orb_false_iff in H.
  destruct H as (H1 & H2 & H3 & H4 & H5 & H6 & H7 & H8 & _). rewrite H1, H2, H3, H4, H5, H6, H7, H8. rewrite remove_part_app. reflexivity.
Qed.
Lemma ptp_skip c w rest : 1 <= w -> is_time_sym c = false -> parse_time_part (run c w) (run c w ++ rest) = Ok (None, rest).
Proof.
  intros Hw H. rewrite ptp_unfold by exact Hw. cbv zeta. unfold is_time_sym in H. cbn [existsb] in H. rewrite !orb_false_iff in H.
  destruct H as (H1 & H2 & H3 & H4 & H5 & H6 & H7 & H8 & H9 & H10 & H11 & _). rewrite H1, H2, H3, H4, H5, H6, H7, H8, H9, H10, H11.
  rewrite remove_part_app. reflexivity.
Qed.

Lemma item_back_k kind now F d n off it rest : (kind = 0 \/ kind = 1) -> in_i32 d -> 0 <= n < NANOS_PER_DAY -> off_ok off ->
  date_fields_agree F d -> time_fields_agree F n off -> item_ok it = true -> item_fits_k kind d off it rest ->
  render_part (kind_fun kind d n off) (part_of it) = Ok (render_item kind F it) /\
  parse_step_k kind now (part_of it) (render_item kind F it ++ rest) = Ok (item_expected_k kind d n off it, rest).
Proof.
  intros Hk Hd Hn Ho Ad At Hi Hf. pose proof (part_render kind F d n off it Ad At Hi) as R. split; [exact R|].
  destruct it as [c w | c k | txt | k]; cbn [part_of render_item item_expected_k item_ok item_fits_k] in *.
  - apply andb_true_iff in Hi as [Hw Hs]. apply Z.leb_le in Hw.
    unfold parse_step_k. fold (run c w) in *. rewrite (sym_not_literal c w Hs Hw).
    unfold render_part in R. rewrite run_first in R by exact Hw.
    apply sym_not_special in Hs as Hs'. unfold NUL, APOS in R. destruct (Z.eqb_spec c 0); [lia|]. destruct (Z.eqb_spec c 39); [lia|].
    destruct Hk as [-> | ->]; cbn [pp_of kind_fun understands] in *.
    + (* Date *) destruct (is_date_sym c) eqn:Ed.
      * destruct (Hf eq_refl) as [Hdf Hdl]. destruct (date_sym_back now d c w rest Hd Ed (Hdf eq_refl)) as (txt & E1 & E2).
        { destruct Hdl as [A B]. split; [exact A|]. intros Hc. exfalso. unfold is_date_sym in Ed. cbn [existsb] in Ed. destruct Hc as [-> | ->]; discriminate Ed. }
        rewrite E1 in R. injection R as <-. exact E2.
      * unfold run. apply pdp_skip; [exact Hw | exact Ed].
    + (* Time *) destruct (is_time_sym c) eqn:Et.
      * destruct (Hf eq_refl) as [_ Hdl]. destruct (time_sym_back n off c w rest Hn Ho Et Hw Hdl) as (txt & E1 & E2).
        rewrite E1 in R. injection R as <-.
        assert (Ed : is_date_sym c = false).
        { unfold is_date_sym, is_time_sym in *. cbn [existsb] in *. rewrite !orb_true_iff, !Z.eqb_eq in Et. rewrite !orb_false_iff, !Z.eqb_neq. lia. }
        rewrite Ed. exact E2.
      * unfold run. apply ptp_skip; [exact Hw | exact Et].
  - rewrite !andb_true_iff, !negb_true_iff in Hi. destruct Hi as (((Hw & Hs) & H39) & H0). apply Z.leb_le in Hw.
    unfold parse_step_k. fold (run c k). unfold is_literal_part. rewrite run_first by exact Hw. unfold NUL, APOS. rewrite H0, H39. cbn [orb].
    unfold is_sym in Hs. apply orb_false_iff in Hs as [Hs1 Hs2].
    destruct Hk as [-> | ->]; cbn [pp_of]; [apply pdp_skip | apply ptp_skip]; assumption.
  - unfold parse_step_k, is_literal_part. cbn [first_char]. unfold NUL, APOS. cbn [Z.eqb Pos.eqb orb]. unfold remove_literal_part. cbv zeta. cbn [first_char].
    unfold NUL, APOS. cbn [Z.eqb Pos.eqb].
    assert (Hc : char_count (39 :: map nul_apos txt ++ [39]) = char_count txt + 2).
    { unfold char_count. cbn [length]. rewrite app_length, map_length. cbn [length]. lia. }
    rewrite Hc. assert (H1 : (1 <? char_count txt + 2) = true) by (apply Z.ltb_lt; unfold char_count; lia). rewrite H1.
    change (39 :: map nul_apos txt ++ [39]) with ((39 :: map nul_apos txt) ++ [39]). rewrite rev_app_distr. cbn [rev app Z.eqb Pos.eqb andb].
    replace (char_count txt + 2 - 1 - 1) with (char_count txt) by lia. rewrite remove_part_app. reflexivity.
  - apply Z.leb_le in Hi. unfold parse_step_k, is_literal_part. destruct (Z.to_nat k) eqn:Ek; [lia|]. cbn [repeat_c first_char]. unfold NUL. cbn [Z.eqb orb].
    unfold remove_literal_part. cbv zeta. cbn [first_char]. unfold NUL. cbn [Z.eqb].
    change (0 :: repeat_c 0 n0) with (repeat_c 0 (S n0)). change (39 :: repeat_c 39 n0) with (repeat_c 39 (S n0)).
    rewrite (remove_run 0 (char_count (repeat_c 0 (S n0))) rest (repeat_c 39 (S n0))); [reflexivity|]. rewrite !repeat_c_count. reflexivity.
Qed.

Fixpoint fits_chain_k (kind d off : Z) (F : vfields) (items : list pitem) (tail : text) : Prop :=
  match items with [] => True | it :: tl => item_fits_k kind d off it (render kind F tl ++ tail) /\ fits_chain_k kind d off F tl tail end.

Lemma loop_back_k kind now F d n off : (kind = 0 \/ kind = 1) -> in_i32 d -> 0 <= n < NANOS_PER_DAY -> off_ok off ->
  date_fields_agree F d -> time_fields_agree F n off ->
  forall items st tail, Forall (fun it => item_ok it = true) items -> fits_chain_k kind d off F items tail ->
  parse_loop (pp_of kind now) (map part_of items) (render kind F items ++ tail) (fst st) (snd st)
  = Ok (fold_left apply_exp (map (item_expected_k kind d n off) items) st).
Proof.
  intros Hk Hd Hn Ho Ad At. induction items as [|it tl IH]; intros st tail Hok Hfit.
  - cbn [map parse_loop fold_left]. destruct st; reflexivity.
  - inversion Hok as [|? ? Hi Hok']; subst. destruct Hfit as [Hf Hfit'].
    cbn [map fold_left]. rewrite parse_loop_step_k, render_cons, <- app_assoc.
    destruct (item_back_k kind now F d n off it (render kind F tl ++ tail) Hk Hd Hn Ho Ad At Hi Hf) as [_ B]. rewrite B. cbn [bind]. cbv zeta.
    destruct st as [pd pt]. cbn [fst snd]. apply IH; assumption.
Qed.

Lemma expected_canon_k kind d n off it : item_ok it = true ->
  item_expected_k kind d n off it = None \/ exists u, item_expected_k kind d n off it = Some (u, canon d n off u).
Proof.
  intros Hi. destruct it as [c w | c k | txt | k]; cbn [item_expected_k]; try (left; reflexivity).
  destruct (understands kind c) eqn:Eu; [|left; reflexivity].
  pose proof (expected_canon d n off (PField c w) Hi) as E. cbn [item_expected] in E.
  destruct (is_date_sym c) eqn:Ed; [exact E|]. destruct (is_time_sym c) eqn:Et; [exact E|].
  exfalso. unfold understands in Eu. rewrite Ed, Et in Eu. destruct kind as [|[p|p|]|p]; discriminate Eu.
Qed.

(* the assembly lemmas again, for any way of assigning expected fields to items that yields canonical values *)
Section AssembleG.
  Variables (d n off : Z) (items : list pitem) (ex : pitem -> option (punit * Z)).
  Hypothesis Hd : in_i32 d.
  Hypothesis Hn : 0 <= n < NANOS_PER_DAY.
  Hypothesis Hcanon : forall it, In it items -> ex it = None \/ exists u, ex it = Some (u, canon d n off u).
  Let R := fold_left apply_exp (map ex items) (PD0, PT0).
  Definition has_g (u : punit) : bool := existsb (sets_unit u) (map ex items).

  Lemma slot_Rg u : get_slot R u = if has_g u then Some (norm_slot u (canon d n off u)) else None.
  Proof.
    unfold R, has_g. rewrite (fold_slot (canon d n off) u (map ex items) (PD0, PT0)).
    - destruct (existsb (sets_unit u) (map ex items)); [reflexivity|]. destruct u; reflexivity.
    - intros r Hr. apply in_map_iff in Hr as (it & <- & Hin). apply Hcanon, Hin.
  Qed.

  Lemma assemble_date_g : has_g PYear = true -> (has_g PDayOfYear = true \/ (has_g PMonth = true /\ has_g PDayOfMonth = true)) ->
    date_days_of (fst R) = Ok d.
  Proof.
    intros Hy Hmd. unfold date_days_of.
    change (pd_doy (fst R)) with (get_slot R PDayOfYear). change (pd_year (fst R)) with (get_slot R PYear).
    change (pd_month (fst R)) with (get_slot R PMonth). change (pd_dom (fst R)) with (get_slot R PDayOfMonth).
    rewrite !slot_Rg, Hy. cbn [oz norm_slot]. unfold canon.
    pose proof (year_i32 d Hd) as Yi. pose proof (c01_roundtrip d Hd) as RT. destruct (days_to_date_rd d) as [V Erd].
    destruct (days_to_date d) as [[y m] dd]. destruct V as (Vy & Vm & Vd).
    assert (Hd31 : dd <= 31) by (unfold mlen in Vd; repeat match type of Vd with context [if ?b then _ else _] => destruct b end; lia).
    rewrite (wrap_i32_id y) by exact Yi.
    destruct (has_g PDayOfYear) eqn:Hdoy.
    - pose proof (cum_bounds y m dd Vm Vd) as Cb. unfold rd in Erd. rewrite rd_jan1.
      assert (Hr : 1 <= 1 + d - ystart (astro y) <= ylen y) by lia.
      rewrite wrap_u32_id by (unfold U32_MAX, ylen in *; destruct (leap y); lia).
      destruct (year_doy_to_days_spec y (1 + d - ystart (astro y)) ltac:(lia)) as [A _]. rewrite A.
      + f_equal. rewrite rd_jan1. lia.
      + split; [exact Vy|]. split; [exact Hr|]. rewrite rd_jan1. replace (ystart (astro y) + (1 + d - ystart (astro y)) - 1) with d by lia. exact Hd.
    - destruct Hmd as [X | [Hm Hdm]]; [discriminate|]. rewrite Hm, Hdm. cbn [oz].
      rewrite !wrap_u32_id by (unfold U32_MAX; lia). exact RT.
  Qed.

  Variable sel : option punit.
  Hypothesis Hsel : match sel with Some s => is_sub s = true | None => True end.
  Hypothesis Hsub : forall u, is_sub u = true -> has_g u = match sel with Some s => punit_eqb s u | None => false end.

  Lemma assemble_time_g : (has_g PHour = true \/ (has_g PPeriodHour = true /\ has_g PPeriod = true)) -> has_g PMinute = true -> has_g PSecond = true ->
    time_nanos (snd R) = n / prec_unit sel * prec_unit sel.
  Proof.
    intros Hh Hmi Hs. unfold time_nanos.
    change (pt_hour (snd R)) with (get_slot R PHour). change (pt_phour (snd R)) with (get_slot R PPeriodHour).
    change (pt_period (snd R)) with (get_slot R PPeriod). change (pt_minute (snd R)) with (get_slot R PMinute).
    change (pt_second (snd R)) with (get_slot R PSecond). change (pt_decis (snd R)) with (get_slot R PDecis).
    change (pt_centis (snd R)) with (get_slot R PCentis). change (pt_millis (snd R)) with (get_slot R PMillis).
    change (pt_micros (snd R)) with (get_slot R PMicros). change (pt_nanos (snd R)) with (get_slot R PNanos).
    rewrite !slot_Rg, Hmi, Hs. rewrite (Hsub PDecis eq_refl), (Hsub PCentis eq_refl), (Hsub PMillis eq_refl), (Hsub PMicros eq_refl), (Hsub PNanos eq_refl).
    cbn [oz norm_slot]. unfold canon. destruct (days_to_date d) as [[y m] dd].
    set (h := n / NANOS_PER_HOUR). set (mi := n / NANOS_PER_MINUTE mod 60). set (s := n / NANOS_PER_SEC mod 60). set (ss := n mod NANOS_PER_SEC).
    assert (Bh : 0 <= h < 24) by (subst h; revert Hn; unfold_consts; intros; lia).
    assert (Bmi : 0 <= mi < 60) by (subst mi; lia). assert (Bs : 0 <= s < 60) by (subst s; lia).
    assert (Bss : 0 <= ss < 1000000000) by (subst ss; unfold NANOS_PER_SEC; lia).
    assert (Hsum : (h * 3600 + mi * 60 + s) * 1000000000 + ss = n) by (subst h mi s ss; revert Hn; unfold_consts; intros; lia).
    assert (W : forall x, 0 <= x < 1000000000 -> wrap_u64 x = x) by (intros; unfold wrap_u64; lia).
    assert (Hour : (match (if has_g PHour then Some (wrap_u64 h) else None) with
                    | Some h0 => h0 * 3600 * NANOS_PER_SEC
                    | None => (oz (if has_g PPeriodHour then Some (wrap_u64 (h mod 12)) else None) 0 +
                               oz (if has_g PPeriod then Some (if (if h <? 12 then 0 else 1) =? 0 then 0 else 12) else None) 0) * 3600 * NANOS_PER_SEC end)
                   = h * 3600 * NANOS_PER_SEC).
    { destruct (has_g PHour); [rewrite W by lia; reflexivity|]. destruct Hh as [X | [H1 H2]]; [discriminate|]. rewrite H1, H2. cbn [oz].
      pose proof (Z.mod_pos_bound h 12 ltac:(lia)). rewrite W by lia. destruct (Z.ltb_spec h 12); cbn [Z.eqb]; f_equal; f_equal; lia. }
    rewrite Hour. rewrite !W by lia. clearbody h mi s ss. unfold prec_unit, NANOS_PER_SEC.
    destruct sel as [s0|].
    - destruct s0; try discriminate Hsel; cbn [punit_eqb oz sub_scale]; rewrite ?W by (try lia; split; [apply Z.div_pos; lia | apply Z.div_lt_upper_bound; lia]); lia.
    - cbn [oz]. lia.
  Qed.
End AssembleG.

(* ---------- Date ---------- *)
Theorem date_roundtrip now d items : in_i32 d -> swf None items = true ->
  fits_chain_k 0 d 0 (fields_of_day d 0 0) items [] ->
  let ex := item_expected_k 0 d 0 0 in
  has_g items ex PYear = true -> (has_g items ex PDayOfYear = true \/ (has_g items ex PMonth = true /\ has_g items ex PDayOfMonth = true)) ->
  exists txt, date_format d (unparse items) = Ok txt /\ date_parse now txt (unparse items) = Ok d.
Proof.
  intros Hd Hswf Hfit ex Hy Hmd. pose proof (swf_items_ok items None Hswf) as Hok.
  exists (render 0 (fields_of_day d 0 0) items). split; [apply date_format_items; exact Hswf|].
  set (F := fields_of_day d 0 0) in *.
  assert (Ad : date_fields_agree F d) by apply fields_date_agree.
  assert (At : time_fields_agree F 0 0) by (apply fields_time_agree; unfold NANOS_PER_DAY; lia).
  unfold date_parse. rewrite (tokenizer_items items Hswf). rewrite <- (app_nil_r (render 0 F items)).
  pose proof (loop_back_k 0 now F d 0 0 ltac:(left; reflexivity) Hd ltac:(unfold NANOS_PER_DAY; lia) off_ok_0 Ad At items (PD0, PT0) [] Hok Hfit) as LB.
  cbn [fst snd pp_of] in LB. rewrite LB. clear LB. cbn [bind].
  assert (Hc : forall it, In it items -> ex it = None \/ exists u, ex it = Some (u, canon d 0 0 u)).
  { intros it Hin. apply expected_canon_k. rewrite Forall_forall in Hok. apply Hok, Hin. }
  pose proof (assemble_date_g d 0 0 items ex Hd Hc Hy Hmd) as AD. unfold ex in AD.
  destruct (fold_left apply_exp (map (item_expected_k 0 d 0 0) items) (PD0, PT0)) as [pd pt]. cbn [fst] in AD. exact AD.
Qed.

Lemma trunc_fields U ln : unit_ok U -> 0 <= ln < 86400000000000 ->
  ln / U * U / 3600000000000 = ln / 3600000000000 /\ (ln / U * U / 60000000000) mod 60 = (ln / 60000000000) mod 60 /\
  (ln / U * U / 1000000000) mod 60 = (ln / 1000000000) mod 60 /\ (ln / U * U) mod 1000000000 / U = ln mod 1000000000 / U.
Proof. intros [-> | [-> | [-> | [-> | [-> | ->]]]]] H; lia. Qed.

(* ---------- Time (with a zone field) ---------- *)
Theorem time_roundtrip t items sel : Inv_tm t -> swf None items = true ->
  let off := tm_off t in let ln := (tm_nanos t + off * NANOS_PER_SEC) mod NANOS_PER_DAY in
  fits_chain_k 1 0 off (fields_of_day 0 ln off) items [] ->
  let ex := item_expected_k 1 0 ln off in
  (has_g items ex PHour = true \/ (has_g items ex PPeriodHour = true /\ has_g items ex PPeriod = true)) ->
  has_g items ex PMinute = true -> has_g items ex PSecond = true ->
  match sel with Some s => is_sub s = true | None => True end ->
  (forall u, is_sub u = true -> has_g items ex u = match sel with Some s => punit_eqb s u | None => false end) ->
  has_g items ex POffset = true ->
  exists txt t', time_format t (unparse items) = Ok txt /\ time_parse txt (unparse items) = Ok t' /\
    tm_off t' = off /\ (tm_nanos t' + off * NANOS_PER_SEC) mod NANOS_PER_DAY = ln / prec_unit sel * prec_unit sel /\ Inv_tm t' /\
    time_format t' (unparse items) = Ok txt.
Proof.
  intros Ht Hswf. cbv zeta. set (off := tm_off t). set (ln := (tm_nanos t + off * NANOS_PER_SEC) mod NANOS_PER_DAY).
  intros Hfit Hh Hmi Hs Hsel Hsub Hz. destruct Ht as [Hn0 Ho]. fold off in Ho.
  pose proof (swf_items_ok items None Hswf) as Hok.
  assert (Hln : 0 <= ln < NANOS_PER_DAY) by (subst ln; apply Z.mod_pos_bound; unfold NANOS_PER_DAY; lia).
  set (F := fields_of_day 0 ln off) in *.
  assert (Ad : date_fields_agree F 0) by apply fields_date_agree. assert (At : time_fields_agree F ln off) by (apply fields_time_agree; exact Hln).
  assert (H0 : in_i32 0) by (unfold in_i32, I32_MIN, I32_MAX; lia).
  exists (render 1 F items). rewrite (time_format_items t items (conj Hn0 Ho) Hswf). fold off ln F.
  set (ex := item_expected_k 1 0 ln off) in *.
  assert (Hc : forall it, In it items -> ex it = None \/ exists u, ex it = Some (u, canon 0 ln off u)).
  { intros it Hin. apply expected_canon_k. rewrite Forall_forall in Hok. apply Hok, Hin. }
  pose proof (assemble_time_g 0 ln off items ex Hln Hc sel Hsel Hsub Hh Hmi Hs) as AT.
  pose proof (slot_Rg 0 ln off items ex Hc POffset) as SO. rewrite Hz in SO. cbn [norm_slot] in SO.
  assert (Ec : canon 0 ln off POffset = off) by (unfold canon; destruct (days_to_date 0) as [[? ?] ?]; reflexivity). rewrite Ec in SO.
  assert (Ew : wrap_i32 off = off) by (unfold off_ok, SECS_PER_DAY in Ho; unfold wrap_i32; lia). rewrite Ew in SO.
  assert (LB : parse_loop parse_time_part (map part_of items) (render 1 F items) PD0 PT0 = Ok (fold_left apply_exp (map ex items) (PD0, PT0))).
  { pose proof (loop_back_k 1 0 F 0 ln off ltac:(right; reflexivity) H0 Hln Ho Ad At items (PD0, PT0) [] Hok Hfit) as LB.
    cbn [fst snd pp_of] in LB. rewrite app_nil_r in LB. exact LB. }
  unfold time_parse. rewrite (tokenizer_items items Hswf), LB. cbn [bind].
  destruct (fold_left apply_exp (map ex items) (PD0, PT0)) as [pd pt]. cbn [fst snd get_slot] in AT, SO.
  cbv beta iota. rewrite AT. pose proof (prec_unit_ok sel Hsel) as HU. set (U := prec_unit sel) in *. set (tn := ln / U * U).
  assert (Htn : 0 <= tn <= ln) by (apply trunc_le; [exact HU | lia]).
  unfold time_from_nanos. destruct (Z.leb_spec NANOS_PER_DAY tn); [lia|]. cbn [bind]. rewrite SO.
  destruct (c10_offset_from_seconds off) as [Oa _]. rewrite (Oa Ho). cbn [bind].
  destruct (c10_time_as_offset (mkTM tn 0) off) as (t' & E & En & Eo & El); [unfold in_day, D; cbn [tm_nanos]; lia | exact Ho|].
  rewrite E. cbn [tm_nanos] in En, El. unfold D in *.
  assert (It' : Inv_tm t').
  { split; [rewrite En; apply Z.mod_pos_bound; unfold NANOS_PER_DAY; lia | rewrite Eo; exact Ho]. }
  eexists. split; [reflexivity|]. split; [reflexivity|]. split; [exact Eo|]. split; [exact El|]. split; [exact It'|].
  rewrite (time_format_items t' items It' Hswf). rewrite Eo, El. f_equal. fold F.
  apply render_same; [| exact Hok |].
  - destruct (trunc_fields U ln HU ltac:(revert Hln; unfold NANOS_PER_DAY; intros; exact Hln)) as (T1 & T2 & T3 & _).
    unfold same_but_subsec, F, fields_of_day. destruct (days_to_date 0) as [[y m] dd].
    cbn [vf_bc vf_year vf_month vf_day vf_doy vf_wd vf_week vf_hour vf_minute vf_second vf_offset]. subst tn.
    unfold NANOS_PER_HOUR, NANOS_PER_MINUTE, NANOS_PER_SEC. rewrite T1, T2, T3. repeat split.
  - intros w Hin.
    assert (Hh' : has_g items ex (n_unit w) = true).
    { unfold has_g. apply existsb_exists. exists (ex (PField 110 w)). split; [apply in_map; exact Hin|]. unfold ex. cbn [item_expected_k understands].
      change (is_time_sym 110) with true. change (is_date_sym 110) with false. cbv iota. unfold expected_time. cbv zeta. cbn [Z.eqb Pos.eqb orb sets_unit]. apply punit_eqb_eq. reflexivity. }
    rewrite Forall_forall in Hok. pose proof (Hok _ Hin) as Hi. cbn [item_ok] in Hi. apply andb_true_iff in Hi as [Hw _]. apply Z.leb_le in Hw.
    destruct (n_unit_scale w Hw) as [Esc Hsb]. rewrite (Hsub _ Hsb) in Hh'. destruct sel as [s0|]; [|discriminate]. apply punit_eqb_eq in Hh'. subst s0.
    destruct (trunc_fields U ln HU ltac:(revert Hln; unfold NANOS_PER_DAY; intros; exact Hln)) as (_ & _ & _ & T4).
    rewrite <- Esc. change (sub_scale (n_unit w)) with U. subst tn.
    unfold F, fields_of_day. destruct (days_to_date 0) as [[y1 m1] d1]. cbn [vf_subsec]. unfold NANOS_PER_SEC. exact T4.
Qed.
