(* TzProofs.v — C19: the TZif reader never panics, and lookups on an accepted file never panic;
   C18: the lookup over the parsed structure is the RFC 8536 / POSIX-TZ specification. *)
From Astro Require Import Base Text CalSpec DateModel TimeModel ApiModel InstantSpec DateProofs WeekProofs TimeProofs
  ClockProofs OffsetProofs TzModel TzSpec.

Definition nopanic {A} (r : tzres A) : Prop := r <> TzPanic.
Lemma np_ok {A} (a : A) : nopanic (TzOk a). Proof. discriminate. Qed.
Lemma np_err {A} : nopanic (@TzErr A). Proof. discriminate. Qed.
Lemma np_bind {A B} (r : tzres A) (f : A -> tzres B) : nopanic r -> (forall a, r = TzOk a -> nopanic (f a)) -> nopanic (tzbind r f).
Proof. intros Hr Hf. destruct r as [a| |]; cbn; [apply Hf; reflexivity | discriminate | congruence]. Qed.
Ltac np := repeat first [ apply np_ok | apply np_err | apply np_bind; [ | intros ? ?] ].

Lemma np_read_exact n cur : nopanic (read_exact n cur).
Proof. unfold read_exact. destruct (_ <? _); np. Qed.
Lemma np_get_next cur : nopanic (get_next cur).
Proof. destruct cur; np. Qed.
Lemma np_read_tag tag cur : nopanic (read_tag tag cur).
Proof. unfold read_tag. destruct (_ <? _); [np|]. destruct (text_eqb _ _); np. Qed.
Lemma np_parse_int mx bs : nopanic (parse_int mx bs).
Proof. unfold parse_int. destruct (parse_unsigned mx bs); np. Qed.

Lemma np_parse_header cur : nopanic (parse_header cur).
Proof.
  unfold parse_header. apply np_bind; [apply np_read_exact|]. intros [magic c1] _.
  destruct (negb _); [np|]. apply np_bind; [apply np_read_exact|]. intros [vb c2] _.
  apply np_bind.
  { destruct vb as [|b [|]]; try np. destruct (b =? 0); [np|]. destruct (b =? 50); [np|]. destruct (b =? 51); np. }
  intros ver _. repeat (apply np_bind; [apply np_read_exact|]; intros [? ?] _). np.
Qed.
Lemma np_parse_data_block cur h v : nopanic (parse_data_block cur h v).
Proof. unfold parse_data_block. repeat (apply np_bind; [apply np_read_exact|]; intros [? ?] _). np. Qed.

Lemma np_remove_designation cur : nopanic (remove_designation cur).
Proof.
  unfold remove_designation. apply np_bind; [apply np_get_next|]. intros nx _.
  destruct (nx =? 60); [|np]. destruct (read_until 62 cur) as [a b]. apply np_bind; [apply np_read_exact|]. intros [? ?] _. np.
Qed.
Lemma np_parse_hms cur : nopanic (parse_hms cur).
Proof.
  unfold parse_hms. apply np_bind; [apply np_get_next|]. intros nx _.
  destruct (if nx =? 45 then _ else _) as [dir c1]. destruct (read_while is_ascii_digit c1) as [hd c2].
  apply np_bind; [apply np_parse_int|]. intros hour _.
  destruct (head_is 58 c2); [|np].
  destruct (read_while is_ascii_digit (tl c2)) as [md c4]. apply np_bind; [apply np_parse_int|]. intros minute _.
  destruct (head_is 58 c4); [|np].
  destruct (read_while is_ascii_digit (tl c4)) as [sd c6]. apply np_bind; [apply np_parse_int|]. intros. np.
Qed.
Lemma np_parse_tz_offset mh cur : nopanic (parse_tz_offset mh cur).
Proof.
  unfold parse_tz_offset. apply np_bind; [apply np_parse_hms|]. intros [[[[d h] m] s] c] _.
  destruct (negb _); [np|]. destruct (negb _); [np|]. destruct (negb _); np.
Qed.

(* ---------- what a parsed rule guarantees ---------- *)
Definition rule_day_ok (d : rule_day) : Prop :=
  match d with
  | JulianNoLeap n => 1 <= n <= 365
  | JulianLeap n => 0 <= n <= 365
  | MonthWeekDay m w wd => 1 <= m <= 12 /\ 1 <= w <= 5 /\ 0 <= wd <= 6
  end.
Definition time_ok (t : Z) : Prop := -604800 < t < 604800.

Lemma digits_val_aux_ge s : forall acc, 0 <= acc -> all_digits s = true -> acc <= digits_val_aux s acc.
Proof.
  induction s as [|c s IH]; intros a Ha Hd; [cbn; lia|]. cbn in *. apply andb_true_iff in Hd as [Hc Hd].
  unfold is_ascii_digit in Hc. specialize (IH (a * 10 + (c - 48)) ltac:(lia) Hd). lia.
Qed.
Lemma parse_unsigned_nonneg mx s v : parse_unsigned mx s = Some v -> 0 <= v <= mx.
Proof.
  unfold parse_unsigned. set (body := match s with c :: tl => if c =? 43 then tl else s | [] => s end).
  destruct body as [|c b] eqn:E; [discriminate|]. destruct (all_digits (c :: b)) eqn:Ed; [|discriminate].
  destruct (Z.leb_spec (digits_val (c :: b)) mx); [|discriminate]. intros Hx. injection Hx as <-.
  split; [|assumption]. unfold digits_val. pose proof (digits_val_aux_ge (c :: b) 0 ltac:(lia) Ed). lia.
Qed.
Lemma parse_int_range mx bs v : parse_int mx bs = TzOk v -> 0 <= v <= mx.
Proof. unfold parse_int. destruct (parse_unsigned mx bs) eqn:E; [|discriminate]. intros Hx. injection Hx as <-. eapply parse_unsigned_nonneg; exact E. Qed.

Ltac dstep E := match type of E with
  | context [let '(_, _) := ?x in _] => destruct x
  | context [tzbind ?r _] => destruct r; cbn [tzbind] in E
  | context [if ?b then _ else _] => destruct b
  end; try discriminate.

Lemma parse_tz_offset_range mh cur v c : 0 <= mh <= 167 -> parse_tz_offset mh cur = TzOk (v, c) -> - (mh * 3600 + 3599) <= v <= mh * 3600 + 3599.
Proof.
  intros Hmh. unfold parse_tz_offset. destruct (parse_hms cur) as [[[[[d h] m] s] c']| |] eqn:E; cbn [tzbind]; try discriminate.
  destruct (negb ((0 <=? h) && (h <=? mh))) eqn:E1; [discriminate|].
  destruct (negb ((0 <=? m) && (m <=? 59))) eqn:E2; [discriminate|].
  destruct (negb ((0 <=? s) && (s <=? 59))) eqn:E3; [discriminate|].
  intros Hx. injection Hx as <- _.
  assert (Hd : d = 1 \/ d = -1).
  { unfold parse_hms in E. destruct (get_next cur) as [nx| |]; cbn [tzbind] in E; try discriminate.
    destruct (nx =? 45); [|destruct (nx =? 43)]; repeat dstep E; injection E; intros; subst; auto. }
  destruct Hd; subst d; lia.
Qed.

Lemma np_parse_rule cur ext : nopanic (parse_rule cur ext).
Proof.
  unfold parse_rule. apply np_bind; [apply np_get_next|]. intros nx _. apply np_bind.
  - destruct (nx =? 74).
    + destruct (read_while is_ascii_digit (tl cur)) as [ds c]. apply np_bind; [apply np_parse_int|]. intros n _. destruct (negb _); np.
    + destruct (is_ascii_digit nx).
      * destruct (read_while is_ascii_digit cur) as [ds c]. apply np_bind; [apply np_parse_int|]. intros n _. destruct (_ <? _); np.
      * destruct (nx =? 77); [|np].
        destruct (read_until 46 (tl cur)) as [ms c]. apply np_bind; [apply np_parse_int|]. intros m _.
        apply np_bind; [apply np_read_exact|]. intros [x c1] _. destruct (read_until 46 c1) as [ws c2].
        apply np_bind; [apply np_parse_int|]. intros w _. apply np_bind; [apply np_read_exact|]. intros [y c3] _.
        destruct (read_while is_ascii_digit c3) as [ds c4]. apply np_bind; [apply np_parse_int|]. intros d _.
        destruct (_ || _ || _); np.
  - intros [day c] _. destruct (head_is 47 c); [|np]. apply np_bind; [apply np_parse_tz_offset|]. intros [t c2] _. np.
Qed.

Lemma parse_rule_ok cur ext day t c : parse_rule cur ext = TzOk (day, t, c) -> rule_day_ok day /\ time_ok t.
Proof.
  unfold parse_rule. destruct (get_next cur) as [nx| |]; cbn [tzbind]; try discriminate.
  match goal with |- tzbind ?r _ = _ -> _ => destruct r as [[day0 c0]| |] eqn:Ed end; cbn [tzbind]; try discriminate.
  assert (Hday : rule_day_ok day0).
  { destruct (nx =? 74).
    - destruct (read_while is_ascii_digit (tl cur)) as [ds c1]. destruct (parse_int U32_MAX ds) as [n| |]; cbn [tzbind] in Ed; try discriminate.
      destruct (negb ((1 <=? n) && (n <=? 365))) eqn:En; [discriminate|]. injection Ed as <- _. cbn. lia.
    - destruct (is_ascii_digit nx).
      + destruct (read_while is_ascii_digit cur) as [ds c1]. destruct (parse_int U32_MAX ds) as [n| |] eqn:Ep; cbn [tzbind] in Ed; try discriminate.
        destruct (Z.ltb_spec 365 n); [discriminate|]. injection Ed as <- _. cbn. pose proof (parse_int_range _ _ _ Ep). lia.
      + destruct (nx =? 77); [|discriminate].
        destruct (read_until 46 (tl cur)) as [ms c1]. destruct (parse_int 255 ms) as [m| |]; cbn [tzbind] in Ed; try discriminate.
        destruct (read_exact 1 c1) as [[x c2]| |]; cbn [tzbind] in Ed; try discriminate.
        destruct (read_until 46 c2) as [ws c3]. destruct (parse_int 255 ws) as [w| |]; cbn [tzbind] in Ed; try discriminate.
        destruct (read_exact 1 c3) as [[y c4]| |]; cbn [tzbind] in Ed; try discriminate.
        destruct (read_while is_ascii_digit c4) as [ds c5]. destruct (parse_int 255 ds) as [d| |] eqn:Ep; cbn [tzbind] in Ed; try discriminate.
        destruct (negb ((1 <=? m) && (m <=? 12)) || negb ((1 <=? w) && (w <=? 5)) || (6 <? d)) eqn:Ev; [discriminate|].
        injection Ed as <- _. cbn. pose proof (parse_int_range _ _ _ Ep). lia. }
  destruct (head_is 47 c0).
  - destruct (parse_tz_offset (if ext then 167 else 24) (tl c0)) as [[t0 c2]| |] eqn:Et; cbn [tzbind]; try discriminate.
    intros Hx. injection Hx as <- <- _. split; [exact Hday|]. unfold time_ok.
    destruct ext; [pose proof (parse_tz_offset_range 167 _ _ _ ltac:(lia) Et) | pose proof (parse_tz_offset_range 24 _ _ _ ltac:(lia) Et)]; lia.
  - intros Hx. injection Hx as <- <- _. split; [exact Hday | unfold time_ok; lia].
Qed.

Definition rule_ok (r : trule) : Prop :=
  match r with
  | RFixed _ => True
  | RAlt a => rule_day_ok (a_std_end a) /\ time_ok (a_std_end_time a) /\ rule_day_ok (a_dst_end a) /\ time_ok (a_dst_end_time a)
              /\ time_ok (a_std a) /\ time_ok (a_dst a)
  end.

Lemma np_from_tz_string f ext : nopanic (from_tz_string f ext).
Proof.
  unfold from_tz_string. destruct (negb (utf8_valid f)); [np|]. destruct (_ || _); [np|]. destruct (_ || _); [np|].
  destruct (match trim_ascii_ws f with [] => true | _ => false end); [np|].
  apply np_bind; [apply np_remove_designation|]. intros c1 _. apply np_bind; [apply np_parse_tz_offset|]. intros [so c2] _.
  destruct c2 as [|b c2']; [np|]. apply np_bind; [apply np_remove_designation|]. intros c3 _.
  apply np_bind. { destruct (head_is 44 c3); [np|]. destruct c3; [np | apply np_parse_tz_offset]. }
  intros [dof c4] _. apply np_bind; [apply np_read_tag|]. intros c5 _. apply np_bind; [apply np_parse_rule|]. intros [[d1 t1] c6] _.
  apply np_bind; [apply np_read_tag|]. intros c7 _. apply np_bind; [apply np_parse_rule|]. intros [[d2 t2] c8] _. np.
Qed.

Lemma from_tz_string_ok f ext r : from_tz_string f ext = TzOk (Some r) -> rule_ok r.
Proof.
  unfold from_tz_string. destruct (negb (utf8_valid f)); [discriminate|]. destruct (_ || _); [discriminate|]. destruct (_ || _); [discriminate|].
  destruct (match trim_ascii_ws f with [] => true | _ => false end); [discriminate|].
  destruct (remove_designation (trim_ascii_ws f)) as [c1| |]; cbn [tzbind]; try discriminate.
  destruct (parse_tz_offset 24 c1) as [[so c2]| |] eqn:Eso; cbn [tzbind]; try discriminate.
  pose proof (parse_tz_offset_range 24 c1 so c2 ltac:(lia) Eso) as Hso.
  destruct c2 as [|b c2']; [intros Hx; injection Hx as <-; exact I|].
  destruct (remove_designation (b :: c2')) as [c3| |]; cbn [tzbind]; try discriminate.
  match goal with |- tzbind ?x _ = _ -> _ => destruct x as [[dof c4]| |] eqn:Edo end; cbn [tzbind]; try discriminate.
  assert (Hdo : time_ok dof).
  { destruct (head_is 44 c3).
    - injection Edo as <- _. unfold time_ok in *. lia.
    - destruct c3; [discriminate|]. pose proof (parse_tz_offset_range 24 _ _ _ ltac:(lia) Edo). unfold time_ok. lia. }
  destruct (read_tag [44] c4) as [c5| |]; cbn [tzbind]; try discriminate.
  destruct (parse_rule c5 ext) as [[[d1 t1] c6]| |] eqn:E1; cbn [tzbind]; try discriminate.
  destruct (read_tag [44] c6) as [c7| |]; cbn [tzbind]; try discriminate.
  destruct (parse_rule c7 ext) as [[[d2 t2] c8]| |] eqn:E2; cbn [tzbind]; try discriminate.
  intros Hx. injection Hx as <-. destruct (parse_rule_ok _ _ _ _ _ E1) as [A1 B1]. destruct (parse_rule_ok _ _ _ _ _ E2) as [A2 B2].
  cbn. unfold time_ok in *. repeat split; try assumption; lia.
Qed.

(* ---------- the whole file ---------- *)
Definition tz_wf (tz : timezone) : Prop :=
  (forall t i, In (t, i) (tz_trans tz) -> 0 <= i < Z.of_nat (length (tz_types tz))) /\
  (tz_types tz = [] -> tz_rule tz <> None) /\
  (forall r, tz_rule tz = Some r -> rule_ok r).

Theorem from_tzif_no_panic bs : nopanic (from_tzif bs).
Proof.
  unfold from_tzif. apply np_bind; [apply np_parse_header|]. intros [h1 c1] _. apply np_bind.
  - destruct (h_ver h1).
    + apply np_bind; [apply np_parse_data_block|]. intros [blk c2] _. np.
    + apply np_bind; [apply np_parse_data_block|]. intros [b0 c2] _. apply np_bind; [apply np_parse_header|]. intros [h2 c3] _.
      apply np_bind; [apply np_parse_data_block|]. intros [blk c4] _. np.
    + apply np_bind; [apply np_parse_data_block|]. intros [b0 c2] _. apply np_bind; [apply np_parse_header|]. intros [h2 c3] _.
      apply np_bind; [apply np_parse_data_block|]. intros [blk c4] _. np.
  - intros [[h blk] footer] _. cbv zeta. apply np_bind.
    + destruct footer; [apply np_from_tz_string | np].
    + intros rule _. destruct (_ || _); np.
Qed.

(* bytes read from the input are bytes of the input *)
Definition sub (a b : bytes) : Prop := forall x, In x a -> In x b.
Lemma sub_refl a : sub a a. Proof. intros x H. exact H. Qed.
Lemma sub_trans a b c : sub a b -> sub b c -> sub a c. Proof. intros H1 H2 x H. apply H2, H1, H. Qed.
Lemma sub_firstn n (l : bytes) : sub (firstn n l) l.
Proof. intros x H. rewrite <- (firstn_skipn n l). apply in_or_app. left. exact H. Qed.
Lemma sub_skipn n (l : bytes) : sub (skipn n l) l.
Proof. intros x H. rewrite <- (firstn_skipn n l). apply in_or_app. right. exact H. Qed.
Lemma read_exact_sub n cur a r : read_exact n cur = TzOk (a, r) -> sub a cur /\ sub r cur.
Proof. unfold read_exact. destruct (_ <? _); [discriminate|]. intros H. injection H as <- <-. split; [apply sub_firstn | apply sub_skipn]. Qed.

Lemma parse_header_sub cur h r : parse_header cur = TzOk (h, r) -> sub r cur.
Proof.
  unfold parse_header. intros E.
  repeat match type of E with
  | tzbind (read_exact ?n ?c) _ = _ => let H := fresh "R" in destruct (read_exact n c) as [[? ?]| |] eqn:H; cbn [tzbind] in E; try discriminate; apply read_exact_sub in H; destruct H as [_ H]
  | (if ?b then _ else _) = _ => destruct b; try discriminate
  | tzbind ?r _ = _ => destruct r; cbn [tzbind] in E; try discriminate
  end.
  injection E as _ <-. eauto 12 using sub_trans.
Qed.
Lemma parse_data_block_sub cur h v blk r : parse_data_block cur h v = TzOk (blk, r) ->
  sub (b_ttypes blk) cur /\ sub r cur.
Proof.
  unfold parse_data_block. intros E.
  destruct (read_exact (h_trans h * _) cur) as [[t1 c1]| |] eqn:R1; cbn [tzbind] in E; try discriminate. apply read_exact_sub in R1 as [_ R1].
  destruct (read_exact (h_trans h) c1) as [[t2 c2]| |] eqn:R2; cbn [tzbind] in E; try discriminate. apply read_exact_sub in R2 as [R2a R2].
  destruct (read_exact (h_types h * 6) c2) as [[t3 c3]| |] eqn:R3; cbn [tzbind] in E; try discriminate. apply read_exact_sub in R3 as [_ R3].
  destruct (read_exact (h_chars h) c3) as [[t4 c4]| |] eqn:R4; cbn [tzbind] in E; try discriminate. apply read_exact_sub in R4 as [_ R4].
  destruct (read_exact (h_leap h * _) c4) as [[t5 c5]| |] eqn:R5; cbn [tzbind] in E; try discriminate. apply read_exact_sub in R5 as [_ R5].
  destruct (read_exact (h_isstd h) c5) as [[t6 c6]| |] eqn:R6; cbn [tzbind] in E; try discriminate. apply read_exact_sub in R6 as [_ R6].
  destruct (read_exact (h_isut h) c6) as [[t7 c7]| |] eqn:R7; cbn [tzbind] in E; try discriminate. apply read_exact_sub in R7 as [_ R7].
  injection E as <- <-. cbn [b_ttypes]. split; eauto 12 using sub_trans.
Qed.

Lemma in_zip_snd {A B} (a : list A) (b : list B) x y : In (x, y) (zip a b) -> In y b.
Proof.
  revert b. induction a as [|a0 a IH]; intros [|b0 b] H; cbn in H; try contradiction.
  destruct H as [H | H]; [injection H as _ <-; left; reflexivity | right; eapply IH; exact H].
Qed.

Theorem from_tzif_wf bs tz : Forall (fun b => 0 <= b) bs -> from_tzif bs = TzOk tz -> tz_wf tz.
Proof.
  intros Hb. unfold from_tzif.
  destruct (parse_header bs) as [[h1 c1]| |] eqn:E1; cbn [tzbind]; try discriminate.
  pose proof (parse_header_sub _ _ _ E1) as S1.
  match goal with |- tzbind ?x _ = _ -> _ => destruct x as [[[h blk] footer]| |] eqn:E2 end; cbn [tzbind]; try discriminate.
  assert (Sblk : sub (b_ttypes blk) bs).
  { destruct (h_ver h1).
    - destruct (parse_data_block c1 h1 V1) as [[blk0 c2]| |] eqn:E3; cbn [tzbind] in E2; try discriminate.
      injection E2 as _ <- _. destruct (parse_data_block_sub _ _ _ _ _ E3) as [A _]. eauto using sub_trans.
    - destruct (parse_data_block c1 h1 V1) as [[blk0 c2]| |] eqn:E3; cbn [tzbind] in E2; try discriminate.
      destruct (parse_data_block_sub _ _ _ _ _ E3) as [_ A3].
      destruct (parse_header c2) as [[h2 c3]| |] eqn:E4; cbn [tzbind] in E2; try discriminate. pose proof (parse_header_sub _ _ _ E4) as A4.
      destruct (parse_data_block c3 h2 (h_ver h2)) as [[blk1 c4]| |] eqn:E5; cbn [tzbind] in E2; try discriminate.
      injection E2 as _ <- _. destruct (parse_data_block_sub _ _ _ _ _ E5) as [A5 _]. eauto 8 using sub_trans.
    - destruct (parse_data_block c1 h1 V1) as [[blk0 c2]| |] eqn:E3; cbn [tzbind] in E2; try discriminate.
      destruct (parse_data_block_sub _ _ _ _ _ E3) as [_ A3].
      destruct (parse_header c2) as [[h2 c3]| |] eqn:E4; cbn [tzbind] in E2; try discriminate. pose proof (parse_header_sub _ _ _ E4) as A4.
      destruct (parse_data_block c3 h2 (h_ver h2)) as [[blk1 c4]| |] eqn:E5; cbn [tzbind] in E2; try discriminate.
      injection E2 as _ <- _. destruct (parse_data_block_sub _ _ _ _ _ E5) as [A5 _]. eauto 8 using sub_trans. }
  cbv zeta.
  match goal with |- tzbind ?x _ = _ -> _ => destruct x as [rule| |] eqn:E6 end; cbn [tzbind]; try discriminate.
  match goal with |- context [zip ?a (b_ttypes blk)] => set (times := a) end.
  match goal with |- context [Z.of_nat (length ?a) <=? _] => set (types := a) end.
  destruct (existsb _ (zip times (b_ttypes blk)) || _) eqn:Ev; [discriminate|]. intros Hx. injection Hx as <-.
  apply orb_false_iff in Ev as [Ev1 Ev2]. unfold tz_wf. cbn [tz_trans tz_types tz_rule]. split; [|split].
  - intros t i Hin. split.
    + apply in_zip_snd in Hin. apply Sblk in Hin. rewrite Forall_forall in Hb. apply Hb, Hin.
    + assert (Hn : forall tr, In tr (zip times (b_ttypes blk)) -> (Z.of_nat (length types) <=? snd tr) = false).
      { intros tr Htr. destruct (Z.of_nat (length types) <=? snd tr) eqn:El; [|reflexivity].
        assert (existsb (fun tr0 => Z.of_nat (length types) <=? snd tr0) (zip times (b_ttypes blk)) = true)
          by (apply existsb_exists; exists tr; split; assumption). congruence. }
      specialize (Hn _ Hin). cbn [snd] in Hn. lia.
  - intros Ht. rewrite Ht in Ev2. cbn [andb] in Ev2. destruct rule; [discriminate | discriminate].
  - intros r Hr. subst rule. destruct footer as [f|]; [|discriminate]. eapply from_tz_string_ok; exact E6.
Qed.

(* ---------- lookups never panic on a well-formed structure ---------- *)
Lemma year_bounds Y : MIN_Y < Y < MAX_Y -> Y <> 0 ->
  I32_MIN + 192 <= rd (Y, 1, 1) <= I32_MAX - 192 - 365.
Proof.
  intros HY H0. rewrite rd_jan1.
  assert (L : ystart (astro (MIN_Y + 1)) = I32_MIN + 192) by reflexivity.
  assert (U : ystart (astro (MAX_Y - 1)) = I32_MAX - 192 - 365) by reflexivity.
  assert (A1 : astro (MIN_Y + 1) <= astro Y) by (unfold astro, MIN_Y in *; break_ifs).
  assert (A2 : astro Y <= astro (MAX_Y - 1)) by (unfold astro, MAX_Y in *; break_ifs).
  pose proof (ystart_mono _ _ A1). pose proof (ystart_mono _ _ A2). lia.
Qed.

Lemma rule_year_ok t : ts_in_range t -> exists Y, rule_year t = TzOk Y /\ MIN_Y < Y < MAX_Y /\ Y <> 0.
Proof.
  intros Ht. destruct (c03_ts_dt t Ht) as (v & E & (Hd & Hn & _) & _ & _ & Ho). unfold rule_year. rewrite E.
  unfold dt_year. destruct v as [d n o]. cbn [dt_days dt_nanos dt_off] in *. subst o.
  assert (EL : dt_local (mkDT d n 0) = Ok (d, n)).
  { assert (R : inst_in_range (local_instant (mkDT d n 0))).
    { unfold local_instant, instant. cbn [dt_days dt_nanos dt_off]. revert Hd Hn.
      unfold in_i32, inst_in_range, MIN_I, MAX_I, NANOS_PER_DAY, NANOS_PER_SEC, I32_MIN, I32_MAX. lia. }
    rewrite dt_local_ok by exact R. unfold local_instant, instant. cbn [dt_days dt_nanos dt_off]. fold D.
    f_equal. f_equal; revert Hn; unfold D, NANOS_PER_DAY, NANOS_PER_SEC; intros Hn; lia. }
  rewrite EL. cbn [bind]. destruct (days_to_date_rd d) as [V _]. destruct (days_to_date d) as [[y m] dd]. cbn [fst].
  destruct V as (Hy & _). eexists. split; [reflexivity|]. unfold MIN_Y, MAX_Y. lia.
Qed.

Lemma ydoy_ok Y n ig : MIN_Y < Y < MAX_Y -> Y <> 0 -> 1 <= n <= 365 ->
  exists d, year_doy_to_days Y n ig = Ok d /\ rd (Y, 1, 1) <= d <= rd (Y, 1, 1) + 366.
Proof.
  intros HY H0 Hn. pose proof (year_bounds Y HY H0) as B.
  destruct (validate_doy_spec Y n ltac:(lia)) as [A _]. unfold year_doy_to_days.
  rewrite A.
  2:{ split; [exact H0|]. split; [unfold ylen; destruct (leap Y); lia|]. rewrite <- rd_jan1. unfold in_i32. lia. }
  cbn [bind]. eexists. split; [reflexivity|]. rewrite ydoy0_to_days_spec by exact H0. rewrite <- rd_jan1.
  destruct (ig && is_leap_year Y && (59 <=? n - 1)); lia.
Qed.

Lemma weekdays_ok Y m wd : MIN_Y < Y < MAX_Y -> Y <> 0 -> 1 <= m <= 12 ->
  exists l, weekdays_in_month Y m wd = TzOk l /\ (4 <= length l)%nat /\ forall x, In x l -> 1 <= x <= mlen Y m.
Proof.
  intros HY H0 Hm. unfold weekdays_in_month. rewrite year_month_to_doy_ok by exact Hm.
  assert (V : valid (Y, m, 1)) by (unfold valid; pose proof (mlen_bounds Y m); lia).
  assert (R : in_range (Y, m, 1)) by (unfold in_range, date_leb, MIN_DATE, MAX_DATE, MIN_Y, MAX_Y in *; lia).
  rewrite date_to_days_ok by assumption.
  set (wi := match filter _ [0; 1; 2; 3; 4; 5; 6] with i :: _ => i | [] => 0 end).
  assert (Hwi : 0 <= wi <= 6).
  { subst wi. match goal with |- context [filter ?f ?l] => pose proof (filter_In f) as FI; destruct (filter f l) as [|i tl] eqn:Ef end; [lia|].
    assert (In i [0; 1; 2; 3; 4; 5; 6]) by (apply (FI i [0; 1; 2; 3; 4; 5; 6]); rewrite Ef; left; reflexivity).
    cbn in H. lia. }
  eexists. split; [reflexivity|]. pose proof (mlen_bounds Y m) as ML. split.
  - cbn [map]. 
    assert (E1 : (wi + 1 + 0 * 7 <=? mlen Y m) = true) by lia. assert (E2 : (wi + 1 + 1 * 7 <=? mlen Y m) = true) by lia.
    assert (E3 : (wi + 1 + 2 * 7 <=? mlen Y m) = true) by lia. assert (E4 : (wi + 1 + 3 * 7 <=? mlen Y m) = true) by lia.
    cbn [filter]. rewrite E1, E2, E3, E4. cbn [length]. lia.
  - intros x Hx. apply filter_In in Hx as [Hin Hle]. cbn [map] in Hin. cbn in Hin. lia.
Qed.

Lemma from_seconds_ok s : I32_MIN * SECS_PER_DAY <= s <= I32_MAX * SECS_PER_DAY + SECS_PER_DAY - 1 ->
  exists v, dt_from_seconds s = Ok v.
Proof. intros H. unfold dt_from_seconds. rewrite secs_to_days_nanos_ok by exact H. eexists. reflexivity. Qed.

Theorem rule_ts_no_panic rdy time t : rule_day_ok rdy -> time_ok time -> ts_in_range t ->
  nopanic (rule_to_local_timestamp rdy time t).
Proof.
  intros Hr Ht Hts. unfold rule_to_local_timestamp.
  destruct (rule_year_ok t Hts) as (Y & -> & HY & H0). cbn [tzbind]. pose proof (year_bounds Y HY H0) as B.
  assert (Fin : forall dd, rd (Y, 1, 1) <= dd <= rd (Y, 1, 1) + 366 ->
            nopanic (match dt_from_seconds (dd * SECS_PER_DAY + time) with Ok v => TzOk (dt_timestamp v) | _ => TzPanic end)).
  { intros dd Hdd. destruct (from_seconds_ok (dd * SECS_PER_DAY + time)) as [v ->]; [|np].
    revert Ht B. unfold time_ok, I32_MIN, I32_MAX, SECS_PER_DAY. lia. }
  destruct rdy as [n | n | m w wd]; cbn in Hr.
  - destruct (ydoy_ok Y n true HY H0 Hr) as (d & -> & Hd). cbn [unwrap_days tzbind]. apply Fin. exact Hd.
  - destruct (ydoy_ok Y 1 false HY H0 ltac:(lia)) as (d & E & Hd). rewrite E. cbn [unwrap_days tzbind].
    assert (d = rd (Y, 1, 1)).
    { destruct (year_doy_to_days_spec Y 1 ltac:(lia)) as [A _]. rewrite A in E.
      - injection E as <-. unfold rd. cbn [cum]. lia.
      - split; [exact H0|]. split; [unfold ylen; destruct (leap Y); lia|]. unfold in_i32. lia. }
    subst d. apply Fin. lia.
  - destruct Hr as (Hm & Hw & Hwd). destruct (weekdays_ok Y m wd HY H0 Hm) as (l & -> & Hlen & Hin). cbn [tzbind].
    assert (Hdom : exists dom, (if w =? 5 then match rev l with x :: _ => TzOk x | [] => TzPanic end
                               else match nth_error l (Z.to_nat (w - 1)) with Some x => TzOk x | None => TzPanic end) = TzOk dom
                               /\ 1 <= dom <= mlen Y m).
    { destruct (Z.eqb_spec w 5).
      - destruct (rev l) as [|x tl] eqn:Er.
        + apply (f_equal (@length Z)) in Er. rewrite rev_length in Er. cbn in Er. lia.
        + exists x. split; [reflexivity|]. apply Hin. apply in_rev. rewrite Er. left. reflexivity.
      - destruct (nth_error l (Z.to_nat (w - 1))) as [x|] eqn:En.
        + exists x. split; [reflexivity|]. apply Hin. eapply nth_error_In; exact En.
        + apply nth_error_None in En. lia. }
    destruct Hdom as (dom & -> & Hdom). cbn [tzbind]. rewrite year_month_to_doy_ok by exact Hm.
    pose proof (cum_bounds Y m dom Hm Hdom) as CB.
    destruct (year_doy_to_days_spec Y (cum (leap Y) m + dom) ltac:(lia)) as [A _]. rewrite A.
    2:{ split; [exact H0|]. split; [lia|]. unfold in_i32, ylen in *. destruct (leap Y); lia. }
    cbn [unwrap_days tzbind]. apply Fin. unfold ylen in CB. destruct (leap Y); lia.
Qed.

Theorem lookup_no_panic tz t : tz_wf tz -> ts_in_range t -> nopanic (to_local_time_type tz t).
Proof.
  intros (Wa & Wb & Wc) Ht. unfold to_local_time_type.
  destruct (rev (tz_trans tz)) as [|[t0 i0] rtl] eqn:Er.
  - (* no transitions *)
    destruct (tz_rule tz) as [[u | a]|] eqn:Erule.
    + np.
    + destruct (Wc _ eq_refl) as (R1 & T1 & R2 & T2 & _).
      apply np_bind; [apply rule_ts_no_panic; assumption|]. intros x _.
      apply np_bind; [apply rule_ts_no_panic; assumption|]. intros y _.
      repeat match goal with |- nopanic (if ?b then _ else _) => destruct b end; np.
    + destruct (tz_types tz) as [|u tl] eqn:Et; [exfalso; apply (Wb eq_refl); reflexivity | np].
  - (* transitions present: the type table is not empty and every index is inside it *)
    assert (Hin0 : In (t0, i0) (tz_trans tz)) by (apply in_rev; rewrite Er; left; reflexivity).
    pose proof (Wa _ _ Hin0) as Hi0.
    assert (Hscan : forall l, (forall t i, In (t, i) l -> 0 <= i < Z.of_nat (length (tz_types tz))) ->
                     0 <= scan_rev l t < Z.of_nat (length (tz_types tz))).
    { induction l as [|[tt ii] l IH]; intros Hl; cbn [scan_rev]; [lia|].
      destruct (tt <=? t); [apply (Hl tt ii); left; reflexivity | apply IH; intros; apply (Hl t1 i); right; assumption]. }
    assert (Hnth : nopanic (match nth_error (tz_types tz) (Z.to_nat (scan_rev ((t0, i0) :: rtl) t)) with Some u => TzOk u | None => TzPanic end)).
    { specialize (Hscan ((t0, i0) :: rtl)). rewrite <- Er in Hscan.
      assert (Hs : 0 <= scan_rev (rev (tz_trans tz)) t < Z.of_nat (length (tz_types tz)))
        by (apply Hscan; intros t1 i1 H1; apply (Wa t1 i1); apply in_rev; exact H1).
      rewrite <- Er. destruct (nth_error (tz_types tz) (Z.to_nat (scan_rev (rev (tz_trans tz)) t))) eqn:En; [np|].
      apply nth_error_None in En. lia. }
    destruct (tz_rule tz) as [[u | a]|] eqn:Erule; cbn [andb]; try rewrite andb_false_r; try exact Hnth.
    + destruct (t0 <? t); cbn [andb]; [np | exact Hnth].
    + destruct (t0 <? t); cbn [andb]; [|exact Hnth].
      destruct (Wc _ eq_refl) as (R1 & T1 & R2 & T2 & _).
      apply np_bind; [apply rule_ts_no_panic; assumption|]. intros x _.
      apply np_bind; [apply rule_ts_no_panic; assumption|]. intros y _.
      repeat match goal with |- nopanic (if ?b then _ else _) => destruct b end; np.
Qed.

(* ---------- Offset::Local: the file system and the clock are parameters ---------- *)
(* file = None: /etc/localtime unreadable; now_ts: DateTime::now().timestamp() *)
Theorem resolve_local_no_panic file now_ts :
  (forall bs, file = Some bs -> Forall (fun b => 0 <= b) bs) -> ts_in_range now_ts -> nopanic (resolve_local file now_ts).
Proof.
  intros Hb Ht. unfold resolve_local. destruct file as [bs|]; [|np].
  destruct (from_tzif bs) as [tz| |] eqn:E; [| np | exfalso; exact (from_tzif_no_panic bs E)].
  apply lookup_no_panic; [|exact Ht]. eapply from_tzif_wf; [apply Hb; reflexivity | exact E].
Qed.

(* ---------- C18: the table scan ---------- *)
(* transitions in strictly increasing order of time *)
Fixpoint sorted_from (lo : Z) (l : list (Z * Z)) : Prop :=
  match l with [] => True | (t, _) :: tl => lo < t /\ sorted_from t tl end.
Definition sorted_trans (l : list (Z * Z)) : Prop := match l with [] => True | (t, _) :: tl => sorted_from t tl end.

Lemma latest_snoc_gt l0 t1 i1 t : t < t1 -> forall acc, latest_type (l0 ++ [(t1, i1)]) t acc = latest_type l0 t acc.
Proof.
  intros Hgt. induction l0 as [|[a b] l0 IH]; intros acc; cbn [app latest_type].
  - replace (t1 <=? t) with false by lia. reflexivity.
  - destruct (a <=? t); [apply IH | reflexivity].
Qed.
Lemma latest_snoc_le l0 t1 i1 t : t1 <= t -> (forall a b, In (a, b) l0 -> a <= t) ->
  forall acc, latest_type (l0 ++ [(t1, i1)]) t acc = i1.
Proof.
  intros Hle. induction l0 as [|[a b] l0 IH]; intros Hall acc; cbn [app latest_type].
  - replace (t1 <=? t) with true by lia. reflexivity.
  - replace (a <=? t) with true by (symmetry; apply Z.leb_le; apply (Hall a b); left; reflexivity).
    apply IH. intros a0 b0 Hin. apply (Hall a0 b0). right. exact Hin.
Qed.

(* all times of a sorted list are below the time of an element appended at the end *)
Lemma sorted_snoc_inv l t1 i1 : sorted_trans (l ++ [(t1, i1)]) -> sorted_trans l /\ forall a b, In (a, b) l -> a < t1.
Proof.
  destruct l as [|[a0 b0] l]; [intros _; split; [exact I | intros ? ? []]|].
  cbn [app sorted_trans]. revert a0 b0. induction l as [|[c d] l IH]; intros a0 b0 Hs; cbn [app sorted_from] in *.
  - destruct Hs as [H1 _]. split; [exact I|]. intros a b [E | []]. injection E as <- <-. exact H1.
  - destruct Hs as [H1 H2]. destruct (IH c d H2) as [S1 S2]. split; [split; [exact H1 | exact S1]|].
    intros a b [E | Hin]; [injection E as <- <-|apply (S2 a b Hin)]. specialize (S2 c d (or_introl eq_refl)). lia.
Qed.

(* the reverse scan of the code returns the type of the latest transition at or before t (0 before the first) *)
Theorem scan_is_latest l t : sorted_trans l -> scan_rev (rev l) t = latest_type l t 0.
Proof.
  induction l as [|[t1 i1] l IH] using rev_ind; intros Hs; [reflexivity|].
  destruct (sorted_snoc_inv l t1 i1 Hs) as [Hs' Hlt]. rewrite rev_unit. cbn [scan_rev].
  destruct (Z.leb_spec t1 t) as [Hle | Hgt].
  - rewrite latest_snoc_le; [reflexivity | exact Hle |]. intros a b Hin. specialize (Hlt a b Hin). lia.
  - rewrite latest_snoc_gt by exact Hgt. apply IH. exact Hs'.
Qed.

(* ---------- C18: rule dates ---------- *)
Definition spec_day (d : rule_day) : sday :=
  match d with JulianNoLeap n => SJ n | JulianLeap n => SN n | MonthWeekDay m w wd => SM m w wd end.

(* Jn: 29 February is never counted, so J60 is 1 March in every year *)
Theorem rule_date_J Y n : MIN_Y < Y < MAX_Y -> Y <> 0 -> 1 <= n <= 365 ->
  year_doy_to_days Y n true = Ok (rule_date Y (SJ n)).
Proof.
  intros HY H0 Hn. pose proof (year_bounds Y HY H0) as B. destruct (validate_doy_spec Y n ltac:(lia)) as [A _].
  unfold year_doy_to_days. rewrite A.
  2:{ split; [exact H0|]. split; [unfold ylen; destruct (leap Y); lia|]. rewrite <- rd_jan1. unfold in_i32. lia. }
  cbn [bind]. f_equal. rewrite ydoy0_to_days_spec by exact H0. rewrite <- rd_jan1. unfold rule_date.
  rewrite is_leap_year_spec. cbn [andb]. destruct (leap Y); cbn [andb]; [|lia].
  destruct (Z.leb_spec 59 (n - 1)); destruct (Z.leb_spec 60 n); lia.
Qed.
Theorem rule_date_N Y n : MIN_Y < Y < MAX_Y -> Y <> 0 -> 0 <= n <= 365 ->
  (let! j := unwrap_days (year_doy_to_days Y 1 false) in TzOk (j + n)) = TzOk (rule_date Y (SN n)).
Proof.
  intros HY H0 Hn. pose proof (year_bounds Y HY H0) as B.
  destruct (year_doy_to_days_spec Y 1 ltac:(lia)) as [A _]. rewrite A.
  2:{ split; [exact H0|]. split; [unfold ylen; destruct (leap Y); lia|]. unfold in_i32. lia. }
  cbn. f_equal. lia.
Qed.

(* Mm.w.d: the w-th (5 = last) weekday wd of month m *)
Lemma first_weekday_index first wd : 0 <= wd <= 6 ->
  filter (fun i => days_to_wday (first + i) false =? wd) [0; 1; 2; 3; 4; 5; 6] = [(wd - wd_sun0 first) mod 7].
Proof.
  intros Hwd. set (k := (wd - wd_sun0 first) mod 7). assert (Hk : 0 <= k <= 6) by (subst k; lia).
  assert (Hf : forall i, 0 <= i <= 6 -> (days_to_wday (first + i) false =? wd) = (i =? k)).
  { intros i Hi. apply eq_true_iff_eq. rewrite !Z.eqb_eq. subst k. unfold days_to_wday, wd_sun0. lia. }
  cbn [filter]. rewrite !Hf by lia.
  assert (C : k = 0 \/ k = 1 \/ k = 2 \/ k = 3 \/ k = 4 \/ k = 5 \/ k = 6) by lia. clearbody k.
  destruct C as [-> | [-> | [-> | [-> | [-> | [-> | ->]]]]]]; reflexivity.
Qed.

Theorem rule_date_M Y m w wd : MIN_Y < Y < MAX_Y -> Y <> 0 -> 1 <= m <= 12 -> 1 <= w <= 5 -> 0 <= wd <= 6 ->
  (let! wds := weekdays_in_month Y m wd in
   let! dom := (if w =? 5 then match rev wds with x :: _ => TzOk x | [] => TzPanic end
                else match nth_error wds (Z.to_nat (w - 1)) with Some x => TzOk x | None => TzPanic end) in
   match year_month_to_doy Y m with
   | Ok (start, _) => unwrap_days (year_doy_to_days Y (start + dom) false)
   | _ => TzPanic end) = TzOk (rule_date Y (SM m w wd)).
Proof.
  intros HY H0 Hm Hw Hwd. pose proof (year_bounds Y HY H0) as B. unfold weekdays_in_month. rewrite year_month_to_doy_ok by exact Hm.
  assert (V : valid (Y, m, 1)) by (unfold valid; pose proof (mlen_bounds Y m); lia).
  assert (R : in_range (Y, m, 1)) by (unfold in_range, date_leb, MIN_DATE, MAX_DATE, MIN_Y, MAX_Y in *; lia).
  rewrite date_to_days_ok by assumption. rewrite first_weekday_index by exact Hwd.
  unfold rule_date. set (first := rd (Y, m, 1)). set (k := (wd - wd_sun0 first) mod 7). assert (Hk : 0 <= k <= 6) by (subst k; lia).
  pose proof (mlen_bounds Y m) as ML. set (ml := mlen Y m) in *.
  set (G := fun dom => unwrap_days (year_doy_to_days Y (cum (leap Y) m + dom) false)).
  change (tzbind ?x (fun dom => unwrap_days (year_doy_to_days Y (cum (leap Y) m + dom) false))) with (tzbind x G).
  assert (Fin : forall dom, 1 <= dom <= ml -> G dom = TzOk (first + dom - 1)).
  { intros dom Hdom. subst G. cbv beta. pose proof (cum_bounds Y m dom Hm Hdom) as CB.
    destruct (year_doy_to_days_spec Y (cum (leap Y) m + dom) ltac:(lia)) as [A _]. rewrite A.
    - cbn [unwrap_days]. f_equal. subst first. unfold rd. cbn [cum]. lia.
    - split; [exact H0|]. split; [lia|]. unfold in_i32, ylen in *. destruct (leap Y); lia. }
  assert (C : k = 0 \/ k = 1 \/ k = 2 \/ k = 3 \/ k = 4 \/ k = 5 \/ k = 6) by lia.
  assert (CM : ml = 28 \/ ml = 29 \/ ml = 30 \/ ml = 31) by lia.
  assert (CW : w = 1 \/ w = 2 \/ w = 3 \/ w = 4 \/ w = 5) by lia.
  clearbody k ml first G.
  destruct C as [-> | [-> | [-> | [-> | [-> | [-> | ->]]]]]]; destruct CM as [-> | [-> | [-> | ->]]]; destruct CW as [-> | [-> | [-> | [-> | ->]]]];
    cbn; (etransitivity; [apply Fin; lia | f_equal; lia]).
Qed.

(* ================= C18: the lookup computes the specification's offset ================= *)
Definition year_of (d : Z) : Z := fst (fst (days_to_date d)).
Definition spec_rule (r : trule) : srule :=
  match r with
  | RFixed u => SFixed u
  | RAlt a => SAlt (mkSalt (a_std a) (a_dst a) (spec_day (a_std_end a)) (a_std_end_time a) (spec_day (a_dst_end a)) (a_dst_end_time a))
  end.
Definition spec_file (tz : timezone) : tzfile := mkTzf (tz_trans tz) (tz_types tz) (option_map spec_rule (tz_rule tz)).

(* the year the rule is evaluated in: the UTC year of the instant (clamped only in the first and last year of the range) *)
Lemma rule_year_is t : ts_in_range t ->
  rule_year t = TzOk (Z.max (MIN_Y + 1) (Z.min (MAX_Y - 1) (utc_year year_of t))).
Proof.
  intros Ht. destruct (c03_ts_dt t Ht) as (v & E & (Hd & Hn & _) & _ & Hi & Ho). unfold rule_year. rewrite E.
  unfold dt_year. destruct v as [d n o]. cbn [dt_days dt_nanos dt_off] in *. subst o.
  assert (EL : dt_local (mkDT d n 0) = Ok (d, n)).
  { assert (R : inst_in_range (local_instant (mkDT d n 0))).
    { unfold local_instant, instant. cbn [dt_days dt_nanos dt_off]. revert Hd Hn.
      unfold in_i32, inst_in_range, MIN_I, MAX_I, NANOS_PER_DAY, NANOS_PER_SEC, I32_MIN, I32_MAX. lia. }
    rewrite dt_local_ok by exact R. unfold local_instant, instant. cbn [dt_days dt_nanos dt_off]. fold D.
    f_equal. f_equal; revert Hn; unfold D, NANOS_PER_DAY, NANOS_PER_SEC; intros Hn; lia. }
  rewrite EL. cbn [bind]. f_equal. f_equal. f_equal. unfold utc_year, year_of, UNIX_EPOCH_DAY. f_equal. f_equal. f_equal.
  unfold instant in Hi. cbn [dt_days dt_nanos] in Hi. revert Hn Hi. unfold EPOCH_SECS, DAYS_TO_1970, SECS_PER_DAY, NANOS_PER_DAY, NANOS_PER_SEC. intros Hn Hi. lia.
Qed.

Lemma rule_ts_spec rdy time t Y : rule_day_ok rdy -> time_ok time -> rule_year t = TzOk Y -> MIN_Y < Y < MAX_Y -> Y <> 0 ->
  rule_to_local_timestamp rdy time t = TzOk ((rule_date Y (spec_day rdy) - UNIX_EPOCH_DAY) * 86400 + time).
Proof.
  intros Hr Ht EY HY H0. unfold rule_to_local_timestamp. rewrite EY. cbn [tzbind]. pose proof (year_bounds Y HY H0) as B.
  assert (Fin : forall dd, rd (Y, 1, 1) <= dd <= rd (Y, 1, 1) + 366 ->
            match dt_from_seconds (dd * SECS_PER_DAY + time) with Ok v => TzOk (dt_timestamp v) | _ => TzPanic end
            = TzOk ((dd - UNIX_EPOCH_DAY) * 86400 + time)).
  { intros dd Hdd. unfold dt_from_seconds. rewrite secs_to_days_nanos_ok by (revert Ht B; unfold time_ok, I32_MIN, I32_MAX, SECS_PER_DAY; lia).
    cbn [bind]. f_equal. unfold dt_timestamp, dt_as_seconds. cbn [dt_days dt_nanos].
    rewrite days_nanos_to_secs_spec by (unfold SECS_PER_DAY, NANOS_PER_DAY, NANOS_PER_SEC; lia).
    unfold UNIX_EPOCH_DAY, DAYS_TO_1970, SECS_PER_DAY, NANOS_PER_SEC. lia. }
  destruct rdy as [n | n | m w wd]; cbn [rule_day_ok] in Hr; cbn [spec_day].
  - rewrite (rule_date_J Y n HY H0 Hr). cbn [unwrap_days tzbind]. apply Fin. unfold rule_date. destruct (leap Y && (60 <=? n)); lia.
  - pose proof (rule_date_N Y n HY H0 Hr) as E. cbv zeta in E. destruct (unwrap_days (year_doy_to_days Y 1 false)) as [j| |]; cbn [tzbind] in *; try discriminate.
    injection E as E. rewrite E. apply Fin. unfold rule_date. lia.
  - destruct Hr as (Hm & Hw & Hwd). pose proof (rule_date_M Y m w wd HY H0 Hm Hw Hwd) as E. cbv zeta in E.
    destruct (weekdays_in_month Y m wd) as [wds| |]; cbn [tzbind] in *; try discriminate.
    match type of E with tzbind ?x _ = _ => destruct x as [dom| |] end; cbn [tzbind] in *; try discriminate.
    destruct (year_month_to_doy Y m) as [[start ml]| |]; try discriminate. rewrite E. cbn [tzbind]. apply Fin.
    unfold rule_date. pose proof (mlen_bounds Y m) as ML. pose proof (cum_bounds Y m 1 Hm ltac:(lia)) as C1.
    assert (Ef : rd (Y, m, 1) = rd (Y, 1, 1) + cum (leap Y) m) by (unfold rd; cbn [cum]; lia). rewrite Ef. unfold ylen in C1.
    set (k := (wd - wd_sun0 (rd (Y, 1, 1) + cum (leap Y) m)) mod 7). assert (0 <= k <= 6) by (subst k; lia). clearbody k.
    pose proof (cum_bounds Y m (mlen Y m) Hm ltac:(lia)) as C2. unfold ylen in C2.
    destruct (Z.ltb_spec (mlen Y m) (1 + k + 7 * (w - 1))); destruct (leap Y); lia.
Qed.

Lemma latest_in_range trans n : (forall t i, In (t, i) trans -> 0 <= i < n) -> forall t acc, 0 <= acc < n -> 0 <= latest_type trans t acc < n.
Proof.
  induction trans as [|[t0 i0] tl IH]; intros H t acc Ha; cbn [latest_type]; [exact Ha|].
  destruct (t0 <=? t); [|exact Ha]. apply IH; [intros a b Hin; apply (H a b); right; exact Hin | apply (H t0 i0); left; reflexivity].
Qed.

Theorem lookup_is_spec tz t : tz_wf tz -> sorted_trans (tz_trans tz) -> ts_in_range t ->
  MIN_Y + 1 <= utc_year year_of t <= MAX_Y - 1 ->
  exists u, spec_lookup year_of (spec_file tz) t = Some u /\ to_local_time_type tz t = TzOk u.
Proof.
  intros (Hidx & Hty & Hru) Hs Ht Hy. unfold spec_lookup, to_local_time_type, spec_file, last_time. cbn [f_trans f_types f_rule].
  assert (Y0 : utc_year year_of t <> 0).
  { unfold utc_year, year_of. destruct (days_to_date_rd (t / 86400 + UNIX_EPOCH_DAY)) as [V _]. destruct (days_to_date _) as [[y m] d]. cbn [fst]. destruct V as (V & _). exact V. }
  (* the table branch *)
  assert (Tab : tz_trans tz <> [] -> exists u, nth_error (tz_types tz) (Z.to_nat (latest_type (tz_trans tz) t 0)) = Some u /\
                 nth_error (tz_types tz) (Z.to_nat (scan_rev (rev (tz_trans tz)) t)) = Some u).
  { intros Hne. rewrite (scan_is_latest _ t Hs).
    assert (Hn : 0 < Z.of_nat (length (tz_types tz))).
    { destruct (tz_trans tz) as [|[t0 i0] tl]; [congruence|]. specialize (Hidx t0 i0 ltac:(left; reflexivity)). lia. }
    pose proof (latest_in_range (tz_trans tz) (Z.of_nat (length (tz_types tz))) Hidx t 0 ltac:(lia)) as Hl.
    destruct (nth_error (tz_types tz) (Z.to_nat (latest_type (tz_trans tz) t 0))) as [u|] eqn:En; [exists u; split; reflexivity|].
    apply nth_error_None in En. lia. }
  (* the rule branch *)
  assert (Rule : forall r, tz_rule tz = Some r -> exists u, rule_offset year_of (spec_rule r) t = u /\
            match r with
            | RFixed u0 => TzOk u0
            | RAlt a =>
                let! std_end_ts := rule_to_local_timestamp (a_std_end a) (a_std_end_time a) t in
                let! dst_end_ts := rule_to_local_timestamp (a_dst_end a) (a_dst_end_time a) t in
                let std_end_unix := std_end_ts - a_std a in
                let dst_end_unix := dst_end_ts - a_dst a in
                if (std_end_unix <? dst_end_unix) && (std_end_unix <=? t) && (t <? dst_end_unix) then TzOk (a_dst a)
                else if std_end_unix <? dst_end_unix then TzOk (a_std a)
                else if (dst_end_unix <? std_end_unix) && (dst_end_unix <=? t) && (t <? std_end_unix) then TzOk (a_std a)
                else TzOk (a_dst a)
            end = TzOk u).
  { intros r Er. specialize (Hru r Er). destruct r as [u0 | a]; cbn [spec_rule rule_offset]; [exists u0; split; reflexivity|].
    destruct Hru as (R1 & T1 & R2 & T2 & _). set (Y := utc_year year_of t) in *.
    assert (EY : rule_year t = TzOk Y) by (rewrite (rule_year_is t Ht); fold Y; f_equal; lia).
    rewrite (rule_ts_spec _ _ t Y R1 T1 EY ltac:(lia) Y0), (rule_ts_spec _ _ t Y R2 T2 EY ltac:(lia) Y0). cbn [tzbind]. cbv zeta.
    unfold switch_start, switch_end. cbn [sa_std sa_dst sa_start sa_start_time sa_end sa_end_time].
    set (s := (rule_date Y (spec_day (a_std_end a)) - UNIX_EPOCH_DAY) * 86400 + a_std_end_time a - a_std a).
    set (e := (rule_date Y (spec_day (a_dst_end a)) - UNIX_EPOCH_DAY) * 86400 + a_dst_end_time a - a_dst a).
    eexists. split; [reflexivity|].
    destruct (Z.ltb_spec s e); cbn [andb].
    - destruct ((s <=? t) && (t <? e)); reflexivity.
    - destruct (Z.ltb_spec e s); cbn [andb]; [destruct ((e <=? t) && (t <? s)); reflexivity|].
      destruct (Z.leb_spec e t); destruct (Z.ltb_spec t s); cbn [andb]; try reflexivity; lia. }
  destruct (rev (tz_trans tz)) as [|[t0 i0] rt] eqn:Er.
  - assert (E0 : tz_trans tz = []) by (apply (f_equal (@rev (Z * Z))) in Er; rewrite rev_involutive in Er; exact Er).
    destruct (tz_rule tz) as [r|] eqn:Erule; cbn [option_map].
    + destruct (Rule r eq_refl) as (u & E1 & E2). exists u. split; [rewrite E1; reflexivity | exact E2].
    + rewrite E0. cbn [latest_type Z.to_nat]. destruct (tz_types tz) as [|u tl] eqn:Ety; [exfalso; apply (Hty eq_refl); reflexivity|].
      exists u. split; reflexivity.
  - assert (Hne : tz_trans tz <> []) by (intros X; rewrite X in Er; discriminate).
    destruct (tz_rule tz) as [r|] eqn:Erule; cbn [option_map andb].
    + destruct (Z.ltb_spec t0 t).
      * destruct (Rule r eq_refl) as (u & E1 & E2). exists u. split; [rewrite E1; reflexivity | exact E2].
      * destruct (Tab Hne) as (u & E1 & E2). exists u. split; [exact E1|]. rewrite E2. reflexivity.
    + rewrite andb_false_r. destruct (Tab Hne) as (u & E1 & E2). exists u. split; [exact E1|]. rewrite E2. reflexivity.
Qed.
