"""Per-property configuration of ./check."""

TB_COMMON = [
    "Coq 8.16.1 kernel (coqc) incl. vm_compute; no native_compute",
    "hand-written Gallina model of the Rust source (coq/theories/*Model.v)",
    "correspondence check: Rust harness (/verif/harness, dev+release profiles) + model evaluated by vm_compute on the same inputs",
    "specification files coq/theories/*Spec.v",
    "rustc 1.95 / cargo, std::panic::catch_unwind, derived Debug output used to read private fields",
]
ASSUME_COMMON = [
    "the theorem is about the hand-written model; the model is tied to /repo by differential execution on this run's inputs, bounded by the generator",
    "intermediate i64/i128 arithmetic that provably stays far inside its type is modelled in Z (see DESIGN.md section 9)",
]

PROPS = {
    "C01": dict(
        cases_mod="CasesC01", check_fn="check_C01",
        rule="boundary day numbers (range ends, era boundary, 1 Jan/28-29 Feb/1 Mar/31 Dec of years -402..402, 1599..2401 and the years nearest both ends) + uniformly random i32 days, each observed through from_timestamp -> as_ymd -> from_ymd and for d+1; plus (year, month, day) triples from a boundary product and random draws. A case counts as non-trivial when it is a day-number case, or a triple with day >= 28, year 0, or a year within 611 of the range ends; distinct = distinct input encodings.",
        explanation="Theorems C01_* (props/C01.v) hold for every integer day number / every triple; the figures below describe the differential run that ties the model to the code.",
        trusted_base=TB_COMMON, assumptions=ASSUME_COMMON,
    ),
    "C03": dict(
        cases_mod="CasesArith", check_fn="check_C03",
        rule="i64 timestamps: both range ends +-1 and +-1 day, 0, +-1, +-86399/86400/86401, i64 extremes and the i64-overflow edge of the epoch shift, random in/out of range; pairs of DateTimes (equal instants under different offsets, adjacent days, straddling day 0, range ends) compared with ==, <, >=, cmp, also with the left operand obtained through + Time / + Duration (sums landing exactly on midnight included) instead of built directly; Date and Time pairs. Non-trivial: every timestamp case; pairs whose operands differ.",
        explanation="(incl. C03_order_since: the order agrees with the sign of every *_since difference, all seven units) Theorems C03_* hold for every i64 timestamp and every pair of values; figures describe the differential run.",
        trusted_base=TB_COMMON, assumptions=ASSUME_COMMON,
    ),
    "C04": dict(
        cases_mod="CasesArith", check_fn="check_C04",
        rule="DateTime (boundary-dense days x nanoseconds x offsets) x unit (h, min, s, ms, us, ns, days) x count from {0,1,23,24,59,60,999,1000,86400,5124095,5124096,6000000,2^31-1,2^31,2^31+1,2^32-2,2^32-1,...} and random u32; Durations up to u64::MAX seconds; Time operands; Date +/- days and Durations. Non-trivial: count != 0.",
        explanation="Theorems C04_* hold for every value, count and unit; figures describe the differential run (dev profile = overflow checks on, release = wrapping).",
        trusted_base=TB_COMMON, assumptions=ASSUME_COMMON,
    ),
    "C06": dict(
        cases_mod="CasesArith", check_fn="check_C06",
        rule="ordered pairs of DateTimes x 7 units: independent draws, pairs within one unit of each other (remainders ordered both ways), pairs a whole number of units +-1 ns apart, pairs straddling 0001-01-01, same day; Time and Date pairs; duration_between both ways. Non-trivial: operands differ.",
        explanation="Theorems C06_* hold for every pair of values satisfying the representation invariant; figures describe the differential run.",
        trusted_base=TB_COMMON, assumptions=ASSUME_COMMON,
    ),
    "C08": dict(
        cases_mod="CasesText", check_fn="check_C08x",
        rule="constructors over boundary products (hour 0..25, 2^31, 2^32-1; seconds around 86400; nanoseconds around 86400e9 and u64 extremes; thorough: all 86400 seconds); times of day x offsets x unit x u32 counts for add_/sub_; pairs of Times for + and -; Durations up to u64::MAX s; getters under offsets; Time::from(DateTime) incl. instants before 0001-01-01; Time::parse / Time::from_str on texts whose fields sit at the edges of their ranges (several sub-second fields next to 23:59:59, 12/24-hour fields with markers, zones); set_*, clear_until_*, set_offset, as_offset of Times (oracles of C09/C10 plus: result inside the day). Non-trivial: count != 0, or any non-add case.",
        explanation="Theorems C08_* hold for every Time, count, unit and every history of operations; figures describe the differential run.",
        trusted_base=TB_COMMON, assumptions=ASSUME_COMMON,
    ),
    "C02": dict(
        cases_mod="CasesArith", check_fn="check_C02",
        rule="days: range ends, era boundary, epoch +-8; 25 Dec..7 Jan and quarter/month ends of years -30..30, 1990..2035 and century years; random days; DateTimes with offsets (local day differs from UTC day); set_day_of_year over days x {0,1,2,59,60,61,173,174,193,194,365,366,367,2^32-1,random}. Observed: weekday(), day_of_year(), format w/q/e/eeeeeee/D. Non-trivial: every case (dt_info only with a non-zero offset).",
        explanation="Theorems C02_* hold for every integer day number (the ISO-week theorem by a complete in-kernel sweep of one 400-year cycle lifted by a periodicity lemma); figures describe the differential run.",
        trusted_base=TB_COMMON, assumptions=ASSUME_COMMON,
    ),
    "C05": dict(
        cases_mod="CasesArith", check_fn="check_C05",
        rule="start dates: month ends, 29 Feb (AD and BC leap years), era boundary years -8..8, range-end years, random; N from {0,1,2,5,11,12,13,24,1200,...,141110663..5 (range in months), 2^31-1, 2^31, 2^32-1} and random u32; add/sub months/years on Date and DateTime (time of day and offset must be kept). Thorough adds every day of years -3..3, 2019..2021, 2024 x N in 0..=60 x 4 operations. Non-trivial: N != 0.",
        explanation="Theorems C05_* hold for every day number and every (signed) count; figures describe the differential run.",
        trusted_base=TB_COMMON, assumptions=ASSUME_COMMON,
    ),
    "C07": dict(
        cases_mod="CasesArith", check_fn="check_C07",
        rule="ordered pairs of dates: special dates (month ends, leap days, era boundary, range ends) paired with dates within +-70 / +-800 days, exact offsets of 28..31/365/366 days, independent draws; DateTime pairs differing only in nanoseconds; both directions observed (antisymmetry). Thorough adds a seed-determined seventh of all ordered pairs inside [-0002-01-01,0002-12-31] and [2023-11-01,2024-04-30]. Non-trivial: operands differ.",
        explanation="Theorems C07_* hold for all pairs of (day, nanosecond) values; figures describe the differential run.",
        trusted_base=TB_COMMON, assumptions=ASSUME_COMMON,
    ),
    "C09": dict(
        cases_mod="CasesArith", check_fn="check_C09",
        rule="values whose local date differs from the UTC date (23:30 +01:00, 00:15 -00:30), month/year ends, 29 Feb in AD and BC leap years, sub-second remainders, range ends; 10 setters x candidate values {0, 1, max-1, max, max+1, 2^32-1, random} and years incl. the era boundary; 9 clear_until_* operations; on DateTime, Time and Date; all fields re-read in local time. Non-trivial: every case.",
        explanation="Theorems C09_* hold for every value, offset and candidate; figures describe the differential run.",
        trusted_base=TB_COMMON, assumptions=ASSUME_COMMON,
    ),
    "C10": dict(
        cases_mod="CasesArith", check_fn="check_C10",
        rule="instants (boundary-dense, both range ends) x offsets {0, +-1, +-59, +-60, +-3599, +-3600, +-5400, +-86399, random}: set_offset, as_offset, every getter and timestamp(); Time set_offset/as_offset; Offset::from_seconds around +-86399/86400 and i32 extremes (thorough: all 172799 accepted values), Offset::from_hms over hour -25..25 x minute/second {0,1,30,59,60,2^32-1}. Non-trivial: new offset differs / offset non-zero.",
        explanation="Theorems C10_* hold for every value and every offset in (-24h, +24h); figures describe the differential run.",
        trusted_base=TB_COMMON, assumptions=ASSUME_COMMON,
    ),
    "C15": dict(
        cases_mod="CasesArith", check_fn="check_C15",
        rule="argument tuples over the full u32/i32 domains: boundary products {0, 1, max-1, max, max+1, 2^31, 2^32-1} per parameter for from_ymd, from_ymdhms, from_hms, Time::from_hms/from_seconds/from_nanos, Offset::from_seconds/from_hms and the set_* methods of Date, Time, DateTime (incl. values at both range ends with offsets), plus random tuples. The error's (name, min, max, value, custom) is compared with the model. Non-trivial: every case.",
        explanation="Theorems C15_* hold for all argument tuples; figures describe the differential run.",
        trusted_base=TB_COMMON, assumptions=ASSUME_COMMON,
    ),
    "C16": dict(
        cases_mod="CasesCron", check_fn="check_C16",
        rule="the std tables restated in Text.v validated over all Unicode scalar values (char::is_whitespace; to_lowercase wherever ASCII is involved); expressions generated from the documented grammar (every item form, values over each field's range incl. weekday 7, names in random letter case, leading zeros, lists of 1-3 items, separators space/tab/NBSP/EM SPACE, leading/trailing white space) plus 3-6 random single-edit mutations (delete / insert / substitute over digits * , - / + letters, white space, multi-byte characters) of each, double mutations, and a fixed list of historical edge cases. Observed: Ok/Err and, through Debug, the five value sets (sorted). Non-trivial: every case.",
        explanation="Theorems C16_* hold for every text; figures describe the differential run.",
        trusted_base=TB_COMMON + ["hook H2-free: value sets are read from the derived Debug output of CronSchedule"], assumptions=ASSUME_COMMON,
    ),
    "C17": dict(
        cases_mod="CasesCron", check_fn="check_C17",
        rule="satisfiable schedules (fixed set incl. 29 Feb, day 31, 13th-or-Friday, weekday 7, plus grammar-generated ones filtered for satisfiability) x second-granular start instants (month ends, leap days, year ends, 23:59:59.x) x histories of 1-6 (advance clock, next) steps with advances from {0,1,59,60,61 s, 1 h, 1 d - 1 s, 1 d, 31 d, 40 d, 400 d} and random; a clone taken mid-history must continue identically. Clock pinned through hook H1. Non-trivial: histories of more than one call.",
        explanation="Proved for the model (props/C17.v): whenever next() returns, the time is the least matching minute above both the clock's minute and the previous result, for every history (C17_next_sound, C17_history); when a matching minute lies ahead, at least 31 days before the end of the range, next() does return without panic or error, given fuel for the distance (C17_next_total); hence it returns exactly the least matching minute (C17_next). The run pins the clock through hook H1 and compares with a brute-force least-match oracle.",
        trusted_base=TB_COMMON + ["hook H1 (cargo feature astrolabe_verif): thread-local clock pin read by CronSchedule::next"], assumptions=ASSUME_COMMON + ["the wall clock is a parameter of the model; the pinned clock replaces DateTime::now() inside next()"],
    ),
    "C18": dict(
        cases_mod="CasesTz", check_fn="check_C18", shard=40,
        extra_inputs_cmd=["python3", "lib/tz_oracle.py", "{tier}", "{seed}"],
        rule="(i) real zone files: the vendored set under corpus/tz plus a seed-chosen sample of /usr/share/zoneinfo (thorough: all ~1200 non-leap-second files); timestamps = each of the last 14 and first 2 transitions -1/0/+1 s, the second-exact switch-overs of the footer rule (found by bisection on CPython's zoneinfo) -1/0/+1 s in several years up to 2499, and random instants; expected offsets from CPython's zoneinfo. (ii) synthesized v1/v2/v3 files from an AST (0-40 sorted transitions incl. gaps of 1-2 s, 1-6 types, footer none/fixed/alternating with Jn, n, Mm.w.d dates in both hemispheres, times incl. negative/over-24h for v3, quoted designations, arbitrary skipped sections); timestamps at transitions and rule switch-overs +-1 s (years 1900-2500) and random; expected offsets from TzSpec.spec_lookup on the AST. Non-trivial: every case.",
        explanation="Proved for the model (props/C18.v): for every parsed structure with sorted transitions that passes the reader's validation, every in-range timestamp and every UTC year strictly inside the range, to_local_time_type is exactly TzSpec.spec_lookup (table scan, Jn / n / Mm.w.d rule dates, switch-over timestamps, the four-way comparison). Byte level: the reader applied to the RFC 8536 layout of a version 2/3 file returns the transitions and types laid out (C18_decode_partial), the POSIX TZ string parser applied to any spelling of a rule that the footer grammar allows (alphabetic or quoted designations, optional signs, padded hours, omitted zero minutes/seconds, omitted DST offset and /time) returns that rule (C18_footer, C18_footer_grammar), and the compositions C18_file, C18_file_grammar; version-1 files (C18_file_v1) and version 2/3 files with any version-1 block and any skipped sections (C18_file_whole, C18_file_whole_norule). Not expressible as a theorem: that real files are such layouts - tied by the run on synthesized files (both abbreviated and canonical footers; expected offsets from TzSpec on the AST) and real zone files (expected offsets from CPython zoneinfo).",
        trusted_base=TB_COMMON + ["hook H2 (cargo feature astrolabe_verif): tzif_offsets(bytes, timestamps)", "CPython 3 zoneinfo as the reference evaluator on real zone files"],
        assumptions=ASSUME_COMMON + ["/etc/localtime and the wall clock are parameters; Offset::Local is exercised separately"],
    ),
    "C19": dict(
        cases_mod="CasesTz", check_fn="check_C19", shard=60,
        extra_rows_cmd=["python3", "lib/local_glue.py", "{bin}", "{tier}"],
        rule="structure-aware mutations of valid synthesized files: every header count field x {0, 1, +1, -1, 2^31, 2^32-1, 255, 256} in either header, truncation at a random point, transition type index values {0,1,5,6,7,127,128,255}, version byte sweep of either header independently, random byte flips, single-edit footer mutations over a POSIX-TZ alphabet, plus 48 hand-written hostile footers (month 0/13, week 0/6, day 7, J0, J366, 366, 365 in common years, 20-digit numbers, missing parts, over-range times, invalid UTF-8) on skeletons with and without transitions; lookups at 16 timestamps incl. both ends of the DateTime range. Outcome class (error / offsets / panic) compared with the model. Plus Offset::Local.resolve() itself with valid zone files and hostile contents bind-mounted over /etc/localtime in a private mount namespace (op tz_local; skipped where unshare is unavailable). Non-trivial: every case.",
        explanation="Theorems of props/C19.v: no panic in the parser for any byte string, no panic in lookups on any accepted file (see file header).",
        trusted_base=TB_COMMON + ["hook H2 (cargo feature astrolabe_verif): tzif_offsets(bytes, timestamps)"],
        assumptions=ASSUME_COMMON + ["usize is 64 bits (length products cannot overflow)", "the Offset::Local -> /etc/localtime glue is modelled as resolve_local (file result, clock) and exercised in a private mount namespace by both tiers when unshare is available"],
    ),
    "C11": dict(
        cases_mod="CasesText", check_fn="check_C11", shard=200,
        rule="values (years +-1, +-99, +-100, +-9999, +-10000, 123456; weeks 52/53/1; every weekday/month; hours 0/11/12/13/23; offsets incl. seconds) x patterns generated from the item grammar: every symbol the type understands x widths 1..=10, literal runs (ASCII and multi-byte), quoted text with embedded apostrophes, '' outside quotes; a quarter of the cases are single-field patterns. The harness sends the item list; the oracle re-derives the pattern text (unparse) and the expected output (PatternSpec.render). Non-trivial: every case.",
        explanation="Proved for the model (props/C11.v, PatternProofs.v): for every value, offset and item list of the grammar swf, format(unparse items) is Ok and equals the concatenation of the items rendered by the documented table (PatternSpec.render): the tokenizer theorem (parts of the printed pattern = the items' parts) composed with the per-symbol theorems (all 19 symbols x every width). The run ties model and implementation and evaluates the same specification on the implementation's output.",
        trusted_base=TB_COMMON + ["serde / serde_json (C20) from the offline cargo cache"], assumptions=ASSUME_COMMON + ["the current year read by the two-letter year parser is a parameter (now_year) passed by the harness"],
    ),
    "C12": dict(
        cases_mod="CasesText", check_fn="check_C12", shard=200,
        rule='values x patterns from the unambiguous-field grammar (at most one field per value kind; every combination of month / day of month / day of year next to a year; the hour as a 24-hour field, a 12-hour field with marker, a lone marker, a lone 12-hour field, or absent; one-letter numeric fields and y/yyy/yyyy followed by a non-digit literal or quoted text, no narrow names, zone symbols of every width or none, separators incl. 2-, 3- and 4-byte characters and characters sharing their low byte with a symbol letter, quoted separators) plus a symbol x width grid and a grid of partial patterns; observed: format -> parse -> format and the parsed value. Non-trivial: every case.',
        explanation="Proved for the model (props/C12.v, FieldProofs.v, RoundTrip.v): formatter and parser agree on every symbol and width (C12_date_symbols, C12_time_symbols) and on every item incl. multi-byte literals, quoted text and escaped apostrophes (C12_item); for DateTime values and unambiguous patterns carrying a full date, time of day and zone, parse(format(v,p),p) is Ok with the same offset and the same instant truncated to the written precision, and formatting it again reproduces the text (C12_datetime_partial); likewise for Date (full date) and Time (full time and zone) with their own parse loops (C12_date_partial, C12_time_partial); for patterns carrying any part of a date, any part of a time of day and a zone or none (month/day/day-of-year next to a year; era, quarter, week, weekday next to a full date; b next to hour, minute, second), parse(format(v,p),p) is Ok with the defaults 0001-01-01, 00:00:00, UTC filled in, valid, and formatting it again reproduces the text (C12_datetime_any, C12_date_any, C12_time_any). The run performs format -> parse -> format on the implementation for all three types.",
        trusted_base=TB_COMMON + ["serde / serde_json (C20) from the offline cargo cache"], assumptions=ASSUME_COMMON + ["the current year read by the two-letter year parser is a parameter (now_year) passed by the harness"],
    ),
    "C13": dict(
        cases_mod="CasesText", check_fn="check_C13", shard=200,
        rule='write side: instants in years 1..=9999 x whole-minute offsets (0, +-1 min, +-23:59, random) x 5 precisions; read side: strings from the RFC 3339 ABNF with 1..40 fraction digits, Z or +-hh:mm, one quarter placed so that the UTC time of day is 0, 1, 43200, 86398 or 86399 s (day carry / borrow), one third with a single field pushed out of range (month 00/13, day 00/30/31/32 incl. 29 Feb, hour 24, minute 60, second 60, offset 24:00 / 00:60, year 0000), plus hand-written malformed strings incl. multi-byte characters. Non-trivial: every case.',
        explanation="Proved for the model (props/C13.v, RfcProofs.v): every grammatical RFC 3339 timestamp (any number of fraction digits) with in-range fields is accepted with exactly the denoted instant and offset; one with an out-of-range field is rejected; no string panics; format_rfc3339 of a valid value (local year 1..9999, whole-minute offset, each precision) is grammatical, in range and denotes the value truncated to the precision; reading back what was written gives that. The run ties the model to the implementation.",
        trusted_base=TB_COMMON + ["serde / serde_json (C20) from the offline cargo cache"], assumptions=ASSUME_COMMON + ["the current year read by the two-letter year parser is a parameter (now_year) passed by the harness"],
    ),
    "C14": dict(
        cases_mod="CasesText", check_fn="check_C14", shard=200,
        rule="(input, pattern) pairs: a seed-determined slice of the exhaustive product {19 symbols} x {width 1..5} x {all strings up to length 2 (thorough: 3) over 0 1 9 + - : . Z T a p m ' space e-acute euro emoji} x {Date, Time, DateTime}; composite patterns from the item grammar with single-edit mutations (deleted/inserted quotes, NUL, multi-byte), inputs produced by formatting then truncated / extended / damaged; patterns of several (also repeated) fields each at the edge of its range - e.g. 23:59:59 followed by several fraction fields at their maxima; format with every hostile pattern incl. lone and unbalanced apostrophes; parse_rfc3339, FromStr of all three types and CronSchedule::from_str on small and damaged strings. Dev profile = overflow checks on. Non-trivial: every case.",
        explanation="Proved for the model (props/C14.v): Date/Time/DateTime::parse, parse_rfc3339 and the three from_str never reach Panic for any input and pattern text; every Ok is a valid value (day number in i32, time of day < 24 h, offset inside +-24 h, instant and local reading representable); format is Ok for every pattern and every valid value. CronSchedule::parse has no panic outcome in its model (option type) and is watched by the run only. The run ties the model's outcome class to the implementation's.",
        trusted_base=TB_COMMON + ["serde / serde_json (C20) from the offline cargo cache"], assumptions=ASSUME_COMMON + ["the current year read by the two-letter year parser is a parameter (now_year) passed by the harness"],
    ),
    "C20": dict(
        cases_mod="CasesText", check_fn="check_C20", shard=200,
        rule='Display of Dates/Times/DateTimes (all eras, offsets); serde_json round trips of Dates (all eras incl. years beyond 9999 and negative), Times with offsets (thorough: all 86400 seconds), DateTimes in years 1..9999 x whole-minute offsets; FromStr and Deserialize on hand-written valid, out-of-range and malformed strings. Non-trivial: every case.',
        explanation="Proved for the model (props/C20.v, FieldProofs.v): Display of Date/Time/DateTime is the documented fixed pattern applied to the local fields; serialize-then-deserialize returns the same Date (every day number), a Time showing the same HH:mm:ss, the same DateTime instant (to the second) and offset for local years 1..9999 and whole-minute offsets; FromStr never panics and an Ok is a valid value. The serde framework is outside the model; the run performs the real serde_json round trip.",
        trusted_base=TB_COMMON + ["serde / serde_json (C20) from the offline cargo cache"], assumptions=ASSUME_COMMON + ["the current year read by the two-letter year parser is a parameter (now_year) passed by the harness"],
    ),
}
