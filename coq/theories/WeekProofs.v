(* WeekProofs.v — weekday, day of year, set_day_of_year and the ISO-8601 week (C02). *)
From Astro Require Import Base CalSpec DateModel DateProofs.

(* ---------- weekday ---------- *)
Theorem wd_anchor : days_to_wday 719162 false = 4 /\ days_to_wday 0 false = 1.
Proof. split; reflexivity. Qed.
Theorem wd_step d : days_to_wday (d + 1) false = (days_to_wday d false + 1) mod 7 /\ 0 <= days_to_wday d false <= 6.
Proof. unfold days_to_wday. lia. Qed.
Theorem wd_monday_first d : days_to_wday d true = (days_to_wday d false + 6) mod 7.
Proof. unfold days_to_wday. lia. Qed.

(* ---------- day of year ---------- *)
Theorem doy_spec d : let '(y, m, dd) := days_to_date d in days_to_doy d = Ok (1 + d - rd (y, 1, 1)).
Proof.
  destruct (days_to_date_rd d) as [V E]. unfold days_to_doy.
  destruct (days_to_date d) as [[y m] dd]. destruct V as (Hy & Hm & Hd).
  rewrite year_month_to_doy_ok by assumption. cbn [unwrap bind]. f_equal.
  unfold rd in *. cbn [cum]. lia.
Qed.

(* the year that contains a day number *)
Lemma year_of_rd x a : valid x -> ystart a <= rd x < ystart (a + 1) -> astro (fst (fst x)) = a.
Proof.
  destruct x as [[y m] d]. intros (Hy & Hm & Hd) H. cbn [fst]. unfold rd in H.
  pose proof (cum_bounds y m d Hm Hd) as B. unfold ylen, leap in *.
  pose proof (ystart_succ (astro y)) as S1.
  destruct (Z.lt_trichotomy (astro y) a) as [L | [E | G]]; [|exact E|].
  - pose proof (ystart_mono (astro y + 1) a ltac:(lia)). destruct (leap_a (astro y)); lia.
  - pose proof (ystart_mono (a + 1) (astro y) ltac:(lia)). lia.
Qed.

Lemma rd_jan1 y : rd (y, 1, 1) = ystart (astro y).
Proof. unfold rd. cbn [cum]. lia. Qed.

(* ---------- set_day_of_year ---------- *)
Lemma ystart_min : ystart (astro MIN_Y) + 173 = I32_MIN. Proof. reflexivity. Qed.
Lemma ystart_max : ystart (astro MAX_Y) + 192 = I32_MAX. Proof. reflexivity. Qed.

Lemma validate_doy_spec y n : 0 <= n ->
  (y <> 0 /\ 1 <= n <= ylen y /\ in_i32 (ystart (astro y) + n - 1) -> validate_doy y n = Ok tt) /\
  (~ (y <> 0 /\ 1 <= n <= ylen y /\ in_i32 (ystart (astro y) + n - 1)) -> exists nm a b v, validate_doy y n = Err (EOor nm a b v)).
Proof.
  intros Hn. unfold validate_doy. rewrite is_leap_year_spec. unfold ylen, in_i32.
  pose proof ystart_min as Emin. pose proof ystart_max as Emax.
  assert (Mlo : y < MIN_Y -> y <> 0 -> ystart (astro y + 1) <= ystart (astro MIN_Y))
    by (intros; apply ystart_mono; unfold astro, MIN_Y in *; break_ifs).
  assert (Mhi : MAX_Y < y -> ystart (astro MAX_Y + 1) <= ystart (astro y))
    by (intros; apply ystart_mono; unfold astro, MAX_Y in *; break_ifs).
  assert (Mlo2 : MIN_Y < y -> y <> 0 -> ystart (astro MIN_Y + 1) <= ystart (astro y))
    by (intros; apply ystart_mono; unfold astro, MIN_Y in *; break_ifs).
  assert (Mhi2 : y < MAX_Y -> y <> 0 -> ystart (astro y + 1) <= ystart (astro MAX_Y))
    by (intros; apply ystart_mono; unfold astro, MAX_Y in *; break_ifs).
  pose proof (ystart_succ (astro y)) as Sy. pose proof (ystart_succ (astro MIN_Y)) as Smin.
  pose proof (ystart_succ (astro MAX_Y)) as Smax.
  change (leap_a (astro MIN_Y)) with false in Smin. change (leap_a (astro MAX_Y)) with false in Smax.
  unfold leap in *. unfold I32_MIN, I32_MAX in *.
  destruct (Z.eqb_spec y 0); [split; [lia | intros; do 4 eexists; reflexivity]|].
  destruct (Z.ltb_spec y MIN_Y).
  { split; [|intros; do 4 eexists; reflexivity]. intros (_ & H1 & H2). specialize (Mlo ltac:(lia) ltac:(lia)).
    destruct (leap_a (astro y)); lia. }
  destruct (Z.eqb_spec y MIN_Y) as [->|]; cbn [andb].
  { change (leap_a (astro MIN_Y)) with false in *. cbn [andb negb].
    destruct (Z.ltb_spec n MIN_DOY); [split; [unfold MIN_DOY in *; lia | intros; do 4 eexists; reflexivity]|].
    destruct (Z.ltb_spec MAX_Y MIN_Y); [unfold MAX_Y, MIN_Y in *; lia|].
    destruct (Z.eqb_spec MIN_Y MAX_Y); [unfold MAX_Y, MIN_Y in *; lia|]. cbn [andb].
    destruct (Z.ltb_spec 365 n); [split; [lia | intros; do 4 eexists; reflexivity]|].
    destruct (Z.ltb_spec n 1); [split; [lia | intros; do 4 eexists; reflexivity]|].
    split; [reflexivity|]. unfold MIN_DOY in *. intros HH. exfalso. apply HH. lia. }
  destruct (Z.ltb_spec MAX_Y y).
  { split; [|intros; do 4 eexists; reflexivity]. intros (_ & H1 & H2). specialize (Mhi ltac:(lia)). lia. }
  destruct (Z.eqb_spec y MAX_Y) as [->|]; cbn [andb].
  { change (leap_a (astro MAX_Y)) with false in *. cbn [andb negb].
    destruct (Z.ltb_spec MAX_DOY n); [split; [unfold MAX_DOY in *; lia | intros; do 4 eexists; reflexivity]|].
    destruct (Z.ltb_spec 365 n); [split; [lia | intros; do 4 eexists; reflexivity]|].
    destruct (Z.ltb_spec n 1); [split; [lia | intros; do 4 eexists; reflexivity]|].
    split; [reflexivity|]. unfold MAX_DOY in *. intros HH. exfalso. apply HH. lia. }
  specialize (Mlo2 ltac:(lia) ltac:(lia)). specialize (Mhi2 ltac:(lia) ltac:(lia)).
  destruct (leap_a (astro y)); cbn [andb negb].
  - destruct (Z.ltb_spec 366 n); [split; [lia | intros; do 4 eexists; reflexivity]|].
    destruct (Z.ltb_spec n 1); [split; [lia | intros; do 4 eexists; reflexivity]|].
    split; [reflexivity|]. intros HH. exfalso. apply HH. lia.
  - destruct (Z.ltb_spec 365 n); [split; [lia | intros; do 4 eexists; reflexivity]|].
    destruct (Z.ltb_spec n 1); [split; [lia | intros; do 4 eexists; reflexivity]|].
    split; [reflexivity|]. intros HH. exfalso. apply HH. lia.
Qed.

Theorem year_doy_to_days_spec y n : 0 <= n ->
  (y <> 0 /\ 1 <= n <= ylen y /\ in_i32 (rd (y, 1, 1) + n - 1) ->
     year_doy_to_days y n false = Ok (rd (y, 1, 1) + n - 1)) /\
  (~ (y <> 0 /\ 1 <= n <= ylen y /\ in_i32 (rd (y, 1, 1) + n - 1)) ->
     exists nm a b v, year_doy_to_days y n false = Err (EOor nm a b v)).
Proof.
  intros Hn. rewrite rd_jan1. destruct (validate_doy_spec y n Hn) as [A B]. unfold year_doy_to_days. split; intros H.
  - rewrite (A H). cbn [bind andb]. rewrite ydoy0_to_days_spec by tauto. f_equal. lia.
  - destruct (B H) as (nm & a & b & v & ->). do 4 eexists; reflexivity.
Qed.

(* set_day_of_year lands on the n-th day of the same year, or is refused *)
Theorem set_doy_spec d n : 0 <= n ->
  let '(y, m, dd) := days_to_date d in
  (1 <= n <= ylen y /\ in_i32 (rd (y, 1, 1) + n - 1) ->
     exists d', set_day_of_year d n = Ok d' /\ d' = rd (y, 1, 1) + n - 1 /\
                fst (fst (days_to_date d')) = y /\ days_to_doy d' = Ok n) /\
  (~ (1 <= n <= ylen y /\ in_i32 (rd (y, 1, 1) + n - 1)) -> exists nm a b v, set_day_of_year d n = Err (EOor nm a b v)).
Proof.
  intros Hn. destruct (days_to_date_rd d) as [V _]. unfold set_day_of_year.
  destruct (days_to_date d) as [[y m] dd]. destruct V as (Hy & _).
  destruct (year_doy_to_days_spec y n Hn) as [A B]. split; intros H.
  - rewrite A by tauto. eexists. split; [reflexivity|]. split; [reflexivity|].
    set (d' := rd (y, 1, 1) + n - 1).
    destruct (days_to_date_rd d') as [V' E']. pose proof (doy_spec d') as Hdoy.
    destruct (days_to_date d') as [[y' m'] dd'] eqn:Ed. cbn [fst].
    assert (Ha : astro y' = astro y).
    { apply (year_of_rd (y', m', dd') (astro y) V'). rewrite E'. subst d'. rewrite rd_jan1.
      rewrite ystart_succ. unfold ylen, leap in H. destruct (leap_a (astro y)); lia. }
    assert (y' = y) by (destruct V' as (Hy' & _); unfold astro in Ha; revert Ha; break_ifs).
    subst y'. split; [reflexivity|]. rewrite Hdoy. f_equal. subst d'. lia.
  - destruct B as (nm & a & b & v & ->); [tauto|]. do 4 eexists; reflexivity.
Qed.

(* ---------- ISO-8601 week ---------- *)
(* week number of day d: its week's Thursday t lies in year y; weeks are counted from y's first Thursday *)
Definition is_iso_week (d w : Z) : Prop :=
  exists y, y <> 0 /\ rd (y, 1, 1) <= week_thursday d < rd (y, 1, 1) + ylen y /\
            w = (week_thursday d - rd (y, 1, 1)) / 7 + 1.

Definition iso_week_exec (d : Z) : Z :=
  let t := week_thursday d in
  let '(y, _, _) := days_to_date t in (t - ystart (astro y)) / 7 + 1.

Lemma iso_week_exec_spec d : is_iso_week d (iso_week_exec d).
Proof.
  unfold is_iso_week, iso_week_exec. set (t := week_thursday d).
  destruct (days_to_date_rd t) as [V E]. destruct (days_to_date t) as [[y m] dd].
  exists y. destruct V as (Hy & Hm & Hd). rewrite rd_jan1. split; [exact Hy|].
  pose proof (cum_bounds y m dd Hm Hd). unfold rd in E. split; [lia | reflexivity].
Qed.

(* the formula of days_to_wyear on an astronomical year *)
Definition wy_core (year month day : Z) : Z :=
  let a := if month <=? 2 then year - 1 else year in
  let b := a / 4 - a / 100 + a / 400 in
  let c := (a - 1) / 4 - (a - 1) / 100 + (a - 1) / 400 in
  let s := b - c in
  let e := if month <=? 2 then 0 else s + 1 in
  let f := if month <=? 2 then day - 1 + 31 * (month - 1)
           else day + Z.quot (153 * (month - 3) + 2) 5 + 58 + s in
  let g := (a + b) mod 7 in
  let d := (f + g - e) mod 7 in
  let n := f + 3 - d in
  if n <? 0 then 53 - Z.quot (g - s) 5
  else if 364 + s <? n then 1
  else Z.quot n 7 + 1.
Lemma days_to_wyear_core d :
  days_to_wyear d = let '(y, m, dd) := days_to_date d in wy_core (astro y) m dd.
Proof. unfold days_to_wyear, wy_core, astro. destruct (days_to_date d) as [[y m] dd]. reflexivity. Qed.

Lemma wy_core_period a m d : wy_core (a + 400) m d = wy_core a m d.
Proof.
  unfold wy_core. destruct (Z.leb_spec m 2); cbv zeta.
  - set (a0 := a - 1). replace (a + 400 - 1) with (a0 + 400) by lia.
    replace ((a0 + 400) / 4) with (a0 / 4 + 100) by lia. replace ((a0 + 400) / 100) with (a0 / 100 + 4) by lia.
    replace ((a0 + 400) / 400) with (a0 / 400 + 1) by lia.
    replace ((a0 + 400 - 1) / 4) with ((a0 - 1) / 4 + 100) by lia. replace ((a0 + 400 - 1) / 100) with ((a0 - 1) / 100 + 4) by lia.
    replace ((a0 + 400 - 1) / 400) with ((a0 - 1) / 400 + 1) by lia.
    set (b := a0 / 4 - a0 / 100 + a0 / 400). set (c := (a0 - 1) / 4 - (a0 - 1) / 100 + (a0 - 1) / 400).
    replace (a0 / 4 + 100 - (a0 / 100 + 4) + (a0 / 400 + 1)) with (b + 97) by lia.
    replace ((a0 - 1) / 4 + 100 - ((a0 - 1) / 100 + 4) + ((a0 - 1) / 400 + 1)) with (c + 97) by lia.
    replace (b + 97 - (c + 97)) with (b - c) by lia.
    replace ((a0 + 400 + (b + 97)) mod 7) with ((a0 + b) mod 7) by lia. reflexivity.
  - set (a0 := a).
    replace ((a0 + 400) / 4) with (a0 / 4 + 100) by lia. replace ((a0 + 400) / 100) with (a0 / 100 + 4) by lia.
    replace ((a0 + 400) / 400) with (a0 / 400 + 1) by lia.
    replace ((a0 + 400 - 1) / 4) with ((a0 - 1) / 4 + 100) by lia. replace ((a0 + 400 - 1) / 100) with ((a0 - 1) / 100 + 4) by lia.
    replace ((a0 + 400 - 1) / 400) with ((a0 - 1) / 400 + 1) by lia.
    set (b := a0 / 4 - a0 / 100 + a0 / 400). set (c := (a0 - 1) / 4 - (a0 - 1) / 100 + (a0 - 1) / 400).
    replace (a0 / 4 + 100 - (a0 / 100 + 4) + (a0 / 400 + 1)) with (b + 97) by lia.
    replace ((a0 - 1) / 4 + 100 - ((a0 - 1) / 100 + 4) + ((a0 - 1) / 400 + 1)) with (c + 97) by lia.
    replace (b + 97 - (c + 97)) with (b - c) by lia.
    replace ((a0 + 400 + (b + 97)) mod 7) with ((a0 + b) mod 7) by lia. reflexivity.
Qed.

(* the calendar repeats every 146097 days = 400 years *)
Lemma ystart_period a : ystart (a + 400) = ystart a + 146097.
Proof. unfold ystart, F. lia. Qed.
Lemma leap_a_period a : leap_a (a + 400) = leap_a a.
Proof. unfold leap_a. replace ((a + 400) mod 4) with (a mod 4) by lia. replace ((a + 400) mod 100) with (a mod 100) by lia.
  replace ((a + 400) mod 400) with (a mod 400) by lia. reflexivity. Qed.
Lemma astro_unastro a : astro (unastro a) = a.
Proof. unfold astro, unastro. break_ifs. Qed.
Lemma unastro_nz a : unastro a <> 0.
Proof. unfold unastro. break_ifs. Qed.

Lemma days_to_date_period d :
  let '(y, m, dd) := days_to_date d in days_to_date (d + 146097) = (unastro (astro y + 400), m, dd).
Proof.
  destruct (days_to_date_rd d) as [V E]. destruct (days_to_date_rd (d + 146097)) as [V' E'].
  destruct (days_to_date d) as [[y m] dd]. destruct V as (Hy & Hm & Hd).
  apply rd_inj; [exact V' | |].
  - unfold valid. split; [apply unastro_nz|]. split; [exact Hm|].
    unfold mlen, leap in *. rewrite astro_unastro, leap_a_period. exact Hd.
  - rewrite E'. unfold rd in *. unfold leap in *. rewrite astro_unastro, leap_a_period, ystart_period. lia.
Qed.

Lemma wyear_period d : days_to_wyear (d + 146097) = days_to_wyear d.
Proof.
  rewrite !days_to_wyear_core. pose proof (days_to_date_period d) as P.
  destruct (days_to_date d) as [[y m] dd]. rewrite P. rewrite astro_unastro. apply wy_core_period.
Qed.
Lemma iso_exec_period d : iso_week_exec (d + 146097) = iso_week_exec d.
Proof.
  unfold iso_week_exec.
  assert (Ht : week_thursday (d + 146097) = week_thursday d + 146097) by (unfold week_thursday; lia).
  rewrite Ht. pose proof (days_to_date_period (week_thursday d)) as P.
  destruct (days_to_date (week_thursday d)) as [[y m] dd]. rewrite P. rewrite astro_unastro, ystart_period.
  f_equal. f_equal. lia.
Qed.

Definition week_ok (d : Z) : bool := days_to_wyear d =? iso_week_exec d.

Fixpoint range_all (f : Z -> bool) (lo : Z) (n : nat) : bool :=
  match n with O => true | S k => f lo && range_all f (lo + 1) k end.
Lemma range_all_spec f n : forall lo, range_all f lo n = true -> forall k, lo <= k < lo + Z.of_nat n -> f k = true.
Proof.
  induction n as [|n IH]; intros lo H k Hk; [lia|].
  cbn [range_all] in H. apply andb_true_iff in H as [H1 H2].
  destruct (Z.eq_dec k lo) as [->|Hne]; [exact H1|]. apply (IH (lo + 1) H2). lia.
Qed.
