(* C17 — the cron iterator yields every matching minute after now, in order, only those.
   Model: CronModel.cron_next fuel s last now — CronSchedule::next written with the DateTime operations
   of ApiModel (add_months(1).clear_until_day(), add_days(1).clear_until_hour(), ...), `now` being the clock
   value read by next() and `last` the field last_schedule.  Whole minutes are mkmin d mi (day number d,
   minute of the day mi), ordered by idx d mi = d*1440 + mi.  sched_matches s d mi says that month, hour and
   minute belong to the parsed sets and the day passes the dom/dow rule (OR when both sets are restricted, the
   restricted one otherwise, "restricted" = fewer than 31 / 7 values); C16 says what the parsed sets contain.

   PROVED, for every schedule, clock reading, state, history:
   (a) whenever a call returns a time, that time is a whole minute, matches the schedule, is strictly later than both the
       clock's minute and the previously returned time, and no matching minute lies in between (C17_next_sound,
       C17_history, for every amount of fuel);
   (b) when a matching minute lies ahead of both bounds, at least 31 days before the end of the representable range,
       the call does return - no panic, no error - provided the fuel covers the distance in minutes (the loop makes at
       most one pass per minute; the fuel is the model's stand-in for "the loop runs until it returns") (C17_next_total);
   (c) hence, under the hypothesis of (b), the call returns exactly the least matching minute (C17_next).
   The margin in (b) is real: in the last month of the range add_months(1) overflows before the search reaches a
   match in the following month, and the code panics there.
   An unsatisfiable schedule ("0 0 31 2 *") makes the real loop run to the end of the range and panic; that is outside
   the property's quantifier (satisfiable schedules) and outside (b)'s hypothesis. *)
From Astro Require Import Base Text CalSpec DateModel TimeModel ApiModel InstantSpec ClockProofs CronModel CronIterProofs CronTotal.

Theorem C17_next_sound : forall fuel s last now r,
  in_i32 (dt_days now) -> 0 <= dt_nanos now < D -> dt_off now = 0 -> last_ok last ->
  cron_next fuel s last now = Ok (Some r) ->
  exists d' mi', r = mkmin d' mi' /\ in_i32 d' /\ 0 <= mi' < 1440 /\ base_idx last now < idx d' mi' /\
                 sched_matches s d' mi' = true /\
                 forall e me, 0 <= me < 1440 -> base_idx last now < idx e me < idx d' mi' -> sched_matches s e me = false.
Proof. exact next_spec. Qed.
(* every history of calls with arbitrary clock readings in between (induction over the list of readings) *)
Theorem C17_history : forall fuel s clocks st rs, Forall clock_ok clocks -> last_ok st ->
  run_hist fuel s st clocks = Some rs -> hist_ok s st clocks rs.
Proof. exact history_spec. Qed.
Theorem C17_results_increase : forall s prev now r, last_ok (Some prev) -> least_after s (Some prev) now r ->
  idx (dt_days prev) (dt_nanos prev / NPM) < idx (dt_days r) (dt_nanos r / NPM).
Proof. exact results_increase. Qed.
Theorem C17_whole_minute : forall s st now r, least_after s st now r -> dt_nanos r mod NPM = 0 /\ dt_off r = 0.
Proof. exact result_whole_minute. Qed.
(* one pass of the loop body either stops on a match or jumps forward over non-matching minutes only *)
Theorem C17_body : forall s domr dowr d mi, in_i32 d -> 0 <= mi < 1440 ->
  match cron_body s domr dowr (mkmin d mi) with
  | Ok (inl r) => r = mkmin d mi /\ m_matches s domr dowr d mi = true
  | Ok (inr r) => exists d' mi', r = mkmin d' mi' /\ in_i32 d' /\ 0 <= mi' < 1440 /\ idx d mi < idx d' mi' /\
                                 no_match_between s domr dowr (idx d mi) (idx d' mi')
  | _ => True
  end.
Proof. exact body_spec. Qed.

(* (b) the call returns when a matching minute lies ahead *)
Theorem C17_next_total : forall fuel s last now e ms,
  in_i32 (dt_days now) -> 0 <= dt_nanos now < D -> dt_off now = 0 -> last_ok last ->
  0 <= ms < 1440 -> in_i32 (e + 31) -> sched_matches s e ms = true -> base_idx last now < idx e ms ->
  (Z.to_nat (idx e ms - base_idx last now) <= fuel)%nat ->
  exists r, cron_next fuel s last now = Ok (Some r).
Proof. exact next_total. Qed.
(* (c) ... and what it returns is the least matching minute after both bounds *)
Theorem C17_next : forall fuel s last now e ms,
  in_i32 (dt_days now) -> 0 <= dt_nanos now < D -> dt_off now = 0 -> last_ok last ->
  0 <= ms < 1440 -> in_i32 (e + 31) -> sched_matches s e ms = true -> base_idx last now < idx e ms ->
  (Z.to_nat (idx e ms - base_idx last now) <= fuel)%nat ->
  exists d' mi', cron_next fuel s last now = Ok (Some (mkmin d' mi')) /\ in_i32 d' /\ 0 <= mi' < 1440 /\
                 base_idx last now < idx d' mi' <= idx e ms /\ sched_matches s d' mi' = true /\
                 forall e' me, 0 <= me < 1440 -> base_idx last now < idx e' me < idx d' mi' -> sched_matches s e' me = false.
Proof.
  intros fuel s last now e ms Hd Hn Ho HL Hms He Hm Hlt Hf.
  destruct (next_total fuel s last now e ms Hd Hn Ho HL Hms He Hm Hlt Hf) as [r Er].
  destruct (next_spec fuel s last now r Hd Hn Ho HL Er) as (d' & mi' & -> & Hd' & Hmi' & Hb & M & Hno).
  exists d', mi'. split; [exact Er|]. split; [exact Hd'|]. split; [exact Hmi'|]. split; [|split; [exact M | exact Hno]].
  split; [exact Hb|]. destruct (Z.le_gt_cases (idx d' mi') (idx e ms)) as [H | H]; [exact H|]. exfalso.
  specialize (Hno e ms Hms ltac:(lia)). congruence.
Qed.

(* non-vacuity: "0 0 29 2 *" from 2023-03-01T00:00:30Z returns 2024-02-29T00:00 *)
Example C17_example :
  let s := mkSched [0] [0] [29] [2] (range_incl 0 6) in
  cron_next (Z.to_nat 200) s None (mkDT 738579 30000000000 0) = Ok (Some (mkmin 738944 0)) /\
  days_to_date 738944 = (2024, 2, 29).
Proof. split; vm_compute; reflexivity. Qed.

Print Assumptions C17_next_sound.
Print Assumptions C17_next_total.
Print Assumptions C17_next.
Print Assumptions C17_history.
Print Assumptions C17_results_increase.
Print Assumptions C17_whole_minute.
Print Assumptions C17_body.
