(* TzLayout.v — C18, byte level, the general layout: version-1 files (32-bit block, no footer) and version 2/3 files with
   an arbitrary version-1 block in front and arbitrary leap-second / standard-wall / UT-local sections (which the
   reader skips by their declared sizes). *)
From Astro Require Import Base Text DateModel TimeModel ApiModel TzModel TzCodec.

Record sections := mkSec { s_leap : Z; s_leapb : bytes; s_stdb : bytes; s_utb : bytes }.
Record content := mkContent { c_trans : list (Z * Z); c_types : list Z; c_chars : bytes; c_sec : sections }.
Definition tsz (ver : version) : Z := match ver with V1 => 4 | _ => 8 end.
Definition enc_time (ver : version) (t : Z) : bytes := match ver with V1 => enc_i32 t | _ => enc_i64 t end.
Definition enc_block (ver : version) (c : content) : bytes :=
  concat (map (fun tr => enc_time ver (fst tr)) (c_trans c)) ++ map snd (c_trans c) ++ concat (map enc_ltype (c_types c)) ++ c_chars c
  ++ s_leapb (c_sec c) ++ s_stdb (c_sec c) ++ s_utb (c_sec c).
Definition hdr_rec (hv : version) (c : content) : header :=
  mkHeader hv (Z.of_nat (length (s_utb (c_sec c)))) (Z.of_nat (length (s_stdb (c_sec c)))) (s_leap (c_sec c))
           (Z.of_nat (length (c_trans c))) (Z.of_nat (length (c_types c))) (Z.of_nat (length (c_chars c))).
Definition enc_hdr (hv : version) (c : content) : bytes :=
  enc_header hv (Z.of_nat (length (s_utb (c_sec c)))) (Z.of_nat (length (s_stdb (c_sec c)))) (s_leap (c_sec c))
             (Z.of_nat (length (c_trans c))) (Z.of_nat (length (c_types c))) (Z.of_nat (length (c_chars c))).
Definition content_ok (ver : version) (c : content) : Prop :=
  u32ok (Z.of_nat (length (c_trans c))) /\ u32ok (Z.of_nat (length (c_types c))) /\ u32ok (Z.of_nat (length (c_chars c))) /\
  u32ok (s_leap (c_sec c)) /\ Z.of_nat (length (s_leapb (c_sec c))) = s_leap (c_sec c) * (tsz ver + 4) /\
  u32ok (Z.of_nat (length (s_stdb (c_sec c)))) /\ u32ok (Z.of_nat (length (s_utb (c_sec c)))).

Lemma enc_time_len ver t : length (enc_time ver t) = Z.to_nat (tsz ver).
Proof. destruct ver; unfold enc_time, enc_i32, enc_i64; rewrite be_enc_length; reflexivity. Qed.

Lemma parse_header_hdr hv c ver rest : content_ok ver c -> parse_header (enc_hdr hv c ++ rest) = TzOk (hdr_rec hv c, rest).
Proof. intros (H1 & H2 & H3 & H4 & _ & H6 & H7). unfold enc_hdr, hdr_rec. apply parse_header_enc; assumption. Qed.

Lemma parse_block_gen hv ver c rest : content_ok ver c ->
  parse_data_block (enc_block ver c ++ rest) (hdr_rec hv c) ver
  = TzOk (mkBlock (tsz ver) (concat (map (fun tr => enc_time ver (fst tr)) (c_trans c))) (map snd (c_trans c)) (concat (map enc_ltype (c_types c))), rest).
Proof.
  intros (H1 & H2 & H3 & H4 & H5 & H6 & H7). unfold parse_data_block, enc_block, hdr_rec. cbn [h_trans h_types h_chars h_leap h_isstd h_isut].
  fold (tsz ver). rewrite <- !app_assoc.
  rewrite (read_exact_n (Z.of_nat (length (c_trans c)) * tsz ver)).
  2:{ rewrite (concat_length_const (Z.to_nat (tsz ver))) by (apply forall_map_len; intros; apply enc_time_len). rewrite map_length. destruct ver; cbn [tsz]; lia. }
  cbn [tzbind]. rewrite (read_exact_n (Z.of_nat (length (c_trans c)))) by (rewrite map_length; reflexivity). cbn [tzbind].
  rewrite (read_exact_n (Z.of_nat (length (c_types c)) * 6)).
  2:{ rewrite (concat_length_const 6) by (apply forall_map_len; intros; apply enc_ltype_len). rewrite map_length. lia. }
  cbn [tzbind]. rewrite (read_exact_n (Z.of_nat (length (c_chars c)))) by reflexivity. cbn [tzbind].
  rewrite (read_exact_n (s_leap (c_sec c) * (tsz ver + 4))) by exact H5. cbn [tzbind].
  rewrite (read_exact_n (Z.of_nat (length (s_stdb (c_sec c))))) by reflexivity. cbn [tzbind].
  rewrite (read_exact_n (Z.of_nat (length (s_utb (c_sec c))))) by reflexivity. cbn [tzbind]. reflexivity.
Qed.

Definition enc_time_ok (ver : version) (t : Z) : Prop := match ver with V1 => in_i32 t | _ => in_i64 t end.
Lemma times_decode ver (trans : list (Z * Z)) : Forall (fun tr => enc_time_ok ver (fst tr)) trans ->
  map (fun c => match ver with V1 => be_i32 c | _ => be_i64 c end)
      (chunks (Z.to_nat (tsz ver)) (concat (map (fun tr => enc_time ver (fst tr)) trans)) (length (concat (map (fun tr => enc_time ver (fst tr)) trans))))
  = map fst trans.
Proof.
  intros Ht. rewrite chunks_concat; [| destruct ver; cbn; lia | apply forall_map_len; intros; apply enc_time_len |].
  - rewrite map_map. apply map_ext_in. intros tr Hin. rewrite Forall_forall in Ht. specialize (Ht tr Hin).
    destruct ver; cbn [enc_time enc_time_ok] in *; [apply dec_i32 | apply dec_i64 | apply dec_i64]; exact Ht.
  - rewrite (concat_length_const (Z.to_nat (tsz ver))) by (apply forall_map_len; intros; apply enc_time_len). rewrite map_length. destruct ver; cbn; lia.
Qed.
Lemma types_decode (types : list Z) : Forall in_i32 types ->
  map (fun c => be_i32 (firstn 4 c)) (chunks 6 (concat (map enc_ltype types)) (length (concat (map enc_ltype types)))) = types.
Proof.
  intros Hy. rewrite chunks_concat; [| lia | apply forall_map_len; intros; apply enc_ltype_len |].
  - rewrite map_map. rewrite <- (map_id types) at 2. apply map_ext_in. intros u Hin. unfold enc_ltype.
    rewrite firstn_app, (firstn_all2 (enc_i32 u)) by (unfold enc_i32; rewrite be_enc_length; lia).
    unfold enc_i32 at 2. rewrite be_enc_length. cbn [Nat.sub firstn]. rewrite app_nil_r. apply dec_i32. rewrite Forall_forall in Hy. apply Hy, Hin.
  - rewrite (concat_length_const 6) by (apply forall_map_len; intros; apply enc_ltype_len). rewrite map_length. lia.
Qed.

(* ---------- version 1: header, 32-bit block, no footer (whatever follows is ignored) ---------- *)
Definition enc_file_v1 (c : content) (trailing : bytes) : bytes := enc_hdr V1 c ++ enc_block V1 c ++ trailing.
Theorem from_tzif_v1 c trailing : content_ok V1 c -> Forall (fun tr => in_i32 (fst tr)) (c_trans c) -> Forall in_i32 (c_types c) ->
  from_tzif (enc_file_v1 c trailing) =
  (if existsb (fun tr => Z.of_nat (length (c_types c)) <=? snd tr) (c_trans c) || (match c_types c with [] => true | _ => false end)
   then TzErr else TzOk (mkTz (c_trans c) (c_types c) None)).
Proof.
  intros Hc Ht Hy. unfold from_tzif, enc_file_v1.
  rewrite (parse_header_hdr V1 c V1 _ Hc). cbn [tzbind]. unfold hdr_rec at 1. cbn [h_ver].
  rewrite (parse_block_gen V1 V1 c trailing Hc). cbn [tzbind b_time_size b_times b_ttypes b_ltypes h_ver hdr_rec tsz].
  pose proof (times_decode V1 (c_trans c) Ht) as Et. cbn [tsz] in Et.
  change (fun c0 : bytes => be_i32 c0) with be_i32 in *.
  rewrite Et, zip_fst_snd, (types_decode _ Hy). rewrite andb_true_r. reflexivity.
Qed.

(* ---------- version 2 / 3: any version-1 block, then the 64-bit block with any skipped sections, then the footer ---------- *)
Definition enc_file_gen (v : version) (c1 c : content) (footer : bytes) : bytes :=
  enc_hdr v c1 ++ enc_block V1 c1 ++ enc_hdr v c ++ enc_block v c ++ footer.
Theorem from_tzif_gen v c1 c footer : v <> V1 -> content_ok V1 c1 -> content_ok v c ->
  Forall (fun tr => in_i64 (fst tr)) (c_trans c) -> Forall in_i32 (c_types c) ->
  from_tzif (enc_file_gen v c1 c footer) =
  (let! rule := from_tz_string footer (match v with V3 => true | _ => false end) in
   if existsb (fun tr => Z.of_nat (length (c_types c)) <=? snd tr) (c_trans c)
      || ((match c_types c with [] => true | _ => false end) && (match rule with None => true | _ => false end))
   then TzErr else TzOk (mkTz (c_trans c) (c_types c) rule)).
Proof.
  intros Hv Hc1 Hc Ht Hy. unfold from_tzif, enc_file_gen.
  rewrite (parse_header_hdr v c1 V1 _ Hc1). cbn [tzbind]. change (h_ver (hdr_rec v c1)) with v.
  assert (Et : map (fun c0 => match v with V1 => be_i32 c0 | _ => be_i64 c0 end)
      (chunks (Z.to_nat (tsz v)) (concat (map (fun tr => enc_time v (fst tr)) (c_trans c))) (length (concat (map (fun tr => enc_time v (fst tr)) (c_trans c))))) = map fst (c_trans c)).
  { apply times_decode. destruct v; [contradiction | exact Ht | exact Ht]. }
  pose proof (parse_block_gen v V1 c1 (enc_hdr v c ++ enc_block v c ++ footer) Hc1) as PB1.
  pose proof (parse_header_hdr v c v (enc_block v c ++ footer) Hc) as PH2.
  pose proof (parse_block_gen v v c footer Hc) as PB2.
  destruct v; [contradiction | |];
    (rewrite PB1; cbn [tzbind]; rewrite PH2; cbn [tzbind];
     match goal with |- context [h_ver (hdr_rec ?x c)] => change (h_ver (hdr_rec x c)) with x end;
     rewrite PB2; cbn [tzbind b_time_size b_times b_ttypes b_ltypes tsz];
     cbn [tsz] in Et; cbn [h_ver hdr_rec]; rewrite Et, zip_fst_snd, (types_decode _ Hy); reflexivity).
Qed.
