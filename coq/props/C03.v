(* C03 — Unix timestamps and ordering are a faithful linear time line. *)
From Astro Require Import Base DateModel TimeModel ApiModel InstantSpec TimeProofs SinceSign SinceTime SinceTimeSign.

(* in-range timestamp: DateTime round trip, exact instant, UTC offset *)
Theorem C03_ts_dt : forall t, ts_in_range t ->
  exists v, dt_from_timestamp false t = Ok v /\ Inv_dt v /\ dt_timestamp v = t /\
            instant v = (t + EPOCH_SECS) * NANOS_PER_SEC /\ dt_off v = 0.
Proof. exact c03_ts_dt. Qed.
(* out-of-range i64 timestamp: panic, with overflow checks (rel = false) and with wrapping (rel = true) *)
Theorem C03_ts_dt_panic : forall rel t, in_i64 t -> ~ ts_in_range t -> dt_from_timestamp rel t = Panic.
Proof. exact c03_ts_dt_panic. Qed.
(* Date: floor to the day *)
Theorem C03_ts_date : forall t, ts_in_range t ->
  date_from_timestamp t = Ok ((t + EPOCH_SECS) / SECS_PER_DAY) /\
  date_timestamp ((t + EPOCH_SECS) / SECS_PER_DAY) = t / SECS_PER_DAY * SECS_PER_DAY.
Proof. exact c03_ts_date. Qed.
Theorem C03_ts_date_panic : forall t, in_i64 t -> ~ ts_in_range t -> date_from_timestamp t = Panic.
Proof. exact c03_ts_date_panic. Qed.
Theorem C03_epoch : dt_from_timestamp false 0 = Ok (mkDT 719162 0 0) /\ date_from_timestamp 0 = Ok 719162 /\
  days_to_date 719162 = (1970, 1, 1) /\ dt_as_hms (mkDT 719162 0 0) = (0, 0, 0).
Proof. exact c03_epoch. Qed.
(* ==, <, cmp on DateTime are those of the UTC instants whatever the offsets *)
Theorem C03_cmp : forall a b, dt_cmp a b = Z.compare (instant a) (instant b) /\ dt_eqb a b = (instant a =? instant b).
Proof. exact c03_cmp. Qed.
(* order agrees with the sign of every *_since difference (nanosecond difference shown; the other units are C06) *)
Theorem C03_cmp_since : forall a b, Inv_dt a -> Inv_dt b -> dt_nanos_since a b = instant a - instant b.
Proof. exact c06_nanos. Qed.

(* order agrees with the sign of every *_since difference: a positive difference in any unit means a > b, a negative one
   a < b, and equal instants give 0 in every unit *)
Theorem C03_order_since : forall a b, Inv_dt a -> Inv_dt b ->
  forall s, In s [dt_hours_since a b; dt_minutes_since a b; dt_seconds_since a b; dt_millis_since a b; dt_micros_since a b;
                  dt_nanos_since a b; dt_days_since a b] ->
  (0 < s -> dt_cmp a b = Gt) /\ (s < 0 -> dt_cmp a b = Lt) /\ (dt_cmp a b = Eq -> s = 0).
Proof. exact c03_order_since. Qed.
(* the same for two Times (ordered by their stored times of day, whatever offsets they carry) *)
Theorem C03_time_order_since : forall a b, Inv_tm a -> Inv_tm b ->
  forall s, In s [time_hours_since a b; time_minutes_since a b; time_seconds_since a b; time_millis_since a b;
                  time_micros_since a b; time_nanos_since a b] ->
  (0 < s -> tm_nanos b < tm_nanos a) /\ (s < 0 -> tm_nanos a < tm_nanos b) /\ (tm_nanos a = tm_nanos b -> s = 0).
Proof. exact c03_time_order_since. Qed.

Example C03_nonvacuous : ts_in_range (-62135596801) /\ ~ ts_in_range 185480451590400 /\ in_i64 185480451590400.
Proof. unfold ts_in_range, in_i64, EPOCH_SECS, DAYS_TO_1970, SECS_PER_DAY, I32_MIN, I32_MAX, I64_MIN, I64_MAX. lia. Qed.

Print Assumptions C03_ts_dt.
Print Assumptions C03_ts_dt_panic.
Print Assumptions C03_ts_date.
Print Assumptions C03_ts_date_panic.
Print Assumptions C03_epoch.
Print Assumptions C03_cmp.
Print Assumptions C03_cmp_since.
Print Assumptions C03_order_since.
Print Assumptions C03_time_order_since.
