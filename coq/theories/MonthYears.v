(* C07, last sentence for years_since: antisymmetric and monotone for all pairs (corollaries of the
   months_since theorems through truncated division by 12). *)
From Coq Require Import ZArith Lia.
From Astro Require Import Base CalSpec DateModel DateProofs MonthProofs.
Local Open Scope Z_scope.

Lemma years_antisym : forall d1 n1 d2 n2, years_between d1 n1 d2 n2 = - years_between d2 n2 d1 n1.
Proof.
  intros d1 n1 d2 n2. rewrite !years_def, (months_antisym d1 n1 d2 n2).
  rewrite Z.quot_opp_l by lia. reflexivity.
Qed.

Lemma quot12_mono : forall a b, a <= b -> Z.quot a 12 <= Z.quot b 12.
Proof. intros a b H. apply Z.quot_le_mono; lia. Qed.

Lemma years_mono : forall d1 n1 d1' n1' d2 n2, dn_le (d1, n1) (d1', n1') ->
  years_between d1 n1 d2 n2 <= years_between d1' n1' d2 n2.
Proof.
  intros d1 n1 d1' n1' d2 n2 H. rewrite !years_def. apply quot12_mono, months_mono, H.
Qed.

(* years_since counts whole years: for a >= b (b's day <= 28), with y = years_since, 12 y <= months_since < 12 (y+1) *)
Lemma years_bracket : forall d1 n1 d2 n2, 0 <= months_between d1 n1 d2 n2 ->
  let y := years_between d1 n1 d2 n2 in
  0 <= y /\ 12 * y <= months_between d1 n1 d2 n2 < 12 * (y + 1).
Proof.
  intros d1 n1 d2 n2 H y. subst y. rewrite years_def.
  set (m := months_between d1 n1 d2 n2) in *.
  rewrite Z.quot_div_nonneg by lia.
  pose proof (Z.div_mod m 12 ltac:(lia)). pose proof (Z.mod_pos_bound m 12 ltac:(lia)).
  pose proof (Z.div_pos m 12 H ltac:(lia)). lia.
Qed.
