(* CronModel.v — Gallina transcription of src/cron.rs: expression parsing and the iterator step.
   HashSet<u8> is modelled by the list of inserted values; only membership and cardinality are used. *)
From Astro Require Import Base Text DateModel TimeModel ApiModel.

Inductive cron_type := CNumeric | CMonth | CDayOfWeek.

Definition is_numeric_char (c : Z) : bool :=
  is_ascii_digit c || (c =? 42) || (c =? 44) || (c =? 45) || (c =? 47).     (* digit * , - / *)
Definition is_numeric_part (s : text) : bool := forallb is_numeric_char s.

Definition s_ (l : list nat) : text := map Z.of_nat l.
(* "jan".."dec", "sun".."sat" *)
Definition MONTH_NAMES : list text :=
  map s_ [[106;97;110]; [102;101;98]; [109;97;114]; [97;112;114]; [109;97;121]; [106;117;110];
          [106;117;108]; [97;117;103]; [115;101;112]; [111;99;116]; [110;111;118]; [100;101;99]]%nat.
Definition DOW_NAMES : list text :=
  map s_ [[115;117;110]; [109;111;110]; [116;117;101]; [119;101;100]; [116;104;117]; [102;114;105]; [115;97;116]]%nat.
Fixpoint index_of (names : list text) (s : text) (i : Z) : option Z :=
  match names with [] => None | n :: tl => if text_eqb n s then Some i else index_of tl s (i + 1) end.

(* Err carries no payload here: every failure of the cron parser surfaces as InvalidFormat *)
Definition parse_value (value : text) (ty : cron_type) : option Z :=
  match ty with
  | CMonth => if negb (is_numeric_part value)
              then match index_of MONTH_NAMES (lowercase (lowercase value)) 0 with Some i => Some (i + 1) | None => None end
              else parse_unsigned 255 value
  | CDayOfWeek => if negb (is_numeric_part value) then index_of DOW_NAMES (lowercase (lowercase value)) 0
                  else parse_unsigned 255 value
  | CNumeric => parse_unsigned 255 value
  end.

(* min..=max as a list *)
Fixpoint range_from (lo : Z) (n : nat) : list Z := match n with O => [] | S k => lo :: range_from (lo + 1) k end.
Definition range_incl (lo hi : Z) : list Z := range_from lo (Z.to_nat (hi - lo + 1)).
(* (min..=max).step_by(step) *)
Definition step_values (lo hi step : Z) : list Z := filter (fun v => (v - lo) mod step =? 0) (range_incl lo hi).

Definition parse_item (part : text) (mn mx : Z) (ty : cron_type) : option (list Z) :=
  let is_dow := match ty with CDayOfWeek => true | _ => false end in
  let upper := if is_dow then 7 else mx in
  let normalize (v : Z) := if is_dow && (v =? 7) then 0 else v in
  if text_eqb part [42] then Some (range_incl mn mx)
  else match strip_prefix [42; 47] part with
  | Some step =>
      if starts_with [43] step then None else
      match parse_unsigned 255 step with
      | None => None
      | Some st => if st =? 0 then None else Some (step_values mn mx st)
      end
  | None =>
      if contains 45 part then
        match split_on 45 part with
        | start :: rest =>
            match start with [] => None | _ =>
            match parse_value start ty with None => None | Some a =>
            let e := match rest with e :: _ => e | [] => [] end in
            match e with [] => None | _ =>
            match parse_value e ty with None => None | Some b =>
            if (match rest with _ :: _ :: _ => true | _ => false end) then None
            else if b <? a then None
            else if (a <? mn) || (upper <? b) then None
            else Some (map normalize (range_incl a b))
            end end end end
        | [] => None
        end
      else
        match parse_value part ty with
        | None => None
        | Some v => if (v <? mn) || (upper <? v) then None else Some [normalize v]
        end
  end.

Fixpoint parse_items (parts : list text) (mn mx : Z) (ty : cron_type) : option (list Z) :=
  match parts with
  | [] => Some []
  | p :: tl => match parse_item p mn mx ty with
               | None => None
               | Some vs => match parse_items tl mn mx ty with None => None | Some ws => Some (vs ++ ws) end
               end
  end.

Definition parse_cron_part (field : text) (mn mx : Z) (ty : cron_type) : option (list Z) :=
  if (match ty with CNumeric => true | _ => false end) && negb (is_numeric_part field) then None
  else parse_items (split_on 44 field) mn mx ty.

Record sched := mkSched { s_min : list Z; s_hour : list Z; s_dom : list Z; s_mon : list Z; s_dow : list Z }.

Definition parse_expression (expr : text) : option sched :=
  match split_whitespace expr with
  | [f0; f1; f2; f3; f4] =>
      match parse_cron_part f0 0 59 CNumeric with None => None | Some a =>
      match parse_cron_part f1 0 23 CNumeric with None => None | Some b =>
      match parse_cron_part f2 1 31 CNumeric with None => None | Some c =>
      match parse_cron_part f3 1 12 CMonth with None => None | Some d =>
      match parse_cron_part f4 0 6 CDayOfWeek with None => None | Some e =>
      Some (mkSched a b c d e) end end end end end
  | _ => None
  end.

(* canonical form of a value set: ascending, duplicate-free *)
Definition mem (v : Z) (l : list Z) : bool := existsb (Z.eqb v) l.
Definition canon (lo hi : Z) (l : list Z) : list Z := filter (fun v => mem v l) (range_incl lo hi).
Definition card (lo hi : Z) (l : list Z) : Z := Z.of_nat (length (canon lo hi l)).

(* ---------- the iterator: CronSchedule::next ---------- *)
Definition contains_v (l : list Z) (v : Z) : bool := mem v l.

(* one pass of the `loop { ... }` body: either the search is over (inl) or it continues from a later time (inr) *)
Definition cron_body (s : sched) (dom_restricted dow_restricted : bool) (next : DT) : res (DT + DT) :=
  let? month := dt_month next in
  if negb (contains_v (s_mon s) (wrap_u8 month)) then
    let? a := dt_add_months next 1 in let? b := dt_clear_until_day a in Ok (inr b)
  else
  let? day_of_month := dt_day next in
  let? day_of_week := dt_weekday next in
  let dom_in := contains_v (s_dom s) (wrap_u8 day_of_month) in
  let dow_in := contains_v (s_dow s) day_of_week in
  if (dom_restricted && dow_restricted && negb dom_in && negb dow_in)
     || (dom_restricted && negb dow_restricted && negb dom_in)
     || (dow_restricted && negb dom_restricted && negb dow_in) then
    let? a := dt_add_days next 1 in let? b := dt_clear_until_hour a in Ok (inr b)
  else
  let? hour := dt_hour next in
  if negb (contains_v (s_hour s) (wrap_u8 hour)) then
    let? a := dt_add UHour next 1 in let? b := dt_clear_until_minute a in Ok (inr b)
  else
  let? minute := dt_minute next in
  if negb (contains_v (s_min s) (wrap_u8 minute)) then
    let? a := dt_add UMinute next 1 in let? b := dt_clear_until_second a in Ok (inr b)
  else Ok (inl next).

Fixpoint cron_loop (fuel : nat) (s : sched) (domr dowr : bool) (next : DT) : res (option DT) :=
  match fuel with
  | O => Ok None                         (* out of fuel: excluded by every theorem *)
  | S k => let? r := cron_body s domr dowr next in
           match r with inl found => Ok (Some found) | inr later => cron_loop k s domr dowr later end
  end.

(* state = last_schedule; now = the clock value read by next() *)
Definition cron_next (fuel : nat) (s : sched) (last_schedule : option DT) (now0 : DT) : res (option DT) :=
  let? now := dt_clear_until_second now0 in
  let last := match last_schedule with
              | Some l => if dt_as_nanos now <=? dt_as_nanos l then l else now
              | None => now end in
  let? next := dt_add UMinute last 1 in
  let dom_restricted := negb (card 1 31 (s_dom s) =? 31) in
  let dow_restricted := negb (card 0 6 (s_dow s) =? 7) in
  cron_loop fuel s dom_restricted dow_restricted next.
