(* C11 — format renders every documented symbol exactly as the documented table says.
   Specification (PatternSpec): a pattern is a list of items — PField sym w (a run of w copies of a format symbol),
   PLit c k (a run of any other character), PQuoted txt ('...' with apostrophes inside doubled), PApos k (k escaped
   apostrophes '' outside quotes) —, unparse prints the pattern text, render_field is the documented symbol table as
   data (numeric fields zero-padded to the stated width, English name tables, over-long runs fall back to the default
   width), render concatenates the items' renderings in order.  ValueFields.fields_of_day says what a value shows
   (year/month/day of the local day number: C01; day of year, weekday, ISO week: C02; clock fields of the local time).
   Model (FormatModel): parse_format_string (replace "''" by NUL, run-length tokenizer with quote state) and the
   three format() methods through format_date_part / format_time_part / format_zone / format_period / unquote_part.
   PROVED, for every value, every offset and every item list of the grammar wf_items (the grammar the harness
   generates from: each item well formed; adjacent runs differ in their character; quoted texts and escaped-apostrophe
   items are separated by runs; a quoted text contains a character other than an apostrophe):
   the output is Ok and equals the concatenation, in order, of the items rendered by the table - nothing else.
   The proof goes through the normal form swf (a quoted text starts with a character other than an apostrophe, its
   leading apostrophes being written as an escaped-apostrophes item in front: same pattern text, same rendering -
   C11_normal_form), the tokenizer theorem on swf and the per-symbol table theorems. *)
From Astro Require Import Base Text CalSpec DateModel TimeModel ApiModel InstantSpec FormatModel ParseModel PatternSpec
  ValueFields TextProofs PatternProofs.

Theorem C11_date : forall d items, wf_items items = true ->
  date_format d (unparse items) = Ok (render 0 (fields_of_day d 0 0) items).
Proof. exact date_format_wf. Qed.
Theorem C11_time : forall t items, Inv_tm t -> wf_items items = true ->
  time_format t (unparse items) =
  Ok (render 1 (fields_of_day 0 ((tm_nanos t + tm_off t * NANOS_PER_SEC) mod NANOS_PER_DAY) (tm_off t)) items).
Proof. exact time_format_wf. Qed.
Theorem C11_datetime : forall v items, Inv_dt v /\ inst_in_range (local_instant v) -> wf_items items = true ->
  dt_format v (unparse items) =
  Ok (render 2 (fields_of_day (local_instant v / NANOS_PER_DAY) (local_instant v mod NANOS_PER_DAY) (dt_off v)) items).
Proof. exact dt_format_wf. Qed.

(* the two halves, usable on their own *)
(* tokenizer: the parts of the printed pattern are the items' parts (escaped apostrophes as NUL) *)
Theorem C11_tokenizer : forall items, swf None items = true -> parse_format_string (unparse items) = map part_of items.
Proof. exact tokenizer_items. Qed.
(* table: every symbol x every width >= 1, for every day number / every time of day and offset *)
Theorem C11_date_symbols : forall F d c w, date_fields_agree F d -> 1 <= w -> is_date_sym c = true ->
  format_date_part (repeat_c c (Z.to_nat w)) d = Ok (render_field F c w).
Proof. exact date_field_render. Qed.
Theorem C11_time_symbols : forall F n off c w, time_fields_agree F n off -> 1 <= w -> is_time_sym c = true ->
  format_time_part (repeat_c c (Z.to_nat w)) n off = Ok (render_field F c w).
Proof. exact time_field_render. Qed.
Theorem C11_normal_form : forall items, wf_items items = true ->
  swf None (norm items) = true /\ unparse (norm items) = unparse items /\ forall kind F, render kind F (norm items) = render kind F items.
Proof. exact wf_swf_norm. Qed.

(* non-vacuity: yyyy-MM-dd'T'HH:mm ''xxx'' with a quoted text, escaped apostrophes and an over-long run (wwwww) *)
Definition ex_items : list pitem :=
  [PField 121 4; PLit 45 1; PField 77 2; PLit 45 1; PField 100 2; PQuoted [84]; PField 72 2; PLit 58 1; PField 109 2; PLit 32 1;
   PApos 1; PField 120 3; PApos 1; PLit 32 1; PField 119 5].
Example C11_example :
  wf_items ex_items = true /\ swf None ex_items = true /\ wf_items [PLit 45 1; PQuoted [39; 39; 84; 39]; PField 72 2] = true /\
  unparse ex_items = [121;121;121;121;45;77;77;45;100;100;39;84;39;72;72;58;109;109;32;39;39;120;120;120;39;39;32;119;119;119;119;119] /\
  render 2 (fields_of_day 738000 (13 * 3600000000000 + 5 * 60000000000) (-1800)) ex_items
    = [50;48;50;49;45;48;55;45;51;48;84;49;51;58;48;53;32;39;45;48;48;58;51;48;39;32;51;48].
Proof. repeat split; vm_compute; reflexivity. Qed.

Print Assumptions C11_date.
Print Assumptions C11_time.
Print Assumptions C11_datetime.
Print Assumptions C11_tokenizer.
Print Assumptions C11_date_symbols.
Print Assumptions C11_time_symbols.
Print Assumptions C11_normal_form.
