(* Text.v — Rust strings as lists of Unicode scalar values, with the std operations the
   modelled code relies on (each restated here; the harness validates the tables against std). *)
From Astro Require Import Base.

Definition text := list Z.

Definition is_ascii_digit (c : Z) : bool := (48 <=? c) && (c <=? 57).
Definition is_ascii_upper (c : Z) : bool := (65 <=? c) && (c <=? 90).
Definition is_ascii_lower (c : Z) : bool := (97 <=? c) && (c <=? 122).
Definition is_ascii_alpha (c : Z) : bool := is_ascii_upper c || is_ascii_lower c.
(* char::is_whitespace = Unicode White_Space *)
Definition is_whitespace (c : Z) : bool :=
  ((9 <=? c) && (c <=? 13)) || (c =? 32) || (c =? 133) || (c =? 160) || (c =? 5760)
  || ((8192 <=? c) && (c <=? 8202)) || (c =? 8232) || (c =? 8233) || (c =? 8239) || (c =? 8287) || (c =? 12288).
(* str::to_lowercase restricted to what the cron parser can observe: ASCII letters are lower-cased; every other
   scalar is left alone (no other scalar lower-cases into a string of ASCII letters that occurs in a name: the only
   non-ASCII scalar whose lower case is an ASCII letter is U+212A KELVIN SIGN -> k, and no name contains k) *)
Definition to_lower (c : Z) : Z := if is_ascii_upper c then c + 32 else c.
Definition lowercase (s : text) : text := map to_lower s.

Fixpoint text_eqb (a b : text) : bool :=
  match a, b with
  | [], [] => true
  | x :: a', y :: b' => (x =? y) && text_eqb a' b'
  | _, _ => false
  end.

(* str::split(c): always at least one piece *)
Fixpoint split_on (c : Z) (s : text) : list text :=
  match s with
  | [] => [[]]
  | x :: tl => if x =? c then [] :: split_on c tl
               else match split_on c tl with
                    | p :: ps => (x :: p) :: ps
                    | [] => [[x]]
                    end
  end.
(* str::split_whitespace: maximal runs of non-white-space *)
Fixpoint split_ws_aux (s : text) (cur : text) : list text :=
  match s with
  | [] => if match cur with [] => true | _ => false end then [] else [rev cur]
  | x :: tl => if is_whitespace x
               then (if match cur with [] => true | _ => false end then split_ws_aux tl [] else rev cur :: split_ws_aux tl [])
               else split_ws_aux tl (x :: cur)
  end.
Definition split_whitespace (s : text) : list text := split_ws_aux s [].

(* decimal value of a digit string *)
Fixpoint digits_val_aux (s : text) (acc : Z) : Z :=
  match s with [] => acc | c :: tl => digits_val_aux tl (acc * 10 + (c - 48)) end.
Definition digits_val (s : text) : Z := digits_val_aux s 0.
Definition all_digits (s : text) : bool := forallb is_ascii_digit s.
(* <unsigned int>::from_str with maximum mx: optional leading '+', at least one digit, no overflow *)
Definition parse_unsigned (mx : Z) (s : text) : option Z :=
  let body := match s with c :: tl => if c =? 43 then tl else s | [] => s end in
  match body with
  | [] => None
  | _ => if all_digits body then (let v := digits_val body in if v <=? mx then Some v else None) else None
  end.
(* <signed int>::from_str within [mn, mx]: optional leading '+' or '-' *)
Definition parse_signed (mn mx : Z) (s : text) : option Z :=
  match s with
  | c :: tl => if c =? 45
               then match tl with [] => None | _ => if all_digits tl then (let v := - digits_val tl in if mn <=? v then Some v else None) else None end
               else parse_unsigned mx s
  | [] => parse_unsigned mx s
  end.

Definition starts_with (p s : text) : bool := text_eqb p (firstn (length p) s).
Definition strip_prefix (p s : text) : option text := if starts_with p s then Some (skipn (length p) s) else None.
Definition contains (c : Z) (s : text) : bool := existsb (Z.eqb c) s.

(* UTF-8 length of a scalar value and of a string (str::len) *)
Definition utf8_len (c : Z) : Z := if c <? 128 then 1 else if c <? 2048 then 2 else if c <? 65536 then 3 else 4.
Definition byte_len (s : text) : Z := fold_right (fun c acc => utf8_len c + acc) 0 s.
Definition char_count (s : text) : Z := Z.of_nat (length s).
(* &s[0..n] / replace_range(0..n, ""): split at byte offset n; None (panic) unless n is a char boundary within s *)
Fixpoint byte_split (n : Z) (s : text) : option (text * text) :=
  if n =? 0 then Some ([], s)
  else match s with
       | [] => None
       | c :: tl => if n <? utf8_len c then None
                    else match byte_split (n - utf8_len c) tl with
                         | Some (a, b) => Some (c :: a, b)
                         | None => None end
       end.
