"""Per-property configuration of ./check."""

TB_COMMON = [
    "Coq 8.16.1 kernel (coqc) incl. vm_compute; no native_compute",
    "hand-written Gallina model of the Rust source (coq/theories/*Model.v)",
    "correspondence check: Rust harness (/verif/harness, dev+release profiles) + model evaluated by vm_compute on the same inputs",
    "specification files coq/theories/*Spec.v",
    "rustc 1.95 / cargo, std::panic::catch_unwind, derived Debug output used to read private fields",
]
ASSUME_COMMON = [
    "the theorem is about the hand-written model; the model is tied to /repo by differential execution on this run's inputs, bounded by the generator",
    "intermediate i64/i128 arithmetic that provably stays far inside its type is modelled in Z (see DESIGN.md section 9)",
]

PROPS = {
    "C01": dict(
        cases_mod="CasesC01", check_fn="check_C01",
        rule="boundary day numbers (range ends, era boundary, 1 Jan/28-29 Feb/1 Mar/31 Dec of years -402..402, 1599..2401 and the years nearest both ends) + uniformly random i32 days, each observed through from_timestamp -> as_ymd -> from_ymd and for d+1; plus (year, month, day) triples from a boundary product and random draws. A case counts as non-trivial when it is a day-number case, or a triple with day >= 28, year 0, or a year within 611 of the range ends; distinct = distinct input encodings.",
        explanation="Theorems C01_* (props/C01.v) hold for every integer day number / every triple; the figures below describe the differential run that ties the model to the code.",
        trusted_base=TB_COMMON, assumptions=ASSUME_COMMON,
    ),
}
