#!/bin/sh
# Builds the whole framework offline: Coq development (full .vo build) and the Rust harness in both profiles.
set -e
cd "$(dirname "$0")"
mkdir -p .cache evidence replays
( cd coq && coq_makefile -f _CoqProject -o Makefile >/dev/null && timeout 3000 make -j16 )
export CARGO_NET_OFFLINE=true CARGO_TARGET_DIR="$PWD/.cache/target"
export RUSTFLAGS="-A dead_code -A unused"
( cd harness && cargo build --offline -q && cargo build --offline -q --release )
echo setup ok
