#!/bin/bash
# usage: seed_verify.sh <seed-id> <property> [extra check ids...]
# Confirms a seeded change in its scratch worktree (/tmp/wt_<seed-id>), then runs ./check against it applied to /repo.
set -u
ID=$1; PROP=$2; shift 2; EXTRA="$@"
WT=${WT_PREFIX:-/tmp/wt_}$ID; OUT=${OUT_PREFIX:-/tmp/seed_out}/$ID; DEST=/verif/seeded/$ID${DEST_SUFFIX:-}
mkdir -p $DEST
cd $WT || exit 2
git diff -- src > $DEST/patch.diff
cp tests/seed_demo.rs $DEST/seed_demo.rs 2>/dev/null || cp $OUT/seed_demo.rs $DEST/seed_demo.rs
cp $OUT/notes.md $DEST/agent_notes.md 2>/dev/null
FL=""; grep -q verif_hooks tests/seed_demo.rs 2>/dev/null && FL="astrolabe_verif"
grep -q serde tests/seed_demo.rs 2>/dev/null && FL="$FL serde"
FEAT=""; [ -n "$FL" ] && FEAT="--features \"$FL\""
echo "== with change: full suite"
eval cargo test --offline --no-fail-fast $FEAT 2>&1 | grep -E "^test result|Running|FAILED|failed" > $DEST/with_change.txt
SUITE_FAIL=$(grep -B1 "FAILED\|[1-9][0-9]* failed" $DEST/with_change.txt | grep "Running" | grep -v seed_demo | wc -l)
DEMO_FAIL_WITH=$(eval cargo test --offline $FEAT --test seed_demo 2>&1 | grep -c "test result: FAILED")
# (not git stash: the stash stack is shared by all worktrees of the repository)
git apply -R $DEST/patch.diff
DEMO_PASS_WITHOUT=$(eval cargo test --offline $FEAT --test seed_demo 2>&1 | grep -c "test result: ok")
git apply $DEST/patch.diff
echo "suite targets failing (other than demo): $SUITE_FAIL ; demo fails with change: $DEMO_FAIL_WITH ; demo passes without: $DEMO_PASS_WITHOUT"
cd /repo && git apply $DEST/patch.diff || { echo "patch does not apply to /repo"; exit 3; }
RES=""
for P in $PROP $EXTRA; do
  # the evidence file describes the unchanged tree: keep it, do not leave the seeded run's evidence behind
  cp /verif/evidence/$P.json $DEST/.evidence_$P.bak 2>/dev/null
  cd /verif && ./check $P --tier quick > $DEST/check_$P.log 2>&1; RC=$?
  mv $DEST/.evidence_$P.bak /verif/evidence/$P.json 2>/dev/null
  V=$(grep -c "^VIOLATION" $DEST/check_$P.log)
  RES="$RES $P:rc=$RC,violations=$V"
  grep "^VIOLATION" $DEST/check_$P.log | head -2
done
cd /repo && git checkout -- . && git status --short | head -3
echo "RESULT $ID suite_fail=$SUITE_FAIL demo_fail_with=$DEMO_FAIL_WITH demo_pass_without=$DEMO_PASS_WITHOUT checks:$RES"
