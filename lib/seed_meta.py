#!/usr/bin/env python3
"""Writes /verif/seeded/<id>/meta.json from a RESULT line of seed_verify.sh and the agent's notes."""
import sys, json, re, os
line = sys.argv[1]
needs = sys.argv[2] if len(sys.argv) > 2 else ""
m = re.match(r"RESULT (\S+) suite_fail=(\d+) demo_fail_with=(\d+) demo_pass_without=(\d+) checks:(.*)", line)
sid, sf, dfw, dpw, checks = m.groups()
d = "/verif/seeded/%s%s" % (sid, os.environ.get("DEST_SUFFIX", ""))
res = {}
for c in checks.split():
    p, r = c.split(":")
    rc, v = re.match(r"rc=(\d+),violations=(\d+)", r).groups()
    res[p] = {"exit": int(rc), "violation_lines": int(v), "caught": int(rc) == 1 and int(v) > 0}
notes = open(os.path.join(d, "agent_notes.md")).read() if os.path.exists(os.path.join(d, "agent_notes.md")) else ""
meta = {
 "seed_id": sid, "breaks_property": sorted(res)[0] if len(res) == 1 else list(res),
 "needs_to_manifest": needs,
 "confirmed_in_scratch_worktree": {"existing_suite_targets_failing_with_change": int(sf), "demo_fails_with_change": bool(int(dfw)), "demo_passes_without_change": bool(int(dpw))},
 "commands_run": ["cd /tmp/wt_%s && cargo test --offline --no-fail-fast   # with change: suite passes, tests/seed_demo.rs fails" % sid,
                  "git stash push -- src && cargo test --offline --test seed_demo && git stash pop   # without change: demo passes",
                  "git -C /repo apply seeded/%s/patch.diff && ./check <property> --tier quick ; git -C /repo checkout -- ." % sid],
 "check_results": res,
 "agent_notes": notes,
}
json.dump(meta, open(os.path.join(d, "meta.json"), "w"), indent=1)
print(sid, {k: v["caught"] for k, v in res.items()})
