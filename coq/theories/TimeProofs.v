(* TimeProofs.v — instants, timestamps, unit arithmetic and differences (C03, C04, C06, C08, C10). *)
From Astro Require Import Base DateModel TimeModel ApiModel InstantSpec.

Ltac unfold_consts := unfold NANOS_PER_DAY, NANOS_PER_SEC, NANOS_PER_HOUR, NANOS_PER_MINUTE, SECS_PER_DAY,
  DAYS_TO_1970, I32_MIN, I32_MAX, I64_MIN, I64_MAX, U32_MAX, U64_MAX in *.

Lemma days_nanos_to_nanos_spec d n : days_nanos_to_nanos d n = d * NANOS_PER_DAY + n.
Proof. unfold days_nanos_to_nanos. break_ifs. Qed.

Lemma dt_as_nanos_instant v : dt_as_nanos v = instant v.
Proof. apply days_nanos_to_nanos_spec. Qed.

Lemma nanos_to_days_nanos_ok t : inst_in_range t ->
  nanos_to_days_nanos t = Ok (t / NANOS_PER_DAY, t mod NANOS_PER_DAY).
Proof.
  unfold inst_in_range, MIN_I, MAX_I, nanos_to_days_nanos. intros H. cbv zeta.
  unfold in_i32b. unfold_consts.
  set (dn := Z.abs t mod 86400000000000).
  assert (Hq : (if (t <? 0) && negb (dn =? 0) then t ÷ 86400000000000 - 1 else t ÷ 86400000000000) = t / 86400000000000).
  { subst dn. destruct (Z.ltb_spec t 0); cbn [andb].
    - destruct (Z.eqb_spec (Z.abs t mod 86400000000000) 0); cbn [negb]; lia.
    - lia. }
  rewrite Hq.
  replace ((-2147483648 <=? t / 86400000000000) && (t / 86400000000000 <=? 2147483647)) with true by lia.
  f_equal. f_equal. subst dn. destruct (Z.ltb_spec t 0); cbn [andb].
  - destruct (Z.eqb_spec (Z.abs t mod 86400000000000) 0); cbn [negb]; lia.
  - lia.
Qed.

Lemma nanos_to_days_nanos_err t : ~ inst_in_range t -> exists e, nanos_to_days_nanos t = Err e.
Proof.
  unfold inst_in_range, MIN_I, MAX_I, nanos_to_days_nanos. intros H. cbv zeta.
  unfold in_i32b. unfold_consts.
  set (dn := Z.abs t mod 86400000000000).
  assert (Hq : (if (t <? 0) && negb (dn =? 0) then t ÷ 86400000000000 - 1 else t ÷ 86400000000000) = t / 86400000000000).
  { subst dn. destruct (Z.ltb_spec t 0); cbn [andb].
    - destruct (Z.eqb_spec (Z.abs t mod 86400000000000) 0); cbn [negb]; lia.
    - lia. }
  rewrite Hq.
  replace ((-2147483648 <=? t / 86400000000000) && (t / 86400000000000 <=? 2147483647)) with false by lia.
  eexists; reflexivity.
Qed.

Lemma secs_to_days_nanos_ok s :
  I32_MIN * SECS_PER_DAY <= s <= I32_MAX * SECS_PER_DAY + SECS_PER_DAY - 1 ->
  secs_to_days_nanos s = Ok (s / SECS_PER_DAY, (s mod SECS_PER_DAY) * NANOS_PER_SEC).
Proof.
  unfold secs_to_days_nanos. intros H. cbv zeta. unfold in_i32b. unfold_consts.
  set (ds := Z.abs s mod 86400).
  assert (Hq : (if (s <? 0) && negb (ds =? 0) then s ÷ 86400 - 1 else s ÷ 86400) = s / 86400).
  { subst ds. destruct (Z.ltb_spec s 0); cbn [andb].
    - destruct (Z.eqb_spec (Z.abs s mod 86400) 0); cbn [negb]; lia.
    - lia. }
  rewrite Hq.
  replace ((-2147483648 <=? s / 86400) && (s / 86400 <=? 2147483647)) with true by lia.
  f_equal. f_equal. f_equal. subst ds. destruct (Z.ltb_spec s 0); cbn [andb].
  - destruct (Z.eqb_spec (Z.abs s mod 86400) 0); cbn [negb]; lia.
  - lia.
Qed.

Lemma secs_to_days_nanos_err s :
  ~ (I32_MIN * SECS_PER_DAY <= s <= I32_MAX * SECS_PER_DAY + SECS_PER_DAY - 1) ->
  exists e, secs_to_days_nanos s = Err e.
Proof.
  unfold secs_to_days_nanos. intros H. cbv zeta. unfold in_i32b. unfold_consts.
  set (ds := Z.abs s mod 86400).
  assert (Hq : (if (s <? 0) && negb (ds =? 0) then s ÷ 86400 - 1 else s ÷ 86400) = s / 86400).
  { subst ds. destruct (Z.ltb_spec s 0); cbn [andb].
    - destruct (Z.eqb_spec (Z.abs s mod 86400) 0); cbn [negb]; lia.
    - lia. }
  rewrite Hq.
  replace ((-2147483648 <=? s / 86400) && (s / 86400 <=? 2147483647)) with false by lia.
  eexists; reflexivity.
Qed.

Lemma days_nanos_to_secs_spec d n : 0 <= n < NANOS_PER_DAY ->
  days_nanos_to_secs d n = d * SECS_PER_DAY + n / NANOS_PER_SEC.
Proof. unfold days_nanos_to_secs. unfold_consts. intros. break_ifs. Qed.

(* ---------- C03: timestamps ---------- *)
Theorem c03_ts_dt t : ts_in_range t ->
  exists v, dt_from_timestamp false t = Ok v /\ Inv_dt v /\ dt_timestamp v = t /\
            instant v = (t + EPOCH_SECS) * NANOS_PER_SEC /\ dt_off v = 0.
Proof.
  unfold ts_in_range, dt_from_timestamp, EPOCH_SECS. intros H.
  replace (in_i64b (t + DAYS_TO_1970 * SECS_PER_DAY)) with true
    by (unfold in_i64b; unfold_consts; lia).
  cbn [bind]. unfold dt_from_seconds. rewrite secs_to_days_nanos_ok by exact H. cbn [bind unwrap].
  eexists. split; [reflexivity|]. unfold Inv_dt, dt_timestamp, dt_as_seconds, instant, off_ok, in_i32. cbn [dt_days dt_nanos dt_off].
  rewrite days_nanos_to_secs_spec by (unfold_consts; lia).
  unfold_consts. repeat split; lia.
Qed.

Theorem c03_ts_dt_panic rel t : in_i64 t -> ~ ts_in_range t -> dt_from_timestamp rel t = Panic.
Proof.
  unfold ts_in_range, dt_from_timestamp, EPOCH_SECS, in_i64. intros Ht H.
  destruct (in_i64b (t + DAYS_TO_1970 * SECS_PER_DAY)) eqn:E.
  - cbn [bind]. unfold dt_from_seconds.
    destruct (secs_to_days_nanos_err _ H) as [e ->]. reflexivity.
  - destruct rel; [|reflexivity]. cbn [bind]. unfold dt_from_seconds.
    destruct (secs_to_days_nanos_err (wrap_i64 (t + DAYS_TO_1970 * SECS_PER_DAY))) as [e ->]; [|reflexivity].
    unfold in_i64b in E. unfold wrap_i64. unfold_consts. lia.
Qed.

Theorem c03_ts_date t : ts_in_range t ->
  date_from_timestamp t = Ok ((t + EPOCH_SECS) / SECS_PER_DAY) /\
  date_timestamp ((t + EPOCH_SECS) / SECS_PER_DAY) = t / SECS_PER_DAY * SECS_PER_DAY.
Proof.
  unfold ts_in_range, date_from_timestamp, date_timestamp, EPOCH_SECS. intros H. cbv zeta.
  assert (Hq : Z.quot t SECS_PER_DAY + DAYS_TO_1970 -
     (if (t <? 0) && negb (Z.abs t mod SECS_PER_DAY =? 0) then 1 else 0) = (t + DAYS_TO_1970 * SECS_PER_DAY) / SECS_PER_DAY).
  { unfold_consts. destruct (Z.ltb_spec t 0); cbn [andb].
    - destruct (Z.eqb_spec (Z.abs t mod 86400) 0); cbn [negb]; lia.
    - lia. }
  rewrite Hq. unfold in_i32b. unfold_consts.
  replace ((-2147483648 <=? (t + 719162 * 86400) / 86400) && ((t + 719162 * 86400) / 86400 <=? 2147483647)) with true by lia.
  split; [reflexivity | lia].
Qed.

Theorem c03_ts_date_panic t : in_i64 t -> ~ ts_in_range t -> date_from_timestamp t = Panic.
Proof.
  unfold ts_in_range, date_from_timestamp, EPOCH_SECS. intros _ H. cbv zeta.
  assert (Hq : Z.quot t SECS_PER_DAY + DAYS_TO_1970 -
     (if (t <? 0) && negb (Z.abs t mod SECS_PER_DAY =? 0) then 1 else 0) = (t + DAYS_TO_1970 * SECS_PER_DAY) / SECS_PER_DAY).
  { unfold_consts. destruct (Z.ltb_spec t 0); cbn [andb].
    - destruct (Z.eqb_spec (Z.abs t mod 86400) 0); cbn [negb]; lia.
    - lia. }
  rewrite Hq. unfold in_i32b. unfold_consts.
  replace ((-2147483648 <=? (t + 719162 * 86400) / 86400) && ((t + 719162 * 86400) / 86400 <=? 2147483647)) with false by lia.
  reflexivity.
Qed.

Theorem c03_epoch : dt_from_timestamp false 0 = Ok (mkDT 719162 0 0) /\ date_from_timestamp 0 = Ok 719162 /\
  days_to_date 719162 = (1970, 1, 1) /\ dt_as_hms (mkDT 719162 0 0) = (0, 0, 0).
Proof. repeat split; reflexivity. Qed.

(* ordering: Ord for DateTime is `as_nanos().cmp()`, for Time `nanoseconds.cmp()`, for Date derived on days *)
Definition dt_cmp (a b : DT) : comparison := Z.compare (dt_as_nanos a) (dt_as_nanos b).
Definition dt_eqb (a b : DT) : bool := dt_as_nanos a =? dt_as_nanos b.
Theorem c03_cmp a b : dt_cmp a b = Z.compare (instant a) (instant b) /\ dt_eqb a b = (instant a =? instant b).
Proof. unfold dt_cmp, dt_eqb. rewrite !dt_as_nanos_instant. split; reflexivity. Qed.

(* ---------- C04: moving an instant ---------- *)
Lemma dt_of_total_ok v t : inst_in_range t ->
  dt_of_total v t = Ok (mkDT (t / NANOS_PER_DAY) (t mod NANOS_PER_DAY) (dt_off v)).
Proof. intros H. unfold dt_of_total. rewrite nanos_to_days_nanos_ok by exact H. reflexivity. Qed.
Lemma dt_of_total_panic v t : ~ inst_in_range t -> dt_of_total v t = Panic.
Proof. intros H. unfold dt_of_total. destruct (nanos_to_days_nanos_err t H) as [e ->]. reflexivity. Qed.

Lemma split_instant t : inst_in_range t ->
  let v := mkDT (t / NANOS_PER_DAY) (t mod NANOS_PER_DAY) 0 in
  instant v = t /\ in_i32 (t / NANOS_PER_DAY) /\ 0 <= t mod NANOS_PER_DAY < NANOS_PER_DAY.
Proof. unfold inst_in_range, MIN_I, MAX_I, instant, in_i32. cbn [dt_days dt_nanos]. unfold_consts. lia. Qed.

(* the shape shared by every "move by an amount" operation *)
Definition moves_exactly (v : DT) (r : res DT) (t : Z) : Prop :=
  (inst_in_range t -> exists v', r = Ok v' /\ instant v' = t /\ dt_off v' = dt_off v /\ Inv_dt v') /\
  (~ inst_in_range t -> r = Panic).

Lemma moves_of_total v t : Inv_dt v -> moves_exactly v (dt_of_total v t) t.
Proof.
  intros (Hd & Hn & Ho). split; intros H.
  - rewrite dt_of_total_ok by exact H. eexists. split; [reflexivity|].
    destruct (split_instant t H) as (E & Hd' & Hn'). unfold instant, Inv_dt in *. cbn [dt_days dt_nanos dt_off] in *. tauto.
  - apply dt_of_total_panic; exact H.
Qed.

Theorem c04_add u v n : Inv_dt v -> moves_exactly v (dt_add u v n) (instant v + n * unit_nanos u).
Proof.
  intros I. unfold dt_add, add_units.
  replace (dt_days v * NANOS_PER_DAY + (dt_nanos v + n * unit_nanos u)) with (instant v + n * unit_nanos u)
    by (unfold instant; lia).
  apply moves_of_total; exact I.
Qed.
Theorem c04_sub u v n : Inv_dt v -> moves_exactly v (dt_sub u v n) (instant v - n * unit_nanos u).
Proof.
  intros I. unfold dt_sub, sub_units.
  replace (dt_days v * NANOS_PER_DAY + (dt_nanos v - n * unit_nanos u)) with (instant v - n * unit_nanos u)
    by (unfold instant; lia).
  apply moves_of_total; exact I.
Qed.
Theorem c04_add_amount v a : Inv_dt v -> moves_exactly v (dt_add_nanos_total v a) (instant v + a).
Proof. intros I. unfold dt_add_nanos_total. rewrite dt_as_nanos_instant. apply moves_of_total; exact I. Qed.
Theorem c04_sub_amount v a : Inv_dt v -> moves_exactly v (dt_sub_nanos_total v a) (instant v - a).
Proof. intros I. unfold dt_sub_nanos_total. rewrite dt_as_nanos_instant. apply moves_of_total; exact I. Qed.

Lemma day_shift_range v k : Inv_dt v ->
  (inst_in_range (instant v + k * NANOS_PER_DAY) <-> in_i32 (dt_days v + k)).
Proof.
  intros (Hd & Hn & _). unfold inst_in_range, MIN_I, MAX_I, instant, in_i32 in *. unfold_consts. lia.
Qed.

Theorem c04_add_days v n : Inv_dt v -> moves_exactly v (dt_add_days v n) (instant v + n * NANOS_PER_DAY).
Proof.
  intros I. pose proof (day_shift_range v n I) as R. destruct I as (Hd & Hn & Ho).
  unfold dt_add_days, dt_keep, add_days. split; intros H.
  - apply R in H. replace (in_i32b (dt_days v + n)) with true by (symmetry; apply in_i32b_iff; exact H).
    cbn [unwrap bind]. eexists. split; [reflexivity|].
    unfold instant, Inv_dt, in_i32, off_ok in *. cbn [dt_days dt_nanos dt_off]. repeat split; try tauto; lia.
  - assert (E : in_i32b (dt_days v + n) = false).
    { destruct (in_i32b (dt_days v + n)) eqn:E; [|reflexivity]. apply in_i32b_iff in E. tauto. }
    rewrite E. reflexivity.
Qed.
Theorem c04_sub_days v n : Inv_dt v -> moves_exactly v (dt_sub_days v n) (instant v - n * NANOS_PER_DAY).
Proof.
  intros I. pose proof (day_shift_range v (- n) I) as R. destruct I as (Hd & Hn & Ho).
  replace (instant v - n * NANOS_PER_DAY) with (instant v + - n * NANOS_PER_DAY) by lia.
  replace (dt_days v + - n) with (dt_days v - n) in R by lia.
  unfold dt_sub_days, dt_keep, sub_days. split; intros H.
  - apply R in H. replace (in_i32b (dt_days v - n)) with true by (symmetry; apply in_i32b_iff; exact H).
    cbn [unwrap bind]. eexists. split; [reflexivity|].
    unfold instant, Inv_dt, in_i32, off_ok in *. cbn [dt_days dt_nanos dt_off]. repeat split; try tauto; lia.
  - assert (E : in_i32b (dt_days v - n) = false).
    { destruct (in_i32b (dt_days v - n)) eqn:E; [|reflexivity]. apply in_i32b_iff in E. tauto. }
    rewrite E. reflexivity.
Qed.

(* Date: days move by n, or by the whole days contained in the Duration *)
Definition date_moves (r : res Z) (t : Z) : Prop :=
  (in_i32 t -> r = Ok t) /\ (~ in_i32 t -> r = Panic).
Lemma date_moves_chk t : date_moves (if in_i32b t then Ok t else Panic) t.
Proof.
  split; intros H.
  - replace (in_i32b t) with true by (symmetry; apply in_i32b_iff; exact H). reflexivity.
  - destruct (in_i32b t) eqn:E; [apply in_i32b_iff in E; tauto | reflexivity].
Qed.
Theorem c04_date_add_days d n : date_moves (date_add_days d n) (d + n).
Proof. unfold date_add_days, add_days. destruct (date_moves_chk (d + n)) as [A B].
  split; intros H; [specialize (A H) | specialize (B H)]; destruct (in_i32b (d + n)); cbn [unwrap]; congruence. Qed.
Theorem c04_date_sub_days d n : date_moves (date_sub_days d n) (d - n).
Proof. unfold date_sub_days, sub_days. destruct (date_moves_chk (d - n)) as [A B].
  split; intros H; [specialize (A H) | specialize (B H)]; destruct (in_i32b (d - n)); cbn [unwrap]; congruence. Qed.
Theorem c04_date_add_dur d secs : date_moves (date_add_dur d secs) (d + secs / SECS_PER_DAY).
Proof. unfold date_add_dur. apply date_moves_chk. Qed.
Theorem c04_date_sub_dur d secs : date_moves (date_sub_dur d secs) (d - secs / SECS_PER_DAY).
Proof. unfold date_sub_dur. apply date_moves_chk. Qed.

(* ---------- C06: differences truncate toward zero ---------- *)
Lemma nanos_to_time_spec n : 0 <= n < NANOS_PER_DAY ->
  nanos_to_time n = (n / NANOS_PER_HOUR, (n / NANOS_PER_MINUTE) mod 60, (n / NANOS_PER_SEC) mod 60).
Proof.
  intros H. unfold nanos_to_time, wrap_u32. unfold_consts.
  rewrite (Z.mod_small (n / 1000000000)) by lia.
  assert (E1 : n / 1000000000 / 3600 = n / 3600000000000) by lia.
  assert (E2 : (n / 1000000000 / 60) mod 60 = (n / 60000000000) mod 60) by lia.
  rewrite E1, E2. reflexivity.
Qed.

Ltac since_tac := intros; unfold since; unfold_consts; break_cmps.
Lemma since_hour A ra B rb : 0 <= ra < NANOS_PER_HOUR -> 0 <= rb < NANOS_PER_HOUR ->
  since A ra B rb = Z.quot ((A * NANOS_PER_HOUR + ra) - (B * NANOS_PER_HOUR + rb)) NANOS_PER_HOUR.
Proof. since_tac. Qed.
Lemma since_minute A ra B rb : 0 <= ra < NANOS_PER_MINUTE -> 0 <= rb < NANOS_PER_MINUTE ->
  since A ra B rb = Z.quot ((A * NANOS_PER_MINUTE + ra) - (B * NANOS_PER_MINUTE + rb)) NANOS_PER_MINUTE.
Proof. since_tac. Qed.
Lemma since_second A ra B rb : 0 <= ra < NANOS_PER_SEC -> 0 <= rb < NANOS_PER_SEC ->
  since A ra B rb = Z.quot ((A * NANOS_PER_SEC + ra) - (B * NANOS_PER_SEC + rb)) NANOS_PER_SEC.
Proof. since_tac. Qed.
Lemma since_milli A ra B rb : 0 <= ra < 1000000 -> 0 <= rb < 1000000 ->
  since A ra B rb = Z.quot ((A * 1000000 + ra) - (B * 1000000 + rb)) 1000000.
Proof. since_tac. Qed.
Lemma since_micro A ra B rb : 0 <= ra < 1000 -> 0 <= rb < 1000 ->
  since A ra B rb = Z.quot ((A * 1000 + ra) - (B * 1000 + rb)) 1000.
Proof. since_tac. Qed.

Lemma tot_hours v : Inv_dt v ->
  days_nanos_to_hours (dt_days v) (dt_nanos v) * NANOS_PER_HOUR + nanos_to_subhour_nanos (dt_nanos v) = instant v
  /\ 0 <= nanos_to_subhour_nanos (dt_nanos v) < NANOS_PER_HOUR.
Proof.
  intros (_ & Hn & _). unfold days_nanos_to_hours, nanos_to_subhour_nanos, instant.
  rewrite nanos_to_time_spec by exact Hn. cbn [fst]. unfold_consts. lia.
Qed.
Lemma tot_minutes v : Inv_dt v ->
  days_nanos_to_minutes (dt_days v) (dt_nanos v) * NANOS_PER_MINUTE + nanos_to_subminute_nanos (dt_nanos v) = instant v
  /\ 0 <= nanos_to_subminute_nanos (dt_nanos v) < NANOS_PER_MINUTE.
Proof.
  intros (_ & Hn & _). unfold days_nanos_to_minutes, nanos_to_subminute_nanos, instant.
  rewrite nanos_to_time_spec by exact Hn. unfold_consts. lia.
Qed.
Lemma tot_seconds v : Inv_dt v ->
  days_nanos_to_seconds (dt_days v) (dt_nanos v) * NANOS_PER_SEC + nanos_to_subsecond_nanos (dt_nanos v) = instant v
  /\ 0 <= nanos_to_subsecond_nanos (dt_nanos v) < NANOS_PER_SEC.
Proof.
  intros (_ & Hn & _). unfold days_nanos_to_seconds, nanos_to_subsecond_nanos, instant.
  rewrite nanos_to_time_spec by exact Hn. unfold_consts. lia.
Qed.
Lemma tot_millis v : Inv_dt v ->
  days_nanos_to_millis (dt_days v) (dt_nanos v) * 1000000 + nanos_to_submilli_nanos (dt_nanos v) = instant v
  /\ 0 <= nanos_to_submilli_nanos (dt_nanos v) < 1000000.
Proof.
  intros I. destruct (tot_seconds v I) as [E _]. destruct I as (_ & Hn & _).
  unfold days_nanos_to_millis, nanos_to_submilli_nanos, nanos_to_subsecond_nanos in *. unfold_consts. lia.
Qed.
Lemma tot_micros v : Inv_dt v ->
  days_nanos_to_micros (dt_days v) (dt_nanos v) * 1000 + nanos_to_submicro_nanos (dt_nanos v) = instant v
  /\ 0 <= nanos_to_submicro_nanos (dt_nanos v) < 1000.
Proof.
  intros I. destruct (tot_seconds v I) as [E _]. destruct I as (_ & Hn & _).
  unfold days_nanos_to_micros, nanos_to_submicro_nanos, nanos_to_subsecond_nanos in *. unfold_consts. lia.
Qed.

Theorem c06_hours a b (Ia : Inv_dt a) (Ib : Inv_dt b) : dt_hours_since a b = Z.quot (instant a - instant b) NANOS_PER_HOUR.
Proof.
  destruct (tot_hours a Ia) as [Ea Ra]. destruct (tot_hours b Ib) as [Eb Rb].
  unfold dt_hours_since. rewrite since_hour by assumption. rewrite Ea, Eb. reflexivity.
Qed.
Theorem c06_minutes a b (Ia : Inv_dt a) (Ib : Inv_dt b) : dt_minutes_since a b = Z.quot (instant a - instant b) NANOS_PER_MINUTE.
Proof.
  destruct (tot_minutes a Ia) as [Ea Ra]. destruct (tot_minutes b Ib) as [Eb Rb].
  unfold dt_minutes_since. rewrite since_minute by assumption. rewrite Ea, Eb. reflexivity.
Qed.
Theorem c06_seconds a b (Ia : Inv_dt a) (Ib : Inv_dt b) : dt_seconds_since a b = Z.quot (instant a - instant b) NANOS_PER_SEC.
Proof.
  destruct (tot_seconds a Ia) as [Ea Ra]. destruct (tot_seconds b Ib) as [Eb Rb].
  unfold dt_seconds_since. rewrite since_second by assumption. rewrite Ea, Eb. reflexivity.
Qed.
Theorem c06_millis a b (Ia : Inv_dt a) (Ib : Inv_dt b) : dt_millis_since a b = Z.quot (instant a - instant b) 1000000.
Proof.
  destruct (tot_millis a Ia) as [Ea Ra]. destruct (tot_millis b Ib) as [Eb Rb].
  unfold dt_millis_since. rewrite since_milli by assumption. rewrite Ea, Eb. reflexivity.
Qed.
Theorem c06_micros a b (Ia : Inv_dt a) (Ib : Inv_dt b) : dt_micros_since a b = Z.quot (instant a - instant b) 1000.
Proof.
  destruct (tot_micros a Ia) as [Ea Ra]. destruct (tot_micros b Ib) as [Eb Rb].
  unfold dt_micros_since. rewrite since_micro by assumption. rewrite Ea, Eb. reflexivity.
Qed.
Theorem c06_nanos a b (Ia : Inv_dt a) (Ib : Inv_dt b) : dt_nanos_since a b = instant a - instant b.
Proof. unfold dt_nanos_since. rewrite !dt_as_nanos_instant. reflexivity. Qed.
Theorem c06_days a b (Ia : Inv_dt a) (Ib : Inv_dt b) : dt_days_since a b = Z.quot (instant a - instant b) NANOS_PER_DAY.
Proof.
  destruct Ia as (_ & Ha & _), Ib as (_ & Hb & _).
  unfold dt_days_since, instant. unfold_consts. break_cmps.
Qed.
Theorem c06_duration_between a b (Ia : Inv_dt a) (Ib : Inv_dt b) :
  dt_duration_between a b = Z.abs (instant a - instant b).
Proof.
  destruct Ia as (_ & Ha & _), Ib as (_ & Hb & _).
  unfold dt_duration_between. rewrite !dt_as_nanos_instant. unfold instant. unfold_consts.
  destruct (Z.leb_spec (dt_days a * 86400000000000 + dt_nanos a) (dt_days b * 86400000000000 + dt_nanos b));
  cbv beta iota zeta; break_cmps.
Qed.

Theorem c06_antisym a b (Ia : Inv_dt a) (Ib : Inv_dt b) : dt_seconds_since a b = - dt_seconds_since b a.
Proof.
  rewrite c06_seconds, (c06_seconds b a) by assumption.
  replace (instant b - instant a) with (- (instant a - instant b)) by lia.
  rewrite Z.quot_opp_l by (unfold_consts; lia). lia.
Qed.

Theorem c06_inverts_add u v n v' : Inv_dt v -> 0 <= n -> dt_add u v n = Ok v' ->
  Z.quot (instant v' - instant v) (unit_nanos u) = n.
Proof.
  intros I Hn E. destruct (c04_add u v n I) as [A B].
  assert (R : inst_in_range (instant v + n * unit_nanos u)).
  { destruct (inst_in_rangeb (instant v + n * unit_nanos u)) eqn:Eb.
    - unfold inst_in_rangeb in Eb. unfold inst_in_range. lia.
    - assert (~ inst_in_range (instant v + n * unit_nanos u)) as Hn' by (unfold inst_in_rangeb in Eb; unfold inst_in_range; lia).
      rewrite (B Hn') in E. discriminate. }
  destruct (A R) as (v'' & E' & Hi & _). rewrite E in E'. injection E' as <-.
  rewrite Hi. replace (instant v + n * unit_nanos u - instant v) with (n * unit_nanos u) by lia.
  apply Z.quot_mul. destruct u; cbn; unfold_consts; lia.
Qed.
