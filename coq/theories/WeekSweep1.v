(* WeekSweep1.v — complete enumeration, inside the kernel, of days 18263 .. 36525 of the 400-year cycle. *)
From Astro Require Import Base CalSpec DateModel DateProofs WeekProofs.
Lemma week_sweep_1 : range_all week_ok 18263 (Z.to_nat 18263) = true.
Proof. vm_compute. reflexivity. Qed.
