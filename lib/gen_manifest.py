#!/usr/bin/env python3
"""Regenerates MANIFEST.json from the table below (kept in one place so it stays valid)."""
import json, os
ROOT = os.path.dirname(os.path.dirname(os.path.abspath(__file__)))
NOTE = ("Trusted: Coq 8.16.1 kernel + vm_compute; the hand-written Gallina model (coq/theories/*Model.v) and the specification files; "
        "the Rust harness, its generators and the derived-Debug reading of private fields. No axioms: Print Assumptions reports "
        "'Closed under the global context' for every theorem of the property file (checked on every run).")
TECH = "Coq proof about a hand-written model + model/implementation correspondence (differential run, model evaluated by vm_compute)"
CHECKS = {
 "C01": "Coq theorems (props/C01.v) for every integer day number and every (year, month, day) triple: days_to_date yields a valid in-range date, advances along the calendar successor (no year 0, Gregorian leap rule), round-trips through date_to_days, and date_to_days accepts exactly the valid in-range triples (Err OutOfRange otherwise, never Panic). Tied to /repo by a differential run on boundary-dense and random inputs in both build profiles.",
 "C03": "Coq theorems (props/C03.v) for every i64 timestamp: from_timestamp/timestamp round trip with the exact instant, floor to the day for Date, panic exactly outside the range (also under wrapping arithmetic); DateTime ==/</cmp are those of the UTC instants for all pairs and offsets. Tied to /repo by a differential run.",
 "C04": "Coq theorems (props/C04.v): for every DateTime satisfying the representation invariant, every count and each of the 7 units, add_/sub_ and +/- Duration, +/- Time return the value whose instant is exactly moved (offset kept) when representable and panic otherwise; Date +/- days and Durations likewise. Tied to /repo by a differential run in the dev (overflow-checked) and release (wrapping) profiles.",
 "C06": "Coq theorems (props/C06.v): for all pairs of DateTimes, <unit>_since equals the difference of the instants divided by the unit truncated toward zero (7 units), duration_between is the absolute difference; antisymmetry and inversion of add as corollaries. Tied to /repo by a differential run.",
 "C02": "Coq theorems (props/C02.v) for every integer day number: weekday anchored at Thursday 1970-01-01 and advancing by one mod 7; day of year = 1 + days since 1 January; format(w) equals the ISO-8601 week defined by the week's Thursday (complete in-kernel sweep of one 146097-day cycle, lifted to all days by a proved periodicity lemma); set_day_of_year lands on the n-th day of the same year or is refused. Tied to /repo by a differential run.",
 "C05": "Coq theorems (props/C05.v): for every day number and every count, add_/sub_months and add_/sub_years equal the month-index specification (same day of month, clamped to the target month's length, year -1 directly before year 1) when the target is in range and fail (API: panic) exactly otherwise; N years = 12N months. Tied to /repo by a differential run.",
 "C07": "Coq theorems (props/C07.v): for all pairs of (day, nanosecond) values, months_since is the unique n with b+n months <= a < b+(n+1) months when a >= b and b's day <= 28; years = months/12 truncated; both antisymmetric and monotone for all pairs. Tied to /repo by a differential run.",
 "C09": "Coq theorems (props/C09.v): for every DateTime/Time/Date, offset and candidate value, each of the 10 setters replaces exactly one local field (local day via the Date-level setter, local clock via the clock setter; everything else, read in local time, and the offset are stated unchanged) or passes an OutOfRange error through; the 9 clears leave the stated local fields and zero/minimise the rest. Tied to /repo by a differential run that re-reads all fields in local time.",
 "C10": "Coq theorems (props/C10.v): set_offset keeps days/nanoseconds (instant) and succeeds exactly when the local reading is representable; all getters read the instant shifted by the offset; as_offset moves the instant by minus the offset and makes the local reading equal the former UTC reading; Time analogues mod 24 h; Offset::from_seconds/from_hms accept exactly +-23:59:59 and resolve/resolve_hms return what was given. Tied to /repo by a differential run.",
 "C15": "Coq theorems (props/C15.v): from_ymd/from_ymdhms/from_hms/from_seconds/from_nanos/Offset constructors return Ok exactly on valid arguments (full u32/i32 domains) with the denoted value, otherwise an OutOfRange error whose range excludes the rejected value and contains every accepted value of that parameter; set_* never panic. Tied to /repo by a differential run comparing (name, min, max, value) of every error with the model.",
 "C16": "Coq theorems (props/C16.v): for every text, CronSchedule::parse succeeds exactly when the documented grammar recogniser (CronSpec.cron_spec) accepts it, and then each of the five value sets contains, over the field's range, precisely the values the items denote (*/n from the field minimum, names case-insensitively, weekday 7 = Sunday also inside ranges); otherwise it fails with InvalidFormat. Tied to /repo by a differential run over grammar-generated expressions and their single-edit mutations, sets read from Debug.",
 "C17": "Model of CronSchedule::next written with the same DateTime operations as the code (proved in C04/C05/C09) and compared with /repo under a pinned clock (hook H1) on histories of calls; every observed result is additionally checked inside Coq to be the least matching minute after max(clock, previous result) by an independent day-level oracle built from the C16 specification. Theorems in props/C17.v (see file header for what is proved).",
 "C18": "Model of the TZif reader (header, data blocks, footer POSIX-TZ parser, rule dates, lookup) compared with /repo through hook H2 on real zone files (expected offsets from CPython's zoneinfo) and on synthesized v1/v2/v3 files (expected offsets from TzSpec.spec_lookup on the generating AST); theorems in props/C18.v relate the model's lookup to the specification (see file header for the proved part).",
 "C19": "Model of the TZif reader compared with /repo on structure-aware mutations and hostile footers (outcome class error / offsets / panic); theorems in props/C19.v: the parser returns Ok or Err for every byte string and lookups on an accepted file never panic (see file header).",
 "C11": "Model of parse_format_string / format_*_part / the three format() methods compared with /repo, and every observed output compared inside Coq with PatternSpec.render, the documented symbol table written as data (items -> text), on patterns generated from the item grammar; theorems in props/C11.v (see file header for the proved part).",
 "C12": "Model of the consume-from-the-front parsers and field assembly compared with /repo on format -> parse -> format round trips over the unambiguous-pattern grammar; the oracle checks string identity and, for full date + time + zone patterns, instant and offset identity; theorems in props/C12.v (see file header).",
 "C13": "Model of parse_rfc3339 / parse_offset / format_rfc3339 compared with /repo; outputs checked against RfcSpec (ABNF recogniser + denotation) for all precisions, inputs generated from the ABNF with 1..40 fraction digits and field mutations; theorems in props/C13.v (see file header).",
 "C14": "Model with every unwrap / index / slice of the text code explicit (Panic outcome) compared with /repo on a slice of the exhaustive small-string product and on mutated composite patterns; theorems in props/C14.v (see file header).",
 "C20": "Display / FromStr / serde (through serde_json) compared with the model instances of format / parse / RFC 3339 and with the documented text forms; theorems in props/C20.v (see file header).",
 "C08": "Coq theorems (props/C08.v): every Time reachable through any list of public operations stays inside [0, 24 h) (induction over the operation list), add_/sub_/operators compute (t +/- amount) mod 24 h keeping the offset, constructors accept exactly in-day values, every Ok of Time::parse or Time::from_str is inside the day, equal fields imply equal values. Tied to /repo by a differential run.",
}
def chk(pid, text):
    return {"property_id": pid, "quick_cmd": "./check %s --tier quick" % pid, "thorough_cmd": "./check %s --tier thorough" % pid,
            "evidence_file": "evidence/%s.json" % pid, "replay_cmd_template": "./check %s --replay {path}" % pid,
            "engine": "coq-proof+correspondence",
            "level_claimed": {"category": "proof", "text": text, "design_ref": "DESIGN.md section 6, %s" % pid},
            "level_note": NOTE, "technique": TECH}
NA = {
}
PENDING = []
m = {
 "version": 1,
 "setup_cmd": "./setup.sh",
 "hooks": {"guard": "astrolabe_verif",
           "enable": "cargo feature astrolabe_verif of the astrolabe crate (harness/Cargo.toml depends on /repo with features = [\"astrolabe_verif\"])",
           "baseline_off_cmd": "cd /repo && cargo test --workspace --no-fail-fast --offline",
           "source_commits": ["ceac7d9", "4937476"], "add_only": True},
 "engines": [{"name": "coq-proof+correspondence", "path": "check", "serves_properties": sorted(CHECKS),
              "kind_free_text": "Coq 8.16.1 theorems about a hand-written Gallina model (coq/theories), tied to /repo by a differential run: a Rust harness (dev and release profiles) observes the public API; the model and the specification oracle are evaluated on the same inputs inside Coq by vm_compute"}],
 "checks": [chk(p, CHECKS[p]) for p in sorted(CHECKS)],
 "not_applicable": [{"property_id": p, "reason": NA.get(p, "not yet claimed: machinery for this property is still being built (see DESIGN.md section 6 for the plan)")} for p in PENDING if p not in CHECKS],
 "notes": "See DESIGN.md. ./check <id> --tier quick|thorough; evidence in evidence/<id>.json; replays in replays/ (git-ignored, rewritten by runs).",
}
json.dump(m, open(os.path.join(ROOT, "MANIFEST.json"), "w"), indent=1)
print("MANIFEST.json written:", len(m["checks"]), "checks")
