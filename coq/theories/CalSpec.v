(* CalSpec.v — the proleptic Gregorian calendar as the property texts describe it:
   Gregorian leap rule, no year 0 (year -1 directly precedes year 1), month lengths,
   validity of a triple, the successor of a date, the representable range.
   Nothing here mentions 400-year cycles or day numbers. *)
From Astro Require Import Base.

(* astronomical numbering: ..., -2 ↦ -1, -1 ↦ 0, 1 ↦ 1, ... (year 0 is not a year) *)
Definition astro (y : Z) : Z := if y <? 0 then y + 1 else y.
Definition unastro (a : Z) : Z := if a <=? 0 then a - 1 else a.

Definition leap_a (a : Z) : bool :=
  (a mod 4 =? 0) && (negb (a mod 100 =? 0) || (a mod 400 =? 0)).
Definition leap (y : Z) : bool := leap_a (astro y).

Definition mlen (y m : Z) : Z :=
  if m =? 2 then (if leap y then 29 else 28)
  else if (m =? 4) || (m =? 6) || (m =? 9) || (m =? 11) then 30 else 31.
Definition ylen (y : Z) : Z := if leap y then 366 else 365.

Definition date := (Z * Z * Z)%type.

Definition valid (x : date) : Prop :=
  let '(y, m, d) := x in y <> 0 /\ 1 <= m <= 12 /\ 1 <= d <= mlen y m.
Definition validb (x : date) : bool :=
  let '(y, m, d) := x in negb (y =? 0) && (1 <=? m) && (m <=? 12) && (1 <=? d) && (d <=? mlen y m).

Definition next_year (y : Z) : Z := if y =? -1 then 1 else y + 1.
Definition next_date (x : date) : date :=
  let '(y, m, d) := x in
  if d <? mlen y m then (y, m, d + 1)
  else if m <? 12 then (y, m + 1, 1)
  else (next_year y, 1, 1).

(* lexicographic order on dates *)
Definition date_leb (x1 x2 : date) : bool :=
  let '(y1, m1, d1) := x1 in let '(y2, m2, d2) := x2 in
  (y1 <? y2) || ((y1 =? y2) && ((m1 <? m2) || ((m1 =? m2) && (d1 <=? d2)))).

Definition MIN_DATE : date := (-5879611, 6, 23).
Definition MAX_DATE : date := (5879611, 7, 12).
Definition in_range (x : date) : Prop := date_leb MIN_DATE x = true /\ date_leb x MAX_DATE = true.
Definition in_rangeb (x : date) : bool := date_leb MIN_DATE x && date_leb x MAX_DATE.

(* day of year by counting month lengths *)
Fixpoint cum_days (y : Z) (n : nat) : Z :=   (* days in months 1..n of year y *)
  match n with O => 0 | S k => cum_days y k + mlen y (Z.of_nat (S k)) end.
Definition doy_of (x : date) : Z := let '(y, m, d) := x in cum_days y (Z.to_nat (m - 1)) + d.

(* weekday, 0 = Sunday; ISO weekday 1 = Monday .. 7 = Sunday *)
Definition wd0_monday (d : Z) : Z := d mod 7.          (* 0 = Monday: day 0 (0001-01-01) is a Monday *)
Definition week_thursday (d : Z) : Z := d - d mod 7 + 3.

(* months are counted on one line: index 12*a + (m-1) for astronomical year a, so that December of
   year -1 (a = 0) is directly followed by January of year 1 *)
Definition month_index (y m : Z) : Z := 12 * astro y + (m - 1).
Definition of_month_index (i : Z) : Z * Z := (unastro (i / 12), i mod 12 + 1).
(* N calendar months away, same day of month, reduced to the last day of a shorter target month *)
Definition add_months_spec (x : date) (k : Z) : date :=
  let '(y, m, d) := x in
  let '(y', m') := of_month_index (month_index y m + k) in
  (y', m', Z.min d (mlen y' m')).
Definition add_years_spec (x : date) (k : Z) : date :=
  let '(y, m, d) := x in
  let y' := unastro (astro y + k) in (y', m, Z.min d (mlen y' m)).
