(* CasesCron.v — correspondence and specification oracles for C16 and C17. *)
From Astro Require Import Base Text CalSpec DateModel TimeModel ApiModel InstantSpec CronModel CronSpec Cases DateProofs.

(* observed sets arrive as "strings" of value+1 *)
Definition dec_set (s : list Z) : list Z := map (fun c => c - 1) s.

Definition spec_set (k : fkind) (its : list item) : list Z := filter (field_matches k its) (range_incl (kmin k) (kmax k)).

Definition check_C16 (c : case) : Z :=
  match c_op c, c_strs c with
  | Op_cron_parse, [e] =>
      let model_ok :=
        match parse_expression e, c_out c with
        | Some sc, OOk [] [a; b; c'; d; e'] =>
            zs_eqb (canon 0 59 (s_min sc)) (dec_set a) && zs_eqb (canon 0 23 (s_hour sc)) (dec_set b)
            && zs_eqb (canon 1 31 (s_dom sc)) (dec_set c') && zs_eqb (canon 1 12 (s_mon sc)) (dec_set d)
            && zs_eqb (canon 0 6 (s_dow sc)) (dec_set e')
        | None, OErr 2 _ => true
        | _, _ => false end in
      let spec_ok :=
        match cron_spec e, c_out c with
        | Some (a0, b0, c0, d0, e0), OOk [] [a; b; c'; d; e'] =>
            zs_eqb (spec_set KMinute a0) (dec_set a) && zs_eqb (spec_set KHour b0) (dec_set b)
            && zs_eqb (spec_set KDom c0) (dec_set c') && zs_eqb (spec_set KMonth d0) (dec_set d)
            && zs_eqb (spec_set KDow e0) (dec_set e')
        | None, OErr 2 _ => true
        | _, _ => false end in
      verdict model_ok spec_ok
  (* the tables of Text.v against std, over all Unicode scalar values (the harness enumerates them):
     - char::is_whitespace holds for exactly the scalars for which Text.is_whitespace does (the model's predicate is false
       above U+3000 by its shape, so comparing with its extension on 0..U+3000 is complete);
     - str::to_lowercase: on ASCII it is Text.to_lower; a non-ASCII scalar never lower-cases to a string of ASCII letters,
       except U+212A KELVIN SIGN -> "k" (no month or weekday name contains k), so `lowercase s` is a month / weekday name
       exactly when the std lower-casing of s is. *)
  | Op_std_tables, [] =>
      match c_out c with
      | OOk [] (ws :: rows) =>
          let ws_ok := zs_eqb ws (filter is_whitespace (range_incl 0 12288)) in
          let row_ok (e : list Z) := match e with
                                    | ch :: lc => if ch <? 128 then zs_eqb lc [to_lower ch]
                                                  else negb (forallb is_ascii_alpha lc) || (zs_eqb lc [107] && (ch =? 8490))
                                    | [] => false end in
          let n_ascii := Z.of_nat (length (filter (fun e => match e with ch :: _ => ch <? 128 | [] => false end) rows)) in
          verdict (ws_ok && forallb row_ok rows && (n_ascii =? 128)) true
      | _ => V_MALFORMED
      end
  | _, _ => V_MALFORMED
  end.

(* ---------------------------------------------------------------- C17 *)
(* a minute is identified by (day number, minute of day) *)
Record ssets := mkSS { ss_min : list Z; ss_hour : list Z; ss_dom : list Z; ss_mon : list Z; ss_dow : list Z }.
Definition day_matches (s : ssets) (d : Z) : bool :=
  let '(y, m, dd) := days_to_date d in
  let wd := (4 + (d - 719162)) mod 7 in
  let domr := negb (Z.of_nat (length (ss_dom s)) =? 31) in
  let dowr := negb (Z.of_nat (length (ss_dow s)) =? 7) in
  mem m (ss_mon s) &&
  (if domr && dowr then mem dd (ss_dom s) || mem wd (ss_dow s)
   else if domr then mem dd (ss_dom s) else if dowr then mem wd (ss_dow s) else true).
Definition minute_matches (s : ssets) (mod_ : Z) : bool := mem (mod_ / 60) (ss_hour s) && mem (mod_ mod 60) (ss_min s).
(* is there a matching minute of the day inside [lo, hi] (minute-of-day bounds, inclusive)? *)
Definition any_minute (s : ssets) (lo hi : Z) : bool :=
  existsb (fun h => existsb (fun mi => let t := h * 60 + mi in (lo <=? t) && (t <=? hi)) (ss_min s)) (ss_hour s).
(* no matching day strictly between two days *)
Fixpoint no_day_between (s : ssets) (d : Z) (n : nat) : bool :=
  match n with O => true | S k => negb (day_matches s d) && no_day_between s (d + 1) k end.

(* (rd, rm) is the least matching minute strictly after (ld, lm) *)
(* Matching days of a satisfiable schedule are at most 8 years apart (29 February across a common century year); a claimed
   result further away than 100000 days (or the harness's sentinel for `None`) is refused outright, so that the day-by-day
   walk below is never asked to build an astronomically long list of days. *)
Definition is_least_match (s : ssets) (ld lm rd rm : Z) : bool :=
  if (rd <? ld) || (100000 <? rd - ld) || (rm <? 0) || (1439 <? rm) then false else
  day_matches s rd && minute_matches s rm &&
  (if rd =? ld then (lm <? rm) && negb (any_minute s (lm + 1) (rm - 1))
   else (ld <? rd)
        && negb (day_matches s ld && any_minute s (lm + 1) 1439)
        && no_day_between s (ld + 1) (Z.to_nat (rd - ld - 1))
        && negb (any_minute s 0 (rm - 1))).

Fixpoint pairs (l : list Z) : list (Z * Z) := match l with a :: b :: tl => (a, b) :: pairs tl | _ => [] end.

(* walk the history: clock (d, n) advances by adv seconds before each call; last = previous result *)
Fixpoint hist_spec (s : ssets) (d n : Z) (last : option (Z * Z)) (advs : list Z) (res : list (Z * Z)) : bool :=
  match advs, res with
  | [], [] => true
  | a :: advs', (rd, rn) :: res' =>
      let t := d * NANOS_PER_DAY + n + a * NANOS_PER_SEC in
      let d' := t / NANOS_PER_DAY in let n' := t mod NANOS_PER_DAY in
      let now_min := n' / NANOS_PER_MINUTE in
      let '(ld, lm) := match last with
                       | Some (pd, pm) => if (d' <? pd) || ((d' =? pd) && (now_min <=? pm)) then (pd, pm) else (d', now_min)
                       | None => (d', now_min) end in
      (rn mod NANOS_PER_MINUTE =? 0) && is_least_match s ld lm rd (rn / NANOS_PER_MINUTE)
      && hist_spec s d' n' (Some (rd, rn / NANOS_PER_MINUTE)) advs' res'
  | _, _ => false
  end.

Definition FUEL : nat := Z.to_nat 20000.
Fixpoint hist_model (sc : sched) (d n : Z) (last : option DT) (advs : list Z) : option (list Z) :=
  match advs with
  | [] => Some []
  | a :: advs' =>
      let t := d * NANOS_PER_DAY + n + a * NANOS_PER_SEC in
      let d' := t / NANOS_PER_DAY in let n' := t mod NANOS_PER_DAY in
      match cron_next FUEL sc last (mkDT d' n' 0) with
      | Ok (Some r) => match hist_model sc d' n' (Some r) advs' with Some tl => Some (dt_days r :: dt_nanos r :: tl) | None => None end
      | _ => None
      end
  end.

Definition check_C17 (c : case) : Z :=
  match c_op c, c_strs c, c_ints c, c_out c with
  | Op_cron_next, [e], d :: n :: clone_at :: advs, OOk (clone_ok :: res) [] =>
      let model_ok := match parse_expression e with
                      | Some sc => match hist_model sc d n None advs with Some l => zs_eqb l res | None => false end
                      | None => false end in
      let spec_ok := match cron_spec e with
                     | Some (a0, b0, c0, d0, e0) =>
                         let s := mkSS (spec_set KMinute a0) (spec_set KHour b0) (spec_set KDom c0) (spec_set KMonth d0) (spec_set KDow e0) in
                         (clone_ok =? 1) && hist_spec s d n None advs (pairs res)
                     | None => false end in
      verdict model_ok spec_ok
  | _, _, _, _ => V_MALFORMED
  end.
