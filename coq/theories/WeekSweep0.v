(* WeekSweep0.v — complete enumeration, inside the kernel, of days 0 .. 18262 of the 400-year cycle. *)
From Astro Require Import Base CalSpec DateModel DateProofs WeekProofs.
Lemma week_sweep_0 : range_all week_ok 0 (Z.to_nat 18263) = true.
Proof. vm_compute. reflexivity. Qed.
