(* Base.v — outcome type, machine-integer ranges, arithmetic set-up shared by the whole
   development.  Definitions only plus tiny arithmetic facts. *)
From Coq Require Export ZArith List Bool Lia.
Export ListNotations.
Open Scope Z_scope.

(* ---------- outcomes ---------- *)
(* name of the parameter an OutOfRange error talks about *)
Inductive oor_name :=
| NYear | NMonth | NDay | NDoy | NHour | NMinute | NSecond | NSeconds | NNanoseconds
| NValue | NTimestamp | NCustom
| NYearZero.   (* name "year" with the custom text "Year cannot be 0..." *)

Inductive err :=
| EOor (name : oor_name) (mn mx v : Z)       (* AstrolabeError::OutOfRange {name,min,max,value} *)
| EFmt.                                       (* AstrolabeError::InvalidFormat *)

Inductive res (A : Type) :=
| Ok (a : A)
| Err (e : err)
| Panic.
Arguments Ok {A} a.
Arguments Err {A} e.
Arguments Panic {A}.

Definition bind {A B} (r : res A) (f : A -> res B) : res B :=
  match r with Ok a => f a | Err e => Err e | Panic => Panic end.
Notation "'let?' x ':=' r 'in' k" := (bind r (fun x => k))
  (at level 200, x name, r at level 100, k at level 200, right associativity).
Notation "'let?' ' p ':=' r 'in' k" := (bind r (fun x => match x with p => k end))
  (at level 200, p strict pattern, r at level 100, k at level 200, right associativity).

(* `.unwrap()` / `match … Err(e) => panic!` *)
Definition unwrap {A} (r : res A) : res A :=
  match r with Ok a => Ok a | _ => Panic end.

Definition is_ok {A} (r : res A) : bool := match r with Ok _ => true | _ => false end.
Definition is_err {A} (r : res A) : bool := match r with Err _ => true | _ => false end.
Definition is_panic {A} (r : res A) : bool := match r with Panic => true | _ => false end.

(* ---------- machine integer ranges ---------- *)
Definition I32_MIN := -2147483648.
Definition I32_MAX := 2147483647.
Definition U32_MAX := 4294967295.
Definition I64_MIN := -9223372036854775808.
Definition I64_MAX := 9223372036854775807.
Definition U64_MAX := 18446744073709551615.

Definition in_i32 (z : Z) : Prop := I32_MIN <= z <= I32_MAX.
Definition in_u32 (z : Z) : Prop := 0 <= z <= U32_MAX.
Definition in_i64 (z : Z) : Prop := I64_MIN <= z <= I64_MAX.
Definition in_u64 (z : Z) : Prop := 0 <= z <= U64_MAX.
Definition in_i32b (z : Z) : bool := (I32_MIN <=? z) && (z <=? I32_MAX).
Definition in_u32b (z : Z) : bool := (0 <=? z) && (z <=? U32_MAX).
Definition in_i64b (z : Z) : bool := (I64_MIN <=? z) && (z <=? I64_MAX).
Definition in_u64b (z : Z) : bool := (0 <=? z) && (z <=? U64_MAX).

(* `x as i32` from a wider integer: two's complement reinterpretation *)
Definition wrap_i32 (z : Z) : Z := (z + 2147483648) mod 4294967296 - 2147483648.
Definition wrap_u32 (z : Z) : Z := z mod 4294967296.
Definition wrap_u8 (z : Z) : Z := z mod 256.
Definition wrap_i64 (z : Z) : Z := (z + 9223372036854775808) mod 18446744073709551616 - 9223372036854775808.
Definition wrap_u64 (z : Z) : Z := z mod 18446744073709551616.

(* checked conversion (`try_into`, `checked_add` …): Err/None is turned into the caller's choice *)
Definition to_i32 (z : Z) : option Z := if in_i32b z then Some z else None.

(* constants of src/util/constants.rs *)
Definition NANOS_PER_SEC := 1000000000.
Definition NANOS_PER_MINUTE := 60000000000.
Definition NANOS_PER_HOUR := 3600000000000.
Definition NANOS_PER_DAY := 86400000000000.
Definition SECS_PER_DAY := 86400.
Definition DAYS_TO_1970 := 719162.

(* lia understands /, mod, quot, rem through this hook *)
Ltac Zify.zify_post_hook ::= Z.quot_rem_to_equations; Z.div_mod_to_equations.

Lemma in_i32b_iff z : in_i32b z = true <-> in_i32 z.
Proof. unfold in_i32b, in_i32, I32_MIN, I32_MAX. rewrite andb_true_iff, !Z.leb_le. tauto. Qed.
Lemma in_u32b_iff z : in_u32b z = true <-> in_u32 z.
Proof. unfold in_u32b, in_u32, U32_MAX. rewrite andb_true_iff, !Z.leb_le. tauto. Qed.
Lemma in_i64b_iff z : in_i64b z = true <-> in_i64 z.
Proof. unfold in_i64b, in_i64, I64_MIN, I64_MAX. rewrite andb_true_iff, !Z.leb_le. tauto. Qed.
Lemma in_u64b_iff z : in_u64b z = true <-> in_u64 z.
Proof. unfold in_u64b, in_u64, U64_MAX. rewrite andb_true_iff, !Z.leb_le. tauto. Qed.

(* case-split the innermost boolean comparison that guards an `if` *)
Ltac no_if t := lazymatch t with context [if _ then _ else _] => fail | _ => idtac end.
Ltac break_if :=
  match goal with
  | |- context [if Z.ltb ?x ?y then _ else _] => no_if x; no_if y; destruct (Z.ltb_spec x y); cbv iota
  | |- context [if Z.leb ?x ?y then _ else _] => no_if x; no_if y; destruct (Z.leb_spec x y); cbv iota
  | |- context [if Z.eqb ?x ?y then _ else _] => no_if x; no_if y; destruct (Z.eqb_spec x y); cbv iota
  end.
Ltac break_ifs := repeat (break_if; try lia).
(* case-split every integer comparison occurring in the goal *)
Ltac break_cmp :=
  match goal with
  | |- context [Z.ltb ?x ?y] => no_if x; no_if y; destruct (Z.ltb_spec x y)
  | |- context [Z.leb ?x ?y] => no_if x; no_if y; destruct (Z.leb_spec x y)
  | |- context [Z.eqb ?x ?y] => no_if x; no_if y; destruct (Z.eqb_spec x y)
  end; cbn [andb orb negb]; cbv iota.
Ltac break_cmps := repeat (break_cmp; try lia).
