(* TextProofs.v — C14: the text-consuming APIs never panic and return only valid values. *)
From Astro Require Import Base Text CalSpec DateModel TimeModel ApiModel InstantSpec DateProofs WeekProofs TimeProofs ClockProofs OffsetProofs
  FormatModel ParseModel.

Definition npr {A} (r : res A) : Prop := r <> Panic.
Lemma npr_ok {A} (a : A) : npr (Ok a). Proof. discriminate. Qed.
Lemma npr_err {A} e : npr (@Err A e). Proof. discriminate. Qed.
Lemma npr_bind {A B} (r : res A) (f : A -> res B) : npr r -> (forall a, r = Ok a -> npr (f a)) -> npr (bind r f).
Proof. intros Hr Hf. destruct r as [a| e |]; cbn; [apply Hf; reflexivity | discriminate | congruence]. Qed.
Ltac npr_auto := repeat first [ apply npr_ok | apply npr_err | unfold fmt_err, some_part, no_part ].

Lemma remove_part_np n s : npr (remove_part n s).
Proof. unfold remove_part. destruct (_ <? _); npr_auto. Qed.
Lemma pick_text_np n s : npr (pick_text n s).
Proof. unfold pick_text. destruct (_ <? _); npr_auto. Qed.
Lemma pick_u32_np n s : npr (pick_u32 n s).
Proof. unfold pick_u32. apply npr_bind; [apply pick_text_np|]. intros [t rest] _. destruct (parse_unsigned _ _); npr_auto. Qed.
Lemma pick_i32_np n s : npr (pick_i32 n s).
Proof. unfold pick_i32. apply npr_bind; [apply pick_text_np|]. intros [t rest] _. destruct (parse_signed _ _ _); npr_auto. Qed.

(* after a pick/remove of n characters the rest is n characters shorter *)
Lemma remove_part_len n s r : 0 <= n -> remove_part n s = Ok r -> char_count r = char_count s - n.
Proof.
  unfold remove_part, char_count. intros Hn. destruct (Z.ltb_spec (Z.of_nat (length s)) n); [discriminate|].
  intros E. injection E as <-. rewrite skipn_length. lia.
Qed.
Lemma pick_text_len n s t r : 0 <= n -> pick_text n s = Ok (t, r) -> char_count r = char_count s - n.
Proof.
  unfold pick_text, char_count. intros Hn. destruct (Z.ltb_spec (Z.of_nat (length s)) n); [discriminate|].
  intros E. injection E as _ <-. rewrite skipn_length. lia.
Qed.
Lemma pick_u32_len n s v r : 0 <= n -> pick_u32 n s = Ok (v, r) -> char_count r = char_count s - n.
Proof.
  unfold pick_u32. intros Hn. destruct (pick_text n s) as [[t r0]| |] eqn:E; cbn [bind]; try discriminate.
  destruct (parse_unsigned _ _); [|discriminate]. intros H. injection H as _ <-. eapply pick_text_len; eassumption.
Qed.

(* `.unwrap()` of a removal that the preceding test guarantees *)
Lemma must_remove_np n s : n <= char_count s -> npr (must (remove_part n s)).
Proof. intros H. unfold remove_part. destruct (Z.ltb_spec (char_count s) n); [lia|]. cbn. npr_auto. Qed.

Lemma nth_is_digit_len s i : nth_is_digit s i = true -> Z.of_nat i < char_count s.
Proof.
  unfold nth_is_digit, nth_char, char_count. destruct (nth_error s i) eqn:E; [|discriminate]. intros _.
  assert (nth_error s i <> None) by congruence. apply nth_error_Some in H. lia.
Qed.

Lemma text_eqb_len a : forall b, text_eqb a b = true -> length a = length b.
Proof. induction a as [|x a IH]; destruct b as [|y b]; cbn; try discriminate; [reflexivity|]. intros H. apply andb_true_iff in H as [_ H]. f_equal. apply IH, H. Qed.
Lemma starts_with_len e s : starts_with e s = true -> Z.of_nat (length e) <= char_count s.
Proof.
  unfold starts_with, char_count. intros H. apply text_eqb_len in H. rewrite firstn_length in H. lia.
Qed.

(* table entries are ASCII: their byte length is their character count *)
Definition ascii_entry (e : text) : bool := byte_len e =? Z.of_nat (length e).
Lemma find_prefix_spec tbl : forall s i j e, find_prefix tbl s i = Some (j, e) -> In e tbl /\ starts_with e s = true.
Proof.
  induction tbl as [|x tl IH]; intros s i j e; cbn; [discriminate|]. destruct (starts_with x s) eqn:E.
  - intros H. injection H as _ <-. split; [left; reflexivity | exact E].
  - intros H. destruct (IH _ _ _ _ H). split; [right; assumption | assumption].
Qed.
Lemma must_prefix_np tbl s i j e : forallb ascii_entry tbl = true -> find_prefix tbl s i = Some (j, e) ->
  npr (must (remove_part (byte_len e) s)).
Proof.
  intros Ha H. destruct (find_prefix_spec _ _ _ _ _ H) as [Hin Hs]. rewrite forallb_forall in Ha. specialize (Ha e Hin).
  unfold ascii_entry in Ha. apply Z.eqb_eq in Ha. rewrite Ha. apply must_remove_np. apply starts_with_len. exact Hs.
Qed.

Ltac np_pick := first [ apply pick_u32_np | apply pick_i32_np | apply pick_text_np | apply remove_part_np ].
Ltac np_step :=
  match goal with
  | |- npr (bind (must (remove_part (byte_len ?e) ?s)) _) =>
      apply npr_bind; [ eapply must_prefix_np; [ | eassumption ]; reflexivity | intros ? ? ]
  | |- npr (bind _ _) => apply npr_bind; [ try np_pick | intros ? ? ]
  | |- npr (match find_prefix ?tbl ?s ?i with _ => _ end) => destruct (find_prefix tbl s i) as [[? ?]|] eqn:?
  | |- npr (let '(_, _) := ?x in _) => destruct x
  | |- npr (if ?b then _ else _) => destruct b eqn:?
  | |- npr (match ?x with Some _ => _ | None => _ end) => destruct x eqn:?
  | |- npr (pick_u32 _ _) => apply pick_u32_np
  | |- npr (pick_i32 _ _) => apply pick_i32_np
  | |- npr (pick_text _ _) => apply pick_text_np
  | |- npr (remove_part _ _) => apply remove_part_np
  | |- npr (some_part _ _ _) => apply npr_ok
  | |- npr (no_part _) => apply npr_ok
  | |- npr fmt_err => apply npr_err
  | |- npr (Ok _) => apply npr_ok
  | |- npr (Err _) => apply npr_err
  end.
(* split a match on a small numeral *)
Ltac zcases len := destruct len as [|?p|?p]; [ | do 4 (try match goal with q : positive |- _ => destruct q end) | ]; cbv iota beta.

Lemma parse_month_np len s : npr (parse_month len s).
Proof. unfold parse_month. zcases len. all: repeat np_step. Qed.
Lemma parse_wday_np len s : npr (parse_wday len s).
Proof. unfold parse_wday. zcases len. all: repeat np_step. Qed.

Lemma zone5_np hms s : nth_is_digit s 4 = true -> npr (zone5_with_seconds hms s).
Proof.
  intros H. apply nth_is_digit_len in H. unfold zone5_with_seconds.
  destruct (remove_part 1 s) as [s3| |] eqn:E3.
  2,3: exfalso; unfold remove_part in E3; destruct (Z.ltb_spec (char_count s) 1); try lia; discriminate.
  cbn [must bind]. pose proof (remove_part_len 1 s s3 ltac:(lia) E3).
  apply npr_bind; [apply pick_u32_np|]. intros [minute s4] E4.
  pose proof (pick_u32_len 2 s3 minute s4 ltac:(lia) E4).
  apply npr_bind; [apply must_remove_np; lia|]. intros s5 _. repeat np_step.
Qed.

Lemma parse_zone_np len s wz : npr (parse_zone len s wz).
Proof.
  unfold parse_zone. apply npr_bind; [apply pick_text_np|]. intros [pre s1] _.
  destruct (wz && text_eqb pre [90]); [npr_auto|].
  apply npr_bind; [destruct (text_eqb pre [43]); [npr_auto|]; destruct (text_eqb pre [45]); npr_auto|]. intros mult _.
  apply npr_bind; [apply pick_u32_np|]. intros [hour s2] _. cbv zeta.
  zcases len. all: repeat np_step.
  all: match goal with H : nth_is_digit ?s 4 && _ = true |- _ => apply andb_true_iff in H as [H _]; apply zone5_np; exact H end.
Qed.

Lemma parse_date_part_np now chars s : npr (parse_date_part now chars s).
Proof.
  unfold parse_date_part. cbv zeta.
  destruct (first_char chars =? 71).
  { zcases (Z.of_nat (length chars)). all: repeat np_step.
    all: match goal with H : starts_with ?e ?s = true |- npr (must (remove_part ?n ?s)) =>
           apply must_remove_np; apply starts_with_len in H; cbn [length BEFORE_CHRIST ANNO_DOMINI] in H; lia end. }
  destruct (first_char chars =? 121).
  { zcases (Z.of_nat (length chars)). all: repeat np_step. }
  destruct (first_char chars =? 113).
  { zcases (Z.of_nat (length chars)). all: repeat np_step. }
  destruct (first_char chars =? 77); [apply parse_month_np|].
  destruct (first_char chars =? 119).
  { repeat np_step. match goal with H : nth_is_digit s 1 = true |- _ => apply nth_is_digit_len in H end.
    apply must_remove_np. lia. }
  destruct (first_char chars =? 100); [unfold pick_1or2; repeat np_step|].
  destruct (first_char chars =? 68).
  { zcases (Z.of_nat (length chars)). all: repeat np_step. }
  destruct (first_char chars =? 101); [apply parse_wday_np|].
  repeat np_step.
Qed.

Lemma period_value_spec tbl s v e : period_value tbl s = Some (v, e) -> In e (map fst tbl) /\ starts_with e s = true.
Proof.
  unfold period_value. induction tbl as [|[e0 v0] tl IH]; [discriminate|].
  destruct (starts_with e0 s) eqn:E.
  - intros H. injection H as _ <-. split; [left; reflexivity | exact E].
  - intros H. destruct (IH H). split; [right; assumption | assumption].
Qed.

Lemma parse_time_part_np chars s : npr (parse_time_part chars s).
Proof.
  unfold parse_time_part. cbv zeta.
  destruct (first_char chars =? 97).
  { zcases (Z.of_nat (length chars)). all: repeat np_step. }
  destruct (first_char chars =? 98).
  { match goal with |- npr (match period_value ?tbl s with _ => _ end) => destruct (period_value tbl s) as [[v e]|] eqn:E; [|npr_auto];
      apply period_value_spec in E as [Hin Hs]; apply npr_bind; [|intros; npr_auto];
      apply must_remove_np; apply starts_with_len in Hs end.
    assert (Ha : byte_len e = Z.of_nat (length e)).
    { revert Hin. zcases (Z.of_nat (length chars)); cbn [map fst t]; intros Hin;
      repeat (destruct Hin as [<- | Hin]; [reflexivity|]); contradiction. }
    lia. }
  destruct (first_char chars =? 104); [repeat np_step|].
  destruct (first_char chars =? 72); [unfold pick_1or2; repeat np_step|].
  destruct (first_char chars =? 75); [unfold pick_1or2; repeat np_step|].
  destruct (first_char chars =? 107); [repeat np_step|].
  destruct (first_char chars =? 109); [unfold pick_1or2; repeat np_step|].
  destruct (first_char chars =? 115); [unfold pick_1or2; repeat np_step|].
  destruct (first_char chars =? 110).
  { zcases (Z.of_nat (length chars)). all: repeat np_step. }
  destruct (first_char chars =? 88); [apply parse_zone_np|].
  destruct (first_char chars =? 120); [apply parse_zone_np|].
  repeat np_step.
Qed.

Lemma parse_part_np now chars s : npr (parse_part now chars s).
Proof.
  unfold parse_part. destruct (is_date_symbol _); [apply parse_date_part_np|].
  destruct (is_time_symbol _); [apply parse_time_part_np|]. repeat np_step.
Qed.

Lemma parse_loop_np pp : (forall c s, npr (pp c s)) -> forall parts s d x, npr (parse_loop pp parts s d x).
Proof.
  intros Hpp. induction parts as [|part tl IH]; intros s d x; cbn [parse_loop]; [npr_auto|].
  destruct (is_literal_part part).
  - apply npr_bind; [unfold remove_literal_part; apply remove_part_np|]. intros s' _. apply IH.
  - apply npr_bind; [apply Hpp|]. intros [[[u v]|] s'] _; [destruct (is_date_unit u)|]; apply IH.
Qed.

Lemma date_to_days_np y m d : npr (date_to_days y m d). Proof. apply date_to_days_no_panic. Qed.
Lemma year_doy_to_days_np y n ig : npr (year_doy_to_days y n ig).
Proof.
  unfold year_doy_to_days. apply npr_bind; [|intros; npr_auto].
  unfold validate_doy. repeat match goal with |- npr (if ?b then _ else _) => destruct b end; npr_auto.
Qed.
Lemma date_days_of_np d : npr (date_days_of d).
Proof. unfold date_days_of. destruct (pd_doy d); [apply year_doy_to_days_np | apply date_to_days_np]. Qed.

Theorem date_parse_np now s fmt : npr (date_parse now s fmt).
Proof.
  unfold date_parse. apply npr_bind; [apply parse_loop_np; intros; apply parse_date_part_np|]. intros [d x] _. apply date_days_of_np.
Qed.

Lemma time_from_nanos_np n : npr (time_from_nanos n).
Proof. unfold time_from_nanos. destruct (_ <=? _); npr_auto. Qed.
Lemma offset_from_seconds_np o : npr (offset_from_seconds o).
Proof. unfold offset_from_seconds. destruct (_ || _); npr_auto. Qed.
Lemma time_as_offset_np t o : npr (time_as_offset t o).
Proof.
  unfold time_as_offset, time_from_nanos. pose proof (remove_offset_in_day (tm_nanos t) o) as R. unfold D in R.
  destruct (Z.leb_spec NANOS_PER_DAY (remove_offset_from_nanos (tm_nanos t) o)); [lia|]. cbn. npr_auto.
Qed.

Theorem time_parse_np s fmt : npr (time_parse s fmt).
Proof.
  unfold time_parse. apply npr_bind; [apply parse_loop_np; intros; apply parse_time_part_np|]. intros [d x] _.
  apply npr_bind; [apply time_from_nanos_np|]. intros tm _.
  destruct (pt_offset x); [|npr_auto]. apply npr_bind; [apply offset_from_seconds_np|]. intros o _. apply time_as_offset_np.
Qed.

Lemma try_remove_np d n o : npr (try_remove_offset_from_dn d n o).
Proof. unfold try_remove_offset_from_dn, nanos_to_days_nanos. cbv zeta. destruct (in_i32b _); npr_auto. Qed.

Theorem dt_parse_np now s fmt : npr (dt_parse now s fmt).
Proof.
  unfold dt_parse. apply npr_bind; [apply parse_loop_np; intros; apply parse_part_np|]. intros [d x] _.
  apply npr_bind; [apply date_days_of_np|]. intros days _.
  apply npr_bind; [apply time_from_nanos_np|]. intros tm _.
  destruct (pt_offset x); [|npr_auto]. apply npr_bind; [apply offset_from_seconds_np|]. intros o _.
  apply npr_bind; [apply try_remove_np|]. intros [dd nn] _. npr_auto.
Qed.

(* ---------- Ok results are valid values ---------- *)
Lemma ErrProofs_classic y m d : (valid (y, m, d) /\ in_range (y, m, d)) \/ ~ (valid (y, m, d) /\ in_range (y, m, d)).
Proof.
  unfold valid, in_range.
  destruct (date_leb MIN_DATE (y, m, d)), (date_leb (y, m, d) MAX_DATE);
  destruct (Z.eq_dec y 0); try (right; intuition congruence);
  assert (C : (1 <= m <= 12 /\ 1 <= d <= mlen y m) \/ ~ (1 <= m <= 12 /\ 1 <= d <= mlen y m)) by lia;
  destruct C; [left | right]; intuition.
Qed.
Lemma date_to_days_in_i32 y m d n : 0 <= m -> 0 <= d -> date_to_days y m d = Ok n -> in_i32 n.
Proof.
  intros Hm Hd E. destruct (ErrProofs_classic y m d) as [[V R] | K].
  - rewrite date_to_days_ok in E by assumption. injection E as <-. apply (in_range_rd (y,m,d)); assumption.
  - destruct (date_to_days_err y m d Hm Hd K) as (a & b & c & v & E'). congruence.
Qed.

Lemma year_doy_in_i32 y n r : 0 <= n -> year_doy_to_days y n false = Ok r -> in_i32 r.
Proof.
  intros Hn E. destruct (year_doy_to_days_spec y n Hn) as [A B].
  assert (C : (y <> 0 /\ 1 <= n <= ylen y /\ in_i32 (rd (y, 1, 1) + n - 1)) \/ ~ (y <> 0 /\ 1 <= n <= ylen y /\ in_i32 (rd (y, 1, 1) + n - 1)))
    by (unfold in_i32; lia).
  destruct C as [C | C]; [rewrite (A C) in E; injection E as <-; tauto | destruct (B C) as (a & b & c & v & E'); congruence].
Qed.

Definition pdnn (d : pdate) : Prop := 0 <= oz (pd_month d) 1 /\ 0 <= oz (pd_dom d) 1 /\ 0 <= oz (pd_doy d) 0.
Definition ptnn (x : ptime) : Prop :=
  0 <= oz (pt_hour x) 0 /\ 0 <= oz (pt_phour x) 0 /\ 0 <= oz (pt_period x) 0 /\ 0 <= oz (pt_minute x) 0 /\ 0 <= oz (pt_second x) 0 /\
  0 <= oz (pt_decis x) 0 /\ 0 <= oz (pt_centis x) 0 /\ 0 <= oz (pt_millis x) 0 /\ 0 <= oz (pt_micros x) 0 /\ 0 <= oz (pt_nanos x) 0.
Lemma set_date_nn d u v : pdnn d -> pdnn (set_date d u v).
Proof. unfold pdnn, set_date, wrap_u32. intros H. destruct u; cbn [pd_month pd_dom pd_doy oz]; lia. Qed.
Lemma set_time_nn x u v : ptnn x -> ptnn (set_time x u v).
Proof.
  unfold ptnn, set_time, wrap_u64. intros H. destruct u; cbn [pt_hour pt_phour pt_period pt_minute pt_second pt_decis pt_centis pt_millis pt_micros pt_nanos oz];
  try destruct (v =? 0); lia.
Qed.
Lemma parse_loop_nn pp : forall parts s d x d' x', pdnn d -> ptnn x -> parse_loop pp parts s d x = Ok (d', x') -> pdnn d' /\ ptnn x'.
Proof.
  induction parts as [|part tl IH]; intros s d x d' x' Hd Hx E; cbn [parse_loop] in E.
  - injection E as <- <-. tauto.
  - destruct (is_literal_part part).
    + destruct (remove_literal_part part s); cbn [bind] in E; try discriminate. eapply IH; eassumption.
    + destruct (pp part s) as [[[[u v]|] s']| |]; cbn [bind] in E; try discriminate.
      * destruct (is_date_unit u); [eapply (IH _ _ _ _ _ (set_date_nn d u v Hd) Hx E) | eapply (IH _ _ _ _ _ Hd (set_time_nn x u v Hx) E)].
      * eapply IH; eassumption.
Qed.
Lemma pd0_nn : pdnn PD0. Proof. unfold pdnn; cbn; lia. Qed.
Lemma pt0_nn : ptnn PT0. Proof. unfold ptnn; cbn; lia. Qed.

Lemma date_days_of_valid d r : pdnn d -> date_days_of d = Ok r -> in_i32 r.
Proof.
  unfold date_days_of, pdnn. intros (A & B & C) E. destruct (pd_doy d) as [n|]; cbn [oz] in C.
  - eapply year_doy_in_i32; [|exact E]; exact C.
  - eapply date_to_days_in_i32; [| |exact E]; assumption.
Qed.

Theorem date_parse_valid now s fmt r : date_parse now s fmt = Ok r -> in_i32 r.
Proof.
  unfold date_parse. intros E. destruct (parse_loop _ _ _ _ _) as [[d x]| |] eqn:L; cbn [bind] in E; try discriminate.
  apply parse_loop_nn in L as [Hd _]; [|apply pd0_nn|apply pt0_nn]. eapply date_days_of_valid; eassumption.
Qed.

Lemma time_nanos_nn x : ptnn x -> 0 <= time_nanos x.
Proof. unfold ptnn, time_nanos. intros H. destruct (pt_hour x); cbn [oz] in *; unfold NANOS_PER_SEC; nia. Qed.

Lemma offset_from_seconds_ok o r : offset_from_seconds o = Ok r -> r = o /\ off_ok r.
Proof.
  unfold offset_from_seconds, off_ok. destruct (Z.leb_spec o (- SECS_PER_DAY)); cbn [orb]; [discriminate|].
  destruct (Z.leb_spec SECS_PER_DAY o); [discriminate|]. intros E. injection E as <-. lia.
Qed.

Theorem time_parse_valid s fmt r : time_parse s fmt = Ok r -> Inv_tm r.
Proof.
  unfold time_parse. intros E. destruct (parse_loop _ _ _ _ _) as [[d x]| |] eqn:L; cbn [bind] in E; try discriminate.
  apply parse_loop_nn in L as [_ Hx]; [|apply pd0_nn|apply pt0_nn]. apply time_nanos_nn in Hx.
  unfold time_from_nanos in E. destruct (Z.leb_spec NANOS_PER_DAY (time_nanos x)); cbn [bind] in E; try discriminate.
  destruct (pt_offset x) as [off|].
  - destruct (offset_from_seconds off) as [o| |] eqn:O; cbn [bind] in E; try discriminate.
    apply offset_from_seconds_ok in O as [-> O].
    unfold time_as_offset, time_from_nanos in E. cbn [tm_nanos] in E.
    pose proof (remove_offset_in_day (time_nanos x) off) as R. unfold D in R.
    destruct (Z.leb_spec NANOS_PER_DAY (remove_offset_from_nanos (time_nanos x) off)); [lia|]. cbn in E. injection E as <-.
    unfold Inv_tm. cbn. split; [lia | exact O].
  - injection E as <-. unfold Inv_tm, off_ok, SECS_PER_DAY. cbn. lia.
Qed.

Lemma nanos_to_days_nanos_inv t d n : nanos_to_days_nanos t = Ok (d, n) -> in_i32 d /\ 0 <= n < NANOS_PER_DAY /\ d * NANOS_PER_DAY + n = t.
Proof.
  intros E. assert (C : inst_in_range t \/ ~ inst_in_range t) by (unfold inst_in_range; lia). destruct C as [C | C].
  - destruct (split_ok t C) as (E' & A & B & S). rewrite E' in E. injection E as <- <-. unfold D in *. tauto.
  - destruct (nanos_to_days_nanos_err t C) as [e E']. congruence.
Qed.

Definition Valid_dt (v : DT) : Prop := Inv_dt v /\ inst_in_range (local_instant v).
Lemma day_in_range d n : in_i32 d -> 0 <= n < NANOS_PER_DAY -> inst_in_range (d * NANOS_PER_DAY + n).
Proof. unfold in_i32, inst_in_range, MIN_I, MAX_I. unfold_consts. lia. Qed.

Theorem dt_parse_valid now s fmt r : dt_parse now s fmt = Ok r -> Valid_dt r.
Proof.
  unfold dt_parse. intros E. destruct (parse_loop _ _ _ _ _) as [[d x]| |] eqn:L; cbn [bind] in E; try discriminate.
  apply parse_loop_nn in L as [Hd Hx]; [|apply pd0_nn|apply pt0_nn]. apply time_nanos_nn in Hx.
  destruct (date_days_of d) as [days| |] eqn:Ed; cbn [bind] in E; try discriminate.
  apply date_days_of_valid in Ed; [|exact Hd].
  unfold time_from_nanos in E. destruct (Z.leb_spec NANOS_PER_DAY (time_nanos x)); cbn [bind] in E; try discriminate.
  cbn [tm_nanos] in E.
  destruct (pt_offset x) as [off|].
  - destruct (offset_from_seconds off) as [o| |] eqn:O; cbn [bind] in E; try discriminate.
    apply offset_from_seconds_ok in O as [-> O].
    destruct (try_remove_offset_from_dn days (time_nanos x) off) as [[dd nn]| |] eqn:T; cbn [bind] in E; try discriminate.
    injection E as <-. apply nanos_to_days_nanos_inv in T as (T1 & T2 & T3). rewrite days_nanos_to_nanos_spec in T3.
    split; [unfold Inv_dt; cbn [dt_days dt_nanos dt_off]; tauto|].
    unfold local_instant, instant. cbn [dt_days dt_nanos dt_off]. replace (dd * NANOS_PER_DAY + nn + off * NANOS_PER_SEC) with (days * NANOS_PER_DAY + time_nanos x) by lia.
    apply day_in_range; [exact Ed | lia].
  - injection E as <-. split; [unfold Inv_dt, off_ok, SECS_PER_DAY; cbn [dt_days dt_nanos dt_off]; split; [exact Ed|]; split; lia|].
    unfold local_instant, instant. cbn [dt_days dt_nanos dt_off]. rewrite Z.mul_0_l, Z.add_0_r. apply day_in_range; [exact Ed | lia].
Qed.

(* ---------- RFC 3339 ---------- *)
Lemma dva_bound s : forall acc, all_digits s = true -> 0 <= acc ->
  acc * 10 ^ Z.of_nat (length s) <= digits_val_aux s acc < (acc + 1) * 10 ^ Z.of_nat (length s).
Proof.
  induction s as [|c tl IH]; intros acc Hd Ha.
  - cbn. lia.
  - cbn [all_digits forallb] in Hd. apply andb_true_iff in Hd as [Hc Hd]. unfold is_ascii_digit in Hc.
    apply andb_true_iff in Hc as [Hc1 Hc2]. apply Z.leb_le in Hc1, Hc2.
    cbn [digits_val_aux length]. rewrite Nat2Z.inj_succ, Z.pow_succ_r by lia.
    specialize (IH (acc * 10 + (c - 48)) Hd ltac:(lia)).
    assert (0 < 10 ^ Z.of_nat (length tl)) by (apply Z.pow_pos_nonneg; lia). nia.
Qed.
Lemma digits_val_bound s : all_digits s = true -> 0 <= digits_val s < 10 ^ Z.of_nat (length s).
Proof. intros H. pose proof (dva_bound s 0 H ltac:(lia)). unfold digits_val. lia. Qed.

Lemma parse_unsigned_bound mx s v : parse_unsigned mx s = Some v -> 0 <= v < 10 ^ Z.of_nat (length s).
Proof.
  unfold parse_unsigned. intros H.
  assert (G : forall body, (Z.of_nat (length body) <= Z.of_nat (length s)) ->
     match body with [] => None | _ => if all_digits body then (let v := digits_val body in if v <=? mx then Some v else None) else None end = Some v ->
     0 <= v < 10 ^ Z.of_nat (length s)).
  { intros body Hl Hb. destruct body as [|b0 bt] eqn:Eb; [discriminate|]. rewrite <- Eb in *. destruct (all_digits body) eqn:Ad; [|discriminate].
    cbv zeta in Hb. destruct (digits_val body <=? mx); [|discriminate]. injection Hb as <-.
    pose proof (digits_val_bound body Ad). assert (10 ^ Z.of_nat (length body) <= 10 ^ Z.of_nat (length s)) by (apply Z.pow_le_mono_r; lia). lia. }
  destruct s as [|c tl]; [discriminate|]. destruct (c =? 43); [apply (G tl) | apply (G (c :: tl))]; try exact H; cbn [length]; lia.
Qed.
Lemma parse_unsigned_digits mx s v : all_digits s = true -> parse_unsigned mx s = Some v -> v = digits_val s.
Proof.
  unfold parse_unsigned. destruct s as [|c tl]; [discriminate|]. intros Hd. pose proof Hd as Hd'. cbn [all_digits forallb] in Hd'.
  apply andb_true_iff in Hd' as [Hc _]. unfold is_ascii_digit in Hc. apply andb_true_iff in Hc as [Hc1 Hc2]. apply Z.leb_le in Hc1, Hc2. destruct (Z.eqb_spec c 43); [lia|].
  unfold all_digits in *. rewrite Hd. cbv zeta. destruct (_ <=? mx); [|discriminate]. intros E. injection E as <-. reflexivity.
Qed.
Lemma parse_signed_bound mn mx s v : parse_signed mn mx s = Some v -> s <> [] -> - 10 ^ (Z.of_nat (length s) - 1) < v < 10 ^ Z.of_nat (length s).
Proof.
  unfold parse_signed. destruct s as [|c tl]; [congruence|]. intros H _. cbn [length]. rewrite Nat2Z.inj_succ.
  replace (Z.succ (Z.of_nat (length tl)) - 1) with (Z.of_nat (length tl)) by lia.
  assert (0 < 10 ^ Z.of_nat (length tl)) by (apply Z.pow_pos_nonneg; lia).
  destruct (c =? 45).
  - destruct tl as [|t0 tt0] eqn:Et; [discriminate|]. rewrite <- Et in *. destruct (all_digits tl) eqn:Ad; [|discriminate].
    cbv zeta in H. destruct (mn <=? _); [|discriminate]. injection H as <-. pose proof (digits_val_bound tl Ad).
    rewrite Z.pow_succ_r by lia. lia.
  - apply parse_unsigned_bound in H. cbn [length] in H. rewrite Nat2Z.inj_succ in H. lia.
Qed.

Lemma parse_offset_np s : npr (parse_offset s).
Proof. unfold parse_offset. repeat match goal with |- npr (if ?b then _ else _) => destruct b | |- npr (match ?x with Some _ => _ | None => _ end) => destruct x end; npr_auto. Qed.
Lemma parse_offset_ok s o : parse_offset s = Ok o -> off_ok o.
Proof.
  unfold parse_offset, off_ok, SECS_PER_DAY. destruct (starts_with [90] s); [intros E; injection E as <-; lia|].
  destruct (_ || _); [discriminate|].
  destruct (parse_unsigned _ _) as [h|] eqn:Eh; [|discriminate]. destruct (parse_unsigned U32_MAX (firstn 2 (skipn 4 s))) as [m|] eqn:Em; [|discriminate].
  apply parse_unsigned_bound in Eh, Em. destruct (Z.ltb_spec 23 h); [discriminate|]. destruct (Z.ltb_spec 59 m); [discriminate|].
  intros E. injection E as <-. destruct (starts_with [43] s); lia.
Qed.

Lemma rd_small y m d : valid (y, m, d) -> -999 <= y <= 9999 -> -366000 <= rd (y, m, d) <= 3653000.
Proof.
  intros (Hy & Hm & Hd) Hr. pose proof (cum_bounds y m d Hm Hd) as C. unfold rd, ystart, F, astro, ylen in *.
  destruct (leap y); destruct (y <? 0); lia.
Qed.

Lemma date_to_days_inv y m d n : 0 <= m -> 0 <= d -> date_to_days y m d = Ok n -> valid (y, m, d) /\ in_range (y, m, d) /\ n = rd (y, m, d).
Proof.
  intros Hm Hd E. destruct (ErrProofs_classic y m d) as [[V R] | K].
  - rewrite date_to_days_ok in E by assumption. injection E as <-. tauto.
  - destruct (date_to_days_err y m d Hm Hd K) as (a & b & c & v & E'). congruence.
Qed.
Lemma time_to_day_seconds_inv h m s r : 0 <= h -> 0 <= m -> 0 <= s -> time_to_day_seconds h m s = Ok r -> 0 <= r < 86400.
Proof.
  unfold time_to_day_seconds, validate_time. intros Hh Hm Hs.
  destruct (Z.ltb_spec 23 h); [discriminate|]. destruct (Z.ltb_spec 59 m); [discriminate|]. destruct (Z.ltb_spec 59 s); [discriminate|].
  cbn [bind]. intros E. injection E as <-. lia.
Qed.
Lemma time_to_day_seconds_np h m s : npr (time_to_day_seconds h m s).
Proof. unfold time_to_day_seconds, validate_time. repeat match goal with |- npr (bind (if ?b then _ else _) _) => destruct b end; cbn [bind]; npr_auto. Qed.

Lemma forallb_firstn {A} (f : A -> bool) n : forall l, forallb f l = true -> forallb f (firstn n l) = true.
Proof. induction n as [|n IH]; intros [|a l]; cbn; try reflexivity. intros H. apply andb_true_iff in H as [H1 H2]. rewrite H1, (IH l H2). reflexivity. Qed.

Lemma sub_text_len s a b : (length (sub_text s a b) <= b - a)%nat.
Proof. unfold sub_text. apply firstn_le_length. Qed.

Lemma pow10_le a b : 0 <= a <= b -> 10 ^ a <= 10 ^ b. Proof. intros. apply Z.pow_le_mono_r; lia. Qed.

Lemma scale_bound x a b : 0 <= x < a -> 0 < b -> a * b = 1000000000 -> 0 <= x * b < 1000000000.
Proof.
  intros Hx Hb P. assert (x * b <= (a - 1) * b) by (apply Z.mul_le_mono_nonneg_r; lia). assert (0 <= x * b) by (apply Z.mul_nonneg_nonneg; lia).
  replace ((a - 1) * b) with (a * b - b) in * by ring. lia.
Qed.

Theorem rfc_parse_total s : npr (dt_parse_rfc3339 s) /\ (forall r, dt_parse_rfc3339 s = Ok r -> Valid_dt r).
Proof.
  unfold dt_parse_rfc3339.
  destruct (byte_len s <? 20); [split; [npr_auto | discriminate]|].
  destruct (negb _); [split; [npr_auto | discriminate]|].
  destruct (parse_signed _ _ _) as [year|] eqn:Ey; [|split; [npr_auto | discriminate]].
  destruct (parse_unsigned U32_MAX (sub_text s 5 7)) as [month|] eqn:Emo; [|split; [npr_auto | discriminate]].
  destruct (parse_unsigned U32_MAX (sub_text s 8 10)) as [day|] eqn:Eda; [|split; [npr_auto | discriminate]].
  destruct (parse_unsigned U32_MAX (sub_text s 11 13)) as [hour|] eqn:Eh; [|split; [npr_auto | discriminate]].
  destruct (parse_unsigned U32_MAX (sub_text s 14 16)) as [minute|] eqn:Emi; [|split; [npr_auto | discriminate]].
  destruct (parse_unsigned U32_MAX (sub_text s 17 19)) as [second|] eqn:Ese; [|split; [npr_auto | discriminate]].
  match goal with |- context [bind ?i _] => set (inner := i) end.
  assert (Hin : npr inner /\ forall nanos o, inner = Ok (nanos, o) -> 0 <= nanos < 1000000000 /\ off_ok o).
  { subst inner. destruct (match nth_error s 19 with Some c => c =? 46 | None => false end).
    - cbv zeta. destruct (take_while_not_zone (skipn 20 s)) as [ns after].
      destruct (match ns with [] => true | _ => false end) eqn:Ens; cbn [orb]; [split; [npr_auto | discriminate]|].
      destruct (all_digits ns) eqn:Ad; cbn [negb]; [|split; [npr_auto | discriminate]].
      destruct (parse_unsigned U64_MAX (firstn 9 ns)) as [v|] eqn:Ev; [|split; [npr_auto | discriminate]].
      destruct after as [|a0 at0] eqn:Ea; [split; [npr_auto | discriminate]|]. rewrite <- Ea.
      split.
      + apply npr_bind; [apply parse_offset_np | intros; npr_auto].
      + intros nanos o E. destruct (parse_offset after) as [o'| |] eqn:Eo; cbn [bind] in E; try discriminate.
        injection E as <- <-. split; [|eapply parse_offset_ok; exact Eo].
        assert (Ad9 : all_digits (firstn 9 ns) = true) by (apply forallb_firstn; exact Ad).
        apply parse_unsigned_digits in Ev; [|exact Ad9]. subst v. pose proof (digits_val_bound _ Ad9) as B.
        set (k := Z.of_nat (length (firstn 9 ns))) in *.
        assert (Hk : 0 <= k <= 9) by (subst k; pose proof (firstn_le_length 9 ns); lia).
        assert (0 < 10 ^ (9 - k)) by (apply Z.pow_pos_nonneg; lia).
        assert (P : 10 ^ k * 10 ^ (9 - k) = 1000000000) by (rewrite <- Z.pow_add_r by lia; replace (k + (9 - k)) with 9 by lia; reflexivity).
        apply (scale_bound _ (10 ^ k) _); [exact B | assumption | exact P].
    - split.
      + apply npr_bind; [apply parse_offset_np | intros; npr_auto].
      + intros nanos o E. destruct (parse_offset (skipn 19 s)) as [o'| |] eqn:Eo; cbn [bind] in E; try discriminate.
        injection E as <- <-. split; [lia | eapply parse_offset_ok; exact Eo]. }
  destruct Hin as [Hnp Hok]. clearbody inner.
  assert (Hy : -999 <= year <= 9999).
  { destruct (sub_text s 0 4) as [|c0 t0] eqn:Es; [discriminate|]. rewrite <- Es in *.
    apply parse_signed_bound in Ey; [|rewrite Es; discriminate]. pose proof (sub_text_len s 0 4) as L.
    assert (1 <= Z.of_nat (length (sub_text s 0 4))) by (rewrite Es; cbn [length]; lia).
    pose proof (pow10_le (Z.of_nat (length (sub_text s 0 4)) - 1) 3 ltac:(lia)). pose proof (pow10_le (Z.of_nat (length (sub_text s 0 4))) 4 ltac:(lia)).
    change (10 ^ 3) with 1000 in *. change (10 ^ 4) with 10000 in *. lia. }
  apply parse_unsigned_bound in Emo, Eda, Eh, Emi, Ese.
  destruct inner as [[nanos o]| |]; cbn [bind]; [|split; [npr_auto | discriminate]|exfalso; apply Hnp; reflexivity].
  destruct (Hok nanos o eq_refl) as [Hn Ho].
  destruct (date_to_days year month day) as [days|e|] eqn:Ed; cbn [bind]; [|split; [npr_auto | discriminate]|exfalso; eapply date_to_days_no_panic; exact Ed].
  apply date_to_days_inv in Ed as (V & R & ->); [|lia|lia]. pose proof (rd_small _ _ _ V Hy) as Hrd.
  destruct (time_to_day_seconds hour minute second) as [secs|e|] eqn:Et; cbn [bind]; [|split; [npr_auto | discriminate]|exfalso; eapply time_to_day_seconds_np; exact Et].
  apply time_to_day_seconds_inv in Et; [|lia|lia|lia].
  set (v := mkDT _ _ 0).
  assert (Iv : Inv_dt v).
  { subst v. unfold Inv_dt, in_i32, off_ok. cbn [dt_days dt_nanos dt_off]. revert Hrd Et Hn. unfold_consts. lia. }
  assert (Rv : inst_in_range (instant v - o * NANOS_PER_SEC)).
  { subst v. unfold inst_in_range, instant, MIN_I, MAX_I, off_ok in *. cbn [dt_days dt_nanos]. revert Hrd Et Hn Ho. unfold_consts. lia. }
  destruct (c10_as_offset v o Iv Ho Rv) as (v' & E' & _ & _ & L' & I'). rewrite E'. split; [npr_auto|]. intros r E. injection E as <-.
  split; [exact I'|]. rewrite L'. apply inv_in_range; exact Iv.
Qed.

(* ---------- format() returns a String: the model is Ok for every valid value and every pattern ---------- *)
Definition okr {A} (r : res A) : Prop := exists a, r = Ok a.
Lemma okr_ok {A} (a : A) : okr (Ok a). Proof. eexists; reflexivity. Qed.
Lemma okr_bind {A B} (r : res A) (f : A -> res B) : okr r -> (forall a, r = Ok a -> okr (f a)) -> okr (bind r f).
Proof. intros [a ->] H. cbn [bind]. apply H. reflexivity. Qed.

Lemma nth_name_ok tbl i : 0 <= i < Z.of_nat (length tbl) -> okr (nth_name tbl i).
Proof.
  intros H. unfold nth_name. destruct (nth_error tbl (Z.to_nat i)) eqn:E.
  - destruct (Z.leb_spec 0 i); [apply okr_ok | lia].
  - apply nth_error_None in E. lia.
Qed.

Lemma format_month_ok len days : okr (format_month len days).
Proof.
  unfold format_month. destruct (days_to_date_rd days) as [V _]. destruct (days_to_date days) as [[y m] d]. destruct V as (_ & Hm & _).
  zcases len; try apply okr_ok; apply nth_name_ok; cbn; lia.
Qed.
Lemma format_wday_ok len days : okr (format_wday len days).
Proof.
  unfold format_wday. pose proof (wd_step days) as [_ W].
  zcases len; try apply okr_ok; apply nth_name_ok; cbn; lia.
Qed.
Lemma days_to_doy_ok days : okr (days_to_doy days).
Proof.
  unfold days_to_doy. destruct (days_to_date_rd days) as [V _]. destruct (days_to_date days) as [[y m] d]. destruct V as (_ & Hm & _).
  unfold year_month_to_doy. destruct (is_leap_year y); month_split m Hm; cbn; apply okr_ok.
Qed.
Lemma format_date_part_ok chars days : okr (format_date_part chars days).
Proof.
  unfold format_date_part. cbv zeta.
  repeat match goal with |- okr (if ?b then _ else _) => destruct b end; try apply okr_ok.
  - destruct (days_to_date days) as [[y m] d]. destruct (Z.of_nat (length chars)) as [|[ [] | [] | ]|]; apply okr_ok.
  - destruct (days_to_date days) as [[y m] d]. apply okr_ok.
  - apply format_month_ok.
  - destruct (days_to_date days) as [[y m] d]. apply okr_ok.
  - apply okr_bind; [apply days_to_doy_ok | intros; apply okr_ok].
  - apply format_wday_ok.
Qed.

Lemma format_period_ok nanos len sep : 1 <= len <= 5 -> okr (format_period nanos len sep).
Proof.
  intros H. unfold format_period. cbv zeta. generalize (wrap_u32 (nanos / NANOS_PER_SEC) mod SECS_PER_DAY). intros time.
  assert (R : exists a b c d, nth_error PERIOD_FORMATS (Z.to_nat (len - 1)) = Some [a; b; c; d]).
  { assert (C : len = 1 \/ len = 2 \/ len = 3 \/ len = 4 \/ len = 5) by lia.
    destruct C as [-> | [-> | [-> | [-> | ->]]]]; vm_compute; do 4 eexists; reflexivity. }
  destruct R as (a & b & c & d & ->). destruct (Z.leb_spec len 0); [lia|]. cbn [nth_error].
  repeat match goal with |- okr (if ?b then _ else _) => destruct b end; apply okr_ok.
Qed.
Lemma first_char_len chars c : first_char chars = c -> 0 <= c -> 1 <= Z.of_nat (length chars).
Proof. destruct chars; cbn [first_char length]; lia. Qed.
Lemma get_length_35 len : 1 <= len -> 1 <= get_length len 3 5 <= 5.
Proof. unfold get_length. destruct (Z.ltb_spec 5 len); lia. Qed.

Lemma format_time_part_ok chars nanos off : okr (format_time_part chars nanos off).
Proof.
  unfold format_time_part. cbv zeta. destruct (nanos_to_time nanos) as [[h m] s].
  destruct (Z.eqb_spec (first_char chars) 97) as [E|_].
  { apply format_period_ok, get_length_35. eapply first_char_len; [exact E | lia]. }
  destruct (Z.eqb_spec (first_char chars) 98) as [E|_].
  { apply format_period_ok, get_length_35. eapply first_char_len; [exact E | lia]. }
  repeat match goal with |- okr (if ?b then _ else _) => destruct b end; apply okr_ok.
Qed.
Lemma format_part_ok chars days nanos off : okr (format_part chars days nanos off).
Proof.
  unfold format_part. cbv zeta. destruct (is_date_symbol _); [apply format_date_part_ok|].
  destruct (is_time_symbol _); [apply format_time_part_ok | apply okr_ok].
Qed.
Lemma concat_res_ok l : (forall r, In r l -> okr r) -> okr (concat_res l).
Proof.
  induction l as [|r tl IH]; intros H; cbn [concat_res]; [apply okr_ok|].
  apply okr_bind; [apply H; left; reflexivity|]. intros a _. apply okr_bind; [apply IH; intros; apply H; right; assumption|]. intros; apply okr_ok.
Qed.
Lemma render_all_ok f parts : (forall p, okr (f p)) -> okr (concat_res (map (render_part f) parts)).
Proof.
  intros Hf. apply concat_res_ok. intros r Hr. apply in_map_iff in Hr as (p & <- & _). unfold render_part.
  destruct (_ =? NUL); [apply okr_ok|]. destruct (_ =? APOS); [apply okr_ok | apply Hf].
Qed.

Theorem date_format_total days fmt : okr (date_format days fmt).
Proof. unfold date_format. apply render_all_ok. intros; apply format_date_part_ok. Qed.
Theorem time_format_total t fmt : okr (time_format t fmt).
Proof. unfold time_format. cbv zeta. apply render_all_ok. intros; apply format_time_part_ok. Qed.
(* a DateTime is valid when its instant and its local reading are both representable (what every constructor and setter guarantees: C10) *)
Theorem dt_format_total v fmt : Valid_dt v -> okr (dt_format v fmt).
Proof.
  intros [I L]. unfold dt_format. cbv zeta. apply okr_bind.
  - unfold add_offset_to_dn. rewrite (days_nanos_to_nanos_spec (dt_days v) (dt_nanos v)).
    destruct (split_ok _ L) as [E _]. unfold local_instant, instant in E. rewrite E. apply okr_ok.
  - intros [days nanos] _. apply render_all_ok. intros; apply format_part_ok.
Qed.
