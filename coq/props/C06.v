(* C06 — elapsed-unit differences are the exact difference of the instants truncated toward zero. *)
From Astro Require Import Base DateModel TimeModel ApiModel InstantSpec TimeProofs SinceTime SinceLaws.

Theorem C06_hours : forall a b, Inv_dt a -> Inv_dt b -> dt_hours_since a b = Z.quot (instant a - instant b) NANOS_PER_HOUR.
Proof. exact c06_hours. Qed.
Theorem C06_minutes : forall a b, Inv_dt a -> Inv_dt b -> dt_minutes_since a b = Z.quot (instant a - instant b) NANOS_PER_MINUTE.
Proof. exact c06_minutes. Qed.
Theorem C06_seconds : forall a b, Inv_dt a -> Inv_dt b -> dt_seconds_since a b = Z.quot (instant a - instant b) NANOS_PER_SEC.
Proof. exact c06_seconds. Qed.
Theorem C06_millis : forall a b, Inv_dt a -> Inv_dt b -> dt_millis_since a b = Z.quot (instant a - instant b) 1000000.
Proof. exact c06_millis. Qed.
Theorem C06_micros : forall a b, Inv_dt a -> Inv_dt b -> dt_micros_since a b = Z.quot (instant a - instant b) 1000.
Proof. exact c06_micros. Qed.
Theorem C06_nanos : forall a b, Inv_dt a -> Inv_dt b -> dt_nanos_since a b = instant a - instant b.
Proof. exact c06_nanos. Qed.
Theorem C06_days : forall a b, Inv_dt a -> Inv_dt b -> dt_days_since a b = Z.quot (instant a - instant b) NANOS_PER_DAY.
Proof. exact c06_days. Qed.
Theorem C06_duration_between : forall a b, Inv_dt a -> Inv_dt b -> dt_duration_between a b = Z.abs (instant a - instant b).
Proof. exact c06_duration_between. Qed.
(* consequences: antisymmetry and inversion of the matching add *)
Theorem C06_antisym : forall a b, Inv_dt a -> Inv_dt b -> dt_seconds_since a b = - dt_seconds_since b a.
Proof. exact c06_antisym. Qed.
Theorem C06_inverts_add : forall u v n v', Inv_dt v -> 0 <= n -> dt_add u v n = Ok v' ->
  Z.quot (instant v' - instant v) (unit_nanos u) = n.
Proof. exact c06_inverts_add. Qed.

(* the same for the Time type (the difference of the two stored times of day) and the Date type *)
Theorem C06_time_hours : forall a b, Inv_tm a -> Inv_tm b -> time_hours_since a b = Z.quot (tm_nanos a - tm_nanos b) NANOS_PER_HOUR.
Proof. exact time_hours_since_is. Qed.
Theorem C06_time_minutes : forall a b, Inv_tm a -> Inv_tm b -> time_minutes_since a b = Z.quot (tm_nanos a - tm_nanos b) NANOS_PER_MINUTE.
Proof. exact time_minutes_since_is. Qed.
Theorem C06_time_seconds : forall a b, Inv_tm a -> Inv_tm b -> time_seconds_since a b = Z.quot (tm_nanos a - tm_nanos b) NANOS_PER_SEC.
Proof. exact time_seconds_since_is. Qed.
Theorem C06_time_millis : forall a b, Inv_tm a -> Inv_tm b -> time_millis_since a b = Z.quot (tm_nanos a - tm_nanos b) 1000000.
Proof. exact time_millis_since_is. Qed.
Theorem C06_time_micros : forall a b, Inv_tm a -> Inv_tm b -> time_micros_since a b = Z.quot (tm_nanos a - tm_nanos b) 1000.
Proof. exact time_micros_since_is. Qed.
Theorem C06_time_nanos : forall a b, Inv_tm a -> Inv_tm b -> time_nanos_since a b = tm_nanos a - tm_nanos b.
Proof. exact time_nanos_since_is. Qed.
Theorem C06_time_duration_between : forall a b, time_duration_between a b = Z.abs (tm_nanos a - tm_nanos b).
Proof. exact time_duration_between_is. Qed.
Theorem C06_date_days : forall a b, date_days_since a b = a - b.
Proof. exact date_days_since_is. Qed.
Theorem C06_date_duration_between : forall a b, date_duration_between a b = Z.abs (a - b) * SECS_PER_DAY.
Proof. exact date_duration_between_is. Qed.

(* "hence is antisymmetric" for every unit and every type; "duration_between ... is symmetric" for every type.
   dt_antisym_all a b := x_since a b = - x_since b a for days, hours, minutes, seconds, millis, micros, nanos;
   tm_antisym_all the same for the six units of Time *)
Theorem C06_antisym_all : forall a b, Inv_dt a -> Inv_dt b -> dt_antisym_all a b.
Proof. exact dt_since_antisym. Qed.
Theorem C06_time_antisym_all : forall a b, Inv_tm a -> Inv_tm b -> tm_antisym_all a b.
Proof. exact time_since_antisym. Qed.
Theorem C06_date_antisym : forall a b, date_days_since a b = - date_days_since b a.
Proof. exact date_since_antisym. Qed.
Theorem C06_duration_between_sym :
  (forall a b, Inv_dt a -> Inv_dt b -> dt_duration_between a b = dt_duration_between b a) /\
  (forall a b, time_duration_between a b = time_duration_between b a) /\
  (forall a b, date_duration_between a b = date_duration_between b a).
Proof. exact duration_between_sym_all. Qed.

Print Assumptions C06_time_hours.
Print Assumptions C06_time_minutes.
Print Assumptions C06_time_seconds.
Print Assumptions C06_time_millis.
Print Assumptions C06_time_micros.
Print Assumptions C06_time_nanos.
Print Assumptions C06_time_duration_between.
Print Assumptions C06_date_days.
Print Assumptions C06_date_duration_between.
Print Assumptions C06_hours.
Print Assumptions C06_minutes.
Print Assumptions C06_seconds.
Print Assumptions C06_millis.
Print Assumptions C06_micros.
Print Assumptions C06_nanos.
Print Assumptions C06_days.
Print Assumptions C06_duration_between.
Print Assumptions C06_antisym.
Print Assumptions C06_inverts_add.
Print Assumptions C06_antisym_all.
Print Assumptions C06_time_antisym_all.
Print Assumptions C06_date_antisym.
Print Assumptions C06_duration_between_sym.
