(* WeekSweep2.v — complete enumeration, inside the kernel, of days 36526 .. 54788 of the 400-year cycle. *)
From Astro Require Import Base CalSpec DateModel DateProofs WeekProofs.
Lemma week_sweep_2 : range_all week_ok 36526 (Z.to_nat 18263) = true.
Proof. vm_compute. reflexivity. Qed.
