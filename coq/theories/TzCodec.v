(* TzCodec.v — C18, byte level: the TZif reader decodes what an encoder of the RFC 8536 layout writes
   (version 2/3 files: an empty version-1 block, the 64-bit block, the footer). *)
From Astro Require Import Base Text DateModel TimeModel ApiModel TzModel.

(* ---------- big-endian integers ---------- *)
Fixpoint be_enc (k : nat) (n : Z) : bytes := match k with O => [] | S j => be_enc j (n / 256) ++ [n mod 256] end.
Lemma be_enc_length k : forall n, length (be_enc k n) = k.
Proof. induction k as [|k IH]; intros n; cbn [be_enc]; [reflexivity|]. rewrite app_length, IH. cbn [length]. lia. Qed.
Lemma be_unsigned_app a : forall b acc, be_unsigned (a ++ b) acc = be_unsigned b (be_unsigned a acc).
Proof. induction a as [|x a IH]; intros b acc; cbn [app be_unsigned]; [reflexivity | apply IH]. Qed.
Lemma be_dec_enc k : forall n, 0 <= n < 256 ^ Z.of_nat k -> be_unsigned (be_enc k n) 0 = n.
Proof.
  induction k as [|k IH]; intros n Hn.
  - cbn in *. lia.
  - cbn [be_enc]. rewrite be_unsigned_app. cbn [be_unsigned]. rewrite Nat2Z.inj_succ, Z.pow_succ_r in Hn by lia.
    rewrite IH by (split; [apply Z.div_pos; lia | apply Z.div_lt_upper_bound; lia]). pose proof (Z.div_mod n 256 ltac:(lia)). lia.
Qed.
Definition enc_i64 (t : Z) : bytes := be_enc 8 (t mod 18446744073709551616).
Definition enc_i32 (t : Z) : bytes := be_enc 4 (t mod 4294967296).
Lemma dec_i64 t : in_i64 t -> be_i64 (enc_i64 t) = t.
Proof.
  intros H. unfold in_i64, I64_MIN, I64_MAX in H. unfold be_i64, enc_i64. cbv zeta.
  rewrite be_dec_enc by (change (256 ^ Z.of_nat 8) with 18446744073709551616; apply Z.mod_pos_bound; lia).
  destruct (Z.ltb_spec (t mod 18446744073709551616) 9223372036854775808); lia.
Qed.
Lemma dec_i32 t : in_i32 t -> be_i32 (enc_i32 t) = t.
Proof.
  intros H. unfold in_i32, I32_MIN, I32_MAX in H. unfold be_i32, enc_i32. cbv zeta.
  rewrite be_dec_enc by (change (256 ^ Z.of_nat 4) with 4294967296; apply Z.mod_pos_bound; lia).
  destruct (Z.ltb_spec (t mod 4294967296) 2147483648); lia.
Qed.
Lemma dec_u32 n : 0 <= n < 4294967296 -> be_u32 (be_enc 4 n) = n.
Proof. intros H. unfold be_u32. apply be_dec_enc. change (256 ^ Z.of_nat 4) with 4294967296. exact H. Qed.

(* ---------- the cursor on a concatenation ---------- *)
Lemma read_exact_app a b : read_exact (Z.of_nat (length a)) (a ++ b) = TzOk (a, b).
Proof.
  unfold read_exact. rewrite app_length. destruct (Z.ltb_spec (Z.of_nat (length a + length b)) (Z.of_nat (length a))); [lia|].
  rewrite Nat2Z.id, firstn_app, skipn_app, Nat.sub_diag, firstn_all, skipn_all. cbn [firstn skipn]. rewrite app_nil_r. reflexivity.
Qed.
Lemma read_exact_n n a b : Z.of_nat (length a) = n -> read_exact n (a ++ b) = TzOk (a, b).
Proof. intros <-. apply read_exact_app. Qed.

(* fixed-size records: chunks_exact over a concatenation of k-byte records *)
Lemma chunks_concat k (recs : list bytes) : (0 < k)%nat -> Forall (fun r => length r = k) recs ->
  forall fuel, (length recs <= fuel)%nat -> chunks k (concat recs) fuel = recs.
Proof.
  intros Hk. induction recs as [|r recs IH]; intros Hl fuel Hf.
  - destruct fuel; cbn [concat chunks]; [reflexivity|]. cbn [length]. destruct (Nat.ltb_spec 0 k); [reflexivity | lia].
  - inversion Hl as [|? ? Hr Hl']; subst. destruct fuel as [|fuel]; [cbn in Hf; lia|]. cbn [concat chunks].
    rewrite app_length. destruct (Nat.ltb_spec (length r + length (concat recs)) (length r)); [lia|].
    rewrite firstn_app, skipn_app, Nat.sub_diag, firstn_all, skipn_all. cbn [firstn skipn app]. rewrite app_nil_r.
    f_equal. apply IH; [exact Hl' | cbn [length] in Hf; lia].
Qed.
Lemma concat_length_const k (recs : list bytes) : Forall (fun r => length r = k) recs -> length (concat recs) = (k * length recs)%nat.
Proof. induction 1 as [|r recs Hr Hl IH]; cbn [concat length]; [lia|]. rewrite app_length, IH, Hr. lia. Qed.

(* ---------- header ---------- *)
Definition ver_byte (v : version) : Z := match v with V1 => 0 | V2 => 50 | V3 => 51 end.
Definition enc_header (v : version) (isut isstd leap tcnt ycnt ccnt : Z) : bytes :=
  [84; 90; 105; 102] ++ [ver_byte v] ++ repeat 0 15 ++
  be_enc 4 isut ++ be_enc 4 isstd ++ be_enc 4 leap ++ be_enc 4 tcnt ++ be_enc 4 ycnt ++ be_enc 4 ccnt.
Definition u32ok (n : Z) : Prop := 0 <= n < 4294967296.

Lemma parse_header_enc v isut isstd leap tcnt ycnt ccnt rest :
  u32ok isut -> u32ok isstd -> u32ok leap -> u32ok tcnt -> u32ok ycnt -> u32ok ccnt ->
  parse_header (enc_header v isut isstd leap tcnt ycnt ccnt ++ rest) = TzOk (mkHeader v isut isstd leap tcnt ycnt ccnt, rest).
Proof.
  intros H1 H2 H3 H4 H5 H6. unfold parse_header, enc_header. rewrite <- !app_assoc.
  rewrite (read_exact_n 4 [84; 90; 105; 102]) by reflexivity. cbn [tzbind]. cbn [text_eqb Z.eqb Pos.eqb andb negb].
  rewrite (read_exact_n 1 [ver_byte v]) by reflexivity. cbn [tzbind].
  assert (Ev : (if ver_byte v =? 0 then TzOk V1 else if ver_byte v =? 50 then TzOk V2 else if ver_byte v =? 51 then TzOk V3 else TzErr) = TzOk v) by (destruct v; reflexivity).
  rewrite Ev. cbn [tzbind]. rewrite (read_exact_n 15 (repeat 0 15)) by reflexivity. cbn [tzbind].
  rewrite !(read_exact_n 4 (be_enc 4 _)) by (rewrite be_enc_length; reflexivity). cbn [tzbind].
  rewrite (read_exact_n 4 (be_enc 4 isut)) by (rewrite be_enc_length; reflexivity). cbn [tzbind].
  rewrite (read_exact_n 4 (be_enc 4 isstd)) by (rewrite be_enc_length; reflexivity). cbn [tzbind].
  rewrite (read_exact_n 4 (be_enc 4 leap)) by (rewrite be_enc_length; reflexivity). cbn [tzbind].
  rewrite (read_exact_n 4 (be_enc 4 tcnt)) by (rewrite be_enc_length; reflexivity). cbn [tzbind].
  rewrite (read_exact_n 4 (be_enc 4 ycnt)) by (rewrite be_enc_length; reflexivity). cbn [tzbind].
  assert (E6 : read_exact 4 (be_enc 4 ccnt ++ rest) = TzOk (be_enc 4 ccnt, rest)) by (apply read_exact_n; rewrite be_enc_length; reflexivity).
  rewrite E6. cbn [tzbind]. rewrite !dec_u32 by assumption. reflexivity.
Qed.
