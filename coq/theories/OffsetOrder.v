(* OffsetOrder.v — C10: set_offset leaves ordering, equality, timestamp and differences unchanged. *)
From Astro Require Import Base DateModel TimeModel ApiModel InstantSpec TimeProofs OffsetProofs.

Theorem c10_set_offset_order v o v' : dt_set_offset v o = Ok v' ->
  dt_cmp v' v = Eq /\ dt_eqb v' v = true /\ dt_timestamp v' = dt_timestamp v /\ dt_nanos_since v' v = 0 /\
  (forall w, dt_cmp v' w = dt_cmp v w /\ dt_cmp w v' = dt_cmp w v).
Proof.
  intros E. assert (F : dt_days v' = dt_days v /\ dt_nanos v' = dt_nanos v).
  { revert E. unfold dt_set_offset. cbv zeta. destruct (_ || _ || _); [discriminate|]. intros E. injection E as <-. split; reflexivity. }
  destruct F as [Fd Fn].
  assert (N : dt_as_nanos v' = dt_as_nanos v) by (rewrite !dt_as_nanos_instant; unfold instant; rewrite Fd, Fn; reflexivity).
  unfold dt_cmp, dt_eqb, dt_nanos_since, dt_timestamp, dt_as_seconds. rewrite N, Fd, Fn.
  repeat split; try apply Z.compare_refl; try apply Z.eqb_refl; try lia.
Qed.
