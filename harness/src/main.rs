//! Correspondence harness: runs /repo's public API on generated inputs and prints, per case,
//! `<nontrivial flag>\t<input encoding>\t<Coq term of type Cases.case>`.
//!   harness gen <property> <tier> <seed>       generate inputs, run them, print cases
//!   harness replay                              read input encodings from stdin, run them, print cases
mod civil;
mod common;
mod cron;
mod tz;
mod text;
mod gens;
mod arith;
mod c01;

use common::*;
use std::io::{BufRead, Write};

fn run_input(inp: &Input) -> Obs {
    if let Some(o) = c01::run(inp) {
        return o;
    }
    if let Some(o) = arith::run(inp) {
        return o;
    }
    if let Some(o) = cron::run(inp) {
        return o;
    }
    if let Some(o) = tz::run(inp) {
        return o;
    }
    if let Some(o) = text::run(inp) {
        return o;
    }
    panic!("unknown op {}", inp.op);
}

fn main() {
    std::panic::set_hook(Box::new(|_| {}));
    let args: Vec<String> = std::env::args().collect();
    let stdout = std::io::stdout();
    let mut out = std::io::BufWriter::new(stdout.lock());
    match args.get(1).map(|s| s.as_str()) {
        Some("gen") => {
            let prop = args[2].as_str();
            let tier = args[3].as_str();
            let seed: u64 = args[4].parse().unwrap_or(1);
            let mut g = Gen { rng: Rng(seed ^ 0xA5A5_5A5A_0000_0000), out: vec![], last_nanos: 0 };
            match prop {
                "C01" => c01::generate(&mut g, tier),
                "C02" => gens::gen_c02(&mut g, tier),
                "C03" => gens::gen_c03(&mut g, tier),
                "C04" => gens::gen_c04(&mut g, tier),
                "C05" => gens::gen_c05(&mut g, tier),
                "C06" => gens::gen_c06(&mut g, tier),
                "C07" => gens::gen_c07(&mut g, tier),
                "C08" => gens::gen_c08(&mut g, tier),
                "C09" => gens::gen_c09(&mut g, tier),
                "C10" => gens::gen_c10(&mut g, tier),
                "C11" => text::gen_c11(&mut g, tier),
                "C12" => text::gen_c12(&mut g, tier),
                "C13" => text::gen_c13(&mut g, tier),
                "C14" => text::gen_c14(&mut g, tier),
                "C20" => text::gen_c20(&mut g, tier),
                "C15" => gens::gen_c15(&mut g, tier),
                "C16" => cron::gen_c16(&mut g, tier),
                "C17" => cron::gen_c17(&mut g, tier),
                "C18" => tz::gen_c18(&mut g, tier),
                "C19" => tz::gen_c19(&mut g, tier),
                _ => {
                    eprintln!("unknown property {}", prop);
                    std::process::exit(2);
                }
            }
            for (nt, inp) in g.out.iter() {
                let obs = run_input(inp);
                writeln!(out, "{}\t{}\t{}\t{}", if *nt { 1 } else { 0 }, obs_class(&obs), inp.encode(), coq_term(inp, &obs)).unwrap();
            }
        }
        Some("replay") => {
            let stdin = std::io::stdin();
            for line in stdin.lock().lines() {
                let line = line.unwrap();
                if line.trim().is_empty() {
                    continue;
                }
                match Input::decode(&line) {
                    Some(inp) => {
                        let obs = run_input(&inp);
                        writeln!(out, "1\t{}\t{}\t{}", obs_class(&obs), inp.encode(), coq_term(&inp, &obs)).unwrap();
                    }
                    None => {
                        eprintln!("cannot decode input line: {}", line);
                        std::process::exit(2);
                    }
                }
            }
        }
        _ => {
            eprintln!("usage: harness gen <property> <tier> <seed> | harness replay");
            std::process::exit(2);
        }
    }
}
