(* WeekFinal.v — days_to_wyear is the ISO-8601 week for every day number: the eight sweeps cover one
   400-year cycle (146097 days) completely; periodicity extends the result to all integers. *)
From Astro Require Import Base CalSpec DateModel DateProofs WeekProofs
  WeekSweep0 WeekSweep1 WeekSweep2 WeekSweep3 WeekSweep4 WeekSweep5 WeekSweep6 WeekSweep7.

Lemma week_ok_cycle k : 0 <= k < 146097 -> week_ok k = true.
Proof.
  intros H.
  assert (C : 0 <= k < 18263 \/ 18263 <= k < 36526 \/ 36526 <= k < 54789 \/ 54789 <= k < 73052 \/
              73052 <= k < 91315 \/ 91315 <= k < 109578 \/ 109578 <= k < 127841 \/ 127841 <= k < 146104) by lia.
  destruct C as [C | [C | [C | [C | [C | [C | [C | C]]]]]]].
  - apply (range_all_spec _ _ _ week_sweep_0). rewrite Z2Nat.id; lia.
  - apply (range_all_spec _ _ _ week_sweep_1). rewrite Z2Nat.id; lia.
  - apply (range_all_spec _ _ _ week_sweep_2). rewrite Z2Nat.id; lia.
  - apply (range_all_spec _ _ _ week_sweep_3). rewrite Z2Nat.id; lia.
  - apply (range_all_spec _ _ _ week_sweep_4). rewrite Z2Nat.id; lia.
  - apply (range_all_spec _ _ _ week_sweep_5). rewrite Z2Nat.id; lia.
  - apply (range_all_spec _ _ _ week_sweep_6). rewrite Z2Nat.id; lia.
  - apply (range_all_spec _ _ _ week_sweep_7). rewrite Z2Nat.id; lia.
Qed.

Lemma week_ok_period d : week_ok (d + 146097) = week_ok d.
Proof. unfold week_ok. rewrite wyear_period, iso_exec_period. reflexivity. Qed.

Lemma week_ok_shift q : forall r, week_ok (r + 146097 * q) = week_ok r.
Proof.
  intros r. destruct (Z.le_gt_cases 0 q) as [Hq | Hq].
  - revert r. pattern q. apply natlike_ind; [| |exact Hq].
    + intros r. f_equal. lia.
    + intros x Hx IH r. replace (r + 146097 * Z.succ x) with ((r + 146097 * x) + 146097) by lia.
      rewrite week_ok_period. apply IH.
  - assert (Hn : 0 <= - q) by lia. remember (- q) as p eqn:Ep. assert (q = - p) by lia. subst q. clear Ep Hq.
    revert r. pattern p. apply natlike_ind; [| |exact Hn].
    + intros r. f_equal. lia.
    + intros x Hx IH r. rewrite <- (week_ok_period (r + 146097 * - Z.succ x)).
      replace (r + 146097 * - Z.succ x + 146097) with (r + 146097 * - x) by lia. apply IH.
Qed.

Theorem week_spec d : days_to_wyear d = iso_week_exec d /\ is_iso_week d (days_to_wyear d).
Proof.
  assert (E : week_ok d = true).
  { rewrite (Z.div_mod d 146097) by lia. rewrite Z.add_comm, week_ok_shift. apply week_ok_cycle.
    apply Z.mod_pos_bound. lia. }
  unfold week_ok in E. apply Z.eqb_eq in E. split; [exact E|]. rewrite E. apply iso_week_exec_spec.
Qed.
