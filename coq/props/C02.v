(* C02 — weekday, day of year, ISO week and quarter follow the calendar for every day. *)
From Astro Require Import Base CalSpec DateModel DateProofs WeekProofs WeekFinal.

(* weekday: 0 = Sunday, 1970-01-01 (day 719162) is a Thursday, 0001-01-01 a Monday, +1 mod 7 per day *)
Theorem C02_wd_anchor : days_to_wday 719162 false = 4 /\ days_to_wday 0 false = 1.
Proof. exact wd_anchor. Qed.
Theorem C02_wd_step : forall d, days_to_wday (d + 1) false = (days_to_wday d false + 1) mod 7 /\ 0 <= days_to_wday d false <= 6.
Proof. exact wd_step. Qed.
Theorem C02_wd_monday_first : forall d, days_to_wday d true = (days_to_wday d false + 6) mod 7.
Proof. exact wd_monday_first. Qed.
(* day of year = 1 + days since 1 January of the same year (rd = day number of a date, C01) *)
Theorem C02_doy : forall d, let '(y, m, dd) := days_to_date d in days_to_doy d = Ok (1 + d - rd (y, 1, 1)).
Proof. exact doy_spec. Qed.
(* format("w") is the ISO-8601 week: the week's Thursday decides the year, weeks count from its first Thursday *)
Theorem C02_week : forall d, days_to_wyear d = iso_week_exec d /\ is_iso_week d (days_to_wyear d).
Proof. exact week_spec. Qed.
(* set_day_of_year n: the n-th day of the same year, or refused when the year has no such (representable) day *)
Theorem C02_set_doy : forall d n, 0 <= n ->
  let '(y, m, dd) := days_to_date d in
  (1 <= n <= ylen y /\ in_i32 (rd (y, 1, 1) + n - 1) ->
     exists d', set_day_of_year d n = Ok d' /\ d' = rd (y, 1, 1) + n - 1 /\
                fst (fst (days_to_date d')) = y /\ days_to_doy d' = Ok n) /\
  (~ (1 <= n <= ylen y /\ in_i32 (rd (y, 1, 1) + n - 1)) -> exists nm a b v, set_day_of_year d n = Err (EOor nm a b v)).
Proof. exact set_doy_spec. Qed.
(* rd is "the day number of a date": anchored at 0001-01-01 and +1 along the calendar successor *)
Theorem C02_rd_char : rd (1, 1, 1) = 0 /\ forall x, valid x -> rd (next_date x) = rd x + 1.
Proof. split; [reflexivity | exact rd_next]. Qed.

Example C02_nonvacuous : days_to_wyear (-1) = 52 /\ days_to_wyear 738155 = 52 /\ days_to_wyear 737790 = 53 /\
  is_iso_week 0 1 /\ days_to_wday (-1) false = 0.
Proof. repeat split; try reflexivity. exists 1. cbn. lia. Qed.

Print Assumptions C02_wd_anchor.
Print Assumptions C02_wd_step.
Print Assumptions C02_wd_monday_first.
Print Assumptions C02_doy.
Print Assumptions C02_week.
Print Assumptions C02_set_doy.
Print Assumptions C02_rd_char.
