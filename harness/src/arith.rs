//! Arithmetic API operations on Date / Time / DateTime (C02–C10, C15): one generic dispatcher.
use crate::c01::{date_days, dt_parts, ts_of_day, ERR_SENTINEL};
use crate::common::*;
use crate::gens::{NPD, NPS};
use astrolabe::{Date, DateTime, DateUtilities, Offset, OffsetUtilities, Time, TimeUtilities};
use std::time::Duration;

pub fn time_parts(t: &Time) -> (i128, i128) {
    let s = format!("{:?}", t);
    (debug_field(&s, "nanoseconds").expect("time nanos"), debug_field(&s, "offset").unwrap_or(ERR_SENTINEL))
}
/// Builds the DateTime with exactly these private fields through the public API; None if impossible.
pub fn mk_dt(days: i128, nanos: i128, off: i128) -> Option<DateTime> {
    let r = std::panic::catch_unwind(|| {
        let t = Time::from_nanos(nanos as u64).ok()?;
        let v = DateTime::from_timestamp(ts_of_day(days)).set_time(t);
        let v = if off != 0 { v.set_offset(Offset::Fixed(off as i32)) } else { v };
        if dt_parts(&v) == (days, nanos, off) { Some(v) } else { None }
    });
    r.ok().flatten()
}
pub fn mk_time(nanos: i128, off: i128) -> Option<Time> {
    let r = std::panic::catch_unwind(|| {
        let t = Time::from_nanos(nanos as u64).ok()?.set_offset(Offset::Fixed(off as i32));
        if time_parts(&t) == (nanos, off) { Some(t) } else { None }
    });
    r.ok().flatten()
}
pub fn mk_date(days: i128) -> Option<Date> {
    let r = std::panic::catch_unwind(|| {
        let d = Date::from_timestamp(ts_of_day(days));
        if date_days(&d) == days { Some(d) } else { None }
    });
    r.ok().flatten()
}
const UNCONSTRUCTIBLE: Obs = Obs::Err(9, vec![]);
fn dt_obs(v: &DateTime) -> Obs {
    let (d, n, o) = dt_parts(v);
    Obs::Ok(vec![d, n, o], vec![])
}
fn tm_obs(v: &Time) -> Obs {
    let (n, o) = time_parts(v);
    Obs::Ok(vec![n, o], vec![])
}
fn res_dt(r: Result<DateTime, astrolabe::errors::AstrolabeError>) -> Obs {
    match r { Ok(v) => dt_obs(&v), Err(e) => err_obs(&e) }
}
fn res_tm(r: Result<Time, astrolabe::errors::AstrolabeError>) -> Obs {
    match r { Ok(v) => tm_obs(&v), Err(e) => err_obs(&e) }
}
fn res_date(r: Result<Date, astrolabe::errors::AstrolabeError>) -> Obs {
    match r { Ok(v) => Obs::Ok(vec![date_days(&v)], vec![]), Err(e) => err_obs(&e) }
}
fn ord(o: std::cmp::Ordering) -> i128 {
    match o { std::cmp::Ordering::Less => -1, std::cmp::Ordering::Equal => 0, std::cmp::Ordering::Greater => 1 }
}
fn dur(secs: i128, ns: i128) -> Duration {
    Duration::new(secs as u64, ns as u32)
}

pub fn run(inp: &Input) -> Option<Obs> {
    let i = inp.ints.clone();
    let inp_strs = inp.strs.clone();
    let op = inp.op.clone();
    let known = [
        "dt_from_ts", "date_from_ts", "dt_cmp", "date_cmp", "time_cmp", "dt_add", "dt_sub", "dt_add_dur", "dt_sub_dur",
        "dt_add_time", "dt_sub_time", "date_add_days", "date_sub_days", "date_add_dur", "date_sub_dur", "dt_since",
        "dt_dur_between", "time_since", "time_dur_between", "date_days_since", "date_dur_between", "time_ctor",
        "time_add", "time_sub", "time_add_time", "time_sub_time", "time_add_dur", "time_sub_dur", "time_get",
        "date_addm", "dt_addm", "date_ms", "dt_ms", "dt_set", "dt_clear", "time_set", "time_clear", "date_set",
        "date_clear", "dt_get", "dt_set_offset", "dt_as_offset", "time_set_offset", "time_as_offset",
        "offset_from_seconds", "offset_from_hms", "dt_from_ymdhms", "dt_from_hms", "date_info", "dt_info",
        "time_of_dt", "time_seq",
    ];
    if !known.contains(&op.as_str()) {
        return None;
    }
    Some(guarded(move || match op.as_str() {
        // ---------------- C03
        "dt_from_ts" => {
            let v = DateTime::from_timestamp(i[0] as i64);
            let (d, n, o) = dt_parts(&v);
            let (y, m, dd, h, mi, s) = v.as_ymdhms();
            Obs::Ok(vec![d, n, o, v.timestamp() as i128, y as i128, m as i128, dd as i128, h as i128, mi as i128, s as i128], vec![])
        }
        "date_from_ts" => {
            let v = Date::from_timestamp(i[0] as i64);
            Obs::Ok(vec![date_days(&v), v.timestamp() as i128], vec![])
        }
        "dt_cmp" => {
            let (a, b) = match (mk_dt(i[0], i[1], i[2]), mk_dt(i[3], i[4], i[5])) { (Some(a), Some(b)) => (a, b), _ => return UNCONSTRUCTIBLE };
            // "sum:<nanos>": the left operand is not built directly but obtained as (value - t) + Time(t) / + Duration(t), i.e. it is
            // the same instant reached through the public operators (the order must not depend on how a value was obtained)
            let a = match inp_strs.first().and_then(|x| x.strip_prefix("sum:")).and_then(|x| x.parse::<i128>().ok()) {
                Some(t) => {
                    let tot = i[0] * NPD + i[1] - t;
                    let base = match mk_dt(tot.div_euclid(NPD), tot.rem_euclid(NPD), i[2]) { Some(v) => v, None => return UNCONSTRUCTIBLE };
                    if t < NPD && t % 2 == 0 { base + Time::from_nanos(t as u64).unwrap() } else { base + Duration::new((t / NPS) as u64, (t % NPS) as u32) }
                }
                None => a };
            Obs::Ok(vec![ord(a.cmp(&b)), (a == b) as i128, (a < b) as i128, (a >= b) as i128], vec![])
        }
        "date_cmp" => {
            let (a, b) = match (mk_date(i[0]), mk_date(i[1])) { (Some(a), Some(b)) => (a, b), _ => return UNCONSTRUCTIBLE };
            Obs::Ok(vec![ord(a.cmp(&b)), (a == b) as i128, (a < b) as i128, (a >= b) as i128], vec![])
        }
        "time_cmp" => {
            let (a, b) = match (mk_time(i[0], i[1]), mk_time(i[2], i[3])) { (Some(a), Some(b)) => (a, b), _ => return UNCONSTRUCTIBLE };
            Obs::Ok(vec![ord(a.cmp(&b)), (a == b) as i128, (a < b) as i128, (a >= b) as i128], vec![])
        }
        // ---------------- C04
        "dt_add" | "dt_sub" => {
            let v = match mk_dt(i[1], i[2], i[3]) { Some(v) => v, None => return UNCONSTRUCTIBLE };
            let n = i[4] as u32;
            let add = op == "dt_add";
            let r = match (i[0], add) {
                (0, true) => v.add_hours(n), (1, true) => v.add_minutes(n), (2, true) => v.add_seconds(n),
                (3, true) => v.add_millis(n), (4, true) => v.add_micros(n), (5, true) => v.add_nanos(n), (6, true) => v.add_days(n),
                (0, false) => v.sub_hours(n), (1, false) => v.sub_minutes(n), (2, false) => v.sub_seconds(n),
                (3, false) => v.sub_millis(n), (4, false) => v.sub_micros(n), (5, false) => v.sub_nanos(n), (_, _) => v.sub_days(n),
            };
            dt_obs(&r)
        }
        "dt_add_dur" | "dt_sub_dur" => {
            let v = match mk_dt(i[0], i[1], i[2]) { Some(v) => v, None => return UNCONSTRUCTIBLE };
            let d = dur(i[3], i[4]);
            if op == "dt_add_dur" {
                let mut w = v; w += d; let r = v + d;
                if dt_parts(&w) != dt_parts(&r) { return Obs::Err(8, vec![]) }
                dt_obs(&r)
            } else {
                let mut w = v; w -= d; let r = v - d;
                if dt_parts(&w) != dt_parts(&r) { return Obs::Err(8, vec![]) }
                dt_obs(&r)
            }
        }
        "dt_add_time" | "dt_sub_time" => {
            let v = match mk_dt(i[0], i[1], i[2]) { Some(v) => v, None => return UNCONSTRUCTIBLE };
            let t = match mk_time(i[3], i[4]) { Some(t) => t, None => return UNCONSTRUCTIBLE };
            if op == "dt_add_time" { dt_obs(&(v + t)) } else { dt_obs(&(v - t)) }
        }
        "date_add_days" | "date_sub_days" => {
            let v = match mk_date(i[0]) { Some(v) => v, None => return UNCONSTRUCTIBLE };
            let r = if op == "date_add_days" { v.add_days(i[1] as u32) } else { v.sub_days(i[1] as u32) };
            Obs::Ok(vec![date_days(&r)], vec![])
        }
        "date_add_dur" | "date_sub_dur" => {
            let v = match mk_date(i[0]) { Some(v) => v, None => return UNCONSTRUCTIBLE };
            let d = dur(i[1], i[2]);
            let r = if op == "date_add_dur" { v + d } else { v - d };
            Obs::Ok(vec![date_days(&r)], vec![])
        }
        // ---------------- C06
        "dt_since" => {
            let (a, b) = match (mk_dt(i[1], i[2], i[3]), mk_dt(i[4], i[5], i[6])) { (Some(a), Some(b)) => (a, b), _ => return UNCONSTRUCTIBLE };
            let r: i128 = match i[0] {
                0 => a.hours_since(&b) as i128, 1 => a.minutes_since(&b) as i128, 2 => a.seconds_since(&b) as i128,
                3 => a.millis_since(&b), 4 => a.micros_since(&b), 5 => a.nanos_since(&b), _ => a.days_since(&b) as i128,
            };
            Obs::Ok(vec![r], vec![])
        }
        "dt_dur_between" => {
            let (a, b) = match (mk_dt(i[0], i[1], i[2]), mk_dt(i[3], i[4], i[5])) { (Some(a), Some(b)) => (a, b), _ => return UNCONSTRUCTIBLE };
            let d = a.duration_between(&b);
            let d2 = b.duration_between(&a);
            Obs::Ok(vec![d.as_nanos() as i128, d2.as_nanos() as i128], vec![])
        }
        "time_since" => {
            let (a, b) = match (mk_time(i[1], i[2]), mk_time(i[3], i[4])) { (Some(a), Some(b)) => (a, b), _ => return UNCONSTRUCTIBLE };
            let r: i128 = match i[0] {
                0 => a.hours_since(&b) as i128, 1 => a.minutes_since(&b) as i128, 2 => a.seconds_since(&b) as i128,
                3 => a.millis_since(&b) as i128, 4 => a.micros_since(&b) as i128, _ => a.nanos_since(&b) as i128,
            };
            Obs::Ok(vec![r], vec![])
        }
        "time_dur_between" => {
            let (a, b) = match (mk_time(i[0], i[1]), mk_time(i[2], i[3])) { (Some(a), Some(b)) => (a, b), _ => return UNCONSTRUCTIBLE };
            Obs::Ok(vec![a.duration_between(&b).as_nanos() as i128, b.duration_between(&a).as_nanos() as i128], vec![])
        }
        "date_days_since" => {
            let (a, b) = match (mk_date(i[0]), mk_date(i[1])) { (Some(a), Some(b)) => (a, b), _ => return UNCONSTRUCTIBLE };
            Obs::Ok(vec![a.days_since(&b) as i128], vec![])
        }
        "date_dur_between" => {
            let (a, b) = match (mk_date(i[0]), mk_date(i[1])) { (Some(a), Some(b)) => (a, b), _ => return UNCONSTRUCTIBLE };
            Obs::Ok(vec![a.duration_between(&b).as_nanos() as i128, b.duration_between(&a).as_nanos() as i128], vec![])
        }
        // ---------------- C08
        "time_ctor" => match i[0] {
            0 => res_tm(Time::from_hms(i[1] as u32, i[2] as u32, i[3] as u32)),
            1 => res_tm(Time::from_seconds(i[1] as u32)),
            _ => res_tm(Time::from_nanos(i[1] as u64)),
        },
        "time_add" | "time_sub" => {
            let v = match mk_time(i[1], i[2]) { Some(v) => v, None => return UNCONSTRUCTIBLE };
            let n = i[3] as u32;
            let add = op == "time_add";
            let r = match (i[0], add) {
                (0, true) => v.add_hours(n), (1, true) => v.add_minutes(n), (2, true) => v.add_seconds(n),
                (3, true) => v.add_millis(n), (4, true) => v.add_micros(n), (_, true) => v.add_nanos(n),
                (0, false) => v.sub_hours(n), (1, false) => v.sub_minutes(n), (2, false) => v.sub_seconds(n),
                (3, false) => v.sub_millis(n), (4, false) => v.sub_micros(n), (_, false) => v.sub_nanos(n),
            };
            tm_obs(&r)
        }
        "time_add_time" | "time_sub_time" => {
            let (a, b) = match (mk_time(i[0], i[1]), mk_time(i[2], i[3])) { (Some(a), Some(b)) => (a, b), _ => return UNCONSTRUCTIBLE };
            if op == "time_add_time" { tm_obs(&(a + b)) } else { tm_obs(&(a - b)) }
        }
        "time_add_dur" | "time_sub_dur" => {
            let a = match mk_time(i[0], i[1]) { Some(a) => a, None => return UNCONSTRUCTIBLE };
            let d = dur(i[2], i[3]);
            if op == "time_add_dur" { tm_obs(&(a + d)) } else { tm_obs(&(a - d)) }
        }
        "time_get" => {
            let a = match mk_time(i[0], i[1]) { Some(a) => a, None => return UNCONSTRUCTIBLE };
            let (h, m, s) = a.as_hms();
            Obs::Ok(vec![a.as_nanos() as i128, a.as_seconds() as i128, h as i128, m as i128, s as i128,
                         a.hour() as i128, a.minute() as i128, a.second() as i128, a.milli() as i128, a.micro() as i128, a.nano() as i128], vec![])
        }
        "time_of_dt" => {
            let v = match mk_dt(i[0], i[1], i[2]) { Some(v) => v, None => return UNCONSTRUCTIBLE };
            tm_obs(&Time::from(v))
        }
        // ---------------- C05
        "date_addm" => {
            let v = match mk_date(i[1]) { Some(v) => v, None => return UNCONSTRUCTIBLE };
            let n = i[2] as u32;
            let r = match i[0] { 0 => v.add_months(n), 1 => v.sub_months(n), 2 => v.add_years(n), _ => v.sub_years(n) };
            Obs::Ok(vec![date_days(&r)], vec![])
        }
        "dt_addm" => {
            let v = match mk_dt(i[1], i[2], i[3]) { Some(v) => v, None => return UNCONSTRUCTIBLE };
            let n = i[4] as u32;
            let r = match i[0] { 0 => v.add_months(n), 1 => v.sub_months(n), 2 => v.add_years(n), _ => v.sub_years(n) };
            dt_obs(&r)
        }
        // ---------------- C07
        "date_ms" => {
            let (a, b) = match (mk_date(i[0]), mk_date(i[1])) { (Some(a), Some(b)) => (a, b), _ => return UNCONSTRUCTIBLE };
            Obs::Ok(vec![a.months_since(&b) as i128, a.years_since(&b) as i128, b.months_since(&a) as i128, b.years_since(&a) as i128], vec![])
        }
        "dt_ms" => {
            let (a, b) = match (mk_dt(i[0], i[1], i[2]), mk_dt(i[3], i[4], i[5])) { (Some(a), Some(b)) => (a, b), _ => return UNCONSTRUCTIBLE };
            Obs::Ok(vec![a.months_since(&b) as i128, a.years_since(&b) as i128, b.months_since(&a) as i128, b.years_since(&a) as i128], vec![])
        }
        // ---------------- C09
        "dt_set" => {
            let v = match mk_dt(i[1], i[2], i[3]) { Some(v) => v, None => return UNCONSTRUCTIBLE };
            let x = i[4];
            res_dt(match i[0] {
                0 => v.set_year(x as i32), 1 => v.set_month(x as u32), 2 => v.set_day(x as u32), 3 => v.set_day_of_year(x as u32),
                4 => v.set_hour(x as u32), 5 => v.set_minute(x as u32), 6 => v.set_second(x as u32),
                7 => v.set_milli(x as u32), 8 => v.set_micro(x as u32), _ => v.set_nano(x as u32),
            })
        }
        "dt_clear" => {
            let v = match mk_dt(i[1], i[2], i[3]) { Some(v) => v, None => return UNCONSTRUCTIBLE };
            dt_obs(&match i[0] {
                0 => v.clear_until_year(), 1 => v.clear_until_month(), 2 => v.clear_until_day(), 3 => v.clear_until_hour(),
                4 => v.clear_until_minute(), 5 => v.clear_until_second(), 6 => v.clear_until_milli(),
                7 => v.clear_until_micro(), _ => v.clear_until_nano(),
            })
        }
        "time_set" => {
            let v = match mk_time(i[1], i[2]) { Some(v) => v, None => return UNCONSTRUCTIBLE };
            let x = i[3] as u32;
            res_tm(match i[0] {
                4 => v.set_hour(x), 5 => v.set_minute(x), 6 => v.set_second(x), 7 => v.set_milli(x), 8 => v.set_micro(x), _ => v.set_nano(x),
            })
        }
        "time_clear" => {
            let v = match mk_time(i[1], i[2]) { Some(v) => v, None => return UNCONSTRUCTIBLE };
            tm_obs(&match i[0] {
                3 => v.clear_until_hour(), 4 => v.clear_until_minute(), 5 => v.clear_until_second(),
                6 => v.clear_until_milli(), 7 => v.clear_until_micro(), _ => v.clear_until_nano(),
            })
        }
        "date_set" => {
            let v = match mk_date(i[1]) { Some(v) => v, None => return UNCONSTRUCTIBLE };
            let x = i[2];
            res_date(match i[0] {
                0 => v.set_year(x as i32), 1 => v.set_month(x as u32), 2 => v.set_day(x as u32), _ => v.set_day_of_year(x as u32),
            })
        }
        "date_clear" => {
            let v = match mk_date(i[1]) { Some(v) => v, None => return UNCONSTRUCTIBLE };
            let r = match i[0] { 0 => v.clear_until_year(), 1 => v.clear_until_month(), _ => v.clear_until_day() };
            Obs::Ok(vec![date_days(&r)], vec![])
        }
        "dt_get" => {
            let v = match mk_dt(i[0], i[1], i[2]) { Some(v) => v, None => return UNCONSTRUCTIBLE };
            Obs::Ok(vec![v.year() as i128, v.month() as i128, v.day() as i128, v.day_of_year() as i128, v.weekday() as i128,
                         v.hour() as i128, v.minute() as i128, v.second() as i128, v.milli() as i128, v.micro() as i128, v.nano() as i128,
                         v.timestamp() as i128], vec![])
        }
        // ---------------- C10
        "dt_set_offset" | "dt_as_offset" => {
            let v = match mk_dt(i[0], i[1], i[2]) { Some(v) => v, None => return UNCONSTRUCTIBLE };
            let o = Offset::Fixed(i[3] as i32);
            let r = if op == "dt_set_offset" { v.set_offset(o) } else { v.as_offset(o) };
            let g = match r.get_offset() { Offset::Fixed(x) => x as i128, Offset::Local => ERR_SENTINEL };
            let (d, n, off) = dt_parts(&r);
            if op == "dt_set_offset" {
                // the instant is unchanged: ordering, equality, timestamp and differences against the original
                Obs::Ok(vec![d, n, off, g, ord(r.cmp(&v)), (r == v) as i128, (r.timestamp() - v.timestamp()) as i128, r.nanos_since(&v)], vec![])
            } else { Obs::Ok(vec![d, n, off, g], vec![]) }
        }
        "time_set_offset" | "time_as_offset" => {
            let v = match mk_time(i[0], i[1]) { Some(v) => v, None => return UNCONSTRUCTIBLE };
            let o = Offset::Fixed(i[2] as i32);
            let r = if op == "time_set_offset" { v.set_offset(o) } else { v.as_offset(o) };
            tm_obs(&r)
        }
        "offset_from_seconds" => match Offset::from_seconds(i[0] as i32) {
            Ok(o) => { let (h, m, s) = o.resolve_hms(); Obs::Ok(vec![o.resolve() as i128, h as i128, m as i128, s as i128], vec![]) }
            Err(e) => err_obs(&e),
        },
        "offset_from_hms" => match Offset::from_hms(i[0] as i32, i[1] as u32, i[2] as u32) {
            Ok(o) => { let (h, m, s) = o.resolve_hms(); Obs::Ok(vec![o.resolve() as i128, h as i128, m as i128, s as i128], vec![]) }
            Err(e) => err_obs(&e),
        },
        // ---------------- C15
        "dt_from_ymdhms" => res_dt(DateTime::from_ymdhms(i[0] as i32, i[1] as u32, i[2] as u32, i[3] as u32, i[4] as u32, i[5] as u32)),
        "dt_from_hms" => res_dt(DateTime::from_hms(i[0] as u32, i[1] as u32, i[2] as u32)),
        // ---------------- C02
        "date_info" => {
            let v = match mk_date(i[0]) { Some(v) => v, None => return UNCONSTRUCTIBLE };
            let num = |p: &str| v.format(p).parse::<i128>().unwrap_or(ERR_SENTINEL);
            Obs::Ok(vec![v.weekday() as i128, v.day_of_year() as i128, num("w"), num("q"), num("e"), num("eeeeeee"), num("D"), v.month() as i128, v.year() as i128], vec![])
        }
        "dt_info" => {
            let v = match mk_dt(i[0], i[1], i[2]) { Some(v) => v, None => return UNCONSTRUCTIBLE };
            let num = |p: &str| v.format(p).parse::<i128>().unwrap_or(ERR_SENTINEL);
            Obs::Ok(vec![v.weekday() as i128, v.day_of_year() as i128, num("w"), num("q"), num("e"), num("eeeeeee"), num("D"), v.month() as i128, v.year() as i128], vec![])
        }
        _ => unreachable!(),
    }))
}
