(* RfcProofs.v — C13: parse_rfc3339 computes the denotation of every grammatical timestamp, rejects the ones whose
   fields are out of range; format_rfc3339 emits a grammatical timestamp that denotes the value. *)
From Astro Require Import Base Text CalSpec DateModel TimeModel ApiModel InstantSpec FormatModel ParseModel
  DateProofs TimeProofs ClockProofs OffsetProofs ErrProofs TextProofs RfcSpec.

(* ---------- digits ---------- *)
Lemma dig_range c : dig c = true -> 48 <= c <= 57.
Proof. unfold dig, is_ascii_digit. intros H. apply andb_true_iff in H as [A B]. apply Z.leb_le in A, B. lia. Qed.
Lemma dig_ascii c : dig c = true -> (c <? 128) = true.
Proof. intros H. apply dig_range in H. apply Z.ltb_lt. lia. Qed.
Lemma utf8_len_pos c : 1 <= utf8_len c.
Proof. unfold utf8_len. repeat match goal with |- context [if ?b then _ else _] => destruct b end; lia. Qed.
Lemma byte_len_ge s : Z.of_nat (length s) <= byte_len s.
Proof. induction s as [|c tl IH]; cbn [byte_len fold_right length]; [lia|]. fold (byte_len tl). pose proof (utf8_len_pos c). lia. Qed.
Lemma byte_len_ascii s : forallb (fun c => c <? 128) s = true -> byte_len s = Z.of_nat (length s).
Proof.
  induction s as [|c tl IH]; cbn [byte_len fold_right length forallb]; [reflexivity|]. fold (byte_len tl). intros H.
  apply andb_true_iff in H as [A B]. rewrite (IH B). unfold utf8_len. rewrite A. lia.
Qed.

Lemma parse_unsigned_of_digits mx s : all_digits s = true -> s <> [] -> digits_val s <= mx -> parse_unsigned mx s = Some (digits_val s).
Proof.
  intros Ad Hne Hb. unfold parse_unsigned. destruct s as [|c tl]; [congruence|].
  pose proof Ad as Ad'. cbn [all_digits forallb] in Ad'. apply andb_true_iff in Ad' as [Hc _]. apply dig_range in Hc.
  destruct (Z.eqb_spec c 43); [lia|]. unfold all_digits in *. rewrite Ad. cbv zeta. destruct (Z.leb_spec (digits_val (c :: tl)) mx); [reflexivity | lia].
Qed.
Lemma parse_signed_of_digits mn mx s : all_digits s = true -> s <> [] -> digits_val s <= mx -> parse_signed mn mx s = Some (digits_val s).
Proof.
  intros Ad Hne Hb. unfold parse_signed. destruct s as [|c tl]; [congruence|].
  pose proof Ad as Ad'. cbn [all_digits forallb] in Ad'. apply andb_true_iff in Ad' as [Hc _]. apply dig_range in Hc.
  destruct (Z.eqb_spec c 45); [lia|]. apply parse_unsigned_of_digits; assumption.
Qed.
Lemma two_val a b : digits_val [a; b] = two a b. Proof. unfold digits_val, two; cbn [digits_val_aux]. lia. Qed.
Lemma two_range a b : dig a = true -> dig b = true -> 0 <= two a b <= 99.
Proof. intros A B. apply dig_range in A, B. unfold two. lia. Qed.
Lemma all_digits2 a b : dig a = true -> dig b = true -> all_digits [a; b] = true.
Proof. intros A B. unfold all_digits, dig in *. cbn [forallb]. rewrite A, B. reflexivity. Qed.
Lemma pu2 a b : dig a = true -> dig b = true -> parse_unsigned U32_MAX [a; b] = Some (two a b).
Proof.
  intros A B. rewrite parse_unsigned_of_digits; [rewrite two_val; reflexivity | apply all_digits2; assumption | discriminate |].
  rewrite two_val. pose proof (two_range a b A B). unfold U32_MAX. lia.
Qed.

(* ---------- the zone ---------- *)
Definition zone_char (c : Z) : bool := (c =? 90) || (c =? 43) || (c =? 45).
Lemma span_take tl : forall frac zc zt, span_digits tl = (frac, zc :: zt) -> zone_char zc = true ->
  take_while_not_zone tl = (frac, zc :: zt).
Proof.
  unfold take_while_not_zone. induction tl as [|c tl IH]; intros frac zc zt H Hz; cbn [span_digits] in H; [discriminate|].
  destruct (dig c) eqn:Dc.
  - destruct (span_digits tl) as [a b] eqn:Es. injection H as <- ->. apply dig_range in Dc.
    destruct (Z.eqb_spec c 90); [lia|]. destruct (Z.eqb_spec c 43); [lia|]. destruct (Z.eqb_spec c 45); [lia|]. cbn [orb].
    rewrite (IH a zc zt eq_refl Hz). reflexivity.
  - injection H as <- <- <-. unfold zone_char in Hz. rewrite Hz. reflexivity.
Qed.
Lemma span_digits_all tl : all_digits (fst (span_digits tl)) = true.
Proof.
  induction tl as [|c tl IH]; cbn [span_digits]; [reflexivity|]. destruct (dig c) eqn:Dc; [|reflexivity].
  destruct (span_digits tl) as [a b]. cbn [fst] in *. unfold all_digits in *. cbn [forallb]. unfold dig in Dc. rewrite Dc, IH. reflexivity.
Qed.

Definition offset_of (sign oh om : Z) : res Z :=
  if 23 <? oh then fmt_err else if 59 <? om then fmt_err else Ok (sign * (oh * 3600 + om * 60)).
Lemma rfc_zone_head z r : rfc_zone z = Some r -> exists zc zt, z = zc :: zt /\ zone_char zc = true.
Proof.
  unfold rfc_zone, zone_char. destruct z as [|z0 [|a [|b [|col [|c [|d [|x y]]]]]]]; try discriminate.
  - destruct (Z.eqb_spec z0 90); [|discriminate]. intros _. exists z0, []. split; [reflexivity|]. subst. reflexivity.
  - destruct ((z0 =? 43) || (z0 =? 45)) eqn:E; cbn [andb]; [|discriminate]. intros _. exists z0, [a; b; col; c; d]. split; [reflexivity|].
    destruct (z0 =? 90); [reflexivity|]. exact E.
Qed.
Lemma parse_offset_zone z sign oh om : rfc_zone z = Some (sign, oh, om) -> parse_offset z = offset_of sign oh om.
Proof.
  unfold rfc_zone, parse_offset, offset_of. destruct z as [|z0 [|a [|b [|col [|c [|d [|x y]]]]]]]; try discriminate.
  - destruct (Z.eqb_spec z0 90) as [->|]; [|discriminate]. intros E. injection E as <- <- <-. reflexivity.
  - destruct ((z0 =? 43) || (z0 =? 45)) eqn:Es; cbn [andb]; [|discriminate].
    destruct (Z.eqb_spec col 58) as [->|]; cbn [andb]; [|discriminate].
    destruct (forallb dig [a; b; c; d]) eqn:Ed; [|discriminate]. cbn [forallb] in Ed. rewrite !andb_true_iff in Ed. destruct Ed as (Da & Db & Dc & Dd & _).
    intros E. injection E as <- <- <-.
    assert (Hz : starts_with [90] [z0; a; b; 58; c; d] = false).
    { unfold starts_with. cbn [length firstn text_eqb]. destruct (Z.eqb_spec 90 z0) as [<-|]; [discriminate Es | reflexivity]. }
    rewrite Hz.
    assert (Ha : forallb (fun c => c <? 128) [z0; a; b; 58; c; d] = true).
    { cbn [forallb]. rewrite (dig_ascii a Da), (dig_ascii b Db), (dig_ascii c Dc), (dig_ascii d Dd).
      apply orb_true_iff in Es as [Es | Es]; apply Z.eqb_eq in Es; subst z0; reflexivity. }
    rewrite (byte_len_ascii _ Ha), Ha. cbn [length Z.of_nat Pos.of_succ_nat Pos.succ Z.eqb Pos.eqb negb orb].
    cbn [skipn firstn]. rewrite (pu2 a b Da Db), (pu2 c d Dc Dd).
    destruct (23 <? two a b); [reflexivity|]. destruct (59 <? two c d); [reflexivity|]. f_equal.
    unfold starts_with. cbn [length firstn text_eqb]. rewrite andb_true_r, (Z.eqb_sym 43 z0). destruct (z0 =? 43); lia.
Qed.

(* ---------- read side: the parser computes rfc_eval of the parts ---------- *)
Definition rfc_eval (p : rfc_parts) : res DT :=
  let? o := offset_of (r_off_sign p) (r_off_hour p) (r_off_minute p) in
  let? days := date_to_days (r_year p) (r_month p) (r_day p) in
  let? secs := time_to_day_seconds (r_hour p) (r_minute p) (r_second p) in
  dt_as_offset (mkDT days (secs * NANOS_PER_SEC + frac_nanos (r_frac p)) 0) o.

Lemma ps4 a b c d : dig a = true -> dig b = true -> dig c = true -> dig d = true ->
  parse_signed I32_MIN I32_MAX [a; b; c; d] = Some (((a - 48) * 10 + (b - 48)) * 100 + two c d).
Proof.
  intros A B C Dd. assert (V : digits_val [a; b; c; d] = ((a - 48) * 10 + (b - 48)) * 100 + two c d) by (unfold digits_val, two; cbn [digits_val_aux]; lia).
  rewrite parse_signed_of_digits; [rewrite V; reflexivity | | discriminate |].
  - unfold all_digits, dig in *. cbn [forallb]. rewrite A, B, C, Dd. reflexivity.
  - rewrite V. apply dig_range in A, B, C, Dd. unfold two, I32_MAX. lia.
Qed.

Lemma zone_char_ascii c : zone_char c = true -> (c <? 128) = true.
Proof. unfold zone_char. intros H. rewrite !orb_true_iff, !Z.eqb_eq in H. apply Z.ltb_lt. lia. Qed.

Lemma frac9_parse frac : all_digits frac = true -> frac <> [] ->
  parse_unsigned U64_MAX (firstn 9 frac) = Some (digits_val (firstn 9 frac)).
Proof.
  intros Ad Hne. assert (Ad9 : all_digits (firstn 9 frac) = true) by (apply forallb_firstn; exact Ad).
  apply parse_unsigned_of_digits; [exact Ad9 | destruct frac; [congruence | discriminate] |].
  pose proof (digits_val_bound _ Ad9) as B. pose proof (firstn_le_length 9 frac) as L.
  pose proof (pow10_le (Z.of_nat (length (firstn 9 frac))) 9 ltac:(lia)) as P. change (10 ^ 9) with 1000000000 in P. unfold U64_MAX. lia.
Qed.

Lemma rfc_model_eval s p : rfc_split s = Some p -> dt_parse_rfc3339 s = rfc_eval p.
Proof.
  intros H. unfold rfc_split in H.
  destruct s as [|y1 [|y2 [|y3 [|y4 [|c1 [|m1 [|m2 [|c2 [|d1 [|d2 [|c3 [|h1 [|h2 [|c4 [|i1 [|i2 [|c5 [|s1 [|s2 rest]]]]]]]]]]]]]]]]]]]; try discriminate.
  match type of H with (if ?b then _ else _) = _ => destruct b eqn:C; [|discriminate] end.
  rewrite !andb_true_iff in C. destruct C as (((((Cd & E1) & E2) & E3) & E4) & E5).
  apply Z.eqb_eq in E1, E2, E3, E4, E5. subst c1 c2 c3 c4 c5.
  cbn [forallb] in Cd. rewrite !andb_true_iff in Cd.
  destruct Cd as (Dy1 & Dy2 & Dy3 & Dy4 & Dm1 & Dm2 & Dd1 & Dd2 & Dh1 & Dh2 & Di1 & Di2 & Ds1 & Ds2 & _).
  destruct rest as [|c tl]; [discriminate|].
  assert (Hc : (c <? 128) = true).
  { destruct (Z.eqb_spec c 46) as [->|]; [reflexivity|].
    destruct (rfc_zone (c :: tl)) as [r|] eqn:Ez; [|discriminate]. destruct (rfc_zone_head _ _ Ez) as (zc & zt & Ezz & Hz).
    injection Ezz as -> _. apply zone_char_ascii, Hz. }
  unfold dt_parse_rfc3339.
  match goal with |- context [byte_len ?l <? 20] => assert (L : (byte_len l <? 20) = false) by
    (pose proof (byte_len_ge l) as BL; cbn [length] in BL; apply Z.ltb_ge; lia) end.
  rewrite L. unfold sub_text. set (F9 := @firstn Z 9). cbn [Nat.sub skipn firstn nth_error forallb]. subst F9.
  rewrite (dig_ascii _ Dy1), (dig_ascii _ Dy2), (dig_ascii _ Dy3), (dig_ascii _ Dy4), (dig_ascii _ Dm1), (dig_ascii _ Dm2),
          (dig_ascii _ Dd1), (dig_ascii _ Dd2), (dig_ascii _ Dh1), (dig_ascii _ Dh2), (dig_ascii _ Di1), (dig_ascii _ Di2),
          (dig_ascii _ Ds1), (dig_ascii _ Ds2), Hc.
  cbn [andb negb Z.ltb Z.compare Pos.compare Pos.compare_cont].
  rewrite (ps4 _ _ _ _ Dy1 Dy2 Dy3 Dy4), (pu2 _ _ Dm1 Dm2), (pu2 _ _ Dd1 Dd2), (pu2 _ _ Dh1 Dh2), (pu2 _ _ Di1 Di2), (pu2 _ _ Ds1 Ds2).
  destruct (Z.eqb_spec c 46) as [->|Hne].
  - destruct (span_digits tl) as [frac z] eqn:Es. cbn [fst snd] in H.
    assert (Ad : all_digits frac = true) by (pose proof (span_digits_all tl) as X; rewrite Es in X; exact X).
    destruct frac as [|f0 ft] eqn:Ef; [discriminate|]. rewrite <- Ef in *.
    destruct (rfc_zone z) as [[[sign oh] om]|] eqn:Ez; [|discriminate]. injection H as <-.
    destruct (rfc_zone_head z _ Ez) as (zc & zt & -> & Hzc). rewrite (span_take tl frac zc zt Es Hzc).
    cbv zeta. rewrite Ad. rewrite (frac9_parse frac Ad ltac:(rewrite Ef; discriminate)). rewrite (parse_offset_zone _ _ _ _ Ez).
    rewrite Ef at 1. cbn [orb negb]. unfold rfc_eval. cbn [r_year r_month r_day r_hour r_minute r_second r_frac r_off_sign r_off_hour r_off_minute].
    unfold frac_nanos. destruct (offset_of sign oh om); reflexivity.
  - destruct (rfc_zone (c :: tl)) as [[[sign oh] om]|] eqn:Ez; [|discriminate]. injection H as <-.
    rewrite (parse_offset_zone _ _ _ _ Ez). unfold rfc_eval. cbn [r_year r_month r_day r_hour r_minute r_second r_frac r_off_sign r_off_hour r_off_minute].
    change (frac_nanos []) with 0. destruct (offset_of sign oh om); reflexivity.
Qed.

(* ---------- what the parts of a grammatical timestamp look like ---------- *)
Lemma rfc_zone_facts z sign oh om : rfc_zone z = Some (sign, oh, om) -> (sign = 1 \/ sign = -1) /\ 0 <= oh <= 99 /\ 0 <= om <= 99.
Proof.
  unfold rfc_zone. destruct z as [|z0 [|a [|b [|col [|c [|d [|x y]]]]]]]; try discriminate.
  - destruct (z0 =? 90); [|discriminate]. intros E. injection E as <- <- <-. lia.
  - destruct ((z0 =? 43) || (z0 =? 45)); cbn [andb]; [|discriminate]. destruct (col =? 58); cbn [andb]; [|discriminate].
    destruct (forallb dig [a; b; c; d]) eqn:Ed; [|discriminate]. cbn [forallb] in Ed. rewrite !andb_true_iff in Ed. destruct Ed as (Da & Db & Dc & Dd & _).
    intros E. injection E as <- <- <-. pose proof (two_range a b Da Db). pose proof (two_range c d Dc Dd). destruct (z0 =? 43); lia.
Qed.

Lemma rfc_split_facts s p : rfc_split s = Some p ->
  0 <= r_year p <= 9999 /\ 0 <= r_month p <= 99 /\ 0 <= r_day p <= 99 /\ 0 <= r_hour p <= 99 /\ 0 <= r_minute p <= 99 /\
  0 <= r_second p <= 99 /\ all_digits (r_frac p) = true /\ (r_off_sign p = 1 \/ r_off_sign p = -1) /\
  0 <= r_off_hour p <= 99 /\ 0 <= r_off_minute p <= 99.
Proof.
  intros H. unfold rfc_split in H.
  destruct s as [|y1 [|y2 [|y3 [|y4 [|c1 [|m1 [|m2 [|c2 [|d1 [|d2 [|c3 [|h1 [|h2 [|c4 [|i1 [|i2 [|c5 [|s1 [|s2 rest]]]]]]]]]]]]]]]]]]]; try discriminate.
  match type of H with (if ?b then _ else _) = _ => destruct b eqn:C; [|discriminate] end.
  rewrite !andb_true_iff in C. destruct C as (((((Cd & _) & _) & _) & _) & _).
  cbn [forallb] in Cd. rewrite !andb_true_iff in Cd.
  destruct Cd as (Dy1 & Dy2 & Dy3 & Dy4 & Dm1 & Dm2 & Dd1 & Dd2 & Dh1 & Dh2 & Di1 & Di2 & Ds1 & Ds2 & _).
  pose proof (two_range _ _ Dy3 Dy4). pose proof (two_range _ _ Dm1 Dm2). pose proof (two_range _ _ Dd1 Dd2).
  pose proof (two_range _ _ Dh1 Dh2). pose proof (two_range _ _ Di1 Di2). pose proof (two_range _ _ Ds1 Ds2).
  pose proof (dig_range _ Dy1). pose proof (dig_range _ Dy2).
  destruct rest as [|c tl]; [discriminate|]. destruct (c =? 46).
  - pose proof (span_digits_all tl) as Ad. destruct (span_digits tl) as [frac z]. cbn [fst snd] in *.
    destruct frac as [|f0 ft] eqn:Ef; [discriminate|]. rewrite <- Ef in *.
    destruct (rfc_zone z) as [[[sign oh] om]|] eqn:Ez; [|discriminate]. injection H as <-. apply rfc_zone_facts in Ez.
    cbn [r_year r_month r_day r_hour r_minute r_second r_frac r_off_sign r_off_hour r_off_minute]. repeat split; try lia; try tauto.
  - destruct (rfc_zone (c :: tl)) as [[[sign oh] om]|] eqn:Ez; [|discriminate]. injection H as <-. apply rfc_zone_facts in Ez.
    cbn [r_year r_month r_day r_hour r_minute r_second r_frac r_off_sign r_off_hour r_off_minute]. repeat split; try lia; try tauto.
Qed.

Lemma frac_nanos_bound frac : all_digits frac = true -> 0 <= frac_nanos frac < 1000000000.
Proof.
  intros Ad. unfold frac_nanos. cbv zeta. assert (Ad9 : all_digits (firstn 9 frac) = true) by (apply forallb_firstn; exact Ad).
  pose proof (digits_val_bound _ Ad9) as B. set (k := Z.of_nat (length (firstn 9 frac))) in *.
  assert (Hk : 0 <= k <= 9) by (subst k; pose proof (firstn_le_length 9 frac); lia).
  assert (0 < 10 ^ (9 - k)) by (apply Z.pow_pos_nonneg; lia).
  assert (P : 10 ^ k * 10 ^ (9 - k) = 1000000000) by (rewrite <- Z.pow_add_r by lia; replace (k + (9 - k)) with 9 by lia; reflexivity).
  apply (scale_bound _ (10 ^ k) _); assumption.
Qed.

Lemma validb_valid x : validb x = true <-> valid x.
Proof.
  destruct x as [[y m] d]. unfold validb, valid. rewrite !andb_true_iff, negb_true_iff, Z.eqb_neq, !Z.leb_le. tauto.
Qed.
Lemma in_range_years y m d : -5879611 < y < 5879611 -> in_range (y, m, d).
Proof.
  intros H. unfold in_range, date_leb, MIN_DATE, MAX_DATE. split; apply orb_true_iff; left; apply Z.ltb_lt; lia.
Qed.

(* a grammatical timestamp whose fields are in range is accepted with exactly the instant and offset it denotes *)
Theorem rfc_parse_accepts s p : rfc_split s = Some p -> rfc_in_range p = true ->
  exists v, dt_parse_rfc3339 s = Ok v /\ instant v = fst (rfc_denote p) /\ dt_off v = snd (rfc_denote p) /\ Valid_dt v.
Proof.
  intros Hs Hr. rewrite (rfc_model_eval s p Hs). destruct (rfc_split_facts s p Hs) as (Fy & Fm & Fd & Fh & Fi & Fs & Ff & Fsg & Foh & Fom).
  unfold rfc_in_range in Hr. rewrite !andb_true_iff, !Z.leb_le in Hr. destruct Hr as (((((Hv & Hh) & Hi) & Hsec) & Hoh) & Hom).
  apply validb_valid in Hv. unfold rfc_eval, offset_of.
  destruct (Z.ltb_spec 23 (r_off_hour p)); [lia|]. destruct (Z.ltb_spec 59 (r_off_minute p)); [lia|]. cbn [bind].
  assert (Hy : -999 <= r_year p <= 9999) by lia.
  rewrite date_to_days_ok; [|exact Hv | apply in_range_years; lia]. cbn [bind].
  rewrite time_to_day_seconds_ok by lia. cbn [bind].
  pose proof (rd_small _ _ _ Hv Hy) as Hrd. pose proof (frac_nanos_bound _ Ff) as Hf.
  set (o := r_off_sign p * (r_off_hour p * 3600 + r_off_minute p * 60)).
  assert (Ho : off_ok o) by (unfold off_ok, SECS_PER_DAY; subst o; destruct Fsg as [-> | ->]; lia).
  set (secs := r_hour p * 3600 + r_minute p * 60 + r_second p). assert (Hsecs : 0 <= secs < 86400) by (subst secs; lia).
  set (v := mkDT _ _ 0).
  assert (Iv : Inv_dt v).
  { subst v. unfold Inv_dt, in_i32, off_ok. cbn [dt_days dt_nanos dt_off]. revert Hrd Hsecs Hf. generalize (frac_nanos (r_frac p)). intros fn. unfold_consts. lia. }
  assert (Rv : inst_in_range (instant v - o * NANOS_PER_SEC)).
  { subst v. unfold inst_in_range, instant, MIN_I, MAX_I, off_ok in *. cbn [dt_days dt_nanos]. revert Hrd Hsecs Hf Ho. generalize (frac_nanos (r_frac p)). intros fn. unfold_consts. lia. }
  destruct (c10_as_offset v o Iv Ho Rv) as (v' & E' & Ei & Eo & L' & I'). exists v'. split; [exact E'|].
  unfold rfc_denote. cbv zeta. fold o. cbn [fst snd]. split; [|split; [exact Eo|]].
  - rewrite Ei. subst v. unfold instant. cbn [dt_days dt_nanos]. fold secs. unfold NANOS_PER_DAY, NANOS_PER_SEC. lia.
  - split; [exact I'|]. rewrite L'. apply inv_in_range; exact Iv.
Qed.

(* ... and one whose fields are out of range (month 13, 30 February, hour 24, offset 24:00, year 0000 ...) is rejected *)
Theorem rfc_parse_rejects s p : rfc_split s = Some p -> rfc_in_range p = false -> exists e, dt_parse_rfc3339 s = Err e.
Proof.
  intros Hs Hr. rewrite (rfc_model_eval s p Hs). destruct (rfc_split_facts s p Hs) as (Fy & Fm & Fd & Fh & Fi & Fs & Ff & Fsg & Foh & Fom).
  unfold rfc_eval, offset_of.
  destruct (Z.ltb_spec 23 (r_off_hour p)); [eexists; reflexivity|]. destruct (Z.ltb_spec 59 (r_off_minute p)); [eexists; reflexivity|]. cbn [bind].
  destruct (ErrProofs_classic (r_year p) (r_month p) (r_day p)) as [[V R] | K].
  - rewrite date_to_days_ok by assumption. cbn [bind]. destruct (time_to_day_seconds_err (r_hour p) (r_minute p) (r_second p)) as (T1 & T2 & T3).
    destruct (Z.ltb_spec 23 (r_hour p)); [rewrite T1 by lia; eexists; reflexivity|].
    destruct (Z.ltb_spec 59 (r_minute p)); [rewrite T2 by lia; eexists; reflexivity|].
    destruct (Z.ltb_spec 59 (r_second p)); [rewrite T3 by lia; eexists; reflexivity|].
    exfalso. unfold rfc_in_range in Hr. apply validb_valid in V. rewrite V in Hr. cbn [andb] in Hr.
    rewrite !andb_false_iff, !Z.leb_gt in Hr. lia.
  - destruct (date_to_days_err (r_year p) (r_month p) (r_day p) ltac:(lia) ltac:(lia) K) as (a & b & c & v & E). rewrite E. eexists; reflexivity.
Qed.

(* ================= write side ================= *)
From Astro Require Import PadProofs.

Lemma dig_48 x : 0 <= x <= 9 -> dig (48 + x) = true.
Proof. intros H. unfold dig, is_ascii_digit. destruct (Z.leb_spec 48 (48 + x)); [|lia]. destruct (Z.leb_spec (48 + x) 57); [reflexivity | lia]. Qed.
Lemma two_48 a b : two (48 + a) (48 + b) = a * 10 + b. Proof. unfold two. lia. Qed.

Lemma span_digits_app a : forall zc zt, all_digits a = true -> dig zc = false -> span_digits (a ++ zc :: zt) = (a, zc :: zt).
Proof.
  induction a as [|c a IH]; intros zc zt Ad Hz; cbn [app span_digits].
  - rewrite Hz. reflexivity.
  - cbn [all_digits forallb] in Ad. apply andb_true_iff in Ad as [Hc Ad]. unfold dig. rewrite Hc. rewrite (IH zc zt Ad Hz). reflexivity.
Qed.

(* building a grammatical timestamp from its pieces *)
Section Build.
  Variables y1 y2 y3 y4 m1 m2 d1 d2 h1 h2 i1 i2 s1 s2 : Z.
  Hypothesis Dg : forallb dig [y1; y2; y3; y4; m1; m2; d1; d2; h1; h2; i1; i2; s1; s2] = true.
  Variables (z : text) (sg oh om zc : Z) (zt : text).
  Hypothesis Hz : rfc_zone z = Some (sg, oh, om).
  Hypothesis Ez : z = zc :: zt.
  Hypothesis Hzc : dig zc = false.
  Hypothesis Hz46 : zc <> 46.
  Let head (rest : text) : text :=
    y1 :: y2 :: y3 :: y4 :: 45 :: m1 :: m2 :: 45 :: d1 :: d2 :: 84 :: h1 :: h2 :: 58 :: i1 :: i2 :: 58 :: s1 :: s2 :: rest.
  Let parts (frac : text) : rfc_parts :=
    mkRfc (((y1 - 48) * 10 + (y2 - 48)) * 100 + two y3 y4) (two m1 m2) (two d1 d2) (two h1 h2) (two i1 i2) (two s1 s2) frac sg oh om.

  Lemma rfc_split_nofrac : rfc_split (head z) = Some (parts []).
  Proof.
    unfold rfc_split, head. rewrite Dg. cbn [Z.eqb Pos.eqb andb]. rewrite Ez. destruct (Z.eqb_spec zc 46); [contradiction|].
    rewrite <- Ez, Hz. reflexivity.
  Qed.
  Lemma rfc_split_frac frac : all_digits frac = true -> frac <> [] -> rfc_split (head (46 :: frac ++ z)) = Some (parts frac).
  Proof.
    intros Ad Hne. unfold rfc_split, head. rewrite Dg. cbn [Z.eqb Pos.eqb andb]. rewrite Ez, (span_digits_app frac zc zt Ad Hzc). cbn [fst snd].
    destruct frac as [|f0 ft]; [congruence|]. rewrite <- Ez, Hz. reflexivity.
  Qed.
End Build.

(* the zone text "Z" / "+hh:mm" / "-hh:mm" written for a whole-minute offset *)
Lemma zone_out off : off_ok off -> off mod 60 = 0 ->
  exists sg oh om zc zt, rfc_zone (format_zone 3 off true) = Some (sg, oh, om) /\ format_zone 3 off true = zc :: zt /\
    dig zc = false /\ zc <> 46 /\ sg * (oh * 3600 + om * 60) = off /\ 0 <= oh <= 23 /\ 0 <= om <= 59.
Proof.
  intros Ho Hm. unfold off_ok, SECS_PER_DAY in Ho. unfold format_zone. destruct (Z.eqb_spec off 0) as [->|Hne]; cbn [andb].
  - exists 1, 0, 0, 90, []. repeat split; try reflexivity; try lia.
  - cbv zeta. set (a := Z.abs off). assert (Ha : 0 < a < 86400) by (subst a; lia).
    assert (Hh : 0 <= a / 3600 < 24) by (split; [apply Z.div_pos; lia | apply Z.div_lt_upper_bound; lia]).
    assert (Hmi : 0 <= a mod 3600 / 60 < 60).
    { pose proof (Z.mod_pos_bound a 3600 ltac:(lia)). split; [apply Z.div_pos; lia | apply Z.div_lt_upper_bound; lia]. }
    rewrite (zero_padded_2 (a / 3600)) by lia. rewrite (zero_padded_2 (a mod 3600 / 60)) by lia.
    set (sgc := if off <? 0 then [45] else [43]).
    exists (if off <? 0 then -1 else 1), (a / 3600), (a mod 3600 / 60), (if off <? 0 then 45 else 43),
           [48 + a / 3600 / 10; 48 + (a / 3600) mod 10; 58; 48 + a mod 3600 / 60 / 10; 48 + (a mod 3600 / 60) mod 10].
    assert (E : sgc ++ [48 + a / 3600 / 10; 48 + (a / 3600) mod 10] ++ [58] ++ [48 + a mod 3600 / 60 / 10; 48 + (a mod 3600 / 60) mod 10]
              = (if off <? 0 then 45 else 43) :: [48 + a / 3600 / 10; 48 + (a / 3600) mod 10; 58; 48 + a mod 3600 / 60 / 10; 48 + (a mod 3600 / 60) mod 10])
      by (subst sgc; destruct (off <? 0); reflexivity).
    rewrite E. split; [|split; [reflexivity|]].
    + unfold rfc_zone. assert (S1 : (((if off <? 0 then 45 else 43) =? 43) || ((if off <? 0 then 45 else 43) =? 45)) = true) by (destruct (off <? 0); reflexivity).
      rewrite S1. cbn [Z.eqb Pos.eqb andb forallb].
      rewrite !dig_48 by lia. cbn [andb]. rewrite !two_48. f_equal. f_equal; [f_equal|]; [destruct (off <? 0); reflexivity | lia | lia].
    + split; [destruct (off <? 0); reflexivity|]. split; [destruct (off <? 0); discriminate|].
      split; [|lia]. subst a. destruct (Z.ltb_spec off 0); lia.
Qed.

(* what format_rfc3339 writes: the tokenized pattern, part by part *)
Definition HEAD_PARTS : list text := [[121;121;121;121]; [45]; [77;77]; [45]; [100;100]; [84]; [72;72]; [58]; [109;109]; [58]; [115;115]].
Definition frac_parts (prec : Z) : list text :=
  match prec with 0 => [] | 2 => [[46]; [110;110]] | 3 => [[46]; [110;110;110]] | 6 => [[46]; [110;110;110;110]] | _ => [[46]; [110;110;110;110;110]] end.
Definition prec_ok (prec : Z) : Prop := prec = 0 \/ prec = 2 \/ prec = 3 \/ prec = 6 \/ prec = 9.
Lemma pfs_rfc prec : prec_ok prec -> parse_format_string (rfc_pattern prec) = HEAD_PARTS ++ frac_parts prec ++ [[88;88;88]].
Proof. intros [-> | [-> | [-> | [-> | ->]]]]; vm_compute; reflexivity. Qed.

Lemma fp_head days nanos off y mo d h mi s : days_to_date days = (y, mo, d) -> nanos_to_time nanos = (h, mi, s) ->
  map (render_part (fun p => format_part p days nanos off)) HEAD_PARTS =
  [Ok (zero_padded_i y 4); Ok [45]; Ok (zero_padded mo 2); Ok [45]; Ok (zero_padded d 2); Ok [84];
   Ok (zero_padded h 2); Ok [58]; Ok (zero_padded mi 2); Ok [58]; Ok (zero_padded s 2)].
Proof.
  intros E1 E2. unfold HEAD_PARTS. cbn [map]. unfold render_part, format_part, format_date_part, format_time_part, format_month.
  cbn [first_char length]. rewrite E1, E2. reflexivity.
Qed.
Definition frac_text (prec nanos : Z) : text :=
  if prec =? 0 then [] else [46] ++ zero_padded (wrap_u32 (nanos mod NANOS_PER_SEC) / 10 ^ (9 - prec)) prec.
Lemma fp_frac prec days nanos off : prec_ok prec ->
  concat_res (map (render_part (fun p => format_part p days nanos off)) (frac_parts prec ++ [[88;88;88]])) =
  Ok (frac_text prec nanos ++ format_zone 3 off true ++ []).
Proof.
  intros [-> | [-> | [-> | [-> | ->]]]]; unfold frac_parts, frac_text; cbn [app map]; unfold render_part, format_part, format_time_part;
  cbn [first_char length]; destruct (nanos_to_time nanos) as [[h m] s]; reflexivity.
Qed.
Lemma concat_res_app a b x y : concat_res a = Ok x -> concat_res b = Ok y -> concat_res (a ++ b) = Ok (x ++ y).
Proof.
  revert x. induction a as [|r a IH]; intros x Ha Hb; cbn [app concat_res] in *.
  - injection Ha as <-. exact Hb.
  - destruct r as [t| |]; cbn [bind] in *; try discriminate. destruct (concat_res a) as [t'| |]; cbn [bind] in *; try discriminate.
    injection Ha as <-. rewrite (IH t' eq_refl Hb). cbn [bind]. rewrite app_assoc. reflexivity.
Qed.

Lemma rfc_format_out v prec y mo d h mi s : Valid_dt v -> prec_ok prec ->
  days_to_date (local_instant v / D) = (y, mo, d) -> nanos_to_time (local_instant v mod D) = (h, mi, s) ->
  dt_format_rfc3339 v prec =
  Ok ((zero_padded_i y 4 ++ [45] ++ zero_padded mo 2 ++ [45] ++ zero_padded d 2 ++ [84] ++ zero_padded h 2 ++ [58] ++
       zero_padded mi 2 ++ [58] ++ zero_padded s 2 ++ []) ++ frac_text prec (local_instant v mod D) ++ format_zone 3 (dt_off v) true ++ []).
Proof.
  intros [I L] Hp E1 E2. unfold dt_format_rfc3339, dt_format. cbv zeta.
  unfold add_offset_to_dn. rewrite (days_nanos_to_nanos_spec (dt_days v) (dt_nanos v)).
  destruct (split_ok _ L) as [E _]. unfold local_instant, instant in E. rewrite E. cbn [unwrap bind].
  rewrite (pfs_rfc prec Hp), map_app. apply concat_res_app; [|apply fp_frac; exact Hp].
  rewrite (fp_head _ _ _ _ _ _ _ _ _ E1 E2). reflexivity.
Qed.

Lemma frac_nanos_dec k fr : (k <= 9)%nat -> 0 <= fr < 10 ^ Z.of_nat k -> frac_nanos (dec k fr) = fr * 10 ^ (9 - Z.of_nat k).
Proof.
  intros Hk Hf. unfold frac_nanos. cbv zeta. rewrite firstn_all2 by (rewrite dec_length; lia). rewrite dec_length, dec_val by exact Hf. reflexivity.
Qed.

Lemma dg_fields y mo d h mi s : 0 <= y <= 9999 -> 0 <= mo <= 99 -> 0 <= d <= 99 -> 0 <= h <= 99 -> 0 <= mi <= 99 -> 0 <= s <= 99 ->
  forallb dig [48 + y / 1000; 48 + (y / 100) mod 10; 48 + (y / 10) mod 10; 48 + y mod 10; 48 + mo / 10; 48 + mo mod 10;
               48 + d / 10; 48 + d mod 10; 48 + h / 10; 48 + h mod 10; 48 + mi / 10; 48 + mi mod 10; 48 + s / 10; 48 + s mod 10] = true.
Proof. intros. cbn [forallb]. rewrite !dig_48 by lia. reflexivity. Qed.
Lemma year_digits y : ((48 + y / 1000 - 48) * 10 + (48 + (y / 100) mod 10 - 48)) * 100 + two (48 + (y / 10) mod 10) (48 + y mod 10) = y.
Proof. unfold two. lia. Qed.
Lemma two_digits x : two (48 + x / 10) (48 + x mod 10) = x.
Proof. unfold two. lia. Qed.

(* format_rfc3339 writes a grammatical timestamp whose fields are in range and which denotes the value's offset and
   its instant truncated to the requested precision (truncation of the local reading = of the instant: whole-minute offsets) *)
Theorem rfc_format_denotes v prec : Valid_dt v -> prec_ok prec -> dt_off v mod 60 = 0 ->
  (let '(y, _, _) := days_to_date (local_instant v / D) in 1 <= y <= 9999) ->
  exists out p, dt_format_rfc3339 v prec = Ok out /\ rfc_split out = Some p /\ rfc_in_range p = true /\
    snd (rfc_denote p) = dt_off v /\
    fst (rfc_denote p) = local_instant v / 10 ^ (9 - prec) * 10 ^ (9 - prec) - dt_off v * NANOS_PER_SEC /\
    Z.of_nat (length (r_frac p)) = prec.
Proof.
  intros Hv Hp Hm Hy. pose proof Hv as [I L].
  destruct (days_to_date_rd (local_instant v / D)) as [V R]. destruct (days_to_date (local_instant v / D)) as [[y mo] d] eqn:E1.
  destruct V as (_ & Vm & Vd). assert (Hd31 : d <= 31) by (unfold mlen in Vd; repeat match type of Vd with context [if ?b then _ else _] => destruct b end; lia).
  set (n := local_instant v mod D) in *. assert (Hn : 0 <= n < NANOS_PER_DAY) by (subst n; unfold D; apply Z.mod_pos_bound; unfold NANOS_PER_DAY; lia).
  pose proof (nanos_to_time_spec n Hn) as E2.
  set (h := n / NANOS_PER_HOUR) in *. set (mi := (n / NANOS_PER_MINUTE) mod 60) in *. set (s := (n / NANOS_PER_SEC) mod 60) in *.
  assert (Hh : 0 <= h <= 23) by (subst h; revert Hn; unfold_consts; intros; lia).
  assert (Hmi : 0 <= mi <= 59) by (subst mi; lia). assert (Hs : 0 <= s <= 59) by (subst s; lia).
  assert (Hsum : (h * 3600 + mi * 60 + s) * 1000000000 + n mod 1000000000 = n) by (subst h mi s; revert Hn; unfold_consts; intros; lia).
  clearbody h mi s.
  rewrite (rfc_format_out v prec y mo d h mi s Hv Hp E1 E2). fold n.
  unfold zero_padded_i. destruct (Z.ltb_spec y 0); [lia|]. rewrite Z.abs_eq by lia.
  rewrite (zero_padded_4 y) by lia. rewrite (zero_padded_2 mo), (zero_padded_2 d), (zero_padded_2 h), (zero_padded_2 mi), (zero_padded_2 s) by lia.
  cbn [app].
  destruct (zone_out (dt_off v) ltac:(destruct I as (_ & _ & O); exact O) Hm) as (sg & oh & om & zc & zt & Hz & Ez & Hzc & Hz46 & Hoff & Hoh & Hom).
  pose proof (dg_fields y mo d h mi s ltac:(lia) ltac:(lia) ltac:(lia) ltac:(lia) ltac:(lia) ltac:(lia)) as Dg.
  pose proof (year_digits y) as EY. pose proof two_digits as E2d.
  assert (HL : local_instant v = rd (y, mo, d) * 86400000000000 + n) by (rewrite R; subst n; unfold D, NANOS_PER_DAY; pose proof (Z.div_mod (local_instant v) 86400000000000 ltac:(lia)); lia).
  assert (Hin : forall frac, rfc_in_range (mkRfc y mo d h mi s frac sg oh om) = true).
  { intros frac. unfold rfc_in_range. cbn [r_year r_month r_day r_hour r_minute r_second r_off_hour r_off_minute].
    assert (Vb : validb (y, mo, d) = true) by (apply validb_valid; unfold valid; repeat split; lia). rewrite Vb. cbn [andb].
    rewrite !andb_true_iff, !Z.leb_le. lia. }
  destruct Hp as [-> | Hp].
  - (* no fraction *)
    unfold frac_text. cbn [Z.eqb app]. rewrite app_nil_r. eexists. eexists. split; [reflexivity|].
    split; [apply (rfc_split_nofrac _ _ _ _ _ _ _ _ _ _ _ _ _ _ Dg _ _ _ _ _ _ Hz Ez Hz46)|].
    rewrite EY, !E2d. split; [apply Hin|]. unfold rfc_denote. cbn [r_year r_month r_day r_hour r_minute r_second r_frac r_off_sign r_off_hour r_off_minute fst snd length].
    rewrite Hoff. split; [reflexivity|]. split; [|reflexivity]. change (frac_nanos []) with 0. change (10 ^ (9 - 0)) with 1000000000.
    rewrite HL. unfold NANOS_PER_SEC. revert Hn Hsum. generalize (rd (y, mo, d)). unfold_consts. intros; lia.
  - (* k fraction digits *)
    assert (Hk : exists k, (1 <= k <= 9)%nat /\ prec = Z.of_nat k).
    { destruct Hp as [-> | [-> | [-> | ->]]]; [exists 2%nat | exists 3%nat | exists 6%nat | exists 9%nat]; split; try reflexivity; lia. }
    destruct Hk as (k & Hk & Ek). set (u := 10 ^ (9 - prec)) in *. set (r := n mod 1000000000) in *.
    assert (Hr : 0 <= r < 1000000000) by (subst r; lia).
    assert (Hu : 0 < u /\ u * 10 ^ prec = 1000000000).
    { subst u. destruct Hp as [-> | [-> | [-> | ->]]]; split; reflexivity. }
    assert (Hfr : 0 <= r / u < 10 ^ Z.of_nat k).
    { rewrite <- Ek. split; [apply Z.div_pos; lia | apply Z.div_lt_upper_bound; lia]. }
    unfold frac_text. assert (Ep0 : (prec =? 0) = false) by (apply Z.eqb_neq; lia). rewrite Ep0.
    fold r. unfold NANOS_PER_SEC. fold r. assert (Ew : wrap_u32 r = r) by (unfold wrap_u32; lia). rewrite Ew. fold u.
    replace (zero_padded (r / u) prec) with (dec k (r / u)) by (rewrite Ek; symmetry; apply zero_padded_dec; [lia | exact Hfr]).
    cbn [app]. rewrite app_nil_r. eexists. eexists. split; [reflexivity|].
    split; [apply (rfc_split_frac _ _ _ _ _ _ _ _ _ _ _ _ _ _ Dg _ _ _ _ _ _ Hz Ez Hzc (dec k (r / u)) (dec_digits k _))|].
    { intros X. apply (f_equal (@length Z)) in X. rewrite dec_length in X. cbn in X. lia. }
    rewrite EY, !E2d. split; [apply Hin|]. unfold rfc_denote. cbn [r_year r_month r_day r_hour r_minute r_second r_frac r_off_sign r_off_hour r_off_minute fst snd].
    rewrite Hoff, dec_length. split; [reflexivity|]. split; [|symmetry; exact Ek].
    rewrite (frac_nanos_dec k (r / u)) by first [exact Hfr | lia]. rewrite <- Ek. fold u.
    rewrite HL. unfold NANOS_PER_SEC.
    assert (Hru : r / u * u = r - r mod u) by (pose proof (Z.div_mod r u ltac:(lia)); lia).
    assert (HLu : (rd (y, mo, d) * 86400000000000 + n) / u * u = rd (y, mo, d) * 86400000000000 + n - r mod u).
    { assert (Em : (rd (y, mo, d) * 86400000000000 + n) mod u = r mod u).
      { subst r. destruct Hu as [_ Hu]. rewrite <- Hu.
        replace (rd (y, mo, d) * 86400000000000 + n) with (n mod (u * 10 ^ prec) + (rd (y, mo, d) * 86400 + n / (u * 10 ^ prec)) * 10 ^ prec * u).
        - rewrite Z.mod_add by lia. reflexivity.
        - replace ((rd (y, mo, d) * 86400 + n / (u * 10 ^ prec)) * 10 ^ prec * u) with ((rd (y, mo, d) * 86400 + n / (u * 10 ^ prec)) * (u * 10 ^ prec)) by ring.
          rewrite Hu. pose proof (Z.div_mod n 1000000000 ltac:(lia)). lia. }
      pose proof (Z.div_mod (rd (y, mo, d) * 86400000000000 + n) u ltac:(lia)). lia. }
    rewrite HLu, Hru. revert Hsum. fold r. generalize (rd (y, mo, d)). intros; lia.
Qed.

(* reading back what was written: same offset, the instant truncated to the written precision *)
Theorem rfc_roundtrip v prec : Valid_dt v -> prec_ok prec -> dt_off v mod 60 = 0 ->
  (let '(y, _, _) := days_to_date (local_instant v / D) in 1 <= y <= 9999) ->
  exists out v', dt_format_rfc3339 v prec = Ok out /\ dt_parse_rfc3339 out = Ok v' /\ dt_off v' = dt_off v /\
    instant v' = local_instant v / 10 ^ (9 - prec) * 10 ^ (9 - prec) - dt_off v * NANOS_PER_SEC /\ Valid_dt v'.
Proof.
  intros Hv Hp Hm Hy. destruct (rfc_format_denotes v prec Hv Hp Hm Hy) as (out & p & Ef & Es & Er & Eo & Ei & _).
  destruct (rfc_parse_accepts out p Es Er) as (v' & Ep & Ei' & Eo' & Vv'). exists out, v'. rewrite <- Ei, <- Eo. tauto.
Qed.
