(* Cases.v — the shape in which the Rust harness reports what the implementation did,
   and the verdict codes the correspondence check computes inside Coq.
   A case is: which API operation, its integer and text arguments, and what was observed. *)
From Astro Require Import Base.

Inductive opname :=
(* C01 *)
| Op_date_of_days | Op_dt_of_days | Op_date_from_ymd | Op_dt_from_ymd
(* arithmetic API (C02-C10, C15) *)
| Op_dt_from_ts | Op_date_from_ts | Op_dt_cmp | Op_date_cmp | Op_time_cmp
| Op_dt_add | Op_dt_sub | Op_dt_add_dur | Op_dt_sub_dur | Op_dt_add_time | Op_dt_sub_time
| Op_date_add_days | Op_date_sub_days | Op_date_add_dur | Op_date_sub_dur
| Op_dt_since | Op_dt_dur_between | Op_time_since | Op_time_dur_between | Op_date_days_since | Op_date_dur_between
| Op_time_ctor | Op_time_add | Op_time_sub | Op_time_add_time | Op_time_sub_time | Op_time_add_dur | Op_time_sub_dur
| Op_time_get | Op_time_of_dt
| Op_date_addm | Op_dt_addm | Op_date_ms | Op_dt_ms
| Op_dt_set | Op_dt_clear | Op_time_set | Op_time_clear | Op_date_set | Op_date_clear | Op_dt_get
| Op_dt_set_offset | Op_dt_as_offset | Op_time_set_offset | Op_time_as_offset | Op_offset_from_seconds | Op_offset_from_hms
| Op_dt_from_ymdhms | Op_dt_from_hms | Op_date_info | Op_dt_info
(* cron *)
| Op_cron_parse | Op_cron_next | Op_std_tables
(* TZif *)
| Op_tz_lookup | Op_tz_expect | Op_tz_synth | Op_tz_local
(* text *)
| Op_fmt | Op_parse | Op_roundtrip | Op_rfc_fmt | Op_rfc_parse | Op_display | Op_fromstr | Op_serde_ser | Op_serde_de | Op_serde_rt | Op_std_parse.

Inductive obs :=
| OOk (zs : list Z) (ss : list (list Z))
| OErr (kind : Z) (zs : list Z)      (* kind 1 = OutOfRange [name; min; max; value; custom?], 2 = InvalidFormat *)
| OPanic.

Record case := mk { c_op : opname; c_ints : list Z; c_strs : list (list Z); c_out : obs }.

(* verdict: 0 ok; 1 model and implementation disagree; 2 the implementation's observed
   behaviour violates the property's specification; 3 both; 4 malformed case (framework fault) *)
Definition verdict (model_agrees spec_holds : bool) : Z :=
  (if model_agrees then 0 else 1) + (if spec_holds then 0 else 2).
Definition V_MALFORMED : Z := 4.

Fixpoint failing_from (check : case -> Z) (i : Z) (cs : list case) : list (Z * Z) :=
  match cs with
  | [] => []
  | c :: tl => let v := check c in
               if v =? 0 then failing_from check (i + 1) tl else (i, v) :: failing_from check (i + 1) tl
  end.
Definition failing (check : case -> Z) (cs : list case) : list (Z * Z) := failing_from check 0 cs.

(* equality tests on observations *)
Fixpoint list_eqb {A} (eqb : A -> A -> bool) (l1 l2 : list A) : bool :=
  match l1, l2 with
  | [], [] => true
  | a :: t1, b :: t2 => eqb a b && list_eqb eqb t1 t2
  | _, _ => false
  end.
Definition zs_eqb := list_eqb Z.eqb.
Definition ss_eqb := list_eqb zs_eqb.
Definition obs_eqb (a b : obs) : bool :=
  match a, b with
  | OOk z1 s1, OOk z2 s2 => zs_eqb z1 z2 && ss_eqb s1 s2
  | OErr k1 z1, OErr k2 z2 => (k1 =? k2) && zs_eqb z1 z2
  | OPanic, OPanic => true
  | _, _ => false
  end.
(* same outcome class and, for errors, same kind (used where the error payload is not in scope) *)
Definition obs_same_class (a b : obs) : bool :=
  match a, b with
  | OOk z1 s1, OOk z2 s2 => zs_eqb z1 z2 && ss_eqb s1 s2
  | OErr k1 _, OErr k2 _ => k1 =? k2
  | OPanic, OPanic => true
  | _, _ => false
  end.

Definition name_code (n : oor_name) : Z :=
  match n with
  | NYear => 1 | NMonth => 2 | NDay => 3 | NDoy => 4 | NHour => 5 | NMinute => 6 | NSecond => 7
  | NSeconds => 8 | NNanoseconds => 9 | NValue => 10 | NTimestamp => 11 | NCustom => 12 | NYearZero => 1
  end.

(* observation of a model result whose Ok payload is rendered by f *)
Definition obs_of {A} (f : A -> obs) (r : res A) : obs :=
  match r with
  | Ok a => f a
  | Err (EOor n a b v) => OErr 1 [name_code n; a; b; v; (if match n with NCustom | NYearZero => true | _ => false end then 1 else 0)]
  | Err EFmt => OErr 2 []
  | Panic => OPanic
  end.
