#!/bin/sh
# Independent re-check of the compiled development with coqchk (not part of the per-property checks: about 11 minutes).
# The eight ISO-week sweep files (vm_compute over 146 097 days) are admitted: coqchk has no VM and would take hours on them.
set -e
cd "$(dirname "$0")/../coq"
coq_makefile -f _CoqProject -o Makefile >/dev/null && timeout 3000 make -j16 >/dev/null
A=""; for i in 0 1 2 3 4 5 6 7; do A="$A -admit Astro.WeekSweep$i"; done
timeout 7200 coqchk -silent -o -Q theories Astro $A Astro.PartialTypes Astro.SinceSign Astro.SinceTimeSign Astro.SinceLaws Astro.OffsetOrder Astro.RoundTrip Astro.RfcProofs Astro.TzWhole Astro.TzProofs Astro.CronTotal Astro.ErrProofs Astro.MonthYears Astro.WeekFinal
