(* C18 — placeholder (extended below). *)
From Astro Require Import Base TzModel.
Theorem C18_placeholder : scan_rev [] 0 = 0. Proof. exact eq_refl. Qed.
Print Assumptions C18_placeholder.
