(* SinceTime.v — C06 for the Time and Date types: every *_since is the exact difference divided by the unit, truncated
   toward zero (for a Time the difference of the stored times of day). *)
From Astro Require Import Base DateModel TimeModel ApiModel InstantSpec TimeProofs.

Lemma tm_as_dt (t : TM) : Inv_tm t -> Inv_dt (mkDT 0 (tm_nanos t) 0) /\ instant (mkDT 0 (tm_nanos t) 0) = tm_nanos t.
Proof.
  intros [Hn _]. split.
  - unfold Inv_dt. cbn [dt_days dt_nanos dt_off]. split; [unfold in_i32, I32_MIN, I32_MAX; lia|]. split; [exact Hn | unfold off_ok, SECS_PER_DAY; lia].
  - unfold instant. cbn [dt_days dt_nanos]. lia.
Qed.

Section TimeSince.
  Variables a b : TM.
  Hypothesis Ia : Inv_tm a.
  Hypothesis Ib : Inv_tm b.
  Let A := mkDT 0 (tm_nanos a) 0.
  Let B := mkDT 0 (tm_nanos b) 0.

  Lemma wrap32_small x : 0 <= x < 2000000000 -> wrap_i32 x = x.
  Proof. intros H. unfold wrap_i32. lia. Qed.
  Lemma wrap64_small x : 0 <= x < 1000000000000000000 -> wrap_i64 x = x.
  Proof. intros H. unfold wrap_i64. lia. Qed.

  Theorem time_hours_since_is : time_hours_since a b = Z.quot (tm_nanos a - tm_nanos b) NANOS_PER_HOUR.
  Proof.
    destruct (tm_as_dt a Ia) as [IA EA]. destruct (tm_as_dt b Ib) as [IB EB].
    destruct (tot_hours _ IA) as [Ea Ra]. destruct (tot_hours _ IB) as [Eb Rb]. cbn [dt_days dt_nanos] in *. rewrite EA in Ea. rewrite EB in Eb.
    destruct Ia as [Ha _], Ib as [Hb _].
    unfold time_hours_since. rewrite !wrap32_small by (revert Ea Eb Ra Rb Ha Hb; unfold_consts; intros; lia).
    rewrite since_hour by assumption. rewrite Ea, Eb. reflexivity.
  Qed.
  Theorem time_minutes_since_is : time_minutes_since a b = Z.quot (tm_nanos a - tm_nanos b) NANOS_PER_MINUTE.
  Proof.
    destruct (tm_as_dt a Ia) as [IA EA]. destruct (tm_as_dt b Ib) as [IB EB].
    destruct (tot_minutes _ IA) as [Ea Ra]. destruct (tot_minutes _ IB) as [Eb Rb]. cbn [dt_days dt_nanos] in *. rewrite EA in Ea. rewrite EB in Eb.
    destruct Ia as [Ha _], Ib as [Hb _].
    unfold time_minutes_since. rewrite !wrap32_small by (revert Ea Eb Ra Rb Ha Hb; unfold_consts; intros; lia).
    rewrite since_minute by assumption. rewrite Ea, Eb. reflexivity.
  Qed.
  Theorem time_seconds_since_is : time_seconds_since a b = Z.quot (tm_nanos a - tm_nanos b) NANOS_PER_SEC.
  Proof.
    destruct (tm_as_dt a Ia) as [IA EA]. destruct (tm_as_dt b Ib) as [IB EB].
    destruct (tot_seconds _ IA) as [Ea Ra]. destruct (tot_seconds _ IB) as [Eb Rb]. cbn [dt_days dt_nanos] in *. rewrite EA in Ea. rewrite EB in Eb.
    destruct Ia as [Ha _], Ib as [Hb _].
    unfold time_seconds_since. rewrite !wrap32_small by (revert Ea Eb Ra Rb Ha Hb; unfold_consts; intros; lia).
    rewrite since_second by assumption. rewrite Ea, Eb. reflexivity.
  Qed.
  Theorem time_millis_since_is : time_millis_since a b = Z.quot (tm_nanos a - tm_nanos b) 1000000.
  Proof.
    destruct (tm_as_dt a Ia) as [IA EA]. destruct (tm_as_dt b Ib) as [IB EB].
    destruct (tot_millis _ IA) as [Ea Ra]. destruct (tot_millis _ IB) as [Eb Rb]. cbn [dt_days dt_nanos] in *. rewrite EA in Ea. rewrite EB in Eb.
    destruct Ia as [Ha _], Ib as [Hb _].
    unfold time_millis_since. rewrite !wrap64_small by (revert Ea Eb Ra Rb Ha Hb; unfold_consts; intros; lia).
    rewrite since_milli by assumption. rewrite Ea, Eb. reflexivity.
  Qed.
  Theorem time_micros_since_is : time_micros_since a b = Z.quot (tm_nanos a - tm_nanos b) 1000.
  Proof.
    destruct (tm_as_dt a Ia) as [IA EA]. destruct (tm_as_dt b Ib) as [IB EB].
    destruct (tot_micros _ IA) as [Ea Ra]. destruct (tot_micros _ IB) as [Eb Rb]. cbn [dt_days dt_nanos] in *. rewrite EA in Ea. rewrite EB in Eb.
    destruct Ia as [Ha _], Ib as [Hb _].
    unfold time_micros_since. rewrite !wrap64_small by (revert Ea Eb Ra Rb Ha Hb; unfold_consts; intros; lia).
    rewrite since_micro by assumption. rewrite Ea, Eb. reflexivity.
  Qed.
  Theorem time_nanos_since_is : time_nanos_since a b = tm_nanos a - tm_nanos b.
  Proof.
    destruct Ia as [Ha _], Ib as [Hb _]. unfold time_nanos_since. rewrite !days_nanos_to_nanos_spec.
    rewrite !wrap64_small by (revert Ha Hb; unfold_consts; intros; lia). lia.
  Qed.
  Theorem time_duration_between_is : time_duration_between a b = Z.abs (tm_nanos a - tm_nanos b).
  Proof. reflexivity. Qed.
End TimeSince.

Theorem date_days_since_is a b : date_days_since a b = a - b.
Proof. reflexivity. Qed.
Theorem date_duration_between_is a b : date_duration_between a b = Z.abs (a - b) * SECS_PER_DAY.
Proof. reflexivity. Qed.
