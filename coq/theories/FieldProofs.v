(* FieldProofs.v — reading back what the formatter wrote, field by field (C12, C20): the consume-from-the-front
   primitives on a text that starts with a known field. *)
From Astro Require Import Base Text CalSpec DateModel TimeModel ApiModel InstantSpec FormatModel ParseModel
  DateProofs TimeProofs ClockProofs OffsetProofs ErrProofs TextProofs PadProofs.

(* ---------- the value of what zero_padded / u_to_string write ---------- *)
Lemma zeros_digits k : all_digits (zeros k) = true.
Proof. induction k as [|k IH]; cbn [zeros all_digits forallb]; [reflexivity|]. fold (all_digits (zeros k)). rewrite IH. reflexivity. Qed.
Lemma dva_zeros k : forall acc, digits_val_aux (zeros k) acc = acc * 10 ^ Z.of_nat k.
Proof.
  induction k as [|k IH]; intros acc; cbn [zeros digits_val_aux]; [cbn; lia|]. rewrite IH, Nat2Z.inj_succ, Z.pow_succ_r by lia. lia.
Qed.
Lemma digits_val_zeros k s : digits_val (zeros k ++ s) = digits_val s.
Proof. unfold digits_val. rewrite digits_val_aux_app, dva_zeros. reflexivity. Qed.

Lemma u_to_string_spec n : 0 <= n < 10 ^ 40 ->
  all_digits (u_to_string n) = true /\ digits_val (u_to_string n) = n /\ u_to_string n <> [].
Proof.
  intros H. pose proof (digits_rev_dec 40 40 n ltac:(lia) ltac:(lia) H) as E. fold (u_to_string n) in E.
  pose proof (dec_digits 40 n) as Ad. rewrite <- E, all_digits_app in Ad. apply andb_true_iff in Ad as [_ Ad].
  split; [exact Ad|]. split.
  - rewrite <- (digits_val_zeros (40 - length (digits_rev 40 n)) (u_to_string n)), E. apply dec_val. exact H.
  - unfold u_to_string. cbn [digits_rev]. destruct (n <? 10); [discriminate|]. cbn [rev]. intros X. apply app_eq_nil in X as [_ X]. discriminate.
Qed.
Lemma zero_padded_spec n w : 0 <= n < 10 ^ 40 ->
  all_digits (zero_padded n w) = true /\ digits_val (zero_padded n w) = n /\ zero_padded n w <> [].
Proof.
  intros H. destruct (u_to_string_spec n H) as (A & B & C). unfold zero_padded. cbv zeta.
  rewrite all_digits_app, zeros_digits, A, digits_val_zeros, B. repeat split. intros X. apply app_eq_nil in X as [_ X]. contradiction.
Qed.

(* ---------- consume-from-the-front primitives on a ++ rest ---------- *)
Lemma char_count_app a b : char_count (a ++ b) = char_count a + char_count b.
Proof. unfold char_count. rewrite app_length. lia. Qed.
Lemma pick_text_app a rest : pick_text (char_count a) (a ++ rest) = Ok (a, rest).
Proof.
  unfold pick_text. rewrite char_count_app. destruct (Z.ltb_spec (char_count a + char_count rest) (char_count a)); [unfold char_count in *; lia|].
  unfold char_count. rewrite Nat2Z.id, firstn_app, skipn_app, Nat.sub_diag, firstn_all, skipn_all. cbn [firstn skipn]. rewrite app_nil_r. reflexivity.
Qed.
Lemma remove_part_app a rest : remove_part (char_count a) (a ++ rest) = Ok rest.
Proof.
  unfold remove_part. rewrite char_count_app. destruct (Z.ltb_spec (char_count a + char_count rest) (char_count a)); [unfold char_count in *; lia|].
  unfold char_count. rewrite Nat2Z.id, skipn_app, Nat.sub_diag, skipn_all. reflexivity.
Qed.
Lemma pick_u32_app a rest : all_digits a = true -> a <> [] -> digits_val a <= U32_MAX ->
  pick_u32 (char_count a) (a ++ rest) = Ok (digits_val a, rest).
Proof.
  intros Ad Hne Hb. unfold pick_u32. rewrite pick_text_app. cbn [bind].
  assert (E : parse_unsigned U32_MAX a = Some (digits_val a)).
  { unfold parse_unsigned. destruct a as [|c tl]; [congruence|]. pose proof Ad as Ad'. cbn [all_digits forallb] in Ad'. apply andb_true_iff in Ad' as [Hc _].
    unfold is_ascii_digit in Hc. apply andb_true_iff in Hc as [Hc1 Hc2]. apply Z.leb_le in Hc1, Hc2. destruct (Z.eqb_spec c 43); [lia|].
    unfold all_digits in *. rewrite Ad. cbv zeta. destruct (Z.leb_spec (digits_val (c :: tl)) U32_MAX); [reflexivity | lia]. }
  rewrite E. reflexivity.
Qed.
Lemma nth_is_digit_app a rest i : (i < length a)%nat -> nth_is_digit (a ++ rest) i = nth_is_digit a i.
Proof. intros H. unfold nth_is_digit, nth_char. rewrite nth_error_app1 by exact H. reflexivity. Qed.
Lemma nth_is_digit_skip a rest i : nth_is_digit (a ++ rest) (length a + i) = nth_is_digit rest i.
Proof. unfold nth_is_digit, nth_char. rewrite nth_error_app2 by lia. replace (length a + i - length a)%nat with i by lia. reflexivity. Qed.

(* two-digit fields *)
Lemma pick2 x rest : 0 <= x < 100 -> pick_u32 2 (zero_padded x 2 ++ rest) = Ok (x, rest).
Proof.
  intros H. rewrite (zero_padded_2 x H). change 2 with (char_count [48 + x / 10; 48 + x mod 10]).
  rewrite pick_u32_app.
  - f_equal. f_equal. unfold digits_val. cbn [digits_val_aux]. lia.
  - cbn [all_digits forallb]. unfold is_ascii_digit.
    destruct (Z.leb_spec 48 (48 + x / 10)); [|lia]. destruct (Z.leb_spec (48 + x / 10) 57); [|lia].
    destruct (Z.leb_spec 48 (48 + x mod 10)); [|lia]. destruct (Z.leb_spec (48 + x mod 10) 57); [reflexivity|lia].
  - discriminate.
  - unfold digits_val, U32_MAX. cbn [digits_val_aux]. lia.
Qed.

(* ---------- the year field "yyyy" (also y, yyy): sign, then a run of digits ---------- *)
Lemma take_digits_cons c l : take_digits (c :: l) = if is_ascii_digit c then (let '(a, b) := take_digits l in (c :: a, b)) else ([], c :: l).
Proof. reflexivity. Qed.
Lemma take_digits_app ds : forall rest, all_digits ds = true -> nth_is_digit rest 0 = false -> take_digits (ds ++ rest) = (ds, rest).
Proof.
  induction ds as [|c ds IH]; intros rest Ad Hr.
  - cbn [app]. destruct rest as [|r rt]; [reflexivity|]. rewrite take_digits_cons. unfold nth_is_digit, nth_char in Hr. cbn [nth_error] in Hr. rewrite Hr. reflexivity.
  - cbn [app]. rewrite take_digits_cons. cbn [all_digits forallb] in Ad. apply andb_true_iff in Ad as [Hc Ad]. rewrite Hc, (IH rest Ad Hr). reflexivity.
Qed.
Lemma pdp_y4 now s : parse_date_part now [121;121;121;121] s =
  (let start := if starts_with [45] s then 1%nat else 0%nat in
   let ndig := length (fst (take_digits (skipn start s))) in
   let? '(v, rest) := pick_i32 (Z.of_nat (start + ndig)) s in some_part PYear v rest).
Proof. reflexivity. Qed.

Lemma year4_parse now y rest : I32_MIN <= y <= I32_MAX -> nth_is_digit rest 0 = false ->
  parse_date_part now [121;121;121;121] (zero_padded_i y 4 ++ rest) = Ok (Some (PYear, y), rest).
Proof.
  intros Hy Hr. rewrite pdp_y4. unfold zero_padded_i.
  assert (P40 : 2147483648 < 10 ^ 40) by (apply Z.ltb_lt; vm_compute; reflexivity).
  assert (Hb : 0 <= Z.abs y < 10 ^ 40) by (unfold I32_MIN, I32_MAX in Hy; generalize dependent (10 ^ 40); intros; lia).
  destruct (zero_padded_spec (Z.abs y) 4 Hb) as (Ad & Ev & Hne). set (zp := zero_padded (Z.abs y) 4) in *.
  destruct zp as [|c tl] eqn:Ez; [congruence|]. rewrite <- Ez in *.
  assert (Hc : 48 <= c <= 57).
  { rewrite Ez in Ad. cbn [all_digits forallb] in Ad. apply andb_true_iff in Ad as [Hc _]. unfold is_ascii_digit in Hc. apply andb_true_iff in Hc as [A B]. apply Z.leb_le in A, B. lia. }
  destruct (Z.ltb_spec y 0) as [Hneg|Hpos].
  - cbn [app]. assert (S1 : starts_with [45] (45 :: zp ++ rest) = true) by reflexivity. rewrite S1. cbv zeta. cbn [skipn].
    rewrite (take_digits_app zp rest Ad Hr). cbn [fst]. unfold pick_i32.
    replace (Z.of_nat (1 + length zp)) with (char_count (45 :: zp)) by (unfold char_count; cbn [length]; lia).
    change (45 :: zp ++ rest) with ((45 :: zp) ++ rest). rewrite pick_text_app. cbn [bind].
    unfold parse_signed. cbn [Z.eqb Pos.eqb]. rewrite Ez at 1. rewrite Ad. cbv zeta. rewrite Ev.
    destruct (Z.leb_spec I32_MIN (- Z.abs y)); [|lia]. cbn [bind]. unfold some_part. repeat f_equal. lia.
  - cbn [app]. assert (S0 : starts_with [45] (zp ++ rest) = false).
    { rewrite Ez. unfold starts_with. cbn [length app firstn text_eqb]. destruct (Z.eqb_spec 45 c); [lia | reflexivity]. }
    rewrite S0. cbv zeta. cbn [skipn]. rewrite (take_digits_app zp rest Ad Hr). cbn [fst Nat.add]. unfold pick_i32.
    change (Z.of_nat (length zp)) with (char_count zp). rewrite pick_text_app. cbn [bind].
    unfold parse_signed, parse_unsigned. rewrite Ez. destruct (Z.eqb_spec c 45); [lia|]. destruct (Z.eqb_spec c 43); [lia|]. rewrite <- Ez.
    unfold all_digits in *. rewrite Ad. cbv zeta. fold (digits_val zp). rewrite Ev.
    destruct (Z.leb_spec (Z.abs y) I32_MAX); [|lia]. cbn [bind]. unfold some_part. repeat f_equal. lia.
Qed.

(* ---------- stepping the parse loop ---------- *)
Lemma parse_loop_field pp part tl s d x u v s' : is_literal_part part = false -> pp part s = Ok (Some (u, v), s') ->
  parse_loop pp (part :: tl) s d x = if is_date_unit u then parse_loop pp tl s' (set_date d u v) x else parse_loop pp tl s' d (set_time x u v).
Proof. intros Hl E. cbn [parse_loop]. rewrite Hl, E. reflexivity. Qed.
Lemma parse_loop_skip pp part tl s d x s' : is_literal_part part = false -> pp part s = Ok (None, s') ->
  parse_loop pp (part :: tl) s d x = parse_loop pp tl s' d x.
Proof. intros Hl E. cbn [parse_loop]. rewrite Hl, E. reflexivity. Qed.

(* a single ASCII character that is no symbol: one character of the input is skipped (whatever it is) *)
Lemma remove1 c rest : remove_part 1 (c :: rest) = Ok rest.
Proof. change 1 with (char_count [c]). change (c :: rest) with ([c] ++ rest). apply remove_part_app. Qed.
Lemma pdp_other now c0 c rest : is_date_symbol c0 = false -> (c0 <? 128) = true -> parse_date_part now [c0] (c :: rest) = Ok (None, rest).
Proof.
  intros H Ha. unfold is_date_symbol in H. rewrite !orb_false_iff in H. destruct H as (((((((H1 & H2) & H3) & H4) & H5) & H6) & H7) & H8).
  unfold parse_date_part. cbn [first_char length]. rewrite H1, H2, H3, H4, H5, H6, H7, H8.
  cbn [byte_len fold_right]. unfold utf8_len. rewrite Ha. change (1 + 0) with 1. rewrite remove1. reflexivity.
Qed.
Lemma ptp_other c0 c rest : is_time_symbol c0 = false -> (c0 <? 128) = true -> parse_time_part [c0] (c :: rest) = Ok (None, rest).
Proof.
  intros H Ha. unfold is_time_symbol in H. rewrite !orb_false_iff in H.
  destruct H as ((((((((((H1 & H2) & H3) & H4) & H5) & H6) & H7) & H8) & H9) & H10) & H11).
  unfold parse_time_part. cbn [first_char length]. rewrite H1, H2, H3, H4, H5, H6, H7, H8, H9, H10, H11.
  cbn [byte_len fold_right]. unfold utf8_len. rewrite Ha. change (1 + 0) with 1. rewrite remove1. reflexivity.
Qed.

(* ---------- Date: yyyy-MM-dd written and read back (Display uses '/', serde and FromStr '-') ---------- *)
Lemma wrap_i32_id z : in_i32 z -> wrap_i32 z = z.
Proof. unfold in_i32, wrap_i32, I32_MIN, I32_MAX. intros. lia. Qed.
Lemma wrap_u32_id z : 0 <= z <= U32_MAX -> wrap_u32 z = z.
Proof. unfold wrap_u32, U32_MAX. intros. lia. Qed.

Definition date_text (sep : Z) (d : Z) : text :=
  let '(y, mo, dd) := days_to_date d in zero_padded_i y 4 ++ [sep] ++ zero_padded mo 2 ++ [sep] ++ zero_padded dd 2 ++ [].
Lemma date_format_sep sep d : is_date_symbol sep = false -> sep <> NUL -> sep <> APOS ->
  parse_format_string ([121;121;121;121] ++ [sep] ++ [77;77] ++ [sep] ++ [100;100]) = [[121;121;121;121]; [sep]; [77;77]; [sep]; [100;100]] ->
  date_format d ([121;121;121;121] ++ [sep] ++ [77;77] ++ [sep] ++ [100;100]) = Ok (date_text sep d).
Proof.
  intros Hs Hn Ha Hp. unfold date_format, date_text. rewrite Hp. cbn [map]. unfold render_part. cbn [first_char].
  apply Z.eqb_neq in Hn, Ha. rewrite Hn, Ha. cbn [Z.eqb Pos.eqb].
  unfold format_date_part, format_month. cbn [first_char length]. unfold is_date_symbol in Hs. rewrite !orb_false_iff in Hs.
  destruct Hs as (((((((H1 & H2) & H3) & H4) & H5) & H6) & H7) & H8). rewrite H1, H2, H3, H4, H5, H6, H7, H8.
  destruct (days_to_date d) as [[y mo] dd]. reflexivity.
Qed.

Theorem date_text_parse now sep sep' d : in_i32 d -> is_ascii_digit sep = false ->
  is_date_symbol sep' = false -> (sep' <? 128) = true -> sep' <> NUL -> sep' <> APOS ->
  parse_format_string ([121;121;121;121] ++ [sep'] ++ [77;77] ++ [sep'] ++ [100;100]) = [[121;121;121;121]; [sep']; [77;77]; [sep']; [100;100]] ->
  date_parse now (date_text sep d) ([121;121;121;121] ++ [sep'] ++ [77;77] ++ [sep'] ++ [100;100]) = Ok d.
Proof.
  intros Hd Hsep Hs Ha Hn Hq Hp. unfold date_parse, date_text. rewrite Hp.
  pose proof (c01_roundtrip d Hd) as RT. destruct (c01_valid d Hd) as [V R].
  destruct (days_to_date d) as [[y mo] dd]. destruct V as (Hy0 & Hmo & Hdd). apply in_range_facts in R. destruct R as (Ry & _).
  assert (Hdd31 : dd <= 31) by (unfold mlen in Hdd; repeat match type of Hdd with context [if ?b then _ else _] => destruct b end; lia).
  assert (Hyi : I32_MIN <= y <= I32_MAX) by (unfold MIN_Y, MAX_Y, I32_MIN, I32_MAX in *; lia).
  assert (Lit : is_literal_part [sep'] = false).
  { unfold is_literal_part. cbn [first_char]. apply Z.eqb_neq in Hn, Hq. rewrite Hn, Hq. reflexivity. }
  (* yyyy *)
  rewrite (parse_loop_field _ _ _ _ _ _ PYear y ([sep] ++ zero_padded mo 2 ++ [sep] ++ zero_padded dd 2 ++ [])); [|reflexivity|].
  2:{ apply year4_parse; [exact Hyi|]. unfold nth_is_digit, nth_char. cbn [app nth_error]. exact Hsep. }
  cbn [is_date_unit app].
  (* separator *)
  rewrite (parse_loop_skip _ _ _ _ _ _ (zero_padded mo 2 ++ sep :: zero_padded dd 2 ++ [])); [|exact Lit | apply pdp_other; assumption].
  (* MM *)
  rewrite (parse_loop_field _ _ _ _ _ _ PMonth mo (sep :: zero_padded dd 2 ++ [])); [|reflexivity|].
  2:{ change (parse_date_part now [77; 77] ?s) with (parse_month 2 s). unfold parse_month. rewrite pick2 by lia. reflexivity. }
  cbn [is_date_unit].
  rewrite (parse_loop_skip _ _ _ _ _ _ (zero_padded dd 2 ++ [])); [|exact Lit | apply pdp_other; assumption].
  (* dd *)
  rewrite (parse_loop_field _ _ _ _ _ _ PDayOfMonth dd []); [|reflexivity|].
  2:{ change (parse_date_part now [100; 100] ?s) with (let? '(v, rest) := pick_u32 2 s in some_part PDayOfMonth v rest). rewrite pick2 by lia. reflexivity. }
  cbn [is_date_unit parse_loop bind]. unfold date_days_of, set_date, PD0. cbn [pd_doy pd_year pd_month pd_dom oz].
  rewrite (wrap_i32_id y) by exact Hyi. rewrite !wrap_u32_id by (unfold U32_MAX; lia). exact RT.
Qed.

(* ---------- Time: HH:mm:ss written and read back ---------- *)
Definition clock_text (n : Z) : text :=
  let '(h, mi, s) := nanos_to_time n in zero_padded h 2 ++ [58] ++ zero_padded mi 2 ++ [58] ++ zero_padded s 2 ++ [].
Lemma pfs_time : parse_format_string P_TIME = [[72;72]; [58]; [109;109]; [58]; [115;115]].
Proof. vm_compute. reflexivity. Qed.
Lemma time_format_hms t : time_format t P_TIME = Ok (clock_text (add_offset_to_nanos (tm_nanos t) (tm_off t))).
Proof.
  unfold time_format, clock_text. cbv zeta. rewrite pfs_time. cbn [map]. unfold render_part, format_time_part. cbn [first_char length].
  destruct (nanos_to_time _) as [[h mi] s]. reflexivity.
Qed.
Lemma wrap_u64_id z : 0 <= z <= U64_MAX -> wrap_u64 z = z.
Proof. unfold wrap_u64, U64_MAX. intros. lia. Qed.

Theorem clock_text_parse n : 0 <= n < NANOS_PER_DAY ->
  time_parse (clock_text n) P_TIME = Ok (mkTM (n / NANOS_PER_SEC * NANOS_PER_SEC) 0).
Proof.
  intros Hn. unfold time_parse, clock_text. rewrite pfs_time, (nanos_to_time_spec n Hn).
  set (h := n / NANOS_PER_HOUR). set (mi := (n / NANOS_PER_MINUTE) mod 60). set (s := (n / NANOS_PER_SEC) mod 60).
  assert (Hh : 0 <= h <= 23) by (subst h; revert Hn; unfold_consts; intros; lia).
  assert (Hmi : 0 <= mi <= 59) by (subst mi; lia). assert (Hs : 0 <= s <= 59) by (subst s; lia).
  assert (Hsum : (h * 3600 + mi * 60 + s) * NANOS_PER_SEC = n / NANOS_PER_SEC * NANOS_PER_SEC) by (subst h mi s; revert Hn; unfold_consts; intros; lia).
  clearbody h mi s.
  assert (Lit : is_literal_part [58] = false) by reflexivity.
  rewrite (parse_loop_field _ _ _ _ _ _ PHour h ([58] ++ zero_padded mi 2 ++ [58] ++ zero_padded s 2 ++ [])); [|reflexivity|].
  2:{ change (parse_time_part [72; 72] ?x) with (let? '(v, rest) := pick_u32 2 x in some_part PHour v rest). rewrite pick2 by lia. reflexivity. }
  cbn [is_date_unit app].
  rewrite (parse_loop_skip _ _ _ _ _ _ (zero_padded mi 2 ++ 58 :: zero_padded s 2 ++ [])); [|exact Lit | apply ptp_other; reflexivity].
  rewrite (parse_loop_field _ _ _ _ _ _ PMinute mi (58 :: zero_padded s 2 ++ [])); [|reflexivity|].
  2:{ change (parse_time_part [109; 109] ?x) with (let? '(v, rest) := pick_u32 2 x in some_part PMinute v rest). rewrite pick2 by lia. reflexivity. }
  cbn [is_date_unit].
  rewrite (parse_loop_skip _ _ _ _ _ _ (zero_padded s 2 ++ [])); [|exact Lit | apply ptp_other; reflexivity].
  rewrite (parse_loop_field _ _ _ _ _ _ PSecond s []); [|reflexivity|].
  2:{ change (parse_time_part [115; 115] ?x) with (let? '(v, rest) := pick_u32 2 x in some_part PSecond v rest). rewrite pick2 by lia. reflexivity. }
  cbn [is_date_unit parse_loop bind]. unfold set_time, PT0, time_nanos.
  cbn [pt_hour pt_phour pt_period pt_minute pt_second pt_decis pt_centis pt_millis pt_micros pt_nanos pt_offset oz].
  rewrite !wrap_u64_id by (unfold U64_MAX; lia).
  replace (h * 3600 * NANOS_PER_SEC + mi * 60 * NANOS_PER_SEC + s * NANOS_PER_SEC + 0 * 100000000 + 0 * 10000000 + 0 * 1000000 + 0 * 1000 + 0)
    with (n / NANOS_PER_SEC * NANOS_PER_SEC) by lia.
  unfold time_from_nanos. destruct (Z.leb_spec NANOS_PER_DAY (n / NANOS_PER_SEC * NANOS_PER_SEC)); [revert Hn H; unfold_consts; intros; lia|]. reflexivity.
Qed.

(* ---------- Display and Serialize texts ---------- *)
Lemma pfs_date_iso : parse_format_string ([121;121;121;121] ++ [45] ++ [77;77] ++ [45] ++ [100;100]) = [[121;121;121;121]; [45]; [77;77]; [45]; [100;100]].
Proof. vm_compute. reflexivity. Qed.
Lemma pfs_date_display : parse_format_string ([121;121;121;121] ++ [47] ++ [77;77] ++ [47] ++ [100;100]) = [[121;121;121;121]; [47]; [77;77]; [47]; [100;100]].
Proof. vm_compute. reflexivity. Qed.
Theorem date_display_text d : date_display d = Ok (date_text 47 d).
Proof. apply (date_format_sep 47 d); try reflexivity; discriminate. Qed.
Theorem date_serialize_text d : date_serialize d = Ok (date_text 45 d).
Proof. apply (date_format_sep 45 d); try reflexivity; discriminate. Qed.
Theorem date_serde_roundtrip now d : in_i32 d -> exists s, date_serialize d = Ok s /\ date_from_str now s = Ok d.
Proof.
  intros Hd. exists (date_text 45 d). split; [apply date_serialize_text|].
  apply (date_text_parse now 45 45 d Hd); try reflexivity; discriminate.
Qed.
Theorem time_display_text t : time_display t = Ok (clock_text (add_offset_to_nanos (tm_nanos t) (tm_off t))).
Proof. apply time_format_hms. Qed.
Theorem time_serde_roundtrip t : exists s, time_serialize t = Ok s /\
  time_from_str s = Ok (mkTM (add_offset_to_nanos (tm_nanos t) (tm_off t) / NANOS_PER_SEC * NANOS_PER_SEC) 0).
Proof.
  eexists. split; [apply time_format_hms|]. apply clock_text_parse. apply add_offset_in_day.
Qed.

Lemma pfs_dt_display : parse_format_string P_DT_DISPLAY = [[121;121;121;121]; [47]; [77;77]; [47]; [100;100]; [32]; [72;72]; [58]; [109;109]; [58]; [115;115]].
Proof. vm_compute. reflexivity. Qed.
Theorem dt_display_text v : Valid_dt v ->
  dt_display v = Ok ((date_text 47 (local_instant v / D) ++ [32] ++ clock_text (local_instant v mod D)) ++ []).
Proof.
  intros [I L]. unfold dt_display, dt_format. cbv zeta. unfold add_offset_to_dn. rewrite (days_nanos_to_nanos_spec (dt_days v) (dt_nanos v)).
  destruct (split_ok _ L) as [E _]. unfold local_instant, instant in E. rewrite E. cbn [unwrap bind]. rewrite pfs_dt_display. cbn [map].
  unfold date_text, clock_text, render_part, format_part, format_date_part, format_time_part, format_month. cbn [first_char length].
  destruct (days_to_date _) as [[y mo] d]. destruct (nanos_to_time _) as [[h mi] s]. cbn [concat_res bind]. rewrite <- !app_assoc. reflexivity.
Qed.
