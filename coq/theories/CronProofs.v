(* CronProofs.v — C16: the cron parser recognises exactly the documented grammar and denotes its value sets. *)
From Astro Require Import Base Text CronModel CronSpec.

Definition kty (k : fkind) : cron_type := match k with KMonth => CMonth | KDow => CDayOfWeek | _ => CNumeric end.
Definition knumeric (k : fkind) : bool := match k with KMonth | KDow => false | _ => true end.

(* ---------- lists of values ---------- *)
Lemma mem_range_from v n : forall lo, mem v (range_from lo n) = (lo <=? v) && (v <? lo + Z.of_nat n).
Proof.
  induction n as [|n IH]; intros lo.
  - cbn. lia.
  - cbn [range_from mem existsb]. fold (mem v (range_from (lo + 1) n)). rewrite IH, Nat2Z.inj_succ. pose proof (Nat2Z.is_nonneg n). break_cmps; reflexivity.
Qed.
Lemma mem_range_incl v lo hi : mem v (range_incl lo hi) = (lo <=? v) && (v <=? hi).
Proof.
  unfold range_incl. rewrite mem_range_from.
  destruct (Z.le_gt_cases lo hi).
  - rewrite Z2Nat.id by lia. lia.
  - replace (Z.to_nat (hi - lo + 1)) with O by lia. cbn. lia.
Qed.
Lemma mem_filter v (f : Z -> bool) l : mem v (filter f l) = mem v l && f v.
Proof.
  induction l as [|x l IH]; [reflexivity|]. cbn [filter]. destruct (f x) eqn:E.
  - cbn [mem existsb]. fold (mem v (filter f l)) (mem v l). rewrite IH.
    destruct (Z.eqb_spec v x); [subst; rewrite E; cbn; reflexivity | cbn; reflexivity].
  - cbn [mem existsb]. fold (mem v l). rewrite IH.
    destruct (Z.eqb_spec v x); [subst; rewrite E; cbn; rewrite andb_false_r; reflexivity | cbn; reflexivity].
Qed.
Lemma mem_app v a b : mem v (a ++ b) = mem v a || mem v b.
Proof. unfold mem. apply existsb_app. Qed.
Lemma mem_map_norm v (f : Z -> Z) l : mem v (map f l) = existsb (fun w => v =? f w) l.
Proof. induction l as [|x l IH]; [reflexivity|]. cbn. unfold mem in IH. rewrite IH. reflexivity. Qed.
Lemma existsb_range_from (P : Z -> bool) n : forall lo,
  existsb P (range_from lo n) = true <-> exists w, lo <= w < lo + Z.of_nat n /\ P w = true.
Proof.
  induction n as [|n IH]; intros lo; cbn [range_from existsb].
  - split; [discriminate | intros (w & H & _); lia].
  - rewrite orb_true_iff, IH. split.
    + intros [H | (w & H & Hp)]; [exists lo; split; [lia | exact H] | exists w; split; [lia | exact Hp]].
    + intros (w & H & Hp). destruct (Z.eq_dec w lo) as [->|]; [left; exact Hp | right; exists w; split; [lia | exact Hp]].
Qed.

(* ---------- strings ---------- *)
Lemma text_eqb_eq a : forall b, text_eqb a b = true <-> a = b.
Proof.
  induction a as [|x a IH]; destruct b as [|y b]; cbn; try (split; [discriminate | discriminate]); try tauto.
  rewrite andb_true_iff, Z.eqb_eq, IH. split; [intros [-> ->]; reflexivity | intros E; injection E; auto].
Qed.
Lemma text_eqb_refl a : text_eqb a a = true. Proof. apply text_eqb_eq. reflexivity. Qed.

Lemma lowercase_idem s : lowercase (lowercase s) = lowercase s.
Proof.
  unfold lowercase. rewrite map_map. apply map_ext. intros c. unfold to_lower, is_ascii_upper.
  destruct ((65 <=? c) && (c <=? 90)) eqn:E; [|rewrite E; reflexivity].
  replace ((65 <=? c + 32) && (c + 32 <=? 90)) with false by lia. reflexivity.
Qed.

Lemma digit_numeric c : is_ascii_digit c = true -> is_numeric_char c = true.
Proof. unfold is_numeric_char. intros ->. reflexivity. Qed.
Lemma all_digits_numeric s : all_digits s = true -> is_numeric_part s = true.
Proof.
  unfold all_digits, is_numeric_part. rewrite !forallb_forall. intros H c Hc. apply digit_numeric, H, Hc.
Qed.

(* splitting on a separator that is itself a numeric character *)
Lemma split_on_nonempty c s : split_on c s <> [].
Proof. destruct s as [|x s]; cbn; [discriminate|]. destruct (x =? c); [discriminate|]. destruct (split_on c s); discriminate. Qed.

Lemma numeric_split c s : is_numeric_char c = true ->
  is_numeric_part s = forallb is_numeric_part (split_on c s).
Proof.
  intros Hc. induction s as [|x s IH]; [reflexivity|].
  cbn [split_on is_numeric_part forallb]. fold (is_numeric_part s). destruct (Z.eqb_spec x c) as [->|Hne].
  - cbn [forallb is_numeric_part]. rewrite Hc, IH. reflexivity.
  - rewrite IH. destruct (split_on c s) as [|p ps] eqn:E; [exfalso; eapply split_on_nonempty; exact E|].
    cbn [forallb is_numeric_part]. fold (is_numeric_part p). rewrite andb_assoc. reflexivity.
Qed.

Lemma split_on_none c s : contains c s = false -> split_on c s = [s].
Proof.
  induction s as [|x s IH]; [reflexivity|]. cbn [contains existsb split_on]. fold (contains c s).
  rewrite Z.eqb_sym. destruct (x =? c); [discriminate|]. cbn [orb]. intros H. rewrite (IH H). reflexivity.
Qed.
Lemma split_on_some c s : contains c s = true -> exists a b rest, split_on c s = a :: b :: rest.
Proof.
  induction s as [|x s IH]; [discriminate|]. cbn [contains existsb split_on]. fold (contains c s).
  rewrite Z.eqb_sym. destruct (x =? c).
  - intros _. destruct (split_on c s) as [|p ps] eqn:E; [exfalso; eapply split_on_nonempty; exact E|]. eauto.
  - cbn [orb]. intros H. destruct (IH H) as (a & b & rest & ->). eauto.
Qed.

(* names consist of ASCII letters only *)
Definition all_alpha (s : text) : bool := forallb is_ascii_alpha s.
Lemma index_of_in names : forall s i j, index_of names s i = Some j -> In s names.
Proof.
  induction names as [|n tl IH]; intros s i j; cbn; [discriminate|].
  destruct (text_eqb n s) eqn:E; [intros _; left; apply text_eqb_eq; exact E | intros H; right; eapply IH; exact H].
Qed.
Lemma names_alpha s : In s (MONTH_NAMES ++ DOW_NAMES) -> all_alpha s = true /\ s <> [].
Proof. cbn. intros H. repeat (destruct H as [<- | H]; [split; [reflexivity | discriminate]|]). contradiction. Qed.
Lemma lower_alpha c : is_ascii_alpha (to_lower c) = true -> is_numeric_char c = false.
Proof.
  unfold to_lower, is_ascii_alpha, is_ascii_upper, is_ascii_lower, is_numeric_char, is_ascii_digit.
  destruct ((65 <=? c) && (c <=? 90)) eqn:E; intros H; lia.
Qed.
Lemma name_not_numeric names s i j : (forall x, In x names -> In x (MONTH_NAMES ++ DOW_NAMES)) ->
  index_of names (lowercase s) i = Some j -> is_numeric_part s = false.
Proof.
  intros Hn H. apply index_of_in, Hn, names_alpha in H. destruct H as [Ha Hne].
  destruct s as [|c s]; [cbn in Hne; congruence|]. cbn in Ha. apply andb_true_iff in Ha as [Ha _].
  cbn [is_numeric_part forallb]. rewrite (lower_alpha c Ha). reflexivity.
Qed.

(* ---------- values ---------- *)
Lemma parse_unsigned_digits s : is_numeric_part s = true ->
  parse_unsigned 255 s = if is_number s then (if digits_val s <=? 255 then Some (digits_val s) else None) else None.
Proof.
  intros Hn. unfold parse_unsigned, is_number. destruct s as [|c s]; [reflexivity|].
  assert (Hc : c <> 43) by (cbn in Hn; apply andb_true_iff in Hn as [Hc _]; unfold is_numeric_char, is_ascii_digit in Hc; lia).
  destruct (Z.eqb_spec c 43); [congruence|]. reflexivity.
Qed.

Lemma value_refine k t : (knumeric k = true -> is_numeric_part t = true) -> parse_value t (kty k) = value_tok k t.
Proof.
  intros Hk. unfold parse_value, value_tok.
  destruct (is_numeric_part t) eqn:En.
  - (* numeric characters only: a number or nothing *)
    assert (Ename : name_value k t = None \/ is_number t = true).
    { destruct (is_number t) eqn:E; [right; reflexivity|left].
      destruct k; cbn [name_value]; try reflexivity.
      - destruct (index_of MONTH_NAMES (lowercase t) 0) eqn:Ei; [|reflexivity].
        rewrite (name_not_numeric MONTH_NAMES t 0 z) in En; [discriminate | intros x Hx; apply in_or_app; left; exact Hx | exact Ei].
      - destruct (index_of DOW_NAMES (lowercase t) 0) eqn:Ei; [|reflexivity].
        rewrite (name_not_numeric DOW_NAMES t 0 z) in En; [discriminate | intros x Hx; apply in_or_app; right; exact Hx | exact Ei]. }
    rewrite parse_unsigned_digits by exact En.
    destruct k; cbn [kty negb]; destruct (is_number t) eqn:E; try reflexivity;
    destruct Ename as [-> | ?]; try reflexivity; try congruence.
  - (* contains another character: only a name can match *)
    assert (Hnum : is_number t = false).
    { unfold is_number. destruct t; [reflexivity|]. destruct (all_digits (z :: t)) eqn:E; [|reflexivity].
      rewrite (all_digits_numeric _ E) in En. discriminate. }
    rewrite Hnum. destruct k; cbn [kty knumeric negb name_value] in *; try (specialize (Hk eq_refl); congruence).
    + rewrite lowercase_idem. reflexivity.
    + rewrite lowercase_idem. reflexivity.
Qed.

Lemma parse_unsigned_noplus s : starts_with [43] s = false ->
  parse_unsigned 255 s = if is_number s then (if digits_val s <=? 255 then Some (digits_val s) else None) else None.
Proof.
  unfold starts_with, parse_unsigned, is_number. destruct s as [|c s]; [reflexivity|].
  cbn [length firstn text_eqb]. destruct (Z.eqb_spec 43 c) as [<-|Hc]; [cbn; discriminate|]. intros _.
  destruct (Z.eqb_spec c 43); [congruence|]. reflexivity.
Qed.
Lemma starts_plus_not_number s : starts_with [43] s = true -> is_number s = false.
Proof.
  unfold starts_with, is_number. destruct s as [|c s]; [reflexivity|]. cbn [length firstn text_eqb all_digits forallb].
  destruct (Z.eqb_spec 43 c) as [<-|]; [reflexivity | discriminate].
Qed.

Lemma kmin_kmax k : kmin k <= kmax k /\ kmax k <= kupper k /\ 0 <= kmin k /\ kupper k <= 255.
Proof. destruct k; cbn; lia. Qed.

Lemma mem_step v lo hi st : lo <= v <= hi -> mem v (step_values lo hi st) = ((v - lo) mod st =? 0).
Proof. intros H. unfold step_values. rewrite mem_filter, mem_range_incl. replace ((lo <=? v) && (v <=? hi)) with true by lia. reflexivity. Qed.

Lemma mem_norm_range k v a b : kmin k <= v <= kmax k -> kmin k <= a -> b <= kupper k ->
  mem v (map (fun w => if (match kty k with CDayOfWeek => true | _ => false end) && (w =? 7) then 0 else w) (range_incl a b))
  = item_matches k (IRange a b) v.
Proof.
  intros Hv Ha Hb. rewrite mem_map_norm. unfold range_incl. cbn [item_matches].
  apply eq_true_iff_eq. rewrite existsb_range_from.
  destruct k; cbn [kty kmin kmax kupper andb] in *.
  1-4: (split; [intros (w & Hw & E); apply Z.eqb_eq in E; subst w; lia | intros H; exists v; split; [lia | apply Z.eqb_refl]]).
  split.
  - intros (w & Hw & E). destruct (Z.eqb_spec w 7); apply Z.eqb_eq in E; lia.
  - intros H. destruct (Z.leb_spec a v); destruct (Z.leb_spec v b); cbn [andb orb] in H.
    + exists v. split; [lia|]. destruct (Z.eqb_spec v 7); [lia | apply Z.eqb_refl].
    + exists 7. split; [lia|]. cbn. lia.
    + exists 7. split; [lia|]. cbn. lia.
    + exists 7. split; [lia|]. cbn. lia.
Qed.

Lemma digits_val_aux_nonneg s : forall acc, 0 <= acc -> all_digits s = true -> 0 <= digits_val_aux s acc.
Proof.
  induction s as [|c s IH]; intros a Ha Hd; [exact Ha|]. cbn in *. apply andb_true_iff in Hd as [Hc Hd].
  apply IH; [unfold is_ascii_digit in Hc; lia | exact Hd].
Qed.
Lemma digits_val_nonneg s : is_number s = true -> 0 <= digits_val s.
Proof. unfold is_number, digits_val. destruct s; [discriminate|]. intros H. apply digits_val_aux_nonneg; [lia | exact H]. Qed.

Theorem item_refine k p : (knumeric k = true -> is_numeric_part p = true) ->
  match parse_item_spec k p with
  | Some it => exists vs, parse_item p (kmin k) (kmax k) (kty k) = Some vs /\
                          forall v, kmin k <= v <= kmax k -> mem v vs = item_matches k it v
  | None => parse_item p (kmin k) (kmax k) (kty k) = None
  end.
Proof.
  intros Hk. pose proof (kmin_kmax k) as (K1 & K2 & K3 & K4). unfold parse_item_spec, parse_item.
  destruct (text_eqb p [42]) eqn:Estar.
  { eexists. split; [reflexivity|]. intros v Hv. rewrite mem_range_incl. cbn. lia. }
  destruct (strip_prefix [42; 47] p) as [st|] eqn:Estep.
  { destruct (starts_with [43] st) eqn:Eplus.
    - rewrite (starts_plus_not_number st Eplus). reflexivity.
    - rewrite parse_unsigned_noplus by exact Eplus. destruct (is_number st) eqn:Enum; [|reflexivity]. cbn [andb].
      pose proof (digits_val_nonneg st Enum) as Hnn.
      destruct (Z.leb_spec (digits_val st) 255); [|rewrite andb_false_r; reflexivity].
      destruct (Z.leb_spec 1 (digits_val st)); cbn [andb].
      + replace (digits_val st =? 0) with false by lia. eexists. split; [reflexivity|].
        intros v Hv. rewrite mem_step by exact Hv. reflexivity.
      + replace (digits_val st =? 0) with true by lia. reflexivity. }
  (* a value or a range *)
  destruct (contains 45 p) eqn:Edash.
  - destruct (split_on_some 45 p Edash) as (a & b & rest & Es). rewrite Es.
    assert (Hparts : knumeric k = true -> is_numeric_part a = true /\ is_numeric_part b = true).
    { intros Hn. specialize (Hk Hn). rewrite (numeric_split 45 p eq_refl), Es in Hk. cbn [forallb] in Hk.
      apply andb_true_iff in Hk as [Ha Hk]. apply andb_true_iff in Hk as [Hb _]. split; assumption. }
    rewrite (value_refine k a) by (intros Hn; apply Hparts; exact Hn).
    rewrite (value_refine k b) by (intros Hn; apply Hparts; exact Hn).
    destruct a as [|a0 a']; [destruct rest; [destruct k; reflexivity | reflexivity]|].
    destruct (value_tok k (a0 :: a')) as [va|] eqn:Eva; [|destruct rest; reflexivity].
    destruct b as [|b0 b']; [destruct rest; [|reflexivity]; cbn [value_tok is_number name_value]; destruct k; reflexivity|].
    destruct (value_tok k (b0 :: b')) as [vb|] eqn:Evb; [|destruct rest; reflexivity].
    destruct rest as [|r rest]; [|reflexivity].
    destruct (Z.ltb_spec vb va); [replace (va <=? vb) with false by lia; reflexivity|].
    replace (va <=? vb) with true by lia. cbn [andb].
    destruct (Z.ltb_spec va (kmin k)); cbn [orb]; [replace (kmin k <=? va) with false by lia; reflexivity|].
    replace (kmin k <=? va) with true by lia. cbn [andb].
    assert (Eu : (if match kty k with CDayOfWeek => true | _ => false end then 7 else kmax k) = kupper k) by (destruct k; reflexivity).
    rewrite Eu. destruct (Z.ltb_spec (kupper k) vb); [replace (vb <=? kupper k) with false by lia; reflexivity|].
    replace (vb <=? kupper k) with true by lia.
    eexists. split; [reflexivity|]. intros v Hv. apply mem_norm_range; lia.
  - rewrite (split_on_none 45 p Edash). rewrite (value_refine k p Hk).
    destruct (value_tok k p) as [v0|]; [|reflexivity].
    assert (Eu : (if match kty k with CDayOfWeek => true | _ => false end then 7 else kmax k) = kupper k) by (destruct k; reflexivity).
    rewrite Eu. destruct (Z.ltb_spec v0 (kmin k)); cbn [orb]; [replace (kmin k <=? v0) with false by lia; reflexivity|].
    replace (kmin k <=? v0) with true by lia. cbn [andb].
    destruct (Z.ltb_spec (kupper k) v0); [replace (v0 <=? kupper k) with false by lia; reflexivity|].
    replace (v0 <=? kupper k) with true by lia.
    eexists. split; [reflexivity|]. intros v Hv. cbn [mem existsb item_matches]. rewrite orb_false_r.
    destruct k; reflexivity.
Qed.

Lemma strip_prefix_app pre p st : strip_prefix pre p = Some st -> p = pre ++ st.
Proof.
  unfold strip_prefix, starts_with. destruct (text_eqb pre (firstn (length pre) p)) eqn:E; [|discriminate].
  intros H. injection H as <-. apply text_eqb_eq in E. rewrite E at 1. symmetry. apply firstn_skipn.
Qed.
Lemma numeric_app a b : is_numeric_part (a ++ b) = is_numeric_part a && is_numeric_part b.
Proof. unfold is_numeric_part. apply forallb_app. Qed.

Lemma value_tok_numeric k t v : knumeric k = true -> value_tok k t = Some v -> is_numeric_part t = true.
Proof.
  intros Hk. unfold value_tok. destruct (is_number t) eqn:E.
  - intros _. unfold is_number in E. destruct t; [discriminate|]. apply all_digits_numeric; exact E.
  - destruct k; cbn in *; discriminate.
Qed.

Lemma spec_item_numeric k p it : knumeric k = true -> parse_item_spec k p = Some it -> is_numeric_part p = true.
Proof.
  intros Hk. unfold parse_item_spec. destruct (text_eqb p [42]) eqn:Estar.
  { apply text_eqb_eq in Estar. subst p. reflexivity. }
  destruct (strip_prefix [42; 47] p) as [st|] eqn:Estep.
  { destruct (is_number st) eqn:En; [|discriminate]. intros _. rewrite (strip_prefix_app _ _ _ Estep), numeric_app.
    unfold is_number in En. destruct st; [discriminate|]. rewrite (all_digits_numeric _ En). reflexivity. }
  rewrite (numeric_split 45 p eq_refl).
  destruct (split_on 45 p) as [|a [|b [|c rest]]]; try discriminate.
  - destruct (value_tok k a) as [v|] eqn:Ev; [|discriminate]. intros _. cbn [forallb].
    rewrite (value_tok_numeric k a v Hk Ev). reflexivity.
  - destruct (value_tok k a) as [va|] eqn:Eva; [|discriminate]. destruct (value_tok k b) as [vb|] eqn:Evb; [|discriminate].
    intros _. cbn [forallb]. rewrite (value_tok_numeric k a va Hk Eva), (value_tok_numeric k b vb Hk Evb). reflexivity.
Qed.

Lemma items_refine k ps : (knumeric k = true -> forallb is_numeric_part ps = true) ->
  match parse_items_spec k ps with
  | Some its => exists vs, parse_items ps (kmin k) (kmax k) (kty k) = Some vs /\
                           forall v, kmin k <= v <= kmax k -> mem v vs = field_matches k its v
  | None => parse_items ps (kmin k) (kmax k) (kty k) = None
  end.
Proof.
  induction ps as [|p ps IH]; intros Hn.
  - cbn. eexists. split; [reflexivity|]. intros v _. reflexivity.
  - cbn [parse_items_spec parse_items].
    assert (Hp : knumeric k = true -> is_numeric_part p = true)
      by (intros H; specialize (Hn H); cbn in Hn; apply andb_true_iff in Hn as [A _]; exact A).
    assert (Hps : knumeric k = true -> forallb is_numeric_part ps = true)
      by (intros H; specialize (Hn H); cbn in Hn; apply andb_true_iff in Hn as [_ A]; exact A).
    pose proof (item_refine k p Hp) as Ri. specialize (IH Hps).
    destruct (parse_item_spec k p) as [it|].
    + destruct Ri as (vs & -> & Hv). destruct (parse_items_spec k ps) as [its|].
      * destruct IH as (ws & -> & Hw). eexists. split; [reflexivity|]. intros v Hr.
        rewrite mem_app, (Hv v Hr), (Hw v Hr). reflexivity.
      * rewrite IH. reflexivity.
    + rewrite Ri. reflexivity.
Qed.

Lemma spec_items_numeric k ps its : knumeric k = true -> parse_items_spec k ps = Some its -> forallb is_numeric_part ps = true.
Proof.
  intros Hk. revert its. induction ps as [|p ps IH]; intros its; [reflexivity|]. cbn [parse_items_spec forallb].
  destruct (parse_item_spec k p) as [it|] eqn:Ei; [|discriminate].
  destruct (parse_items_spec k ps) as [is'|] eqn:Es; [|discriminate]. intros _.
  rewrite (spec_item_numeric k p it Hk Ei), (IH is' eq_refl). reflexivity.
Qed.

Theorem field_refine k f :
  match parse_field_spec k f with
  | Some its => exists vs, parse_cron_part f (kmin k) (kmax k) (kty k) = Some vs /\
                           forall v, kmin k <= v <= kmax k -> mem v vs = field_matches k its v
  | None => parse_cron_part f (kmin k) (kmax k) (kty k) = None
  end.
Proof.
  unfold parse_field_spec, parse_cron_part.
  assert (Ek : (match kty k with CNumeric => true | _ => false end) = knumeric k) by (destruct k; reflexivity). rewrite Ek.
  destruct (knumeric k) eqn:Hk; cbn [andb].
  - destruct (is_numeric_part f) eqn:Ef; cbn [negb].
    + apply items_refine. intros _. rewrite <- (numeric_split 44 f eq_refl). exact Ef.
    + destruct (parse_items_spec k (split_on 44 f)) as [its|] eqn:Es; [|reflexivity].
      pose proof (spec_items_numeric k _ its Hk Es) as Hn. rewrite <- (numeric_split 44 f eq_refl) in Hn. congruence.
  - apply items_refine. intros H. congruence.
Qed.

Theorem cron_refine s :
  match cron_spec s with
  | Some (a, b, c, d, e) =>
      exists sc, parse_expression s = Some sc /\
        (forall v, 0 <= v <= 59 -> mem v (s_min sc) = field_matches KMinute a v) /\
        (forall v, 0 <= v <= 23 -> mem v (s_hour sc) = field_matches KHour b v) /\
        (forall v, 1 <= v <= 31 -> mem v (s_dom sc) = field_matches KDom c v) /\
        (forall v, 1 <= v <= 12 -> mem v (s_mon sc) = field_matches KMonth d v) /\
        (forall v, 0 <= v <= 6 -> mem v (s_dow sc) = field_matches KDow e v)
  | None => parse_expression s = None
  end.
Proof.
  unfold cron_spec, parse_expression.
  destruct (split_whitespace s) as [|f0 [|f1 [|f2 [|f3 [|f4 [|f5 fs]]]]]]; try reflexivity.
  pose proof (field_refine KMinute f0) as R0. pose proof (field_refine KHour f1) as R1.
  pose proof (field_refine KDom f2) as R2. pose proof (field_refine KMonth f3) as R3.
  pose proof (field_refine KDow f4) as R4. cbn [kmin kmax kty] in *.
  destruct (parse_field_spec KMinute f0) as [a|]; [destruct R0 as (v0 & -> & H0) | rewrite R0; reflexivity].
  destruct (parse_field_spec KHour f1) as [b|]; [destruct R1 as (v1 & -> & H1) | rewrite R1; reflexivity].
  destruct (parse_field_spec KDom f2) as [c|]; [destruct R2 as (v2 & -> & H2) | rewrite R2; reflexivity].
  destruct (parse_field_spec KMonth f3) as [d|]; [destruct R3 as (v3 & -> & H3) | rewrite R3; reflexivity].
  destruct (parse_field_spec KDow f4) as [e|]; [destruct R4 as (v4 & -> & H4) | rewrite R4; reflexivity].
  eexists. split; [reflexivity|]. cbn [s_min s_hour s_dom s_mon s_dow]. repeat split; assumption.
Qed.
