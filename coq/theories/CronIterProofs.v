(* CronIterProofs.v — C17: what CronSchedule::next returns, when it returns, is the least matching minute
   after both the clock and the previously returned time. *)
From Astro Require Import Base Text CalSpec DateModel TimeModel ApiModel InstantSpec DateProofs WeekProofs MonthProofs
  TimeProofs ClockProofs OffsetProofs CronModel.

Definition NPM := NANOS_PER_MINUTE.
(* a whole minute in UTC: day number d, minute of the day mi *)
Definition mkmin (d mi : Z) : DT := mkDT d (mi * NPM) 0.
Definition idx (d mi : Z) : Z := d * 1440 + mi.

Lemma mkmin_facts d mi : in_i32 d -> 0 <= mi < 1440 ->
  0 <= mi * NPM < D /\ inst_in_range (d * D + mi * NPM).
Proof.
  unfold in_i32, inst_in_range, MIN_I, MAX_I, NPM, D, NANOS_PER_MINUTE, NANOS_PER_DAY, I32_MIN, I32_MAX. lia.
Qed.

(* ---------- offset 0: local reading = stored value ---------- *)
Lemma dt_local_utc d n : in_i32 d -> 0 <= n < D -> dt_local (mkDT d n 0) = Ok (d, n).
Proof.
  intros Hd Hn. assert (R : inst_in_range (local_instant (mkDT d n 0))).
  { unfold local_instant, instant. cbn [dt_days dt_nanos dt_off]. revert Hd Hn.
    unfold in_i32, inst_in_range, MIN_I, MAX_I, D, NANOS_PER_DAY, NANOS_PER_SEC, I32_MIN, I32_MAX. lia. }
  rewrite dt_local_ok by exact R. unfold local_instant, instant. cbn [dt_days dt_nanos dt_off]. fold D.
  f_equal. f_equal; revert Hn; unfold D, NANOS_PER_DAY, NANOS_PER_SEC; intros Hn; lia.
Qed.
Lemma remove_offset_utc d n : in_i32 d -> 0 <= n < D -> remove_offset_from_dn d n 0 = Ok (d, n).
Proof.
  intros Hd Hn. assert (R : inst_in_range (d * D + n - 0 * NANOS_PER_SEC)).
  { revert Hd Hn. unfold in_i32, inst_in_range, MIN_I, MAX_I, D, NANOS_PER_DAY, NANOS_PER_SEC, I32_MIN, I32_MAX. lia. }
  rewrite remove_offset_from_dn_ok by exact R.
  f_equal. f_equal; revert Hn; unfold D, NANOS_PER_DAY, NANOS_PER_SEC; intros Hn; lia.
Qed.

(* ---------- the getters on a whole minute ---------- *)
Section Getters.
Variables d mi : Z.
Hypothesis Hd : in_i32 d.
Hypothesis Hmi : 0 <= mi < 1440.

Lemma get_local : dt_local (mkmin d mi) = Ok (d, mi * NPM).
Proof. apply dt_local_utc; [exact Hd | apply (mkmin_facts d mi Hd Hmi)]. Qed.
Lemma get_month : dt_month (mkmin d mi) = Ok (snd (fst (days_to_date d))).
Proof. unfold dt_month. rewrite get_local. reflexivity. Qed.
Lemma get_day : dt_day (mkmin d mi) = Ok (snd (days_to_date d)).
Proof. unfold dt_day. rewrite get_local. reflexivity. Qed.
Lemma get_weekday : dt_weekday (mkmin d mi) = Ok (days_to_wday d false).
Proof. unfold dt_weekday. rewrite get_local. reflexivity. Qed.
Lemma get_hour : dt_hour (mkmin d mi) = Ok (mi / 60).
Proof.
  unfold dt_hour. rewrite get_local. cbn [bind]. rewrite nanos_to_time_spec by apply (mkmin_facts d mi Hd Hmi).
  cbn [fst]. f_equal. unfold NPM, NANOS_PER_MINUTE, NANOS_PER_HOUR. lia.
Qed.
Lemma get_minute : dt_minute (mkmin d mi) = Ok (mi mod 60).
Proof.
  unfold dt_minute. rewrite get_local. cbn [bind]. rewrite nanos_to_time_spec by apply (mkmin_facts d mi Hd Hmi).
  cbn [fst snd]. f_equal. unfold NPM, NANOS_PER_MINUTE. lia.
Qed.
End Getters.

(* ---------- the four jumps ---------- *)
Lemma clear_until_hour_utc d n : in_i32 d -> 0 <= n < D -> dt_clear_until_hour (mkDT d n 0) = Ok (mkDT d 0 0).
Proof.
  intros Hd Hn. unfold dt_clear_until_hour. rewrite dt_local_utc by assumption. cbn [bind dt_off].
  rewrite remove_offset_utc; [reflexivity | exact Hd | unfold D, NANOS_PER_DAY; lia].
Qed.
Lemma clear_until_minute_utc d n : in_i32 d -> 0 <= n < D ->
  dt_clear_until_minute (mkDT d n 0) = Ok (mkDT d (n / NANOS_PER_HOUR * NANOS_PER_HOUR) 0).
Proof.
  intros Hd Hn. unfold dt_clear_until_minute, dt_clear_with. rewrite dt_local_utc by assumption. cbn [bind dt_off].
  pose proof (clear_clock_spec n Hn) as C. unfold clock_fields in C. destruct C as (C1 & _). rewrite C1. cbn [bind].
  assert (E : of_fields (n / NANOS_PER_HOUR) 0 0 0 = n / NANOS_PER_HOUR * NANOS_PER_HOUR)
    by (unfold of_fields, NANOS_PER_HOUR, NANOS_PER_SEC; lia).
  rewrite E. rewrite remove_offset_utc; [reflexivity | exact Hd |].
  revert Hn. unfold D, NANOS_PER_DAY, NANOS_PER_HOUR. intros Hn. lia.
Qed.
Lemma clear_until_second_utc d n : in_i32 d -> 0 <= n < D ->
  dt_clear_until_second (mkDT d n 0) = Ok (mkDT d (n / NPM * NPM) 0).
Proof.
  intros Hd Hn. unfold dt_clear_until_second, dt_clear_with. rewrite dt_local_utc by assumption. cbn [bind dt_off].
  pose proof (clear_clock_spec n Hn) as C. unfold clock_fields in C. destruct C as (_ & C2 & _). rewrite C2. cbn [bind].
  assert (E : of_fields (n / NANOS_PER_HOUR) ((n / NANOS_PER_MINUTE) mod 60) 0 0 = n / NPM * NPM).
  { revert Hn. unfold of_fields, NPM, D, NANOS_PER_DAY, NANOS_PER_HOUR, NANOS_PER_MINUTE, NANOS_PER_SEC. intros Hn. lia. }
  rewrite E. rewrite remove_offset_utc; [reflexivity | exact Hd |].
  revert Hn. unfold D, NPM, NANOS_PER_DAY, NANOS_PER_MINUTE. intros Hn. lia.
Qed.

(* +1 minute and +1 hour on a whole minute, when the result is representable *)
Lemma add_minute_utc d mi r : in_i32 d -> 0 <= mi < 1440 -> dt_add UMinute (mkmin d mi) 1 = Ok r ->
  r = (if mi + 1 <? 1440 then mkmin d (mi + 1) else mkmin (d + 1) 0) /\ in_i32 (dt_days r).
Proof.
  intros Hd Hmi. unfold dt_add, add_units, unit_nanos, mkmin. cbn [dt_days dt_nanos].
  set (t := d * NANOS_PER_DAY + (mi * NPM + 1 * NANOS_PER_MINUTE)).
  destruct (inst_in_rangeb t) eqn:R.
  - assert (Rt : inst_in_range t) by (unfold inst_in_rangeb in R; unfold inst_in_range; lia).
    rewrite dt_of_total_ok by exact Rt. intros E. injection E as <-. cbn [dt_days dt_off].
    destruct (split_instant t Rt) as (_ & Hi & _).
    split; [|exact Hi]. subst t. unfold NPM. revert Hmi. unfold NANOS_PER_MINUTE, NANOS_PER_DAY. intros Hmi.
    destruct (Z.ltb_spec (mi + 1) 1440); unfold mkmin, NPM, NANOS_PER_MINUTE; f_equal; lia.
  - assert (Rt : ~ inst_in_range t) by (unfold inst_in_rangeb in R; unfold inst_in_range; lia).
    rewrite dt_of_total_panic by exact Rt. discriminate.
Qed.
Lemma add_hour_clear_utc d mi r : in_i32 d -> 0 <= mi < 1440 ->
  (let? a := dt_add UHour (mkmin d mi) 1 in dt_clear_until_minute a) = Ok r ->
  r = (if mi / 60 + 1 <? 24 then mkmin d ((mi / 60 + 1) * 60) else mkmin (d + 1) 0) /\ in_i32 (dt_days r).
Proof.
  intros Hd Hmi. unfold dt_add, add_units, unit_nanos, mkmin. cbn [dt_days dt_nanos].
  set (t := d * NANOS_PER_DAY + (mi * NPM + 1 * NANOS_PER_HOUR)).
  destruct (inst_in_rangeb t) eqn:R.
  - assert (Rt : inst_in_range t) by (unfold inst_in_rangeb in R; unfold inst_in_range; lia).
    rewrite dt_of_total_ok by exact Rt. cbn [bind dt_off]. destruct (split_instant t Rt) as (_ & Hi & Hn).
    rewrite clear_until_minute_utc by assumption. intros E. injection E as <-. cbn [dt_days].
    split; [|exact Hi]. subst t. unfold NPM. revert Hmi. unfold NANOS_PER_MINUTE, NANOS_PER_DAY, NANOS_PER_HOUR. intros Hmi.
    destruct (Z.ltb_spec (mi / 60 + 1) 24); unfold mkmin, NPM, NANOS_PER_MINUTE; f_equal; lia.
  - assert (Rt : ~ inst_in_range t) by (unfold inst_in_rangeb in R; unfold inst_in_range; lia).
    rewrite dt_of_total_panic by exact Rt. discriminate.
Qed.
Lemma add_minute_clear_utc d mi r : in_i32 d -> 0 <= mi < 1440 ->
  (let? a := dt_add UMinute (mkmin d mi) 1 in dt_clear_until_second a) = Ok r ->
  r = (if mi + 1 <? 1440 then mkmin d (mi + 1) else mkmin (d + 1) 0) /\ in_i32 (dt_days r).
Proof.
  intros Hd Hmi. destruct (dt_add UMinute (mkmin d mi) 1) as [a| |] eqn:Ea; cbn [bind]; try discriminate.
  destruct (add_minute_utc d mi a Hd Hmi Ea) as [-> Hi]. intros E.
  destruct (Z.ltb_spec (mi + 1) 1440).
  - unfold mkmin in E. rewrite clear_until_second_utc in E.
    + injection E as <-. split; [|exact Hd]. unfold mkmin. f_equal. unfold NPM, NANOS_PER_MINUTE. lia.
    + exact Hd.
    + apply (mkmin_facts d (mi + 1) Hd). lia.
  - unfold mkmin in E. cbn [dt_days] in Hi. rewrite clear_until_second_utc in E.
    + injection E as <-. split; [|exact Hi]. unfold mkmin. f_equal.
    + exact Hi.
    + unfold D, NANOS_PER_DAY, NPM, NANOS_PER_MINUTE. lia.
Qed.
Lemma add_day_clear_utc d mi r : in_i32 d -> 0 <= mi < 1440 ->
  (let? a := dt_add_days (mkmin d mi) 1 in dt_clear_until_hour a) = Ok r -> r = mkmin (d + 1) 0 /\ in_i32 (d + 1).
Proof.
  intros Hd Hmi. unfold dt_add_days, dt_keep, add_days, mkmin. cbn [dt_days dt_nanos dt_off].
  destruct (in_i32b (d + 1)) eqn:E; cbn [unwrap bind]; [|discriminate]. apply in_i32b_iff in E.
  rewrite clear_until_hour_utc; [|exact E | apply (mkmin_facts d mi Hd Hmi)].
  intros H. injection H as <-. split; [reflexivity | exact E].
Qed.

Lemma classic_in_range t : in_range t \/ ~ in_range t.
Proof. unfold in_range. destruct (date_leb MIN_DATE t), (date_leb t MAX_DATE); intuition congruence. Qed.

(* first day of the following month *)
Lemma unastro_astro y : y <> 0 -> unastro (astro y) = y.
Proof. unfold astro, unastro. intros. break_ifs. Qed.

Lemma rd_next_month y m : y <> 0 -> 1 <= m <= 12 ->
  let '(y', m') := of_month_index (month_index y m + 1) in
  rd (y', m', 1) = rd (y, m, 1) + mlen y m /\ valid (y', m', 1).
Proof.
  intros Hy Hm. unfold of_month_index, month_index.
  destruct (Z.ltb_spec m 12).
  - replace ((12 * astro y + (m - 1) + 1) / 12) with (astro y) by lia.
    replace ((12 * astro y + (m - 1) + 1) mod 12 + 1) with (m + 1) by lia.
    rewrite unastro_astro by exact Hy. split.
    + unfold rd, mlen. month_split m Hm; try lia;
      repeat match goal with |- context [Z.pos ?p + 1] =>
         let v := eval vm_compute in (Z.pos p + 1) in change (Z.pos p + 1) with v end;
      cbv beta iota delta [cum Z.eqb Pos.eqb orb]; destruct (leap y); cbn [Z.b2z]; lia.
    + unfold valid. pose proof (mlen_bounds y (m + 1)). lia.
  - assert (m = 12) by lia. subst m.
    replace ((12 * astro y + (12 - 1) + 1) / 12) with (astro y + 1) by lia.
    replace ((12 * astro y + (12 - 1) + 1) mod 12 + 1) with 1 by lia. split.
    + unfold rd. rewrite leap_unastro, astro_unastro, ystart_succ. unfold mlen, leap.
      cbv beta iota delta [cum Z.eqb Pos.eqb orb]. destruct (leap_a (astro y)); cbn [Z.b2z]; lia.
    + unfold valid. pose proof (mlen_bounds (unastro (astro y + 1)) 1). pose proof (unastro_nz (astro y + 1)). lia.
Qed.

Lemma month_jump d mi r : in_i32 d -> 0 <= mi < 1440 ->
  (let? a := dt_add_months (mkmin d mi) 1 in dt_clear_until_day a) = Ok r ->
  let '(y, m, dd) := days_to_date d in
  r = mkmin (rd (y, m, 1) + mlen y m) 0 /\ in_i32 (rd (y, m, 1) + mlen y m).
Proof.
  intros Hd Hmi. destruct (days_to_date_rd d) as [V Erd]. pose proof (shift_months_spec d 1) as S. cbv zeta in S.
  unfold dt_add_months, dt_keep. rewrite add_months_model. cbn [dt_days dt_nanos dt_off mkmin].
  destruct (days_to_date d) as [[y m] dd] eqn:Ed. destruct V as (Hy & Hm & Hdd).
  pose proof (rd_next_month y m Hy Hm) as N.
  set (t := add_months_spec (y, m, dd) 1) in *.
  assert (Vt : valid t) by (apply add_months_valid; unfold valid; tauto).
  destruct (classic_in_range t) as [Rt | Rt].
  2:{ destruct (proj2 S Rt) as [e ->]. cbn [unwrap bind]. discriminate. }
  rewrite (proj1 S Rt). cbn [unwrap bind].
  assert (Hd1 : in_i32 (rd t)) by (apply in_range_rd; assumption).
  unfold dt_clear_until_day. rewrite dt_local_utc; [| exact Hd1 | apply (mkmin_facts d mi Hd Hmi)]. cbn [bind dt_off].
  assert (Et : days_to_date (rd t) = t) by (destruct (days_to_date_rd (rd t)) as [V' E']; apply rd_inj; assumption).
  rewrite Et. unfold t, add_months_spec in *. destruct (of_month_index (month_index y m + 1)) as [y' m'] eqn:Eo.
  destruct N as [N Vn].
  destruct (classic_in_range (y', m', 1)) as [R1 | R1].
  2:{ destruct (date_to_days_err y' m' 1) as (n & a & b & v & ->); [unfold valid in Vn; lia | lia | tauto |]. cbn [unwrap bind]. discriminate. }
  rewrite date_to_days_ok by assumption. cbn [unwrap bind].
  assert (Hi : in_i32 (rd (y', m', 1))) by (apply in_range_rd; assumption).
  rewrite remove_offset_utc; [| exact Hi | unfold D, NANOS_PER_DAY; lia]. cbn [bind].
  intros E. injection E as <-. split; [|rewrite <- N; exact Hi].
  unfold mkmin. f_equal. rewrite <- N. unfold rd. lia.
Qed.

(* ---------- what "matches" means for the model's value sets ---------- *)
Definition m_month (s : sched) (d : Z) : bool := mem (wrap_u8 (snd (fst (days_to_date d)))) (s_mon s).
Definition m_daybad (s : sched) (domr dowr : bool) (d : Z) : bool :=
  let dom_in := mem (wrap_u8 (snd (days_to_date d))) (s_dom s) in
  let dow_in := mem (days_to_wday d false) (s_dow s) in
  (domr && dowr && negb dom_in && negb dow_in) || (domr && negb dowr && negb dom_in) || (dowr && negb domr && negb dow_in).
Definition m_hour (s : sched) (mi : Z) : bool := mem (wrap_u8 (mi / 60)) (s_hour s).
Definition m_minute (s : sched) (mi : Z) : bool := mem (wrap_u8 (mi mod 60)) (s_min s).
Definition m_matches (s : sched) (domr dowr : bool) (d mi : Z) : bool :=
  m_month s d && negb (m_daybad s domr dowr d) && m_hour s mi && m_minute s mi.

Lemma same_month d e : let '(y, m, dd) := days_to_date d in
  rd (y, m, 1) <= e < rd (y, m, 1) + mlen y m -> days_to_date e = (y, m, e - rd (y, m, 1) + 1).
Proof.
  destruct (days_to_date_rd d) as [V _]. destruct (days_to_date d) as [[y m] dd]. destruct V as (Hy & Hm & Hd).
  intros H. destruct (days_to_date_rd e) as [Ve Ee]. apply rd_inj; [exact Ve | unfold valid; lia |].
  rewrite Ee. unfold rd. lia.
Qed.

Definition no_match_between (s : sched) (domr dowr : bool) (lo hi : Z) : Prop :=
  forall e me, 0 <= me < 1440 -> lo <= idx e me < hi -> m_matches s domr dowr e me = false.

Theorem body_spec s domr dowr d mi : in_i32 d -> 0 <= mi < 1440 ->
  match cron_body s domr dowr (mkmin d mi) with
  | Ok (inl r) => r = mkmin d mi /\ m_matches s domr dowr d mi = true
  | Ok (inr r) => exists d' mi', r = mkmin d' mi' /\ in_i32 d' /\ 0 <= mi' < 1440 /\ idx d mi < idx d' mi' /\
                                 no_match_between s domr dowr (idx d mi) (idx d' mi')
  | _ => True
  end.
Proof.
  intros Hd Hmi. unfold cron_body.
  rewrite (get_month d mi Hd Hmi). cbn [bind].
  destruct (contains_v (s_mon s) (wrap_u8 (snd (fst (days_to_date d))))) eqn:Emon; cbn [negb].
  2:{ (* month not scheduled *)
    destruct (let? a := dt_add_months (mkmin d mi) 1 in dt_clear_until_day a) as [r| |] eqn:Ej.
    - pose proof (month_jump d mi r Hd Hmi Ej) as J. pose proof (same_month d) as SM.
      destruct (days_to_date_rd d) as [V Erd]. destruct (days_to_date d) as [[y m] dd] eqn:Ed.
      destruct J as [-> Hi]. destruct V as (Hy & Hm & Hdd).
      destruct (dt_add_months (mkmin d mi) 1) as [a| |]; cbn [bind] in Ej |- *; try discriminate. rewrite Ej.
      exists (rd (y, m, 1) + mlen y m), 0. split; [reflexivity|]. split; [exact Hi|]. split; [lia|].
      assert (Edd : d = rd (y, m, 1) + dd - 1) by (rewrite <- Erd; unfold rd; lia).
      split; [unfold idx; lia|].
      intros e me Hme Hr. unfold idx in Hr. unfold m_matches, m_month.
      rewrite (SM e) by lia. cbn [fst snd]. cbn [fst snd] in Emon.
      unfold contains_v in Emon. rewrite Emon. reflexivity.
    - destruct (dt_add_months (mkmin d mi) 1) as [a| |]; cbn [bind] in Ej |- *; try exact I. rewrite Ej. exact I.
    - destruct (dt_add_months (mkmin d mi) 1) as [a| |]; cbn [bind] in Ej |- *; try exact I. rewrite Ej. exact I. }
  rewrite (get_day d mi Hd Hmi), (get_weekday d mi Hd Hmi). cbn [bind].
  cbv zeta. unfold contains_v.
  match goal with |- context [if ?c then (let? a := dt_add_days _ 1 in _) else _] => change c with (m_daybad s domr dowr d) end.
  destruct (m_daybad s domr dowr d) eqn:Eday.
  { (* day not scheduled *)
    destruct (let? a := dt_add_days (mkmin d mi) 1 in dt_clear_until_hour a) as [r| |] eqn:Ej.
    - destruct (add_day_clear_utc d mi r Hd Hmi Ej) as [-> Hi].
      destruct (dt_add_days (mkmin d mi) 1) as [a| |]; cbn [bind] in Ej |- *; try discriminate. rewrite Ej.
      exists (d + 1), 0. split; [reflexivity|]. split; [exact Hi|]. split; [lia|]. split; [unfold idx; lia|].
      intros e me Hme Hr. unfold idx in Hr. assert (e = d) by lia. subst e.
      unfold m_matches. rewrite Eday. cbn [negb]. rewrite andb_false_r. reflexivity.
    - destruct (dt_add_days (mkmin d mi) 1) as [a| |]; cbn [bind] in Ej |- *; try exact I. rewrite Ej. exact I.
    - destruct (dt_add_days (mkmin d mi) 1) as [a| |]; cbn [bind] in Ej |- *; try exact I. rewrite Ej. exact I. }
  rewrite (get_hour d mi Hd Hmi). cbn [bind].
  destruct (mem (wrap_u8 (mi / 60)) (s_hour s)) eqn:Ehour; cbn [negb].
  2:{ (* hour not scheduled *)
    destruct (let? a := dt_add UHour (mkmin d mi) 1 in dt_clear_until_minute a) as [r| |] eqn:Ej.
    - destruct (add_hour_clear_utc d mi r Hd Hmi Ej) as [-> Hi].
      destruct (dt_add UHour (mkmin d mi) 1) as [a| |]; cbn [bind] in Ej |- *; try discriminate. rewrite Ej.
      destruct (Z.ltb_spec (mi / 60 + 1) 24).
      + exists d, ((mi / 60 + 1) * 60). split; [reflexivity|]. split; [exact Hd|]. split; [lia|]. split; [unfold idx; lia|].
        intros e me Hme Hr. unfold idx in Hr. assert (e = d) by lia. subst e.
        unfold m_matches, m_hour. replace (me / 60) with (mi / 60) by lia.
        rewrite Ehour. rewrite andb_false_r. reflexivity.
      + exists (d + 1), 0. cbn [dt_days mkmin] in Hi. split; [reflexivity|]. split; [exact Hi|]. split; [lia|]. split; [unfold idx; lia|].
        intros e me Hme Hr. unfold idx in Hr. assert (e = d) by lia. subst e.
        unfold m_matches, m_hour. replace (me / 60) with (mi / 60) by lia.
        rewrite Ehour. rewrite andb_false_r. reflexivity.
    - destruct (dt_add UHour (mkmin d mi) 1) as [a| |]; cbn [bind] in Ej |- *; try exact I. rewrite Ej. exact I.
    - destruct (dt_add UHour (mkmin d mi) 1) as [a| |]; cbn [bind] in Ej |- *; try exact I. rewrite Ej. exact I. }
  rewrite (get_minute d mi Hd Hmi). cbn [bind].
  destruct (mem (wrap_u8 (mi mod 60)) (s_min s)) eqn:Emin; cbn [negb].
  2:{ (* minute not scheduled *)
    destruct (let? a := dt_add UMinute (mkmin d mi) 1 in dt_clear_until_second a) as [r| |] eqn:Ej.
    - destruct (add_minute_clear_utc d mi r Hd Hmi Ej) as [-> Hi].
      destruct (dt_add UMinute (mkmin d mi) 1) as [a| |]; cbn [bind] in Ej |- *; try discriminate. rewrite Ej.
      destruct (Z.ltb_spec (mi + 1) 1440).
      + exists d, (mi + 1). split; [reflexivity|]. split; [exact Hd|]. split; [lia|]. split; [unfold idx; lia|].
        intros e me Hme Hr. unfold idx in Hr. assert (e = d /\ me = mi) as [-> ->] by lia.
        unfold m_matches, m_minute. rewrite Emin. rewrite andb_false_r. reflexivity.
      + exists (d + 1), 0. cbn [dt_days mkmin] in Hi. split; [reflexivity|]. split; [exact Hi|]. split; [lia|]. split; [unfold idx; lia|].
        intros e me Hme Hr. unfold idx in Hr. assert (e = d /\ me = mi) as [-> ->] by lia.
        unfold m_matches, m_minute. rewrite Emin. rewrite andb_false_r. reflexivity.
    - destruct (dt_add UMinute (mkmin d mi) 1) as [a| |]; cbn [bind] in Ej |- *; try exact I. rewrite Ej. exact I.
    - destruct (dt_add UMinute (mkmin d mi) 1) as [a| |]; cbn [bind] in Ej |- *; try exact I. rewrite Ej. exact I. }
  split; [reflexivity|]. unfold m_matches, m_month, m_hour, m_minute. unfold contains_v in Emon.
  rewrite Emon, Eday, Ehour, Emin. reflexivity.
Qed.

Theorem loop_spec fuel : forall s domr dowr d mi r, in_i32 d -> 0 <= mi < 1440 ->
  cron_loop fuel s domr dowr (mkmin d mi) = Ok (Some r) ->
  exists d' mi', r = mkmin d' mi' /\ in_i32 d' /\ 0 <= mi' < 1440 /\ idx d mi <= idx d' mi' /\
                 m_matches s domr dowr d' mi' = true /\ no_match_between s domr dowr (idx d mi) (idx d' mi').
Proof.
  induction fuel as [|fuel IH]; intros s domr dowr d mi r Hd Hmi E; [discriminate|].
  cbn [cron_loop] in E. pose proof (body_spec s domr dowr d mi Hd Hmi) as B.
  destruct (cron_body s domr dowr (mkmin d mi)) as [[found | later] | |]; cbn [bind] in E; try discriminate.
  - injection E as <-. destruct B as [-> M]. exists d, mi.
    split; [reflexivity|]. split; [exact Hd|]. split; [exact Hmi|]. split; [lia|]. split; [exact M|].
    intros e me _ Hr. lia.
  - destruct B as (d1 & mi1 & -> & Hd1 & Hmi1 & Hlt & Hno).
    destruct (IH s domr dowr d1 mi1 r Hd1 Hmi1 E) as (d' & mi' & -> & Hd' & Hmi' & Hle & M & Hno').
    exists d', mi'. split; [reflexivity|]. split; [exact Hd'|]. split; [exact Hmi'|]. split; [lia|]. split; [exact M|].
    intros e me Hme Hr. destruct (Z.lt_ge_cases (idx e me) (idx d1 mi1)); [apply Hno; [exact Hme | lia] | apply Hno'; [exact Hme | lia]].
Qed.

Definition dom_restricted (s : sched) : bool := negb (card 1 31 (s_dom s) =? 31).
Definition dow_restricted (s : sched) : bool := negb (card 0 6 (s_dow s) =? 7).
Definition sched_matches (s : sched) (d mi : Z) : bool := m_matches s (dom_restricted s) (dow_restricted s) d mi.

(* the state carried between calls: None, or the whole minute returned last *)
Definition last_ok (last : option DT) : Prop :=
  match last with None => True | Some l => exists dl ml, l = mkmin dl ml /\ in_i32 dl /\ 0 <= ml < 1440 end.
Definition last_idx (last : option DT) : option Z :=
  match last with None => None | Some l => Some (idx (dt_days l) (dt_nanos l / NPM)) end.
(* the later of "the clock floored to the minute" and "the last returned time", as a minute index *)
Definition base_idx (last : option DT) (now : DT) : Z :=
  let n := idx (dt_days now) (dt_nanos now / NPM) in
  match last_idx last with Some l => Z.max n l | None => n end.

Theorem next_spec fuel s last now r :
  in_i32 (dt_days now) -> 0 <= dt_nanos now < D -> dt_off now = 0 -> last_ok last ->
  cron_next fuel s last now = Ok (Some r) ->
  exists d' mi', r = mkmin d' mi' /\ in_i32 d' /\ 0 <= mi' < 1440 /\ base_idx last now < idx d' mi' /\
                 sched_matches s d' mi' = true /\
                 forall e me, 0 <= me < 1440 -> base_idx last now < idx e me < idx d' mi' -> sched_matches s e me = false.
Proof.
  intros Hd Hn Ho HL. destruct now as [dn nn on]. cbn [dt_days dt_nanos dt_off] in *. subst on.
  unfold cron_next. rewrite clear_until_second_utc by assumption. cbn [bind].
  assert (Hm : 0 <= nn / NPM < 1440) by (revert Hn; unfold D, NPM, NANOS_PER_DAY, NANOS_PER_MINUTE; lia).
  change (mkDT dn (nn / NPM * NPM) 0) with (mkmin dn (nn / NPM)).
  fold (dom_restricted s) (dow_restricted s).
  (* which of the two is later *)
  assert (Hbase : exists db mb, in_i32 db /\ 0 <= mb < 1440 /\ idx db mb = base_idx last (mkDT dn nn 0) /\
     (match last with
      | Some l => if dt_as_nanos (mkmin dn (nn / NPM)) <=? dt_as_nanos l then l else mkmin dn (nn / NPM)
      | None => mkmin dn (nn / NPM) end) = mkmin db mb).
  { unfold base_idx, last_idx. cbn [dt_days dt_nanos]. destruct last as [l|].
    - destruct HL as (dl & ml & -> & Hdl & Hml). rewrite !dt_as_nanos_instant. unfold instant, mkmin. cbn [dt_days dt_nanos].
      assert (El : ml * NPM / NPM = ml) by (unfold NPM, NANOS_PER_MINUTE; lia). rewrite El.
      destruct (Z.leb_spec (dn * NANOS_PER_DAY + nn / NPM * NPM) (dl * NANOS_PER_DAY + ml * NPM)) as [Hc | Hc].
      + exists dl, ml. split; [exact Hdl|]. split; [exact Hml|]. split; [|reflexivity].
        revert Hc. unfold idx, NPM, NANOS_PER_DAY, NANOS_PER_MINUTE. lia.
      + exists dn, (nn / NPM). split; [exact Hd|]. split; [exact Hm|]. split; [|reflexivity].
        revert Hc. unfold idx, NPM, NANOS_PER_DAY, NANOS_PER_MINUTE. lia.
    - exists dn, (nn / NPM). split; [exact Hd|]. split; [exact Hm|]. split; reflexivity. }
  destruct Hbase as (db & mb & Hdb & Hmb & Eb & ->). rewrite <- Eb.
  destruct (dt_add UMinute (mkmin db mb) 1) as [nx| |] eqn:Ea; cbn [bind]; try discriminate.
  destruct (add_minute_utc db mb nx Hdb Hmb Ea) as [-> Hi]. intros E.
  destruct (Z.ltb_spec (mb + 1) 1440).
  - destruct (loop_spec fuel s _ _ db (mb + 1) r Hdb ltac:(lia) E) as (d' & mi' & -> & Hd' & Hmi' & Hle & M & Hno).
    exists d', mi'. split; [reflexivity|]. split; [exact Hd'|]. split; [exact Hmi'|]. split; [unfold idx in *; lia|]. split; [exact M|].
    intros e me Hme Hr. apply Hno; [exact Hme | unfold idx in *; lia].
  - cbn [dt_days mkmin] in Hi.
    destruct (loop_spec fuel s _ _ (db + 1) 0 r Hi ltac:(lia) E) as (d' & mi' & -> & Hd' & Hmi' & Hle & M & Hno).
    exists d', mi'. split; [reflexivity|]. split; [exact Hd'|]. split; [exact Hmi'|]. split; [unfold idx in *; lia|]. split; [exact M|].
    intros e me Hme Hr. apply Hno; [exact Hme | unfold idx in *; lia].
Qed.

(* ---------- histories of calls ---------- *)
Fixpoint run_hist (fuel : nat) (s : sched) (st : option DT) (clocks : list DT) : option (list DT) :=
  match clocks with
  | [] => Some []
  | now :: tl => match cron_next fuel s st now with
                 | Ok (Some r) => match run_hist fuel s (Some r) tl with Some rs => Some (r :: rs) | None => None end
                 | _ => None end
  end.
Definition clock_ok (now : DT) : Prop := in_i32 (dt_days now) /\ 0 <= dt_nanos now < D /\ dt_off now = 0.
(* r is the least matching whole minute strictly after both the clock's minute and the previous result *)
Definition least_after (s : sched) (st : option DT) (now r : DT) : Prop :=
  exists d' mi', r = mkmin d' mi' /\ in_i32 d' /\ 0 <= mi' < 1440 /\ base_idx st now < idx d' mi' /\
                 sched_matches s d' mi' = true /\
                 forall e me, 0 <= me < 1440 -> base_idx st now < idx e me < idx d' mi' -> sched_matches s e me = false.
Fixpoint hist_ok (s : sched) (st : option DT) (clocks rs : list DT) : Prop :=
  match clocks, rs with
  | [], [] => True
  | now :: cl, r :: rs' => least_after s st now r /\ hist_ok s (Some r) cl rs'
  | _, _ => False
  end.

Theorem history_spec fuel s : forall clocks st rs, Forall clock_ok clocks -> last_ok st ->
  run_hist fuel s st clocks = Some rs -> hist_ok s st clocks rs.
Proof.
  induction clocks as [|now cl IH]; intros st rs HC HL E.
  - cbn in E. injection E as <-. exact I.
  - cbn [run_hist] in E. inversion HC as [|? ? (H1 & H2 & H3) HC']; subst.
    destruct (cron_next fuel s st now) as [[r|]| |] eqn:En; try discriminate.
    destruct (run_hist fuel s (Some r) cl) as [rs'|] eqn:Er; [|discriminate]. injection E as <-.
    pose proof (next_spec fuel s st now r H1 H2 H3 HL En) as N. cbn [hist_ok]. split; [exact N|].
    apply IH; [exact HC' | | exact Er]. destruct N as (d' & mi' & -> & Hd' & Hmi' & _). exists d', mi'. tauto.
Qed.

(* consecutive results strictly increase, whatever the clock does in between *)
Theorem results_increase s prev now r : last_ok (Some prev) -> least_after s (Some prev) now r ->
  idx (dt_days prev) (dt_nanos prev / NPM) < idx (dt_days r) (dt_nanos r / NPM).
Proof.
  intros _ (d' & mi' & -> & Hd' & Hmi' & Hb & _). unfold base_idx, last_idx in Hb. cbn [mkmin dt_days dt_nanos].
  replace (mi' * NPM / NPM) with mi' by (unfold NPM, NANOS_PER_MINUTE; lia). lia.
Qed.
(* every result is a whole minute: zero seconds and nanoseconds *)
Theorem result_whole_minute s st now r : least_after s st now r -> dt_nanos r mod NPM = 0 /\ dt_off r = 0.
Proof. intros (d' & mi' & -> & _). cbn. unfold NPM, NANOS_PER_MINUTE. split; [lia | reflexivity]. Qed.
