(* DateProofs.v — day number <-> calendar date (C01): the musl-derived decomposition
   of days_to_date and the two era branches of date_to_days both compute the
   "rata die" function rd, which advances by one along CalSpec.next_date. *)
From Astro Require Import Base CalSpec DateModel.

Definition F (x : Z) : Z := x / 4 - x / 100 + x / 400.
Definition ystart (a : Z) : Z := 365 * (a - 1) + F (a - 1).     (* day number of 1 Jan, astronomical year a *)
Definition cum (lp : bool) (m : Z) : Z :=
  match m with
  | 1 => 0 | 2 => 31
  | 3 => 59 + Z.b2z lp | 4 => 90 + Z.b2z lp | 5 => 120 + Z.b2z lp | 6 => 151 + Z.b2z lp
  | 7 => 181 + Z.b2z lp | 8 => 212 + Z.b2z lp | 9 => 243 + Z.b2z lp | 10 => 273 + Z.b2z lp
  | 11 => 304 + Z.b2z lp | 12 => 334 + Z.b2z lp
  | _ => 0
  end.
Definition rd (x : date) : Z :=
  let '(y, m, d) := x in ystart (astro y) + cum (leap y) m + d - 1.

Lemma month_cases m : 1 <= m <= 12 ->
  m = 1 \/ m = 2 \/ m = 3 \/ m = 4 \/ m = 5 \/ m = 6 \/ m = 7 \/ m = 8 \/ m = 9 \/ m = 10 \/ m = 11 \/ m = 12.
Proof. lia. Qed.

Ltac month_split m H :=
  let H' := fresh in
  pose proof (month_cases m H) as H';
  repeat (destruct H' as [H' | H']; [subst m | ]); [ .. | subst m].

(* ---------- leap-year predicate of the model = the spec's ---------- *)
Lemma rem_mod_eqb4 a : (Z.rem a 4 =? 0) = (a mod 4 =? 0).
Proof. apply eq_true_iff_eq. rewrite !Z.eqb_eq. lia. Qed.
Lemma rem_mod_eqb100 a : (Z.rem a 100 =? 0) = (a mod 100 =? 0).
Proof. apply eq_true_iff_eq. rewrite !Z.eqb_eq. lia. Qed.
Lemma rem_mod_eqb400 a : (Z.rem a 400 =? 0) = (a mod 400 =? 0).
Proof. apply eq_true_iff_eq. rewrite !Z.eqb_eq. lia. Qed.

Lemma is_leap_year_spec y : is_leap_year y = leap y.
Proof.
  unfold is_leap_year, leap, leap_a, astro.
  rewrite rem_mod_eqb4, rem_mod_eqb100, rem_mod_eqb400. reflexivity.
Qed.

Lemma leap_a_F a : Z.b2z (leap_a a) = F a - F (a - 1).
Proof.
  unfold leap_a, F.
  destruct (a mod 4 =? 0) eqn:E4; destruct (a mod 100 =? 0) eqn:E100; destruct (a mod 400 =? 0) eqn:E400;
  cbn [andb orb negb Z.b2z];
  rewrite ?Z.eqb_eq, ?Z.eqb_neq in *; lia.
Qed.
Definition dtd_tail (year remdays : Z) : Z * Z * Z :=
  let '(mon, remdays) := month_loop MONTH_DAYS 0 remdays in
  let mday := remdays + 1 in
  let '(year, mon) := if 12 <? mon + 2 then (year + 1, mon - 10) else (year, mon + 2) in
  let year := if year <? 1 then year - 1 else year in
  (year, mon, mday).

Definition mstart (m : Z) : Z :=
  match m with
  | 3 => 0 | 4 => 31 | 5 => 61 | 6 => 92 | 7 => 122 | 8 => 153 | 9 => 184 | 10 => 214
  | 11 => 245 | 12 => 275 | 1 => 306 | 2 => 337 | _ => 0 end.
Definition mlen_max (m : Z) : Z :=
  if m =? 2 then 29 else if (m =? 4) || (m =? 6) || (m =? 9) || (m =? 11) then 30 else 31.

Lemma dtd_tail_spec Y r : 0 <= r <= 365 ->
  let '(y, m, dd) := dtd_tail Y r in
  y <> 0 /\ astro y = (if m <=? 2 then Y + 1 else Y) /\ 1 <= m <= 12 /\ 1 <= dd <= mlen_max m /\
  dd - 1 + mstart m = r.
Proof.
  intros Hr. unfold dtd_tail, MONTH_DAYS, month_loop.
  repeat match goal with |- context [if ?x <? ?y then _ else _] =>
     destruct (Z.ltb_spec x y); [ | ] end.
  all: try lia.
  all: unfold astro, mlen_max, mstart; cbn.
  all: repeat match goal with |- context [if ?x <? ?y then _ else _] =>
     destruct (Z.ltb_spec x y); [ | ] end.
  all: try lia.
Qed.


Definition norm400 (days : Z) : Z * Z :=
  let qc := Z.quot days 146097 in let r := Z.rem days 146097 in
  if r <? 0 then (r + 146097, qc - 1) else (r, qc).
Definition cyc100 (r : Z) : Z := let c := Z.quot r 36524 in if c =? 4 then c - 1 else c.
Definition cyc1 (r : Z) : Z := let y := Z.quot r 365 in if y =? 4 then y - 1 else y.
Definition dtd_head (days0 : Z) : Z * Z :=
  let '(r0, qc) := norm400 (days0 - 730179) in
  let c := cyc100 r0 in
  let r1 := r0 - c * 36524 in
  let q := Z.quot r1 1461 in
  let r2 := r1 - q * 1461 in
  let ry := cyc1 r2 in
  (2000 + ry + 4 * q + 100 * c + 400 * qc, r2 - ry * 365).

Lemma days_to_date_split d : days_to_date d = let '(Y, r) := dtd_head d in dtd_tail Y r.
Proof.
  unfold days_to_date, dtd_head, dtd_tail, norm400, cyc100, cyc1.
  destruct (Z.rem (d - 730179) 146097 <? 0); reflexivity.
Qed.

Lemma norm400_spec x : let '(r, qc) := norm400 x in 0 <= r < 146097 /\ x = 146097 * qc + r.
Proof. unfold norm400. destruct (Z.ltb_spec (Z.rem x 146097) 0); lia. Qed.
Lemma cyc100_spec r : 0 <= r < 146097 ->
  let c := cyc100 r in 0 <= c <= 3 /\ 0 <= r - c * 36524 <= 36524 /\ (r - c * 36524 = 36524 -> c = 3).
Proof. intros H. unfold cyc100. destruct (Z.eqb_spec (Z.quot r 36524) 4); cbv zeta; lia. Qed.
Lemma cyc4_spec r : 0 <= r <= 36524 ->
  let q := Z.quot r 1461 in 0 <= q <= 24 /\ 0 <= r - q * 1461 <= 1460.
Proof. intros H. cbv zeta. lia. Qed.
Lemma cyc1_spec r : 0 <= r <= 1460 ->
  let y := cyc1 r in 0 <= y <= 3 /\ 0 <= r - y * 365 <= 365 /\ (r - y * 365 = 365 -> y = 3).
Proof. intros H. unfold cyc1. destruct (Z.eqb_spec (Z.quot r 365) 4); cbv zeta; lia. Qed.

Definition mar1 (Y : Z) : Z := 365 * Y + F Y - 306.

Lemma mar1_decomp qc c q ry : 0 <= c <= 3 -> 0 <= q <= 24 -> 0 <= ry <= 3 ->
  mar1 (2000 + ry + 4 * q + 100 * c + 400 * qc) = 730179 + 146097 * qc + 36524 * c + 1461 * q + 365 * ry.
Proof. intros. unfold mar1, F. lia. Qed.

Lemma leap_decomp qc c q : 0 <= c <= 3 -> 0 <= q <= 24 -> (q = 24 -> c = 3) ->
  leap_a (2000 + 3 + 4 * q + 100 * c + 400 * qc + 1) = true.
Proof.
  intros Hc Hq H. unfold leap_a.
  rewrite andb_true_iff, orb_true_iff, negb_true_iff, !Z.eqb_eq, Z.eqb_neq. lia.
Qed.

Lemma dtd_head_spec d :
  let '(Y, r) := dtd_head d in
  0 <= r <= 365 /\ mar1 Y + r = d /\ (r = 365 -> leap_a (Y + 1) = true).
Proof.
  unfold dtd_head.
  pose proof (norm400_spec (d - 730179)) as H0. destruct (norm400 (d - 730179)) as [r0 qc].
  destruct H0 as [Hr0 Hd].
  pose proof (cyc100_spec r0 Hr0) as Hc. cbv zeta in Hc.
  set (c := cyc100 r0) in *. clearbody c. destruct Hc as (Hc & Hr1 & Hc3).
  set (r1 := r0 - c * 36524) in *.
  pose proof (cyc4_spec r1 Hr1) as Hq. cbv zeta in Hq.
  set (q := Z.quot r1 1461) in *. clearbody q. destruct Hq as (Hq & Hr2).
  set (r2 := r1 - q * 1461) in *.
  pose proof (cyc1_spec r2 Hr2) as Hy. cbv zeta in Hy.
  set (ry := cyc1 r2) in *. clearbody ry. destruct Hy as (Hy & Hr3 & Hy3).
  rewrite mar1_decomp by lia.
  split; [lia|]. split; [subst r2 r1; lia|].
  intros E. specialize (Hy3 E). subst ry.
  apply leap_decomp; subst r2 r1; lia.
Qed.

Theorem days_to_date_rd d : valid (days_to_date d) /\ rd (days_to_date d) = d.
Proof.
  rewrite days_to_date_split.
  pose proof (dtd_head_spec d) as Hh. destruct (dtd_head d) as [Y r].
  destruct Hh as (Hr & Hd & Hl).
  pose proof (dtd_tail_spec Y r Hr) as Ht. destruct (dtd_tail Y r) as [[y m] dd].
  destruct Ht as (Hy0 & Ha & Hm & Hdd & Hrr).
  unfold valid, rd, mlen, leap. rewrite Ha. clear Ha.
  pose proof (leap_a_F Y) as HF.
  unfold mar1 in Hd. unfold ystart.
  month_split m Hm; cbv beta iota delta [cum mstart mlen_max mlen Z.eqb Pos.eqb orb Z.leb Z.compare Pos.compare Pos.compare_cont] in *.
  all: try (destruct (leap_a Y); cbn [Z.b2z] in *; lia).
  - replace (Y + 1 - 1) with Y by lia. lia.
  - replace (Y + 1 - 1) with Y by lia.
    destruct (leap_a (Y + 1)) eqn:E; [lia|].
    assert (dd <> 29) by (intros ->; assert (r = 365) by lia; intuition congruence). lia.
Qed.
Lemma ystart_mono a b : a <= b -> ystart a <= ystart b.
Proof. unfold ystart, F. intros. lia. Qed.
Lemma ystart_succ a : ystart (a + 1) = ystart a + (if leap_a a then 366 else 365).
Proof.
  unfold ystart. replace (a + 1 - 1) with a by lia.
  pose proof (leap_a_F a). destruct (leap_a a); cbn [Z.b2z] in *; lia.
Qed.

Lemma leap_years_spec y : y <> 0 ->
  leap_years y = if y <? 0 then - F (y + 1) else F (y - 1).
Proof.
  intros Hy. unfold leap_years, F. cbv zeta.
  break_ifs.
Qed.

Lemma ydoy0_to_days_spec y n : y <> 0 -> ydoy0_to_days y n = ystart (astro y) + n.
Proof.
  intros Hy. unfold ydoy0_to_days. rewrite leap_years_spec by assumption.
  rewrite is_leap_year_spec. unfold leap, astro, ystart.
  destruct (Z.ltb_spec y 0).
  - pose proof (leap_a_F (y + 1)). replace (y + 1 - 1) with y in * by lia.
    destruct (leap_a (y + 1)); cbn [Z.b2z] in *; lia.
  - rewrite Z.abs_eq by lia. lia.
Qed.

Lemma year_month_to_doy_ok y m : 1 <= m <= 12 ->
  year_month_to_doy y m = Ok (cum (leap y) m, mlen y m).
Proof.
  intros Hm. unfold year_month_to_doy. rewrite is_leap_year_spec.
  month_split m Hm; unfold mlen; destruct (leap y); reflexivity.
Qed.
Lemma year_month_to_doy_err y m : ~ (1 <= m <= 12) ->
  year_month_to_doy y m = Err (EOor NMonth 1 12 m).
Proof.
  intros Hm. unfold year_month_to_doy.
  destruct (is_leap_year y); destruct m as [|p|p]; try reflexivity.
  all: destruct p as [p|p|]; try reflexivity; try lia.
  all: try (destruct p as [p|p|]; try reflexivity; try lia).
  all: try (destruct p as [p|p|]; try reflexivity; try lia).
  all: try (destruct p as [p|p|]; try reflexivity; try lia).
Qed.

(* ---------- position inside the year ---------- *)
Lemma cum_bounds y m d : 1 <= m <= 12 -> 1 <= d <= mlen y m ->
  1 <= cum (leap y) m + d <= ylen y.
Proof.
  intros Hm Hd. unfold ylen, mlen in *.
  month_split m Hm; cbv beta iota delta [cum Z.eqb Pos.eqb orb] in *;
  destruct (leap y); cbn [Z.b2z] in *; lia.
Qed.

Lemma cum_lt y m1 d1 m2 d2 : 1 <= m1 <= 12 -> 1 <= m2 <= 12 ->
  1 <= d1 <= mlen y m1 -> 1 <= d2 <= mlen y m2 ->
  m1 < m2 -> cum (leap y) m1 + d1 < cum (leap y) m2 + d2.
Proof.
  intros H1 H2 Hd1 Hd2 Hlt. unfold mlen in *.
  month_split m1 H1; month_split m2 H2; try lia;
  cbv beta iota delta [cum Z.eqb Pos.eqb orb] in *;
  destruct (leap y); cbn [Z.b2z] in *; lia.
Qed.

Definition date_ltb (x1 x2 : date) : bool :=
  let '(y1, m1, d1) := x1 in let '(y2, m2, d2) := x2 in
  (y1 <? y2) || ((y1 =? y2) && ((m1 <? m2) || ((m1 =? m2) && (d1 <? d2)))).

Lemma astro_mono y1 y2 : y1 <> 0 -> y2 <> 0 -> y1 < y2 -> astro y1 < astro y2.
Proof. unfold astro. intros. break_ifs. Qed.

Lemma rd_lt x1 x2 : valid x1 -> valid x2 -> date_ltb x1 x2 = true -> rd x1 < rd x2.
Proof.
  destruct x1 as [[y1 m1] d1], x2 as [[y2 m2] d2]. unfold valid, date_ltb, rd.
  intros (Hy1 & Hm1 & Hd1) (Hy2 & Hm2 & Hd2) H.
  pose proof (cum_bounds y1 m1 d1 Hm1 Hd1) as B1.
  pose proof (cum_bounds y2 m2 d2 Hm2 Hd2) as B2.
  rewrite orb_true_iff, andb_true_iff, orb_true_iff, andb_true_iff in H.
  rewrite !Z.ltb_lt, !Z.eqb_eq in H.
  destruct H as [H | [-> [H | [-> H]]]].
  - pose proof (astro_mono y1 y2 Hy1 Hy2 H) as Ha.
    pose proof (ystart_mono (astro y1 + 1) (astro y2) ltac:(lia)) as Hs.
    rewrite ystart_succ in Hs. unfold ylen, leap in *. lia.
  - pose proof (cum_lt y2 m1 d1 m2 d2 Hm1 Hm2 Hd1 Hd2 H). lia.
  - lia.
Qed.

Lemma date_trichotomy x1 x2 : x1 = x2 \/ date_ltb x1 x2 = true \/ date_ltb x2 x1 = true.
Proof.
  destruct x1 as [[y1 m1] d1], x2 as [[y2 m2] d2]. unfold date_ltb.
  destruct (Z.ltb_spec y1 y2); [auto|]. destruct (Z.ltb_spec y2 y1); [auto|].
  assert (y1 = y2) by lia. subst. rewrite Z.eqb_refl. cbn [orb andb].
  destruct (Z.ltb_spec m1 m2); [auto|]. destruct (Z.ltb_spec m2 m1); [auto|].
  assert (m1 = m2) by lia. subst. rewrite Z.eqb_refl. cbn [orb andb].
  destruct (Z.ltb_spec d1 d2); [auto|]. destruct (Z.ltb_spec d2 d1); [auto|].
  left. f_equal. lia.
Qed.

Theorem rd_inj x1 x2 : valid x1 -> valid x2 -> rd x1 = rd x2 -> x1 = x2.
Proof.
  intros V1 V2 E. destruct (date_trichotomy x1 x2) as [H | [H | H]]; [exact H | | ].
  - pose proof (rd_lt x1 x2 V1 V2 H). lia.
  - pose proof (rd_lt x2 x1 V2 V1 H). lia.
Qed.

(* ---------- the successor ---------- *)
Lemma mlen_bounds y m : 28 <= mlen y m <= 31.
Proof.
  unfold mlen. destruct (m =? 2); [destruct (leap y); lia|].
  destruct ((m =? 4) || (m =? 6) || (m =? 9) || (m =? 11)); lia.
Qed.
Lemma next_date_valid x : valid x -> valid (next_date x).
Proof.
  destruct x as [[y m] d]. unfold valid, next_date. intros (Hy & Hm & Hd).
  destruct (Z.ltb_spec d (mlen y m)); [lia|].
  destruct (Z.ltb_spec m 12).
  - pose proof (mlen_bounds y (m + 1)). lia.
  - pose proof (mlen_bounds (next_year y) 1). unfold next_year in *. split; [break_ifs|]. lia.
Qed.

Lemma rd_next x : valid x -> rd (next_date x) = rd x + 1.
Proof.
  destruct x as [[y m] d]. unfold valid, next_date, rd. intros (Hy & Hm & Hd).
  destruct (Z.ltb_spec d (mlen y m)); [lia|].
  assert (d = mlen y m) by lia. subst d.
  destruct (Z.ltb_spec m 12).
  - unfold mlen. month_split m Hm; try lia;
    repeat match goal with |- context [Z.pos ?p + 1] =>
       let v := eval vm_compute in (Z.pos p + 1) in change (Z.pos p + 1) with v end;
    cbv beta iota delta [cum Z.eqb Pos.eqb orb];
    destruct (leap y); cbn [Z.b2z]; lia.
  - assert (m = 12) by lia. subst m.
    assert (astro (next_year y) = astro y + 1) as -> by (unfold next_year, astro; break_ifs).
    rewrite ystart_succ. unfold mlen, leap.
    cbv beta iota delta [cum Z.eqb Pos.eqb orb].
    destruct (leap_a (astro y)); cbn [Z.b2z]; lia.
Qed.

(* ---------- order and range ---------- *)
Lemma date_leb_ltb x1 x2 : date_leb x1 x2 = negb (date_ltb x2 x1).
Proof.
  destruct x1 as [[y1 m1] d1], x2 as [[y2 m2] d2]. unfold date_leb, date_ltb.
  lia.
Qed.

Lemma rd_min : rd MIN_DATE = I32_MIN. Proof. reflexivity. Qed.
Lemma rd_max : rd MAX_DATE = I32_MAX. Proof. reflexivity. Qed.
Lemma valid_min : valid MIN_DATE. Proof. unfold valid, MIN_DATE. cbn. lia. Qed.
Lemma valid_max : valid MAX_DATE. Proof. unfold valid, MAX_DATE. cbn. lia. Qed.

Lemma in_range_rd x : valid x -> (in_range x <-> in_i32 (rd x)).
Proof.
  intros V. unfold in_range, in_i32. rewrite !date_leb_ltb, !negb_true_iff.
  rewrite <- rd_min, <- rd_max. split.
  - intros [H1 H2]. split.
    + destruct (date_trichotomy MIN_DATE x) as [<- | [H | H]]; [lia | | congruence].
      pose proof (rd_lt _ _ valid_min V H). lia.
    + destruct (date_trichotomy x MAX_DATE) as [-> | [H | H]]; [lia | | congruence].
      pose proof (rd_lt _ _ V valid_max H). lia.
  - intros [H1 H2]. split.
    + destruct (date_ltb x MIN_DATE) eqn:E; [|reflexivity].
      pose proof (rd_lt _ _ V valid_min E). lia.
    + destruct (date_ltb MAX_DATE x) eqn:E; [|reflexivity].
      pose proof (rd_lt _ _ valid_max V E). lia.
Qed.

(* ---------- validate_date is the range test ---------- *)
Lemma validate_date_ok y m d :
  y <> 0 -> in_range (y, m, d) -> validate_date y m d = Ok tt.
Proof.
  unfold in_range, date_leb, MIN_DATE, MAX_DATE, validate_date, MIN_Y, MIN_M, MIN_D, MAX_Y, MAX_M, MAX_D.
  intros Hy [H1 H2].
  rewrite !orb_true_iff, !andb_true_iff, !orb_true_iff, !andb_true_iff in H1, H2.
  rewrite ?Z.ltb_lt, ?Z.eqb_eq, ?Z.leb_le in H1, H2.
  repeat match goal with
  | |- context [if ?a && ?b then _ else _] =>
      let E := fresh in destruct (a && b) eqn:E;
      [ rewrite ?andb_true_iff, ?Z.ltb_lt, ?Z.eqb_eq in E; lia | ]
  | |- context [if Z.ltb ?a ?b then _ else _] => destruct (Z.ltb_spec a b); [lia|]
  | |- context [if Z.eqb ?a ?b then _ else _] => destruct (Z.eqb_spec a b); [lia|]
  end.
  reflexivity.
Qed.

Lemma validate_date_err y m d :
  ~ (y <> 0 /\ in_range (y, m, d)) -> exists n a b v, validate_date y m d = Err (EOor n a b v).
Proof.
  unfold in_range, date_leb, MIN_DATE, MAX_DATE, validate_date, MIN_Y, MIN_M, MIN_D, MAX_Y, MAX_M, MAX_D.
  intros H.
  repeat match goal with
  | |- context [if ?a && ?b then _ else _] =>
      let E := fresh "E" in destruct (a && b) eqn:E; [ do 4 eexists; reflexivity | ]
  | |- context [if Z.ltb ?a ?b then _ else _] => destruct (Z.ltb_spec a b); [ do 4 eexists; reflexivity | ]
  | |- context [if Z.eqb ?a ?b then _ else _] => destruct (Z.eqb_spec a b); [ do 4 eexists; reflexivity | ]
  end.
  exfalso. apply H. split; [assumption|].
  rewrite !andb_false_iff in *. rewrite ?Z.ltb_ge, ?Z.eqb_neq in *.
  rewrite !orb_true_iff, !andb_true_iff, !orb_true_iff, !andb_true_iff.
  rewrite ?Z.ltb_lt, ?Z.eqb_eq, ?Z.leb_le. lia.
Qed.

(* ---------- date_to_days ---------- *)
Theorem date_to_days_ok y m d : valid (y, m, d) -> in_range (y, m, d) ->
  date_to_days y m d = Ok (rd (y, m, d)).
Proof.
  intros V R. pose proof V as (Hy & Hm & Hd). unfold date_to_days.
  rewrite validate_date_ok by assumption. cbn [bind].
  rewrite year_month_to_doy_ok by assumption. cbn [bind].
  replace ((mlen y m <? d) || (d =? 0)) with false by lia.
  rewrite ydoy0_to_days_spec by assumption. unfold rd. f_equal. lia.
Qed.

Theorem date_to_days_err y m d : 0 <= m -> 0 <= d ->
  ~ (valid (y, m, d) /\ in_range (y, m, d)) ->
  exists n a b v, date_to_days y m d = Err (EOor n a b v).
Proof.
  intros Hm0 Hd0 H. unfold date_to_days.
  destruct (Z.eq_dec y 0) as [-> | Hy]; [do 4 eexists; reflexivity|].
  assert (Hr : in_range (y, m, d) \/ ~ in_range (y, m, d)).
  { unfold in_range. destruct (date_leb MIN_DATE (y, m, d)), (date_leb (y, m, d) MAX_DATE); intuition congruence. }
  destruct Hr as [Hr | Hr].
  2:{ destruct (validate_date_err y m d) as (n & a & b & v & E); [tauto|]. rewrite E. do 4 eexists; reflexivity. }
  rewrite validate_date_ok by assumption. cbn [bind].
  assert (Hm : 1 <= m <= 12 \/ ~ (1 <= m <= 12)) by lia.
  destruct Hm as [Hm | Hm].
  2:{ rewrite year_month_to_doy_err by assumption. do 4 eexists; reflexivity. }
  rewrite year_month_to_doy_ok by assumption. cbn [bind].
  replace ((mlen y m <? d) || (d =? 0)) with true.
  { do 4 eexists; reflexivity. }
  assert (~ (1 <= d <= mlen y m)) by (intros Hx; apply H; unfold valid; tauto). lia.
Qed.

(* ---------- the statements of C01 ---------- *)
Theorem c01_valid d : in_i32 d -> valid (days_to_date d) /\ in_range (days_to_date d).
Proof.
  intros Hd. destruct (days_to_date_rd d) as [V E]. split; [exact V|].
  apply in_range_rd; [exact V|]. rewrite E. exact Hd.
Qed.

Theorem c01_succ d : days_to_date (d + 1) = next_date (days_to_date d).
Proof.
  destruct (days_to_date_rd d) as [V E]. destruct (days_to_date_rd (d + 1)) as [V' E'].
  apply rd_inj; [exact V' | apply next_date_valid; exact V |].
  rewrite rd_next by exact V. lia.
Qed.

Theorem c01_roundtrip d : in_i32 d ->
  let '(y, m, dd) := days_to_date d in date_to_days y m dd = Ok d.
Proof.
  intros Hd. destruct (c01_valid d Hd) as [V R]. destruct (days_to_date_rd d) as [_ E].
  destruct (days_to_date d) as [[y m] dd]. rewrite date_to_days_ok by assumption. f_equal. exact E.
Qed.

Theorem c01_accept y m d : valid (y, m, d) -> in_range (y, m, d) ->
  exists n, in_i32 n /\ date_to_days y m d = Ok n /\ days_to_date n = (y, m, d).
Proof.
  intros V R. exists (rd (y, m, d)). split; [apply in_range_rd; assumption|].
  split; [apply date_to_days_ok; assumption|].
  destruct (days_to_date_rd (rd (y, m, d))) as [V' E]. apply rd_inj; assumption.
Qed.

Theorem c01_anchor : days_to_date 0 = (1, 1, 1). Proof. reflexivity. Qed.
Theorem c01_epoch : days_to_date 719162 = (1970, 1, 1). Proof. reflexivity. Qed.
Theorem c01_ends : days_to_date I32_MIN = MIN_DATE /\ days_to_date I32_MAX = MAX_DATE.
Proof. split; reflexivity. Qed.
