(* WeekSweep4.v — complete enumeration, inside the kernel, of days 73052 .. 91314 of the 400-year cycle. *)
From Astro Require Import Base CalSpec DateModel DateProofs WeekProofs.
Lemma week_sweep_4 : range_all week_ok 73052 (Z.to_nat 18263) = true.
Proof. vm_compute. reflexivity. Qed.
