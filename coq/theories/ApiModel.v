(* ApiModel.v — Gallina transcription of the public methods of Date, Time, DateTime and Offset
   (src/date.rs, src/time.rs, src/datetime.rs, src/offset.rs), text methods excluded.
   Offsets are the resolved fixed number of seconds; Offset::Local is handled in TzModel. *)
From Astro Require Import Base DateModel TimeModel.

Record DT := mkDT { dt_days : Z; dt_nanos : Z; dt_off : Z }.
Record TM := mkTM { tm_nanos : Z; tm_off : Z }.
(* a Date is its day number *)

(* ================= Offset ================= *)
Definition offset_from_seconds (seconds : Z) : res Z :=
  if (seconds <=? - SECS_PER_DAY) || (SECS_PER_DAY <=? seconds)
  then Err (EOor NSeconds (- SECS_PER_DAY + 1) (SECS_PER_DAY - 1) seconds) else Ok seconds.
Definition offset_from_hms (hour minute second : Z) : res Z :=
  if negb ((-23 <=? hour) && (hour <=? 23)) then Err (EOor NHour (-23) 23 hour) else
  let? seconds := time_to_day_seconds (Z.abs hour) minute second in
  Ok (if hour <? 0 then - seconds else seconds).
Definition offset_resolve_hms (o : Z) : Z * Z * Z :=
  (Z.quot o 3600, Z.abs (Z.quot (Z.rem o 3600) 60), Z.abs (Z.rem o 60)).

(* ================= Date ================= *)
Definition date_from_ymd (y m d : Z) : res Z := date_to_days y m d.
Definition date_as_ymd (days : Z) : Z * Z * Z := days_to_date days.
Definition date_from_timestamp (timestamp : Z) : res Z :=
  let days := Z.quot timestamp SECS_PER_DAY + DAYS_TO_1970
              - (if (timestamp <? 0) && negb (Z.abs timestamp mod SECS_PER_DAY =? 0) then 1 else 0) in
  if in_i32b days then Ok days else Panic.
Definition date_timestamp (days : Z) : Z := (days - DAYS_TO_1970) * SECS_PER_DAY.
(* `match r { Ok(v) => v, Err(e) => panic!(..) }` *)
Definition date_add_years d n := unwrap (add_years d n).
Definition date_add_months d n := unwrap (add_months d n).
Definition date_add_days d n := unwrap (add_days d n).
Definition date_sub_years d n := unwrap (sub_years d n).
Definition date_sub_months d n := unwrap (sub_months d n).
Definition date_sub_days d n := unwrap (sub_days d n).
Definition date_clear_until_year (d : Z) : res Z := Ok 0.
Definition date_clear_until_month (d : Z) : res Z :=
  let '(year, _, _) := days_to_date d in unwrap (date_to_days year 1 1).
Definition date_clear_until_day (d : Z) : res Z :=
  let '(year, month, _) := days_to_date d in unwrap (date_to_days year month 1).
Definition date_days_since (a b : Z) : Z := a - b.
Definition date_months_since (a b : Z) : Z := months_between a 0 b 0.
Definition date_years_since (a b : Z) : Z := years_between a 0 b 0.
(* Date +/- Duration (secs = rhs.as_secs()) *)
Definition date_add_dur (d secs : Z) : res Z :=
  let r := d + secs / SECS_PER_DAY in if in_i32b r then Ok r else Panic.
Definition date_sub_dur (d secs : Z) : res Z :=
  let r := d - secs / SECS_PER_DAY in if in_i32b r then Ok r else Panic.
Definition date_duration_between (a b : Z) : Z := Z.abs (a - b) * SECS_PER_DAY.   (* seconds *)

(* ================= Time ================= *)
Definition time_from_hms (h m s : Z) : res TM :=
  let? seconds := time_to_day_seconds h m s in Ok (mkTM (seconds * NANOS_PER_SEC) 0).
Definition time_from_seconds (seconds : Z) : res TM :=
  if SECS_PER_DAY <=? seconds then Err (EOor NSeconds 0 (SECS_PER_DAY - 1) seconds)
  else Ok (mkTM (seconds * NANOS_PER_SEC) 0).
Definition time_from_nanos (nanos : Z) : res TM :=
  if NANOS_PER_DAY <=? nanos then Err (EOor NNanoseconds 0 (NANOS_PER_DAY - 1) nanos)
  else Ok (mkTM nanos 0).
Definition time_as_seconds (t : TM) : Z := wrap_u32 (tm_nanos t / NANOS_PER_SEC).
Definition time_as_hms (t : TM) : Z * Z * Z :=
  let s := time_as_seconds t in (s / 3600, (s mod 3600) / 60, s mod 60).
Definition time_local_nanos (t : TM) : Z := add_offset_to_nanos (tm_nanos t) (tm_off t).
Definition time_hour t := fst (fst (nanos_to_time (time_local_nanos t))).
Definition time_minute t := snd (fst (nanos_to_time (time_local_nanos t))).
Definition time_second t := snd (nanos_to_time (time_local_nanos t)).
Definition time_milli t := fst (fst (nanos_to_subsecond (time_local_nanos t))).
Definition time_micro t := snd (fst (nanos_to_subsecond (time_local_nanos t))).
Definition time_nano t := snd (nanos_to_subsecond (time_local_nanos t)).

Definition time_set_with (f : Z -> Z -> res Z) (t : TM) (v : Z) : res TM :=
  let nanos := add_offset_to_nanos (tm_nanos t) (tm_off t) in
  let? new_nanos := f nanos v in
  Ok (mkTM (remove_offset_from_nanos new_nanos (tm_off t)) (tm_off t)).
Definition time_set_hour := time_set_with set_hour.
Definition time_set_minute := time_set_with set_minute.
Definition time_set_second := time_set_with set_second.
Definition time_set_milli := time_set_with set_milli.
Definition time_set_micro := time_set_with set_micro.
Definition time_set_nano := time_set_with set_nano.

Definition time_add (u : tunit) (t : TM) (n : Z) : TM :=
  mkTM (add_units u (tm_nanos t) n mod NANOS_PER_DAY) (tm_off t).
Definition time_sub (u : tunit) (t : TM) (n : Z) : TM :=
  mkTM (sub_units u (tm_nanos t) n mod NANOS_PER_DAY) (tm_off t).     (* rem_euclid *)

Definition time_clear_until_hour (t : TM) : res TM := Ok (mkTM (remove_offset_from_nanos 0 (tm_off t)) (tm_off t)).
Definition time_clear_with (f : Z -> res Z) (t : TM) : res TM :=
  let nanos := add_offset_to_nanos (tm_nanos t) (tm_off t) in
  let? c := f nanos in
  Ok (mkTM (remove_offset_from_nanos c (tm_off t)) (tm_off t)).
Definition time_clear_until_minute := time_clear_with clear_nanos_until_minute.
Definition time_clear_until_second := time_clear_with clear_nanos_until_second.
Definition time_clear_until_milli := time_clear_with clear_nanos_until_milli.
Definition time_clear_until_micro := time_clear_with clear_nanos_until_micro.
Definition time_clear_until_nano := time_clear_with clear_nanos_until_nanos.

(* `as i32` / `as i64` of the totals are identities for in-day values; kept as wraps *)
Definition time_hours_since (a b : TM) : Z :=
  since (wrap_i32 (days_nanos_to_hours 0 (tm_nanos a))) (nanos_to_subhour_nanos (tm_nanos a))
        (wrap_i32 (days_nanos_to_hours 0 (tm_nanos b))) (nanos_to_subhour_nanos (tm_nanos b)).
Definition time_minutes_since (a b : TM) : Z :=
  since (wrap_i32 (days_nanos_to_minutes 0 (tm_nanos a))) (nanos_to_subminute_nanos (tm_nanos a))
        (wrap_i32 (days_nanos_to_minutes 0 (tm_nanos b))) (nanos_to_subminute_nanos (tm_nanos b)).
Definition time_seconds_since (a b : TM) : Z :=
  since (wrap_i32 (days_nanos_to_seconds 0 (tm_nanos a))) (nanos_to_subsecond_nanos (tm_nanos a))
        (wrap_i32 (days_nanos_to_seconds 0 (tm_nanos b))) (nanos_to_subsecond_nanos (tm_nanos b)).
Definition time_millis_since (a b : TM) : Z :=
  since (wrap_i64 (days_nanos_to_millis 0 (tm_nanos a))) (nanos_to_submilli_nanos (tm_nanos a))
        (wrap_i64 (days_nanos_to_millis 0 (tm_nanos b))) (nanos_to_submilli_nanos (tm_nanos b)).
Definition time_micros_since (a b : TM) : Z :=
  since (wrap_i64 (days_nanos_to_micros 0 (tm_nanos a))) (nanos_to_submicro_nanos (tm_nanos a))
        (wrap_i64 (days_nanos_to_micros 0 (tm_nanos b))) (nanos_to_submicro_nanos (tm_nanos b)).
Definition time_nanos_since (a b : TM) : Z :=
  wrap_i64 (days_nanos_to_nanos 0 (tm_nanos a)) - wrap_i64 (days_nanos_to_nanos 0 (tm_nanos b)).
Definition time_duration_between (a b : TM) : Z := Z.abs (tm_nanos a - tm_nanos b).   (* nanoseconds *)

Definition time_set_offset (t : TM) (o : Z) : TM := mkTM (tm_nanos t) o.
Definition time_as_offset (t : TM) (o : Z) : res TM :=
  let? r := unwrap (time_from_nanos (remove_offset_from_nanos (tm_nanos t) o)) in
  Ok (time_set_offset r o).
Definition time_add_time (a b : TM) : TM := mkTM ((tm_nanos a + tm_nanos b) mod NANOS_PER_DAY) (tm_off a).
Definition time_sub_time (a b : TM) : TM := mkTM ((tm_nanos a + NANOS_PER_DAY - tm_nanos b) mod NANOS_PER_DAY) (tm_off a).
(* Time +/- Duration, dn = rhs.as_nanos() : u128 *)
Definition time_add_dur (a : TM) (dn : Z) : TM :=
  mkTM ((tm_nanos a + dn mod NANOS_PER_DAY) mod NANOS_PER_DAY) (tm_off a).
Definition time_sub_dur (a : TM) (dn : Z) : TM :=
  mkTM ((tm_nanos a + NANOS_PER_DAY - dn mod NANOS_PER_DAY) mod NANOS_PER_DAY) (tm_off a).

(* ================= DateTime ================= *)
Definition dt_as_nanos (v : DT) : Z := days_nanos_to_nanos (dt_days v) (dt_nanos v).
Definition dt_as_seconds (v : DT) : Z := days_nanos_to_secs (dt_days v) (dt_nanos v).
Definition dt_from_nanos (n : Z) : res DT :=
  let? '(d, ns) := unwrap (nanos_to_days_nanos n) in Ok (mkDT d ns 0).
Definition dt_from_seconds (s : Z) : res DT :=
  let? '(d, ns) := secs_to_days_nanos s in Ok (mkDT d ns 0).

Definition dt_from_ymdhms (y mo d h mi s : Z) : res DT :=
  let? days := date_to_days y mo d in
  let? seconds := time_to_day_seconds h mi s in
  Ok (mkDT days (seconds * NANOS_PER_SEC) 0).
Definition dt_from_ymd (y mo d : Z) : res DT := let? days := date_to_days y mo d in Ok (mkDT days 0 0).
Definition dt_from_hms (h mi s : Z) : res DT :=
  let? seconds := time_to_day_seconds h mi s in Ok (mkDT 0 (seconds * NANOS_PER_SEC) 0).
Definition dt_as_ymd (v : DT) := days_to_date (dt_days v).
Definition dt_as_hms (v : DT) : Z * Z * Z :=
  let s := dt_nanos v / NANOS_PER_SEC in (wrap_u32 (s / 3600), wrap_u32 ((s mod 3600) / 60), wrap_u32 (s mod 60)).
Definition dt_set_time (v : DT) (t : TM) : DT := mkDT (dt_days v) (tm_nanos t) (dt_off v).

(* i64 addition `timestamp + DAYS_TO_1970 * SECS_PER_DAY` overflows (panic / wrap) only outside the range *)
Definition dt_from_timestamp (release : bool) (timestamp : Z) : res DT :=
  let s := timestamp + DAYS_TO_1970 * SECS_PER_DAY in
  let? s := (if in_i64b s then Ok s else if release then Ok (wrap_i64 s) else Panic) in
  unwrap (dt_from_seconds s).
Definition dt_timestamp (v : DT) : Z := dt_as_seconds v - DAYS_TO_1970 * SECS_PER_DAY.

Definition dt_local (v : DT) : res (Z * Z) := add_offset_to_dn (dt_days v) (dt_nanos v) (dt_off v).
Definition dt_year v := let? '(d, _) := dt_local v in Ok (fst (fst (days_to_date d))).
Definition dt_month v := let? '(d, _) := dt_local v in Ok (snd (fst (days_to_date d))).
Definition dt_day v := let? '(d, _) := dt_local v in Ok (snd (days_to_date d)).
Definition dt_day_of_year v := let? '(d, _) := dt_local v in days_to_doy d.
Definition dt_weekday v := let? '(d, _) := dt_local v in Ok (days_to_wday d false).
Definition dt_hour v := let? '(_, n) := dt_local v in Ok (fst (fst (nanos_to_time n))).
Definition dt_minute v := let? '(_, n) := dt_local v in Ok (snd (fst (nanos_to_time n))).
Definition dt_second v := let? '(_, n) := dt_local v in Ok (snd (nanos_to_time n)).
Definition dt_milli v := let? '(_, n) := dt_local v in Ok (fst (fst (nanos_to_subsecond n))).
Definition dt_micro v := let? '(_, n) := dt_local v in Ok (snd (fst (nanos_to_subsecond n))).
Definition dt_nano v := let? '(_, n) := dt_local v in Ok (snd (nanos_to_subsecond n)).

(* date-field setters: shift to local, edit the local day, shift back, keep the stored nanoseconds *)
Definition dt_set_date_with (f : Z -> Z -> res Z) (v : DT) (x : Z) : res DT :=
  let? '(days, nanoseconds) := dt_local v in
  let? new_days := f days x in
  let? '(d, _) := try_remove_offset_from_dn new_days nanoseconds (dt_off v) in
  Ok (mkDT d (dt_nanos v) (dt_off v)).
Definition dt_set_year := dt_set_date_with set_year.
Definition dt_set_month := dt_set_date_with set_month.
Definition dt_set_day := dt_set_date_with set_day.
Definition dt_set_day_of_year := dt_set_date_with set_day_of_year.

Definition dt_keep (v : DT) (r : res Z) : res DT :=
  let? d := unwrap r in Ok (mkDT d (dt_nanos v) (dt_off v)).
Definition dt_add_years v n := dt_keep v (add_years (dt_days v) n).
Definition dt_add_months v n := dt_keep v (add_months (dt_days v) n).
Definition dt_add_days v n := dt_keep v (add_days (dt_days v) n).
Definition dt_sub_years v n := dt_keep v (sub_years (dt_days v) n).
Definition dt_sub_months v n := dt_keep v (sub_months (dt_days v) n).
Definition dt_sub_days v n := dt_keep v (sub_days (dt_days v) n).

Definition dt_clear_until_year (v : DT) : res DT :=
  let? '(d, n) := remove_offset_from_dn 0 0 (dt_off v) in Ok (mkDT d n (dt_off v)).
Definition dt_clear_until_month (v : DT) : res DT :=
  let? '(days, _) := dt_local v in
  let '(year, _, _) := days_to_date days in
  let? new_days := unwrap (date_to_days year 1 1) in
  let? '(d, n) := remove_offset_from_dn new_days 0 (dt_off v) in Ok (mkDT d n (dt_off v)).
Definition dt_clear_until_day (v : DT) : res DT :=
  let? '(days, _) := dt_local v in
  let '(year, month, _) := days_to_date days in
  let? new_days := unwrap (date_to_days year month 1) in
  let? '(d, n) := remove_offset_from_dn new_days 0 (dt_off v) in Ok (mkDT d n (dt_off v)).

Definition dt_years_since (a b : DT) : Z := years_between (dt_days a) (dt_nanos a) (dt_days b) (dt_nanos b).
Definition dt_months_since (a b : DT) : Z := months_between (dt_days a) (dt_nanos a) (dt_days b) (dt_nanos b).
Definition dt_days_since (a b : DT) : Z :=
  dt_days a - dt_days b +
  (if (dt_days b <? dt_days a) && (dt_nanos a <? dt_nanos b) then -1
   else if (dt_days a <? dt_days b) && (dt_nanos b <? dt_nanos a) then 1 else 0).

Definition dt_set_time_with (f : Z -> Z -> res Z) (v : DT) (x : Z) : res DT :=
  let? '(days, nanos) := dt_local v in
  let? new_nanos := f nanos x in
  let? '(d, n) := try_remove_offset_from_dn days new_nanos (dt_off v) in
  Ok (mkDT d n (dt_off v)).
Definition dt_set_hour := dt_set_time_with set_hour.
Definition dt_set_minute := dt_set_time_with set_minute.
Definition dt_set_second := dt_set_time_with set_second.
Definition dt_set_milli := dt_set_time_with set_milli.
Definition dt_set_micro := dt_set_time_with set_micro.
Definition dt_set_nano := dt_set_time_with set_nano.

(* add_<unit> / sub_<unit>: total nanoseconds in i128, re-split with the range check, panic on Err *)
Definition dt_of_total (v : DT) (total : Z) : res DT :=
  let? '(d, n) := unwrap (nanos_to_days_nanos total) in Ok (mkDT d n (dt_off v)).
Definition dt_add (u : tunit) (v : DT) (n : Z) : res DT :=
  dt_of_total v (dt_days v * NANOS_PER_DAY + add_units u (dt_nanos v) n).
Definition dt_sub (u : tunit) (v : DT) (n : Z) : res DT :=
  dt_of_total v (dt_days v * NANOS_PER_DAY + sub_units u (dt_nanos v) n).

Definition dt_clear_until_hour (v : DT) : res DT :=
  let? '(days, _) := dt_local v in
  let? '(d, n) := remove_offset_from_dn days 0 (dt_off v) in Ok (mkDT d n (dt_off v)).
Definition dt_clear_with (f : Z -> res Z) (v : DT) : res DT :=
  let? '(days, nanos) := dt_local v in
  let? c := f nanos in
  let? '(d, n) := remove_offset_from_dn days c (dt_off v) in Ok (mkDT d n (dt_off v)).
Definition dt_clear_until_minute := dt_clear_with clear_nanos_until_minute.
Definition dt_clear_until_second := dt_clear_with clear_nanos_until_second.
Definition dt_clear_until_milli := dt_clear_with clear_nanos_until_milli.
Definition dt_clear_until_micro := dt_clear_with clear_nanos_until_micro.
Definition dt_clear_until_nano := dt_clear_with clear_nanos_until_nanos.

Definition dt_hours_since (a b : DT) : Z :=
  since (days_nanos_to_hours (dt_days a) (dt_nanos a)) (nanos_to_subhour_nanos (dt_nanos a))
        (days_nanos_to_hours (dt_days b) (dt_nanos b)) (nanos_to_subhour_nanos (dt_nanos b)).
Definition dt_minutes_since (a b : DT) : Z :=
  since (days_nanos_to_minutes (dt_days a) (dt_nanos a)) (nanos_to_subminute_nanos (dt_nanos a))
        (days_nanos_to_minutes (dt_days b) (dt_nanos b)) (nanos_to_subminute_nanos (dt_nanos b)).
Definition dt_seconds_since (a b : DT) : Z :=
  since (days_nanos_to_seconds (dt_days a) (dt_nanos a)) (nanos_to_subsecond_nanos (dt_nanos a))
        (days_nanos_to_seconds (dt_days b) (dt_nanos b)) (nanos_to_subsecond_nanos (dt_nanos b)).
Definition dt_millis_since (a b : DT) : Z :=
  since (days_nanos_to_millis (dt_days a) (dt_nanos a)) (nanos_to_submilli_nanos (dt_nanos a))
        (days_nanos_to_millis (dt_days b) (dt_nanos b)) (nanos_to_submilli_nanos (dt_nanos b)).
Definition dt_micros_since (a b : DT) : Z :=
  since (days_nanos_to_micros (dt_days a) (dt_nanos a)) (nanos_to_submicro_nanos (dt_nanos a))
        (days_nanos_to_micros (dt_days b) (dt_nanos b)) (nanos_to_submicro_nanos (dt_nanos b)).
Definition dt_nanos_since (a b : DT) : Z := dt_as_nanos a - dt_as_nanos b.

(* duration_between: (whole seconds, sub-second nanoseconds) of the std Duration returned *)
Definition dt_duration_between (a b : DT) : Z :=     (* total nanoseconds of the Duration *)
  let '(lower, upper) := if dt_as_nanos a <=? dt_as_nanos b then (a, b) else (b, a) in
  let days := dt_days upper - dt_days lower in
  let nanos := dt_nanos upper - dt_nanos lower in
  let '(days, nanos) := if dt_nanos upper <? dt_nanos lower then (days - 1, nanos + NANOS_PER_DAY) else (days, nanos) in
  Z.abs days * SECS_PER_DAY * NANOS_PER_SEC + Z.abs nanos.

Definition dt_set_offset (v : DT) (o : Z) : res DT :=
  let offset_days := Z.quot (dt_as_seconds v + o) SECS_PER_DAY in
  let offset_nanos := dt_nanos v / NANOS_PER_SEC + o in
  if (offset_days <? I32_MIN) || (I32_MAX <? offset_days) || ((offset_days =? I32_MIN) && (offset_nanos <? 0))
  then Panic else Ok (mkDT (dt_days v) (dt_nanos v) o).
Definition dt_as_offset (v : DT) (o : Z) : res DT :=
  let? r := dt_from_nanos (dt_as_nanos v - o * NANOS_PER_SEC) in
  dt_set_offset r o.

(* DateTime +/- Time, +/- Duration: amount in nanoseconds *)
Definition dt_add_nanos_total (v : DT) (amount : Z) : res DT := dt_of_total v (dt_as_nanos v + amount).
Definition dt_sub_nanos_total (v : DT) (amount : Z) : res DT := dt_of_total v (dt_as_nanos v - amount).

Definition time_of_dt (v : DT) : TM := mkTM (dt_as_nanos v mod NANOS_PER_DAY) (dt_off v).   (* rem_euclid *)
Definition date_of_dt (v : DT) : Z := dt_days v.
Definition dt_of_date (d : Z) : DT := mkDT d 0 0.
Definition dt_of_time (t : TM) : DT := mkDT 0 (tm_nanos t) (tm_off t).
