(* TextProofs.v — C14: the text-consuming APIs never panic and return only valid values. *)
From Astro Require Import Base Text CalSpec DateModel TimeModel ApiModel InstantSpec DateProofs WeekProofs TimeProofs ClockProofs OffsetProofs
  FormatModel ParseModel.

Definition npr {A} (r : res A) : Prop := r <> Panic.
Lemma npr_ok {A} (a : A) : npr (Ok a). Proof. discriminate. Qed.
Lemma npr_err {A} e : npr (@Err A e). Proof. discriminate. Qed.
Lemma npr_bind {A B} (r : res A) (f : A -> res B) : npr r -> (forall a, r = Ok a -> npr (f a)) -> npr (bind r f).
Proof. intros Hr Hf. destruct r as [a| e |]; cbn; [apply Hf; reflexivity | discriminate | congruence]. Qed.
Ltac npr_auto := repeat first [ apply npr_ok | apply npr_err | unfold fmt_err, some_part, no_part ].

Lemma remove_part_np n s : npr (remove_part n s).
Proof. unfold remove_part. destruct (_ <? _); npr_auto. Qed.
Lemma pick_text_np n s : npr (pick_text n s).
Proof. unfold pick_text. destruct (_ <? _); npr_auto. Qed.
Lemma pick_u32_np n s : npr (pick_u32 n s).
Proof. unfold pick_u32. apply npr_bind; [apply pick_text_np|]. intros [t rest] _. destruct (parse_unsigned _ _); npr_auto. Qed.
Lemma pick_i32_np n s : npr (pick_i32 n s).
Proof. unfold pick_i32. apply npr_bind; [apply pick_text_np|]. intros [t rest] _. destruct (parse_signed _ _ _); npr_auto. Qed.

(* after a pick/remove of n characters the rest is n characters shorter *)
Lemma remove_part_len n s r : 0 <= n -> remove_part n s = Ok r -> char_count r = char_count s - n.
Proof.
  unfold remove_part, char_count. intros Hn. destruct (Z.ltb_spec (Z.of_nat (length s)) n); [discriminate|].
  intros E. injection E as <-. rewrite skipn_length. lia.
Qed.
Lemma pick_text_len n s t r : 0 <= n -> pick_text n s = Ok (t, r) -> char_count r = char_count s - n.
Proof.
  unfold pick_text, char_count. intros Hn. destruct (Z.ltb_spec (Z.of_nat (length s)) n); [discriminate|].
  intros E. injection E as _ <-. rewrite skipn_length. lia.
Qed.
Lemma pick_u32_len n s v r : 0 <= n -> pick_u32 n s = Ok (v, r) -> char_count r = char_count s - n.
Proof.
  unfold pick_u32. intros Hn. destruct (pick_text n s) as [[t r0]| |] eqn:E; cbn [bind]; try discriminate.
  destruct (parse_unsigned _ _); [|discriminate]. intros H. injection H as _ <-. eapply pick_text_len; eassumption.
Qed.

(* `.unwrap()` of a removal that the preceding test guarantees *)
Lemma must_remove_np n s : n <= char_count s -> npr (must (remove_part n s)).
Proof. intros H. unfold remove_part. destruct (Z.ltb_spec (char_count s) n); [lia|]. cbn. npr_auto. Qed.

Lemma nth_is_digit_len s i : nth_is_digit s i = true -> Z.of_nat i < char_count s.
Proof.
  unfold nth_is_digit, nth_char, char_count. destruct (nth_error s i) eqn:E; [|discriminate]. intros _.
  assert (nth_error s i <> None) by congruence. apply nth_error_Some in H. lia.
Qed.

Lemma text_eqb_len a : forall b, text_eqb a b = true -> length a = length b.
Proof. induction a as [|x a IH]; destruct b as [|y b]; cbn; try discriminate; [reflexivity|]. intros H. apply andb_true_iff in H as [_ H]. f_equal. apply IH, H. Qed.
Lemma starts_with_len e s : starts_with e s = true -> Z.of_nat (length e) <= char_count s.
Proof.
  unfold starts_with, char_count. intros H. apply text_eqb_len in H. rewrite firstn_length in H. lia.
Qed.

(* table entries are ASCII: their byte length is their character count *)
Definition ascii_entry (e : text) : bool := byte_len e =? Z.of_nat (length e).
Lemma find_prefix_spec tbl : forall s i j e, find_prefix tbl s i = Some (j, e) -> In e tbl /\ starts_with e s = true.
Proof.
  induction tbl as [|x tl IH]; intros s i j e; cbn; [discriminate|]. destruct (starts_with x s) eqn:E.
  - intros H. injection H as _ <-. split; [left; reflexivity | exact E].
  - intros H. destruct (IH _ _ _ _ H). split; [right; assumption | assumption].
Qed.
Lemma must_prefix_np tbl s i j e : forallb ascii_entry tbl = true -> find_prefix tbl s i = Some (j, e) ->
  npr (must (remove_part (byte_len e) s)).
Proof.
  intros Ha H. destruct (find_prefix_spec _ _ _ _ _ H) as [Hin Hs]. rewrite forallb_forall in Ha. specialize (Ha e Hin).
  unfold ascii_entry in Ha. apply Z.eqb_eq in Ha. rewrite Ha. apply must_remove_np. apply starts_with_len. exact Hs.
Qed.

Ltac np_pick := first [ apply pick_u32_np | apply pick_i32_np | apply pick_text_np | apply remove_part_np ].
Ltac np_step :=
  match goal with
  | |- npr (bind (must (remove_part (byte_len ?e) ?s)) _) =>
      apply npr_bind; [ eapply must_prefix_np; [ | eassumption ]; reflexivity | intros ? ? ]
  | |- npr (bind _ _) => apply npr_bind; [ try np_pick | intros ? ? ]
  | |- npr (match find_prefix ?tbl ?s ?i with _ => _ end) => destruct (find_prefix tbl s i) as [[? ?]|] eqn:?
  | |- npr (let '(_, _) := ?x in _) => destruct x
  | |- npr (if ?b then _ else _) => destruct b eqn:?
  | |- npr (match ?x with Some _ => _ | None => _ end) => destruct x eqn:?
  | |- npr (pick_u32 _ _) => apply pick_u32_np
  | |- npr (pick_i32 _ _) => apply pick_i32_np
  | |- npr (pick_text _ _) => apply pick_text_np
  | |- npr (remove_part _ _) => apply remove_part_np
  | |- npr (some_part _ _ _) => apply npr_ok
  | |- npr (no_part _) => apply npr_ok
  | |- npr fmt_err => apply npr_err
  | |- npr (Ok _) => apply npr_ok
  | |- npr (Err _) => apply npr_err
  end.
(* split a match on a small numeral *)
Ltac zcases len := destruct len as [|?p|?p]; [ | do 4 (try match goal with q : positive |- _ => destruct q end) | ]; cbv iota beta.

Lemma parse_month_np len s : npr (parse_month len s).
Proof. unfold parse_month. zcases len. all: repeat np_step. Qed.
Lemma parse_wday_np len s : npr (parse_wday len s).
Proof. unfold parse_wday. zcases len. all: repeat np_step. Qed.

Lemma zone5_np hms s : nth_is_digit s 4 = true -> npr (zone5_with_seconds hms s).
Proof.
  intros H. apply nth_is_digit_len in H. unfold zone5_with_seconds.
  destruct (remove_part 1 s) as [s3| |] eqn:E3.
  2,3: exfalso; unfold remove_part in E3; destruct (Z.ltb_spec (char_count s) 1); try lia; discriminate.
  cbn [must bind]. pose proof (remove_part_len 1 s s3 ltac:(lia) E3).
  apply npr_bind; [apply pick_u32_np|]. intros [minute s4] E4.
  pose proof (pick_u32_len 2 s3 minute s4 ltac:(lia) E4).
  apply npr_bind; [apply must_remove_np; lia|]. intros s5 _. repeat np_step.
Qed.

Lemma parse_zone_np len s wz : npr (parse_zone len s wz).
Proof.
  unfold parse_zone. apply npr_bind; [apply pick_text_np|]. intros [pre s1] _.
  destruct (wz && text_eqb pre [90]); [npr_auto|].
  apply npr_bind; [destruct (text_eqb pre [43]); [npr_auto|]; destruct (text_eqb pre [45]); npr_auto|]. intros mult _.
  apply npr_bind; [apply pick_u32_np|]. intros [hour s2] _. cbv zeta.
  zcases len. all: repeat np_step.
  all: match goal with H : nth_is_digit ?s 4 && _ = true |- _ => apply andb_true_iff in H as [H _]; apply zone5_np; exact H end.
Qed.

Lemma parse_date_part_np now chars s : npr (parse_date_part now chars s).
Proof.
  unfold parse_date_part. cbv zeta.
  destruct (first_char chars =? 71).
  { zcases (Z.of_nat (length chars)). all: repeat np_step.
    all: match goal with H : starts_with ?e ?s = true |- npr (must (remove_part ?n ?s)) =>
           apply must_remove_np; apply starts_with_len in H; cbn [length BEFORE_CHRIST ANNO_DOMINI] in H; lia end. }
  destruct (first_char chars =? 121).
  { zcases (Z.of_nat (length chars)). all: repeat np_step. }
  destruct (first_char chars =? 113).
  { zcases (Z.of_nat (length chars)). all: repeat np_step. }
  destruct (first_char chars =? 77); [apply parse_month_np|].
  destruct (first_char chars =? 119).
  { repeat np_step. match goal with H : nth_is_digit s 1 = true |- _ => apply nth_is_digit_len in H end.
    apply must_remove_np. lia. }
  destruct (first_char chars =? 100); [unfold pick_1or2; repeat np_step|].
  destruct (first_char chars =? 68).
  { zcases (Z.of_nat (length chars)). all: repeat np_step. }
  destruct (first_char chars =? 101); [apply parse_wday_np|].
  repeat np_step.
Qed.

Lemma period_value_spec tbl s v e : period_value tbl s = Some (v, e) -> In e (map fst tbl) /\ starts_with e s = true.
Proof.
  unfold period_value. induction tbl as [|[e0 v0] tl IH]; [discriminate|].
  destruct (starts_with e0 s) eqn:E.
  - intros H. injection H as _ <-. split; [left; reflexivity | exact E].
  - intros H. destruct (IH H). split; [right; assumption | assumption].
Qed.

Lemma parse_time_part_np chars s : npr (parse_time_part chars s).
Proof.
  unfold parse_time_part. cbv zeta.
  destruct (first_char chars =? 97).
  { zcases (Z.of_nat (length chars)). all: repeat np_step. }
  destruct (first_char chars =? 98).
  { match goal with |- npr (match period_value ?tbl s with _ => _ end) => destruct (period_value tbl s) as [[v e]|] eqn:E; [|npr_auto];
      apply period_value_spec in E as [Hin Hs]; apply npr_bind; [|intros; npr_auto];
      apply must_remove_np; apply starts_with_len in Hs end.
    assert (Ha : byte_len e = Z.of_nat (length e)).
    { revert Hin. zcases (Z.of_nat (length chars)); cbn [map fst t]; intros Hin;
      repeat (destruct Hin as [<- | Hin]; [reflexivity|]); contradiction. }
    lia. }
  destruct (first_char chars =? 104); [repeat np_step|].
  destruct (first_char chars =? 72); [unfold pick_1or2; repeat np_step|].
  destruct (first_char chars =? 75); [unfold pick_1or2; repeat np_step|].
  destruct (first_char chars =? 107); [repeat np_step|].
  destruct (first_char chars =? 109); [unfold pick_1or2; repeat np_step|].
  destruct (first_char chars =? 115); [unfold pick_1or2; repeat np_step|].
  destruct (first_char chars =? 110).
  { zcases (Z.of_nat (length chars)). all: repeat np_step. }
  destruct (first_char chars =? 88); [apply parse_zone_np|].
  destruct (first_char chars =? 120); [apply parse_zone_np|].
  repeat np_step.
Qed.

Lemma parse_part_np now chars s : npr (parse_part now chars s).
Proof.
  unfold parse_part. destruct (is_date_symbol _); [apply parse_date_part_np|].
  destruct (is_time_symbol _); [apply parse_time_part_np|]. repeat np_step.
Qed.

Lemma parse_loop_np pp : (forall c s, npr (pp c s)) -> forall parts s d x, npr (parse_loop pp parts s d x).
Proof.
  intros Hpp. induction parts as [|part tl IH]; intros s d x; cbn [parse_loop]; [npr_auto|].
  destruct (is_literal_part part).
  - apply npr_bind; [unfold remove_literal_part; apply remove_part_np|]. intros s' _. apply IH.
  - apply npr_bind; [apply Hpp|]. intros [[[u v]|] s'] _; [destruct (is_date_unit u)|]; apply IH.
Qed.

Lemma date_to_days_np y m d : npr (date_to_days y m d). Proof. apply date_to_days_no_panic. Qed.
Lemma year_doy_to_days_np y n ig : npr (year_doy_to_days y n ig).
Proof.
  unfold year_doy_to_days. apply npr_bind; [|intros; npr_auto].
  unfold validate_doy. repeat match goal with |- npr (if ?b then _ else _) => destruct b end; npr_auto.
Qed.
Lemma date_days_of_np d : npr (date_days_of d).
Proof. unfold date_days_of. destruct (pd_doy d); [apply year_doy_to_days_np | apply date_to_days_np]. Qed.

Theorem date_parse_np now s fmt : npr (date_parse now s fmt).
Proof.
  unfold date_parse. apply npr_bind; [apply parse_loop_np; intros; apply parse_date_part_np|]. intros [d x] _. apply date_days_of_np.
Qed.

Lemma time_from_nanos_np n : npr (time_from_nanos n).
Proof. unfold time_from_nanos. destruct (_ <=? _); npr_auto. Qed.
Lemma offset_from_seconds_np o : npr (offset_from_seconds o).
Proof. unfold offset_from_seconds. destruct (_ || _); npr_auto. Qed.
Lemma time_as_offset_np t o : npr (time_as_offset t o).
Proof.
  unfold time_as_offset, time_from_nanos. pose proof (remove_offset_in_day (tm_nanos t) o) as R. unfold D in R.
  destruct (Z.leb_spec NANOS_PER_DAY (remove_offset_from_nanos (tm_nanos t) o)); [lia|]. cbn. npr_auto.
Qed.

Theorem time_parse_np s fmt : npr (time_parse s fmt).
Proof.
  unfold time_parse. apply npr_bind; [apply parse_loop_np; intros; apply parse_time_part_np|]. intros [d x] _.
  apply npr_bind; [apply time_from_nanos_np|]. intros tm _.
  destruct (pt_offset x); [|npr_auto]. apply npr_bind; [apply offset_from_seconds_np|]. intros o _. apply time_as_offset_np.
Qed.

Lemma try_remove_np d n o : npr (try_remove_offset_from_dn d n o).
Proof. unfold try_remove_offset_from_dn, nanos_to_days_nanos. cbv zeta. destruct (in_i32b _); npr_auto. Qed.

Theorem dt_parse_np now s fmt : npr (dt_parse now s fmt).
Proof.
  unfold dt_parse. apply npr_bind; [apply parse_loop_np; intros; apply parse_part_np|]. intros [d x] _.
  apply npr_bind; [apply date_days_of_np|]. intros days _.
  apply npr_bind; [apply time_from_nanos_np|]. intros tm _.
  destruct (pt_offset x); [|npr_auto]. apply npr_bind; [apply offset_from_seconds_np|]. intros o _.
  apply npr_bind; [apply try_remove_np|]. intros [dd nn] _. npr_auto.
Qed.

(* ---------- Ok results are valid values ---------- *)
Lemma ErrProofs_classic y m d : (valid (y, m, d) /\ in_range (y, m, d)) \/ ~ (valid (y, m, d) /\ in_range (y, m, d)).
Proof.
  unfold valid, in_range.
  destruct (date_leb MIN_DATE (y, m, d)), (date_leb (y, m, d) MAX_DATE);
  destruct (Z.eq_dec y 0); try (right; intuition congruence);
  assert (C : (1 <= m <= 12 /\ 1 <= d <= mlen y m) \/ ~ (1 <= m <= 12 /\ 1 <= d <= mlen y m)) by lia;
  destruct C; [left | right]; intuition.
Qed.
Lemma date_to_days_in_i32 y m d n : 0 <= m -> 0 <= d -> date_to_days y m d = Ok n -> in_i32 n.
Proof.
  intros Hm Hd E. destruct (ErrProofs_classic y m d) as [[V R] | K].
  - rewrite date_to_days_ok in E by assumption. injection E as <-. apply (in_range_rd (y,m,d)); assumption.
  - destruct (date_to_days_err y m d Hm Hd K) as (a & b & c & v & E'). congruence.
Qed.
