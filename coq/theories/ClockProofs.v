(* ClockProofs.v — Time is arithmetic modulo 24 h (C08); offsets (C10); field setters on the clock (C09). *)
From Astro Require Import Base DateModel TimeModel ApiModel InstantSpec TimeProofs.

Definition D := NANOS_PER_DAY.

(* ---------- offsets on a clock value ---------- *)
Lemma add_offset_to_nanos_spec n o : 0 <= n < D -> off_ok o ->
  add_offset_to_nanos n o = (n + o * NANOS_PER_SEC) mod D.
Proof. unfold add_offset_to_nanos, off_ok, D. unfold_consts. intros. lia. Qed.
Lemma remove_offset_from_nanos_spec n o : 0 <= n < D -> off_ok o ->
  remove_offset_from_nanos n o = (n - o * NANOS_PER_SEC) mod D.
Proof. unfold remove_offset_from_nanos, off_ok, D. unfold_consts. intros. lia. Qed.
(* for any i32 offset (Offset::Fixed is a public variant) the result still lies inside the day *)
Lemma add_offset_in_day n o : 0 <= add_offset_to_nanos n o < D.
Proof. unfold add_offset_to_nanos, D. unfold_consts. lia. Qed.
Lemma remove_offset_in_day n o : 0 <= remove_offset_from_nanos n o < D.
Proof. unfold remove_offset_from_nanos, D. unfold_consts. lia. Qed.

(* ---------- C08: add/sub and the operators ---------- *)
Theorem c08_add u t n : 0 <= tm_nanos t < D ->
  tm_nanos (time_add u t n) = (tm_nanos t + n * unit_nanos u) mod D /\ tm_off (time_add u t n) = tm_off t
  /\ 0 <= tm_nanos (time_add u t n) < D.
Proof. intros H. unfold time_add, add_units, D in *. cbn [tm_nanos tm_off]. unfold_consts. repeat split; lia. Qed.
Theorem c08_sub u t n : 0 <= tm_nanos t < D ->
  tm_nanos (time_sub u t n) = (tm_nanos t - n * unit_nanos u) mod D /\ tm_off (time_sub u t n) = tm_off t
  /\ 0 <= tm_nanos (time_sub u t n) < D.
Proof. intros H. unfold time_sub, sub_units, D in *. cbn [tm_nanos tm_off]. unfold_consts. repeat split; lia. Qed.
Theorem c08_add_time a b : 0 <= tm_nanos a < D -> 0 <= tm_nanos b < D ->
  tm_nanos (time_add_time a b) = (tm_nanos a + tm_nanos b) mod D /\ tm_off (time_add_time a b) = tm_off a.
Proof. intros. unfold time_add_time. cbn. split; reflexivity. Qed.
Theorem c08_sub_time a b : 0 <= tm_nanos a < D -> 0 <= tm_nanos b < D ->
  tm_nanos (time_sub_time a b) = (tm_nanos a - tm_nanos b) mod D /\ tm_off (time_sub_time a b) = tm_off a.
Proof. intros. unfold time_sub_time, D in *. cbn [tm_nanos tm_off]. unfold_consts. split; [lia | reflexivity]. Qed.
Theorem c08_add_dur a dn : 0 <= tm_nanos a < D -> 0 <= dn ->
  tm_nanos (time_add_dur a dn) = (tm_nanos a + dn) mod D /\ tm_off (time_add_dur a dn) = tm_off a.
Proof. intros. unfold time_add_dur, D in *. cbn [tm_nanos tm_off]. unfold_consts. split; [lia | reflexivity]. Qed.
Theorem c08_sub_dur a dn : 0 <= tm_nanos a < D -> 0 <= dn ->
  tm_nanos (time_sub_dur a dn) = (tm_nanos a - dn) mod D /\ tm_off (time_sub_dur a dn) = tm_off a.
Proof. intros. unfold time_sub_dur, D in *. cbn [tm_nanos tm_off]. unfold_consts. split; [lia | reflexivity]. Qed.

(* ---------- constructors accept exactly the values inside the day ---------- *)
Lemma time_to_day_seconds_ok h m s : 0 <= h <= 23 -> 0 <= m <= 59 -> 0 <= s <= 59 ->
  time_to_day_seconds h m s = Ok (h * 3600 + m * 60 + s).
Proof. intros. unfold time_to_day_seconds, validate_time. break_ifs. reflexivity. Qed.
Lemma time_to_day_seconds_err h m s :
  (23 < h -> time_to_day_seconds h m s = Err (EOor NHour 0 23 h)) /\
  (h <= 23 -> 59 < m -> time_to_day_seconds h m s = Err (EOor NMinute 0 59 m)) /\
  (h <= 23 -> m <= 59 -> 59 < s -> time_to_day_seconds h m s = Err (EOor NSecond 0 59 s)).
Proof. unfold time_to_day_seconds, validate_time. repeat split; intros; break_ifs; reflexivity. Qed.

Theorem c08_from_hms h m s : 0 <= h -> 0 <= m -> 0 <= s ->
  (h <= 23 /\ m <= 59 /\ s <= 59 -> time_from_hms h m s = Ok (mkTM ((h * 3600 + m * 60 + s) * NANOS_PER_SEC) 0)) /\
  (~ (h <= 23 /\ m <= 59 /\ s <= 59) -> exists n a b v, time_from_hms h m s = Err (EOor n a b v)).
Proof.
  intros. unfold time_from_hms. split; intros Hc.
  - rewrite time_to_day_seconds_ok by lia. reflexivity.
  - destruct (time_to_day_seconds_err h m s) as (E1 & E2 & E3).
    destruct (Z.ltb_spec 23 h); [rewrite E1 by lia; do 4 eexists; reflexivity|].
    destruct (Z.ltb_spec 59 m); [rewrite E2 by lia; do 4 eexists; reflexivity|].
    rewrite E3 by lia; do 4 eexists; reflexivity.
Qed.
Theorem c08_from_seconds s : 0 <= s ->
  (s < SECS_PER_DAY -> time_from_seconds s = Ok (mkTM (s * NANOS_PER_SEC) 0)) /\
  (SECS_PER_DAY <= s -> time_from_seconds s = Err (EOor NSeconds 0 (SECS_PER_DAY - 1) s)).
Proof. intros. unfold time_from_seconds. split; intros; break_ifs; reflexivity. Qed.
Theorem c08_from_nanos n : 0 <= n ->
  (n < D -> time_from_nanos n = Ok (mkTM n 0)) /\
  (D <= n -> time_from_nanos n = Err (EOor NNanoseconds 0 (D - 1) n)).
Proof. intros. unfold time_from_nanos, D. split; intros; break_ifs; reflexivity. Qed.

(* ---------- field setters on a clock value (shared by Time and DateTime) ---------- *)
Definition clock_fields (n : Z) : Z * Z * Z * Z :=    (* hour, minute, second, nanosecond of the second *)
  (n / NANOS_PER_HOUR, (n / NANOS_PER_MINUTE) mod 60, (n / NANOS_PER_SEC) mod 60, n mod NANOS_PER_SEC).
Definition of_fields (h m s ns : Z) : Z := (h * 3600 + m * 60 + s) * NANOS_PER_SEC + ns.

Lemma clock_fields_inj n1 n2 : 0 <= n1 < D -> 0 <= n2 < D -> clock_fields n1 = clock_fields n2 -> n1 = n2.
Proof.
  unfold clock_fields, D. unfold_consts. intros H1 H2 E. injection E as E1 E2 E3 E4. lia.
Qed.
Lemma clock_of_fields h m s ns : 0 <= h <= 23 -> 0 <= m <= 59 -> 0 <= s <= 59 -> 0 <= ns < NANOS_PER_SEC ->
  0 <= of_fields h m s ns < D /\ clock_fields (of_fields h m s ns) = (h, m, s, ns).
Proof.
  unfold clock_fields, of_fields, D. unfold_consts. intros. split; [lia|].
  repeat (f_equal; try lia).
Qed.

Lemma time_nanos_to_nanos_ok h m s n : 0 <= h <= 23 -> 0 <= m <= 59 -> 0 <= s <= 59 ->
  time_nanos_to_nanos h m s n = Ok (of_fields h m s (n mod NANOS_PER_SEC)).
Proof. intros. unfold time_nanos_to_nanos. rewrite time_to_day_seconds_ok by assumption. reflexivity. Qed.

Lemma fields_bounds n : 0 <= n < D ->
  let '(h, m, s, ns) := clock_fields n in 0 <= h <= 23 /\ 0 <= m <= 59 /\ 0 <= s <= 59 /\ 0 <= ns < NANOS_PER_SEC.
Proof. unfold clock_fields, D. unfold_consts. intros. lia. Qed.

(* set_hour / set_minute / set_second replace exactly one clock field *)
Theorem set_hour_spec n x : 0 <= n < D -> 0 <= x ->
  let '(h, m, s, ns) := clock_fields n in
  (x <= 23 -> set_hour n x = Ok (of_fields x m s ns)) /\ (23 < x -> set_hour n x = Err (EOor NValue 0 23 x)).
Proof.
  intros Hn Hx. pose proof (fields_bounds n Hn) as B. unfold clock_fields in *.
  unfold set_hour. rewrite nanos_to_time_spec by exact Hn. split; intros Hc; break_ifs; [|reflexivity].
  rewrite time_nanos_to_nanos_ok by lia. reflexivity.
Qed.
Theorem set_minute_spec n x : 0 <= n < D -> 0 <= x ->
  let '(h, m, s, ns) := clock_fields n in
  (x <= 59 -> set_minute n x = Ok (of_fields h x s ns)) /\ (59 < x -> set_minute n x = Err (EOor NValue 0 59 x)).
Proof.
  intros Hn Hx. pose proof (fields_bounds n Hn) as B. unfold clock_fields in *.
  unfold set_minute. rewrite nanos_to_time_spec by exact Hn. split; intros Hc; break_ifs; [|reflexivity].
  rewrite time_nanos_to_nanos_ok by lia. reflexivity.
Qed.
Theorem set_second_spec n x : 0 <= n < D -> 0 <= x ->
  let '(h, m, s, ns) := clock_fields n in
  (x <= 59 -> set_second n x = Ok (of_fields h m x ns)) /\ (59 < x -> set_second n x = Err (EOor NValue 0 59 x)).
Proof.
  intros Hn Hx. pose proof (fields_bounds n Hn) as B. unfold clock_fields in *.
  unfold set_second. rewrite nanos_to_time_spec by exact Hn. split; intros Hc; break_ifs; [|reflexivity].
  rewrite time_nanos_to_nanos_ok by lia. reflexivity.
Qed.
(* sub-second setters: milli replaces the millisecond digit group, micro the whole microsecond count,
   nano the whole nanosecond count, keeping what is finer than the unit *)
Theorem set_milli_spec n x : 0 <= n < D -> 0 <= x ->
  let '(h, m, s, ns) := clock_fields n in
  (x <= 999 -> set_milli n x = Ok (of_fields h m s (x * 1000000 + ns mod 1000000))) /\
  (999 < x -> set_milli n x = Err (EOor NValue 0 999 x)).
Proof.
  intros Hn Hx. unfold clock_fields, set_milli, set_subsecond_value, of_fields, D in *. unfold_consts.
  split; intros Hc; break_ifs; [|reflexivity]. f_equal. lia.
Qed.
Theorem set_micro_spec n x : 0 <= n < D -> 0 <= x ->
  let '(h, m, s, ns) := clock_fields n in
  (x <= 999999 -> set_micro n x = Ok (of_fields h m s (x * 1000 + ns mod 1000))) /\
  (999999 < x -> set_micro n x = Err (EOor NValue 0 999999 x)).
Proof.
  intros Hn Hx. unfold clock_fields, set_micro, set_subsecond_value, of_fields, D in *. unfold_consts.
  split; intros Hc; break_ifs; [|reflexivity]. f_equal. lia.
Qed.
Theorem set_nano_spec n x : 0 <= n < D -> 0 <= x ->
  let '(h, m, s, ns) := clock_fields n in
  (x <= 999999999 -> set_nano n x = Ok (of_fields h m s x)) /\
  (999999999 < x -> set_nano n x = Err (EOor NValue 0 999999999 x)).
Proof.
  intros Hn Hx. unfold clock_fields, set_nano, set_subsecond_value, of_fields, D in *. unfold_consts.
  split; intros Hc; break_ifs; [|reflexivity]. f_equal. lia.
Qed.

(* ---------- C08: the day invariant over every history of public operations ---------- *)
Inductive tfield := FHour | FMinute | FSecond | FMilli | FMicro | FNano.
Inductive time_op :=
| TFromHms (h m s : Z) | TFromSeconds (s : Z) | TFromNanos (n : Z)
| TAdd (u : tunit) (n : Z) | TSub (u : tunit) (n : Z)
| TSet (field : tfield) (x : Z) | TClear (which : tfield)
| TAddTime (n o : Z) | TSubTime (n o : Z) | TAddDur (dn : Z) | TSubDur (dn : Z)
| TSetOffset (o : Z) | TAsOffset (o : Z)
| TOfDt (d n o : Z).

(* operands the type system or the invariant already constrains *)
Definition op_wf (op : time_op) : Prop :=
  match op with
  | TAddTime n _ | TSubTime n _ => 0 <= n < D
  | TOfDt _ n _ => 0 <= n < D
  | TFromHms h m s => 0 <= h /\ 0 <= m /\ 0 <= s
  | TFromSeconds s => 0 <= s
  | TFromNanos n => 0 <= n
  | _ => True
  end.

Definition time_step (t : TM) (op : time_op) : res TM :=
  match op with
  | TFromHms h m s => time_from_hms h m s
  | TFromSeconds s => time_from_seconds s
  | TFromNanos n => time_from_nanos n
  | TAdd u n => Ok (time_add u t n)
  | TSub u n => Ok (time_sub u t n)
  | TSet f x => match f with FHour => time_set_hour t x | FMinute => time_set_minute t x | FSecond => time_set_second t x
                           | FMilli => time_set_milli t x | FMicro => time_set_micro t x | FNano => time_set_nano t x end
  | TClear w => match w with FHour => time_clear_until_hour t | FMinute => time_clear_until_minute t | FSecond => time_clear_until_second t
                           | FMilli => time_clear_until_milli t | FMicro => time_clear_until_micro t | FNano => time_clear_until_nano t end
  | TAddTime n o => Ok (time_add_time t (mkTM n o))
  | TSubTime n o => Ok (time_sub_time t (mkTM n o))
  | TAddDur dn => Ok (time_add_dur t dn)
  | TSubDur dn => Ok (time_sub_dur t dn)
  | TSetOffset o => Ok (time_set_offset t o)
  | TAsOffset o => time_as_offset t o
  | TOfDt d n o => Ok (time_of_dt (mkDT d n o))
  end.
(* an Err leaves the caller with the value it had *)
Definition time_run_step (t : TM) (op : time_op) : TM := match time_step t op with Ok t' => t' | _ => t end.

Definition in_day (t : TM) : Prop := 0 <= tm_nanos t < D.

Lemma time_set_with_in_day f t x t' : time_set_with f t x = Ok t' -> in_day t'.
Proof.
  unfold time_set_with. destruct (f _ x) as [n'| |]; cbn [bind]; intros E; try discriminate.
  injection E as <-. apply remove_offset_in_day.
Qed.
Lemma time_clear_with_in_day f t t' : time_clear_with f t = Ok t' -> in_day t'.
Proof.
  unfold time_clear_with. destruct (f _) as [n'| |]; cbn [bind]; intros E; try discriminate.
  injection E as <-. apply remove_offset_in_day.
Qed.

Lemma time_step_in_day t op t' : in_day t -> op_wf op -> time_step t op = Ok t' -> in_day t'.
Proof.
  intros I W E. destruct op; cbn [time_step op_wf] in *.
  - unfold time_from_hms, time_to_day_seconds, validate_time in E.
    destruct (Z.ltb_spec 23 h); [discriminate|]. destruct (Z.ltb_spec 59 m); [discriminate|].
    destruct (Z.ltb_spec 59 s); [discriminate|]. cbn [bind] in E. injection E as <-.
    unfold in_day, D. cbn [tm_nanos]. unfold_consts. lia.
  - unfold time_from_seconds in E. destruct (Z.leb_spec SECS_PER_DAY s); [discriminate|]. injection E as <-.
    unfold in_day, D. cbn [tm_nanos]. unfold_consts. lia.
  - unfold time_from_nanos in E. destruct (Z.leb_spec NANOS_PER_DAY n); [discriminate|]. injection E as <-.
    unfold in_day, D. cbn [tm_nanos]. lia.
  - injection E as <-. apply (c08_add u t n I).
  - injection E as <-. apply (c08_sub u t n I).
  - destruct field; eapply time_set_with_in_day; exact E.
  - destruct which; try (eapply time_clear_with_in_day; exact E).
    unfold time_clear_until_hour in E; injection E as <-; apply remove_offset_in_day.
  - injection E as <-. unfold in_day, time_add_time, D. cbn [tm_nanos]. unfold_consts. lia.
  - injection E as <-. unfold in_day, time_sub_time, D. cbn [tm_nanos]. unfold_consts. lia.
  - injection E as <-. unfold in_day, time_add_dur, D. cbn [tm_nanos]. unfold_consts. lia.
  - injection E as <-. unfold in_day, time_sub_dur, D. cbn [tm_nanos]. unfold_consts. lia.
  - injection E as <-. exact I.
  - unfold time_as_offset, time_from_nanos in E.
    pose proof (remove_offset_in_day (tm_nanos t) o) as R. unfold D in R.
    destruct (Z.leb_spec NANOS_PER_DAY (remove_offset_from_nanos (tm_nanos t) o)); [lia|].
    cbn [unwrap bind] in E. injection E as <-. unfold in_day, time_set_offset, D. cbn [tm_nanos]. lia.
  - injection E as <-. unfold in_day, time_of_dt, D. cbn [tm_nanos]. unfold_consts. lia.
Qed.

Theorem c08_history ops : Forall op_wf ops ->
  in_day (fold_left time_run_step ops (mkTM 0 0)).
Proof.
  assert (G : forall t, in_day t -> Forall op_wf ops -> in_day (fold_left time_run_step ops t)).
  { induction ops as [|op ops IH]; intros t I W; cbn [fold_left]; [exact I|].
    inversion W as [|? ? Wop Wops]; subst. apply IH; [|exact Wops].
    unfold time_run_step. destruct (time_step t op) as [t'| |] eqn:E; try exact I.
    eapply time_step_in_day; eassumption. }
  intros W. apply G; [|exact W]. unfold in_day, D. cbn. unfold_consts. lia.
Qed.

(* one canonical value per time of day: equal fields under offset 0 means equal Times *)
Theorem c08_canonical a b : in_day a -> in_day b -> clock_fields (tm_nanos a) = clock_fields (tm_nanos b) ->
  tm_nanos a = tm_nanos b.
Proof. intros. apply clock_fields_inj; assumption. Qed.
