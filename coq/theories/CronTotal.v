(* CronTotal.v — C17, the missing half: a call of CronSchedule::next on a schedule that has a matching minute ahead
   (at least a month before the end of the representable range) returns, and does not panic. *)
From Astro Require Import Base Text CalSpec DateModel TimeModel ApiModel InstantSpec DateProofs WeekProofs MonthProofs
  TimeProofs ClockProofs OffsetProofs CronModel CronIterProofs.

(* ---------- the four jumps succeed when their target is representable ---------- *)
Lemma inst_of_day d n : in_i32 d -> 0 <= n < NANOS_PER_DAY -> inst_in_range (d * NANOS_PER_DAY + n).
Proof. unfold in_i32, inst_in_range, MIN_I, MAX_I, NANOS_PER_DAY, I32_MIN, I32_MAX. lia. Qed.

Lemma add_minute_clear_ok d mi : in_i32 d -> 0 <= mi < 1440 -> (mi + 1 < 1440 \/ in_i32 (d + 1)) ->
  exists r, (let? a := dt_add UMinute (mkmin d mi) 1 in dt_clear_until_second a) = Ok r.
Proof.
  intros Hd Hmi Hn. unfold dt_add, add_units, unit_nanos, mkmin. cbn [dt_days dt_nanos].
  set (t := d * NANOS_PER_DAY + (mi * NPM + 1 * NANOS_PER_MINUTE)).
  assert (Rt : inst_in_range t).
  { subst t. unfold NPM. destruct (Z.ltb_spec (mi + 1) 1440) as [Hlt | Hge]; [|destruct Hn as [Hn | Hn]; [lia|]].
    - replace (d * NANOS_PER_DAY + (mi * NANOS_PER_MINUTE + 1 * NANOS_PER_MINUTE)) with (d * NANOS_PER_DAY + (mi + 1) * NANOS_PER_MINUTE) by (unfold NANOS_PER_MINUTE; lia).
      apply inst_of_day; [exact Hd | unfold NANOS_PER_DAY, NANOS_PER_MINUTE; lia].
    - assert (mi = 1439) by lia. subst mi.
      replace (d * NANOS_PER_DAY + (1439 * NANOS_PER_MINUTE + 1 * NANOS_PER_MINUTE)) with ((d + 1) * NANOS_PER_DAY + 0) by (unfold NANOS_PER_DAY, NANOS_PER_MINUTE; lia).
      apply inst_of_day; [exact Hn | unfold NANOS_PER_DAY; lia]. }
  rewrite dt_of_total_ok by exact Rt. cbn [bind dt_off]. destruct (split_instant t Rt) as (_ & Hi & Hr).
  rewrite clear_until_second_utc by assumption. eexists. reflexivity.
Qed.
Lemma add_hour_clear_ok d mi : in_i32 d -> 0 <= mi < 1440 -> (mi / 60 + 1 < 24 \/ in_i32 (d + 1)) ->
  exists r, (let? a := dt_add UHour (mkmin d mi) 1 in dt_clear_until_minute a) = Ok r.
Proof.
  intros Hd Hmi Hn. unfold dt_add, add_units, unit_nanos, mkmin. cbn [dt_days dt_nanos].
  set (t := d * NANOS_PER_DAY + (mi * NPM + 1 * NANOS_PER_HOUR)).
  assert (Rt : inst_in_range t).
  { subst t. unfold NPM. destruct (Z.ltb_spec (mi / 60 + 1) 24).
    - apply inst_of_day; [exact Hd | unfold NANOS_PER_DAY, NANOS_PER_MINUTE, NANOS_PER_HOUR; lia].
    - destruct Hn as [Hn | Hn]; [lia|].
      replace (d * NANOS_PER_DAY + (mi * NANOS_PER_MINUTE + 1 * NANOS_PER_HOUR)) with ((d + 1) * NANOS_PER_DAY + (mi - 1380) * NANOS_PER_MINUTE)
        by (unfold NANOS_PER_DAY, NANOS_PER_MINUTE, NANOS_PER_HOUR; lia).
      apply inst_of_day; [exact Hn | unfold NANOS_PER_DAY, NANOS_PER_MINUTE; lia]. }
  rewrite dt_of_total_ok by exact Rt. cbn [bind dt_off]. destruct (split_instant t Rt) as (_ & Hi & Hr).
  rewrite clear_until_minute_utc by assumption. eexists. reflexivity.
Qed.
Lemma add_day_clear_ok d mi : in_i32 d -> 0 <= mi < 1440 -> in_i32 (d + 1) ->
  exists r, (let? a := dt_add_days (mkmin d mi) 1 in dt_clear_until_hour a) = Ok r.
Proof.
  intros Hd Hmi Hn. unfold dt_add_days, dt_keep, add_days, mkmin. cbn [dt_days dt_nanos dt_off].
  assert (E : in_i32b (d + 1) = true) by (apply in_i32b_iff; exact Hn). rewrite E. cbn [unwrap bind].
  rewrite clear_until_hour_utc; [|exact Hn | apply (mkmin_facts d mi Hd Hmi)]. eexists. reflexivity.
Qed.
Lemma month_jump_ok d mi : in_i32 d -> 0 <= mi < 1440 ->
  (let '(y, m, dd) := days_to_date d in in_i32 (rd (y, m, 1) + mlen y m + 30)) ->
  exists r, (let? a := dt_add_months (mkmin d mi) 1 in dt_clear_until_day a) = Ok r.
Proof.
  intros Hd Hmi Hn. destruct (days_to_date_rd d) as [V Erd]. pose proof (shift_months_spec d 1) as S. cbv zeta in S.
  unfold dt_add_months, dt_keep. rewrite add_months_model. cbn [dt_days dt_nanos dt_off mkmin].
  destruct (days_to_date d) as [[y m] dd] eqn:Ed. destruct V as (Hy & Hm & Hdd).
  pose proof (rd_next_month y m Hy Hm) as N.
  set (t := add_months_spec (y, m, dd) 1) in *.
  assert (Vt : valid t) by (apply add_months_valid; unfold valid; tauto).
  unfold t, add_months_spec in Vt, S |- *. destruct (of_month_index (month_index y m + 1)) as [y' m'] eqn:Eo. destruct N as [N Vn].
  assert (Ed1 : d = rd (y, m, 1) + dd - 1) by (rewrite <- Erd; unfold rd; lia).
  set (dd' := Z.min dd (mlen y' m')) in *.
  assert (Ert : rd (y', m', dd') = rd (y', m', 1) + dd' - 1) by (unfold rd; lia).
  destruct Vt as (Vy' & Vm' & Vd'). pose proof (mlen_bounds y' m') as ML'.
  assert (Rt : in_range (y', m', dd')).
  { apply in_range_rd; [unfold valid; tauto|]. rewrite Ert, N. unfold in_i32 in *. lia. }
  rewrite (proj1 S Rt). cbn [unwrap bind].
  assert (Hd1 : in_i32 (rd (y', m', dd'))) by (apply in_range_rd; [unfold valid; tauto | exact Rt]).
  unfold dt_clear_until_day. rewrite dt_local_utc; [| exact Hd1 | apply (mkmin_facts d mi Hd Hmi)]. cbn [bind dt_off].
  assert (Et : days_to_date (rd (y', m', dd')) = (y', m', dd')) by (destruct (days_to_date_rd (rd (y', m', dd'))) as [V' E']; apply rd_inj; [exact V' | unfold valid; tauto | exact E']).
  rewrite Et.
  assert (R1 : in_range (y', m', 1)) by (apply in_range_rd; [exact Vn|]; rewrite N; unfold in_i32 in *; pose proof (mlen_bounds y m); lia).
  rewrite date_to_days_ok by assumption. cbn [unwrap bind].
  assert (Hi : in_i32 (rd (y', m', 1))) by (apply in_range_rd; assumption).
  rewrite remove_offset_utc; [| exact Hi | unfold D, NANOS_PER_DAY; lia]. cbn [bind]. eexists. reflexivity.
Qed.

(* ---------- one pass of the loop does not fail while a matching minute lies ahead ---------- *)
Theorem body_total s domr dowr d mi e ms : in_i32 d -> 0 <= mi < 1440 -> 0 <= ms < 1440 -> in_i32 (e + 31) ->
  idx d mi <= idx e ms -> m_matches s domr dowr e ms = true ->
  exists res, cron_body s domr dowr (mkmin d mi) = Ok res.
Proof.
  intros Hd Hmi Hms He Hle Hmatch. unfold idx in Hle. assert (Hed : d <= e) by lia.
  unfold m_matches in Hmatch. rewrite !andb_true_iff, negb_true_iff in Hmatch. destruct Hmatch as (((Mm & Md) & Mh) & Mn).
  unfold cron_body. rewrite (get_month d mi Hd Hmi). cbn [bind].
  destruct (contains_v (s_mon s) (wrap_u8 (snd (fst (days_to_date d))))) eqn:Emon; cbn [negb].
  2:{ pose proof (same_month d) as SM. destruct (days_to_date_rd d) as [V Erd].
      assert (J : exists r, (let? a := dt_add_months (mkmin d mi) 1 in dt_clear_until_day a) = Ok r).
      { apply month_jump_ok; [exact Hd | exact Hmi|]. destruct (days_to_date d) as [[y m] dd] eqn:Ed. destruct V as (Hy & Hm & Hdd).
        assert (Ed1 : d = rd (y, m, 1) + dd - 1) by (rewrite <- Erd; unfold rd; lia).
        assert (Hnext : rd (y, m, 1) + mlen y m <= e).
        { destruct (Z.le_gt_cases (rd (y, m, 1) + mlen y m) e) as [H | H]; [exact H|]. exfalso.
          specialize (SM e ltac:(lia)). unfold m_month in Mm. rewrite SM in Mm. cbn [fst snd] in Mm, Emon. unfold contains_v in Emon. congruence. }
        pose proof (mlen_bounds y m). unfold in_i32 in *. lia. }
      destruct J as [r J]. destruct (dt_add_months (mkmin d mi) 1) as [a| |]; cbn [bind] in J |- *; try discriminate. rewrite J. eexists. reflexivity. }
  rewrite (get_day d mi Hd Hmi), (get_weekday d mi Hd Hmi). cbn [bind]. cbv zeta. unfold contains_v.
  match goal with |- context [if ?c then (let? a := dt_add_days _ 1 in _) else _] => change c with (m_daybad s domr dowr d) end.
  destruct (m_daybad s domr dowr d) eqn:Eday.
  { assert (Hn : in_i32 (d + 1)).
    { assert (e <> d) by (intros ->; congruence). unfold in_i32 in *. lia. }
    destruct (add_day_clear_ok d mi Hd Hmi Hn) as [r J].
    destruct (dt_add_days (mkmin d mi) 1) as [a| |]; cbn [bind] in J |- *; try discriminate. rewrite J. eexists. reflexivity. }
  rewrite (get_hour d mi Hd Hmi). cbn [bind].
  destruct (mem (wrap_u8 (mi / 60)) (s_hour s)) eqn:Ehour; cbn [negb].
  2:{ assert (Hn : mi / 60 + 1 < 24 \/ in_i32 (d + 1)).
      { destruct (Z.ltb_spec (mi / 60 + 1) 24); [left; assumption | right].
        assert (e <> d). { intros ->. unfold m_hour in Mh. assert (ms / 60 = mi / 60) by lia. congruence. }
        unfold in_i32 in *. lia. }
      destruct (add_hour_clear_ok d mi Hd Hmi Hn) as [r J].
      destruct (dt_add UHour (mkmin d mi) 1) as [a| |]; cbn [bind] in J |- *; try discriminate. rewrite J. eexists. reflexivity. }
  rewrite (get_minute d mi Hd Hmi). cbn [bind].
  destruct (mem (wrap_u8 (mi mod 60)) (s_min s)) eqn:Emin; cbn [negb].
  2:{ assert (Hn : mi + 1 < 1440 \/ in_i32 (d + 1)).
      { destruct (Z.ltb_spec (mi + 1) 1440); [left; assumption | right].
        assert (e <> d). { intros ->. unfold m_minute in Mn. assert (ms = mi) by lia. subst ms. congruence. }
        unfold in_i32 in *. lia. }
      destruct (add_minute_clear_ok d mi Hd Hmi Hn) as [r J].
      destruct (dt_add UMinute (mkmin d mi) 1) as [a| |]; cbn [bind] in J |- *; try discriminate. rewrite J. eexists. reflexivity. }
  eexists. reflexivity.
Qed.

(* ---------- the loop returns: at most one pass per minute up to the match ---------- *)
Theorem loop_total s domr dowr e ms : 0 <= ms < 1440 -> in_i32 (e + 31) -> m_matches s domr dowr e ms = true ->
  forall fuel d mi, in_i32 d -> 0 <= mi < 1440 -> idx d mi <= idx e ms -> (Z.to_nat (idx e ms - idx d mi) < fuel)%nat ->
  exists r, cron_loop fuel s domr dowr (mkmin d mi) = Ok (Some r).
Proof.
  intros Hms He Hmatch. induction fuel as [|fuel IH]; intros d mi Hd Hmi Hle Hf; [lia|].
  cbn [cron_loop]. destruct (body_total s domr dowr d mi e ms Hd Hmi Hms He Hle Hmatch) as [res Eb].
  pose proof (body_spec s domr dowr d mi Hd Hmi) as B. rewrite Eb in B |- *. cbn [bind]. destruct res as [found | later].
  - eexists. reflexivity.
  - destruct B as (d1 & mi1 & -> & Hd1 & Hmi1 & Hlt & Hno).
    assert (Hle1 : idx d1 mi1 <= idx e ms).
    { destruct (Z.le_gt_cases (idx d1 mi1) (idx e ms)) as [H | H]; [exact H|]. exfalso.
      specialize (Hno e ms Hms ltac:(lia)). congruence. }
    apply IH; [exact Hd1 | exact Hmi1 | exact Hle1 | lia].
Qed.

(* ---------- a call of next() returns when a matching minute lies ahead ---------- *)
Theorem next_total fuel s last now e ms :
  in_i32 (dt_days now) -> 0 <= dt_nanos now < D -> dt_off now = 0 -> last_ok last ->
  0 <= ms < 1440 -> in_i32 (e + 31) -> sched_matches s e ms = true -> base_idx last now < idx e ms ->
  (Z.to_nat (idx e ms - base_idx last now) <= fuel)%nat ->
  exists r, cron_next fuel s last now = Ok (Some r).
Proof.
  intros Hd Hn Ho HL Hms He Hmatch Hlt Hf. destruct now as [dn nn on]. cbn [dt_days dt_nanos dt_off] in *. subst on.
  unfold cron_next. rewrite clear_until_second_utc by assumption. cbn [bind].
  assert (Hm : 0 <= nn / NPM < 1440) by (revert Hn; unfold D, NPM, NANOS_PER_DAY, NANOS_PER_MINUTE; lia).
  change (mkDT dn (nn / NPM * NPM) 0) with (mkmin dn (nn / NPM)).
  fold (dom_restricted s) (dow_restricted s).
  assert (Hbase : exists db mb, in_i32 db /\ 0 <= mb < 1440 /\ idx db mb = base_idx last (mkDT dn nn 0) /\
     (match last with
      | Some l => if dt_as_nanos (mkmin dn (nn / NPM)) <=? dt_as_nanos l then l else mkmin dn (nn / NPM)
      | None => mkmin dn (nn / NPM) end) = mkmin db mb).
  { unfold base_idx, last_idx. cbn [dt_days dt_nanos]. destruct last as [l|].
    - destruct HL as (dl & ml & -> & Hdl & Hml). rewrite !dt_as_nanos_instant. unfold instant, mkmin. cbn [dt_days dt_nanos].
      assert (El : ml * NPM / NPM = ml) by (unfold NPM, NANOS_PER_MINUTE; lia). rewrite El.
      destruct (Z.leb_spec (dn * NANOS_PER_DAY + nn / NPM * NPM) (dl * NANOS_PER_DAY + ml * NPM)) as [Hc | Hc].
      + exists dl, ml. split; [exact Hdl|]. split; [exact Hml|]. split; [|reflexivity].
        revert Hc. unfold idx, NPM, NANOS_PER_DAY, NANOS_PER_MINUTE. lia.
      + exists dn, (nn / NPM). split; [exact Hd|]. split; [exact Hm|]. split; [|reflexivity].
        revert Hc. unfold idx, NPM, NANOS_PER_DAY, NANOS_PER_MINUTE. lia.
    - exists dn, (nn / NPM). split; [exact Hd|]. split; [exact Hm|]. split; reflexivity. }
  destruct Hbase as (db & mb & Hdb & Hmb & Eb & ->). rewrite <- Eb in Hlt, Hf. unfold idx in Hlt.
  assert (Hnext : mb + 1 < 1440 \/ in_i32 (db + 1)).
  { destruct (Z.ltb_spec (mb + 1) 1440); [left; assumption | right]. unfold in_i32 in *. lia. }
  (* the first candidate: one minute after the base *)
  assert (Ea : exists nx, dt_add UMinute (mkmin db mb) 1 = Ok nx).
  { destruct (add_minute_clear_ok db mb Hdb Hmb Hnext) as [r J]. destruct (dt_add UMinute (mkmin db mb) 1) as [a| |]; cbn [bind] in J; try discriminate. eexists. reflexivity. }
  destruct Ea as [nx Ea]. rewrite Ea. cbn [bind]. destruct (add_minute_utc db mb nx Hdb Hmb Ea) as [-> Hi].
  unfold sched_matches in Hmatch.
  destruct (Z.ltb_spec (mb + 1) 1440).
  - apply (loop_total s _ _ e ms Hms He Hmatch fuel db (mb + 1) Hdb ltac:(lia)); unfold idx in *; lia.
  - cbn [dt_days mkmin] in Hi. apply (loop_total s _ _ e ms Hms He Hmatch fuel (db + 1) 0 Hi ltac:(lia)); unfold idx in *; lia.
Qed.
