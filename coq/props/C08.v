(* C08 — clock time is arithmetic modulo 24 h with one canonical value per time of day. *)
From Astro Require Import Base Text DateModel TimeModel ApiModel InstantSpec TimeProofs ClockProofs FormatModel ParseModel TextProofs.

(* every Time obtainable through any history of public operations lies inside the day
   (fold over the operation list; op_wf only records what the argument types guarantee) *)
Theorem C08_history : forall ops, Forall op_wf ops -> in_day (fold_left time_run_step ops (mkTM 0 0)).
Proof. exact c08_history. Qed.
Theorem C08_canonical : forall a b, in_day a -> in_day b ->
  clock_fields (tm_nanos a) = clock_fields (tm_nanos b) -> tm_nanos a = tm_nanos b.
Proof. exact c08_canonical. Qed.
(* add_/sub_ of any count: (t +/- n*unit) mod 24 h, offset kept, no panic (total functions) *)
Theorem C08_add : forall u t n, 0 <= tm_nanos t < D ->
  tm_nanos (time_add u t n) = (tm_nanos t + n * unit_nanos u) mod D /\ tm_off (time_add u t n) = tm_off t
  /\ 0 <= tm_nanos (time_add u t n) < D.
Proof. exact c08_add. Qed.
Theorem C08_sub : forall u t n, 0 <= tm_nanos t < D ->
  tm_nanos (time_sub u t n) = (tm_nanos t - n * unit_nanos u) mod D /\ tm_off (time_sub u t n) = tm_off t
  /\ 0 <= tm_nanos (time_sub u t n) < D.
Proof. exact c08_sub. Qed.
Theorem C08_add_time : forall a b, 0 <= tm_nanos a < D -> 0 <= tm_nanos b < D ->
  tm_nanos (time_add_time a b) = (tm_nanos a + tm_nanos b) mod D /\ tm_off (time_add_time a b) = tm_off a.
Proof. exact c08_add_time. Qed.
Theorem C08_sub_time : forall a b, 0 <= tm_nanos a < D -> 0 <= tm_nanos b < D ->
  tm_nanos (time_sub_time a b) = (tm_nanos a - tm_nanos b) mod D /\ tm_off (time_sub_time a b) = tm_off a.
Proof. exact c08_sub_time. Qed.
Theorem C08_add_dur : forall a dn, 0 <= tm_nanos a < D -> 0 <= dn ->
  tm_nanos (time_add_dur a dn) = (tm_nanos a + dn) mod D /\ tm_off (time_add_dur a dn) = tm_off a.
Proof. exact c08_add_dur. Qed.
Theorem C08_sub_dur : forall a dn, 0 <= tm_nanos a < D -> 0 <= dn ->
  tm_nanos (time_sub_dur a dn) = (tm_nanos a - dn) mod D /\ tm_off (time_sub_dur a dn) = tm_off a.
Proof. exact c08_sub_dur. Qed.
(* constructors accept exactly the values inside the day *)
Theorem C08_from_hms : forall h m s, 0 <= h -> 0 <= m -> 0 <= s ->
  (h <= 23 /\ m <= 59 /\ s <= 59 -> time_from_hms h m s = Ok (mkTM ((h * 3600 + m * 60 + s) * NANOS_PER_SEC) 0)) /\
  (~ (h <= 23 /\ m <= 59 /\ s <= 59) -> exists n a b v, time_from_hms h m s = Err (EOor n a b v)).
Proof. exact c08_from_hms. Qed.
Theorem C08_from_seconds : forall s, 0 <= s ->
  (s < SECS_PER_DAY -> time_from_seconds s = Ok (mkTM (s * NANOS_PER_SEC) 0)) /\
  (SECS_PER_DAY <= s -> time_from_seconds s = Err (EOor NSeconds 0 (SECS_PER_DAY - 1) s)).
Proof. exact c08_from_seconds. Qed.
Theorem C08_from_nanos : forall n, 0 <= n ->
  (n < D -> time_from_nanos n = Ok (mkTM n 0)) /\ (D <= n -> time_from_nanos n = Err (EOor NNanoseconds 0 (D - 1) n)).
Proof. exact c08_from_nanos. Qed.

(* "every Time obtainable through the public API": the two text entry points as well — whatever the input and the
   pattern, an Ok of Time::parse / Time::from_str is a time of day inside the day with an offset inside +-24 h *)
Theorem C08_from_text : forall s fmt,
  (forall t, time_parse s fmt = Ok t -> Inv_tm t) /\ (forall t, time_from_str s = Ok t -> Inv_tm t).
Proof. intros s fmt. exact (conj (time_parse_valid s fmt) (time_parse_valid s P_TIME)). Qed.

Example C08_nonvacuous :
  Forall op_wf [TFromHms 23 59 59; TAdd UHour 4294967295; TSubTime 86399999999999 3600; TSet FHour 25; TAsOffset (-86399)].
Proof. repeat constructor; cbn; unfold D, NANOS_PER_DAY; lia. Qed.

Print Assumptions C08_history.
Print Assumptions C08_canonical.
Print Assumptions C08_add.
Print Assumptions C08_sub.
Print Assumptions C08_add_time.
Print Assumptions C08_sub_time.
Print Assumptions C08_add_dur.
Print Assumptions C08_sub_dur.
Print Assumptions C08_from_hms.
Print Assumptions C08_from_seconds.
Print Assumptions C08_from_nanos.
Print Assumptions C08_from_text.
