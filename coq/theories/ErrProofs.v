(* ErrProofs.v — C15: fallible constructors accept exactly the valid inputs; a range stated by an
   OutOfRange error contains every accepted value of that parameter and excludes the rejected one. *)
From Astro Require Import Base CalSpec DateModel TimeModel ApiModel InstantSpec DateProofs TimeProofs ClockProofs.

Definition date_ok (y m d : Z) : Prop := valid (y, m, d) /\ in_range (y, m, d).

Lemma classic_date y m d : date_ok y m d \/ ~ date_ok y m d.
Proof.
  unfold date_ok, valid, in_range.
  destruct (date_leb MIN_DATE (y, m, d)), (date_leb (y, m, d) MAX_DATE);
  destruct (Z.eq_dec y 0); try (right; intuition congruence);
  assert (C : (1 <= m <= 12 /\ 1 <= d <= mlen y m) \/ ~ (1 <= m <= 12 /\ 1 <= d <= mlen y m)) by lia;
  destruct C; [left | right]; intuition.
Qed.

Lemma date_to_days_ok_iff y m d : 0 <= m -> 0 <= d -> (is_ok (date_to_days y m d) = true <-> date_ok y m d).
Proof.
  intros Hm Hd. split.
  - intros H. destruct (classic_date y m d) as [K | K]; [exact K|].
    destruct (date_to_days_err y m d Hm Hd K) as (n & a & b & v & E). rewrite E in H. discriminate.
  - intros [V R]. rewrite date_to_days_ok by assumption. reflexivity.
Qed.

Lemma in_range_facts y m d : in_range (y, m, d) ->
  MIN_Y <= y <= MAX_Y /\ (y = MIN_Y -> MIN_M <= m /\ (m = MIN_M -> MIN_D <= d)) /\
  (y = MAX_Y -> m <= MAX_M /\ (m = MAX_M -> d <= MAX_D)).
Proof. unfold in_range, date_leb, MIN_DATE, MAX_DATE, MIN_Y, MAX_Y, MIN_M, MAX_M, MIN_D, MAX_D. lia. Qed.

Theorem date_err_brackets y m d n a b v : 0 <= m -> 0 <= d ->
  date_to_days y m d = Err (EOor n a b v) -> n <> NYearZero ->
  ~ (a <= v <= b) /\
  ((n = NYear /\ v = y /\ forall y2, date_ok y2 m d -> a <= y2 <= b) \/
   (n = NMonth /\ v = m /\ forall m2, date_ok y m2 d -> a <= m2 <= b) \/
   (n = NDay /\ v = d /\ forall d2, date_ok y m d2 -> a <= d2 <= b)).
Proof.
  intros Hm Hd E Hn. unfold date_to_days, validate_date in E.
  assert (Fy : forall y2 m2 d2, date_ok y2 m2 d2 ->
            MIN_Y <= y2 <= MAX_Y /\ (y2 = MIN_Y -> MIN_M <= m2 /\ (m2 = MIN_M -> MIN_D <= d2)) /\
            (y2 = MAX_Y -> m2 <= MAX_M /\ (m2 = MAX_M -> d2 <= MAX_D)) /\ 1 <= m2 <= 12 /\ 1 <= d2 <= mlen y2 m2).
  { intros y2 m2 d2 [(Hv1 & Hv2 & Hv3) R]. pose proof (in_range_facts _ _ _ R). tauto. }
  assert (M30 : mlen MIN_Y MIN_M = 30) by reflexivity.
  destruct (Z.eqb_spec y 0). { cbn [bind] in E. injection E as <- _ _ _. congruence. }
  destruct (Z.ltb_spec y MIN_Y). { cbn [bind] in E. injection E as <- <- <- <-. split; [lia|]. left. repeat split; try reflexivity; apply (Fy y2 m d H0). }
  destruct ((y =? MIN_Y) && (m <? MIN_M)) eqn:C1.
  { cbn [bind] in E. injection E as <- <- <- <-. apply andb_true_iff in C1 as [C1 C1']. apply Z.eqb_eq in C1. apply Z.ltb_lt in C1'. subst y.
    split; [lia|]. right. left. repeat split; try reflexivity; pose proof (Fy _ _ _ H0); lia. }
  destruct ((y =? MIN_Y) && (m =? MIN_M) && (d <? MIN_D)) eqn:C2.
  { cbn [bind] in E. injection E as <- <- <- <-. rewrite !andb_true_iff in C2. destruct C2 as [[C2 C2'] C2''].
    apply Z.eqb_eq in C2, C2'. apply Z.ltb_lt in C2''. subst y m.
    split; [unfold MIN_D in *; lia|]. right. right. repeat split; try reflexivity; pose proof (Fy _ _ _ H0); unfold MIN_D in *; lia. }
  destruct (Z.ltb_spec MAX_Y y). { cbn [bind] in E. injection E as <- <- <- <-. split; [lia|]. left. repeat split; try reflexivity; apply (Fy y2 m d H1). }
  destruct ((y =? MAX_Y) && (MAX_M <? m)) eqn:C3.
  { cbn [bind] in E. injection E as <- <- <- <-. apply andb_true_iff in C3 as [C3 C3']. apply Z.eqb_eq in C3. apply Z.ltb_lt in C3'. subst y.
    split; [lia|]. right. left. repeat split; try reflexivity; pose proof (Fy _ _ _ H1); lia. }
  destruct ((y =? MAX_Y) && (m =? MAX_M) && (MAX_D <? d)) eqn:C4.
  { cbn [bind] in E. injection E as <- <- <- <-. rewrite !andb_true_iff in C4. destruct C4 as [[C4 C4'] C4''].
    apply Z.eqb_eq in C4, C4'. apply Z.ltb_lt in C4''. subst y m.
    split; [lia|]. right. right. repeat split; try reflexivity; pose proof (Fy _ _ _ H1); lia. }
  cbn [bind] in E.
  assert (Cm : 1 <= m <= 12 \/ ~ (1 <= m <= 12)) by lia. destruct Cm as [Cm | Cm].
  - rewrite year_month_to_doy_ok in E by exact Cm. cbn [bind] in E.
    destruct ((mlen y m <? d) || (d =? 0)) eqn:C5; [|discriminate]. injection E as <- <- <- <-.
    split; [lia|]. right. right. repeat split; try reflexivity; pose proof (Fy _ _ _ H1); lia.
  - rewrite year_month_to_doy_err in E by exact Cm. cbn [bind] in E. injection E as <- <- <- <-.
    split; [lia|]. right. left. repeat split; try reflexivity; pose proof (Fy _ _ _ H1); lia.
Qed.

(* time of day: exact acceptance and bracketing ranges *)
Theorem time_err_brackets h m s n a b v : 0 <= h -> 0 <= m -> 0 <= s ->
  time_to_day_seconds h m s = Err (EOor n a b v) ->
  ~ (a <= v <= b) /\ a = 0 /\
  ((n = NHour /\ v = h /\ b = 23) \/ (n = NMinute /\ v = m /\ b = 59) \/ (n = NSecond /\ v = s /\ b = 59)).
Proof.
  intros Hh Hm Hs E. destruct (time_to_day_seconds_err h m s) as (E1 & E2 & E3).
  destruct (Z.ltb_spec 23 h); [rewrite E1 in E by lia; injection E as <- <- <- <-; split; [lia|]; split; [reflexivity|]; left; tauto|].
  destruct (Z.ltb_spec 59 m); [rewrite E2 in E by lia; injection E as <- <- <- <-; split; [lia|]; split; [reflexivity|]; right; left; tauto|].
  destruct (Z.ltb_spec 59 s); [rewrite E3 in E by lia; injection E as <- <- <- <-; split; [lia|]; split; [reflexivity|]; right; right; tauto|].
  rewrite time_to_day_seconds_ok in E by lia. discriminate.
Qed.

(* DateTime::from_ymdhms: Ok exactly when the date exists in range and the time fields are in range *)
Theorem from_ymdhms_exact y mo d h mi s : 0 <= mo -> 0 <= d -> 0 <= h -> 0 <= mi -> 0 <= s ->
  (date_ok y mo d /\ h <= 23 /\ mi <= 59 /\ s <= 59 ->
     dt_from_ymdhms y mo d h mi s = Ok (mkDT (rd (y, mo, d)) ((h * 3600 + mi * 60 + s) * NANOS_PER_SEC) 0)) /\
  (~ (date_ok y mo d /\ h <= 23 /\ mi <= 59 /\ s <= 59) -> exists n a b v, dt_from_ymdhms y mo d h mi s = Err (EOor n a b v)).
Proof.
  intros. unfold dt_from_ymdhms. split.
  - intros ([V R] & Hh & Hmi & Hs). rewrite date_to_days_ok by assumption. cbn [bind].
    rewrite time_to_day_seconds_ok by lia. reflexivity.
  - intros K. destruct (classic_date y mo d) as [[V R] | Kd].
    + rewrite date_to_days_ok by assumption. cbn [bind].
      destruct (time_to_day_seconds_err h mi s) as (E1 & E2 & E3).
      destruct (Z.ltb_spec 23 h); [rewrite E1 by lia; do 4 eexists; reflexivity|].
      destruct (Z.ltb_spec 59 mi); [rewrite E2 by lia; do 4 eexists; reflexivity|].
      destruct (Z.ltb_spec 59 s); [rewrite E3 by lia; do 4 eexists; reflexivity|].
      exfalso. apply K. unfold date_ok. tauto.
    + destruct (date_to_days_err y mo d ltac:(lia) ltac:(lia) Kd) as (n & a & b & v & E). rewrite E. do 4 eexists; reflexivity.
Qed.
