(* C05 — month and year arithmetic keeps the day of month, clamped, across every year. *)
From Astro Require Import Base CalSpec DateModel DateProofs MonthProofs.

(* add_months_spec (CalSpec): the date at month index + k (year -1 directly before year 1) with the day of
   month reduced to the last day of a shorter target month.  shift_months is the body of both
   add_months (k = n) and sub_months (k = -n); the API panics on Err. *)
Theorem C05_months : forall d k,
  let t := add_months_spec (days_to_date d) k in
  (in_range t -> shift_months d k = Ok (rd t)) /\ (~ in_range t -> exists e, shift_months d k = Err e).
Proof. exact shift_months_spec. Qed.
Theorem C05_add_months_is : forall d n, add_months d n = shift_months d n.
Proof. exact add_months_model. Qed.
Theorem C05_sub_months_is : forall d n, sub_months d n = shift_months d (- n).
Proof. exact sub_months_model. Qed.
Theorem C05_add_years : forall d k, 0 <= k ->
  let t := add_years_spec (days_to_date d) k in
  (in_range t -> add_years d k = Ok (rd t)) /\ (~ in_range t -> exists e, add_years d k = Err e).
Proof. exact add_years_model_spec. Qed.
Theorem C05_sub_years : forall d k, 0 <= k ->
  let t := add_years_spec (days_to_date d) (- k) in
  (in_range t -> sub_years d k = Ok (rd t)) /\ (~ in_range t -> exists e, sub_years d k = Err e).
Proof. exact sub_years_model_spec. Qed.
(* N years = 12 N months, with the same clamp (29 Feb -> 28 Feb) *)
Theorem C05_years_are_months : forall x k, valid x -> add_years_spec x k = add_months_spec x (12 * k).
Proof. exact add_years_spec_months. Qed.
(* the target is always a valid calendar date *)
Theorem C05_target_valid : forall x k, valid x -> valid (add_months_spec x k).
Proof. exact add_months_valid. Qed.

Example C05_nonvacuous :
  add_months_spec (2022, 1, 31) 1 = (2022, 2, 28) /\ add_months_spec (-1, 12, 31) 2 = (1, 2, 28) /\
  add_months_spec (2022, 3, 15) (-5) = (2021, 10, 15) /\ add_years_spec (-5, 2, 29) 5 = (1, 2, 28) /\
  ~ in_range (add_months_spec (5879611, 6, 13) 1).
Proof. repeat split; try reflexivity. unfold in_range. cbn. intros [? ?]. discriminate. Qed.

Print Assumptions C05_months.
Print Assumptions C05_add_months_is.
Print Assumptions C05_sub_months_is.
Print Assumptions C05_add_years.
Print Assumptions C05_sub_years.
Print Assumptions C05_years_are_months.
Print Assumptions C05_target_valid.
