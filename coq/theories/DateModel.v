(* DateModel.v — Gallina transcription, function by function, of
     src/util/leap.rs, src/util/date/validate.rs, src/util/date/convert.rs,
     src/util/date/manipulate.rs
   as they stand in /repo (including the `fix:` commits recorded in known_findings.json).
   Signed Rust `/` and `%` are Z.quot / Z.rem; on unsigned operands Z.div / Z.modulo. *)
From Astro Require Import Base.

(* ---- src/util/leap.rs ---- *)
Definition leap_years (year0 : Z) : Z :=
  let year := if 0 <? year0 then year0 - 1 else year0 in
  let year := if year <? 0 then year + 1 else year in
  let year_abs := Z.abs year in
  let year_abs := if year <? 0 then year_abs - 1 else year_abs in
  let leaps := year_abs / 4 - year_abs / 100 + year_abs / 400 in
  if year <? 0 then leaps + 1 else leaps.

Definition is_leap_year (year0 : Z) : bool :=
  let year := if year0 <? 0 then year0 + 1 else year0 in
  (Z.rem year 4 =? 0) && (negb (Z.rem year 100 =? 0) || (Z.rem year 400 =? 0)).

(* ---- src/util/date/validate.rs ---- *)
Definition MIN_Y := -5879611.  Definition MIN_M := 6.  Definition MIN_D := 23.  Definition MIN_DOY := 174.
Definition MAX_Y := 5879611.   Definition MAX_M := 7.  Definition MAX_D := 12.  Definition MAX_DOY := 193.

Definition validate_date (year month day : Z) : res unit :=
  if year =? 0 then Err (EOor NYearZero MIN_Y MAX_Y year)
  else if year <? MIN_Y then Err (EOor NYear MIN_Y MAX_Y year)
  else if (year =? MIN_Y) && (month <? MIN_M) then Err (EOor NMonth MIN_M 12 month)
  else if (year =? MIN_Y) && (month =? MIN_M) && (day <? MIN_D) then Err (EOor NDay MIN_D 30 day)
  else if MAX_Y <? year then Err (EOor NYear MIN_Y MAX_Y year)
  else if (year =? MAX_Y) && (MAX_M <? month) then Err (EOor NMonth 1 MAX_M month)
  else if (year =? MAX_Y) && (month =? MAX_M) && (MAX_D <? day) then Err (EOor NDay 1 MAX_D day)
  else Ok tt.

Definition validate_doy (year doy : Z) : res unit :=
  if year =? 0 then Err (EOor NYearZero MIN_Y MAX_Y year)
  else if year <? MIN_Y then Err (EOor NYear MIN_Y MAX_Y year)
  else if (year =? MIN_Y) && (doy <? MIN_DOY) then Err (EOor NDoy MIN_DOY 365 doy)
  else if MAX_Y <? year then Err (EOor NYear MIN_Y MAX_Y year)
  else if (year =? MAX_Y) && (MAX_DOY <? doy) then Err (EOor NDoy 1 MAX_DOY doy)
  else if is_leap_year year && (366 <? doy) then Err (EOor NDoy 1 366 doy)
  else if negb (is_leap_year year) && (365 <? doy) then Err (EOor NDoy 1 365 doy)
  else if doy <? 1 then Err (EOor NDoy 1 (if is_leap_year year then 366 else 365) doy)
  else Ok tt.

(* ---- src/util/date/convert.rs ---- *)
Definition year_month_to_doy (year month : Z) : res (Z * Z) :=
  if is_leap_year year then
    match month with
    | 1 => Ok (0, 31) | 2 => Ok (31, 29) | 3 => Ok (60, 31) | 4 => Ok (91, 30)
    | 5 => Ok (121, 31) | 6 => Ok (152, 30) | 7 => Ok (182, 31) | 8 => Ok (213, 31)
    | 9 => Ok (244, 30) | 10 => Ok (274, 31) | 11 => Ok (305, 30) | 12 => Ok (335, 31)
    | _ => Err (EOor NMonth 1 12 month)
    end
  else
    match month with
    | 1 => Ok (0, 31) | 2 => Ok (31, 28) | 3 => Ok (59, 31) | 4 => Ok (90, 30)
    | 5 => Ok (120, 31) | 6 => Ok (151, 30) | 7 => Ok (181, 31) | 8 => Ok (212, 31)
    | 9 => Ok (243, 30) | 10 => Ok (273, 31) | 11 => Ok (304, 30) | 12 => Ok (334, 31)
    | _ => Err (EOor NMonth 1 12 month)
    end.

(* the `for mdays in MONTH_DAYS` loop of days_to_date: returns (mon, remdays) *)
Fixpoint month_loop (tbl : list Z) (mon remdays : Z) : Z * Z :=
  match tbl with
  | [] => (mon, remdays)
  | mdays :: tl =>
      let mon := mon + 1 in
      if remdays <? mdays then (mon, remdays) else month_loop tl mon (remdays - mdays)
  end.
Definition MONTH_DAYS : list Z := [31; 30; 31; 30; 31; 31; 30; 31; 30; 31; 31; 29].

Definition days_to_date (days0 : Z) : Z * Z * Z :=
  let LEAPOCH := 730179 in
  let DAYS_PER_400Y := 146097 in
  let DAYS_PER_100Y := 36524 in
  let DAYS_PER_4Y := 1461 in
  let days := days0 - LEAPOCH in
  let qc_cycles := Z.quot days DAYS_PER_400Y in
  let remdays := Z.rem days DAYS_PER_400Y in
  let '(remdays, qc_cycles) :=
    if remdays <? 0 then (remdays + DAYS_PER_400Y, qc_cycles - 1) else (remdays, qc_cycles) in
  let c_cycles := Z.quot remdays DAYS_PER_100Y in
  let c_cycles := if c_cycles =? 4 then c_cycles - 1 else c_cycles in
  let remdays := remdays - c_cycles * DAYS_PER_100Y in
  let q_cycles := Z.quot remdays DAYS_PER_4Y in
  let remdays := remdays - q_cycles * DAYS_PER_4Y in
  let remyears := Z.quot remdays 365 in
  let remyears := if remyears =? 4 then remyears - 1 else remyears in
  let year := 2000 + remyears + 4 * q_cycles + 100 * c_cycles + 400 * qc_cycles in
  let remdays := remdays - remyears * 365 in
  let '(mon, remdays) := month_loop MONTH_DAYS 0 remdays in
  let mday := remdays + 1 in
  let '(year, mon) := if 12 <? mon + 2 then (year + 1, mon - 10) else (year, mon + 2) in
  let year := if year <? 1 then year - 1 else year in
  (year, mon, mday).

(* the final i32 arithmetic of date_to_days / year_doy_to_days, on a 0-based day of year *)
Definition ydoy0_to_days (year doy : Z) : Z :=
  let ly := leap_years year in
  if year <? 0 then
    let doy := (if is_leap_year year then 366 else 365) - doy in
    (year + 1) * 365 - ly - doy
  else
    (Z.abs year - 1) * 365 + ly + doy.

Definition date_to_days (year month day : Z) : res Z :=
  let? _ := validate_date year month day in
  let? '(doy, mdays) := year_month_to_doy year month in
  if (mdays <? day) || (day =? 0) then Err (EOor NDay 1 mdays day)
  else Ok (ydoy0_to_days year (doy + (day - 1))).

Definition year_doy_to_days (year doy : Z) (ignore_leap : bool) : res Z :=
  let? _ := validate_doy year doy in
  let doy := doy - 1 in
  let doy := if ignore_leap && is_leap_year year && (59 <=? doy) then doy + 1 else doy in
  Ok (ydoy0_to_days year doy).

Definition days_to_doy (days : Z) : res Z :=
  let '(year, month, day) := days_to_date days in
  let? '(doy, _) := unwrap (year_month_to_doy year month) in
  Ok (doy + day).

Definition days_to_wday (days : Z) (monday_first : bool) : Z :=
  ((days mod 7) + (if monday_first then 0 else 1)) mod 7.

(* Tøndering's ISO week formula, with the astronomical-year repair *)
Definition days_to_wyear (days : Z) : Z :=
  let '(year, month, day) := days_to_date days in
  let year := if year <? 0 then year + 1 else year in
  let a := if month <=? 2 then year - 1 else year in
  let b := a / 4 - a / 100 + a / 400 in                       (* div_euclid *)
  let c := (a - 1) / 4 - (a - 1) / 100 + (a - 1) / 400 in
  let s := b - c in
  let e := if month <=? 2 then 0 else s + 1 in
  let f := if month <=? 2 then day - 1 + 31 * (month - 1)
           else day + Z.quot (153 * (month - 3) + 2) 5 + 58 + s in
  let g := (a + b) mod 7 in                                   (* rem_euclid *)
  let d := (f + g - e) mod 7 in
  let n := f + 3 - d in
  if n <? 0 then 53 - Z.quot (g - s) 5
  else if 364 + s <? n then 1
  else Z.quot n 7 + 1.

Definition months_between (first_days first_nanos second_days second_nanos : Z) : Z :=
  let '(first_year, first_month, first_day) := days_to_date first_days in
  let '(second_year, second_month, second_day) := days_to_date second_days in
  let years_between := first_year - second_year in
  let years_between :=
    if (1 <=? first_year) && (second_year <? 1) then years_between - 1
    else if (first_year <? 1) && (1 <=? second_year) then years_between + 1
    else years_between in
  let months_between := years_between * 12 + first_month - second_month in
  let extra_month :=
    if months_between =? 0 then 0
    else if (0 <? months_between)
            && ((first_day <? second_day) || ((first_day =? second_day) && (first_nanos <? second_nanos))) then -1
    else if (months_between <? 0)
            && ((second_day <? first_day) || ((first_day =? second_day) && (second_nanos <? first_nanos))) then 1
    else 0 in
  months_between + extra_month.

Definition years_between (first_days first_nanos second_days second_nanos : Z) : Z :=
  Z.quot (months_between first_days first_nanos second_days second_nanos) 12.

(* ---- src/util/date/manipulate.rs ---- *)
Definition set_year (days year : Z) : res Z :=
  let '(_, month, day) := days_to_date days in date_to_days year month day.
Definition set_month (days month : Z) : res Z :=
  let '(year, _, day) := days_to_date days in date_to_days year month day.
Definition set_day (days day : Z) : res Z :=
  let '(year, month, _) := days_to_date days in date_to_days year month day.
Definition set_day_of_year (days doy : Z) : res Z :=
  let '(year, _, _) := days_to_date days in year_doy_to_days year doy false.

Definition add_years (days years : Z) : res Z :=
  let '(year, month, day) := days_to_date days in
  let target_year := year + years in
  let target_year := if (year <? 0) && (0 <=? target_year) then target_year + 1 else target_year in
  if negb (in_i32b target_year) then Err (EOor NCustom 0 0 0) else
  let day := if is_leap_year year && negb (is_leap_year target_year) && (month =? 2) && (day =? 29) then 28 else day in
  date_to_days target_year month day.

Definition sub_years (days years : Z) : res Z :=
  let '(year, month, day) := days_to_date days in
  let target_year := year - years in
  let target_year := if (0 <? year) && (target_year <=? 0) then target_year - 1 else target_year in
  if negb (in_i32b target_year) then Err (EOor NCustom 0 0 0) else
  let day := if is_leap_year year && negb (is_leap_year target_year) && (month =? 2) && (day =? 29) then 28 else day in
  date_to_days target_year month day.

(* months : i64, negative to subtract *)
Definition shift_months (days months : Z) : res Z :=
  let '(year, month, day) := days_to_date days in
  let astro_year := if year <? 0 then year + 1 else year in
  let total_months := astro_year * 12 + month - 1 + months in
  let target_astro_year := total_months / 12 in               (* div_euclid *)
  let target_year := if target_astro_year <=? 0 then target_astro_year - 1 else target_astro_year in
  if negb (in_i32b target_year) then Err (EOor NCustom 0 0 0) else
  let target_month := total_months mod 12 + 1 in
  let? target_day :=
    if day <? 29 then Ok day
    else let? '(_, mdays) := unwrap (year_month_to_doy target_year target_month) in
         Ok (if mdays <? day then mdays else day) in
  date_to_days target_year target_month target_day.
Definition add_months (days months : Z) : res Z := shift_months days months.
Definition sub_months (days months : Z) : res Z := shift_months days (- months).

Definition add_days (old_days days : Z) : res Z :=
  if in_i32b (old_days + days) then Ok (old_days + days) else Err (EOor NCustom 0 0 0).
Definition sub_days (old_days days : Z) : res Z :=
  if in_i32b (old_days - days) then Ok (old_days - days) else Err (EOor NCustom 0 0 0).

(* numeric arms of format_date_part used by C02: q, e (Sunday-first, 1-based), eeeeeee (Monday-first, 1-based) *)
Definition fmt_quarter (days : Z) : Z := let '(_, month, _) := days_to_date days in (month - 1) / 3 + 1.
Definition fmt_wday_e (days : Z) : Z := days_to_wday days false + 1.
Definition fmt_wday_e7 (days : Z) : Z := days_to_wday days true + 1.
