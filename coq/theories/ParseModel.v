(* ParseModel.v — Gallina transcription of the consume-from-the-front parsers of src/util/parse.rs and of the
   parse() methods of Date, Time and DateTime, parse_offset and DateTime::parse_rfc3339 / format_rfc3339. *)
From Astro Require Import Base Text DateModel TimeModel ApiModel FormatModel.

Inductive punit := PYear | PMonth | PDayOfMonth | PDayOfYear | PHour | PPeriod | PPeriodHour | PMinute | PSecond
                 | PDecis | PCentis | PMillis | PMicros | PNanos | POffset.

Definition fmt_err {A} : res A := Err EFmt.

(* remove_part / pick_part (character based) *)
Definition remove_part (n : Z) (s : text) : res text :=
  if char_count s <? n then fmt_err else Ok (skipn (Z.to_nat n) s).
Definition pick_text (n : Z) (s : text) : res (text * text) :=
  if char_count s <? n then fmt_err else Ok (firstn (Z.to_nat n) s, skipn (Z.to_nat n) s).
Definition pick_u32 (n : Z) (s : text) : res (Z * text) :=
  let? '(t, rest) := pick_text n s in
  match parse_unsigned U32_MAX t with Some v => Ok (v, rest) | None => fmt_err end.
Definition pick_i32 (n : Z) (s : text) : res (Z * text) :=
  let? '(t, rest) := pick_text n s in
  match parse_signed I32_MIN I32_MAX t with Some v => Ok (v, rest) | None => fmt_err end.
(* `.unwrap()` of a remove_part / pick_part that "cannot fail" *)
Definition must {A} (r : res A) : res A := match r with Ok a => Ok a | _ => Panic end.

Definition take_digits (s : text) : text * text :=
  let fix go (l : text) : text * text := match l with c :: tl => if is_ascii_digit c then (let '(a, b) := go tl in (c :: a, b)) else ([], l) | [] => ([], []) end in go s.
(* chars().take_while(|c| c != 'Z' && c != '+' && c != '-') and the rest *)
Definition take_while_not_zone (s : text) : text * text :=
  let fix go (l : text) : text * text := match l with c :: tl => if (c =? 90) || (c =? 43) || (c =? 45) then ([], l) else (let '(a, b) := go tl in (c :: a, b)) | [] => ([], []) end in go s.
Definition nth_char (s : text) (i : nat) : option Z := nth_error s i.
Definition nth_is_digit (s : text) (i : nat) : bool := match nth_char s i with Some c => is_ascii_digit c | None => false end.

Definition some_part (u : punit) (v : Z) (rest : text) : res (option (punit * Z) * text) := Ok (Some (u, v), rest).
Definition no_part (rest : text) : res (option (punit * Z) * text) := Ok (None, rest).

(* first table entry the string starts with: (index, entry) *)
Fixpoint find_prefix (tbl : list text) (s : text) (i : Z) : option (Z * text) :=
  match tbl with [] => None | e :: tl => if starts_with e s then Some (i, e) else find_prefix tl s (i + 1) end.

Definition parse_month (len : Z) (s : text) : res (option (punit * Z) * text) :=
  match len with
  | 1 => let digits := if nth_is_digit s 1 then 2 else 1 in
         let? '(v, rest) := pick_u32 digits s in some_part PMonth v rest
  | 2 => let? '(v, rest) := pick_u32 2 s in some_part PMonth v rest
  | 3 => match find_prefix MONTH_ABBREVIATED s 0 with
         | Some (i, e) => let? rest := must (remove_part (byte_len e) s) in some_part PMonth (i + 1) rest
         | None => fmt_err end
  | 5 => let? rest := remove_part 1 s in no_part rest
  | _ => match find_prefix MONTH_WIDE s 0 with
         | Some (i, e) => let? rest := must (remove_part (byte_len e) s) in some_part PMonth (i + 1) rest
         | None => fmt_err end
  end.

Definition parse_wday (len : Z) (s : text) : res (option (punit * Z) * text) :=
  match len with
  | 2 | 3 => let? rest := remove_part len s in no_part rest
  | 4 => match find_prefix WDAY_WIDE s 0 with
         | Some (_, e) => let? rest := must (remove_part (byte_len e) s) in no_part rest
         | None => fmt_err end
  | 6 | 8 => let? rest := remove_part 2 s in no_part rest
  | _ => let? rest := remove_part 1 s in no_part rest
  end.

(* ":mm:ss" after the hour of a five-letter zone *)
Definition zone5_with_seconds (hms : Z -> Z -> Z) (s : text) : res (option (punit * Z) * text) :=
  let? s := must (remove_part 1 s) in let? '(minute, s) := pick_u32 2 s in
  let? s := must (remove_part 1 s) in let? '(second, s) := pick_u32 2 s in some_part POffset (hms minute second) s.

Definition parse_zone (len : Z) (s : text) (with_z : bool) : res (option (punit * Z) * text) :=
  let? '(prefix, s) := pick_text 1 s in
  if with_z && text_eqb prefix [90] then some_part POffset 0 s else
  let? multiplier := (if text_eqb prefix [43] then Ok 1 else if text_eqb prefix [45] then Ok (-1) else fmt_err) in
  let? '(hour, s) := pick_u32 2 s in
  let hm (minute : Z) := wrap_u32 (hour * 3600 + minute * 60) * multiplier in
  let hms (minute second : Z) := wrap_u32 (hour * 3600 + minute * 60 + second) * multiplier in
  match len with
  | 1 => if nth_is_digit s 0 then (let? '(minute, s) := pick_u32 2 s in some_part POffset (hm minute) s)
         else some_part POffset (wrap_u32 (hour * 3600) * multiplier) s
  | 2 => let? '(minute, s) := pick_u32 2 s in some_part POffset (hm minute) s
  | 4 => if nth_is_digit s 2
         then (let? '(minute, s) := pick_u32 2 s in let? '(second, s) := pick_u32 2 s in some_part POffset (hms minute second) s)
         else (let? '(minute, s) := pick_u32 2 s in some_part POffset (hm minute) s)
  | 5 => if nth_is_digit s 4 && (match nth_char s 3 with Some c => c =? 58 | None => false end)
         then zone5_with_seconds hms s
         else (let? s := remove_part 1 s in let? '(minute, s) := pick_u32 2 s in some_part POffset (hm minute) s)
  | _ => let? s := remove_part 1 s in let? '(minute, s) := pick_u32 2 s in some_part POffset (hm minute) s
  end.

(* one- or two-digit numeric field: look ahead one character when the pattern has one letter *)
Definition pick_1or2 (len : Z) (s : text) : res (Z * text) :=
  if len =? 1 then (if nth_is_digit s 1 then pick_u32 2 s else pick_u32 1 s) else pick_u32 2 s.

Definition BEFORE_CHRIST : text := [66;101;102;111;114;101;32;67;104;114;105;115;116].
Definition ANNO_DOMINI : text := [65;110;110;111;32;68;111;109;105;110;105].
Definition QUARTERS : list text :=
  [[49;115;116;32;113;117;97;114;116;101;114]; [50;110;100;32;113;117;97;114;116;101;114];
   [51;114;100;32;113;117;97;114;116;101;114]; [52;116;104;32;113;117;97;114;116;101;114]].

(* now_year: Date::now().year(), read by the two-letter year *)
Definition parse_date_part (now_year : Z) (chars s : text) : res (option (punit * Z) * text) :=
  let len := Z.of_nat (length chars) in
  let c := first_char chars in
  if c =? 71 then
    match len with
    | 1 | 2 | 3 => let? rest := remove_part 2 s in no_part rest
    | 5 => let? rest := remove_part 1 s in no_part rest
    | _ => if starts_with BEFORE_CHRIST s then (let? rest := must (remove_part 13 s) in no_part rest)
           else if starts_with ANNO_DOMINI s then (let? rest := must (remove_part 11 s) in no_part rest)
           else fmt_err
    end
  else if c =? 121 then
    match len with
    | 2 => if starts_with [45] s then (let? '(v, rest) := pick_i32 3 s in some_part PYear v rest)
           else (let? '(v, rest) := pick_i32 2 s in some_part PYear (wrap_i32 (Z.quot now_year 1000 * 1000 + v)) rest)
    | 1 | 3 | 4 =>
        let start := if starts_with [45] s then 1%nat else 0%nat in
        let ndig := length (fst (take_digits (skipn start s))) in
        let? '(v, rest) := pick_i32 (Z.of_nat (start + ndig)) s in some_part PYear v rest
    | _ => let? '(v, rest) := pick_i32 (if starts_with [45] s then len + 1 else len) s in some_part PYear v rest
    end
  else if c =? 113 then
    match len with
    | 1 | 2 => let? rest := remove_part len s in no_part rest
    | 3 => let? rest := remove_part 2 s in no_part rest
    | 4 => match find_prefix QUARTERS s 0 with
           | Some (_, e) => let? rest := must (remove_part (byte_len e) s) in no_part rest
           | None => fmt_err end
    | _ => let? rest := remove_part 1 s in no_part rest
    end
  else if c =? 77 then parse_month len s
  else if c =? 119 then
    (if len =? 1 then (if nth_is_digit s 1 then (let? rest := must (remove_part 2 s) in no_part rest)
                       else (let? rest := remove_part 1 s in no_part rest))
     else (let? rest := remove_part (get_length len 2 2) s in no_part rest))
  else if c =? 100 then (let? '(v, rest) := pick_1or2 len s in some_part PDayOfMonth v rest)
  else if c =? 68 then
    match len with
    | 2 => let? '(v, rest) := (if nth_is_digit s 2 then pick_u32 3 s else pick_u32 2 s) in some_part PDayOfYear v rest
    | 3 => let? '(v, rest) := pick_u32 3 s in some_part PDayOfYear v rest
    | _ => let? '(v, rest) := (if nth_is_digit s 1 then (if nth_is_digit s 2 then pick_u32 3 s else pick_u32 2 s) else pick_u32 1 s) in
           some_part PDayOfYear v rest
    end
  else if c =? 101 then parse_wday len s
  else (let? rest := remove_part (char_count chars) s in no_part rest).

Definition period_value (tbl : list (text * Z)) (s : text) : option (Z * text) :=
  let fix go (l : list (text * Z)) := match l with [] => None | (e, v) :: tl => if starts_with e s then Some (v, e) else go tl end in go tbl.
Definition t (l : list Z) : text := l.

Definition parse_time_part (chars s : text) : res (option (punit * Z) * text) :=
  let len := Z.of_nat (length chars) in
  let c := first_char chars in
  if c =? 97 then
    match len with
    | 4 => let? '(p, rest) := pick_text 4 s in
           if text_eqb p (t [97;46;109;46]) then some_part PPeriod 0 rest else if text_eqb p (t [112;46;109;46]) then some_part PPeriod 1 rest else fmt_err
    | 5 => let? '(p, rest) := pick_text 1 s in
           if text_eqb p (t [97]) then some_part PPeriod 0 rest else if text_eqb p (t [112]) then some_part PPeriod 1 rest else fmt_err
    | _ => let? '(p, rest) := pick_text 2 s in
           if text_eqb p (t [97;109]) || text_eqb p (t [65;77]) then some_part PPeriod 0 rest
           else if text_eqb p (t [112;109]) || text_eqb p (t [80;77]) then some_part PPeriod 1 rest else fmt_err
    end
  else if c =? 98 then
    let tbl := match len with
               | 4 => [(t [97;46;109;46], 0); (t [109;105;100;110;105;103;104;116], 0); (t [112;46;109;46], 1); (t [110;111;111;110], 1)]
               | 5 => [(t [97], 0); (t [109;105], 0); (t [112], 1); (t [110], 1)]
               | _ => [(t [97;109], 0); (t [65;77], 0); (t [109;105;100;110;105;103;104;116], 0); (t [112;109], 1); (t [80;77], 1); (t [110;111;111;110], 1)]
               end in
    match period_value tbl s with
    | Some (v, e) => let? rest := must (remove_part (byte_len e) s) in some_part PPeriod v rest
    | None => fmt_err end
  else if c =? 104 then
    (if (len =? 1) && negb (nth_is_digit s 1) then (let? '(v, rest) := pick_u32 1 s in some_part PPeriodHour v rest)
     else (let? '(v, rest) := pick_u32 2 s in some_part PPeriodHour (if v =? 12 then 0 else v) rest))
  else if c =? 72 then (let? '(v, rest) := pick_1or2 len s in some_part PHour v rest)
  else if c =? 75 then (let? '(v, rest) := pick_1or2 len s in some_part PPeriodHour v rest)
  else if c =? 107 then
    (if (len =? 1) && negb (nth_is_digit s 1) then (let? '(v, rest) := pick_u32 1 s in some_part PHour v rest)
     else (let? '(v, rest) := pick_u32 2 s in some_part PHour (if v =? 24 then 0 else v) rest))
  else if c =? 109 then (let? '(v, rest) := pick_1or2 len s in some_part PMinute v rest)
  else if c =? 115 then (let? '(v, rest) := pick_1or2 len s in some_part PSecond v rest)
  else if c =? 110 then
    match len with
    | 1 => let? '(v, rest) := pick_u32 1 s in some_part PDecis v rest
    | 2 => let? '(v, rest) := pick_u32 2 s in some_part PCentis v rest
    | 4 => let? '(v, rest) := pick_u32 6 s in some_part PMicros v rest
    | 5 => let? '(v, rest) := pick_u32 9 s in some_part PNanos v rest
    | _ => let? '(v, rest) := pick_u32 3 s in some_part PMillis v rest
    end
  else if c =? 88 then parse_zone len s true
  else if c =? 120 then parse_zone len s false
  else (let? rest := remove_part (char_count chars) s in no_part rest).

Definition parse_part (now_year : Z) (chars s : text) : res (option (punit * Z) * text) :=
  let c := first_char chars in
  if is_date_symbol c then parse_date_part now_year chars s
  else if is_time_symbol c then parse_time_part chars s
  else (let? rest := remove_part (char_count chars) s in no_part rest).

(* remove_literal_part *)
Definition remove_literal_part (part s : text) : res text :=
  let chars := char_count part in
  let n := if first_char part =? NUL then chars
           else chars - 1 - (if (1 <? chars) && (match rev part with l :: _ => l =? APOS | [] => false end) then 1 else 0) in
  remove_part n s.
Definition is_literal_part (part : text) : bool := (first_char part =? NUL) || (first_char part =? APOS).

(* collected fields *)
Record pdate := mkPD { pd_year : option Z; pd_month : option Z; pd_dom : option Z; pd_doy : option Z }.
Record ptime := mkPT { pt_hour : option Z; pt_phour : option Z; pt_period : option Z; pt_minute : option Z; pt_second : option Z;
                       pt_decis : option Z; pt_centis : option Z; pt_millis : option Z; pt_micros : option Z; pt_nanos : option Z;
                       pt_offset : option Z }.
Definition PD0 := mkPD None None None None.
Definition PT0 := mkPT None None None None None None None None None None None.
Definition set_date (d : pdate) (u : punit) (v : Z) : pdate :=
  match u with
  | PYear => mkPD (Some (wrap_i32 v)) (pd_month d) (pd_dom d) (pd_doy d)
  | PMonth => mkPD (pd_year d) (Some (wrap_u32 v)) (pd_dom d) (pd_doy d)
  | PDayOfMonth => mkPD (pd_year d) (pd_month d) (Some (wrap_u32 v)) (pd_doy d)
  | _ => mkPD (pd_year d) (pd_month d) (pd_dom d) (Some (wrap_u32 v))
  end.
Definition set_time (x : ptime) (u : punit) (v : Z) : ptime :=
  let w := wrap_u64 v in
  match u with
  | PHour => mkPT (Some w) (pt_phour x) (pt_period x) (pt_minute x) (pt_second x) (pt_decis x) (pt_centis x) (pt_millis x) (pt_micros x) (pt_nanos x) (pt_offset x)
  | PPeriodHour => mkPT (pt_hour x) (Some w) (pt_period x) (pt_minute x) (pt_second x) (pt_decis x) (pt_centis x) (pt_millis x) (pt_micros x) (pt_nanos x) (pt_offset x)
  | PPeriod => mkPT (pt_hour x) (pt_phour x) (Some (if v =? 0 then 0 else 12)) (pt_minute x) (pt_second x) (pt_decis x) (pt_centis x) (pt_millis x) (pt_micros x) (pt_nanos x) (pt_offset x)
  | PMinute => mkPT (pt_hour x) (pt_phour x) (pt_period x) (Some w) (pt_second x) (pt_decis x) (pt_centis x) (pt_millis x) (pt_micros x) (pt_nanos x) (pt_offset x)
  | PSecond => mkPT (pt_hour x) (pt_phour x) (pt_period x) (pt_minute x) (Some w) (pt_decis x) (pt_centis x) (pt_millis x) (pt_micros x) (pt_nanos x) (pt_offset x)
  | PDecis => mkPT (pt_hour x) (pt_phour x) (pt_period x) (pt_minute x) (pt_second x) (Some w) (pt_centis x) (pt_millis x) (pt_micros x) (pt_nanos x) (pt_offset x)
  | PCentis => mkPT (pt_hour x) (pt_phour x) (pt_period x) (pt_minute x) (pt_second x) (pt_decis x) (Some w) (pt_millis x) (pt_micros x) (pt_nanos x) (pt_offset x)
  | PMillis => mkPT (pt_hour x) (pt_phour x) (pt_period x) (pt_minute x) (pt_second x) (pt_decis x) (pt_centis x) (Some w) (pt_micros x) (pt_nanos x) (pt_offset x)
  | PMicros => mkPT (pt_hour x) (pt_phour x) (pt_period x) (pt_minute x) (pt_second x) (pt_decis x) (pt_centis x) (pt_millis x) (Some w) (pt_nanos x) (pt_offset x)
  | PNanos => mkPT (pt_hour x) (pt_phour x) (pt_period x) (pt_minute x) (pt_second x) (pt_decis x) (pt_centis x) (pt_millis x) (pt_micros x) (Some w) (pt_offset x)
  | _ => mkPT (pt_hour x) (pt_phour x) (pt_period x) (pt_minute x) (pt_second x) (pt_decis x) (pt_centis x) (pt_millis x) (pt_micros x) (pt_nanos x) (Some (wrap_i32 v))
  end.
Definition is_date_unit (u : punit) : bool := match u with PYear | PMonth | PDayOfMonth | PDayOfYear => true | _ => false end.

Definition oz (o : option Z) (d : Z) : Z := match o with Some v => v | None => d end.
(* sum of the time fields in nanoseconds (u64 arithmetic; cannot overflow for values of at most 9 digits) *)
Definition time_nanos (x : ptime) : Z :=
  (match pt_hour x with Some h => h * 3600 * NANOS_PER_SEC | None => (oz (pt_phour x) 0 + oz (pt_period x) 0) * 3600 * NANOS_PER_SEC end)
  + oz (pt_minute x) 0 * 60 * NANOS_PER_SEC + oz (pt_second x) 0 * NANOS_PER_SEC
  + oz (pt_decis x) 0 * 100000000 + oz (pt_centis x) 0 * 10000000 + oz (pt_millis x) 0 * 1000000 + oz (pt_micros x) 0 * 1000 + oz (pt_nanos x) 0.

Definition date_days_of (d : pdate) : res Z :=
  match pd_doy d with
  | Some doy => year_doy_to_days (oz (pd_year d) 1) doy false
  | None => date_to_days (oz (pd_year d) 1) (oz (pd_month d) 1) (oz (pd_dom d) 1)
  end.

(* the loop over the parts of the pattern, specialised by which symbols the type understands *)
Fixpoint parse_loop (pp : text -> text -> res (option (punit * Z) * text)) (parts : list text) (s : text) (d : pdate) (x : ptime)
  : res (pdate * ptime) :=
  match parts with
  | [] => Ok (d, x)
  | part :: tl =>
      if is_literal_part part then (let? s := remove_literal_part part s in parse_loop pp tl s d x)
      else
        let? '(r, s) := pp part s in
        match r with
        | Some (u, v) => if is_date_unit u then parse_loop pp tl s (set_date d u v) x else parse_loop pp tl s d (set_time x u v)
        | None => parse_loop pp tl s d x
        end
  end.

Definition date_parse (now_year : Z) (s fmt : text) : res Z :=
  let? '(d, _) := parse_loop (parse_date_part now_year) (parse_format_string fmt) s PD0 PT0 in
  date_days_of d.

Definition time_parse (s fmt : text) : res TM :=
  let? '(_, x) := parse_loop parse_time_part (parse_format_string fmt) s PD0 PT0 in
  let? tm := time_from_nanos (time_nanos x) in
  match pt_offset x with
  | Some off => let? o := offset_from_seconds off in time_as_offset tm o
  | None => Ok tm
  end.

Definition dt_parse (now_year : Z) (s fmt : text) : res DT :=
  let? '(d, x) := parse_loop (parse_part now_year) (parse_format_string fmt) s PD0 PT0 in
  let? days := date_days_of d in
  let? tm := time_from_nanos (time_nanos x) in
  match pt_offset x with
  | Some off => let? o := offset_from_seconds off in
                let? '(dd, nn) := try_remove_offset_from_dn days (tm_nanos tm) o in Ok (mkDT dd nn o)
  | None => Ok (mkDT days (tm_nanos tm) 0)
  end.

(* ---------- RFC 3339 ---------- *)
Definition parse_offset (s : text) : res Z :=
  if starts_with [90] s then Ok 0 else
  if negb (byte_len s =? 6) || negb (forallb (fun c => c <? 128) s) then fmt_err else
  match parse_unsigned U32_MAX (firstn 2 (skipn 1 s)), parse_unsigned U32_MAX (firstn 2 (skipn 4 s)) with
  | Some hour, Some minute =>
      if 23 <? hour then fmt_err else if 59 <? minute then fmt_err
      else let off := hour * 3600 + minute * 60 in Ok (if starts_with [43] s then off else - off)
  | _, _ => fmt_err
  end.

Definition sub_text (s : text) (a b : nat) : text := firstn (b - a) (skipn a s).

Definition dt_parse_rfc3339 (s : text) : res DT :=
  if byte_len s <? 20 then fmt_err else
  if negb (forallb (fun c => c <? 128) (firstn 20 s)) then fmt_err else
  match parse_signed I32_MIN I32_MAX (sub_text s 0 4), parse_unsigned U32_MAX (sub_text s 5 7), parse_unsigned U32_MAX (sub_text s 8 10),
        parse_unsigned U32_MAX (sub_text s 11 13), parse_unsigned U32_MAX (sub_text s 14 16), parse_unsigned U32_MAX (sub_text s 17 19) with
  | Some year, Some month, Some day, Some hour, Some minute, Some second =>
      let? '(nanos, offset) :=
        (if (match nth_error s 19 with Some c => c =? 46 | None => false end) then
           let rest := skipn 20 s in
           let '(ns, after) := take_while_not_zone rest in
           if (match ns with [] => true | _ => false end) || negb (all_digits ns) then fmt_err else
           let sig := firstn 9 ns in
           match parse_unsigned U64_MAX sig with
           | Some v => match after with
                       | [] => fmt_err
                       | _ => let? o := parse_offset after in Ok (v * 10 ^ (9 - Z.of_nat (length sig)), o)
                       end
           | None => fmt_err end
         else let? o := parse_offset (skipn 19 s) in Ok (0, o)) in
      let? days := date_to_days year month day in
      let? seconds := time_to_day_seconds hour minute second in
      dt_as_offset (mkDT days (seconds * NANOS_PER_SEC + nanos) 0) offset
  | _, _, _, _, _, _ => fmt_err
  end.

(* format_rfc3339: precision 0 = Seconds, 2 = Centis, 3 = Millis, 6 = Micros, 9 = Nanos *)
Definition RFC_BASE : text := [121;121;121;121;45;77;77;45;100;100;84;72;72;58;109;109;58;115;115].   (* yyyy-MM-ddTHH:mm:ss *)
Definition rfc_pattern (prec : Z) : text :=
  RFC_BASE ++ (match prec with 0 => [] | 2 => [46;110;110] | 3 => [46;110;110;110] | 6 => [46;110;110;110;110] | _ => [46;110;110;110;110;110] end)
  ++ [88;88;88].
Definition dt_format_rfc3339 (v : DT) (prec : Z) : res text := dt_format v (rfc_pattern prec).

(* FromStr: Date = parse(s, "yyyy-MM-dd"), Time = parse(s, "HH:mm:ss"), DateTime = parse_rfc3339 *)
Definition P_DATE_ISO : text := [121;121;121;121;45;77;77;45;100;100].
Definition P_TIME : text := [72;72;58;109;109;58;115;115].
Definition date_from_str (now_year : Z) (s : text) : res Z := date_parse now_year s P_DATE_ISO.
Definition time_from_str (s : text) : res TM := time_parse s P_TIME.
Definition dt_from_str (s : text) : res DT := dt_parse_rfc3339 s.

(* Display: Date "yyyy/MM/dd", Time "HH:mm:ss", DateTime "yyyy/MM/dd HH:mm:ss"; Serialize: "yyyy-MM-dd", "HH:mm:ss", format_rfc3339(Seconds) *)
Definition P_DATE_DISPLAY : text := [121;121;121;121;47;77;77;47;100;100].
Definition P_DT_DISPLAY : text := P_DATE_DISPLAY ++ [32] ++ P_TIME.
Definition date_display (d : Z) : res text := date_format d P_DATE_DISPLAY.
Definition time_display (t : TM) : res text := time_format t P_TIME.
Definition dt_display (v : DT) : res text := dt_format v P_DT_DISPLAY.
Definition date_serialize (d : Z) : res text := date_format d P_DATE_ISO.
Definition time_serialize (t : TM) : res text := time_format t P_TIME.
Definition dt_serialize (v : DT) : res text := dt_format_rfc3339 v 0.
