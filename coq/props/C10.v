(* C10 — an offset changes how an instant is read, never which instant it is. *)
From Astro Require Import Base CalSpec DateModel TimeModel ApiModel InstantSpec DateProofs TimeProofs ClockProofs OffsetProofs OffsetOrder.

(* set_offset: succeeds exactly when the local reading is representable, keeps days/nanoseconds (hence the
   instant, timestamp, ordering and differences) and records the offset *)
Theorem C10_set_offset : forall v o, Inv_dt v -> off_ok o ->
  (inst_in_range (instant v + o * NANOS_PER_SEC) -> dt_set_offset v o = Ok (mkDT (dt_days v) (dt_nanos v) o)) /\
  (~ inst_in_range (instant v + o * NANOS_PER_SEC) -> dt_set_offset v o = Panic).
Proof. exact c10_set_offset. Qed.
Theorem C10_set_offset_keeps : forall v o v', dt_set_offset v o = Ok v' -> instant v' = instant v /\ dt_off v' = o.
Proof. exact c10_set_offset_keeps. Qed.
(* ... and therefore ordering, equality, timestamp and differences: the result compares Equal and == to the original, and
   compares with any third value exactly as the original does *)
Theorem C10_set_offset_order : forall v o v', dt_set_offset v o = Ok v' ->
  dt_cmp v' v = Eq /\ dt_eqb v' v = true /\ dt_timestamp v' = dt_timestamp v /\ dt_nanos_since v' v = 0 /\
  (forall w, dt_cmp v' w = dt_cmp v w /\ dt_cmp w v' = dt_cmp w v).
Proof. exact c10_set_offset_order. Qed.
(* every getter reads the fields of the instant shifted by the offset: all of them go through dt_local *)
Theorem C10_local : forall v, inst_in_range (local_instant v) ->
  dt_local v = Ok (local_instant v / D, local_instant v mod D).
Proof. exact dt_local_ok. Qed.
(* as_offset keeps the displayed fields and moves the instant by minus the offset *)
Theorem C10_as_offset : forall v o, Inv_dt v -> off_ok o -> inst_in_range (instant v - o * NANOS_PER_SEC) ->
  exists v', dt_as_offset v o = Ok v' /\ instant v' = instant v - o * NANOS_PER_SEC /\ dt_off v' = o /\
             local_instant v' = instant v /\ Inv_dt v'.
Proof. exact c10_as_offset. Qed.
Theorem C10_time_as_offset : forall t o, in_day t -> off_ok o ->
  exists t', time_as_offset t o = Ok t' /\ tm_nanos t' = (tm_nanos t - o * NANOS_PER_SEC) mod D /\ tm_off t' = o /\
             (tm_nanos t' + o * NANOS_PER_SEC) mod D = tm_nanos t.
Proof. exact c10_time_as_offset. Qed.
Theorem C10_time_local : forall n o, 0 <= n < D -> off_ok o -> add_offset_to_nanos n o = (n + o * NANOS_PER_SEC) mod D.
Proof. exact add_offset_to_nanos_spec. Qed.
(* Offset constructors accept exactly UTC-23:59:59 ..= UTC+23:59:59 and give back what they were given *)
Theorem C10_offset_from_seconds : forall s,
  (- SECS_PER_DAY < s < SECS_PER_DAY -> offset_from_seconds s = Ok s) /\
  (~ (- SECS_PER_DAY < s < SECS_PER_DAY) -> offset_from_seconds s = Err (EOor NSeconds (- SECS_PER_DAY + 1) (SECS_PER_DAY - 1) s)).
Proof. exact c10_offset_from_seconds. Qed.
Theorem C10_offset_from_hms : forall h m s, 0 <= m -> 0 <= s ->
  (-23 <= h <= 23 /\ m <= 59 /\ s <= 59 ->
     exists o, offset_from_hms h m s = Ok o /\ off_ok o /\ offset_resolve_hms o = (h, m, s) /\
               o = (if h <? 0 then -1 else 1) * (Z.abs h * 3600 + m * 60 + s)) /\
  (~ (-23 <= h <= 23 /\ m <= 59 /\ s <= 59) -> exists n a b v, offset_from_hms h m s = Err (EOor n a b v) /\ ~ (a <= v <= b) /\
     (v = h \/ v = m \/ v = s) /\ (v = h -> a = -23 /\ b = 23)).
Proof. exact c10_offset_from_hms. Qed.

Print Assumptions C10_set_offset.
Print Assumptions C10_set_offset_keeps.
Print Assumptions C10_set_offset_order.
Print Assumptions C10_local.
Print Assumptions C10_as_offset.
Print Assumptions C10_time_as_offset.
Print Assumptions C10_time_local.
Print Assumptions C10_offset_from_seconds.
Print Assumptions C10_offset_from_hms.
