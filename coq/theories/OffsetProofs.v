(* OffsetProofs.v — offsets (C10) and field setters / clears in local time (C09) on DateTime, Time, Date. *)
From Astro Require Import Base CalSpec DateModel TimeModel ApiModel InstantSpec DateProofs TimeProofs ClockProofs.

(* ---------- shifting by an offset ---------- *)
Lemma split_ok t : inst_in_range t ->
  nanos_to_days_nanos t = Ok (t / D, t mod D) /\ in_i32 (t / D) /\ 0 <= t mod D < D /\ t / D * D + t mod D = t.
Proof.
  intros H. split; [apply nanos_to_days_nanos_ok; exact H|]. revert H.
  unfold inst_in_range, MIN_I, MAX_I, in_i32, D, NANOS_PER_DAY, I32_MIN, I32_MAX. lia.
Qed.

Lemma dt_local_ok v : inst_in_range (local_instant v) ->
  dt_local v = Ok (local_instant v / D, local_instant v mod D).
Proof.
  intros H. unfold dt_local, add_offset_to_dn. rewrite days_nanos_to_nanos_spec.
  fold (instant v). fold (local_instant v). destruct (split_ok _ H) as [-> _]. reflexivity.
Qed.
Lemma dt_local_panic v : ~ inst_in_range (local_instant v) -> dt_local v = Panic.
Proof.
  intros H. unfold dt_local, add_offset_to_dn. rewrite days_nanos_to_nanos_spec.
  fold (instant v). fold (local_instant v). destruct (nanos_to_days_nanos_err _ H) as [e ->]. reflexivity.
Qed.
Lemma try_remove_offset_from_dn_ok d n o : inst_in_range (d * D + n - o * NANOS_PER_SEC) ->
  try_remove_offset_from_dn d n o = Ok ((d * D + n - o * NANOS_PER_SEC) / D, (d * D + n - o * NANOS_PER_SEC) mod D).
Proof.
  intros H. unfold try_remove_offset_from_dn. rewrite days_nanos_to_nanos_spec. fold D.
  destruct (split_ok _ H) as [-> _]. reflexivity.
Qed.
Lemma try_remove_offset_from_dn_err d n o : ~ inst_in_range (d * D + n - o * NANOS_PER_SEC) ->
  exists e, try_remove_offset_from_dn d n o = Err e.
Proof.
  intros H. unfold try_remove_offset_from_dn. rewrite days_nanos_to_nanos_spec. fold D.
  apply nanos_to_days_nanos_err. exact H.
Qed.
Lemma remove_offset_from_dn_ok d n o : inst_in_range (d * D + n - o * NANOS_PER_SEC) ->
  remove_offset_from_dn d n o = Ok ((d * D + n - o * NANOS_PER_SEC) / D, (d * D + n - o * NANOS_PER_SEC) mod D).
Proof.
  intros H. unfold remove_offset_from_dn. rewrite try_remove_offset_from_dn_ok by exact H. reflexivity.
Qed.
Lemma remove_offset_from_dn_panic d n o : ~ inst_in_range (d * D + n - o * NANOS_PER_SEC) ->
  remove_offset_from_dn d n o = Panic.
Proof.
  intros H. unfold remove_offset_from_dn. destruct (try_remove_offset_from_dn_err d n o H) as [e ->]. reflexivity.
Qed.

(* ---------- C10: set_offset / as_offset ---------- *)
Lemma cut_lo X C r : 0 <= r < 1000000000 -> (C * 1000000000 <= X * 1000000000 + r <-> C <= X).
Proof. intros. lia. Qed.
Lemma cut_hi X C r : 0 <= r < 1000000000 -> (X * 1000000000 + r <= C * 1000000000 + 999999999 <-> X <= C).
Proof. intros. lia. Qed.

Lemma set_offset_guard d s o : -2147483648 <= d <= 2147483647 -> 0 <= s <= 86399 -> -86400 < o < 86400 ->
  ((Z.quot (d * 86400 + s + o) 86400 <? -2147483648) || (2147483647 <? Z.quot (d * 86400 + s + o) 86400)
   || ((Z.quot (d * 86400 + s + o) 86400 =? -2147483648) && (s + o <? 0)))
  = negb ((-2147483648 * 86400 <=? d * 86400 + s + o) && (d * 86400 + s + o <=? 2147483647 * 86400 + 86399)).
Proof.
  intros Hd Hs Ho.
  destruct ((-2147483648 * 86400 <=? d * 86400 + s + o) && (d * 86400 + s + o <=? 2147483647 * 86400 + 86399)) eqn:E; cbn [negb].
  - rewrite !orb_false_iff, andb_false_iff, !Z.ltb_ge, Z.eqb_neq. lia.
  - rewrite !orb_true_iff, andb_true_iff, !Z.ltb_lt, Z.eqb_eq. lia.
Qed.

Theorem c10_set_offset v o : Inv_dt v -> off_ok o ->
  (inst_in_range (instant v + o * NANOS_PER_SEC) -> dt_set_offset v o = Ok (mkDT (dt_days v) (dt_nanos v) o)) /\
  (~ inst_in_range (instant v + o * NANOS_PER_SEC) -> dt_set_offset v o = Panic).
Proof.
  intros (Hd & Hn & _) Ho. unfold dt_set_offset, dt_as_seconds. rewrite days_nanos_to_secs_spec by exact Hn.
  cbv zeta. revert Hd Hn Ho.
  unfold inst_in_range, MIN_I, MAX_I, instant, off_ok, in_i32, NANOS_PER_DAY, NANOS_PER_SEC, SECS_PER_DAY, I32_MIN, I32_MAX.
  intros Hd Hn Ho.
  rewrite set_offset_guard by lia.
  set (q := dt_nanos v / 1000000000). set (r := dt_nanos v mod 1000000000).
  assert (En : dt_nanos v = q * 1000000000 + r) by (subst q r; lia).
  assert (Hr : 0 <= r < 1000000000) by (subst r; lia).
  replace (dt_days v * 86400000000000 + dt_nanos v + o * 1000000000)
    with ((dt_days v * 86400 + q + o) * 1000000000 + r) by lia.
  clearbody q r. clear En Hn.
  set (X := dt_days v * 86400 + q + o).
  pose proof (cut_lo X (-2147483648 * 86400) r Hr) as Clo.
  pose proof (cut_hi X (2147483647 * 86400 + 86399) r Hr) as Chi.
  split; intros H.
  - replace ((-2147483648 * 86400 <=? X) && (X <=? 2147483647 * 86400 + 86399)) with true by lia. reflexivity.
  - replace ((-2147483648 * 86400 <=? X) && (X <=? 2147483647 * 86400 + 86399)) with false by lia. reflexivity.
Qed.

Theorem c10_set_offset_keeps v o v' : dt_set_offset v o = Ok v' -> instant v' = instant v /\ dt_off v' = o.
Proof.
  unfold dt_set_offset. cbv zeta. destruct (_ || _ || _); [discriminate|]. intros E. injection E as <-. split; reflexivity.
Qed.

Lemma inv_in_range v : Inv_dt v -> inst_in_range (instant v).
Proof. unfold Inv_dt, inst_in_range, MIN_I, MAX_I, instant, in_i32, NANOS_PER_DAY, I32_MIN, I32_MAX. lia. Qed.
Lemma off_ok_0 : off_ok 0.
Proof. unfold off_ok, SECS_PER_DAY. lia. Qed.

Theorem c10_as_offset v o : Inv_dt v -> off_ok o -> inst_in_range (instant v - o * NANOS_PER_SEC) ->
  exists v', dt_as_offset v o = Ok v' /\ instant v' = instant v - o * NANOS_PER_SEC /\ dt_off v' = o /\
             local_instant v' = instant v /\ Inv_dt v'.
Proof.
  intros I Ho R. unfold dt_as_offset, dt_from_nanos. rewrite dt_as_nanos_instant.
  destruct (split_ok _ R) as (E & Hd & Hn & Hsum). rewrite E. cbn [unwrap bind].
  set (r := mkDT _ _ 0).
  assert (Ir : Inv_dt r) by (subst r; unfold Inv_dt; cbn [dt_days dt_nanos dt_off]; fold D; pose proof off_ok_0; tauto).
  assert (Er : instant r = instant v - o * NANOS_PER_SEC) by (subst r; unfold instant in *; cbn [dt_days dt_nanos]; fold D; lia).
  destruct (c10_set_offset r o Ir Ho) as [A _].
  assert (Rl : inst_in_range (instant r + o * NANOS_PER_SEC)).
  { rewrite Er. replace (instant v - o * NANOS_PER_SEC + o * NANOS_PER_SEC) with (instant v) by lia.
    apply inv_in_range; exact I. }
  rewrite (A Rl). eexists. split; [reflexivity|].
  unfold local_instant. cbn [dt_off]. split; [exact Er|]. split; [reflexivity|]. split.
  - change (instant (mkDT (dt_days r) (dt_nanos r) o)) with (instant r). lia.
  - unfold Inv_dt in *. cbn [dt_days dt_nanos dt_off]. tauto.
Qed.

(* Time: the offset never changes the stored value; as_offset moves it by minus the offset (mod 24 h) *)
Theorem c10_time_as_offset t o : in_day t -> off_ok o ->
  exists t', time_as_offset t o = Ok t' /\ tm_nanos t' = (tm_nanos t - o * NANOS_PER_SEC) mod D /\ tm_off t' = o /\
             (tm_nanos t' + o * NANOS_PER_SEC) mod D = tm_nanos t.
Proof.
  intros I Ho. unfold time_as_offset, time_from_nanos. pose proof (remove_offset_in_day (tm_nanos t) o) as R. unfold D in R.
  destruct (Z.leb_spec NANOS_PER_DAY (remove_offset_from_nanos (tm_nanos t) o)); [lia|]. cbn [unwrap bind].
  eexists. split; [reflexivity|]. unfold time_set_offset. cbn [tm_nanos tm_off].
  rewrite remove_offset_from_nanos_spec by assumption. revert I Ho.
  unfold in_day, D, off_ok, NANOS_PER_DAY, NANOS_PER_SEC, SECS_PER_DAY. intros I Ho. repeat split; lia.
Qed.

(* Offset constructors *)
Theorem c10_offset_from_seconds s :
  (- SECS_PER_DAY < s < SECS_PER_DAY -> offset_from_seconds s = Ok s) /\
  (~ (- SECS_PER_DAY < s < SECS_PER_DAY) -> offset_from_seconds s = Err (EOor NSeconds (- SECS_PER_DAY + 1) (SECS_PER_DAY - 1) s)).
Proof. unfold offset_from_seconds, SECS_PER_DAY. split; intros; break_cmps; reflexivity. Qed.

Theorem c10_offset_from_hms h m s : 0 <= m -> 0 <= s ->
  (-23 <= h <= 23 /\ m <= 59 /\ s <= 59 ->
     exists o, offset_from_hms h m s = Ok o /\ off_ok o /\ offset_resolve_hms o = (h, m, s) /\
               o = (if h <? 0 then -1 else 1) * (Z.abs h * 3600 + m * 60 + s)) /\
  (~ (-23 <= h <= 23 /\ m <= 59 /\ s <= 59) -> exists n a b v, offset_from_hms h m s = Err (EOor n a b v) /\ ~ (a <= v <= b) /\
     (v = h \/ v = m \/ v = s) /\ (v = h -> a = -23 /\ b = 23)).
Proof.
  intros Hm Hs. unfold offset_from_hms. split; intros H.
  - replace ((-23 <=? h) && (h <=? 23)) with true by lia. cbn [negb].
    rewrite time_to_day_seconds_ok by lia. cbn [bind]. eexists. split; [reflexivity|].
    unfold off_ok, offset_resolve_hms, SECS_PER_DAY.
    destruct (Z.ltb_spec h 0).
    + split; [lia|]. split; [|lia]. rewrite Z.abs_neq by lia. f_equal; [f_equal|]; lia.
    + split; [lia|]. split; [|lia]. rewrite Z.abs_eq by lia. f_equal; [f_equal|]; lia.
  - destruct ((-23 <=? h) && (h <=? 23)) eqn:Eh; cbn [negb].
    + destruct (time_to_day_seconds_err (Z.abs h) m s) as (E1 & E2 & E3).
      destruct (Z.ltb_spec 59 m); [rewrite E2 by lia; do 4 eexists; split; [reflexivity|]; lia|].
      rewrite E3 by lia. do 4 eexists; split; [reflexivity|]; lia.
    + do 4 eexists; split; [reflexivity|]. lia.
Qed.

(* ---------- C09: setters and clears act on the local reading and keep everything else ---------- *)
(* the local day number and local time of day of a DateTime *)
Definition lday (v : DT) : Z := local_instant v / D.
Definition lclock (v : DT) : Z := local_instant v mod D.

(* date-level edit: the local day becomes nd, local time of day, instant-of-day representation and offset are kept *)
Theorem c09_dt_set_date f v x : Inv_dt v -> inst_in_range (local_instant v) ->
  (forall nd, f (lday v) x = Ok nd -> inst_in_range (nd * D + lclock v - dt_off v * NANOS_PER_SEC) ->
     exists v', dt_set_date_with f v x = Ok v' /\ local_instant v' = nd * D + lclock v /\ dt_off v' = dt_off v /\
                dt_nanos v' = dt_nanos v) /\
  (forall e, f (lday v) x = Err e -> dt_set_date_with f v x = Err e).
Proof.
  intros I R. unfold dt_set_date_with. rewrite dt_local_ok by exact R. cbn [bind]. fold (lday v) (lclock v).
  split.
  - intros nd E R2. rewrite E. cbn [bind]. rewrite try_remove_offset_from_dn_ok by exact R2. cbn [bind].
    eexists. split; [reflexivity|]. unfold local_instant, instant. cbn [dt_days dt_nanos dt_off].
    split; [|split; reflexivity].
    destruct I as (_ & Hn & _). fold D in Hn. fold D.
    assert (Em : (nd * D + lclock v - dt_off v * NANOS_PER_SEC) mod D = dt_nanos v).
    { unfold lclock, local_instant, instant. fold D. revert Hn. unfold D, NANOS_PER_DAY, NANOS_PER_SEC. intros Hn. lia. }
    pose proof (Z.div_mod (nd * D + lclock v - dt_off v * NANOS_PER_SEC) D ltac:(unfold D, NANOS_PER_DAY; lia)) as DM.
    rewrite Em in DM. lia.
  - intros e E. rewrite E. reflexivity.
Qed.

(* time-level edit: the local time of day becomes n', the local day and the offset are kept *)
Theorem c09_dt_set_time f v x : Inv_dt v -> inst_in_range (local_instant v) ->
  (forall n', f (lclock v) x = Ok n' -> inst_in_range (lday v * D + n' - dt_off v * NANOS_PER_SEC) ->
     exists v', dt_set_time_with f v x = Ok v' /\ local_instant v' = lday v * D + n' /\ dt_off v' = dt_off v) /\
  (forall e, f (lclock v) x = Err e -> dt_set_time_with f v x = Err e).
Proof.
  intros I R. unfold dt_set_time_with. rewrite dt_local_ok by exact R. cbn [bind]. fold (lday v) (lclock v).
  split.
  - intros n' E R2. rewrite E. cbn [bind]. rewrite try_remove_offset_from_dn_ok by exact R2. cbn [bind].
    eexists. split; [reflexivity|]. unfold local_instant, instant. cbn [dt_days dt_nanos dt_off]. fold D.
    split; [|reflexivity].
    pose proof (Z.div_mod (lday v * D + n' - dt_off v * NANOS_PER_SEC) D ltac:(unfold D, NANOS_PER_DAY; lia)). lia.
  - intros e E. rewrite E. reflexivity.
Qed.

Theorem c09_dt_clear_with f v : Inv_dt v -> inst_in_range (local_instant v) ->
  forall c, f (lclock v) = Ok c -> inst_in_range (lday v * D + c - dt_off v * NANOS_PER_SEC) ->
     exists v', dt_clear_with f v = Ok v' /\ local_instant v' = lday v * D + c /\ dt_off v' = dt_off v.
Proof.
  intros I R c E R2. unfold dt_clear_with. rewrite dt_local_ok by exact R. cbn [bind]. fold (lday v) (lclock v).
  rewrite E. cbn [bind]. rewrite remove_offset_from_dn_ok by exact R2. cbn [bind].
  eexists. split; [reflexivity|]. unfold local_instant, instant. cbn [dt_days dt_nanos dt_off]. fold D.
  split; [|reflexivity].
  pose proof (Z.div_mod (lday v * D + c - dt_off v * NANOS_PER_SEC) D ltac:(unfold D, NANOS_PER_DAY; lia)). lia.
Qed.

Theorem c09_dt_clear_until_hour v : Inv_dt v -> inst_in_range (local_instant v) ->
  inst_in_range (lday v * D - dt_off v * NANOS_PER_SEC) ->
  exists v', dt_clear_until_hour v = Ok v' /\ local_instant v' = lday v * D /\ dt_off v' = dt_off v.
Proof.
  intros I R R2. unfold dt_clear_until_hour. rewrite dt_local_ok by exact R. cbn [bind]. fold (lday v).
  replace (lday v * D - dt_off v * NANOS_PER_SEC) with (lday v * D + 0 - dt_off v * NANOS_PER_SEC) in R2 by lia.
  rewrite remove_offset_from_dn_ok by exact R2. cbn [bind].
  eexists. split; [reflexivity|]. unfold local_instant, instant. cbn [dt_days dt_nanos dt_off]. fold D.
  split; [|reflexivity].
  pose proof (Z.div_mod (lday v * D + 0 - dt_off v * NANOS_PER_SEC) D ltac:(unfold D, NANOS_PER_DAY; lia)). lia.
Qed.

(* date-level clears: local midnight of the first day of the local month / year, or of 0001-01-01 *)
Theorem c09_dt_clear_until_day v : Inv_dt v -> inst_in_range (local_instant v) ->
  let '(y, m, _) := days_to_date (lday v) in
  in_range (y, m, 1) -> inst_in_range (rd (y, m, 1) * D - dt_off v * NANOS_PER_SEC) ->
  exists v', dt_clear_until_day v = Ok v' /\ local_instant v' = rd (y, m, 1) * D /\ dt_off v' = dt_off v.
Proof.
  intros I R. destruct (days_to_date_rd (lday v)) as [V _]. unfold dt_clear_until_day.
  rewrite dt_local_ok by exact R. cbn [bind]. fold (lday v).
  destruct (days_to_date (lday v)) as [[y m] dd]. intros Rg R2. destruct V as (Hy & Hm & Hd).
  assert (V1 : valid (y, m, 1)) by (unfold valid; pose proof (mlen_bounds y m); lia).
  rewrite date_to_days_ok by assumption. cbn [unwrap bind].
  replace (rd (y, m, 1) * D - dt_off v * NANOS_PER_SEC) with (rd (y, m, 1) * D + 0 - dt_off v * NANOS_PER_SEC) in R2 by lia.
  rewrite remove_offset_from_dn_ok by exact R2. cbn [bind].
  eexists. split; [reflexivity|]. unfold local_instant, instant. cbn [dt_days dt_nanos dt_off]. fold D.
  split; [|reflexivity].
  pose proof (Z.div_mod (rd (y, m, 1) * D + 0 - dt_off v * NANOS_PER_SEC) D ltac:(unfold D, NANOS_PER_DAY; lia)). lia.
Qed.
Theorem c09_dt_clear_until_month v : Inv_dt v -> inst_in_range (local_instant v) ->
  let '(y, _, _) := days_to_date (lday v) in
  in_range (y, 1, 1) -> inst_in_range (rd (y, 1, 1) * D - dt_off v * NANOS_PER_SEC) ->
  exists v', dt_clear_until_month v = Ok v' /\ local_instant v' = rd (y, 1, 1) * D /\ dt_off v' = dt_off v.
Proof.
  intros I R. destruct (days_to_date_rd (lday v)) as [V _]. unfold dt_clear_until_month.
  rewrite dt_local_ok by exact R. cbn [bind]. fold (lday v).
  destruct (days_to_date (lday v)) as [[y m] dd]. intros Rg R2. destruct V as (Hy & Hm & Hd).
  assert (V1 : valid (y, 1, 1)) by (unfold valid; pose proof (mlen_bounds y 1); lia).
  rewrite date_to_days_ok by assumption. cbn [unwrap bind].
  replace (rd (y, 1, 1) * D - dt_off v * NANOS_PER_SEC) with (rd (y, 1, 1) * D + 0 - dt_off v * NANOS_PER_SEC) in R2 by lia.
  rewrite remove_offset_from_dn_ok by exact R2. cbn [bind].
  eexists. split; [reflexivity|]. unfold local_instant, instant. cbn [dt_days dt_nanos dt_off]. fold D.
  split; [|reflexivity].
  pose proof (Z.div_mod (rd (y, 1, 1) * D + 0 - dt_off v * NANOS_PER_SEC) D ltac:(unfold D, NANOS_PER_DAY; lia)). lia.
Qed.
Theorem c09_dt_clear_until_year v : off_ok (dt_off v) ->
  exists v', dt_clear_until_year v = Ok v' /\ local_instant v' = 0 /\ dt_off v' = dt_off v.
Proof.
  intros Ho. unfold dt_clear_until_year.
  assert (R2 : inst_in_range (0 * D + 0 - dt_off v * NANOS_PER_SEC)).
  { revert Ho. unfold off_ok, inst_in_range, MIN_I, MAX_I, D, NANOS_PER_DAY, NANOS_PER_SEC, SECS_PER_DAY, I32_MIN, I32_MAX. lia. }
  rewrite remove_offset_from_dn_ok by exact R2. cbn [bind].
  eexists. split; [reflexivity|]. unfold local_instant, instant. cbn [dt_days dt_nanos dt_off]. fold D.
  split; [|reflexivity].
  pose proof (Z.div_mod (0 * D + 0 - dt_off v * NANOS_PER_SEC) D ltac:(unfold D, NANOS_PER_DAY; lia)). lia.
Qed.

(* Date setters: exactly the named field of (year, month, day) is replaced, or the call is refused *)
Theorem c09_date_set_year d y' : let '(y, m, dd) := days_to_date d in
  (valid (y', m, dd) /\ in_range (y', m, dd) -> exists d', set_year d y' = Ok d' /\ days_to_date d' = (y', m, dd)) /\
  (~ (valid (y', m, dd) /\ in_range (y', m, dd)) -> exists n a b v, set_year d y' = Err (EOor n a b v)).
Proof.
  destruct (days_to_date_rd d) as [V _]. unfold set_year. destruct (days_to_date d) as [[y m] dd].
  destruct V as (_ & Hm & Hd). split.
  - intros [V' R]. destruct (c01_accept y' m dd V' R) as (n & _ & E & E2). exists n. split; assumption.
  - intros H. apply date_to_days_err; [lia | lia | exact H].
Qed.
Theorem c09_date_set_month d m' : 0 <= m' -> let '(y, m, dd) := days_to_date d in
  (valid (y, m', dd) /\ in_range (y, m', dd) -> exists d', set_month d m' = Ok d' /\ days_to_date d' = (y, m', dd)) /\
  (~ (valid (y, m', dd) /\ in_range (y, m', dd)) -> exists n a b v, set_month d m' = Err (EOor n a b v)).
Proof.
  intros Hm'. destruct (days_to_date_rd d) as [V _]. unfold set_month. destruct (days_to_date d) as [[y m] dd].
  destruct V as (_ & Hm & Hd). split.
  - intros [V' R]. destruct (c01_accept y m' dd V' R) as (n & _ & E & E2). exists n. split; assumption.
  - intros H. apply date_to_days_err; [lia | lia | exact H].
Qed.
Theorem c09_date_set_day d d0 : 0 <= d0 -> let '(y, m, dd) := days_to_date d in
  (valid (y, m, d0) /\ in_range (y, m, d0) -> exists d', set_day d d0 = Ok d' /\ days_to_date d' = (y, m, d0)) /\
  (~ (valid (y, m, d0) /\ in_range (y, m, d0)) -> exists n a b v, set_day d d0 = Err (EOor n a b v)).
Proof.
  intros Hd0. destruct (days_to_date_rd d) as [V _]. unfold set_day. destruct (days_to_date d) as [[y m] dd].
  destruct V as (_ & Hm & Hd). split.
  - intros [V' R]. destruct (c01_accept y m d0 V' R) as (n & _ & E & E2). exists n. split; assumption.
  - intros H. apply date_to_days_err; [lia | lia | exact H].
Qed.

(* Time setters: the local clock value is edited, the offset kept *)
Definition tlocal (t : TM) : Z := (tm_nanos t + tm_off t * NANOS_PER_SEC) mod D.
Theorem c09_time_set f t x : in_day t -> off_ok (tm_off t) ->
  (forall n', f (tlocal t) x = Ok n' -> 0 <= n' < D ->
     exists t', time_set_with f t x = Ok t' /\ tlocal t' = n' /\ tm_off t' = tm_off t /\ in_day t') /\
  (forall e, f (tlocal t) x = Err e -> time_set_with f t x = Err e).
Proof.
  intros I Ho. unfold time_set_with. rewrite add_offset_to_nanos_spec by assumption. fold (tlocal t). split.
  - intros n' E Hn'. rewrite E. cbn [bind]. eexists. split; [reflexivity|].
    unfold tlocal, in_day. cbn [tm_nanos tm_off]. rewrite remove_offset_from_nanos_spec by assumption.
    revert Hn' Ho. unfold D, off_ok, NANOS_PER_DAY, NANOS_PER_SEC, SECS_PER_DAY. intros Hn' Ho. repeat split; lia.
  - intros e E. rewrite E. reflexivity.
Qed.
Theorem c09_time_clear f t : in_day t -> off_ok (tm_off t) ->
  forall c, f (tlocal t) = Ok c -> 0 <= c < D ->
     exists t', time_clear_with f t = Ok t' /\ tlocal t' = c /\ tm_off t' = tm_off t /\ in_day t'.
Proof.
  intros I Ho c E Hc. unfold time_clear_with. rewrite add_offset_to_nanos_spec by assumption. fold (tlocal t).
  rewrite E. cbn [bind]. eexists. split; [reflexivity|].
  unfold tlocal, in_day. cbn [tm_nanos tm_off]. rewrite remove_offset_from_nanos_spec by assumption.
  revert Hc Ho. unfold D, off_ok, NANOS_PER_DAY, NANOS_PER_SEC, SECS_PER_DAY. intros Hc Ho. repeat split; lia.
Qed.

(* clears on a clock value: which fields survive *)
Theorem clear_clock_spec n : 0 <= n < D ->
  let '(h, m, s, ns) := clock_fields n in
  clear_nanos_until_minute n = Ok (of_fields h 0 0 0) /\
  clear_nanos_until_second n = Ok (of_fields h m 0 0) /\
  clear_nanos_until_milli n = Ok (of_fields h m s 0) /\
  clear_nanos_until_micro n = Ok (of_fields h m s (ns / 1000000 * 1000000)) /\
  clear_nanos_until_nanos n = Ok (of_fields h m s (ns / 1000 * 1000)).
Proof.
  intros Hn. pose proof (fields_bounds n Hn) as B. unfold clock_fields in *.
  unfold clear_nanos_until_minute, clear_nanos_until_second, clear_nanos_until_milli, clear_nanos_until_micro, clear_nanos_until_nanos.
  rewrite nanos_to_time_spec by exact Hn.
  rewrite !time_nanos_to_nanos_ok by lia.
  revert Hn. unfold D, NANOS_PER_DAY, NANOS_PER_SEC. intros Hn.
  repeat split; f_equal; f_equal; lia.
Qed.

(* set_* never panic: an edit whose result is not representable is refused with an error *)
Theorem c15_dt_set_date_total f v x : Inv_dt v -> inst_in_range (local_instant v) ->
  f (lday v) x <> Panic -> dt_set_date_with f v x <> Panic.
Proof.
  intros I R Hf. unfold dt_set_date_with. rewrite dt_local_ok by exact R. cbn [bind]. fold (lday v) (lclock v).
  destruct (f (lday v) x) as [nd | e |]; cbn [bind]; [|discriminate|congruence].
  unfold try_remove_offset_from_dn, nanos_to_days_nanos. cbv zeta.
  destruct (in_i32b _); cbn [bind]; discriminate.
Qed.
Theorem c15_dt_set_time_total f v x : Inv_dt v -> inst_in_range (local_instant v) ->
  f (lclock v) x <> Panic -> dt_set_time_with f v x <> Panic.
Proof.
  intros I R Hf. unfold dt_set_time_with. rewrite dt_local_ok by exact R. cbn [bind]. fold (lday v) (lclock v).
  destruct (f (lclock v) x) as [nd | e |]; cbn [bind]; [|discriminate|congruence].
  unfold try_remove_offset_from_dn, nanos_to_days_nanos. cbv zeta.
  destruct (in_i32b _); cbn [bind]; discriminate.
Qed.
Lemma date_to_days_no_panic y m d : date_to_days y m d <> Panic.
Proof.
  unfold date_to_days. destruct (validate_date y m d) as [[] | e |] eqn:E; cbn [bind]; try discriminate.
  - destruct (year_month_to_doy y m) as [[doy md] | e |] eqn:E2; cbn [bind]; try discriminate.
    + destruct (_ || _); discriminate.
    + unfold year_month_to_doy in E2. destruct (is_leap_year y); destruct m as [|p|p]; try discriminate;
      repeat (destruct p as [p|p|]; try discriminate).
  - unfold validate_date in E. repeat (destruct (_ : bool) in E; try discriminate).
Qed.
Lemma clock_setters_no_panic n x : 0 <= n < D -> 0 <= x ->
  set_hour n x <> Panic /\ set_minute n x <> Panic /\ set_second n x <> Panic /\
  set_milli n x <> Panic /\ set_micro n x <> Panic /\ set_nano n x <> Panic.
Proof.
  intros Hn Hx.
  pose proof (set_hour_spec n x Hn Hx) as A1. pose proof (set_minute_spec n x Hn Hx) as A2.
  pose proof (set_second_spec n x Hn Hx) as A3. pose proof (set_milli_spec n x Hn Hx) as A4.
  pose proof (set_micro_spec n x Hn Hx) as A5. pose proof (set_nano_spec n x Hn Hx) as A6.
  destruct (clock_fields n) as [[[h m] s] ns].
  repeat split.
  - destruct (Z.leb_spec x 23); [rewrite (proj1 A1) by lia | rewrite (proj2 A1) by lia]; discriminate.
  - destruct (Z.leb_spec x 59); [rewrite (proj1 A2) by lia | rewrite (proj2 A2) by lia]; discriminate.
  - destruct (Z.leb_spec x 59); [rewrite (proj1 A3) by lia | rewrite (proj2 A3) by lia]; discriminate.
  - destruct (Z.leb_spec x 999); [rewrite (proj1 A4) by lia | rewrite (proj2 A4) by lia]; discriminate.
  - destruct (Z.leb_spec x 999999); [rewrite (proj1 A5) by lia | rewrite (proj2 A5) by lia]; discriminate.
  - destruct (Z.leb_spec x 999999999); [rewrite (proj1 A6) by lia | rewrite (proj2 A6) by lia]; discriminate.
Qed.
