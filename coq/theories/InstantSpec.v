(* InstantSpec.v — the time line the properties talk about: an instant is a number of
   nanoseconds since 0001-01-01T00:00:00Z; representable instants; local reading. *)
From Astro Require Import Base ApiModel.

Definition instant (v : DT) : Z := dt_days v * NANOS_PER_DAY + dt_nanos v.
Definition MIN_I : Z := I32_MIN * NANOS_PER_DAY.
Definition MAX_I : Z := I32_MAX * NANOS_PER_DAY + NANOS_PER_DAY - 1.
Definition inst_in_range (t : Z) : Prop := MIN_I <= t <= MAX_I.
Definition inst_in_rangeb (t : Z) : bool := (MIN_I <=? t) && (t <=? MAX_I).

Definition off_ok (o : Z) : Prop := - SECS_PER_DAY < o < SECS_PER_DAY.
Definition Inv_dt (v : DT) : Prop := in_i32 (dt_days v) /\ 0 <= dt_nanos v < NANOS_PER_DAY /\ off_ok (dt_off v).
Definition Inv_tm (t : TM) : Prop := 0 <= tm_nanos t < NANOS_PER_DAY /\ off_ok (tm_off t).
Definition Inv_dtb (v : DT) : bool :=
  in_i32b (dt_days v) && (0 <=? dt_nanos v) && (dt_nanos v <? NANOS_PER_DAY)
  && (- SECS_PER_DAY <? dt_off v) && (dt_off v <? SECS_PER_DAY).
Definition Inv_tmb (t : TM) : bool :=
  (0 <=? tm_nanos t) && (tm_nanos t <? NANOS_PER_DAY) && (- SECS_PER_DAY <? tm_off t) && (tm_off t <? SECS_PER_DAY).

(* the instant as read on a clock that runs `off` seconds ahead of UTC *)
Definition local_instant (v : DT) : Z := instant v + dt_off v * NANOS_PER_SEC.

(* Unix timestamps *)
Definition EPOCH_SECS : Z := DAYS_TO_1970 * SECS_PER_DAY.
Definition ts_in_range (t : Z) : Prop :=
  I32_MIN * SECS_PER_DAY <= t + EPOCH_SECS <= I32_MAX * SECS_PER_DAY + SECS_PER_DAY - 1.
Definition ts_in_rangeb (t : Z) : bool :=
  (I32_MIN * SECS_PER_DAY <=? t + EPOCH_SECS) && (t + EPOCH_SECS <=? I32_MAX * SECS_PER_DAY + SECS_PER_DAY - 1).
