(* CasesC01.v — correspondence and specification oracle for C01, evaluated by vm_compute
   on the cases the harness observed on the implementation. *)
From Astro Require Import Base CalSpec DateModel Cases.

Definition date_eqb (a b : date) : bool :=
  let '(y1, m1, d1) := a in let '(y2, m2, d2) := b in (y1 =? y2) && (m1 =? m2) && (d1 =? d2).

Definition check_C01 (c : case) : Z :=
  match c_op c, c_ints c, c_out c with
  (* day number d reached through from_timestamp: [days; y m dd; has_next; y' m' dd'; rt] where rt is the
     day number from_ymd(y, m, dd) gives back and (y', m', dd') the date of d + 1 *)
  | (Op_date_of_days | Op_dt_of_days), [d], OOk [days; y; m; dd; has_next; y'; m'; dd'; rt] [] =>
      let x := (y, m, dd) in
      let model_ok := (days =? d) && date_eqb (days_to_date d) x
                      && ((has_next =? 0) || date_eqb (days_to_date (d + 1)) (y', m', dd'))
                      && (match date_to_days y m dd with Ok n => n =? rt | _ => false end) in
      let spec_ok := validb x && in_rangeb x
                     && ((has_next =? 0) || date_eqb (next_date x) (y', m', dd'))
                     && (rt =? d) && (days =? d) in
      verdict model_ok spec_ok
  (* from_ymd(y, m, d): Ok [days; y2; m2; d2] (day number and read-back) or Err *)
  | (Op_date_from_ymd | Op_dt_from_ymd), [y; m; d], out =>
      let x := (y, m, d) in
      let mo := obs_of (fun n => let '(y2, m2, d2) := days_to_date n in OOk [n; y2; m2; d2] []) (date_to_days y m d) in
      let model_ok := obs_same_class mo out in
      let spec_ok :=
        if validb x && in_rangeb x then
          match out with OOk [n; y2; m2; d2] [] => date_eqb (y2, m2, d2) x && in_i32b n | _ => false end
        else match out with OErr 1 _ => true | _ => false end in
      verdict model_ok spec_ok
  | _, _, _ => V_MALFORMED
  end.
