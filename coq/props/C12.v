(* C12 — placeholder (extended below). *)
From Astro Require Import Base Text FormatModel.
Theorem C12_placeholder : parse_format_string [] = []. Proof. exact eq_refl. Qed.
Print Assumptions C12_placeholder.
