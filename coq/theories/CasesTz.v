(* CasesTz.v — correspondence and specification oracles for C18 and C19. *)
From Astro Require Import Base Text CalSpec DateModel TimeModel ApiModel TzModel TzSpec Cases DateProofs.

Definition lookups (tz : timezone) (ts : list Z) : obs :=
  let fix go (l : list Z) (acc : list Z) : obs :=
    match l with
    | [] => OOk (rev acc) []
    | t :: tl => match to_local_time_type tz t with TzOk u => go tl (u :: acc) | TzErr => OErr 3 [] | TzPanic => OPanic end
    end in go ts [].
Definition model_tz (bs : bytes) (ts : list Z) : obs :=
  match from_tzif bs with TzOk tz => lookups tz ts | TzErr => OErr 3 [] | TzPanic => OPanic end.

(* decoding the AST the harness sent along with a synthesized file *)
Definition dec_day (k a b c : Z) : sday := match k with 0 => SJ a | 1 => SN a | _ => SM a b c end.
Fixpoint take_pairs (n : nat) (l : list Z) : list (Z * Z) * list Z :=
  match n, l with
  | S k, a :: b :: tl => let '(ps, r) := take_pairs k tl in ((a, b) :: ps, r)
  | _, _ => ([], l)
  end.
Definition dec_ast (l : list Z) : option tzfile :=
  match l with
  | _ver :: ntr :: tl =>
      let '(trans, tl) := take_pairs (Z.to_nat ntr) tl in
      match tl with
      | nty :: tl =>
          let types := firstn (Z.to_nat nty) tl in
          match skipn (Z.to_nat nty) tl with
          | [0] => Some (mkTzf trans types None)
          | [1; u] => Some (mkTzf trans types (Some (SFixed u)))
          | [2; std; dst; k1; a1; b1; c1; t1; k2; a2; b2; c2; t2] =>
              Some (mkTzf trans types (Some (SAlt (mkSalt std dst (dec_day k1 a1 b1 c1) t1 (dec_day k2 a2 b2 c2) t2))))
          | _ => None end
      | _ => None end
  | _ => None
  end.
Definition year_of_day (d : Z) : Z := fst (fst (days_to_date d)).

Definition check_C18 (c : case) : Z :=
  match c_op c, c_strs c, c_ints c with
  | Op_tz_synth, [bs], n :: rest =>
      let ts := firstn (Z.to_nat n) rest in
      let spec := match dec_ast (skipn (Z.to_nat n) rest) with
                  | Some f => match c_out c with
                              | OOk offs [] => (Nat.eqb (length offs) (length ts)) &&
                                               forallb (fun p => match spec_lookup year_of_day f (fst p) with Some u => u =? snd p | None => false end) (combine ts offs)
                              | _ => false end
                  | None => false end in
      verdict (obs_eqb (model_tz bs ts) (c_out c)) spec
  | Op_tz_expect, [bs], n :: rest =>
      (* real zone file: expected offsets computed by CPython's zoneinfo *)
      let ts := firstn (Z.to_nat n) rest in
      let exp := skipn (Z.to_nat n) rest in
      verdict (obs_eqb (model_tz bs ts) (c_out c)) (obs_eqb (OOk exp []) (c_out c))
  | _, _, _ => V_MALFORMED
  end.

Definition check_C19 (c : case) : Z :=
  match c_op c, c_strs c, c_ints c with
  | Op_tz_lookup, [bs], n :: rest =>
      let ts := firstn (Z.to_nat n) rest in
      verdict (obs_eqb (model_tz bs ts) (c_out c)) (negb (match c_out c with OPanic => true | _ => false end))
  | Op_tz_local, [bs], [] =>
      (* Offset::Local.resolve() observed with the file bs bind-mounted over /etc/localtime; the observation carries the clock reading *)
      match c_out c with
      | OOk [now_ts; off] [] =>
          verdict (match resolve_local (Some bs) now_ts with TzOk u => u =? off | _ => false end) true
      | OPanic => verdict (match from_tzif bs with TzPanic => true | _ => false end) false
      | _ => V_MALFORMED end
  | _, _, _ => V_MALFORMED
  end.
